import AfkakProofs.Wire.Group
/-!
# The guard of `_group_payloads`: the grouped structure holds as many payloads as were given exactly
when no (topic, partition) is named twice
-/
namespace Afkak.Wire
open Afkak Afkak.Monitor.C04

variable {α : Type}

abbrev Grouped (α : Type) := List (Option Bytes × List (Int × α))

/-- the (topic, partition) pair is present in the grouped structure -/
def keyIn (out : Grouped α) (t : Option Bytes) (p : Int) : Prop := ∃ e ∈ out, e.1 = t ∧ ∃ q ∈ e.2, q.1 = p

/-- keys of a Python dict are distinct, at both levels -/
def GInv (out : Grouped α) : Prop := (out.map (·.1)).Nodup ∧ ∀ e ∈ out, (e.2.map (·.1)).Nodup

theorem payloadCount_append (a b : Grouped α) : payloadCount (a ++ b) = payloadCount a + payloadCount b := by
  simp [payloadCount, List.map_append, List.sum_append]

theorem payloadCount_cons (e : Option Bytes × List (Int × α)) (b : Grouped α) :
    payloadCount (e :: b) = e.2.length + payloadCount b := by
  simp [payloadCount]

/-! ## a dict with distinct keys, split at a key -/

theorem dict_split {κ ν : Type} [BEq κ] [LawfulBEq κ] (d : List (κ × ν)) (k : κ) (hk : k ∈ d.map (·.1))
    (hnd : (d.map (·.1)).Nodup) :
    ∃ a old b, d = a ++ (k, old) :: b ∧ k ∉ a.map (·.1) ∧ k ∉ b.map (·.1) := by
  obtain ⟨e, he, hek⟩ := List.mem_map.mp hk
  obtain ⟨a, b, hab⟩ := List.append_of_mem he
  obtain ⟨k', old⟩ := e
  simp only at hek
  subst hek
  refine ⟨a, old, b, hab, ?_, ?_⟩
  · intro h
    rw [hab, List.map_append, List.map_cons, List.nodup_append] at hnd
    exact hnd.2.2 k' h k' List.mem_cons_self rfl
  · intro h
    rw [hab, List.map_append, List.map_cons, List.nodup_append, List.nodup_cons] at hnd
    exact hnd.2.1.1 h

theorem dictSet_split {κ ν : Type} [BEq κ] [LawfulBEq κ] (a b : List (κ × ν)) (k : κ) (old v : ν)
    (ha : k ∉ a.map (·.1)) (hb : k ∉ b.map (·.1)) :
    dictSet (a ++ (k, old) :: b) k v = a ++ (k, v) :: b := by
  unfold dictSet
  have hany : (a ++ (k, old) :: b).any (fun e => e.1 == k) = true := by
    rw [List.any_eq_true]; exact ⟨(k, old), by simp, by simp⟩
  simp only [hany, if_true, List.map_append, List.map_cons, beq_self_eq_true]
  have hfix : ∀ (l : List (κ × ν)), k ∉ l.map (·.1) →
      l.map (fun e => if (e.1 == k) = true then (e.1, v) else e) = l := by
    intro l hl
    have : l.map (fun e => if (e.1 == k) = true then (e.1, v) else e) = l.map id := by
      apply List.map_congr_left
      intro e he
      have : ¬ (e.1 = k) := fun h => hl (List.mem_map.mpr ⟨e, he, h⟩)
      simp [this]
    rw [this, List.map_id]
  rw [hfix a ha, hfix b hb]

theorem dictGet_split {κ ν : Type} [BEq κ] [LawfulBEq κ] (a b : List (κ × ν)) (k : κ) (old : ν)
    (ha : k ∉ a.map (·.1)) : dictGet (a ++ (k, old) :: b) k = some old := by
  unfold dictGet
  have : a.filter (fun e => e.1 == k) = [] := by
    rw [List.filter_eq_nil_iff]
    intro e he
    simp only [beq_iff_eq]
    exact fun h => ha (List.mem_map.mpr ⟨e, he, h⟩)
  simp [List.filter_append, this]

theorem dictGet_none {κ ν : Type} [BEq κ] [LawfulBEq κ] (d : List (κ × ν)) (k : κ) (h : k ∉ d.map (·.1)) :
    dictGet d k = none := by
  unfold dictGet
  have : d.filter (fun e => e.1 == k) = [] := by
    rw [List.filter_eq_nil_iff]
    intro e he
    simp only [beq_iff_eq]
    exact fun hh => h (List.mem_map.mpr ⟨e, he, hh⟩)
  simp [this]

/-! ## one step of the grouping fold -/

def gstep (topic : α → Option Bytes) (partition : α → Int) (out : Grouped α) (x : α) : Grouped α :=
  dictSet out (topic x) (dictSet ((dictGet out (topic x)).getD []) (partition x) x)

/-- one payload more if its key is new, the same number if it replaces an earlier payload -/
theorem gstep_spec (topic : α → Option Bytes) (partition : α → Int) (out : Grouped α) (x : α) (hI : GInv out) :
    GInv (gstep topic partition out x)
    ∧ (∀ t p, keyIn out t p → keyIn (gstep topic partition out x) t p)
    ∧ keyIn (gstep topic partition out x) (topic x) (partition x)
    ∧ ((¬ keyIn out (topic x) (partition x) ∧ payloadCount (gstep topic partition out x) = payloadCount out + 1)
       ∨ (keyIn out (topic x) (partition x) ∧ payloadCount (gstep topic partition out x) = payloadCount out)) := by
  unfold gstep
  by_cases ht : topic x ∈ out.map (·.1)
  · obtain ⟨a, old, b, hab, ha, hb⟩ := dict_split out (topic x) ht hI.1
    have hold : (old.map (·.1)).Nodup := hI.2 (topic x, old) (by rw [hab]; simp)
    rw [hab, dictGet_split a b (topic x) old ha, Option.getD_some]
    by_cases hp : partition x ∈ old.map (·.1)
    · obtain ⟨c, y, d, hcd, hc, hd⟩ := dict_split old (partition x) hp hold
      rw [hcd, dictSet_split c d (partition x) y x hc hd, dictSet_split a b (topic x) _ _ ha hb]
      refine ⟨⟨?_, ?_⟩, ?_, ?_, Or.inr ⟨?_, ?_⟩⟩
      · have := hI.1; rw [hab] at this; simpa using this
      · intro e he
        rcases List.mem_append.mp he with h | h
        · exact hI.2 e (by rw [hab]; exact List.mem_append_left _ h)
        · rcases List.mem_cons.mp h with rfl | h
          · simp only [List.map_append, List.map_cons]
            have := hold; rw [hcd] at this; simpa using this
          · exact hI.2 e (by rw [hab]; exact List.mem_append_right _ (List.mem_cons_of_mem _ h))
      · intro t p ⟨e, he, het, q, hq, hqp⟩
        rcases List.mem_append.mp he with h | h
        · exact ⟨e, List.mem_append_left _ h, het, q, hq, hqp⟩
        · rcases List.mem_cons.mp h with rfl | h
          · refine ⟨(topic x, c ++ (partition x, x) :: d), by simp, het, ?_⟩
            simp only at hq
            rcases List.mem_append.mp hq with h' | h'
            · exact ⟨q, List.mem_append_left _ h', hqp⟩
            · rcases List.mem_cons.mp h' with rfl | h'
              · exact ⟨(partition x, x), by simp, hqp⟩
              · exact ⟨q, List.mem_append_right _ (List.mem_cons_of_mem _ h'), hqp⟩
          · exact ⟨e, List.mem_append_right _ (List.mem_cons_of_mem _ h), het, q, hq, hqp⟩
      · exact ⟨(topic x, c ++ (partition x, x) :: d), by simp, rfl, (partition x, x), by simp, rfl⟩
      · exact ⟨(topic x, c ++ (partition x, y) :: d), by simp, rfl, (partition x, y), by simp, rfl⟩
      · simp only [payloadCount_append, payloadCount_cons, List.length_append, List.length_cons]
    · rw [dictSet_append_of_not_mem old (partition x) x (fun e he hep => hp (List.mem_map.mpr ⟨e, he, hep⟩)),
        dictSet_split a b (topic x) _ _ ha hb]
      refine ⟨⟨?_, ?_⟩, ?_, ?_, Or.inl ⟨?_, ?_⟩⟩
      · have := hI.1; rw [hab] at this; simpa using this
      · intro e he
        rcases List.mem_append.mp he with h | h
        · exact hI.2 e (by rw [hab]; exact List.mem_append_left _ h)
        · rcases List.mem_cons.mp h with rfl | h
          · simp only [List.map_append, List.map_cons, List.map_nil]
            rw [List.nodup_append]
            exact ⟨hold, by simp, by intro u hu v hv; simp at hv; subst hv; exact fun h => hp (h ▸ hu)⟩
          · exact hI.2 e (by rw [hab]; exact List.mem_append_right _ (List.mem_cons_of_mem _ h))
      · intro t p ⟨e, he, het, q, hq, hqp⟩
        rcases List.mem_append.mp he with h | h
        · exact ⟨e, List.mem_append_left _ h, het, q, hq, hqp⟩
        · rcases List.mem_cons.mp h with rfl | h
          · exact ⟨(topic x, old ++ [(partition x, x)]), by simp, het, q, List.mem_append_left _ hq, hqp⟩
          · exact ⟨e, List.mem_append_right _ (List.mem_cons_of_mem _ h), het, q, hq, hqp⟩
      · exact ⟨(topic x, old ++ [(partition x, x)]), by simp, rfl, (partition x, x), by simp, rfl⟩
      · intro ⟨e, he, het, q, hq, hqp⟩
        -- the only entry with this topic is `old`
        rcases List.mem_append.mp he with h | h
        · exact ha (List.mem_map.mpr ⟨e, h, het⟩)
        · rcases List.mem_cons.mp h with rfl | h
          · exact hp (List.mem_map.mpr ⟨q, hq, hqp⟩)
          · exact hb (List.mem_map.mpr ⟨e, h, het⟩)
      · simp only [payloadCount_append, payloadCount_cons, List.length_append, List.length_cons, List.length_nil]
        omega
  · rw [dictGet_none out (topic x) ht, Option.getD_none]
    have hin : dictSet ([] : List (Int × α)) (partition x) x = [(partition x, x)] := by simp [dictSet]
    rw [hin, dictSet_append_of_not_mem out (topic x) _ (fun e he het => ht (List.mem_map.mpr ⟨e, he, het⟩))]
    refine ⟨⟨?_, ?_⟩, ?_, ?_, Or.inl ⟨?_, ?_⟩⟩
    · rw [List.map_append, List.nodup_append]
      exact ⟨hI.1, by simp, by intro u hu v hv; simp at hv; subst hv; exact fun h => ht (h ▸ hu)⟩
    · intro e he
      rcases List.mem_append.mp he with h | h
      · exact hI.2 e h
      · simp at h; subst h; simp
    · intro t p ⟨e, he, r⟩
      exact ⟨e, List.mem_append_left _ he, r⟩
    · exact ⟨(topic x, [(partition x, x)]), by simp, rfl, (partition x, x), by simp, rfl⟩
    · intro ⟨e, he, het, _⟩
      exact ht (List.mem_map.mpr ⟨e, he, het⟩)
    · simp [payloadCount]

/-! ## the whole fold -/

theorem gfold_bound (topic : α → Option Bytes) (partition : α → Int) :
    ∀ (xs : List α) (acc : Grouped α), GInv acc →
      payloadCount (xs.foldl (gstep topic partition) acc) ≤ payloadCount acc + xs.length
      ∧ (payloadCount (xs.foldl (gstep topic partition) acc) = payloadCount acc + xs.length →
          (xs.map (fun x => (topic x, partition x))).Nodup ∧ ∀ x ∈ xs, ¬ keyIn acc (topic x) (partition x)) := by
  intro xs
  induction xs with
  | nil => intro acc _; simp
  | cons x xs ih =>
    intro acc hI
    obtain ⟨hI', hmono, hnow, hcount⟩ := gstep_spec topic partition acc x hI
    obtain ⟨hb, heq⟩ := ih (gstep topic partition acc x) hI'
    simp only [List.foldl_cons, List.length_cons]
    constructor
    · rcases hcount with ⟨_, hc⟩ | ⟨_, hc⟩ <;> omega
    · intro htot
      rcases hcount with ⟨hnew, hc⟩ | ⟨_, hc⟩
      · have := heq (by omega)
        refine ⟨?_, ?_⟩
        · simp only [List.map_cons, List.nodup_cons]
          refine ⟨?_, this.1⟩
          intro hmem
          obtain ⟨y, hy, hyk⟩ := List.mem_map.mp hmem
          simp only [Prod.mk.injEq] at hyk
          exact this.2 y hy (by rw [hyk.1, hyk.2]; exact hnow)
        · intro y hy
          rcases List.mem_cons.mp hy with rfl | hy'
          · exact hnew
          · exact fun hk => this.2 y hy' (hmono _ _ hk)
      · omega

/-- **What the guard of `_group_payloads` means**: the encoders accept a payload list exactly when it
    names no (topic, partition) twice. -/
theorem payloadCount_eq_iff_nodup (topic : α → Option Bytes) (partition : α → Int) (xs : List α)
    (h : payloadCount (groupByTopicPartition topic partition xs) = xs.length) :
    (xs.map (fun x => (topic x, partition x))).Nodup := by
  have := (gfold_bound topic partition xs [] ⟨by simp, by simp⟩).2
  have h0 : payloadCount ([] : Grouped α) = 0 := rfl
  rw [h0, Nat.zero_add] at this
  exact (this h).1

end Afkak.Wire
