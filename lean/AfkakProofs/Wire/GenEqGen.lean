import AfkakProofs.Wire.GenEqMeta
/-!
# Generated GENERATOR decoders equal the hand-written models

`decode_offset_commit_response`, `decode_offset_fetch_response`, `decode_offset_response` and the two
nested generators `v0` / `v2` of `decode_produce_response` are Python generators.  The translator
emits them in the monad `Y item` of `GenPrims.lean` (items yielded so far, then a value or the
exception that ended the run).  The model's `G item` is the same pair with the final cursor;
`asG` / `endG` relate the two (`conv*` maps the yielded constructor-argument tuples to the model's
structures).  `foldlM_repeatG` turns a generated `for _i in range(n)` loop that advances the cursor
and yields into the model's `repeatG`.
-/
namespace Afkak.Wire
open Afkak Afkak.Bytes Afkak.Consts

theorem liftR_ok_bind {ι α β : Type} (a : α) (f : α → Y ι β) : ((liftR (Except.ok a) : Y ι α) >>= f) = f a := by
  show Y.bind _ _ = _
  simp [Y.bind, liftR]

theorem liftR_error_bind {ι α β : Type} (e : Err) (f : α → Y ι β) :
    ((liftR (Except.error e) : Y ι α) >>= f) = ([], .error e) := rfl

/-- what a generated generator (items `ι'`, converted by `conv`) is compared with: the model's `G` -/
def asG {ι' ι : Type} (conv : ι' → ι) (x : Y ι' Int) : G ι := (x.1.map conv, x.2)

/-- `for _i in range(n): <body that advances cur and yields>` in the generator monad is `repeatG` -/
theorem foldlM_repeatG {ι' ι κ : Type} (conv : ι' → ι) (body : Int → κ → Y ι' Int) (entry : Int → G ι)
    (h : ∀ cur i, asG conv (body cur i) = entry cur) (l : List κ) :
    ∀ cur, asG conv (List.foldlM body cur l) = repeatG entry l.length cur := by
  induction l with
  | nil => intro cur; rfl
  | cons i is ih =>
    intro cur
    rw [List.foldlM_cons]
    have hb := h cur i
    simp only [List.length_cons, repeatG, ← hb]
    show asG conv (Y.bind _ _) = _
    rcases hbody : body cur i with ⟨ys, r⟩
    cases r with
    | error e => simp [Y.bind, asG]
    | ok c1 =>
      have := ih c1
      simp only [Y.bind, asG] at this ⊢
      simp only [List.map_append, ← this]


/-- a generator's run compared with the model's: items, and how it ended (the final cursor dropped) -/
def endG {ι : Type} (x : G ι) : List ι × R Unit := (x.1, x.2.map (fun _ => ()))

theorem end_of {ι' ι : Type} (conv : ι' → ι) (X : Y ι' Int) :
    (((X >>= fun _ => (pure () : Y ι' Unit)).1.map conv, (X >>= fun _ => (pure () : Y ι' Unit)).2) : List ι × R Unit)
      = endG (asG conv X) := by
  rcases X with ⟨ys, r⟩
  cases r with
  | error e => rfl
  | ok c => simp [endG, asG, bind, Y.bind, pure, Y.pure, Except.map]

theorem bind_pure_Y {ι α : Type} (X : Y ι α) : (X >>= fun a => (pure a : Y ι α)) = X := by
  rcases X with ⟨ys, r⟩
  cases r with
  | error e => rfl
  | ok c => simp [bind, Y.bind, pure, Y.pure]

def convOC (t : Bytes × Int × Int) : OffsetCommitResp := ⟨t.1, t.2.1, t.2.2⟩

theorem gen_decodeOffsetCommitResponse (data : Bytes) :
    ((genDecodeOffsetCommitResponse data).1.map convOC, (genDecodeOffsetCommitResponse data).2)
      = endG (decodeOffsetCommitResponse data) := by
  simp only [genDecodeOffsetCommitResponse, decodeOffsetCommitResponse, ru1, ru2, gen_relativeUnpack, gen_readShortAscii,
    fmt_decode_offset_commit_response_0, fmt_decode_offset_commit_response_1]
  cases relativeUnpack ['>', 'i'] data 0 with
  | error e => rfl
  | ok r =>
    obtain ⟨vs, c⟩ := r
    match vs with
    | [] => rfl
    | [corr] =>
      simp only [liftR_ok_bind]
      cases relativeUnpack ['>', 'i'] data c with
      | error e => rfl
      | ok r1 =>
        obtain ⟨ws, c1⟩ := r1
        match ws with
        | [] => rfl
        | [nt] =>
          simp only [liftR_ok_bind]
          rw [end_of convOC, foldlM_repeatG convOC _ (offsetCommitTopic data)]
          · simp only [List.length_range]
          · intro cur i
            simp only [offsetCommitTopic, ru1, fmt_decode_offset_commit_response_2]
            cases readShortAscii data cur with
            | error e => rfl
            | ok r2 =>
              obtain ⟨topic, c2⟩ := r2
              simp only [liftR_ok_bind]
              cases relativeUnpack ['>', 'i'] data c2 with
              | error e => rfl
              | ok r3 =>
                obtain ⟨xs, c3⟩ := r3
                match xs with
                | [] => rfl
                | [np] =>
                  simp only [liftR_ok_bind, bind_pure_Y]
                  rw [foldlM_repeatG convOC _ (offsetCommitPartition data topic)]
                  · simp only [List.length_range]
                  · intro cur2 j
                    simp only [offsetCommitPartition, ru2, fmt_decode_offset_commit_response_3]
                    cases relativeUnpack ['>', 'i', 'h'] data cur2 with
                    | error e => rfl
                    | ok r4 =>
                      obtain ⟨zs, c4⟩ := r4
                      match zs with
                      | [] => rfl
                      | [_] => rfl
                      | [p, e] => rfl
                      | _ :: _ :: _ :: _ => rfl
                | _ :: _ :: _ => rfl
        | _ :: _ :: _ => rfl
    | _ :: _ :: _ => rfl


def convOF (t : Bytes × Int × Int × Option Bytes × Int) : OffsetFetchResp := ⟨t.1, t.2.1, t.2.2.1, t.2.2.2.1, t.2.2.2.2⟩

theorem gen_decodeOffsetFetchResponse (data : Bytes) :
    ((genDecodeOffsetFetchResponse data).1.map convOF, (genDecodeOffsetFetchResponse data).2)
      = endG (decodeOffsetFetchResponse data) := by
  simp only [genDecodeOffsetFetchResponse, decodeOffsetFetchResponse, ru1, gen_relativeUnpack, gen_readShortAscii,
    gen_readShortBytes, fmt_decode_offset_fetch_response_0, fmt_decode_offset_fetch_response_1]
  cases relativeUnpack ['>', 'i'] data 0 with
  | error e => rfl
  | ok r =>
    obtain ⟨vs, c⟩ := r
    match vs with
    | [] => rfl
    | [corr] =>
      simp only [liftR_ok_bind]
      cases relativeUnpack ['>', 'i'] data c with
      | error e => rfl
      | ok r1 =>
        obtain ⟨ws, c1⟩ := r1
        match ws with
        | [] => rfl
        | [nt] =>
          simp only [liftR_ok_bind]
          rw [end_of convOF, foldlM_repeatG convOF _ (offsetFetchTopic data)]
          · simp only [List.length_range]
          · intro cur i
            simp only [offsetFetchTopic, ru1, fmt_decode_offset_fetch_response_2]
            cases readShortAscii data cur with
            | error e => rfl
            | ok r2 =>
              obtain ⟨topic, c2⟩ := r2
              simp only [liftR_ok_bind]
              cases relativeUnpack ['>', 'i'] data c2 with
              | error e => rfl
              | ok r3 =>
                obtain ⟨xs, c3⟩ := r3
                match xs with
                | [] => rfl
                | [np] =>
                  simp only [liftR_ok_bind, bind_pure_Y]
                  rw [foldlM_repeatG convOF _ (offsetFetchPartition data topic)]
                  · simp only [List.length_range]
                  · intro cur2 j
                    simp only [offsetFetchPartition, ru2, ru1, fmt_decode_offset_fetch_response_3,
                      fmt_decode_offset_fetch_response_4]
                    cases relativeUnpack ['>', 'i', 'q'] data cur2 with
                    | error e => rfl
                    | ok r4 =>
                      obtain ⟨zs, c4⟩ := r4
                      match zs with
                      | [] => rfl
                      | [_] => rfl
                      | [p, o] =>
                        simp only [liftR_ok_bind]
                        cases readShortBytes data c4 with
                        | error e => rfl
                        | ok r5 =>
                          obtain ⟨md, c5⟩ := r5
                          simp only [liftR_ok_bind]
                          cases relativeUnpack ['>', 'h'] data c5 with
                          | error e => rfl
                          | ok r6 =>
                            obtain ⟨us, c6⟩ := r6
                            match us with
                            | [] => rfl
                            | [e] => rfl
                            | _ :: _ :: _ => rfl
                      | _ :: _ :: _ :: _ => rfl
                | _ :: _ :: _ => rfl
        | _ :: _ :: _ => rfl
    | _ :: _ :: _ => rfl

/-- a loop inside a generator whose body yields nothing is the lifted loop -/
theorem foldlM_liftR {ι α κ : Type} (body : α → κ → Y ι α) (bodyR : α → κ → R α)
    (h : ∀ a i, body a i = liftR (bodyR a i)) (l : List κ) :
    ∀ a, List.foldlM body a l = liftR (List.foldlM bodyR a l) := by
  induction l with
  | nil => intro a; rfl
  | cons i is ih =>
    intro a
    rw [List.foldlM_cons, List.foldlM_cons, h]
    cases bodyR a i with
    | error e => rfl
    | ok a' => rw [liftR_ok_bind, ok_bind, ih]

def convOR (t : Bytes × Int × Int × List Int) : OffsetResp := ⟨t.1, t.2.1, t.2.2.1, t.2.2.2⟩

theorem gen_decodeOffsetResponse (data : Bytes) :
    ((genDecodeOffsetResponse data).1.map convOR, (genDecodeOffsetResponse data).2)
      = endG (decodeOffsetResponse data) := by
  simp only [genDecodeOffsetResponse, decodeOffsetResponse, ru2, gen_relativeUnpack, gen_readShortAscii,
    fmt_decode_offset_response_0]
  cases relativeUnpack ['>', 'i', 'i'] data 0 with
  | error e => rfl
  | ok r =>
    obtain ⟨vs, c⟩ := r
    match vs with
    | [] => rfl
    | [_] => rfl
    | [corr, nt] =>
      simp only [liftR_ok_bind]
      rw [end_of convOR, foldlM_repeatG convOR _ (offsetTopic data)]
      · simp only [List.length_range]
      · intro cur i
        simp only [offsetTopic, ru1, fmt_decode_offset_response_1]
        cases readShortAscii data cur with
        | error e => rfl
        | ok r2 =>
          obtain ⟨topic, c2⟩ := r2
          simp only [liftR_ok_bind]
          cases relativeUnpack ['>', 'i'] data c2 with
          | error e => rfl
          | ok r3 =>
            obtain ⟨xs, c3⟩ := r3
            match xs with
            | [] => rfl
            | [np] =>
              simp only [liftR_ok_bind, bind_pure_Y]
              rw [foldlM_repeatG convOR _ (offsetPartition data topic)]
              · simp only [List.length_range]
              · intro cur2 j
                simp only [offsetPartition, ru3, fmt_decode_offset_response_2, fmt_decode_offset_response_3]
                cases relativeUnpack ['>', 'i', 'h', 'i'] data cur2 with
                | error e => rfl
                | ok r4 =>
                  obtain ⟨zs, c4⟩ := r4
                  match zs with
                  | [] => rfl
                  | [_] => rfl
                  | [_, _] => rfl
                  | [p, e, no] =>
                    simp only [liftR_ok_bind]
                    rw [foldlM_liftR _ (fun (x : Int × List Int) (_ : Nat) =>
                      match ru1 ['>', 'q'] data x.1 with
                      | .error e => .error e
                      | .ok (a, cur') => .ok (cur', x.2 ++ [a]))]
                    · rw [foldlM_repeat _ (ru1 ['>', 'q'] data) (fun cur acc i => by
                          dsimp only
                          cases ru1 ['>', 'q'] data cur with
                          | error e => rfl
                          | ok r => obtain ⟨a, c'⟩ := r; rfl)]
                      simp only [List.length_range]
                      cases repeatR (ru1 ['>', 'q'] data) no.toNat c4 with
                      | error e => rfl
                      | ok r5 => obtain ⟨os, c5⟩ := r5; simp only [liftR_ok_bind]; rfl
                    · intro a k
                      obtain ⟨cc, acc⟩ := a
                      simp only [ru1]
                      cases relativeUnpack ['>', 'q'] data cc with
                      | error e => rfl
                      | ok r5 =>
                        obtain ⟨qs, c5⟩ := r5
                        match qs with
                        | [] => rfl
                        | [o] => rfl
                        | _ :: _ :: _ => rfl
                  | _ :: _ :: _ :: _ :: _ => rfl
            | _ :: _ :: _ => rfl
    | _ :: _ :: _ :: _ => rfl

def convPR (t : Bytes × Int × Int × Int) : ProduceResp := ⟨t.1, t.2.1, t.2.2.1, t.2.2.2⟩

theorem gen_decodeProduceResponseV0 (data : Bytes) :
    ((genDecodeProduceResponseV0 data).1.map convPR, (genDecodeProduceResponseV0 data).2)
      = endG (match ru2 fmt_decode_produce_response_v0_0 data 0 with
          | .error e => ([], .error e)
          | .ok (_, numTopics, cur) =>
            produceTopics fmt_decode_produce_response_v0_1 fmt_decode_produce_response_v0_2 false data numTopics cur) := by
  simp only [genDecodeProduceResponseV0, produceTopics, ru2, gen_relativeUnpack, gen_readShortAscii,
    fmt_decode_produce_response_v0_0]
  cases relativeUnpack ['>', 'i', 'i'] data 0 with
  | error e => rfl
  | ok r =>
    obtain ⟨vs, c⟩ := r
    match vs with
    | [] => rfl
    | [_] => rfl
    | [corr, nt] =>
      simp only [liftR_ok_bind]
      rw [end_of convPR, foldlM_repeatG convPR _ (produceTopic fmt_decode_produce_response_v0_1 fmt_decode_produce_response_v0_2 false data)]
      · simp only [List.length_range]
      · intro cur i
        simp only [produceTopic, ru1, fmt_decode_produce_response_v0_1]
        cases readShortAscii data cur with
        | error e => rfl
        | ok r2 =>
          obtain ⟨topic, c2⟩ := r2
          simp only [liftR_ok_bind]
          cases relativeUnpack ['>', 'i'] data c2 with
          | error e => rfl
          | ok r3 =>
            obtain ⟨xs, c3⟩ := r3
            match xs with
            | [] => rfl
            | [np] =>
              simp only [liftR_ok_bind, bind_pure_Y]
              rw [foldlM_repeatG convPR _ (producePartition fmt_decode_produce_response_v0_2 false data topic)]
              · simp only [List.length_range]
              · intro cur2 j
                simp only [producePartition, ru3, fmt_decode_produce_response_v0_2, Bool.false_eq_true, if_false]
                cases relativeUnpack ['>', 'i', 'h', 'q'] data cur2 with
                | error e => rfl
                | ok r4 =>
                  obtain ⟨zs, c4⟩ := r4
                  match zs with
                  | [] => rfl
                  | [_] => rfl
                  | [_, _] => rfl
                  | [p, e, o] => rfl
                  | _ :: _ :: _ :: _ :: _ => rfl
            | _ :: _ :: _ => rfl
    | _ :: _ :: _ :: _ => rfl

/-- how a generator ends that, after its loops, makes one more fallible call and finishes -/
def endThen {ι β : Type} (g : G ι) (K : Int → R β) : List ι × R Unit :=
  match g with
  | (ys, .error e) => (ys, .error e)
  | (ys, .ok cur) => match K cur with
    | .error e => (ys, .error e)
    | .ok _ => (ys, .ok ())

theorem end_then {ι' ι β : Type} (conv : ι' → ι) (X : Y ι' Int) (K : Int → R β) :
    (((X >>= fun cur => (liftR (K cur) >>= fun _ => (pure () : Y ι' Unit))).1.map conv,
      (X >>= fun cur => (liftR (K cur) >>= fun _ => (pure () : Y ι' Unit))).2) : List ι × R Unit)
      = endThen (asG conv X) K := by
  rcases X with ⟨ys, r⟩
  cases r with
  | error e => rfl
  | ok c =>
    simp only [endThen, asG]
    show (List.map conv (Y.bind _ _).1, (Y.bind _ _).2) = _
    simp only [Y.bind]
    cases K c with
    | error e => simp [liftR, bind, Y.bind]
    | ok b => simp [liftR, bind, Y.bind, pure, Y.pure]

theorem gen_decodeProduceResponseV2 (data : Bytes) :
    ((genDecodeProduceResponseV2 data).1.map convPR, (genDecodeProduceResponseV2 data).2)
      = endG (match ru2 fmt_decode_produce_response_v2_0 data 0 with
          | .error e => ([], .error e)
          | .ok (_, numTopics, cur) =>
            match produceTopics fmt_decode_produce_response_v2_1 fmt_decode_produce_response_v2_2 true data numTopics cur with
            | (ys, .error e) => (ys, .error e)
            | (ys, .ok cur) =>
              match relativeUnpack fmt_decode_produce_response_v2_3 data cur with
              | .error e => (ys, .error e)
              | .ok (_, cur) => (ys, .ok cur)) := by
  simp only [genDecodeProduceResponseV2, produceTopics, ru2, gen_relativeUnpack, gen_readShortAscii,
    fmt_decode_produce_response_v2_0, fmt_decode_produce_response_v2_3]
  cases relativeUnpack ['>', 'i', 'i'] data 0 with
  | error e => rfl
  | ok r =>
    obtain ⟨vs, c⟩ := r
    match vs with
    | [] => rfl
    | [_] => rfl
    | [corr, nt] =>
      simp only [liftR_ok_bind]
      rw [end_then convPR, foldlM_repeatG convPR _ (produceTopic fmt_decode_produce_response_v2_1 fmt_decode_produce_response_v2_2 true data)]
      · simp only [List.length_range]
        rcases repeatG (produceTopic fmt_decode_produce_response_v2_1 fmt_decode_produce_response_v2_2 true data) nt.toNat c with ⟨ys, rr⟩
        cases rr with
        | error e => rfl
        | ok c1 =>
          simp only [endThen]
          cases relativeUnpack ['>', 'i'] data c1 with
          | error e => rfl
          | ok r5 => obtain ⟨ts, c5⟩ := r5; rfl
      · intro cur i
        simp only [produceTopic, ru1, fmt_decode_produce_response_v2_1]
        cases readShortAscii data cur with
        | error e => rfl
        | ok r2 =>
          obtain ⟨topic, c2⟩ := r2
          simp only [liftR_ok_bind]
          cases relativeUnpack ['>', 'i'] data c2 with
          | error e => rfl
          | ok r3 =>
            obtain ⟨xs, c3⟩ := r3
            match xs with
            | [] => rfl
            | [np] =>
              simp only [liftR_ok_bind, bind_pure_Y]
              rw [foldlM_repeatG convPR _ (producePartition fmt_decode_produce_response_v2_2 true data topic)]
              · simp only [List.length_range]
              · intro cur2 j
                simp only [producePartition, ru4, fmt_decode_produce_response_v2_2, if_true]
                cases relativeUnpack ['>', 'i', 'h', 'q', 'q'] data cur2 with
                | error e => rfl
                | ok r4 =>
                  obtain ⟨zs, c4⟩ := r4
                  match zs with
                  | [] => rfl
                  | [_] => rfl
                  | [_, _] => rfl
                  | [_, _, _] => rfl
                  | [p, e, o, l] => rfl
                  | _ :: _ :: _ :: _ :: _ :: _ => rfl
            | _ :: _ :: _ => rfl
    | _ :: _ :: _ :: _ => rfl

end Afkak.Wire
