import AfkakProofs.Wire.RespProofs3
import AfkakProofs.Wire.Group
/-!
# Metadata and the group assignment: arrays of int32 read with `">%di" % n`, and Python dicts
-/
namespace Afkak.Wire
open Afkak Afkak.Bytes Afkak.Codec Afkak.Consts Afkak.Monitor.C05

set_option synthInstance.maxSize 100000

/-! ## `relative_unpack(">%di" % n, …)` on an array body -/

theorem encAll_int32_length (vals : List Int) : (encAll int32 vals).length = 4 * vals.length := by
  induction vals with
  | nil => rfl
  | cons v vs ih => simp only [encAll, List.length_append, List.length_cons, ih, enc32, len32]; omega

theorem unpackBody_replicate (vals : List Int) (rest : Bytes) (hv : ∀ v ∈ vals, int32.valid v = true) :
    unpackBody (List.replicate vals.length 'i') (encAll int32 vals ++ rest) = some (vals, rest) := by
  induction vals with
  | nil => simp [unpackBody, encAll]
  | cons v vs ih =>
    have hfit := v32 (hv v List.mem_cons_self)
    have ih' := ih (fun x hx => hv x (List.mem_cons_of_mem _ hx))
    have hl : (ofIntBE 4 v).length = 4 := len32 v
    have hnl : ¬ (ofIntBE 4 v ++ (encAll int32 vs ++ rest)).length < 4 := by simp [hl]
    have hfv : fieldValue true (ofIntBE 4 v) = v := by
      apply fieldValue_ofIntBE (c := 'i') (by simp [fieldSpec])
      exact (fits4 v).mpr hfit
    simp only [List.length_cons, List.replicate_succ, unpackBody, fieldSpec, encAll, enc32, List.append_assoc, hnl,
      if_false, List.drop_left' hl, List.take_left' hl, ih', hfv]

theorem relativeUnpackN_at {k : Char} (hk : k = 'd' ∨ k = 's') {data pre rest : Bytes} {vals : List Int}
    (hv : ∀ v ∈ vals, int32.valid v = true) (hd : data = pre ++ encAll int32 vals ++ rest) :
    relativeUnpackN ['>', '%', k, 'i'] (vals.length : Int) data pre.length =
      .ok (vals, ((pre ++ encAll int32 vals).length : Int)) := by
  unfold relativeUnpackN
  have hkk : ¬ (k ≠ 'd' ∧ k ≠ 's') := by
    rcases hk with h | h <;> subst h <;> simp
  simp only [hkk, if_false, fieldSpec]
  have hn : ¬ ((vals.length : Int) < 0) := by omega
  rw [if_neg hn]
  have hlen := encAll_int32_length vals
  have hnl : ¬ ((data.length : Int) < (pre.length : Int) + (vals.length : Int) * ((4 : Nat) : Int)) := by
    rw [hd]; simp only [List.length_append, hlen]; omega
  rw [if_neg hnl]
  have hs := pySlice_mid pre (encAll int32 vals) rest
  rw [hlen] at hs
  have hcast : ((4 * vals.length : Nat) : Int) = (vals.length : Int) * ((4 : Nat) : Int) := by push_cast; omega
  rw [hcast, ← hd] at hs
  rw [hs, Int.toNat_natCast]
  have hu := unpackBody_replicate vals [] hv
  rw [List.append_nil] at hu
  rw [hu]
  simp only
  congr 2
  rw [natCast_add_length, hlen]
  push_cast
  omega

/-! ## Python dicts built from items with distinct keys keep the items -/

theorem nodup_iff {κ : Type} [BEq κ] [LawfulBEq κ] (ks : List κ) : nodup ks = true ↔ ks.Nodup := by
  induction ks with
  | nil => simp [nodup]
  | cons k ks ih =>
    simp only [nodup, Bool.and_eq_true, Bool.not_eq_true', List.nodup_cons, ih]
    constructor
    · rintro ⟨h1, h2⟩
      refine ⟨?_, h2⟩
      intro hm
      have : ks.contains k = true := List.contains_iff_mem.mpr hm
      rw [this] at h1; cases h1
    · rintro ⟨h1, h2⟩
      refine ⟨?_, h2⟩
      cases hc : ks.contains k with
      | false => rfl
      | true => exact absurd (List.contains_iff_mem.mp hc) h1

theorem dictOfList_aux {κ ν : Type} [BEq κ] [LawfulBEq κ] :
    ∀ (l acc : List (κ × ν)), ((acc ++ l).map (·.1)).Nodup →
      l.foldl (fun d e => dictSet d e.1 e.2) acc = acc ++ l := by
  intro l
  induction l with
  | nil => intro acc _; simp
  | cons e es ih =>
    intro acc h
    simp only [List.foldl_cons]
    have hnew : ∀ x ∈ acc, x.1 ≠ e.1 := by
      intro x hx hxe
      rw [List.map_append, List.nodup_append] at h
      exact h.2.2 x.1 (List.mem_map.mpr ⟨x, hx, rfl⟩) e.1 (List.mem_map.mpr ⟨e, List.mem_cons_self, rfl⟩) hxe
    rw [dictSet_append_of_not_mem acc e.1 e.2 hnew]
    have := ih (acc ++ [(e.1, e.2)]) (by simpa using h)
    rw [this]
    simp

theorem dictOfList_nodup {κ ν : Type} [BEq κ] [LawfulBEq κ] (l : List (κ × ν)) (h : (l.map (·.1)).Nodup) :
    dictOfList l = l := by
  unfold dictOfList
  have := dictOfList_aux l ([] : List (κ × ν)) (by simpa using h)
  simpa using this

/-! ## the group assignment -/

theorem assignmentTopic_steps {data topic : Bytes} {cur c1 c2 c3 n : Int} {ps : List Int}
    (h1 : readShortAscii data cur = .ok (topic, c1)) (h2 : ru1 ['>', 'i'] data c1 = .ok (n, c2))
    (h3 : relativeUnpackN ['>', '%', 's', 'i'] n data c2 = .ok (ps, c3)) :
    assignmentTopic data cur = .ok ((topic, ps), c3) := by
  unfold assignmentTopic
  simp only [fmt_decode_sync_group_member_assignment_1, fmt_decode_sync_group_member_assignment_2]
  rw [h1]; simp only; rw [h2]; simp only; rw [h3]

theorem assignment_steps {data : Bytes} {n c1 c2 c3 : Int} {as : List (Bytes × List Int)} {ud : Option Bytes}
    (h1 : ru2 ['>', 'h', 'i'] data 0 = .ok (0, n, c1))
    (h2 : repeatR (assignmentTopic data) n.toNat c1 = .ok (as, c2))
    (h3 : readIntString data c2 = .ok (ud, c3)) :
    decodeSyncGroupMemberAssignment data = .ok ⟨0, dictOfList as, ud⟩ := by
  unfold decodeSyncGroupMemberAssignment
  simp only [fmt_decode_sync_group_member_assignment_0]
  rw [h1]; simp only [ne_eq, not_true_eq_false, if_false]; rw [h2]; simp only; rw [h3]

/-- the assignment inside SyncGroup (`decode_sync_group_member_assignment`) -/
theorem assignment_roundtrip (v : Spec.Assignment) (e : SyncGroupMemberAssignment) (he : expectedAssignment v = some e) :
    decodeSyncGroupMemberAssignment (Spec.assignment.enc v) = .ok e := by
  obtain ⟨ver, tps, ud⟩ := v
  simp only [expectedAssignment] at he
  split at he
  · rename_i hc
    cases he
    simp only [Bool.and_eq_true, decide_eq_true_eq] at hc
    obtain ⟨⟨⟨hvalid, hver⟩, hascii⟩, hnd⟩ := hc
    subst hver
    have h1 := seq_valid' hvalid
    have h2 := seq_valid' h1.2
    have ha := array_valid h2.1
    have hasc : ∀ tp ∈ tps, isAscii tp.1 = true := fun tp htp =>
      List.all_eq_true.mp hascii tp.1 (List.mem_map.mpr ⟨tp, htp, rfl⟩)
    have henc : Spec.assignment.enc (0, tps, ud) =
        ofIntBE 2 0 ++ ((ofIntBE 4 (tps.length : Int) ++ encAll (Codec.string ⊗ array int32) tps) ++ nullableBytes.enc ud) := rfl
    generalize Spec.assignment.enc (0, tps, ud) = data at henc ⊢
    have hl := repeatR_at (Codec.string ⊗ array int32)
      (fun tp => (Codec.string ⊗ array int32).valid tp = true ∧ isAscii tp.1 = true) (fun tp => tp) (data := data)
      (assignmentTopic data)
      (by
        intro pre rest tp hok hd
        obtain ⟨t, ps⟩ := tp
        have q := seq_valid' hok.1
        have qa := array_valid q.2
        have e1 : pre ++ (Codec.string ⊗ array int32).enc (t, ps) =
            pre ++ Codec.string.enc t ++ ofIntBE 4 (ps.length : Int) ++ encAll int32 ps := by
          simp only [seq_enc, array_enc', List.append_assoc]
        have hd1 : data = pre ++ Codec.string.enc t ++ (ofIntBE 4 (ps.length : Int) ++ (encAll int32 ps ++ rest)) := by
          rw [hd]; simp only [seq_enc, array_enc', List.append_assoc]
        have hd2 : data = (pre ++ Codec.string.enc t) ++ ofIntBE 4 (ps.length : Int) ++ (encAll int32 ps ++ rest) := by
          rw [hd1]; simp only [List.append_assoc]
        have hd3 : data = (pre ++ Codec.string.enc t ++ ofIntBE 4 (ps.length : Int)) ++ encAll int32 ps ++ rest := by
          rw [hd1]; simp only [List.append_assoc]
        rw [e1]
        exact assignmentTopic_steps (rsa_at (data := data) hd1 q.1 hok.2) (ru1_i_at (data := data) hd2 qa.1)
          (relativeUnpackN_at (Or.inr rfl) qa.2 hd3))
      (l := tps) (pre := ofIntBE 2 0 ++ ofIntBE 4 (tps.length : Int)) (rest := nullableBytes.enc ud)
      (fun tp htp => ⟨ha.2 tp htp, hasc tp htp⟩) (by rw [henc]; simp only [List.append_assoc])
    rw [List.map_id'] at hl
    have r := assignment_steps
      (ru2_hi_at0 (data := data) (rest := encAll (Codec.string ⊗ array int32) tps ++ nullableBytes.enc ud)
        (by rw [henc]; simp only [List.append_assoc]) (v16 h1.1) ha.1)
      (by rw [Int.toNat_natCast]; exact hl)
      (ris_nullable_at (data := data) (pre := ofIntBE 2 0 ++ ofIntBE 4 (tps.length : Int) ++ encAll (Codec.string ⊗ array int32) tps)
        (rest := []) (by rw [henc]; simp only [List.append_assoc, List.append_nil]) h2.2)
    rw [r, dictOfList_nodup tps ((nodup_iff _).mp hnd)]
  · cases he

/-! ## Metadata -/

theorem metadataBroker_steps {data host : Bytes} {cur c1 c2 c3 node port : Int}
    (h1 : ru1 ['>', 'i'] data cur = .ok (node, c1)) (h2 : readShortAscii data c1 = .ok (host, c2))
    (h3 : ru1 ['>', 'i'] data c2 = .ok (port, c3)) :
    metadataBroker data cur = .ok ((node, ⟨node, host, port⟩), c3) := by
  unfold metadataBroker
  simp only [fmt_decode_metadata_response_1, fmt_decode_metadata_response_2]
  rw [h1]; simp only; rw [h2]; simp only; rw [h3]

theorem ru4_hiii_at {data pre rest : Bytes} {a b c d : Int}
    (hd : data = pre ++ (ofIntBE 2 a ++ (ofIntBE 4 b ++ (ofIntBE 4 c ++ ofIntBE 4 d))) ++ rest)
    (ha : IntFits 2 a) (hb : IntFits 4 b) (hc : IntFits 4 c) (hdd : IntFits 4 d) :
    ru4 ['>', 'h', 'i', 'i', 'i'] data pre.length =
      .ok (a, b, c, d, ((pre ++ (ofIntBE 2 a ++ (ofIntBE 4 b ++ (ofIntBE 4 c ++ ofIntBE 4 d)))).length : Int)) := by
  have := ru4_packed 'h' 'i' 'i' 'i' a b c d pre rest ⟨ok_h ha, ok_i hb, ok_i hc, ok_i hdd, trivial⟩
  simp only [packedBody, widthOf, fieldSpec, List.append_nil] at this
  rw [hd, this, natCast_add_length pre _]

theorem metadataPartition_steps {data topic : Bytes} {cur c1 c2 c3 c4 perr part leader nrep nisr : Int}
    {reps isr : List Int}
    (h1 : ru4 ['>', 'h', 'i', 'i', 'i'] data cur = .ok (perr, part, leader, nrep, c1))
    (h2 : relativeUnpackN ['>', '%', 'd', 'i'] nrep data c1 = .ok (reps, c2))
    (h3 : ru1 ['>', 'i'] data c2 = .ok (nisr, c3))
    (h4 : relativeUnpackN ['>', '%', 'd', 'i'] nisr data c3 = .ok (isr, c4)) :
    metadataPartition data topic cur = .ok ((part, ⟨topic, part, perr, leader, reps, isr⟩), c4) := by
  unfold metadataPartition
  simp only [fmt_decode_metadata_response_6, fmt_decode_metadata_response_7, fmt_decode_metadata_response_8,
    fmt_decode_metadata_response_9]
  rw [h1]; simp only; rw [h2]; simp only; rw [h3]; simp only; rw [h4]

theorem metadataTopic_steps {data topic : Bytes} {cur c1 c2 c3 c4 terr n : Int} {parts : List (Int × PartitionMeta)}
    (h1 : ru1 ['>', 'h'] data cur = .ok (terr, c1)) (h2 : readShortAscii data c1 = .ok (topic, c2))
    (h3 : ru1 ['>', 'i'] data c2 = .ok (n, c3))
    (h4 : repeatR (metadataPartition data topic) n.toNat c3 = .ok (parts, c4)) :
    metadataTopic data cur = .ok ((topic, ⟨topic, terr, dictOfList parts⟩), c4) := by
  unfold metadataTopic
  simp only [fmt_decode_metadata_response_4, fmt_decode_metadata_response_5]
  rw [h1]; simp only; rw [h2]; simp only; rw [h3]; simp only; rw [h4]

theorem metadata_steps {data : Bytes} {corr nb nt c1 c2 c3 c4 : Int} {brokers : List (Int × BrokerMeta)}
    {topics : List (Bytes × TopicMeta)}
    (h1 : ru2 ['>', 'i', 'i'] data 0 = .ok (corr, nb, c1)) (hmax : ¬ (nb > maxBrokers))
    (h2 : repeatR (metadataBroker data) nb.toNat c1 = .ok (brokers, c2))
    (h3 : ru1 ['>', 'i'] data c2 = .ok (nt, c3))
    (h4 : repeatR (metadataTopic data) nt.toNat c3 = .ok (topics, c4)) :
    decodeMetadataResponse data = .ok (dictOfList brokers, dictOfList topics) := by
  unfold decodeMetadataResponse
  simp only [fmt_decode_metadata_response_0, fmt_decode_metadata_response_3]
  rw [h1]; simp only; rw [if_neg hmax, h2]; simp only; rw [h3]; simp only; rw [h4]

abbrev partCodec : Codec (Int × Int × Int × List Int × List Int) := int16 ⊗ int32 ⊗ int32 ⊗ array int32 ⊗ array int32
abbrev topicCodec : Codec (Int × Bytes × List (Int × Int × Int × List Int × List Int)) := int16 ⊗ Codec.string ⊗ array partCodec
abbrev brokerCodec : Codec (Int × Bytes × Int) := int32 ⊗ Codec.string ⊗ int32

theorem metadataPartition_at {data pre rest topic : Bytes} {p : Int × Int × Int × List Int × List Int}
    (hv : partCodec.valid p = true) (hd : data = pre ++ partCodec.enc p ++ rest) :
    metadataPartition data topic pre.length =
      .ok ((p.2.1, ⟨topic, p.2.1, p.1, p.2.2.1, p.2.2.2.1, p.2.2.2.2⟩), ((pre ++ partCodec.enc p).length : Int)) := by
  obtain ⟨perr, part, leader, reps, isr⟩ := p
  have q1 := seq_valid' hv
  have q2 := seq_valid' q1.2
  have q3 := seq_valid' q2.2
  have q4 := seq_valid' q3.2
  have ar := array_valid q4.1
  have ai := array_valid q4.2
  have e1 : pre ++ partCodec.enc (perr, part, leader, reps, isr) =
      pre ++ (ofIntBE 2 perr ++ (ofIntBE 4 part ++ (ofIntBE 4 leader ++ ofIntBE 4 (reps.length : Int)))) ++ encAll int32 reps ++
        ofIntBE 4 (isr.length : Int) ++ encAll int32 isr := by
    simp only [seq_enc, array_enc', enc16, enc32, List.append_assoc]
  have hd1 : data = pre ++ (ofIntBE 2 perr ++ (ofIntBE 4 part ++ (ofIntBE 4 leader ++ ofIntBE 4 (reps.length : Int)))) ++
      (encAll int32 reps ++ (ofIntBE 4 (isr.length : Int) ++ (encAll int32 isr ++ rest))) := by
    rw [hd]; simp only [seq_enc, array_enc', enc16, enc32, List.append_assoc]
  have hd2 : data = (pre ++ (ofIntBE 2 perr ++ (ofIntBE 4 part ++ (ofIntBE 4 leader ++ ofIntBE 4 (reps.length : Int))))) ++
      encAll int32 reps ++ (ofIntBE 4 (isr.length : Int) ++ (encAll int32 isr ++ rest)) := by
    rw [hd1]; simp only [List.append_assoc]
  have hd3 : data = (pre ++ (ofIntBE 2 perr ++ (ofIntBE 4 part ++ (ofIntBE 4 leader ++ ofIntBE 4 (reps.length : Int)))) ++
      encAll int32 reps) ++ ofIntBE 4 (isr.length : Int) ++ (encAll int32 isr ++ rest) := by
    rw [hd1]; simp only [List.append_assoc]
  have hd4 : data = (pre ++ (ofIntBE 2 perr ++ (ofIntBE 4 part ++ (ofIntBE 4 leader ++ ofIntBE 4 (reps.length : Int)))) ++
      encAll int32 reps ++ ofIntBE 4 (isr.length : Int)) ++ encAll int32 isr ++ rest := by
    rw [hd1]; simp only [List.append_assoc]
  rw [e1]
  exact metadataPartition_steps (ru4_hiii_at (data := data) hd1 (v16 q1.1) (v32 q2.1) (v32 q3.1) ar.1)
    (relativeUnpackN_at (Or.inl rfl) ar.2 hd2) (ru1_i_at (data := data) hd3 ai.1)
    (relativeUnpackN_at (Or.inl rfl) ai.2 hd4)

/-- Metadata v0 response -/
theorem metadata_roundtrip (v : Spec.MetadataResp) (e : List (Int × BrokerMeta) × List (Bytes × TopicMeta))
    (he : expectedMetadata v = some e) : decodeMetadataResponse (Spec.metadataResponse.enc v) = .ok e := by
  obtain ⟨corr, brokers, topics⟩ := v
  simp only [expectedMetadata] at he
  split at he
  · rename_i hc
    cases he
    simp only [Bool.and_eq_true, decide_eq_true_eq] at hc
    obtain ⟨⟨⟨⟨⟨⟨hvalid, hbasc⟩, htasc⟩, hbnd⟩, htnd⟩, hpnd⟩, hlim⟩ := hc
    have h1 := seq_valid' hvalid
    have h2 := seq_valid' h1.2
    have hab := array_valid h2.1
    have hat := array_valid h2.2
    have henc : Spec.metadataResponse.enc (corr, brokers, topics) =
        ofIntBE 4 corr ++ ((ofIntBE 4 (brokers.length : Int) ++ encAll brokerCodec brokers) ++
          (ofIntBE 4 (topics.length : Int) ++ encAll topicCodec topics)) := rfl
    generalize Spec.metadataResponse.enc (corr, brokers, topics) = data at henc ⊢
    -- brokers
    have hb := repeatR_at brokerCodec (fun b => brokerCodec.valid b = true ∧ isAscii b.2.1 = true)
      (fun (b : Int × Bytes × Int) => (b.1, (⟨b.1, b.2.1, b.2.2⟩ : BrokerMeta))) (data := data) (metadataBroker data)
      (by
        intro pre rest b hok hd
        obtain ⟨node, host, port⟩ := b
        have q1 := seq_valid' hok.1
        have q2 := seq_valid' q1.2
        have e1 : pre ++ brokerCodec.enc (node, host, port) = pre ++ ofIntBE 4 node ++ Codec.string.enc host ++ ofIntBE 4 port := by
          simp only [seq_enc, enc32, List.append_assoc]
        have hd1 : data = pre ++ ofIntBE 4 node ++ (Codec.string.enc host ++ (ofIntBE 4 port ++ rest)) := by
          rw [hd]; simp only [seq_enc, enc32, List.append_assoc]
        have hd2 : data = (pre ++ ofIntBE 4 node) ++ Codec.string.enc host ++ (ofIntBE 4 port ++ rest) := by
          rw [hd1]; simp only [List.append_assoc]
        have hd3 : data = (pre ++ ofIntBE 4 node ++ Codec.string.enc host) ++ ofIntBE 4 port ++ rest := by
          rw [hd1]; simp only [List.append_assoc]
        rw [e1]
        exact metadataBroker_steps (ru1_i_at (data := data) hd1 (v32 q1.1)) (rsa_at (data := data) hd2 q2.1 hok.2)
          (ru1_i_at (data := data) hd3 (v32 q2.2)))
      (l := brokers) (pre := ofIntBE 4 corr ++ ofIntBE 4 (brokers.length : Int))
      (rest := ofIntBE 4 (topics.length : Int) ++ encAll topicCodec topics)
      (fun b hbm => ⟨hab.2 b hbm, List.all_eq_true.mp hbasc b.2.1 (List.mem_map.mpr ⟨b, hbm, rfl⟩)⟩)
      (by rw [henc]; simp only [List.append_assoc])
    -- topics
    have ht := repeatR_at topicCodec
      (fun t => topicCodec.valid t = true ∧ isAscii t.2.1 = true ∧ nodup (t.2.2.map (·.2.1)) = true)
      (fun (t : Int × Bytes × List (Int × Int × Int × List Int × List Int)) =>
        (t.2.1, (⟨t.2.1, t.1, t.2.2.map (fun p => (p.2.1, ⟨t.2.1, p.2.1, p.1, p.2.2.1, p.2.2.2.1, p.2.2.2.2⟩))⟩ : TopicMeta)))
      (data := data) (metadataTopic data)
      (by
        intro pre rest t hok hd
        obtain ⟨terr, name, parts⟩ := t
        have q1 := seq_valid' hok.1
        have q2 := seq_valid' q1.2
        have qa := array_valid q2.2
        have e1 : pre ++ topicCodec.enc (terr, name, parts) =
            pre ++ ofIntBE 2 terr ++ Codec.string.enc name ++ ofIntBE 4 (parts.length : Int) ++ encAll partCodec parts := by
          simp only [seq_enc, array_enc', enc16, List.append_assoc]
        have hd1 : data = pre ++ ofIntBE 2 terr ++ (Codec.string.enc name ++ (ofIntBE 4 (parts.length : Int) ++ (encAll partCodec parts ++ rest))) := by
          rw [hd]; simp only [seq_enc, array_enc', enc16, List.append_assoc]
        have hd2 : data = (pre ++ ofIntBE 2 terr) ++ Codec.string.enc name ++ (ofIntBE 4 (parts.length : Int) ++ (encAll partCodec parts ++ rest)) := by
          rw [hd1]; simp only [List.append_assoc]
        have hd3 : data = (pre ++ ofIntBE 2 terr ++ Codec.string.enc name) ++ ofIntBE 4 (parts.length : Int) ++ (encAll partCodec parts ++ rest) := by
          rw [hd1]; simp only [List.append_assoc]
        have hd4 : data = (pre ++ ofIntBE 2 terr ++ Codec.string.enc name ++ ofIntBE 4 (parts.length : Int)) ++ encAll partCodec parts ++ rest := by
          rw [hd1]; simp only [List.append_assoc]
        have hp := repeatR_at partCodec (fun p => partCodec.valid p = true)
          (fun p => (p.2.1, (⟨name, p.2.1, p.1, p.2.2.1, p.2.2.2.1, p.2.2.2.2⟩ : PartitionMeta))) (data := data)
          (metadataPartition data name)
          (fun pre rest p hpv hdp => metadataPartition_at hpv hdp) (l := parts) qa.2 hd4
        rw [e1]
        have r := metadataTopic_steps (ru1_h_at (data := data) hd1 (v16 q1.1)) (rsa_at (data := data) hd2 q2.1 hok.2.1)
          (ru1_i_at (data := data) hd3 qa.1) (by rw [Int.toNat_natCast]; exact hp)
        rw [r, dictOfList_nodup]
        simp only [List.map_map, Function.comp_def]
        exact (nodup_iff _).mp hok.2.2)
      (l := topics)
      (pre := ofIntBE 4 corr ++ ofIntBE 4 (brokers.length : Int) ++ encAll brokerCodec brokers ++ ofIntBE 4 (topics.length : Int))
      (rest := [])
      (fun t htm => ⟨hat.2 t htm, List.all_eq_true.mp htasc t.2.1 (List.mem_map.mpr ⟨t, htm, rfl⟩), List.all_eq_true.mp hpnd t htm⟩)
      (by rw [henc]; simp only [List.append_assoc, List.append_nil])
    have hmax : ¬ ((brokers.length : Int) > maxBrokers) := by
      -- only `1024 ≤ MAX_BROKERS` is needed: raising the limit in the source keeps the theorem
      have hge : (1024 : Int) ≤ (maxBrokers : Int) := by decide
      have hl : brokers.length ≤ 1024 := hlim
      omega
    have r := metadata_steps
      (ru2_ii_at0 (data := data) (rest := encAll brokerCodec brokers ++ (ofIntBE 4 (topics.length : Int) ++ encAll topicCodec topics))
        (by rw [henc]; simp only [List.append_assoc]) (v32 h1.1) hab.1)
      hmax (by rw [Int.toNat_natCast]; exact hb)
      (ru1_i_at (data := data) (pre := ofIntBE 4 corr ++ ofIntBE 4 (brokers.length : Int) ++ encAll brokerCodec brokers)
        (rest := encAll topicCodec topics) (by rw [henc]; simp only [List.append_assoc]) hat.1)
      (by rw [Int.toNat_natCast]; exact ht)
    rw [r, dictOfList_nodup, dictOfList_nodup]
    · simp only [List.map_map, Function.comp_def]
      exact (nodup_iff _).mp htnd
    · simp only [List.map_map, Function.comp_def]
      exact (nodup_iff _).mp hbnd
  · cases he

end Afkak.Wire
