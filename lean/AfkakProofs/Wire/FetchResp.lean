import AfkakProofs.Wire.RespProofs3
import AfkakProofs.Wire.Gzip
/-!
# Fetch responses: every partition's record set is found exactly, and decoded as a message set
-/
namespace Afkak.Wire
open Afkak Afkak.Bytes Afkak.Codec Afkak.Consts Afkak.Monitor.C05

set_option synthInstance.maxSize 100000

theorem fetchPartition_steps {ext : Ext} {depth : Nat} {data topic : Bytes} {cur p e hw c1 c2 : Int} {ms : Option Bytes}
    (h1 : ru3 ['>', 'i', 'h', 'q'] data cur = .ok (p, e, hw, c1)) (h2 : readIntString data c1 = .ok (ms, c2)) :
    fetchPartition ext depth data topic cur = ([⟨topic, p, e, hw, decodeMessageSetOpt ext depth ms⟩], .ok c2) := by
  unfold fetchPartition
  simp only [fmt_decode_fetch_response_3]
  rw [h1]; simp only; rw [h2]

theorem fetchTopic_steps {ext : Ext} {depth : Nat} {data topic : Bytes} {cur c1 c2 c3 n : Int} {items : List FetchResp}
    (h1 : readShortAscii data cur = .ok (topic, c1)) (h2 : ru1 ['>', 'i'] data c1 = .ok (n, c2))
    (h3 : repeatG (fetchPartition ext depth data topic) n.toNat c2 = (items, .ok c3)) :
    fetchTopic ext depth data cur = (items, .ok c3) := by
  unfold fetchTopic
  simp only [fmt_decode_fetch_response_2]
  rw [h1]; simp only; rw [h2]; simp only; rw [h3]

theorem fetchV0_steps {ext : Ext} {depth : Nat} {data : Bytes} {corr n c1 c2 : Int} {items : List FetchResp}
    (h1 : ru2 ['>', 'i', 'i'] data 0 = .ok (corr, n, c1))
    (h2 : repeatG (fetchTopic ext depth data) n.toNat c1 = (items, .ok c2)) :
    decodeFetchResponse ext depth data 0 = (items, .ok c2) := by
  unfold decodeFetchResponse
  simp only [fetchRespV0Is, if_true, fmt_decode_fetch_response_0]
  rw [h1]; simp only; rw [h2]

theorem ru3_iii_at0 {data rest : Bytes} {a b c : Int}
    (hd : data = (ofIntBE 4 a ++ (ofIntBE 4 b ++ ofIntBE 4 c)) ++ rest)
    (ha : IntFits 4 a) (hb : IntFits 4 b) (hc : IntFits 4 c) :
    ru3 ['>', 'i', 'i', 'i'] data 0 = .ok (a, b, c, ((ofIntBE 4 a ++ (ofIntBE 4 b ++ ofIntBE 4 c)).length : Int)) := by
  have := ru3_packed 'i' 'i' 'i' a b c [] rest ⟨ok_i ha, ok_i hb, ok_i hc, trivial⟩
  simp only [packedBody, widthOf, fieldSpec, List.append_nil] at this
  rw [hd]
  simpa using this

theorem fetchV2_steps {ext : Ext} {depth : Nat} {data : Bytes} {corr tt n c1 c2 : Int} {items : List FetchResp}
    (h1 : ru3 ['>', 'i', 'i', 'i'] data 0 = .ok (corr, tt, n, c1))
    (h2 : repeatG (fetchTopic ext depth data) n.toNat c1 = (items, .ok c2)) :
    decodeFetchResponse ext depth data 2 = (items, .ok c2) := by
  unfold decodeFetchResponse
  have hne : ¬ ((2 : Int) = fetchRespV0Is) := by decide
  have hge : (2 : Int) ≥ fetchRespV2From := by decide
  simp only [hne, if_false, hge, if_true, fmt_decode_fetch_response_1]
  rw [h1]; simp only; rw [h2]

abbrev fetchPartCodec (crc : Bytes → Nat) : Codec (Int × Int × Int × List (Int × Spec.Msg)) :=
  int32 ⊗ int16 ⊗ int64 ⊗ sized32 (Spec.messageSet crc)

/-- what the decoder makes of one partition of the grammar's fetch response -/
def fetchRespOf (ext : Ext) (depth : Nat) (t : Bytes) (p : Int × Int × Int × List (Int × Spec.Msg)) : FetchResp :=
  ⟨t, p.1, p.2.1, p.2.2.1, decodeMessageSet ext depth ((Spec.messageSet ext.crc).enc p.2.2.2)⟩

theorem fetchTopics_at (ext : Ext) (depth : Nat) {data pre rest : Bytes}
    {topics : List (Bytes × List (Int × Int × Int × List (Int × Spec.Msg)))}
    (hv : (Spec.topics (fetchPartCodec ext.crc)).valid topics = true) (ha : topicsAscii topics = true)
    (hd : data = pre ++ encAll (Codec.string ⊗ array (fetchPartCodec ext.crc)) topics ++ rest) :
    repeatG (fetchTopic ext depth data) topics.length pre.length =
      (flatten (fetchRespOf ext depth) topics,
        .ok ((pre ++ encAll (Codec.string ⊗ array (fetchPartCodec ext.crc)) topics).length : Int)) := by
  have ht := topicsOk_of_valid hv ha
  exact topicLoop_at (fetchPartCodec ext.crc) (fun p => (fetchPartCodec ext.crc).valid p = true) (fetchRespOf ext depth)
    (data := data) (fetchTopic ext depth data) (fetchPartition ext depth data)
    (fun _ _ _ _ _ _ _ a b c => fetchTopic_steps a b c)
    (by
      intro topic pre rest a hpa hda
      obtain ⟨p, er, hw, entries⟩ := a
      have q1 := seq_valid' hpa
      have q2 := seq_valid' q1.2
      have q3 := seq_valid' q2.2
      have qs := sized32_valid q3.2
      have hbv : Codec.bytes.valid ((Spec.messageSet ext.crc).enc entries) = true := (intFitsB_iff _ _).mpr qs.2
      have e1 : pre ++ (fetchPartCodec ext.crc).enc (p, er, hw, entries) =
          pre ++ (ofIntBE 4 p ++ (ofIntBE 2 er ++ ofIntBE 8 hw)) ++ Codec.bytes.enc ((Spec.messageSet ext.crc).enc entries) := by
        simp only [seq_enc, sized32_enc, enc32, enc16, enc64, Codec.bytes, lenPrefixed, List.append_assoc]
      have hd1 : data = pre ++ (ofIntBE 4 p ++ (ofIntBE 2 er ++ ofIntBE 8 hw)) ++
          (Codec.bytes.enc ((Spec.messageSet ext.crc).enc entries) ++ rest) := by
        rw [hda]; simp only [seq_enc, sized32_enc, enc32, enc16, enc64, Codec.bytes, lenPrefixed, List.append_assoc]
      have hd2 : data = (pre ++ (ofIntBE 4 p ++ (ofIntBE 2 er ++ ofIntBE 8 hw))) ++
          Codec.bytes.enc ((Spec.messageSet ext.crc).enc entries) ++ rest := by
        rw [hd1]; simp only [List.append_assoc]
      rw [e1]
      exact fetchPartition_steps (ru3_ihq_at (data := data) hd1 (v32 q1.1) (v16 q2.1) (v64 q3.1))
        (ris_bytes_at (data := data) hd2 hbv))
    ht.2 hd

/-- **Fetch v0**: every (topic, partition, error, high watermark) comes back, and each partition's
    `messages` is the message-set decoder run on exactly that partition's record-set bytes. -/
theorem fetchV0_structure (ext : Ext) (depth : Nat) (v : Spec.FetchRespV0)
    (hv : (Spec.fetchResponseV0 ext.crc).valid v = true) (ha : topicsAscii v.2 = true) :
    ∃ cur, decodeFetchResponse ext depth ((Spec.fetchResponseV0 ext.crc).enc v) 0 =
      (flatten (fetchRespOf ext depth) v.2, .ok cur) := by
  obtain ⟨corr, topics⟩ := v
  have h1 := seq_valid' hv
  have hl := (array_valid h1.2).1
  have henc : (Spec.fetchResponseV0 ext.crc).enc (corr, topics) =
      ofIntBE 4 corr ++ (ofIntBE 4 (topics.length : Int) ++ encAll (Codec.string ⊗ array (fetchPartCodec ext.crc)) topics) := rfl
  generalize (Spec.fetchResponseV0 ext.crc).enc (corr, topics) = data at henc ⊢
  have hloop := fetchTopics_at ext depth (data := data) (pre := ofIntBE 4 corr ++ ofIntBE 4 (topics.length : Int)) (rest := [])
    h1.2 ha (by rw [henc]; simp only [List.append_assoc, List.append_nil])
  exact ⟨_, fetchV0_steps
    (ru2_ii_at0 (data := data) (rest := encAll (Codec.string ⊗ array (fetchPartCodec ext.crc)) topics)
      (by rw [henc]; simp only [List.append_assoc]) (v32 h1.1) hl)
    (by rw [Int.toNat_natCast]; exact hloop)⟩

/-- **Fetch v1 / v2** (throttle time first) -/
theorem fetchV2_structure (ext : Ext) (depth : Nat) (v : Spec.FetchRespV2)
    (hv : (Spec.fetchResponseV2 ext.crc).valid v = true) (ha : topicsAscii v.2.2 = true) :
    ∃ cur, decodeFetchResponse ext depth ((Spec.fetchResponseV2 ext.crc).enc v) 2 =
      (flatten (fetchRespOf ext depth) v.2.2, .ok cur) := by
  obtain ⟨corr, tt, topics⟩ := v
  have h1 := seq_valid' hv
  have h2 := seq_valid' h1.2
  have hl := (array_valid h2.2).1
  have henc : (Spec.fetchResponseV2 ext.crc).enc (corr, tt, topics) =
      ofIntBE 4 corr ++ (ofIntBE 4 tt ++ (ofIntBE 4 (topics.length : Int) ++ encAll (Codec.string ⊗ array (fetchPartCodec ext.crc)) topics)) := rfl
  generalize (Spec.fetchResponseV2 ext.crc).enc (corr, tt, topics) = data at henc ⊢
  have hloop := fetchTopics_at ext depth (data := data)
    (pre := ofIntBE 4 corr ++ (ofIntBE 4 tt ++ ofIntBE 4 (topics.length : Int))) (rest := [])
    h2.2 ha (by rw [henc]; simp only [List.append_assoc, List.append_nil])
  exact ⟨_, fetchV2_steps
    (ru3_iii_at0 (data := data) (rest := encAll (Codec.string ⊗ array (fetchPartCodec ext.crc)) topics)
      (by rw [henc]; simp only [List.append_assoc]) (v32 h1.1) (v32 h2.1) hl)
    (by rw [Int.toNat_natCast]; exact hloop)⟩

/-! ## with uncompressed record sets the monitor's expectation is met -/

def allPlain (topics : List (Bytes × List (Int × Int × Int × List (Int × Spec.Msg)))) : Prop :=
  ∀ t ∈ topics, ∀ p ∈ t.2, ∀ x ∈ p.2.2.2, x.2.attributes % 8 = 0

theorem expectedSet_plain (crc : Bytes → Nat) (g : Bytes → Option Bytes) (d : Nat) (entries : List (Int × Spec.Msg))
    (hv : (Spec.messageSet crc).valid entries = true) (hp : ∀ x ∈ entries, x.2.attributes % 8 = 0) :
    expectedSet crc g d entries = some (entries.map toOM, none) := by
  unfold expectedSet
  rw [if_pos hv, expand_plain crc g d entries hp]
  rfl

theorem mapM_flatten_some {α γ : Type} (h : Bytes × α → Option γ) (k : Bytes → α → γ)
    (topics : List (Bytes × List α)) (hk : ∀ t ∈ topics, ∀ p ∈ t.2, h (t.1, p) = some (k t.1 p)) :
    (flatten (fun t p => (t, p)) topics).mapM h = some (flatten k topics) := by
  induction topics with
  | nil => rfl
  | cons t ts ih =>
    have ih' := ih (fun t' ht' => hk t' (List.mem_cons_of_mem _ ht'))
    have ht := hk t List.mem_cons_self
    simp only [flatten, List.flatMap_cons] at ih' ⊢
    rw [List.mapM_append, ih']
    have : (t.2.map (fun p => (t.1, p))).mapM h = some (t.2.map (k t.1)) := by
      generalize t.2 = ps at ht
      induction ps with
      | nil => rfl
      | cons p ps ihp =>
        have hp := ht p List.mem_cons_self
        have := ihp (fun q hq => ht q (List.mem_cons_of_mem _ hq))
        simp [List.mapM_cons, hp, this]
    rw [this]
    simp

theorem expectedFetchParts_plain (ext : Ext) (g : Bytes → Option Bytes) (depth : Nat)
    (topics : List (Bytes × List (Int × Int × Int × List (Int × Spec.Msg))))
    (hv : (Spec.topics (fetchPartCodec ext.crc)).valid topics = true) (hp : allPlain topics) :
    expectedFetchParts ext.crc g (depth + 1) topics = some (flatten (fetchRespOf ext (depth + 1)) topics) := by
  unfold expectedFetchParts
  apply mapM_flatten_some _ (fetchRespOf ext (depth + 1))
  intro t ht p hpm
  obtain ⟨pid, er, hw, entries⟩ := p
  have ha := array_valid hv
  have h2 := seq_valid (ha.2 t ht)
  have h3 := array_valid h2.2
  have q1 := seq_valid' (h3.2 _ hpm)
  have q2 := seq_valid' q1.2
  have q3 := seq_valid' q2.2
  have qs := sized32_valid q3.2
  have hpl := hp t ht _ hpm
  simp only at hpl
  simp only [expectedSet_plain ext.crc g (depth + 1) entries qs.1 hpl, Option.map_some, fetchRespOf]
  rw [msgset_roundtrip ext depth entries qs.1
    (List.all_eq_true.mpr (fun x hx => by simpa using mod8_to_mod4 (hpl x hx) (by decide)))]
  rfl

end Afkak.Wire

namespace Afkak.Wire
open Afkak Afkak.Bytes Afkak.Codec Afkak.Consts Afkak.Monitor.C05

set_option synthInstance.maxSize 100000

theorem mapM_eq_map_of_forall {γ δ : Type} (h : γ → Option δ) (k : γ → δ) :
    ∀ (l : List γ) (r : List δ), l.mapM h = some r → (∀ x ∈ l, ∀ y, h x = some y → y = k x) → r = l.map k := by
  intro l
  induction l with
  | nil => intro r hr _; simp at hr; subst hr; rfl
  | cons a as ih =>
    intro r hr hk
    rw [List.mapM_cons] at hr
    cases ha : h a with
    | none => simp [ha] at hr
    | some b =>
      cases has : as.mapM h with
      | none => simp [ha, has] at hr
      | some bs =>
        simp [ha, has] at hr
        subst hr
        rw [hk a List.mem_cons_self b ha, ih bs has (fun x hx => hk x (List.mem_cons_of_mem _ hx))]
        rfl

theorem flatten_pair_map {α β : Type} (k : Bytes → α → β) (topics : List (Bytes × List α)) :
    (flatten (fun t p => (t, p)) topics).map (fun tp => k tp.1 tp.2) = flatten k topics := by
  simp only [flatten, List.map_flatMap, List.map_map, Function.comp_def]

end Afkak.Wire
