import AfkakProofs.Wire.MsgSetConf
import AfkakProofs.Wire.MsgSet
/-!
# afkak's encoder followed by afkak's decoder is the identity on messages

`_encode_message_set(ms, offset, magic)` then `_decode_message_set_iter`: whenever the encoder writes
bytes at all, the messages it wrote are values the grammar can carry (`msgset_encoded`: each field
passed `struct.pack`'s range check, so the grammar's `valid` holds), the bytes are the grammar's
encoding of `entriesAt` (MsgSetConf.lean), and the decoder therefore yields exactly those entries
(`msgset_roundtrip`).  No validity hypothesis: it is derived from the encoder's success.
-/
namespace Afkak.Wire
open Afkak Afkak.Bytes Afkak.Codec Afkak.Consts Afkak.Monitor.C04

set_option synthInstance.maxSize 100000

theorem writeIntString_valid {s : Option Bytes} {x : Bytes} (h : writeIntString s = .ok x) :
    nullableBytes.valid s = true := by
  cases s with
  | none => decide
  | some s =>
    simp only [writeIntString, fmt_write_int_string_1] at h
    split at h
    · cases h
    · rename_i l hl
      have hok := ((pack_eq _ _ _).mp hl).1
      simp only [fieldsOk, fieldSpec, and_true] at hok
      exact (intFitsB_iff _ _).mpr ((fits4 _).mp hok)

theorem message_encoded_valid (ext : Ext) (m : Message) (bytes : Bytes) (h : encodeMessage ext m = .ok bytes) :
    ∃ sm, specMsg ext.nowMs m = some sm ∧ (Spec.message ext.crc).valid sm = true := by
  unfold encodeMessage at h
  by_cases h0 : m.magic = 0
  · rw [if_pos h0] at h
    split at h
    · rename_i hb k v hhb hk hv
      have hok := ((pack_eq _ _ _).mp hhb).1
      simp only [fieldsOk, fieldSpec, and_true] at hok
      have ha := attrs_nat hok.2
      refine ⟨⟨0, m.attributes.toNat, none, m.key, m.value⟩, ?_, ?_⟩
      · unfold specMsg
        rw [if_neg (by omega), if_pos h0]
      · rw [message_valid, msgBody_valid]
        simp only [Bool.true_and, Bool.and_eq_true, msgRest0_valid]
        exact ⟨by decide, rfl, decide_eq_true (by show m.attributes.toNat < 256 ^ 1; omega),
          writeIntString_valid hk, writeIntString_valid hv⟩
    · cases h
    · cases h
    · cases h
  · rw [if_neg h0] at h
    by_cases h1 : m.magic = 1
    · rw [if_pos h1] at h
      cases hts : m.timestamp with
      | none =>
        simp only [hts] at h
        split at h
        · rename_i hb k v hhb hk hv
          have hok := ((pack_eq _ _ _).mp hhb).1
          simp only [fieldsOk, fieldSpec, and_true] at hok
          have ha := attrs_nat hok.2.1
          refine ⟨⟨1, m.attributes.toNat, some ext.nowMs, m.key, m.value⟩, ?_, ?_⟩
          · unfold specMsg
            rw [if_neg (by omega), if_neg h0, if_pos h1, hts]
          · rw [message_valid, msgBody_valid]
            simp only [Bool.true_and, Bool.and_eq_true, msgRest1_valid]
            exact ⟨by decide, rfl, decide_eq_true (by show m.attributes.toNat < 256 ^ 1; omega),
              (intFitsB_iff _ _).mpr ((fits8 _).mp hok.2.2), writeIntString_valid hk, writeIntString_valid hv⟩
        · cases h
        · cases h
        · cases h
      | some ts =>
        simp only [hts] at h
        split at h
        · rename_i hb k v hhb hk hv
          have hok := ((pack_eq _ _ _).mp hhb).1
          simp only [fieldsOk, fieldSpec, and_true] at hok
          have ha := attrs_nat hok.2.1
          refine ⟨⟨1, m.attributes.toNat, some ts, m.key, m.value⟩, ?_, ?_⟩
          · unfold specMsg
            rw [if_neg (by omega), if_neg h0, if_pos h1, hts]
          · rw [message_valid, msgBody_valid]
            simp only [Bool.true_and, Bool.and_eq_true, msgRest1_valid]
            exact ⟨by decide, rfl, decide_eq_true (by show m.attributes.toNat < 256 ^ 1; omega),
              (intFitsB_iff _ _).mpr ((fits8 _).mp hok.2.2), writeIntString_valid hk, writeIntString_valid hv⟩
        · cases h
        · cases h
        · cases h
    · rw [if_neg h1] at h
      cases h

theorem entry_valid_of {crc : Bytes → Nat} {o : Int} {sm : Spec.Msg} (ho : IntFits 8 o)
    (hm : (Spec.message crc).valid sm = true) (hl : IntFits 4 (((Spec.message crc).enc sm).length : Int)) :
    (Spec.entry crc).valid (o, sm) = true := by
  show (int64.valid o && ((Spec.message crc).valid sm && intFitsB 4 ((Spec.message crc).enc sm).length)) = true
  simp only [Bool.and_eq_true]
  exact ⟨(intFitsB_iff _ _).mpr ho, hm, (intFitsB_iff _ _).mpr hl⟩

theorem messageSet_valid_of_entries {crc : Bytes → Nat} {l : List (Int × Spec.Msg)}
    (h : ∀ e ∈ l, (Spec.entry crc).valid e = true) : (Spec.messageSet crc).valid l = true := by
  show l.all (fun a => (Spec.entry crc).valid a && !((Spec.entry crc).enc a).isEmpty) = true
  rw [List.all_eq_true]
  intro e he
  rw [Bool.and_eq_true]
  refine ⟨h e he, ?_⟩
  rw [entry_enc]
  cases hx : ofIntBE 8 e.1 with
  | nil =>
    have := congrArg List.length hx
    rw [ofIntBE_length] at this
    cases this
  | cons a as => rfl

/-- what `_encode_message_set` writes: entries the grammar can carry, one per message, in order -/
theorem msgset_encoded (ext : Ext) (magic : Int) (incr : Int) :
    ∀ (ms : List Message) (body : Bytes) (offset : Int),
      encodeMessageSetLoop ext magic incr offset ms = .ok body →
      ∃ entries, entriesFrom ext.nowMs incr offset ms = some entries
        ∧ (∀ e ∈ entries, (Spec.entry ext.crc).valid e = true)
        ∧ (∀ e ∈ entries, ∃ m ∈ ms, specMsg ext.nowMs m = some e.2) := by
  intro ms
  induction ms with
  | nil =>
    intro body offset _
    exact ⟨[], rfl, by simp, by simp⟩
  | cons m ms ih =>
    intro body offset h
    unfold encodeMessageSetLoop at h
    split at h
    · cases h
    · split at h
      · cases h
      · rename_i enc henc
        split at h
        · cases h
        · rename_i hdr hhdr
          split at h
          · cases h
          · rename_i rest hrest
            obtain ⟨sm, hsm, hvm⟩ := message_encoded_valid ext m enc henc
            obtain ⟨es, hes, hev, hem⟩ := ih rest (offset + incr) hrest
            simp only [fmt_encode_message_set_0] at hhdr
            have hok := ((pack_eq _ _ _).mp hhdr).1
            simp only [fieldsOk, fieldSpec, and_true] at hok
            refine ⟨(offset, sm) :: es, ?_, ?_, ?_⟩
            · rw [entriesFrom_cons, hsm, hes]
            · intro e he
              rcases List.mem_cons.mp he with rfl | he'
              · apply entry_valid_of ((fits8 _).mp hok.1) hvm
                rw [← message_bytes ext m sm enc henc hsm]
                exact (fits4 _).mp hok.2
              · exact hev e he'
            · intro e he
              rcases List.mem_cons.mp he with rfl | he'
              · exact ⟨m, List.mem_cons_self, hsm⟩
              · obtain ⟨m', hm', hs'⟩ := hem e he'
                exact ⟨m', List.mem_cons_of_mem _ hm', hs'⟩

/-- the codec bits of the grammar's message are those of the caller's -/
theorem specMsg_plain {nowMs : Int} {m : Message} {sm : Spec.Msg} (h : specMsg nowMs m = some sm)
    (hp : m.attributes % 4 = 0) : sm.attributes % 4 = 0 := by
  unfold specMsg at h
  split at h
  · cases h
  · rename_i hneg
    split at h
    · cases h; show m.attributes.toNat % 4 = 0; omega
    · split at h
      · cases h; show m.attributes.toNat % 4 = 0; omega
      · cases h

/-- what the decoder reports for a message the encoder was given: the message itself, except that
    the timestamp is what went on the wire (none for format 0; the clock for a format-1 message
    without one) -/
def stamped (nowMs : Int) (m : Message) : Message :=
  if m.magic = 0 then { m with timestamp := none }
  else { m with timestamp := some (match m.timestamp with | some t => t | none => nowMs) }

theorem toMessage_specMsg {nowMs : Int} {m : Message} {sm : Spec.Msg} (h : specMsg nowMs m = some sm) :
    Monitor.C05.toMessage sm = stamped nowMs m := by
  unfold specMsg at h
  split at h
  · cases h
  · rename_i hneg
    have ha : ((m.attributes.toNat : Nat) : Int) = m.attributes := by omega
    split at h
    · rename_i h0
      cases h
      simp only [Monitor.C05.toMessage, stamped, h0, if_true, ha]
    · rename_i h0
      split at h
      · rename_i h1
        cases h
        cases m with
        | mk mg att k v ts =>
          simp only at h0 h1 ha
          cases ts <;> simp [Monitor.C05.toMessage, stamped, h1, ha]
      · cases h

/-- **Encoding then decoding is the identity on messages** (afkak's encoder, then afkak's decoder). -/
theorem encode_decode_identity (ext : Ext) (depth : Nat) (ms : List Message) (offset : Option Int) (magic : Int)
    (data : Bytes) (h : encodeMessageSet ext ms offset magic = .ok data)
    (hplain : ∀ m ∈ ms, m.attributes % 4 = 0) :
    ∃ entries, entriesAt ext.nowMs offset ms = some entries
      ∧ (Spec.messageSet ext.crc).valid entries = true
      ∧ data = (Spec.messageSet ext.crc).enc entries
      ∧ decodeMessageSet ext (depth + 1) data = (entries.map (fun e => ⟨e.1, Monitor.C05.toMessage e.2⟩), none) := by
  have key : ∀ incr o, encodeMessageSetLoop ext magic incr o ms = .ok data →
      ∀ entries, entriesFrom ext.nowMs incr o ms = some entries →
        (∀ e ∈ entries, (Spec.entry ext.crc).valid e = true) →
        (∀ e ∈ entries, ∃ m ∈ ms, specMsg ext.nowMs m = some e.2) →
        (Spec.messageSet ext.crc).valid entries = true
        ∧ data = (Spec.messageSet ext.crc).enc entries
        ∧ decodeMessageSet ext (depth + 1) data = (entries.map (fun e => ⟨e.1, Monitor.C05.toMessage e.2⟩), none) := by
    intro incr o hl entries hes hev hem
    have hvalid := messageSet_valid_of_entries hev
    have hbytes : data = (Spec.messageSet ext.crc).enc entries := by
      by_cases hm : magic = 0 ∨ magic = 1
      · exact msgset_bytes_from ext magic hm incr ms entries data o hl hes
      · cases ms with
        | nil =>
          simp only [encodeMessageSetLoop] at hl
          simp only [entriesFrom, Option.some.injEq] at hes
          cases hl; subst hes; rfl
        | cons m ms =>
          simp only [encodeMessageSetLoop] at hl
          rw [if_pos (by
            constructor
            · intro h0; exact hm (Or.inl h0)
            · intro h1; exact hm (Or.inr h1))] at hl
          cases hl
    refine ⟨hvalid, hbytes, ?_⟩
    rw [hbytes]
    apply msgset_roundtrip ext depth entries hvalid
    rw [List.all_eq_true]
    intro e he
    obtain ⟨m, hm, hs⟩ := hem e he
    exact decide_eq_true (specMsg_plain hs (hplain m hm))
  unfold encodeMessageSet at h
  unfold entriesAt
  cases offset with
  | none =>
    simp only at h ⊢
    obtain ⟨entries, hes, hev, hem⟩ := msgset_encoded ext magic _ ms data 0 h
    refine ⟨entries, ?_, key _ _ h entries hes hev hem⟩
    rw [entriesAt_none_from ext.nowMs ms 0]; exact hes
  | some o =>
    simp only at h ⊢
    obtain ⟨entries, hes, hev, hem⟩ := msgset_encoded ext magic _ ms data o h
    refine ⟨entries, ?_, key _ _ h entries hes hev hem⟩
    have := entriesAt_some_from ext.nowMs o ms 0
    simp only [Int.natCast_zero, Int.add_zero] at this
    rw [this]; exact hes


theorem mapM_map_eq {γ δ ε : Type} (f : γ → Option δ) (g : δ → ε) (k : γ → ε) :
    ∀ (l : List γ) (r : List δ), l.mapM f = some r → (∀ x ∈ l, ∀ y, f x = some y → g y = k x) → r.map g = l.map k := by
  intro l
  induction l with
  | nil => intro r hr _; simp at hr; subst hr; rfl
  | cons a as ih =>
    intro r hr hk
    obtain ⟨b, bs, hb, hbs, rfl⟩ := mapM_cons_some f a as r hr
    simp only [List.map_cons]
    rw [hk a List.mem_cons_self b hb, ih bs hbs (fun x hx y hy => hk x (List.mem_cons_of_mem _ hx) y hy)]

/-- the same, in terms of the caller's messages only: the `i`-th message comes back at offset
    `offset + i` (0 when no offset was given) as `stamped` says -/
theorem encode_decode_messages (ext : Ext) (depth : Nat) (ms : List Message) (offset : Option Int) (magic : Int)
    (data : Bytes) (h : encodeMessageSet ext ms offset magic = .ok data)
    (hplain : ∀ m ∈ ms, m.attributes % 4 = 0) :
    decodeMessageSet ext (depth + 1) data =
      (ms.zipIdx.map (fun (p : Message × Nat) =>
        (⟨(match offset with | some o => o + (p.2 : Int) | none => 0), stamped ext.nowMs p.1⟩ : OffsetAndMessage)), none) := by
  obtain ⟨entries, he, _, _, hd⟩ := encode_decode_identity ext depth ms offset magic data h hplain
  rw [hd]
  congr 1
  unfold entriesAt at he
  apply mapM_map_eq _ _ _ _ _ he
  intro x _ y hy
  cases hs : specMsg ext.nowMs x.1 with
  | none => simp [hs] at hy
  | some sm =>
    simp only [hs, Option.map_some, Option.some.injEq] at hy
    subst hy
    simp only [toMessage_specMsg hs]
    cases offset <;> rfl

end Afkak.Wire
