import AfkakProofs.Wire.ProduceReq
/-!
# Compressed produce payloads: the wrapper `create_message_set` builds holds the compressor's output
for exactly the grammar's encoding of the messages it was given
-/
namespace Afkak.Wire
open Afkak Afkak.Bytes Afkak.Codec Afkak.Consts Afkak.Monitor.C04

set_option synthInstance.maxSize 100000

/-- the message-set entry of one payload of a `SendRequest(key, payloads)` as the producer writes it:
    offset 0, attributes 0, the request's key, stamped with the clock when the format is 1 -/
def plainEntry (nowMs magic : Int) (key payload : Option Bytes) : Int × Spec.Msg :=
  (0, ⟨if magic = 1 then 1 else 0, 0, if magic = 1 then some nowMs else none, key, payload⟩)

/-- all payloads of all requests, in order -/
def plainEntries (nowMs magic : Int) (reqs : List (Option Bytes × List (Option Bytes))) : List (Int × Spec.Msg) :=
  reqs.flatMap (fun r => r.2.map (plainEntry nowMs magic r.1))

theorem specEntries_append (nowMs : Int) (a b : List Message) (ea eb : List (Int × Spec.Msg))
    (ha : specEntries nowMs a = some ea) (hb : specEntries nowMs b = some eb) :
    specEntries nowMs (a ++ b) = some (ea ++ eb) := by
  unfold specEntries at *
  induction a generalizing ea with
  | nil => simp at ha; subst ha; simpa using hb
  | cons m ms ih =>
    obtain ⟨x, xs, hx, hxs, rfl⟩ := mapM_cons_some _ m ms ea ha
    have := ih xs hxs
    rw [List.cons_append, mapM_option_cons, hx]
    simp only [this, List.cons_append]

theorem createMessagesFor_entries (ext : Ext) (magic : Int) (key : Option Bytes) :
    ∀ (ps : List (Option Bytes)) (ms : List Message), createMessagesFor ext magic key ps = .ok ms →
      specEntries ext.nowMs ms = some (ps.map (plainEntry ext.nowMs magic key)) := by
  intro ps
  induction ps with
  | nil => intro ms h; simp only [createMessagesFor] at h; cases h; rfl
  | cons p ps ih =>
    intro ms h
    simp only [createMessagesFor] at h
    split at h
    · rename_i m rest hm hrest
      cases h
      have hr := ih rest hrest
      unfold specEntries at hr ⊢
      rw [mapM_option_cons, hr]
      unfold createMessage at hm
      by_cases h1 : magic = 1
      · simp only [h1, if_true] at hm
        rw [if_neg (by decide)] at hm
        cases hm
        simp [specMsg, plainEntry, h1]
      · simp only [h1, if_false] at hm
        rw [if_neg (by decide)] at hm
        rw [if_neg (by decide)] at hm
        cases hm
        simp [specMsg, plainEntry, h1]
    · cases h
    · cases h

theorem createMsgList_entries (ext : Ext) (magic : Int) :
    ∀ (reqs : List (Option Bytes × List (Option Bytes))) (ms : List Message), createMsgList ext magic reqs = .ok ms →
      specEntries ext.nowMs ms = some (plainEntries ext.nowMs magic reqs) := by
  intro reqs
  induction reqs with
  | nil => intro ms h; simp only [createMsgList] at h; cases h; rfl
  | cons r rs ih =>
    intro ms h
    obtain ⟨key, payloads⟩ := r
    simp only [createMsgList] at h
    split at h
    · rename_i a b ha hb
      cases h
      have := specEntries_append ext.nowMs a b _ _ (createMessagesFor_entries ext magic key payloads a ha) (ih b hb)
      simpa [plainEntries] using this
    · cases h
    · cases h

/-- **The gzip wrapper of `create_message_set`**: one message, attributes = the gzip codec, null key,
    the format asked for, and its value is the compressor's output for exactly the grammar's encoding
    of the requests' payloads (offset 0 each, the request's key, attributes 0). -/
theorem createMessageSet_gzip (ext : Ext) (reqs : List (Option Bytes × List (Option Bytes))) (magic : Int)
    (ms : List Message) (h : createMessageSet ext reqs codecGzip magic = .ok ms) :
    ∃ w gz, ms = [w] ∧ w.attributes = codecGzip ∧ w.key = none ∧ w.value = some gz ∧ w.magic = magic
      ∧ (w.timestamp = if magic = 1 then some ext.nowMs else none)
      ∧ ext.gzip ((Spec.messageSet ext.crc).enc (plainEntries ext.nowMs magic reqs)) = .ok gz := by
  unfold createMessageSet at h
  split at h
  · cases h
  · rename_i inner hinner
    rw [if_neg (by decide), if_pos rfl] at h
    split at h
    · cases h
    · rename_i w hw
      cases h
      unfold createGzipMessage at hw
      split at hw
      · cases hw
      · rename_i enc henc
        split at hw
        · cases hw
        · rename_i gz hgz
          have hent := createMsgList_entries ext magic reqs inner hinner
          have hbytes : enc = (Spec.messageSet ext.crc).enc (plainEntries ext.nowMs magic reqs) := by
            unfold encodeMessageSet at henc
            exact msgset_bytes ext 0 (Or.inl rfl) _ _ _ 0 rfl henc hent
          rw [hbytes] at hgz
          by_cases h1 : magic = 1
          · rw [if_pos h1] at hw
            cases hw
            exact ⟨_, gz, rfl, rfl, rfl, rfl, rfl, by simp [h1], hgz⟩
          · rw [if_neg h1] at hw
            cases hw
            exact ⟨_, gz, rfl, rfl, rfl, rfl, rfl, by simp [h1], hgz⟩

end Afkak.Wire
