import Afkak.ProducerCompose
import AfkakProofs.Client.Route
import AfkakProofs.Client.Assemble
import AfkakProofs.Producer.Truth
/-! Producer × KafkaClient, the product machine of `Afkak/ProducerCompose.lean`:
a success `ok resp` of a send Deferred is the error-0 answer that ONE broker request of the client's call gave for
`resp`'s topic/partition, and that request went to the node the cache named as the partition's leader. -/
namespace Afkak.ProducerCompose
open Afkak.Producer Afkak.Monitor.ProducerTrace
open Afkak.ClientCache (Cache Broker route assemble BrokerResult RouteErr get? resolveAll groupByNode responsesOf accOf)

/-! ### the product machine is the Producer machine on the computed events -/

theorem noOp_step (cfg : Cfg) (st : St) : step cfg st (noOp st) = (st, [.badOp]) := by
  simp [noOp, step]

theorem runC_eq_run (cfg : Cfg) (nm : Topic → String) : ∀ (st : St) (ces : List CEv),
    runC cfg nm st ces = run cfg st (flatten cfg nm st ces)
  | _, [] => rfl
  | st, e :: es => by
    simp only [runC, flatten, run, stepC]
    rw [runC_eq_run cfg nm _ es]

/-! ### the flat step fact (C01, step level) -/

theorem flat_ok (cfg : Cfg) (st : St) (e : Ev) (s : Sid) (resp : Resp)
    (h : Ob.fire s (.ok resp) ∈ (step cfg st e).2) :
    ∃ rid b r, st.phase = .sending rid b ∧ (e = .produceDone rid r ∨ ∃ w m, e = .stop w (some r) m) ∧
      validResult b r = true ∧ resp ∈ respsOf r ∧ resp.error = 0 ∧ resp.tp ∈ b.current ∧ s ∈ b.sidsOf resp.tp := by
  rcases step_fires_ok cfg st e s _ h with ⟨k, hk⟩ | ⟨rid, b, r, h1, h2, h3, h4⟩
  · cases hk
  · rcases h4 with ⟨resp', e1, e2, e3, e4⟩ | ⟨e1, _⟩
    · injection e1 with e1; subst e1
      refine ⟨rid, b, r, h1, h2, h3, e2, e3, ?_, e4⟩
      simp only [validResult, Bool.and_eq_true, List.all_eq_true, decide_eq_true_eq] at h3
      apply h3.1
      cases r with
      | responses rs => simp only [respsOf] at e2; simp only [ProdRes.tps, List.mem_map]; exact ⟨_, e2, rfl⟩
      | none => simp [respsOf] at e2
      | failed rs fs =>
        simp only [respsOf] at e2
        simp only [ProdRes.tps, List.mem_append, List.mem_map]; exact Or.inr ⟨_, e2, rfl⟩
      | err k => simp [respsOf] at e2
    · cases e1

/-! ### where a response of the computed result comes from -/

theorem respsOf_clientResult (nm : Topic → String) (keys : List TP) (results : List (List Nat × BrokerResult ErrKind)) :
    respsOf (clientResult nm keys results) =
      (assemble (keys.map (key nm)) results).1.filterMap (backResp nm keys) := by
  unfold clientResult
  simp only
  split <;> rfl

theorem backResp_some {nm : Topic → String} {keys : List TP} {cr : CResp} {resp : Resp}
    (h : backResp nm keys cr = some resp) :
    resp.tp ∈ keys ∧ key nm resp.tp = cr.key ∧ resp.error = cr.err ∧ resp.offset = cr.tag := by
  unfold backResp at h
  cases hf : keys.find? (fun tp => key nm tp == cr.key) with
  | none => rw [hf] at h; cases h
  | some tp =>
    rw [hf] at h
    simp only [Option.map_some, Option.some.injEq] at h
    subst h
    exact ⟨List.mem_of_find?_eq_some hf, by simpa using List.find?_some hf, rfl, rfl⟩

/-- a response handed to the Producer is the answer one broker request of the call gave for that partition -/
theorem resp_of_broker (nm : Topic → String) (keys : List TP) (results : List (List Nat × BrokerResult ErrKind))
    (resp : Resp) (h : resp ∈ respsOf (clientResult nm keys results)) :
    resp.tp ∈ keys ∧ ∃ idxs rs cr, (idxs, BrokerResult.ok rs) ∈ results ∧ cr ∈ rs ∧
      cr.key = key nm resp.tp ∧ cr.err = resp.error ∧ cr.tag = resp.offset := by
  rw [respsOf_clientResult] at h
  obtain ⟨cr, hcr, hb⟩ := List.mem_filterMap.mp h
  obtain ⟨h1, h2, h3, h4⟩ := backResp_some hb
  have hm := (Afkak.ClientCache.responsesOf_mem _ _ cr hcr).2
  have hacc := (Afkak.ClientCache.accGet_some hm).2
  obtain ⟨idxs, rs, hres, hin⟩ := Afkak.ClientCache.mem_accOf.mp hacc
  exact ⟨h1, idxs, rs, cr, hres, hin, h2.symm, h3.symm, h4.symm⟩

/-! ### routing: a request to node `n` carries payload `i` only if the cache names a broker `n` as its leader -/

theorem routed_to_leader (c : Cache) (ks : List CTP) (gs : List (Int × List Nat))
    (h : route c ks none = .ok gs) :
    ∀ n idxs, (n, idxs) ∈ gs → ∀ i ∈ idxs, ∃ (hi : i < ks.length) (b : Broker),
        get? ks[i] c.t2b = some (some b) ∧ b.nodeId = n := by
  simp only [route] at h
  cases hr : resolveAll c 0 ks with
  | error e => simp [hr, Except.map] at h
  | ok r =>
    simp only [hr, Except.map, Except.ok.injEq] at h
    subst h
    obtain ⟨hidx, hlead⟩ := Afkak.ClientCache.resolveAll_spec c ks 0 r hr
    intro n idxs hmem i hi
    obtain ⟨rfl, _⟩ := Afkak.ClientCache.groupByNode_group r n idxs hmem
    obtain ⟨x, hx, rfl⟩ := List.mem_map.mp hi
    obtain ⟨hxr, hxn⟩ := List.mem_filter.mp hx
    have hx2 : x.2 ∈ r.map (·.2) := List.mem_map.mpr ⟨x, hxr, rfl⟩
    rw [hidx] at hx2
    simp only [Nat.add_zero, List.map_id', List.mem_range] at hx2
    obtain ⟨b, hb, hbm⟩ := hlead x.2 hx2
    refine ⟨hx2, b, hb, ?_⟩
    have hnd : (r.map (·.2)).Nodup := by rw [hidx]; simpa using List.nodup_range
    have : (b.nodeId, x.2 + 0) = x := by
      have h1 : ((b.nodeId, x.2 + 0) : Int × Nat).2 = x.2 := by simp
      exact Afkak.ClientCache.eq_of_nodup_map (·.2) hnd hbm hxr h1
    have : b.nodeId = x.1 := by rw [← this]
    simpa [this] using hxn

/-! ### the computed result of `sendProduce` -/

/-- "THE BROKER THE CLIENT'S METADATA NAMED AS LEADER ANSWERED WITHOUT ERROR": what it means for a response `resp`
    handed to the Producer, given the call's cache and outcomes. -/
def LeaderAcked (nm : Topic → String) (c : Cache) (keys : List TP) (outs : Outcomes) (resp : Resp) : Prop :=
  ∃ gs, route c (keys.map (key nm)) none = .ok gs ∧ outs.length = gs.length ∧
    ∃ n idxs rs cr, ((n, idxs), BrokerResult.ok rs) ∈ brokerRequests gs outs ∧ cr ∈ rs ∧
      -- the answer of the request to node `n`, for that partition, with that error code and offset …
      cr.key = key nm resp.tp ∧ cr.err = resp.error ∧ cr.tag = resp.offset ∧
      -- … whose request carried the partition's payload …
      (∃ i ∈ idxs, ∃ hi : i < keys.length, keys[i] = resp.tp) ∧
      -- … and `n` is the broker the cache names as the partition's leader
      ∃ b : Broker, get? (key nm resp.tp) c.t2b = some (some b) ∧ b.nodeId = n

theorem sendProduce_leaderAcked (nm : Topic → String) (c : Cache) (keys : List TP) (outs : Outcomes) (r : ProdRes)
    (resp : Resp) (h : sendProduce nm c keys outs = some r) (hr : resp ∈ respsOf r)
    (hnm : ∀ a ∈ keys, ∀ b ∈ keys, nm a.topic = nm b.topic → a.topic = b.topic)
    (hoa : ∀ gs, route c (keys.map (key nm)) none = .ok gs →
      outcomesOnlyAsked (keys.map (key nm)) (brokerRequests gs outs) = true) :
    LeaderAcked nm c keys outs resp := by
  unfold sendProduce at h
  split at h
  · injection h with h; subst h; simp [respsOf] at hr
  · injection h with h; subst h; simp [respsOf] at hr
  · cases h
  · rename_i gs hroute
    split at h
    · rename_i hlen
      injection h with h; subst h
      obtain ⟨htp, idxs, rs, cr, hres, hin, hk, he, ht⟩ := resp_of_broker nm keys _ resp hr
      obtain ⟨⟨⟨n, idxs'⟩, res⟩, hz, heq⟩ := List.mem_map.mp hres
      simp only [Prod.mk.injEq] at heq
      obtain ⟨rfl, rfl⟩ := heq
      refine ⟨gs, hroute, hlen, n, idxs', rs, cr, hz, hin, hk, he, ht, ?_⟩
      -- the broker answered only what it was asked
      have hoa' := hoa gs hroute
      simp only [outcomesOnlyAsked, List.all_eq_true] at hoa'
      have h1 := hoa' _ hz
      simp only [onlyAsked, List.all_eq_true, List.any_eq_true, beq_iff_eq] at h1
      obtain ⟨i, hi, hki⟩ := h1 cr hin
      have hmem : (n, idxs') ∈ gs := (List.of_mem_zip hz).1
      obtain ⟨hlt, b, hb, hbn⟩ := routed_to_leader c _ gs hroute n idxs' hmem i hi
      have hlt' : i < keys.length := by simpa using hlt
      have hkeyi : key nm keys[i] = cr.key := by
        have : (keys.map (key nm))[i]? = some (key nm keys[i]) := by simp [hlt']
        rw [this] at hki
        exact Option.some.inj hki
      have heqtp : keys[i] = resp.tp := by
        have hk' : key nm keys[i] = key nm resp.tp := by rw [hkeyi, hk]
        simp only [key, Prod.mk.injEq] at hk'
        have ht := hnm _ (List.getElem_mem hlt') _ htp hk'.1
        cases hki' : keys[i]
        cases hr' : resp.tp
        rw [hki'] at ht hk'
        rw [hr'] at ht hk'
        simp only at ht hk'
        rw [ht, hk'.2]
      refine ⟨⟨i, hi, hlt', heqtp⟩, b, ?_, hbn⟩
      have : (keys.map (key nm))[i] = key nm resp.tp := by simp [heqtp]
      rw [← this]; exact hb
    · cases h

/-! ### the composed step -/

/-- what made a composed step's success possible: the call's cache and outcomes -/
theorem stepC_ok (cfg : Cfg) (nm : Topic → String) (st : St) (ce : CEv) (s : Sid) (resp : Resp)
    (h : Ob.fire s (.ok resp) ∈ (stepC cfg nm st ce).2) :
    ∃ rid b c outs r, st.phase = .sending rid b ∧
      (ce = .clientDone rid c outs ∨ ∃ w m, ce = .stopC w c (some outs) m) ∧
      sendProduce nm c b.current outs = some r ∧ resp ∈ respsOf r ∧
      resp.error = 0 ∧ resp.tp ∈ b.current ∧ s ∈ b.sidsOf resp.tp := by
  unfold stepC at h
  obtain ⟨rid, b, r, hph, he, _, hr, herr, htp, hs⟩ := flat_ok cfg st _ s resp h
  cases ce with
  | ev e =>
    simp only [toEv] at he
    by_cases hraw : rawOK e = true
    · simp only [hraw, if_true] at he
      rcases he with he | ⟨w, m, he⟩
      · subst he
        simp only [rawOK, List.isEmpty_iff] at hraw
        rw [hraw] at hr; cases hr
      · subst he
        simp only [rawOK, List.isEmpty_iff] at hraw
        rw [hraw] at hr; cases hr
    · simp only [hraw, Bool.false_eq_true, if_false, noOp] at he
      rcases he with he | ⟨w, m, he⟩ <;> cases he
  | clientDone rid' c outs =>
    simp only [toEv, hph] at he
    cases hsp : sendProduce nm c b.current outs with
    | none =>
      simp only [hsp, noOp] at he
      rcases he with he | ⟨w, m, he⟩ <;> cases he
    | some r' =>
      simp only [hsp] at he
      rcases he with he | ⟨w, m, he⟩
      · injection he with h1 h2
        subst h1; subst h2
        exact ⟨rid', b, c, outs, r', hph, Or.inl rfl, hsp, hr, herr, htp, hs⟩
      · cases he
  | stopC wipe c outs mouts =>
    simp only [toEv, hph] at he
    cases outs with
    | none =>
      simp only at he
      rcases he with he | ⟨w, m, he⟩
      · cases he
      · injection he with _ h2 _; cases h2
    | some o =>
      simp only at he
      cases hsp : sendProduce nm c b.current o with
      | none =>
        simp only [hsp, noOp] at he
        rcases he with he | ⟨w, m, he⟩ <;> cases he
      | some r' =>
        simp only [hsp] at he
        rcases he with he | ⟨w, m, he⟩
        · cases he
        · injection he with h1 h2 h3
          injection h2 with h2
          subst h2
          exact ⟨rid, b, c, o, r', hph, Or.inr ⟨wipe, mouts, rfl⟩, hsp, hr, herr, htp, hs⟩

/-! ### the hypotheses as decidable predicates -/

theorem namesDistinct_spec {nm : Topic → String} {keys : List TP} (h : namesDistinct nm keys = true) :
    ∀ a ∈ keys, ∀ b ∈ keys, nm a.topic = nm b.topic → a.topic = b.topic := by
  intro a ha b hb hab
  simp only [namesDistinct, List.all_eq_true, Bool.or_eq_true, bne_iff_ne, ne_eq, beq_iff_eq] at h
  rcases h a ha b hb with h | h
  · exact absurd hab h
  · exact h

theorem callOK_leaderAcked (nm : Topic → String) (c : Cache) (keys : List TP) (outs : Outcomes) (r : ProdRes)
    (resp : Resp) (hok : callOK nm c keys outs = true) (h : sendProduce nm c keys outs = some r)
    (hr : resp ∈ respsOf r) : LeaderAcked nm c keys outs resp := by
  simp only [callOK, Bool.and_eq_true] at hok
  refine sendProduce_leaderAcked nm c keys outs r resp h hr (namesDistinct_spec hok.1) ?_
  intro gs hgs
  have := hok.2
  rw [hgs] at this
  exact this

/-- COMPOSED, step level, ANY state: a send Deferred that succeeds with a `ProduceResponse` rides on the payload of
    that topic/partition of the request in flight, and the response is the error-0 answer of the broker request
    that carried that payload - sent to the node the client's cache named as the partition's leader. -/
theorem stepC_leaderAcked (cfg : Cfg) (nm : Topic → String) (st : St) (ce : CEv) (s : Sid) (resp : Resp)
    (hok : evOK nm st ce = true) (h : Ob.fire s (.ok resp) ∈ (stepC cfg nm st ce).2) :
    ∃ rid b c outs, st.phase = .sending rid b ∧
      (ce = .clientDone rid c outs ∨ ∃ w m, ce = .stopC w c (some outs) m) ∧
      resp.error = 0 ∧ resp.tp ∈ b.current ∧ s ∈ b.sidsOf resp.tp ∧ LeaderAcked nm c b.current outs resp := by
  obtain ⟨rid, b, c, outs, r, hph, hce, hsp, hr, herr, htp, hs⟩ := stepC_ok cfg nm st ce s resp h
  refine ⟨rid, b, c, outs, hph, hce, herr, htp, hs, ?_⟩
  apply callOK_leaderAcked nm c b.current outs r resp ?_ hsp hr
  rcases hce with hce | ⟨w, m, hce⟩
  · subst hce; simpa [evOK, hph] using hok
  · subst hce; simpa [evOK, hph] using hok

theorem runC_append (cfg : Cfg) (nm : Topic → String) : ∀ (st : St) (pre post : List CEv),
    runC cfg nm st (pre ++ post) =
      ((runC cfg nm (runC cfg nm st pre).1 post).1, (runC cfg nm st pre).2 ++ (runC cfg nm (runC cfg nm st pre).1 post).2)
  | _, [], _ => by simp [runC]
  | st, e :: es, post => by
    simp only [List.cons_append, runC]
    rw [runC_append cfg nm _ es post]
    simp [List.append_assoc]

theorem runOK_at (cfg : Cfg) (nm : Topic → String) : ∀ (st : St) (pre : List CEv) (ce : CEv) (post : List CEv),
    runOK cfg nm st (pre ++ ce :: post) = true → evOK nm (runC cfg nm st pre).1 ce = true
  | _, [], _, _, h => by
    simp only [List.nil_append, runOK, Bool.and_eq_true] at h
    simpa [runC] using h.1
  | st, e :: es, ce, post, h => by
    simp only [List.cons_append, runOK, Bool.and_eq_true] at h
    have := runOK_at cfg nm _ es ce post h.2
    simpa [runC] using this

end Afkak.ProducerCompose
