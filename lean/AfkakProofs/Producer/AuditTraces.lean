import Afkak.Monitor.C01
import Afkak.Monitor.C09
import Afkak.Monitor.C19
/-! Regression: the hand-written BAD traces of the independent audit (audit/round1/producer/T1..T4.lean), which the
monitors used to accept, are rejected - each by the monitor that owns the violated clause.  (A monitor is only as
strong as the traces it rejects; these stay in the build.) -/
namespace Afkak.Producer.AuditTraces
open Afkak.Producer Afkak.Monitor.ProducerTrace

def cfgU : Cfg := Cfg.ofArgs 1 3 (1/4) false 1 1 none false
def cfg0 : Cfg := Cfg.ofArgs 0 3 (1/4) false 1 1 none false

def sn (queue : List Sid) (mc bc : Int) (idle : Bool) (att : Int) (iv : Rat) (out : List Sid) : Snap :=
  { queue := queue, msgCount := mc, byteCount := bc, idle := idle, attempts := att, interval := iv, outstanding := out, looper := false }
def pl (tp : TP) (sids : List Sid) (vals : List Nat) : Payload := ⟨tp, sids, vals.map (fun v => ⟨none, some v⟩)⟩

def trA : List Step :=
  [ { ev := .metaSet 0 0 (some [0]), obs := [], post := sn [] 0 0 true 0 (1/4) [] },
    { ev := .send 0 0 none [some 3], obs := [.produce 0 [pl ⟨0, 0⟩ [0] [3]]], post := sn [] 0 0 false 1 (1/4) [0] },
    { ev := .cancel 0, obs := [.fire 0 (.err (.acancelled (some true)))], post := sn [] 0 0 false 1 (1/4) [] },
    { ev := .send 1 0 none [some 3], obs := [.produce 1 [pl ⟨0, 0⟩ [1] [3]]], post := sn [] 0 0 false 1 (1/4) [1] },
    { ev := .produceDone 1 (.responses [⟨⟨0, 0⟩, 0, 7⟩]), obs := [.fire 1 (.ok ⟨⟨0, 0⟩, 0, 7⟩)], post := sn [] 0 0 true 0 (1/4) [] } ]

def trB : List Step :=
  [ { ev := .metaSet 0 0 (some [0, 1]), obs := [], post := sn [] 0 0 true 0 (1/4) [] },
    { ev := .send 0 0 none [some 3], obs := [.produce 0 [pl ⟨0, 0⟩ [0] [3]]], post := sn [] 0 0 false 1 (1/4) [0] },
    { ev := .produceDone 0 (.failed [] [⟨⟨0, 0⟩, .unavailable, true⟩]), obs := [.fire 0 .okNone],
      post := sn [] 0 0 true 0 (1/4) [] } ]

def trC : List Step :=
  [ { ev := .metaSet 0 0 (some [0]), obs := [], post := sn [] 0 0 true 0 (1/4) [] },
    { ev := .send 0 0 none [some 3], obs := [.produce 0 [pl ⟨0, 0⟩ [0] [3]]], post := sn [] 0 0 false 1 (1/4) [0] },
    { ev := .produceDone 0 (.responses [⟨⟨0, 0⟩, 0, 7⟩]), obs := [.fire 0 (.err .noResponse)], post := sn [] 0 0 true 0 (1/4) [] } ]

def trD : List Step :=
  [ { ev := .metaSet 0 0 (some [0]), obs := [], post := sn [] 0 0 true 0 (1/4) [] },
    { ev := .send 0 0 none [some 3], obs := [.produce 0 [pl ⟨0, 0⟩ [0] [3]]], post := sn [] 0 0 false 1 (1/4) [0] },
    { ev := .produceDone 0 .none, obs := [.fire 0 (.err .unavailable)], post := sn [] 0 0 true 0 (1/4) [] } ]

def cfgT : Cfg := Cfg.ofArgs 1 3 (1/4) true 100 10000 (some 1) false
def snL (queue : List Sid) (mc bc : Int) (idle : Bool) (att : Int) (iv : Rat) (out : List Sid) : Snap :=
  { sn queue mc bc idle att iv out with looper := true }
def trE : List Step :=
  [ { ev := .metaSet 0 0 (some [0]), obs := [], post := snL [] 0 0 true 0 (1/4) [] },
    { ev := .send 0 0 none [some 3], obs := [], post := snL [0] 1 3 true 0 (1/4) [0] },
    { ev := .advance 1, obs := [], post := snL [0] 1 3 true 0 (1/4) [0] },
    { ev := .tick, obs := [.produce 0 [pl ⟨0, 0⟩ [0] [3]]], post := snL [] 0 0 false 1 (1/4) [0] },
    { ev := .cancel 0, obs := [.fire 0 (.err (.acancelled (some true)))], post := snL [] 0 0 false 1 (1/4) [] },
    { ev := .send 1 0 none [some 3], obs := [], post := snL [1] 1 3 false 1 (1/4) [1] },
    { ev := .advance 1, obs := [], post := snL [1] 1 3 false 1 (1/4) [1] },
    { ev := .tick, obs := [.produce 1 [pl ⟨0, 0⟩ [1] [3]]], post := snL [] 0 0 false 1 (1/4) [1] } ]

-- T1 (1): send after stop, never fires (the old model's trace)
def trS : List Step :=
  [ { ev := .metaSet 0 0 (some [0]), obs := [], post := sn [] 0 0 true 0 (1/4) [] },
    { ev := .stop false none [], obs := [], post := sn [] 0 0 true 0 (1/4) [] },
    { ev := .send 0 0 none [some 3], obs := [], post := sn [0] 1 3 true 0 (1/4) [0] },
    { ev := .tick, obs := [.badOp], post := sn [0] 1 3 true 0 (1/4) [0] } ]

-- F (the old code's trace): acks=0, B handed over in attempt 1 is re-sent after the total failure of A's retry
def cfgB0 : Cfg := Cfg.ofArgs 0 5 (1/4) true 2 0 none false
def trF : List Step :=
  [ { ev := .metaSet 0 0 (some [0, 1]), obs := [], post := sn [] 0 0 true 0 (1/4) [] },
    { ev := .send 0 0 none [some 3], obs := [], post := sn [0] 1 3 true 0 (1/4) [0] },
    { ev := .send 1 0 none [some 4], obs := [.produce 0 [pl ⟨0, 0⟩ [0] [3], pl ⟨0, 1⟩ [1] [4]]], post := sn [] 0 0 false 1 (1/4) [0, 1] },
    { ev := .produceDone 0 (.failed [] [⟨⟨0, 0⟩, .unavailable, true⟩]), obs := [.setTimer 0 (1/4)], post := sn [] 0 0 false 1 (3/8) [0, 1] },
    { ev := .timer 0, obs := [.produce 1 [pl ⟨0, 0⟩ [0] [3]]], post := sn [] 0 0 false 2 (3/8) [0, 1] },
    { ev := .produceDone 1 (.err .leaderUnavailable), obs := [.setTimer 1 (3/8)], post := sn [] 0 0 false 2 (9/16) [0, 1] },
    { ev := .timer 1, obs := [.produce 2 [pl ⟨0, 0⟩ [0] [3], pl ⟨0, 1⟩ [1] [4]]], post := sn [] 0 0 false 3 (9/16) [0, 1] } ]

/-- A: a second batch goes out while request 0 is unanswered (its only caller cancelled late) -/
example : Afkak.Monitor.C09.oneBatch cfgU trA = false := by decide +kernel
example : Afkak.Monitor.C19.dispatchIff cfgU trA = false := by decide +kernel
/-- B: acks = 0, a payload reported FAILED, attempts left: `None` as success -/
example : Afkak.Monitor.C01.successAcked cfg0 trB = false := by decide +kernel
/-- C: an acknowledged send is not reported `ok` in the step that takes the answer -/
example : Afkak.Monitor.C09.reported cfgU trC = false := by decide +kernel
/-- D: acks = 0, the empty answer, and the send does not succeed -/
example : Afkak.Monitor.C01.emptyAnswer cfg0 trD = false := by decide +kernel
/-- E: a tick dispatches a second batch while the first request is unanswered -/
example : Afkak.Monitor.C09.oneBatch cfgT trE = false := by decide +kernel
example : Afkak.Monitor.C19.dispatchIff cfgT trE = false := by decide +kernel
/-- S: a send after `stop()` is queued and never fires (F29) -/
example : Afkak.Monitor.C19.stop cfgU trS = false := by decide +kernel
/-- F: acks = 0, payload B handed to its connection in attempt 1 is sent again after a total failure (F30) -/
example : Afkak.Monitor.C09.retryOnlyFailed cfgB0 trF = false := by decide +kernel

/-- G (audit C01-6): the client did not account for batch 1 (an answer naming nothing) - that exempts batch 1's send,
    NOT the send of batch 2, which is acknowledged and never fired -/
def trG : List Step :=
  [ { ev := .metaSet 0 0 (some [0]), obs := [], post := sn [] 0 0 true 0 (1/4) [] },
    { ev := .send 0 0 none [some 3], obs := [.produce 0 [pl ⟨0, 0⟩ [0] [3]]], post := sn [] 0 0 false 1 (1/4) [0] },
    { ev := .produceDone 0 (.failed [] []), obs := [], post := sn [] 0 0 true 0 (1/4) [0] },
    { ev := .send 1 0 none [some 3], obs := [.produce 1 [pl ⟨0, 0⟩ [1] [3]]], post := sn [] 0 0 false 1 (1/4) [0, 1] },
    { ev := .produceDone 1 (.responses [⟨⟨0, 0⟩, 0, 7⟩]), obs := [], post := sn [] 0 0 true 0 (1/4) [0, 1] } ]
example : Afkak.Monitor.C01.resolvedFired cfgU trG = false := by decide +kernel
/-- … while the exemption itself is granted: up to the unaccounted answer the trace passes -/
example : Afkak.Monitor.C01.resolvedFired cfgU (trG.take 4) = true := by decide +kernel

end Afkak.Producer.AuditTraces
