import AfkakProofs.Producer.Queue
import AfkakProofs.Producer.Spec
import AfkakProofs.Producer.Truth
/-! Where send ids live: queued, or in the batch in flight.  A produce request only carries sends of the
batch in flight, which were taken from the queue; a send removed from the queue never comes back. -/
namespace Afkak.Producer
open Afkak.Consts Afkak.Monitor.ProducerTrace

/-- the sends of the batch in flight -/
def inflight (st : St) : List Sid :=
  match st.phase with
  | .idle => []
  | .lookups ls => ls.map (·.req.sid)
  | .sending _ b => b.allSids
  | .retryWait _ b _ => b.allSids

def queued (st : St) : List Sid := st.queue.map (·.sid)

/-- every send in a produce request of `obs` is in `l` -/
def prodIn (obs : List Ob) (l : List Sid) : Prop :=
  ∀ rid ps, Ob.produce rid ps ∈ obs → ∀ x ∈ payloadSids ps, x ∈ l

theorem prodIn_nil (l : List Sid) : prodIn [] l := by intro rid ps h; cases h
theorem prodIn_append {a b : List Ob} {l : List Sid} (ha : prodIn a l) (hb : prodIn b l) : prodIn (a ++ b) l := by
  intro rid ps h x hx
  rcases List.mem_append.mp h with h | h
  · exact ha rid ps h x hx
  · exact hb rid ps h x hx
theorem prodIn_of_noshape {obs : List Ob} (l : List Sid) (h : shapeOf obs = []) : prodIn obs l := by
  intro rid ps hm
  have : Ob.produce rid ps ∈ shapeOf obs := List.mem_filter.mpr ⟨hm, rfl⟩
  rw [h] at this; cases this
theorem prodIn_mono {obs : List Ob} {l l' : List Sid} (h : prodIn obs l) (hs : ∀ x ∈ l, x ∈ l') : prodIn obs l' :=
  fun rid ps hm x hx => hs x (h rid ps hm x hx)

/-! ### `_send_requests`: the groups are made of the look-ups' sends -/

theorem addToGroups_sids (gs : List Payload) (tp : TP) (sid : Sid) (ms : List Msg) :
    ∀ x ∈ payloadSids (addToGroups gs tp sid ms), x ∈ payloadSids gs ∨ x = sid := by
  intro x hx
  simp only [addToGroups] at hx
  split at hx
  · simp only [payloadSids, List.mem_flatMap, List.mem_map] at hx ⊢
    obtain ⟨g', ⟨g, hg, hge⟩, hxg⟩ := hx
    split at hge
    · subst hge
      simp only [List.mem_append, List.mem_singleton] at hxg
      rcases hxg with h | h
      · exact Or.inl ⟨g, hg, h⟩
      · exact Or.inr h
    · subst hge; exact Or.inl ⟨g, hg, hxg⟩
  · simp only [payloadSids, List.flatMap_append, List.mem_append, List.flatMap_cons, List.flatMap_nil,
      List.append_nil, List.mem_singleton] at hx ⊢
    exact hx

theorem procResults_sids (ls : List Lookup) (out : List Sid) (gs : List Payload) :
    ∀ x ∈ payloadSids (procResults ls out gs).2.1, x ∈ payloadSids gs ∨ x ∈ ls.map (·.req.sid) := by
  induction ls generalizing out gs with
  | nil => intro x hx; exact Or.inl hx
  | cons l rest ih =>
    intro x hx
    simp only [procResults] at hx
    have lift : (x ∈ payloadSids gs ∨ x ∈ rest.map (·.req.sid)) → x ∈ payloadSids gs ∨ x ∈ (l :: rest).map (·.req.sid) := by
      rintro (h | h)
      · exact Or.inl h
      · exact Or.inr (List.mem_cons_of_mem _ h)
    split at hx
    · split at hx
      · rcases ih _ _ x hx with h | h
        · rcases addToGroups_sids gs _ _ _ x h with h | h
          · exact Or.inl h
          · exact Or.inr (by rw [h]; exact List.mem_cons_self)
        · exact Or.inr (List.mem_cons_of_mem _ h)
      · exact lift (ih _ _ x hx)
      · exact lift (ih _ _ x hx)
    · exact lift (ih _ _ x hx)

theorem sendRequests_sids (st : St) (ls : List Lookup) :
    (∀ x ∈ inflight (sendRequests st ls).1, x ∈ inflight st ∨ x ∈ ls.map (·.req.sid)) ∧
    prodIn (sendRequests st ls).2.1 (inflight (sendRequests st ls).1) := by
  have hp := procResults_sids ls st.outstanding []
  have hsh := (procResults_spec ls st.outstanding [] (by simp)).2.2
  simp only [sendRequests]
  split
  · exact ⟨fun x hx => Or.inl hx, prodIn_nil _⟩
  · split
    · exact ⟨fun x hx => Or.inl hx, prodIn_of_noshape _ hsh⟩
    · refine ⟨?_, ?_⟩
      · intro x hx
        simp only [inflight, Batch.allSids] at hx
        rcases hp x hx with h | h
        · simp [payloadSids] at h
        · exact Or.inr h
      · apply prodIn_append (prodIn_of_noshape _ hsh)
        intro rid ps hm x hx
        simp only [List.mem_singleton] at hm
        injection hm with _ hps
        subst hps
        simpa [inflight, Batch.allSids, payloadSids] using hx

end Afkak.Producer

namespace Afkak.Producer
open Afkak.Consts Afkak.Monitor.ProducerTrace

def known (st : St) : List Sid := inflight st ++ queued st

/-- how a handler moves send ids: the queue is left alone or taken whole; what is in flight afterwards
    was in flight or (if the queue was taken) queued; produce requests carry known sends only -/
structure Mv (a b : St) (obs : List Ob) : Prop where
  q : QStep a b
  infl : ∀ x ∈ inflight b, x ∈ inflight a ∨ (b.queue = [] ∧ x ∈ queued a)
  prod : prodIn obs (known a)

theorem QStep.empty_stays {a b : St} (h : QStep a b) (ha : a.queue = []) : b.queue = [] := by
  rcases h with h | h
  · rw [h.1]; exact ha
  · exact h.1

theorem Mv.known_sub {a b : St} {obs : List Ob} (h : Mv a b obs) : ∀ x ∈ known b, x ∈ known a := by
  intro x hx
  simp only [known, List.mem_append] at *
  rcases hx with hx | hx
  · rcases h.infl x hx with h1 | ⟨_, h1⟩
    · exact Or.inl h1
    · exact Or.inr h1
  · simp only [queued, List.mem_map] at hx ⊢
    obtain ⟨r, hr, hre⟩ := hx
    exact Or.inr ⟨r, h.q.sub r hr, hre⟩

theorem Mv.trans {a b c : St} {o1 o2 : List Ob} (h1 : Mv a b o1) (h2 : Mv b c o2) : Mv a c (o1 ++ o2) := by
  refine ⟨h1.q.trans h2.q, ?_, prodIn_append h1.prod (prodIn_mono h2.prod h1.known_sub)⟩
  intro x hx
  rcases h2.infl x hx with hx | ⟨hc, hx⟩
  · rcases h1.infl x hx with hx | ⟨hb, hx⟩
    · exact Or.inl hx
    · exact Or.inr ⟨h2.q.empty_stays hb, hx⟩
  · simp only [queued, List.mem_map] at hx
    obtain ⟨r, hr, hre⟩ := hx
    exact Or.inr ⟨hc, by simp only [queued, List.mem_map]; exact ⟨r, h1.q.sub r hr, hre⟩⟩

/-- a handler that leaves queue and phase alone and sends nothing -/
theorem Mv.same {a b : St} {obs : List Ob} (hq : SameQ a b) (hp : b.phase = a.phase) (hs : shapeOf obs = []) : Mv a b obs :=
  ⟨hq.q, fun x hx => Or.inl (by simpa [inflight, hp] using hx), prodIn_of_noshape _ hs⟩

theorem Mv.rfl' (a : St) : Mv a a [] := Mv.same (SameQ.rfl' a) rfl rfl

theorem lookupHead_mv (cfg : Cfg) (st : St) (r : Req) : Mv st (lookupHead cfg st r).1 (lookupHead cfg st r).2.2 := by
  obtain ⟨s1, _, _, _, s5, _⟩ := lookupHead_spec cfg st r
  exact Mv.same (lookupHead_sameQ cfg st r) s5 s1

theorem startLookups_phase (cfg : Cfg) (st : St) (rs : List Req) : (startLookups cfg st rs).1.phase = st.phase := by
  rw [startLookups_frame]

theorem resetBatch_mv (cfg : Cfg) (st : St) : Mv st (resetBatch cfg st) [] :=
  ⟨SameQ.q ⟨rfl, rfl, rfl⟩, fun x hx => by simp [inflight, resetBatch] at hx, prodIn_nil _⟩

theorem sendRequests_mv (st : St) (ls : List Lookup) (hp : st.phase = .lookups ls) :
    Mv st (sendRequests st ls).1 (sendRequests st ls).2.1 := by
  obtain ⟨h1, h2⟩ := sendRequests_sids st ls
  have hin : inflight st = ls.map (·.req.sid) := by simp [inflight, hp]
  refine ⟨(sendRequests_sameQ st ls).q, ?_, ?_⟩
  · intro x hx
    rcases h1 x hx with h | h
    · exact Or.inl h
    · exact Or.inl (by rw [hin]; exact h)
  · refine prodIn_mono h2 ?_
    intro x hx
    simp only [known, List.mem_append]
    rcases h1 x hx with h | h
    · exact Or.inl h
    · exact Or.inl (by rw [hin]; exact h)

theorem dispatch_emptied (cfg : Cfg) (st : St) : (dispatch cfg st).1.queue = [] := by
  have h1 := startLookups_sameQ cfg { st with queue := [], msgCount := 0, byteCount := 0 } st.queue
  simp only [dispatch]
  split
  · have h2 := h1.trans (SameQ.trans (b := { (startLookups cfg { st with queue := [], msgCount := 0, byteCount := 0 } st.queue).1 with
        phase := .lookups (startLookups cfg { st with queue := [], msgCount := 0, byteCount := 0 } st.queue).2.1 })
        ⟨rfl, rfl, rfl⟩ (sendRequests_sameQ _ (startLookups cfg { st with queue := [], msgCount := 0, byteCount := 0 } st.queue).2.1))
    split
    · exact h2.1
    · exact h2.1
  · exact h1.1

theorem dispatch_mv (cfg : Cfg) (st : St) : Mv st (dispatch cfg st).1 (dispatch cfg st).2 := by
  obtain ⟨s1, _, s3⟩ := startLookups_spec cfg { st with queue := [], msgCount := 0, byteCount := 0 } st.queue
  have hqe := dispatch_emptied cfg st
  have hls : (startLookups cfg { st with queue := [], msgCount := 0, byteCount := 0 } st.queue).2.1.map (·.req.sid) = queued st := by
    have := congrArg (List.map (·.sid)) s3
    simpa [queued, List.map_map, Function.comp_def] using this
  refine ⟨dispatch_q cfg st, ?_, ?_⟩
  · intro x hx
    refine Or.inr ⟨hqe, ?_⟩
    rw [← hls]
    simp only [dispatch] at hx
    split at hx
    · have hm := sendRequests_mv
        { (startLookups cfg { st with queue := [], msgCount := 0, byteCount := 0 } st.queue).1 with
          phase := .lookups (startLookups cfg { st with queue := [], msgCount := 0, byteCount := 0 } st.queue).2.1 }
        (startLookups cfg { st with queue := [], msgCount := 0, byteCount := 0 } st.queue).2.1 rfl
      split at hx
      · simp [inflight, resetBatch] at hx
      · rcases hm.infl x hx with h | ⟨_, h⟩
        · simpa [inflight] using h
        · have hq0 : (startLookups cfg { st with queue := [], msgCount := 0, byteCount := 0 } st.queue).1.queue = [] :=
            (startLookups_sameQ cfg { st with queue := [], msgCount := 0, byteCount := 0 } st.queue).1
          simp [queued, hq0] at h
    · simpa [inflight] using hx
  · simp only [dispatch]
    have hk : ∀ x ∈ (startLookups cfg { st with queue := [], msgCount := 0, byteCount := 0 } st.queue).2.1.map (·.req.sid),
        x ∈ known st := by
      intro x hx; rw [hls] at hx; simp only [known, List.mem_append]; exact Or.inr hx
    split
    · have hm := sendRequests_mv
        { (startLookups cfg { st with queue := [], msgCount := 0, byteCount := 0 } st.queue).1 with
          phase := .lookups (startLookups cfg { st with queue := [], msgCount := 0, byteCount := 0 } st.queue).2.1 }
        (startLookups cfg { st with queue := [], msgCount := 0, byteCount := 0 } st.queue).2.1 rfl
      refine prodIn_append (prodIn_of_noshape _ s1) (prodIn_mono hm.prod ?_)
      intro x hx
      have hq0 : (startLookups cfg { st with queue := [], msgCount := 0, byteCount := 0 } st.queue).1.queue = [] :=
        (startLookups_sameQ cfg { st with queue := [], msgCount := 0, byteCount := 0 } st.queue).1
      simp only [known, inflight, queued, hq0, List.map_nil, List.append_nil] at hx
      exact hk x hx
    · exact prodIn_of_noshape _ s1

theorem sendBatch_mv (cfg : Cfg) (st : St) : Mv st (sendBatch cfg st).1 (sendBatch cfg st).2 := by
  simp only [sendBatch]; split
  · exact dispatch_mv cfg st
  · exact Mv.rfl' st

theorem checkSendBatch_mv (cfg : Cfg) (st : St) : Mv st (checkSendBatch cfg st).1 (checkSendBatch cfg st).2 := by
  simp only [checkSendBatch]; split
  · exact sendBatch_mv cfg st
  · exact Mv.rfl' st

theorem completeBatch_mv (cfg : Cfg) (st : St) : Mv st (completeBatch cfg st).1 (completeBatch cfg st).2 := by
  simp only [completeBatch]
  have := (resetBatch_mv cfg st).trans (checkSendBatch_mv cfg (resetBatch cfg st))
  simpa using this

theorem finish_mv (cfg : Cfg) (st : St) (r : St × List Ob × Bool) (h : Mv st r.1 r.2.1) :
    Mv st (finish cfg r).1 (finish cfg r).2 := by
  simp only [finish]; split
  · exact h.trans (completeBatch_mv cfg r.1)
  · exact h

end Afkak.Producer

namespace Afkak.Producer
open Afkak.Consts Afkak.Monitor.ProducerTrace

theorem payloadsFor_sids_sub (b : Batch) (tps : List TP) : ∀ s ∈ payloadSids (b.payloadsFor tps), s ∈ b.allSids := by
  intro s hs
  simp only [payloadSids, Batch.payloadsFor, Batch.allSids, List.mem_flatMap, List.mem_filter] at *
  obtain ⟨g, ⟨tp, _, hg, _⟩, hgs⟩ := hs
  exact ⟨g, hg, hgs⟩

theorem metaContinue_phase_shape (cfg : Cfg) (st : St) (r : Req) (res : MetaRes) :
    (metaContinue cfg st r res).1.phase = st.phase ∧
    (shapeOf (metaContinue cfg st r res).2.2 = [] ∨ ∃ tid d, shapeOf (metaContinue cfg st r res).2.2 = [.setTimer tid d]) := by
  cases res with
  | err k => simp [metaContinue, shapeOf]
  | ok =>
    simp only [metaContinue]
    split
    · simp [shapeOf]
    · split
      · have hf := pickPartition_frame cfg st r.topic r.key
        exact ⟨by rw [hf], Or.inl rfl⟩
      · exact ⟨rfl, Or.inr ⟨st.nextTid, st.interval, by simp [shapeOf, isShape, List.filter_cons]⟩⟩

theorem keep_allSids (b : Batch) (tps : List TP) : (b.keep tps).allSids = b.allSids := rfl

theorem handleSendResponse_mv (cfg : Cfg) (st : St) (rid : Rid) (b : Batch) (r : ProdRes) (hp : st.phase = .sending rid b) :
    Mv st (handleSendResponse cfg st b r).1 (handleSendResponse cfg st b r).2.1 := by
  obtain ⟨_, hd⟩ := handleSendResponse_spec cfg st b r
  have hq := (handleSendResponse_sameQ cfg st b r).q
  generalize (handleSendResponse cfg st b r).2.2 = resolved at hd
  cases hd with
  | resolved d1 _ _ _ d5 =>
    exact ⟨hq, fun x hx => Or.inl (by simpa [inflight, d1] using hx), prodIn_of_noshape _ d5⟩
  | retry d1 _ _ _ _ _ _ d8 =>
    refine ⟨hq, fun x hx => Or.inl ?_, ?_⟩
    · simp only [inflight, d1, keep_allSids] at hx
      simpa [inflight, hp] using hx
    · intro rid' ps hm
      have : Ob.produce rid' ps ∈ shapeOf (handleSendResponse cfg st b r).2.1 := List.mem_filter.mpr ⟨hm, rfl⟩
      rw [d8] at this; simp at this

theorem deliverAll_mv (st : St) (b : Batch) (o : Outcome) : Mv st (deliverAll st b o).1 (deliverAll st b o).2.1 := by
  obtain ⟨_, _, d3, _, _, _, d7⟩ := deliverAll_spec st b o
  exact Mv.same (deliverAll_sameQ st b o) d3 d7

theorem doRetry_mv (st : St) (tid : Tid) (b : Batch) (tps : List TP) (hp : st.phase = .retryWait tid b tps) :
    Mv st (doRetry st b tps).1 (doRetry st b tps).2 := by
  refine ⟨SameQ.q ⟨rfl, rfl, rfl⟩, fun x hx => Or.inl ?_, ?_⟩
  · simp only [doRetry, inflight, Batch.allSids] at hx
    simpa [inflight, hp, Batch.allSids] using hx
  · intro rid ps hm x hx
    simp only [doRetry, List.mem_singleton] at hm
    injection hm with _ hps; subst hps
    simp only [known, List.mem_append]
    left
    have := payloadsFor_sids_sub b tps x hx
    simpa [inflight, hp] using this

theorem afterLookups_mv (cfg : Cfg) (st : St) (ls : List Lookup) (obs0 : List Ob)
    (hls : ∀ x ∈ ls.map (·.req.sid), x ∈ inflight st) (h0 : prodIn obs0 (known st)) :
    Mv st (afterLookups cfg st ls obs0).1 (afterLookups cfg st ls obs0).2 := by
  have hbase : Mv st { st with phase := .lookups ls } obs0 :=
    ⟨SameQ.q ⟨rfl, rfl, rfl⟩, fun x hx => Or.inl (hls x (by simpa [inflight] using hx)), h0⟩
  simp only [afterLookups]
  split
  · have h1 := hbase.trans (sendRequests_mv { st with phase := .lookups ls } ls rfl)
    split
    · have := h1.trans (completeBatch_mv cfg (sendRequests { st with phase := .lookups ls } ls).1)
      simpa [List.append_assoc] using this
    · exact h1
  · exact hbase

theorem zombieTimer_mv (st : St) (tid : Tid) : Mv st (zombieTimer st tid).1 (zombieTimer st tid).2 := by
  obtain ⟨z1, _, _, _, _, z6⟩ := (by
    simp only [zombieTimer]; split <;> simp [shapeOf, isShape] :
    (zombieTimer st tid).1.phase = st.phase ∧ True ∧ True ∧ True ∧ True ∧ shapeOf (zombieTimer st tid).2 = [])
  have hq : SameQ st (zombieTimer st tid).1 := by simp only [zombieTimer]; split <;> exact ⟨rfl, rfl, rfl⟩
  exact Mv.same hq z1 z6

theorem setPc_sids (ls : List Lookup) (old new : LPc) : (setPc ls old new).map (·.req.sid) = ls.map (·.req.sid) := by
  simp only [setPc, List.map_map]
  apply List.map_congr_left
  intro l _; simp only [Function.comp]; split <;> rfl

theorem timerLookups_mv (cfg : Cfg) (st : St) (ls : List Lookup) (tid : Tid) (hp : st.phase = .lookups ls) :
    Mv st (timerLookups cfg st ls tid).1 (timerLookups cfg st ls tid).2 := by
  simp only [timerLookups]; split
  · rename_i l _
    have h1 := lookupHead_mv cfg st l.req
    have hph := (lookupHead_spec cfg st l.req).2.2.2.2.1
    have h2 := afterLookups_mv cfg (lookupHead cfg st l.req).1 (setPc ls (.waitBackoff tid) (lookupHead cfg st l.req).2.1)
      (lookupHead cfg st l.req).2.2 (by rw [setPc_sids]; intro x hx; simpa [inflight, hph, hp] using hx)
      (prodIn_of_noshape _ (lookupHead_spec cfg st l.req).1)
    -- the observations of lookupHead are those passed through afterLookups: no duplication
    refine ⟨h1.q.trans h2.q, ?_, h2.prod |> fun p => prodIn_mono p h1.known_sub⟩
    intro x hx
    rcases h2.infl x hx with h | ⟨hc, h⟩
    · rcases h1.infl x h with h | ⟨hb, h⟩
      · exact Or.inl h
      · exact Or.inr ⟨h2.q.empty_stays hb, h⟩
    · simp only [queued, List.mem_map] at h
      obtain ⟨r, hr, hre⟩ := h
      exact Or.inr ⟨hc, by simp only [queued, List.mem_map]; exact ⟨r, h1.q.sub r hr, hre⟩⟩
  · exact zombieTimer_mv st tid

theorem metaDoneLookups_mv (cfg : Cfg) (st : St) (ls : List Lookup) (rid : Rid) (res : MetaRes) (hp : st.phase = .lookups ls) :
    Mv st (metaDoneLookups cfg st ls rid res).1 (metaDoneLookups cfg st ls rid res).2 := by
  simp only [metaDoneLookups]; split
  · rename_i l _
    obtain ⟨c0, c1⟩ := metaContinue_phase_shape cfg st l.req res
    have hsq := metaContinue_sameQ cfg st l.req res
    have h1 : Mv st (metaContinue cfg st l.req res).1 [] :=
      ⟨hsq.q, fun x hx => Or.inl (by simpa [inflight, c0] using hx), prodIn_nil _⟩
    have hnp : prodIn (metaContinue cfg st l.req res).2.2 (known (metaContinue cfg st l.req res).1) := by
      intro rid' ps hm
      have : Ob.produce rid' ps ∈ shapeOf (metaContinue cfg st l.req res).2.2 := List.mem_filter.mpr ⟨hm, rfl⟩
      rcases c1 with e | ⟨_, _, e⟩ <;> (rw [e] at this; simp at this)
    have h2 := afterLookups_mv cfg (metaContinue cfg st l.req res).1 (setPc ls (.waitMeta rid) (metaContinue cfg st l.req res).2.1)
      (metaContinue cfg st l.req res).2.2 (by rw [setPc_sids]; intro x hx; simpa [inflight, c0, hp] using hx) hnp
    have := h1.trans h2
    simpa using this
  · exact Mv.same (SameQ.rfl' st) rfl (by simp [shapeOf, isShape])

end Afkak.Producer

namespace Afkak.Producer
open Afkak.Consts Afkak.Monitor.ProducerTrace

theorem cancelLookup_req (mouts : List (Rid × MetaRes)) (l : Lookup) : (cancelLookup mouts l).1.req = l.req := by
  simp only [cancelLookup]; repeat' split
  all_goals rfl

theorem cancelLookups_mv (cfg : Cfg) (st : St) (ls : List Lookup) (mouts : List (Rid × MetaRes)) (hp : st.phase = .lookups ls) :
    Mv st (cancelLookups cfg st ls mouts).1 (cancelLookups cfg st ls mouts).2 := by
  simp only [cancelLookups]
  have hsh : shapeOf ((ls.map (cancelLookup mouts)).flatMap (·.2.2)) = [] := by
    rw [List.flatMap_map]; exact flatMap_shape _ _ (cancelLookup_shape mouts)
  have hsid : ((ls.map (cancelLookup mouts)).map (·.1)).map (·.req.sid) = ls.map (·.req.sid) := by
    simp only [List.map_map]
    apply List.map_congr_left
    intro l _; simp only [Function.comp, cancelLookup_req]
  have h1 : Mv st { st with zombies := st.zombies ++ (ls.map (cancelLookup mouts)).flatMap (·.2.1) } [] :=
    Mv.same ⟨rfl, rfl, rfl⟩ rfl rfl
  have h2 := afterLookups_mv cfg { st with zombies := st.zombies ++ (ls.map (cancelLookup mouts)).flatMap (·.2.1) }
    ((ls.map (cancelLookup mouts)).map (·.1)) ((ls.map (cancelLookup mouts)).flatMap (·.2.2))
    (by rw [hsid]; intro x hx; simpa [inflight, hp] using hx) (prodIn_of_noshape _ hsh)
  have := h1.trans h2
  simpa using this

theorem cancelSending_mv (cfg : Cfg) (st : St) (wipe : Bool) (rid : Rid) (b : Batch) (pout : Option ProdRes)
    (hp : st.phase = .sending rid b) :
    Mv st (cancelSending cfg st wipe rid b pout).1 (cancelSending cfg st wipe rid b pout).2 := by
  cases pout with
  | none => exact Mv.same (SameQ.rfl' st) rfl (by simp [cancelSending, shapeOf, isShape])
  | some r =>
    simp only [cancelSending]
    have key : ∀ s : St, s.phase = .sending rid b → Mv s (finish cfg (handleSendResponse cfg s b r)).1
        (Ob.cancelReq rid :: (finish cfg (handleSendResponse cfg s b r)).2) := by
      intro s hs
      have h0 : Mv s s [Ob.cancelReq rid] := Mv.same (SameQ.rfl' s) rfl (by simp [shapeOf, isShape])
      have := h0.trans (finish_mv cfg s _ (handleSendResponse_mv cfg s rid b r hs))
      simpa using this
    cases wipe with
    | false => exact key st hp
    | true =>
      have h1 : Mv st { st with tmeta := [] } [] := Mv.same ⟨rfl, rfl, rfl⟩ rfl rfl
      have := h1.trans (key { st with tmeta := [] } hp)
      simpa using this

theorem cancelRetryWait_mv (cfg : Cfg) (st : St) (tid : Tid) (b : Batch) :
    Mv st (cancelRetryWait cfg st tid b).1 (cancelRetryWait cfg st tid b).2 := by
  simp only [cancelRetryWait]
  have h0 : Mv st st [Ob.cancelTimer tid] := Mv.same (SameQ.rfl' st) rfl (by simp [shapeOf, isShape])
  have := h0.trans (finish_mv cfg st _ (deliverAll_mv st b (.err .tcancelled)))
  simpa using this

theorem cancelBatch_mv (cfg : Cfg) (st : St) (wipe : Bool) (pout : Option ProdRes) (mouts : List (Rid × MetaRes)) :
    Mv st (cancelBatch cfg st wipe pout mouts).1 (cancelBatch cfg st wipe pout mouts).2 := by
  simp only [cancelBatch]
  split
  · exact Mv.rfl' st
  · rename_i ls hp; exact cancelLookups_mv cfg st ls mouts hp
  · rename_i rid b hp; exact cancelSending_mv cfg st wipe rid b pout hp
  · exact cancelRetryWait_mv cfg st _ _

/-- what a whole step does to send ids; `new`: the id a valid non-empty `send` introduces -/
structure KStep (st st' : St) (obs : List Ob) (new : List Sid) : Prop where
  infl : ∀ x ∈ inflight st', x ∈ inflight st ∨ (st'.queue = [] ∧ (x ∈ queued st ∨ x ∈ new))
  qsub : ∀ x ∈ queued st', x ∈ queued st ∨ x ∈ new
  prod : prodIn obs (known st ++ new)

theorem Mv.kstep {a b : St} {obs : List Ob} (h : Mv a b obs) : KStep a b obs [] := by
  refine ⟨fun x hx => ?_, ?_, prodIn_mono h.prod (fun x hx => List.mem_append_left _ hx)⟩
  · rcases h.infl x hx with h1 | ⟨h1, h2⟩
    · exact Or.inl h1
    · exact Or.inr ⟨h1, Or.inl h2⟩
  · intro x hx
    simp only [queued, List.mem_map] at hx ⊢
    obtain ⟨r, hr, hre⟩ := hx
    exact Or.inl ⟨r, h.q.sub r hr, hre⟩

theorem cancelSend_k (st : St) (sid : Sid) :
    (cancelSend st sid).1.phase = st.phase ∧ (∀ x ∈ queued (cancelSend st sid).1, x ∈ queued st ∧ (sid ∈ st.outstanding → x ≠ sid)) ∧
    shapeOf (cancelSend st sid).2 = [] := by
  refine ⟨(cancelSend_spec st sid).2.2.1, ?_, (cancelSend_spec st sid).2.1⟩
  intro x hx
  simp only [cancelSend] at hx
  split at hx
  · split at hx
    · simp only [queued, List.mem_map, List.mem_filter] at hx ⊢
      obtain ⟨r, ⟨hr, hne⟩, hre⟩ := hx
      exact ⟨⟨r, hr, hre⟩, fun _ => by rw [← hre]; simpa using hne⟩
    · rename_i hnq
      refine ⟨hx, fun _ hc => ?_⟩
      simp only [queued, List.mem_map] at hx
      obtain ⟨r, hr, hre⟩ := hx
      apply hnq
      rw [List.any_eq_true]; exact ⟨r, hr, by simp [hre, hc]⟩
  · rename_i hno; exact ⟨hx, fun h => absurd h hno⟩

theorem cancelAll_k (st : St) (l : List Sid) :
    (cancelAll st l).1.phase = st.phase ∧ (∀ x ∈ queued (cancelAll st l).1, x ∈ queued st) ∧ shapeOf (cancelAll st l).2 = [] := by
  induction l generalizing st with
  | nil => exact ⟨rfl, fun x hx => hx, rfl⟩
  | cons s rest ih =>
    obtain ⟨a1, a2, a3⟩ := cancelSend_k st s
    obtain ⟨b1, b2, b3⟩ := ih (cancelSend st s).1
    simp only [cancelAll]
    exact ⟨by rw [b1, a1], fun x hx => (a2 x (b2 x hx)).1, by rw [shapeOf_append, a3, b3]; rfl⟩

end Afkak.Producer

namespace Afkak.Producer
open Afkak.Consts Afkak.Monitor.ProducerTrace

def newOf (st : St) : Ev → List Sid
  | .send sid _ _ msgs => if sid = st.nextSid ∧ msgs.isEmpty = false then [sid] else []
  | _ => []

theorem KStep.ofSame {st st' : St} {obs : List Ob} (hq : st'.queue = st.queue) (hp : st'.phase = st.phase)
    (hs : shapeOf obs = []) (new : List Sid) : KStep st st' obs new :=
  ⟨fun x hx => Or.inl (by simpa [inflight, hp] using hx), fun x hx => Or.inl (by simpa [queued, hq] using hx),
    prodIn_of_noshape _ hs⟩

theorem KStep.weaken {st st' : St} {obs : List Ob} (h : KStep st st' obs []) (new : List Sid) : KStep st st' obs new := by
  refine ⟨fun x hx => ?_, fun x hx => ?_, prodIn_mono h.prod (fun x hx => List.mem_append_left _ (by simpa using hx))⟩
  · rcases h.infl x hx with h1 | ⟨h1, h2 | h2⟩
    · exact Or.inl h1
    · exact Or.inr ⟨h1, Or.inl h2⟩
    · cases h2
  · rcases h.qsub x hx with h1 | h1
    · exact Or.inl h1
    · cases h1

theorem doStop_k (cfg : Cfg) (st : St) (wipe : Bool) (pout : Option ProdRes) (mouts : List (Rid × MetaRes)) :
    KStep st (doStop cfg st wipe pout mouts).1 (doStop cfg st wipe pout mouts).2 [] := by
  have h1 : Mv st { st with stopping := true } [] := Mv.same ⟨rfl, rfl, rfl⟩ rfl rfl
  have h2 := h1.trans (cancelBatch_mv cfg { st with stopping := true } wipe pout mouts)
  have k := h2.kstep
  simp only [List.nil_append] at k
  have tail : ∀ (s3 : St) (o3 : List Ob), s3.queue = (cancelBatch cfg { st with stopping := true } wipe pout mouts).1.queue →
      s3.phase = (cancelBatch cfg { st with stopping := true } wipe pout mouts).1.phase → shapeOf o3 = [] →
      KStep st (cancelAll s3 s3.outstanding).1
        ((cancelBatch cfg { st with stopping := true } wipe pout mouts).2 ++ o3 ++ (cancelAll s3 s3.outstanding).2) [] := by
    intro s3 o3 hq hp ho
    obtain ⟨c1, c2, c3⟩ := cancelAll_k s3 s3.outstanding
    refine ⟨?_, ?_, ?_⟩
    · intro x hx
      have hx' : x ∈ inflight (cancelBatch cfg { st with stopping := true } wipe pout mouts).1 := by
        simpa [inflight, c1, hp] using hx
      rcases k.infl x hx' with h | ⟨h, h'⟩
      · exact Or.inl h
      · refine Or.inr ⟨?_, h'⟩
        have : queued (cancelAll s3 s3.outstanding).1 = [] := by
          apply List.eq_nil_iff_forall_not_mem.mpr
          intro y hy
          have := c2 y hy
          simp [queued, hq, h] at this
        simpa [queued] using this
    · intro x hx
      have := c2 x hx
      exact k.qsub x (by simpa [queued, hq] using this)
    · exact prodIn_append (prodIn_append k.prod (prodIn_of_noshape _ ho)) (prodIn_of_noshape _ c3)
  simp only [doStop]
  split
  · exact tail { (cancelBatch cfg { st with stopping := true } wipe pout mouts).1 with looper := false } _ rfl rfl
      (by simp [shapeOf, isShape])
  · exact tail (cancelBatch cfg { st with stopping := true } wipe pout mouts).1 _ rfl rfl rfl

theorem step_k (cfg : Cfg) (st : St) (e : Ev) : KStep st (step cfg st e).1 (step cfg st e).2 (newOf st e) := by
  cases e with
  | send sid topic key msgs =>
    simp only [step, newOf]
    split
    · exact KStep.ofSame rfl rfl (by simp [shapeOf, isShape]) _
    · rename_i hs
      have hs' : sid = st.nextSid := by simpa using hs
      split
      · exact KStep.ofSame (by rfl) (by rfl) (by simp [shapeOf, isShape]) _
      · rename_i hm
        have hm' : msgs.isEmpty = false := by
          cases hme : msgs.isEmpty with
          | false => rfl
          | true => simp [hme] at hm
        simp only [doSend, hs', hm', and_self, if_true]
        have h := checkSendBatch_mv cfg (enqueue st st.nextSid topic key msgs)
        have hq : queued (enqueue st st.nextSid topic key msgs) = queued st ++ [st.nextSid] := by simp [queued, enqueue]
        have hi : inflight (enqueue st st.nextSid topic key msgs) = inflight st := rfl
        refine ⟨?_, ?_, ?_⟩
        · intro x hx
          rcases h.infl x hx with h1 | ⟨h1, h2⟩
          · exact Or.inl (by rw [← hi]; exact h1)
          · rw [hq] at h2; exact Or.inr ⟨h1, List.mem_append.mp h2⟩
        · intro x hx
          simp only [queued, List.mem_map] at hx
          obtain ⟨r, hr, hre⟩ := hx
          have : x ∈ queued (enqueue st st.nextSid topic key msgs) := by
            simp only [queued, List.mem_map]; exact ⟨r, h.q.sub r hr, hre⟩
          rw [hq] at this; exact List.mem_append.mp this
        · refine prodIn_mono h.prod ?_
          intro x hx
          simp only [known, hi, hq, List.mem_append] at hx ⊢
          rcases hx with h1 | h1 | h1
          · exact Or.inl (Or.inl h1)
          · exact Or.inl (Or.inr h1)
          · exact Or.inr h1
  | cancel sid =>
    simp only [step, newOf]; split
    · obtain ⟨a1, a2, a3⟩ := cancelSend_k st sid
      exact ⟨fun x hx => Or.inl (by simpa [inflight, a1] using hx), fun x hx => Or.inl (a2 x hx).1, prodIn_of_noshape _ a3⟩
    · exact KStep.ofSame rfl rfl (by simp [shapeOf, isShape]) _
  | tick =>
    simp only [step, newOf]; split
    · exact (sendBatch_mv cfg st).kstep
    · exact KStep.ofSame rfl rfl (by simp [shapeOf, isShape]) _
  | timer tid =>
    simp only [step, newOf]
    split
    · rename_i ls hp; exact (timerLookups_mv cfg st ls tid hp).kstep
    · rename_i t' b tps hp
      split
      · rename_i ht; subst ht; exact (doRetry_mv st t' b tps hp).kstep
      · exact (zombieTimer_mv st tid).kstep
    · exact (zombieTimer_mv st tid).kstep
  | advance dt => exact KStep.ofSame (by rfl) (by rfl) (by rfl) _
  | metaSet topic err parts => exact KStep.ofSame (by rfl) (by rfl) (by rfl) _
  | metaReset topics => exact KStep.ofSame (by rfl) (by rfl) (by rfl) _
  | metaWipe => exact KStep.ofSame (by rfl) (by rfl) (by rfl) _
  | metaDone rid res =>
    simp only [step, newOf]; split
    · rename_i ls hp; exact (metaDoneLookups_mv cfg st ls rid res hp).kstep
    · exact KStep.ofSame rfl rfl (by simp [shapeOf, isShape]) _
  | produceDone rid res =>
    simp only [step, newOf]; split
    · rename_i r b hp
      split
      · exact (finish_mv cfg st _ (handleSendResponse_mv cfg st r b res hp)).kstep
      · exact KStep.ofSame rfl rfl (by simp [shapeOf, isShape]) _
    · exact KStep.ofSame rfl rfl (by simp [shapeOf, isShape]) _
  | stop wipe pout mouts =>
    simp only [step, newOf]; split
    · exact KStep.ofSame rfl rfl (by simp [shapeOf, isShape]) _
    · exact doStop_k cfg st wipe pout mouts

end Afkak.Producer

namespace Afkak.Producer
open Afkak.Consts Afkak.Monitor.ProducerTrace

/-- reachable: known send ids are below `nextSid`, and nothing is both queued and in flight -/
structure KInv (st : St) : Prop where
  lt : ∀ x ∈ known st, x < st.nextSid
  disj : ∀ x ∈ queued st, x ∉ inflight st

theorem newOf_spec (cfg : Cfg) (st : St) (e : Ev) :
    st.nextSid ≤ (step cfg st e).1.nextSid ∧ ∀ x ∈ newOf st e, x = st.nextSid ∧ (step cfg st e).1.nextSid = st.nextSid + 1 := by
  have hns := step_nextSid cfg st e
  cases e with
  | send sid topic key msgs =>
    simp only [newOf] at *
    by_cases hs : sid = st.nextSid
    · rw [if_pos hs] at hns
      refine ⟨by rw [hns]; exact Nat.le_succ _, ?_⟩
      intro x hx
      split at hx
      · simp at hx; exact ⟨by rw [hx, hs], hns⟩
      · cases hx
    · rw [if_neg hs] at hns
      refine ⟨by rw [hns]; exact Nat.le_refl _, ?_⟩
      intro x hx
      rw [if_neg (fun h => hs h.1)] at hx; cases hx
  | _ => exact ⟨by rw [hns]; exact Nat.le_refl _, fun x hx => by cases hx⟩

theorem kinv_step (cfg : Cfg) (st : St) (e : Ev) (h : KInv st) : KInv (step cfg st e).1 := by
  have k := step_k cfg st e
  obtain ⟨hmono, hnew⟩ := newOf_spec cfg st e
  have hq : ∀ x ∈ queued (step cfg st e).1, x < (step cfg st e).1.nextSid := by
    intro x hx
    rcases k.qsub x hx with h1 | h1
    · exact Nat.lt_of_lt_of_le (h.lt x (List.mem_append_right _ h1)) hmono
    · obtain ⟨e1, e2⟩ := hnew x h1; rw [e1, e2]; exact Nat.lt_succ_self _
  constructor
  · intro x hx
    rcases List.mem_append.mp hx with hx | hx
    · rcases k.infl x hx with h1 | ⟨_, h1 | h1⟩
      · exact Nat.lt_of_lt_of_le (h.lt x (List.mem_append_left _ h1)) hmono
      · exact Nat.lt_of_lt_of_le (h.lt x (List.mem_append_right _ h1)) hmono
      · obtain ⟨e1, e2⟩ := hnew x h1; rw [e1, e2]; exact Nat.lt_succ_self _
    · exact hq x hx
  · intro x hx hc
    rcases k.infl x hc with h1 | ⟨h1, _⟩
    · rcases k.qsub x hx with h2 | h2
      · exact h.disj x h2 h1
      · obtain ⟨e1, _⟩ := hnew x h2
        have := h.lt x (List.mem_append_left _ h1)
        rw [e1] at this; exact Nat.lt_irrefl _ this
    · simp [queued, h1] at hx

theorem kinv_init (cfg : Cfg) : KInv (St.init cfg) := by
  constructor <;> simp [known, inflight, queued, St.init]

theorem kinv_run (cfg : Cfg) (evs : List Ev) (st : St) (h : KInv st) : KInv (run cfg st evs).1 := by
  induction evs generalizing st with
  | nil => exact h
  | cons e rest ih => simp only [run]; exact ih _ (kinv_step cfg st e h)

/-- a send id that is neither queued nor in flight any more -/
def Gone (sid : Sid) (st : St) : Prop := sid < st.nextSid ∧ sid ∉ known st

theorem gone_step (cfg : Cfg) (st : St) (e : Ev) (sid : Sid) (h : Gone sid st) :
    Gone sid (step cfg st e).1 ∧ ∀ rid ps, Ob.produce rid ps ∈ (step cfg st e).2 → sid ∉ payloadSids ps := by
  have k := step_k cfg st e
  obtain ⟨hmono, hnew⟩ := newOf_spec cfg st e
  have hnn : sid ∉ newOf st e := by
    intro hc; obtain ⟨e1, _⟩ := hnew sid hc
    have := h.1; rw [e1] at this; exact Nat.lt_irrefl _ this
  refine ⟨⟨Nat.lt_of_lt_of_le h.1 hmono, ?_⟩, ?_⟩
  · intro hc
    rcases List.mem_append.mp hc with hc | hc
    · rcases k.infl sid hc with h1 | ⟨_, h1 | h1⟩
      · exact h.2 (List.mem_append_left _ h1)
      · exact h.2 (List.mem_append_right _ h1)
      · exact hnn h1
    · rcases k.qsub sid hc with h1 | h1
      · exact h.2 (List.mem_append_right _ h1)
      · exact hnn h1
  · intro rid ps hm hc
    rcases List.mem_append.mp (k.prod rid ps hm sid hc) with h1 | h1
    · exact h.2 h1
    · exact hnn h1

theorem gone_run (cfg : Cfg) (evs : List Ev) (st : St) (sid : Sid) (h : Gone sid st) :
    ∀ rid ps, Ob.produce rid ps ∈ (run cfg st evs).2 → sid ∉ payloadSids ps := by
  induction evs generalizing st with
  | nil => intro rid ps hm; cases hm
  | cons e rest ih =>
    obtain ⟨g1, g2⟩ := gone_step cfg st e sid h
    intro rid ps hm
    simp only [run] at hm
    rcases List.mem_append.mp hm with hm | hm
    · exact g2 rid ps hm
    · exact ih _ g1 rid ps hm

/-- cancelling a queued, unfired send: it is gone -/
theorem cancel_gone (cfg : Cfg) (st : St) (sid : Sid) (h : KInv st) (hq : sid ∈ queued st) (ho : sid ∈ st.outstanding) :
    Gone sid (step cfg st (.cancel sid)).1 ∧ (∀ rid ps, Ob.produce rid ps ∉ (step cfg st (.cancel sid)).2) := by
  have hlt : sid < st.nextSid := h.lt sid (List.mem_append_right _ hq)
  obtain ⟨a1, a2, a3⟩ := cancelSend_k st sid
  have hstep : step cfg st (.cancel sid) = cancelSend st sid := by simp [step, hlt]
  rw [hstep]
  refine ⟨⟨by rw [(cancelSend_stat st sid).1]; exact hlt, ?_⟩, ?_⟩
  · intro hc
    rcases List.mem_append.mp hc with hc | hc
    · have : sid ∈ inflight st := by simpa [inflight, a1] using hc
      exact h.disj sid hq this
    · exact (a2 sid hc).2 ho rfl
  · intro rid ps hm
    have : Ob.produce rid ps ∈ shapeOf (cancelSend st sid).2 := List.mem_filter.mpr ⟨hm, rfl⟩
    rw [a3] at this; cases this

end Afkak.Producer
