import AfkakProofs.Producer.RelStep
import AfkakProofs.Producer.Sids
import AfkakProofs.Producer.Stop
import AfkakProofs.Producer.Once
/-! Which sends the batch in flight still owes an answer: every outstanding send is queued, or pending in
the batch in flight - provided the client accounts for every payload of every request. -/
namespace Afkak.Producer
open Afkak.Consts Afkak.Monitor.ProducerTrace

/-- the sends of the batch in flight that wait for an answer.  `strict`: by the payloads of the attempt in
    flight / to be retried; otherwise (requests without acknowledgements) by the whole batch. -/
def pend (strict : Bool) (st : St) : List Sid :=
  match st.phase with
  | .idle => []
  | .lookups ls => ls.map (·.req.sid)
  | .sending _ b => if strict then b.current.flatMap b.sidsOf else b.allSids
  | .retryWait _ b tps => if strict then tps.flatMap b.sidsOf else b.allSids

/-- every outstanding send is queued, or exempt (`E`: the sends of batches for which the client did not account), or
    (the batch not resolved, not stopping) pending -/
def PV (strict : Bool) (E : List Sid) (st : St) (resolved : Bool) : Prop :=
  ∀ x ∈ st.outstanding, (x ∈ queued st ∨ x ∈ E) ∨ (st.stopping = false ∧ resolved = false ∧ x ∈ pend strict st)

/-! ### `_send_requests`: every look-up's send fails or joins a payload -/

theorem addToGroups_mono (gs : List Payload) (tp : TP) (sid : Sid) (ms : List Msg) :
    (∀ x ∈ payloadSids gs, x ∈ payloadSids (addToGroups gs tp sid ms)) ∧ sid ∈ payloadSids (addToGroups gs tp sid ms) := by
  simp only [addToGroups]
  split
  · rename_i hany
    constructor
    · intro x hx
      simp only [payloadSids, List.mem_flatMap, List.mem_map] at hx ⊢
      obtain ⟨g, hg, hxg⟩ := hx
      by_cases h : g.tp = tp
      · exact ⟨{ g with sids := g.sids ++ [sid], msgs := g.msgs ++ ms }, ⟨g, hg, by simp [h]⟩, by simp [hxg]⟩
      · exact ⟨g, ⟨g, hg, by simp [h]⟩, hxg⟩
    · simp only [List.any_eq_true, decide_eq_true_eq] at hany
      obtain ⟨g, hg, hgt⟩ := hany
      simp only [payloadSids, List.mem_flatMap, List.mem_map]
      exact ⟨{ g with sids := g.sids ++ [sid], msgs := g.msgs ++ ms }, ⟨g, hg, by simp [hgt]⟩, by simp⟩
  · constructor
    · intro x hx
      simp only [payloadSids, List.flatMap_append, List.mem_append]; exact Or.inl hx
    · simp [payloadSids]

theorem procResults_mono (ls : List Lookup) (out : List Sid) (gs : List Payload) :
    ∀ x ∈ payloadSids gs, x ∈ payloadSids (procResults ls out gs).2.1 := by
  induction ls generalizing out gs with
  | nil => intro x hx; exact hx
  | cons l rest ih =>
    intro x hx
    simp only [procResults]
    split
    · split
      · exact ih _ _ x ((addToGroups_mono gs _ _ _).1 x hx)
      · exact ih _ _ x hx
      · exact ih _ _ x hx
    · exact ih _ _ x hx

theorem procResults_grouped (ls : List Lookup) (out : List Sid) (gs : List Payload) (hn : out.Nodup)
    (hd : ls.all (·.pc.isDone) = true) :
    ∀ x ∈ (procResults ls out gs).1, x ∈ ls.map (·.req.sid) → x ∈ payloadSids (procResults ls out gs).2.1 := by
  induction ls generalizing out gs with
  | nil => intro x _ h; cases h
  | cons l rest ih =>
    simp only [List.all_cons, Bool.and_eq_true] at hd
    intro x hx hm
    simp only [procResults] at hx ⊢
    simp only [List.map_cons, List.mem_cons] at hm
    split at hx
    · rename_i hs
      split at hx
      · rename_i p hpc
        rw [if_pos hs]
        rcases hm with h | h
        · subst h; exact procResults_mono rest out _ _ (addToGroups_mono gs _ _ _).2
        · exact ih _ _ hn hd.2 x hx (by simpa using h)
      · rename_i k hpc
        rw [if_pos hs]
        have hsub := (procResults_fd rest (out.erase l.req.sid) gs).sub x hx
        rcases hm with h | h
        · subst h; exact absurd hsub hn.not_mem_erase
        · exact ih _ _ (hn.erase _) hd.2 x hx (by simpa using h)
      · rename_i hpc1 hpc2
        exfalso
        have := hd.1
        cases hpc : l.pc with
        | done r => cases r with
          | part p => exact hpc1 p hpc
          | fail k => exact hpc2 k hpc
        | waitMeta rid => rw [hpc] at this; simp [LPc.isDone] at this
        | waitBackoff tid => rw [hpc] at this; simp [LPc.isDone] at this
    · rename_i hs
      have hsub := (procResults_fd rest out gs).sub x hx
      rcases hm with h | h
      · subst h; exact absurd hsub hs
      · have := ih out gs hn hd.2 x hx (by simpa using h)
        rw [if_neg hs]
        exact this

/-! ### `PV` only reads four fields -/

theorem PV.shrink {strict : Bool} {E : List Sid} {a b : St} {r : Bool} (h : PV strict E a r)
    (ho : ∀ x ∈ b.outstanding, x ∈ a.outstanding) (hq : b.queue = a.queue) (hp : b.phase = a.phase)
    (hs : b.stopping = a.stopping) : PV strict E b r := by
  intro x hx
  rcases h x (ho x hx) with h1 | ⟨h1, h2, h3⟩
  · exact Or.inl (by simpa [queued, hq] using h1)
  · exact Or.inr ⟨by rw [hs]; exact h1, h2, by simpa [pend, hp] using h3⟩

theorem PV.resolve {strict : Bool} {E : List Sid} {a : St} (h : PV strict E a true) (cfg : Cfg) : PV strict E (resetBatch cfg a) false := by
  intro x hx
  rcases h x hx with h1 | ⟨_, h2, _⟩
  · exact Or.inl h1
  · cases h2

theorem mem_sidsOf (b : Batch) (tp : TP) (x : Sid) : x ∈ b.sidsOf tp ↔ ∃ g ∈ b.groups, g.tp = tp ∧ x ∈ g.sids := by
  simp only [Batch.sidsOf, List.mem_flatMap, List.mem_filter, decide_eq_true_eq]
  constructor
  · rintro ⟨g, ⟨h1, h2⟩, h3⟩; exact ⟨g, h1, h2, h3⟩
  · rintro ⟨g, h1, h2, h3⟩; exact ⟨g, ⟨h1, h2⟩, h3⟩

theorem sendRequests_pv (strict : Bool) (E : List Sid) (st : St) (ls : List Lookup) (hp : st.phase = .lookups ls)
    (hd : ls.all (·.pc.isDone) = true) (hn : st.outstanding.Nodup) (hv : PV strict E st false) :
    PV strict E (sendRequests st ls).1 (sendRequests st ls).2.2 := by
  have hsub := (procResults_fd ls st.outstanding []).sub
  have hg := procResults_grouped ls st.outstanding [] hn hd
  simp only [sendRequests]
  split
  · rename_i hs
    intro x hx
    rcases hv x hx with h | ⟨h, _⟩
    · exact Or.inl h
    · rw [hs] at h; cases h
  · rename_i hs
    have hs' : st.stopping = false := by simpa using hs
    split
    · rename_i he
      intro x hx
      rcases hv x (hsub x hx) with h | ⟨_, _, h⟩
      · exact Or.inl h
      · simp only [pend, hp] at h
        have := hg x hx h
        have he' : (procResults ls st.outstanding []).2.1 = [] := by simpa using he
        rw [he'] at this; simp [payloadSids] at this
    · intro x hx
      rcases hv x (hsub x hx) with h | ⟨_, _, h⟩
      · exact Or.inl h
      · simp only [pend, hp] at h
        have hx' := hg x hx h
        refine Or.inr ⟨hs', rfl, ?_⟩
        simp only [pend]
        cases strict with
        | false => simpa [Batch.allSids, payloadSids] using hx'
        | true =>
          simp only [if_true, List.mem_flatMap, payloadSids] at hx' ⊢
          obtain ⟨g, hg1, hg2⟩ := hx'
          exact ⟨g.tp, List.mem_map_of_mem hg1, (mem_sidsOf _ _ _).mpr ⟨g, hg1, rfl, hg2⟩⟩

theorem dispatch_pv (strict : Bool) (E : List Sid) (cfg : Cfg) (st : St) (hi : st.phase = .idle) (hs : st.stopping = false)
    (hn : st.outstanding.Nodup) (hv : PV strict E st false) : PV strict E (dispatch cfg st).1 false := by
  have hf := startLookups_frame cfg { st with queue := [], msgCount := 0, byteCount := 0 } st.queue
  obtain ⟨_, _, s3⟩ := startLookups_spec cfg { st with queue := [], msgCount := 0, byteCount := 0 } st.queue
  have hls : (startLookups cfg { st with queue := [], msgCount := 0, byteCount := 0 } st.queue).2.1.map (·.req.sid) = queued st := by
    have := congrArg (List.map (·.sid)) s3
    simpa [queued, List.map_map, Function.comp_def] using this
  have hv2 : PV strict E { (startLookups cfg { st with queue := [], msgCount := 0, byteCount := 0 } st.queue).1 with
      phase := .lookups (startLookups cfg { st with queue := [], msgCount := 0, byteCount := 0 } st.queue).2.1 } false := by
    intro x hx
    rw [hf] at hx
    rcases hv x hx with (h | h) | ⟨_, _, h⟩
    · refine Or.inr ⟨by rw [hf]; exact hs, rfl, ?_⟩
      simp only [pend]; rw [hls]; exact h
    · exact Or.inl (Or.inr h)
    · simp [pend, hi] at h
  simp only [dispatch]
  split
  · rename_i hd
    have h3 := sendRequests_pv strict E _ _ rfl hd (by rw [hf]; exact hn) hv2
    split
    · rename_i hr; rw [hr] at h3; exact h3.resolve cfg
    · rename_i hr
      have hr' : (sendRequests { (startLookups cfg { st with queue := [], msgCount := 0, byteCount := 0 } st.queue).1 with
        phase := .lookups (startLookups cfg { st with queue := [], msgCount := 0, byteCount := 0 } st.queue).2.1 }
        (startLookups cfg { st with queue := [], msgCount := 0, byteCount := 0 } st.queue).2.1).2.2 = false := by simpa using hr
      rw [hr'] at h3; exact h3
  · exact hv2

theorem sendBatch_pv (strict : Bool) (E : List Sid) (cfg : Cfg) (st : St) (hn : st.outstanding.Nodup) (hv : PV strict E st false) :
    PV strict E (sendBatch cfg st).1 false := by
  simp only [sendBatch]; split
  · rename_i h
    simp only [canDispatch, Bool.and_eq_true, Bool.not_eq_eq_eq_not, Bool.not_true, beq_iff_eq] at h
    exact dispatch_pv strict E cfg st h.1.2 h.2 hn hv
  · exact hv

theorem checkSendBatch_pv (strict : Bool) (E : List Sid) (cfg : Cfg) (st : St) (hn : st.outstanding.Nodup) (hv : PV strict E st false) :
    PV strict E (checkSendBatch cfg st).1 false := by
  simp only [checkSendBatch]; split
  · exact sendBatch_pv strict E cfg st hn hv
  · exact hv

theorem completeBatch_pv (strict : Bool) (E : List Sid) (cfg : Cfg) (st : St) (hn : st.outstanding.Nodup) (hv : PV strict E st true) :
    PV strict E (completeBatch cfg st).1 false := by
  simp only [completeBatch]
  exact checkSendBatch_pv strict E cfg _ hn (hv.resolve cfg)

theorem finish_pv (strict : Bool) (E : List Sid) (cfg : Cfg) (r : St × List Ob × Bool) (hn : r.1.outstanding.Nodup)
    (hv : PV strict E r.1 r.2.2) : PV strict E (finish cfg r).1 false := by
  simp only [finish]; split
  · rename_i h; rw [h] at hv; exact completeBatch_pv strict E cfg r.1 hn hv
  · rename_i h
    have h' : r.2.2 = false := by simpa using h
    rw [h'] at hv; exact hv

theorem afterLookups_pv (strict : Bool) (E : List Sid) (cfg : Cfg) (st : St) (ls : List Lookup) (obs : List Ob)
    (hn : st.outstanding.Nodup) (hv : PV strict E { st with phase := .lookups ls } false) :
    PV strict E (afterLookups cfg st ls obs).1 false := by
  simp only [afterLookups]
  split
  · rename_i hd
    have h3 := sendRequests_pv strict E { st with phase := .lookups ls } ls rfl hd hn hv
    have hn3 : (sendRequests { st with phase := .lookups ls } ls).1.outstanding.Nodup :=
      (sendRequests_fd { st with phase := .lookups ls } ls).nodup hn
    split
    · rename_i hr; rw [hr] at h3; exact completeBatch_pv strict E cfg _ hn3 h3
    · rename_i hr
      have hr' : (sendRequests { st with phase := .lookups ls } ls).2.2 = false := by simpa using hr
      rw [hr'] at h3; exact h3
  · exact hv


/-! ### `_handle_send_response` -/

theorem sidsOf_sub_allSids (b : Batch) (tp : TP) : ∀ x ∈ b.sidsOf tp, x ∈ b.allSids := by
  intro x hx
  obtain ⟨g, h1, _, h3⟩ := (mem_sidsOf b tp x).mp hx
  simp only [Batch.allSids, List.mem_flatMap]; exact ⟨g, h1, h3⟩

theorem pend_sub_allSids (strict : Bool) (st : St) (rid : Rid) (b : Batch) (hp : st.phase = .sending rid b) :
    ∀ x ∈ pend strict st, x ∈ b.allSids := by
  intro x hx
  simp only [pend, hp] at hx
  cases strict with
  | false => simpa using hx
  | true =>
    simp only [if_true, List.mem_flatMap] at hx
    obtain ⟨tp, _, h⟩ := hx
    exact sidsOf_sub_allSids b tp x h

theorem deliverAll_pv (strict : Bool) (E : List Sid) (st : St) (rid : Rid) (b : Batch) (o : Outcome) (hp : st.phase = .sending rid b)
    (hn : st.outstanding.Nodup) (hv : PV strict E st false) :
    PV strict E (deliverAll st b o).1 (deliverAll st b o).2.2 := by
  intro x hx
  have h1 : x ∈ st.outstanding := (deliver_fd st.outstanding b.allSids o).sub x hx
  have h2 : x ∉ b.allSids := deliver_removes st.outstanding b.allSids o hn x hx
  rcases hv x h1 with h | ⟨_, _, h⟩
  · exact Or.inl h
  · exact absurd (pend_sub_allSids strict st rid b hp x h) h2

/-- `_check_retry_payloads`, given that what is pending (`P`) is covered by the failed payloads (or, without
    acknowledgements, simply belongs to the batch) -/
theorem checkRetry_pv (strict : Bool) (E : List Sid) (cfg : Cfg) (st : St) (b : Batch) (f : List FailedP) (P : List Sid)
    (hn : st.outstanding.Nodup)
    (hv : ∀ x ∈ st.outstanding, (x ∈ queued st ∨ x ∈ E) ∨ (st.stopping = false ∧ x ∈ P))
    (hP : ∀ x ∈ P, if strict then (∃ fp ∈ f, x ∈ b.sidsOf fp.tp) else (cfg.acks = producerAckNotRequired ∧ x ∈ b.allSids)) :
    PV strict E (checkRetry cfg st b f).1 (checkRetry cfg st b f).2.2 := by
  simp only [checkRetry]
  split
  · rename_i hs
    intro x hx
    rcases hv x hx with h | ⟨h, _⟩
    · exact Or.inl h
    · rw [hs] at h; cases h
  · split
    · -- exhausted
      intro x hx
      have hfd1 := deliverMany_fd st.outstanding (f.map (fun f => (b.sidsOf f.tp, Outcome.err f.kind)))
      have hx2 : x ∈ (deliverMany st.outstanding (f.map (fun f => (b.sidsOf f.tp, Outcome.err f.kind)))).1 ∧
          (cfg.acks = producerAckNotRequired → x ∉ b.allSids) := by
        dsimp only at hx
        split at hx
        · rename_i ha
          exact ⟨(deliver_fd _ b.allSids .okNone).sub x hx, fun _ => deliver_removes _ b.allSids .okNone (hfd1.nodup hn) x hx⟩
        · rename_i ha
          exact ⟨hx, fun h => absurd h ha⟩
      rcases hv x (hfd1.sub x hx2.1) with h | ⟨_, h⟩
      · exact Or.inl h
      · exfalso
        have := hP x h
        cases strict with
        | true =>
          simp only [if_true] at this
          obtain ⟨fp, hfp, hxs⟩ := this
          exact deliverMany_removes _ _ hn x hx2.1 (b.sidsOf fp.tp) (.err fp.kind)
            (List.mem_map.mpr ⟨fp, hfp, rfl⟩) hxs
        | false =>
          simp only [Bool.false_eq_true, if_false] at this
          exact hx2.2 this.1 this.2
    · -- a retry is scheduled
      rename_i hs _
      intro x hx
      rcases hv x hx with h | ⟨h0, h⟩
      · exact Or.inl h
      · refine Or.inr ⟨h0, rfl, ?_⟩
        have := hP x h
        simp only [pend]
        cases strict with
        | true =>
          simp only [if_true] at this ⊢
          obtain ⟨fp, hfp, hxs⟩ := this
          exact List.mem_flatMap.mpr ⟨fp.tp, List.mem_map_of_mem hfp, hxs⟩
        | false =>
          simp only [Bool.false_eq_true, if_false] at this ⊢
          exact this.2


theorem handleResults_pv (strict : Bool) (E : List Sid) (cfg : Cfg) (st : St) (rid : Rid) (b : Batch) (rs : List Resp) (fs : List FailedP)
    (hp : st.phase = .sending rid b) (hn : st.outstanding.Nodup) (hv : PV strict E st false)
    (hcov : if strict then (∀ g ∈ b.groups, g.tp ∈ b.current → (∃ resp ∈ rs, resp.tp = g.tp) ∨ (∃ f ∈ fs, f.tp = g.tp))
            else (cfg.acks = producerAckNotRequired ∧ rs = [] ∧ fs ≠ [])) :
    PV strict E (handleResults cfg st b rs fs).1 (handleResults cfg st b rs fs).2.2 := by
  have hfd := deliverMany_fd st.outstanding ((rs.filter (·.error = 0)).map (fun r => (b.sidsOf r.tp, Outcome.ok r)))
  have hrem := deliverMany_removes st.outstanding ((rs.filter (·.error = 0)).map (fun r => (b.sidsOf r.tp, Outcome.ok r))) hn
  -- a pending send that is still outstanding after the acknowledged payloads fired belongs to a failed payload
  have key : ∀ x ∈ (deliverMany st.outstanding ((rs.filter (·.error = 0)).map (fun r => (b.sidsOf r.tp, Outcome.ok r)))).1,
      x ∈ pend strict st →
      if strict then (∃ fp ∈ fs ++ (rs.filter (·.error ≠ 0)).map (fun r => (⟨r.tp, .broker r.error, false⟩ : FailedP)), x ∈ b.sidsOf fp.tp)
      else (cfg.acks = producerAckNotRequired ∧ x ∈ b.allSids) := by
    intro x hx hpx
    cases strict with
    | false =>
      simp only [Bool.false_eq_true, if_false] at hcov ⊢
      exact ⟨hcov.1, pend_sub_allSids false st rid b hp x hpx⟩
    | true =>
      simp only [if_true] at hcov ⊢
      simp only [pend, hp, if_true, List.mem_flatMap] at hpx
      obtain ⟨tp, htp, hxs⟩ := hpx
      obtain ⟨g, hg, hgt, _⟩ := (mem_sidsOf b tp x).mp hxs
      rcases hcov g hg (by rw [hgt]; exact htp) with ⟨resp, hr, hrt⟩ | ⟨f, hf, hft⟩
      all_goals rw [hgt] at *
      · by_cases he : resp.error = 0
        · exfalso
          refine hrem x hx (b.sidsOf resp.tp) (.ok resp) (List.mem_map.mpr ⟨resp, List.mem_filter.mpr ⟨hr, by simpa using he⟩, rfl⟩) ?_
          rw [hrt]; exact hxs
        · refine ⟨⟨resp.tp, .broker resp.error, false⟩, List.mem_append_right _ (List.mem_map.mpr ⟨resp, List.mem_filter.mpr ⟨hr, by simpa using he⟩, rfl⟩), ?_⟩
          simp only; rw [hrt]; exact hxs
      · exact ⟨f, List.mem_append_left _ hf, by rw [hft]; exact hxs⟩
  simp only [handleResults]
  split
  · rename_i hfe
    intro x hx
    rcases hv x (hfd.sub x hx) with h | ⟨_, _, h⟩
    · exact Or.inl h
    · exfalso
      have hk := key x hx h
      have hfe' : fs ++ (rs.filter (·.error ≠ 0)).map (fun r => (⟨r.tp, .broker r.error, false⟩ : FailedP)) = [] := by
        simpa using hfe
      cases strict with
      | true =>
        simp only [if_true] at hk
        obtain ⟨fp, hfp, _⟩ := hk
        rw [hfe'] at hfp; cases hfp
      | false =>
        simp only [Bool.false_eq_true, if_false] at hcov
        rw [hcov.2.1] at hfe'
        simp at hfe'
        exact hcov.2.2 hfe'
  · dsimp only
    refine checkRetry_pv strict E cfg _ _ _
      ((deliverMany st.outstanding ((rs.filter (·.error = 0)).map (fun r => (b.sidsOf r.tp, Outcome.ok r)))).1.filter (· ∈ pend strict st))
      (hfd.nodup hn) ?_ ?_
    · intro x hx
      rcases hv x (hfd.sub x hx) with h | ⟨h0, _, h⟩
      · exact Or.inl h
      · exact Or.inr ⟨h0, List.mem_filter.mpr ⟨hx, by simpa using h⟩⟩
    · intro x hx
      obtain ⟨h1, h2⟩ := List.mem_filter.mp hx
      exact key x h1 (by simpa using h2)


/-- the batch in flight has something in flight, all of it unacknowledged -/
structure BOK (b : Batch) : Prop where
  sub : ∀ tp ∈ b.current, tp ∈ b.live
  ne : b.current ≠ []

theorem handleSendResponse_pv (strict : Bool) (E : List Sid) (cfg : Cfg) (st : St) (rid : Rid) (b : Batch) (r : ProdRes)
    (hp : st.phase = .sending rid b) (hn : st.outstanding.Nodup) (hv : PV strict E st false) (hb : BOK b)
    (hacc : if strict then accounts (b.payloadsFor b.current) r = true
            else (cfg.acks = producerAckNotRequired ∧ isAcks0Shape r = true)) :
    PV strict E (handleSendResponse cfg st b r).1 (handleSendResponse cfg st b r).2.2 := by
  have cov : ∀ (rs : List Resp) (fs : List FailedP),
      (b.payloadsFor b.current).all (fun p => rs.any (·.tp = p.tp) || fs.any (·.tp = p.tp)) = true →
      ∀ g ∈ b.groups, g.tp ∈ b.current → (∃ resp ∈ rs, resp.tp = g.tp) ∨ (∃ f ∈ fs, f.tp = g.tp) := by
    intro rs fs h g hg hgc
    rw [List.all_eq_true] at h
    have := h g ((mem_payloadsFor b b.current g).mpr ⟨hg, hgc⟩)
    simp only [Bool.or_eq_true, List.any_eq_true, decide_eq_true_eq] at this
    exact this
  cases r with
  | none => simp only [handleSendResponse]; exact deliverAll_pv strict E st rid b _ hp hn hv
  | responses rs =>
    cases rs with
    | nil => simp only [handleSendResponse]; exact deliverAll_pv strict E st rid b _ hp hn hv
    | cons a rest =>
      simp only [handleSendResponse]
      apply handleResults_pv strict E cfg st rid b _ _ hp hn hv
      cases strict with
      | true =>
        simp only [if_true] at hacc ⊢
        simp only [accounts] at hacc
        exact cov (a :: rest) [] (by simpa using hacc)
      | false =>
        simp only [Bool.false_eq_true, if_false, isAcks0Shape] at hacc
        exact absurd hacc.2 (by simp)
  | failed rs fs =>
    simp only [handleSendResponse]
    apply handleResults_pv strict E cfg st rid b _ _ hp hn hv
    cases strict with
    | true =>
      simp only [if_true] at hacc ⊢
      simp only [accounts] at hacc
      exact cov rs fs hacc
    | false =>
      simp only [Bool.false_eq_true, if_false] at hacc ⊢
      refine ⟨hacc.1, ?_⟩
      cases rs with
      | nil =>
        cases fs with
        | nil => simp [isAcks0Shape] at hacc
        | cons f fs' => exact ⟨rfl, by simp⟩
      | cons x l => simp [isAcks0Shape] at hacc
  | err k =>
    simp only [handleSendResponse]
    split
    · apply handleResults_pv strict E cfg st rid b _ _ hp hn hv
      cases strict with
      | true =>
        simp only [if_true]
        intro g _ hgc
        exact Or.inr ⟨⟨g.tp, k, true⟩, List.mem_map.mpr ⟨g.tp, hb.sub _ hgc, rfl⟩, rfl⟩
      | false =>
        simp only [Bool.false_eq_true, if_false] at hacc ⊢
        refine ⟨hacc.1, ?_⟩; simp only [true_and]
        intro hc
        have hl : b.live = [] := by simpa using hc
        cases hcur : b.current with
        | nil => exact hb.ne hcur
        | cons tp rest =>
          have := hb.sub tp (by rw [hcur]; exact List.mem_cons_self)
          rw [hl] at this; cases this
    · exact deliverAll_pv strict E st rid b _ hp hn hv


/-! ### a whole step -/

/-- the result the client gives in this step (if the step takes one) accounts for its request -/
def AccOK (strict : Bool) (cfg : Cfg) (st : St) (e : Ev) : Prop :=
  ∀ rid b r, st.phase = .sending rid b → completionOf e = some r → validResult b r = true →
    (∀ k r', e = .produceDone k r' → k = rid) →
    if strict then accounts (b.payloadsFor b.current) r = true
    else (cfg.acks = producerAckNotRequired ∧ isAcks0Shape r = true)

theorem PV.same {strict : Bool} {E : List Sid} {a b : St} {r : Bool} (h : PV strict E a r)
    (ho : b.outstanding = a.outstanding) (hq : b.queue = a.queue) (hp : b.phase = a.phase)
    (hs : b.stopping = a.stopping) : PV strict E b r :=
  h.shrink (fun x hx => by rw [ho] at hx; exact hx) hq hp hs

theorem zombieTimer_pv (strict : Bool) (E : List Sid) (st : St) (tid : Tid) (hv : PV strict E st false) :
    PV strict E (zombieTimer st tid).1 false := by
  simp only [zombieTimer]; split
  · exact hv.same rfl rfl rfl rfl
  · exact hv

theorem cancelSend_pv (strict : Bool) (E : List Sid) (st : St) (sid : Sid) (hn : st.outstanding.Nodup) (hv : PV strict E st false) :
    PV strict E (cancelSend st sid).1 false := by
  simp only [cancelSend]
  split
  · split
    · intro x hx
      have hx1 : x ∈ st.outstanding := List.mem_of_mem_erase hx
      have hne : x ≠ sid := by intro hc; subst hc; exact hn.not_mem_erase hx
      rcases hv x hx1 with (h | h) | h
      · left; left
        simp only [queued, List.mem_map, List.mem_filter] at h ⊢
        obtain ⟨r, hr, hre⟩ := h
        exact ⟨r, ⟨hr, by simpa [hre] using hne⟩, hre⟩
      · exact Or.inl (Or.inr h)
      · exact Or.inr h
    · exact hv.shrink (fun x hx => List.mem_of_mem_erase hx) rfl rfl rfl
  · exact hv

theorem step_pv (strict : Bool) (E : List Sid) (cfg : Cfg) (st : St) (e : Ev) (hn : st.outstanding.Nodup)
    (hlt : ∀ x ∈ st.outstanding, x < st.nextSid) (hb : ∀ rid b, st.phase = .sending rid b → BOK b)
    (hacc : AccOK strict cfg st e) (hv : PV strict E st false) : PV strict E (step cfg st e).1 false := by
  cases e with
  | send sid topic key msgs =>
    simp only [step]
    split
    · exact hv
    · rename_i hs
      have hs' : sid = st.nextSid := by simpa using hs
      split
      · exact hv.same rfl rfl rfl rfl
      · simp only [doSend]
        apply checkSendBatch_pv strict E cfg
        · simp only [enqueue]
          rw [List.nodup_append]
          refine ⟨hn, by simp, ?_⟩
          intro a ha b hb' hab
          simp at hb'; subst hb'; subst hab
          have := hlt a ha; rw [hs'] at this; exact Nat.lt_irrefl _ this
        · intro x hx
          simp only [enqueue, List.mem_append, List.mem_singleton] at hx
          rcases hx with hx | hx
          · rcases hv x hx with (h | h) | h
            · left; left; simp only [queued, enqueue, List.map_append, List.mem_append]; exact Or.inl h
            · exact Or.inl (Or.inr h)
            · exact Or.inr h
          · left; left; simp [queued, enqueue, hx]
  | cancel sid =>
    simp only [step]; split
    · exact cancelSend_pv strict E st sid hn hv
    · exact hv
  | tick =>
    simp only [step]; split
    · exact sendBatch_pv strict E cfg st hn hv
    · exact hv
  | timer tid =>
    simp only [step]
    split
    · rename_i ls hp
      simp only [timerLookups]
      split
      · rename_i l _
        apply afterLookups_pv strict E cfg
        · rw [lookupHead_out]; exact hn
        · intro x hx
          have hx' : x ∈ st.outstanding := by
            have : ({ (lookupHead cfg st l.req).1 with phase := .lookups (setPc ls (.waitBackoff tid) (lookupHead cfg st l.req).2.1) } : St).outstanding
              = st.outstanding := lookupHead_out cfg st l.req
            rw [this] at hx; exact hx
          rcases hv x hx' with h | ⟨h1, h2, h3⟩
          · left; simpa [queued, (lookupHead_sameQ cfg st l.req).1] using h
          · refine Or.inr ⟨by simpa [(lookupHead_stat cfg st l.req).2.1] using h1, h2, ?_⟩
            simp only [pend, hp] at h3
            simp only [pend, setPc_sids]; exact h3
      · exact zombieTimer_pv strict E st tid hv
    · rename_i t' b tps hp
      split
      · simp only [doRetry]
        intro x hx
        rcases hv x hx with h | ⟨h1, h2, h3⟩
        · exact Or.inl h
        · refine Or.inr ⟨h1, h2, ?_⟩
          simp only [pend, hp] at h3
          simp only [pend]
          cases strict <;> exact h3
      · exact zombieTimer_pv strict E st tid hv
    · exact zombieTimer_pv strict E st tid hv
  | advance dt => exact hv
  | metaSet topic err parts => exact hv.same rfl rfl rfl rfl
  | metaReset topics => exact hv.same rfl rfl rfl rfl
  | metaWipe => exact hv.same rfl rfl rfl rfl
  | metaDone rid res =>
    simp only [step]
    split
    · rename_i ls hp
      simp only [metaDoneLookups]
      split
      · rename_i l _
        apply afterLookups_pv strict E cfg
        · rw [metaContinue_out]; exact hn
        · intro x hx
          have hx' : x ∈ st.outstanding := by
            have : ({ (metaContinue cfg st l.req res).1 with phase := .lookups (setPc ls (.waitMeta rid) (metaContinue cfg st l.req res).2.1) } : St).outstanding
              = st.outstanding := metaContinue_out cfg st l.req res
            rw [this] at hx; exact hx
          rcases hv x hx' with h | ⟨h1, h2, h3⟩
          · left; simpa [queued, (metaContinue_sameQ cfg st l.req res).1] using h
          · refine Or.inr ⟨by simpa [(metaContinue_stat cfg st l.req res).2.1] using h1, h2, ?_⟩
            simp only [pend, hp] at h3
            simp only [pend, setPc_sids]; exact h3
      · exact hv
    · exact hv
  | produceDone rid res =>
    simp only [step]
    split
    · rename_i r b hp
      split
      · rename_i hc
        simp only [Bool.and_eq_true, decide_eq_true_eq] at hc
        apply finish_pv strict E cfg
        · exact (handleSendResponse_fd cfg st b res).nodup hn
        · exact handleSendResponse_pv strict E cfg st r b res hp hn hv (hb r b hp)
            (hacc r b res hp rfl hc.2 (fun k r' he => by injection he with h1 _; rw [← h1]; exact hc.1.symm))
      · exact hv
    · exact hv
  | stop wipe pout mouts =>
    by_cases hsv : stopValid st pout = true
    · have := (stop_fires_all cfg st wipe pout mouts hsv hn).1
      intro x hx; rw [this] at hx; cases hx
    · simp only [step]
      rw [if_pos (by simpa using hsv)]
      exact hv


/-! ### a step that takes a result that does NOT account for its request: the batch's sends become exempt -/

theorem PV.mono {strict : Bool} {E E' : List Sid} {a : St} {r : Bool} (h : PV strict E a r) (hs : ∀ x ∈ E, x ∈ E') :
    PV strict E' a r := by
  intro x hx
  rcases h x hx with (h1 | h1) | h1
  · exact Or.inl (Or.inl h1)
  · exact Or.inl (Or.inr (hs x h1))
  · exact Or.inr h1

theorem step_pv_unacc (strict : Bool) (E E' : List Sid) (cfg : Cfg) (st : St) (e : Ev) (rid : Rid) (b : Batch) (r : ProdRes)
    (hp : st.phase = .sending rid b) (hc : completionOf e = some r) (hval : validResult b r = true)
    (hk : ∀ k r', e = .produceDone k r' → k = rid) (hn : st.outstanding.Nodup)
    (hsub : ∀ x ∈ E, x ∈ E') (hall : ∀ x ∈ b.allSids, x ∈ E') (hv : PV strict E st false) :
    PV strict E' (step cfg st e).1 false := by
  cases e with
  | produceDone k r' =>
    have := hk k r' rfl; subst this
    simp only [completionOf] at hc; injection hc with hc; subst hc
    have hstep : step cfg st (.produceDone k r') = finish cfg (handleSendResponse cfg st b r') := by
      simp [step, hp, hval]
    rw [hstep]
    have fd := handleSendResponse_fd cfg st b r'
    have hq := (handleSendResponse_sameQ cfg st b r').1
    apply finish_pv strict E' cfg _ (fd.nodup hn)
    intro x hx
    rcases hv x (fd.sub x hx) with (h | h) | ⟨_, _, h⟩
    · have hqq : queued (handleSendResponse cfg st b r').1 = queued st := by simp only [queued]; rw [hq]
      exact Or.inl (Or.inl (by rw [hqq]; exact h))
    · exact Or.inl (Or.inr (hsub x h))
    · exact Or.inl (Or.inr (hall x (pend_sub_allSids strict st k b hp x h)))
  | stop w pout m =>
    cases pout with
    | none => simp [completionOf] at hc
    | some r' =>
      simp only [completionOf] at hc; injection hc with hc; subst hc
      have hsv : stopValid st (some r') = true := by simp [stopValid, hp, hval]
      have := (stop_fires_all cfg st w (some r') m hsv hn).1
      intro x hx; rw [this] at hx; cases hx
  | send _ _ _ _ => simp [completionOf] at hc
  | cancel _ => simp [completionOf] at hc
  | tick => simp [completionOf] at hc
  | timer _ => simp [completionOf] at hc
  | advance _ => simp [completionOf] at hc
  | metaSet _ _ _ => simp [completionOf] at hc
  | metaReset _ => simp [completionOf] at hc
  | metaWipe => simp [completionOf] at hc
  | metaDone _ _ => simp [completionOf] at hc

/-! ### along the trace -/

open Afkak.Monitor.C01

theorem trackOb_ex (e : Ev) (r : Bool) (t : Track) (o : Ob) :
    (trackOb e r t o).ex1 = t.ex1 ∧ (trackOb e r t o).ex0 = t.ex0 := by
  cases o <;> exact ⟨rfl, rfl⟩

theorem foldl_ex (e : Ev) (r : Bool) (obs : List Ob) (t : Track) :
    (obs.foldl (trackOb e r) t).ex1 = t.ex1 ∧ (obs.foldl (trackOb e r) t).ex0 = t.ex0 := by
  induction obs generalizing t with
  | nil => exact ⟨rfl, rfl⟩
  | cons o rest ih =>
    rw [List.foldl_cons]
    obtain ⟨a1, a2⟩ := ih (trackOb e r t o)
    obtain ⟨b1, b2⟩ := trackOb_ex e r t o
    exact ⟨by rw [a1, b1], by rw [a2, b2]⟩

theorem track_ex (pre : Snap) (t : Track) (s : Step) :
    (track pre t s).ex1 = (trackEv pre t s.ev).ex1 ∧ (track pre t s).ex0 = (trackEv pre t s.ev).ex0 := by
  obtain ⟨f1, f2⟩ := foldl_ex s.ev (isRetryStep t s.ev) s.obs (trackEv pre t s.ev)
  simp only [track]
  repeat' split
  all_goals exact ⟨f1, f2⟩

/-- exemptions only grow -/
theorem trackEv_ex_mono (pre : Snap) (t : Track) (e : Ev) :
    (∀ x ∈ t.ex1, x ∈ (trackEv pre t e).ex1) ∧ (∀ x ∈ t.ex0, x ∈ (trackEv pre t e).ex0) := by
  simp only [trackEv]
  repeat' split
  all_goals
    constructor <;> intro x hx
    all_goals first | exact hx | exact List.mem_append_right _ hx

/-- the summary takes the result the state takes -/
theorem trackEv_completion {cfg : Cfg} {st : St} {t : Track} (h : Rel cfg st t) (pre : Snap) (e : Ev)
    (rid : Rid) (b : Batch) (r : ProdRes) (hp : st.phase = .sending rid b) (hc : completionOf e = some r)
    (hv : validResult b r = true) (hk : ∀ k r', e = .produceDone k r' → k = rid) :
    (trackEv pre t e).ex1 = (if accounts (b.payloadsFor b.current) r then t.ex1 else batchSids t ++ t.ex1) ∧
    (trackEv pre t e).ex0 = (if isAcks0Shape r then t.ex0 else batchSids t ++ t.ex0) := by
  have a := h.sending rid b hp
  have hvf := validFor_of_sending h hp r
  cases e with
  | produceDone k r' =>
    have hk' := hk k r' rfl
    subst hk'
    simp only [completionOf] at hc
    injection hc with hc; subst hc
    simp only [trackEv, effective, completionOf, a.cur, a.res, hvf, hv, beq_self_eq_true, Bool.and_self, if_true]
    first | exact ⟨trivial, trivial⟩ | exact ⟨rfl, rfl⟩ | simp
  | stop w pout m =>
    cases pout with
    | none => simp [completionOf] at hc
    | some r' =>
      simp only [completionOf] at hc
      injection hc with hc; subst hc
      simp only [trackEv, effective, completionOf, a.cur, a.res, hvf, hv, if_true]
      first | exact ⟨trivial, trivial⟩ | exact ⟨rfl, rfl⟩ | simp
  | _ => simp [completionOf] at hc

/-- the sends of the batch in flight are among those the summary would exempt -/
theorem allSids_sub_batchSids {cfg : Cfg} {st : St} {t : Track} (h : Rel cfg st t) {rid : Rid} {b : Batch}
    (hp : st.phase = .sending rid b) : ∀ x ∈ b.allSids, x ∈ batchSids t := by
  intro x hx
  have a := h.sending rid b hp
  simp only [Batch.allSids, List.mem_flatMap] at hx
  obtain ⟨g, hg, hxg⟩ := hx
  simp only [batchSids, List.mem_flatMap, List.mem_filter, List.contains_iff_mem]
  exact ⟨(g.tp, g.sids), ⟨a.br.lastP g hg, by rw [a.br.tps]; exact List.mem_map_of_mem hg⟩, hxg⟩

/-- the invariant behind "fires exactly once": every outstanding send is queued, pending in the batch in flight, or
    belongs to a batch for which the client did not account -/
structure FireRel (cfg : Cfg) (st : St) (t : Track) : Prop where
  rel : Rel cfg st t
  once : OnceInv st t
  v1 : PV true t.ex1 st false
  v0 : cfg.acks = producerAckNotRequired → PV false t.ex0 st false

theorem Rel.bok {cfg : Cfg} {st : St} {t : Track} (h : Rel cfg st t) : ∀ rid b, st.phase = .sending rid b → BOK b :=
  fun rid b hp => ⟨(h.sending rid b hp).sub, (h.sending rid b hp).ne⟩

/-- one step of `PV` along the trace, accounted or not -/
theorem pv_track_step (strict : Bool) (cfg : Cfg) (st : St) (t : Track) (e : Ev) (hrel : Rel cfg st t)
    (honce : OnceInv st t) (E E' : List Sid) (hmono : ∀ x ∈ E, x ∈ E')
    (hacc : ∀ rid b r, st.phase = .sending rid b → completionOf e = some r → validResult b r = true →
      (∀ k r', e = .produceDone k r' → k = rid) →
      (if strict then accounts (b.payloadsFor b.current) r = true
        else (cfg.acks = producerAckNotRequired ∧ isAcks0Shape r = true)) ∨ (∀ x ∈ batchSids t, x ∈ E'))
    (hv : PV strict E st false) : PV strict E' (step cfg st e).1 false := by
  by_cases hA : AccOK strict cfg st e
  · exact (step_pv strict E cfg st e honce.nodup honce.lt hrel.bok hA hv).mono hmono
  · simp only [AccOK] at hA
    have : ∃ rid b r, st.phase = .sending rid b ∧ completionOf e = some r ∧ validResult b r = true ∧
        (∀ k r', e = .produceDone k r' → k = rid) ∧
        ¬ (if strict then accounts (b.payloadsFor b.current) r = true
            else (cfg.acks = producerAckNotRequired ∧ isAcks0Shape r = true)) := by
      false_or_by_contra
      rename_i hc
      apply hA
      intro rid b r h1 h2 h3 h4
      false_or_by_contra
      rename_i hc2
      exact hc ⟨rid, b, r, h1, h2, h3, h4, hc2⟩
    obtain ⟨rid, b, r, h1, h2, h3, h4, h5⟩ := this
    rcases hacc rid b r h1 h2 h3 h4 with h6 | h6
    · exact absurd h6 h5
    · exact step_pv_unacc strict E E' cfg st e rid b r h1 h2 h3 h4 honce.nodup hmono
        (fun x hx => h6 x (allSids_sub_batchSids hrel h1 x hx)) hv

theorem fireRel_step (cfg : Cfg) (st : St) (t : Track) (pre : Snap) (e : Ev) (h : FireRel cfg st t) :
    FireRel cfg (step cfg st e).1 (track pre t (mkStep cfg st e)) ∧
    resolvedFiredStep cfg pre t (mkStep cfg st e) = true := by
  obtain ⟨t1, t2⟩ := track_ex pre t (mkStep cfg st e)
  obtain ⟨m1, m2⟩ := trackEv_ex_mono pre t e
  have hv1 : PV true (track pre t (mkStep cfg st e)).ex1 (step cfg st e).1 false := by
    rw [t1]
    apply pv_track_step true cfg st t e h.rel h.once t.ex1 _ m1 _ h.v1
    intro rid b r hp hc hv hk
    obtain ⟨e1, _⟩ := trackEv_completion h.rel pre e rid b r hp hc hv hk
    by_cases ha : accounts (b.payloadsFor b.current) r = true
    · exact Or.inl (by simpa using ha)
    · right
      intro x hx
      show x ∈ (trackEv pre t e).ex1
      rw [e1, if_neg ha]; exact List.mem_append_left _ hx
  have hv0 : cfg.acks = producerAckNotRequired → PV false (track pre t (mkStep cfg st e)).ex0 (step cfg st e).1 false := by
    intro h0
    rw [t2]
    apply pv_track_step false cfg st t e h.rel h.once t.ex0 _ m2 _ (h.v0 h0)
    intro rid b r hp hc hv hk
    obtain ⟨_, e2⟩ := trackEv_completion h.rel pre e rid b r hp hc hv hk
    by_cases ha : isAcks0Shape r = true
    · exact Or.inl (by simp only [Bool.false_eq_true, if_false]; exact ⟨h0, ha⟩)
    · right
      intro x hx
      show x ∈ (trackEv pre t e).ex0
      rw [e2, if_neg ha]; exact List.mem_append_left _ hx
  refine ⟨⟨(rel_step cfg st t pre e h.rel).1, (once_step cfg st t pre e h.once).2, hv1, hv0⟩, ?_⟩
  -- the check: idle → everything outstanding is queued or exempt
  simp only [resolvedFiredStep]
  by_cases hi : (step cfg st e).1.phase = .idle
  · rw [Bool.or_eq_true]; right
    rw [List.all_eq_true]
    intro x hx
    have hx' : x ∈ (step cfg st e).1.outstanding := hx
    simp only [Bool.or_eq_true, List.contains_iff_mem, exempt, Bool.and_eq_true, bne_iff_ne, ne_eq]
    show x ∈ (snapOf (step cfg st e).1).queue ∨ _
    rcases hv1 x hx' with (hq | hq) | ⟨_, _, hpd⟩
    · left; simpa [snapOf, queued] using hq
    · by_cases h0 : cfg.acks = producerAckNotRequired
      · rcases hv0 h0 x hx' with (hq0 | hq0) | ⟨_, _, hpd⟩
        · left; simpa [snapOf, queued] using hq0
        · right; exact ⟨hq, Or.inr hq0⟩
        · simp [pend, hi] at hpd
      · right; exact ⟨hq, Or.inl h0⟩
    · simp [pend, hi] at hpd
  · have : (mkStep cfg st e).post.idle = false := by
      simp only [mkStep, snapOf]
      cases hph : (step cfg st e).1.phase with
      | idle => exact absurd hph hi
      | _ => rfl
    rw [this]; simp

theorem fireRel_init (cfg : Cfg) : FireRel cfg (St.init cfg) {} :=
  ⟨rel_init cfg, once_init cfg, fun x hx => by simp [St.init] at hx, fun _ x hx => by simp [St.init] at hx⟩

theorem fire_from (cfg : Cfg) (evs : List Ev) (st : St) (t : Track) (pre : Snap) (h : FireRel cfg st t) :
    checkFrom (resolvedFiredStep cfg) pre t (traceFrom cfg st evs) = true := by
  induction evs generalizing st t pre with
  | nil => rfl
  | cons e rest ih =>
    obtain ⟨r1, r2⟩ := fireRel_step cfg st t pre e h
    simp only [traceFrom, checkFrom, Bool.and_eq_true]
    exact ⟨r2, ih _ _ _ r1⟩

/-- C01 "fires": on every model trace, whenever no batch is in flight every send that was dispatched has
    fired - except the sends of a batch for which the client did not account for every payload of a request. -/
theorem resolvedFired_model (cfg : Cfg) (evs : List Ev) : resolvedFired cfg (traceOf cfg evs) = true :=
  fire_from cfg evs _ _ _ (fireRel_init cfg)

end Afkak.Producer
