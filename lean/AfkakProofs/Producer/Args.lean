import Afkak.ProducerArgs
/-! Lemmas about `Afkak/ProducerArgs.lean` (the argument validation of `send_messages`). -/
namespace Afkak.ProducerArgs
open Afkak.Producer Afkak.Consts

theorem checkMsgs_ok_iff : ∀ (ms : List PyMsg) (vs : List (Option Nat)),
    checkMsgs ms = .ok vs ↔ ms.map PyMsg.toModel = vs.map some
  | [], vs => by
    cases vs <;> simp [checkMsgs]
  | m :: rest, vs => by
    simp only [checkMsgs]
    cases hm : m.toModel with
    | none =>
      cases vs <;> simp [hm]
    | some v =>
      cases hr : checkMsgs rest with
      | error e =>
        have := checkMsgs_ok_iff rest
        cases vs with
        | nil => simp
        | cons w ws =>
          simp only [List.map_cons, hm, List.cons.injEq, Option.some.injEq]
          constructor
          · intro h; cases h
          · rintro ⟨_, h2⟩
            have := (this ws).mpr h2
            rw [hr] at this; cases this
      | ok us =>
        have hus := (checkMsgs_ok_iff rest us).mp hr
        cases vs with
        | nil => simp
        | cons w ws =>
          simp only [Except.ok.injEq, List.cons.injEq, List.map_cons, hm, Option.some.injEq]
          constructor
          · rintro ⟨rfl, rfl⟩; exact ⟨rfl, hus⟩
          · rintro ⟨rfl, h2⟩
            refine ⟨rfl, ?_⟩
            have := (checkMsgs_ok_iff rest ws).mpr h2
            rw [hr] at this; injection this

theorem checkMsgs_error (ms : List PyMsg) (e : ErrKind) (h : checkMsgs ms = .error e) :
    e = typeError ∧ PyMsg.other ∈ ms := by
  induction ms with
  | nil => simp [checkMsgs] at h
  | cons m rest ih =>
    simp only [checkMsgs] at h
    cases hm : m.toModel with
    | none =>
      rw [hm] at h
      simp only [Except.error.injEq] at h
      refine ⟨h.symm, ?_⟩
      cases m <;> simp [PyMsg.toModel] at hm
      exact List.mem_cons_self
    | some v =>
      rw [hm] at h
      cases hr : checkMsgs rest with
      | error e' =>
        rw [hr] at h
        simp only [Except.error.injEq] at h
        subst h
        obtain ⟨h1, h2⟩ := ih hr
        exact ⟨h1, List.mem_cons_of_mem _ h2⟩
      | ok us => rw [hr] at h; cases h

/-- the sizes Python adds up: `len(m)` of every `bytes` element -/
def pyBytes : List PyMsg → Int
  | [] => 0
  | .bytes n :: r => (n : Int) + pyBytes r
  | _ :: r => pyBytes r

theorem msgBytes_cons (v : Option Nat) (vs : List (Option Nat)) :
    msgBytes (v :: vs) = (match v with | some n => (n : Int) | none => 0) + msgBytes vs := by
  cases v <;> simp [msgBytes]

theorem checkMsgs_counts : ∀ (ms : List PyMsg) (vs : List (Option Nat)), checkMsgs ms = .ok vs →
    vs.length = ms.length ∧ msgBytes vs = pyBytes ms
  | [], vs, h => by
    simp only [checkMsgs, Except.ok.injEq] at h; subst h; simp [msgBytes, pyBytes]
  | m :: rest, vs, h => by
    simp only [checkMsgs] at h
    cases hm : m.toModel with
    | none => rw [hm] at h; cases h
    | some v =>
      rw [hm] at h
      cases hr : checkMsgs rest with
      | error e => rw [hr] at h; cases h
      | ok us =>
        rw [hr] at h
        simp only [Except.ok.injEq] at h; subst h
        obtain ⟨h1, h2⟩ := checkMsgs_counts rest us hr
        refine ⟨by simp [h1], ?_⟩
        rw [msgBytes_cons, h2]
        cases m <;> simp [PyMsg.toModel] at hm <;> subst hm <;> simp [pyBytes]

/-- WHAT IS ACCEPTED, exactly: a `str` topic of 1..249 characters, a key that is `None` or `bytes`, a non-empty sized
    `msgs` whose every element is `None` or `bytes` - and then the model's `send` arguments are the topic named, that
    key, those values in that order. -/
theorem validate_ok_iff (a : Args) (acc : Accepted) :
    validate a = .ok acc ↔
      (∃ len, a.topic = .str len acc.topic ∧ producerTopicMinLen ≤ len ∧ len ≤ producerTopicMaxLen) ∧
      ((a.key = .none ∧ acc.key = none) ∨ ∃ b, a.key = .bytes b ∧ acc.key = some b) ∧
      ∃ ms, a.msgs = .sized ms ∧ ms ≠ [] ∧ ms.map PyMsg.toModel = acc.msgs.map some := by
  obtain ⟨topic, key, msgs⟩ := a
  obtain ⟨at_, ak, am⟩ := acc
  simp only [validate]
  cases topic with
  | other => simp
  | str len t =>
    by_cases h1 : len < producerTopicMinLen
    · simp only [h1, if_true]
      constructor
      · intro h; cases h
      · rintro ⟨⟨len', he, hle, _⟩, _⟩
        injection he with he1 he2; subst he1
        exact absurd hle (Nat.not_le.mpr h1)
    · by_cases h2 : len > producerTopicMaxLen
      · simp only [h1, if_false, h2, if_true]
        constructor
        · intro h; cases h
        · rintro ⟨⟨len', he, _, hle⟩, _⟩
          injection he with he1 he2; subst he1
          exact absurd hle (Nat.not_le.mpr h2)
      · simp only [h1, if_false, h2]
        have hlen : producerTopicMinLen ≤ len ∧ len ≤ producerTopicMaxLen := ⟨Nat.le_of_not_lt h1, Nat.le_of_not_lt h2⟩
        cases key with
        | other => simp
        | none =>
          cases msgs with
          | falsy => simp
          | unsized => simp
          | sized ms =>
            cases ms with
            | nil => simp
            | cons m rest =>
              simp only
              cases hc : checkMsgs (m :: rest) with
              | error e =>
                simp only [reduceCtorEq, false_iff, not_and, not_exists]
                rintro _ _ ms' hms _ hmap
                injection hms with hms; subst hms
                have := (checkMsgs_ok_iff _ _).mpr hmap
                rw [hc] at this; cases this
              | ok vs =>
                have hvs := (checkMsgs_ok_iff _ _).mp hc
                simp only [Except.ok.injEq, Accepted.mk.injEq]
                constructor
                · rintro ⟨rfl, rfl, rfl⟩
                  refine ⟨⟨len, rfl, hlen⟩, ?_, _, rfl, by simp, hvs⟩
                  simp
                · rintro ⟨⟨len', he, _⟩, hk, ms', hms, _, hmap⟩
                  injection he with _ he2
                  injection hms with hms; subst hms
                  rcases hk with ⟨_, hk⟩ | ⟨b, hb, _⟩
                  · refine ⟨he2, hk.symm, ?_⟩
                    have := (checkMsgs_ok_iff _ _).mpr hmap
                    rw [hc] at this; injection this
                  · cases hb
        | bytes b =>
          cases msgs with
          | falsy => simp
          | unsized => simp
          | sized ms =>
            cases ms with
            | nil => simp
            | cons m rest =>
              simp only
              cases hc : checkMsgs (m :: rest) with
              | error e =>
                simp only [reduceCtorEq, false_iff, not_and, not_exists]
                rintro _ _ ms' hms _ hmap
                injection hms with hms; subst hms
                have := (checkMsgs_ok_iff _ _).mpr hmap
                rw [hc] at this; cases this
              | ok vs =>
                have hvs := (checkMsgs_ok_iff _ _).mp hc
                simp only [Except.ok.injEq, Accepted.mk.injEq]
                constructor
                · rintro ⟨rfl, rfl, rfl⟩
                  refine ⟨⟨len, rfl, hlen⟩, ?_, _, rfl, by simp, hvs⟩
                  simp
                · rintro ⟨⟨len', he, _⟩, hk, ms', hms, _, hmap⟩
                  injection he with _ he2
                  injection hms with hms; subst hms
                  rcases hk with ⟨hb, _⟩ | ⟨b', hb, hk⟩
                  · cases hb
                  · injection hb with hb; subst hb
                    refine ⟨he2, hk.symm, ?_⟩
                    have := (checkMsgs_ok_iff _ _).mpr hmap
                    rw [hc] at this; injection this

/-- every refusal is a TypeError or a ValueError -/
theorem validate_error (a : Args) (k : ErrKind) (h : validate a = .error k) : k = typeError ∨ k = valueError := by
  obtain ⟨topic, key, msgs⟩ := a
  simp only [validate] at h
  cases topic with
  | other => simp at h; exact Or.inl h.symm
  | str len t =>
    simp only at h
    split at h
    · simp at h; exact Or.inr h.symm
    · split at h
      · simp at h; exact Or.inr h.symm
      · cases key with
        | other => simp at h; exact Or.inl h.symm
        | none =>
          cases msgs with
          | falsy => simp at h; exact Or.inr h.symm
          | unsized => simp at h; exact Or.inl h.symm
          | sized ms =>
            cases ms with
            | nil => simp at h; exact Or.inr h.symm
            | cons m rest =>
              simp only at h
              cases hc : checkMsgs (m :: rest) with
              | error e => rw [hc] at h; simp at h; subst h; exact Or.inl (checkMsgs_error _ _ hc).1
              | ok vs => rw [hc] at h; cases h
        | bytes b =>
          cases msgs with
          | falsy => simp at h; exact Or.inr h.symm
          | unsized => simp at h; exact Or.inl h.symm
          | sized ms =>
            cases ms with
            | nil => simp at h; exact Or.inr h.symm
            | cons m rest =>
              simp only at h
              cases hc : checkMsgs (m :: rest) with
              | error e => rw [hc] at h; simp at h; subst h; exact Or.inl (checkMsgs_error _ _ hc).1
              | ok vs => rw [hc] at h; cases h

/-! ### the machine with raw sends is the Producer machine with the refused calls erased -/

theorem flatObs_append (a b : List ObA) : flatObs (a ++ b) = flatObs a ++ flatObs b := by
  induction a with
  | nil => rfl
  | cons x r ih => cases x <;> simp [flatObs, ih]

theorem flatObs_map (l : List Ob) : flatObs (l.map .flat) = l := by
  induction l with
  | nil => rfl
  | cons x r ih => simp [flatObs, ih]

theorem runA_erase (cfg : Cfg) : ∀ (st : St) (evs : List EvA),
    (runA cfg st evs).1 = (run cfg st (erase cfg st evs)).1 ∧
    flatObs (runA cfg st evs).2 = (run cfg st (erase cfg st evs)).2
  | _, [] => ⟨rfl, rfl⟩
  | st, .flat e :: es => by
    obtain ⟨h1, h2⟩ := runA_erase cfg (step cfg st e).1 es
    simp only [runA, stepA, erase, run]
    exact ⟨h1, by rw [flatObs_append, flatObs_map, h2]⟩
  | st, .sendRaw a :: es => by
    simp only [runA, stepA, erase]
    cases hv : validate a with
    | error k =>
      obtain ⟨h1, h2⟩ := runA_erase cfg st es
      simp only
      exact ⟨h1, by simpa [flatObs] using h2⟩
    | ok acc =>
      obtain ⟨h1, h2⟩ := runA_erase cfg (step cfg st (.send st.nextSid acc.topic acc.key acc.msgs)).1 es
      simp only [run]
      exact ⟨h1, by rw [flatObs_append, flatObs_map, h2]⟩

end Afkak.ProducerArgs
