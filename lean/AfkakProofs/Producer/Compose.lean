import Afkak.ClientCache
import AfkakProofs.Client.Assemble
import AfkakProofs.Producer.Pending
/-! Producer × KafkaClient, composed in Lean at the seam `send_produce_request(payloads, fail_on_error=False)`:
the client's assembling kernel (`assemble`: the responses in payload order and the failed payloads of the
failed broker requests) produces exactly the kind of result the Producer model takes as its `produceDone`
event, it is VALID (names only payloads of the request, each once) and it ACCOUNTS for every payload (the
hypothesis of C01 "fires" and C09 "one batch"), so what the Producer retries is exactly what failed. -/
namespace Afkak.Producer.Compose
open Afkak.Consts Afkak.Producer Afkak.Monitor.ProducerTrace
open Afkak.ClientCache (assemble accOf failedOf responsesOf BrokerResult AnswersAsked)

abbrev CResp := Afkak.ClientCache.Resp
abbrev CTP := Afkak.ClientCache.TP

/-- the client's key of a payload (`nm`: topic names) -/
def key (nm : Topic → String) (tp : TP) : CTP := (nm tp.topic, tp.part)

theorem key_inj {nm : Topic → String} {keys : List TP}
    (hnm : ∀ a ∈ keys, ∀ b ∈ keys, nm a.topic = nm b.topic → a.topic = b.topic) :
    ∀ a ∈ keys, ∀ b ∈ keys, key nm a = key nm b → a = b := by
  intro a ha b hb h
  simp only [key, Prod.mk.injEq] at h
  have := hnm a ha b hb h.1
  cases a; cases b
  simp only [TP.mk.injEq]
  exact ⟨this, h.2⟩

/-- a response of the client, as the Producer sees it (`tag` stands for the offset) -/
def backResp (nm : Topic → String) (keys : List TP) (r : CResp) : Option Resp :=
  (keys.find? (fun tp => key nm tp == r.key)).map (fun tp => ⟨tp, r.err, r.tag⟩)

/-- a failed payload (index into the payload list) of `FailedPayloadsError` -/
def backFail (keys : List TP) (f : Nat × ErrKind) : Option FailedP :=
  keys[f.1]?.map (fun tp => ⟨tp, f.2, true⟩)

/-- what `send_produce_request(payloads, fail_on_error=False)` completes with, given what each broker
    request came to: the responses - or `FailedPayloadsError(responses, failed payloads)` if any failed -/
def clientResult (nm : Topic → String) (keys : List TP) (results : List (List Nat × BrokerResult ErrKind)) : ProdRes :=
  let a := assemble (keys.map (key nm)) results
  let rs := a.1.filterMap (backResp nm keys)
  let fs := a.2.filterMap (backFail keys)
  if fs.isEmpty then .responses rs else .failed rs fs

/-! ### `_handle_responses` with `fail_on_error=False` raises nothing for a produce reply -/

theorem handleResponses_silent (c : Afkak.ClientCache.Cache) (resps : List (String × Int))
    (h : ∀ x ∈ resps, clientGroupResetErrnos.contains x.2 = false) :
    (Afkak.ClientCache.handleResponses c false none resps).2 = none := by
  induction resps generalizing c with
  | nil => rfl
  | cons x rest ih =>
    obtain ⟨topic, err⟩ := x
    have hx := h (topic, err) List.mem_cons_self
    have ih' := fun c => ih c (fun y hy => h y (List.mem_cons_of_mem _ hy))
    simp only [Afkak.ClientCache.handleResponses]
    split
    · exact ih' c
    · split
      · simp only [Bool.false_eq_true, if_false]; exact ih' _
      · simp only at hx
        rw [hx]
        simp only [Bool.false_eq_true, if_false, clientHandleCatchAll, Bool.not_true, Bool.or_self]
        exact ih' c

/-! ### the assembled result is valid and accounts for every payload -/

theorem nodup_filterMap {α β κ κ' : Type} [DecidableEq κ'] (l : List α) (g : α → Option β) (ka : α → κ) (kb : β → κ')
    (h : ∀ a a' b b', a ∈ l → a' ∈ l → g a = some b → g a' = some b' → kb b = kb b' → ka a = ka a')
    (hn : (l.map ka).Nodup) : ((l.filterMap g).map kb).Nodup := by
  induction l with
  | nil => simp
  | cons x rest ih =>
    simp only [List.map_cons, List.nodup_cons] at hn
    have ih' := ih (fun a a' b b' ha ha' => h a a' b b' (List.mem_cons_of_mem _ ha) (List.mem_cons_of_mem _ ha')) hn.2
    simp only [List.filterMap_cons]
    cases hg : g x with
    | none => exact ih'
    | some b =>
      simp only [List.map_cons, List.nodup_cons]
      refine ⟨?_, ih'⟩
      intro hc
      obtain ⟨b', hb', hbe⟩ := List.mem_map.mp hc
      obtain ⟨a', ha', hga'⟩ := List.mem_filterMap.mp hb'
      have := h x a' b b' List.mem_cons_self (List.mem_cons_of_mem _ ha') hg hga' hbe.symm
      exact hn.1 (by rw [this]; exact List.mem_map_of_mem ha')

theorem nodup_map_of_inj {α β : Type} (f : α → β) (l : List α) (hf : ∀ a ∈ l, ∀ b ∈ l, f a = f b → a = b) (h : l.Nodup) :
    (l.map f).Nodup := by
  induction l with
  | nil => simp
  | cons a rest ih =>
    simp only [List.nodup_cons] at h
    simp only [List.map_cons, List.nodup_cons]
    refine ⟨?_, ih (fun x hx y hy => hf x (List.mem_cons_of_mem _ hx) y (List.mem_cons_of_mem _ hy)) h.2⟩
    intro hc
    obtain ⟨b, hb, hbe⟩ := List.mem_map.mp hc
    exact h.1 (by rw [← hf b (List.mem_cons_of_mem _ hb) a List.mem_cons_self hbe]; exact hb)

structure Hyp (nm : Topic → String) (keys : List TP) (results : List (List Nat × BrokerResult ErrKind)) : Prop where
  /-- the topics of the payloads have distinct names -/
  hnm : ∀ a ∈ keys, ∀ b ∈ keys, nm a.topic = nm b.topic → a.topic = b.topic
  /-- one payload per topic/partition (what the Producer builds: C01 payload integrity) -/
  hkeys : keys.Nodup
  /-- the broker requests partition the payload list (C07 routing) -/
  nd : (results.flatMap (·.1)).Nodup
  cover : ∀ i, i < keys.length → i ∈ results.flatMap (·.1)
  bound : ∀ i ∈ results.flatMap (·.1), i < keys.length
  /-- every broker that answers, answers for exactly the partitions it was asked -/
  ans : ∀ idxs rs, (idxs, BrokerResult.ok rs) ∈ results → AnswersAsked (keys.map (key nm)) idxs rs

variable {nm : Topic → String} {keys : List TP} {results : List (List Nat × BrokerResult ErrKind)}

theorem ks_nodup (h : Hyp nm keys results) : (keys.map (key nm)).Nodup :=
  nodup_map_of_inj (key nm) keys (key_inj h.hnm) h.hkeys


theorem backResp_some (h : Hyp nm keys results) (r : CResp)
    (hr : r ∈ (assemble (keys.map (key nm)) results).1) :
    ∃ tp ∈ keys, key nm tp = r.key ∧ backResp nm keys r = some ⟨tp, r.err, r.tag⟩ := by
  obtain ⟨hk, _⟩ := Afkak.ClientCache.responsesOf_mem _ _ r hr
  obtain ⟨tp, htp, hte⟩ := List.mem_map.mp hk
  refine ⟨tp, htp, hte, ?_⟩
  simp only [backResp]
  cases hf : keys.find? (fun tp => key nm tp == r.key) with
  | none =>
    have := List.find?_eq_none.mp hf tp htp
    simp [hte] at this
  | some tp' =>
    have h1 := List.find?_some hf
    have : tp' = tp := key_inj h.hnm _ (List.mem_of_find?_eq_some hf) _ htp (by rw [hte]; simpa using h1)
    subst this; rfl

theorem backFail_some (h : Hyp nm keys results) (f : Nat × ErrKind)
    (hf : f ∈ (assemble (keys.map (key nm)) results).2) :
    ∃ hi : f.1 < keys.length, backFail keys f = some ⟨keys[f.1], f.2, true⟩ := by
  have hm : f.1 ∈ (failedOf results).map (·.1) := List.mem_map_of_mem hf
  rw [Afkak.ClientCache.failedOf_idxs] at hm
  obtain ⟨req, hreq, hi⟩ := List.mem_flatMap.mp hm
  have hlt := h.bound f.1 (List.mem_flatMap.mpr ⟨req, (List.mem_filter.mp hreq).1, hi⟩)
  exact ⟨hlt, by simp [backFail, List.getElem?_eq_getElem hlt]⟩

/-- the responses and failed payloads handed to the Producer -/
def rsOf (nm : Topic → String) (keys : List TP) (results : List (List Nat × BrokerResult ErrKind)) : List Resp :=
  (assemble (keys.map (key nm)) results).1.filterMap (backResp nm keys)
def fsOf (nm : Topic → String) (keys : List TP) (results : List (List Nat × BrokerResult ErrKind)) : List FailedP :=
  (assemble (keys.map (key nm)) results).2.filterMap (backFail keys)

theorem mem_rsOf (h : Hyp nm keys results) (x : Resp) :
    x ∈ rsOf nm keys results ↔ ∃ r ∈ (assemble (keys.map (key nm)) results).1, x.tp ∈ keys ∧ key nm x.tp = r.key ∧
      x = ⟨x.tp, r.err, r.tag⟩ := by
  simp only [rsOf, List.mem_filterMap]
  constructor
  · rintro ⟨r, hr, hx⟩
    obtain ⟨tp, htp, hte, hb⟩ := backResp_some h r hr
    rw [hb] at hx; injection hx with hx; subst hx
    exact ⟨r, hr, htp, hte, rfl⟩
  · rintro ⟨r, hr, htp, hte, hx⟩
    obtain ⟨tp, htp', hte', hb⟩ := backResp_some h r hr
    have : tp = x.tp := key_inj h.hnm _ htp' _ htp (by rw [hte', hte])
    refine ⟨r, hr, ?_⟩
    rw [hb, this]; exact congrArg some hx.symm

theorem mem_fsOf (h : Hyp nm keys results) (f : FailedP) :
    f ∈ fsOf nm keys results ↔ ∃ i k, (i, k) ∈ (assemble (keys.map (key nm)) results).2 ∧ ∃ hi : i < keys.length,
      f = ⟨keys[i], k, true⟩ := by
  simp only [fsOf, List.mem_filterMap]
  constructor
  · rintro ⟨⟨i, k⟩, hm, hx⟩
    obtain ⟨hi, hb⟩ := backFail_some h (i, k) hm
    rw [hb] at hx; injection hx with hx
    exact ⟨i, k, hm, hi, hx.symm⟩
  · rintro ⟨i, k, hm, hi, hx⟩
    obtain ⟨_, hb⟩ := backFail_some h (i, k) hm
    exact ⟨(i, k), hm, by rw [hb, hx]⟩

theorem getElem_map_key (i : Nat) (hi : i < keys.length) :
    (keys.map (key nm))[i]'(by simpa using hi) = key nm keys[i] := by simp

/-- ACCOUNTING across the seam: every payload has a response or is listed failed -/
theorem covered (h : Hyp nm keys results) :
    ∀ tp ∈ keys, (∃ x ∈ rsOf nm keys results, x.tp = tp) ∨ (∃ f ∈ fsOf nm keys results, f.tp = tp) := by
  intro tp htp
  obtain ⟨i, hi, hie⟩ := List.getElem_of_mem htp
  have hik : i < (keys.map (key nm)).length := by simpa using hi
  have hacc := Afkak.ClientCache.accounting (keys.map (key nm)) results (ks_nodup h) h.nd
    (by intro j hj; exact h.cover j (by simpa using hj)) h.ans i hik
  by_cases ha : (accOf results).any (fun r => r.key == (keys.map (key nm))[i]) = true
  · left
    have hin : (keys.map (key nm))[i] ∈ (assemble (keys.map (key nm)) results).1.map (·.key) := by
      show _ ∈ (responsesOf _ _).map _
      rw [Afkak.ClientCache.responsesOf_keys]
      exact List.mem_filter.mpr ⟨List.getElem_mem hik, ha⟩
    obtain ⟨r, hr, hrk⟩ := List.mem_map.mp hin
    refine ⟨⟨tp, r.err, r.tag⟩, (mem_rsOf h _).mpr ⟨r, hr, htp, ?_, rfl⟩, rfl⟩
    rw [hrk, getElem_map_key i hi, hie]
  · right
    have hf := hacc.mpr ha
    obtain ⟨⟨i', k⟩, hm, hie'⟩ := List.mem_map.mp hf
    simp only at hie'; subst hie'
    exact ⟨⟨keys[i'], k, true⟩, (mem_fsOf h _).mpr ⟨i', k, hm, hi, rfl⟩, hie⟩

theorem within (h : Hyp nm keys results) :
    (∀ x ∈ rsOf nm keys results, x.tp ∈ keys) ∧ (∀ f ∈ fsOf nm keys results, f.tp ∈ keys) := by
  constructor
  · intro x hx
    obtain ⟨_, _, htp, _⟩ := (mem_rsOf h x).mp hx
    exact htp
  · intro f hf
    obtain ⟨i, k, _, hi, hfe⟩ := (mem_fsOf h f).mp hf
    rw [hfe]; exact List.getElem_mem hi

theorem distinct (h : Hyp nm keys results) :
    ((fsOf nm keys results).map (·.tp) ++ (rsOf nm keys results).map (·.tp)).Nodup := by
  rw [List.nodup_append]
  refine ⟨?_, ?_, ?_⟩
  · show (((assemble (keys.map (key nm)) results).2.filterMap (backFail keys)).map FailedP.tp).Nodup
    apply nodup_filterMap _ _ (fun a : Nat × ErrKind => a.1) FailedP.tp
    · intro a a' b b' ha ha' hb hb' hbb
      obtain ⟨hi, e⟩ := backFail_some h a ha
      obtain ⟨hi', e'⟩ := backFail_some h a' ha'
      rw [e] at hb; rw [e'] at hb'
      injection hb with hb; injection hb' with hb'
      subst hb; subst hb'
      simp only at hbb
      by_cases hne : a.1 = a'.1
      · exact hne
      · exfalso
        rcases Nat.lt_or_gt_of_ne hne with hlt | hlt
        · exact (List.pairwise_iff_getElem.mp h.hkeys a.1 a'.1 hi hi' hlt) hbb
        · exact (List.pairwise_iff_getElem.mp h.hkeys a'.1 a.1 hi' hi hlt) hbb.symm
    · exact Afkak.ClientCache.failed_nodup results h.nd
  · show (((assemble (keys.map (key nm)) results).1.filterMap (backResp nm keys)).map Resp.tp).Nodup
    apply nodup_filterMap _ _ (fun a : CResp => a.key) Resp.tp
    · intro a a' b b' ha ha' hb hb' hbb
      obtain ⟨tp, _, hte, e⟩ := backResp_some h a ha
      obtain ⟨tp', _, hte', e'⟩ := backResp_some h a' ha'
      rw [e] at hb; rw [e'] at hb'
      injection hb with hb; injection hb' with hb'
      subst hb; subst hb'
      simp only at hbb
      rw [← hte, ← hte', hbb]
    · show ((responsesOf _ _).map _).Nodup
      rw [Afkak.ClientCache.responsesOf_keys]
      exact (ks_nodup h).sublist List.filter_sublist
  · intro a ha b hb hab
    subst hab
    obtain ⟨f, hf, hfe⟩ := List.mem_map.mp ha
    obtain ⟨x, hx, hxe⟩ := List.mem_map.mp hb
    obtain ⟨i, k, hm, hi, hfe'⟩ := (mem_fsOf h f).mp hf
    obtain ⟨r, hr, _, hrk, _⟩ := (mem_rsOf h x).mp hx
    have hik : i < (keys.map (key nm)).length := by simpa using hi
    have hacc := Afkak.ClientCache.accounting (keys.map (key nm)) results (ks_nodup h) h.nd
      (by intro j hj; exact h.cover j (by simpa using hj)) h.ans i hik
    have hfail : i ∈ (failedOf results).map (·.1) := List.mem_map.mpr ⟨(i, k), hm, rfl⟩
    apply hacc.mp hfail
    have hin : r.key ∈ (responsesOf (keys.map (key nm)) (accOf results)).map (·.key) := List.mem_map_of_mem hr
    rw [Afkak.ClientCache.responsesOf_keys] at hin
    have := (List.mem_filter.mp hin).2
    have hke : (keys.map (key nm))[i] = r.key := by
      rw [getElem_map_key i hi, ← hrk, hxe, ← hfe, hfe']
    rw [hke]; exact this


theorem clientResult_eq (nm : Topic → String) (keys : List TP) (results : List (List Nat × BrokerResult ErrKind)) :
    clientResult nm keys results =
      if (fsOf nm keys results).isEmpty then .responses (rsOf nm keys results)
      else .failed (rsOf nm keys results) (fsOf nm keys results) := rfl

/-- the client's result names only payloads of the request, each at most once: the Producer takes it -/
theorem compose_valid (h : Hyp nm keys results) (b : Batch) (hb : b.current = keys) :
    validResult b (clientResult nm keys results) = true := by
  obtain ⟨w1, w2⟩ := within h
  have hd := distinct h
  rw [clientResult_eq]
  simp only [validResult, Bool.and_eq_true, List.all_eq_true, decide_eq_true_eq]
  split
  · rename_i he
    have he' : fsOf nm keys results = [] := by simpa using he
    rw [he'] at hd
    simp only [ProdRes.tps]
    refine ⟨?_, by simpa using hd⟩
    intro tp htp
    obtain ⟨x, hx, hxe⟩ := List.mem_map.mp htp
    rw [hb, ← hxe]; exact w1 x hx
  · simp only [ProdRes.tps]
    refine ⟨?_, hd⟩
    intro tp htp
    rw [hb]
    rcases List.mem_append.mp htp with htp | htp
    · obtain ⟨f, hf, hfe⟩ := List.mem_map.mp htp
      rw [← hfe]; exact w2 f hf
    · obtain ⟨x, hx, hxe⟩ := List.mem_map.mp htp
      rw [← hxe]; exact w1 x hx

/-- … and it accounts for every payload of the request: the environment hypothesis of C01 "fires" and
    C09 "one batch" is what the client's assembling kernel delivers -/
theorem compose_accounts (h : Hyp nm keys results) (b : Batch) (hb : b.current = keys) :
    accounts (b.payloadsFor b.current) (clientResult nm keys results) = true := by
  have hc := covered h
  rw [clientResult_eq]
  split
  · rename_i he
    have he' : fsOf nm keys results = [] := by simpa using he
    cases hrs : rsOf nm keys results with
    | nil => rfl
    | cons a l =>
      simp only [accounts, List.all_eq_true, List.any_eq_true, decide_eq_true_eq]
      intro p hp
      have hpk : p.tp ∈ keys := by rw [← hb]; exact ((mem_payloadsFor b b.current p).mp hp).2
      rcases hc p.tp hpk with ⟨x, hx, hxe⟩ | ⟨f, hf, _⟩
      · exact ⟨x, by rw [← hrs]; exact hx, hxe⟩
      · rw [he'] at hf; cases hf
  · simp only [accounts, List.all_eq_true, Bool.or_eq_true, List.any_eq_true, decide_eq_true_eq]
    intro p hp
    have hpk : p.tp ∈ keys := by rw [← hb]; exact ((mem_payloadsFor b b.current p).mp hp).2
    rcases hc p.tp hpk with ⟨x, hx, hxe⟩ | ⟨f, hf, hfe⟩
    · exact Or.inl ⟨x, hx, hxe⟩
    · exact Or.inr ⟨f, hf, hfe⟩

/-- The composed step.  The Producer waits on a produce request (`sending rid b`, payloads `b.current`);
    the client completes it with what its kernel assembles from the broker requests' outcomes.  Then:
    the completion event is enabled and accounted (`AccOK`), every response the brokers gave reaches the
    Producer unchanged (error code and all, one per answered payload), and IF a retry is scheduled it is
    for exactly the payloads of the failed broker requests followed by the payloads answered with an
    error code - while every payload answered with error 0 has left the batch's unacknowledged set, so
    no later retry (not even after a total failure) can carry it. -/
theorem compose_step (cfg : Cfg) (st : St) (rid : Rid) (b : Batch) (h : Hyp nm b.current results)
    (hp : st.phase = .sending rid b) :
    let r := clientResult nm b.current results
    step cfg st (.produceDone rid r) = finish cfg (handleSendResponse cfg st b r) ∧
    AccOK true cfg st (.produceDone rid r) ∧
    (∀ x ∈ respsOf r, ∃ cr ∈ (assemble (b.current.map (key nm)) results).1,
      cr.key = key nm x.tp ∧ x.error = cr.err ∧ x.offset = cr.tag) ∧
    (∀ tid b' tps, (handleSendResponse cfg st b r).1.phase = .retryWait tid b' tps →
      tps = (fsOf nm b.current results).map (·.tp) ++
            ((rsOf nm b.current results).filter (·.error ≠ 0)).map (·.tp) ∧
      ∀ x ∈ rsOf nm b.current results, x.error = 0 → x.tp ∉ b'.live) := by
  intro r
  have hv := compose_valid h b rfl
  have ha := compose_accounts h b rfl
  have hresps : respsOf r = rsOf nm b.current results := by
    show respsOf (clientResult nm b.current results) = _
    rw [clientResult_eq]; split <;> rfl
  refine ⟨?_, ?_, ?_, ?_⟩
  · have hv' : validResult b r = true := hv
    simp [step, hp, hv']
  · intro rid' b0 r0 hp0 hc0 _ _
    rw [hp] at hp0; injection hp0 with _ hb0; subst hb0
    simp only [completionOf] at hc0; injection hc0 with hc0; subst hc0
    simp only [if_true]; exact ha
  · intro x hx
    rw [hresps] at hx
    obtain ⟨cr, hcr, _, hk, hxe⟩ := (mem_rsOf h x).mp hx
    refine ⟨cr, hcr, hk.symm, ?_, ?_⟩
    · rw [hxe]
    · rw [hxe]
  · intro tid b' tps hph
    obtain ⟨_, hd⟩ := handleSendResponse_spec cfg st b r
    generalize (handleSendResponse cfg st b r).2.2 = res at hd
    cases hd with
    | resolved a1 => rw [a1, hp] at hph; cases hph
    | retry a1 =>
      rw [a1] at hph; injection hph with _ e2 e3
      subst e2; subst e3
      constructor
      · show failedTps _ (clientResult nm b.current results) = _
        rw [clientResult_eq]
        split
        · rename_i he
          have he' : fsOf nm b.current results = [] := by simpa using he
          simp [failedTps, he']
        · simp [failedTps]
      · intro x hx he hc
        simp only [Batch.keep, List.mem_filter, decide_eq_true_eq] at hc
        have hv' : validResult b r = true := hv
        simp only [validResult, Bool.and_eq_true, decide_eq_true_eq] at hv'
        exact acked_not_failed b.live r hv'.2 x (by rw [hresps]; exact hx) he hc.2

end Afkak.Producer.Compose
