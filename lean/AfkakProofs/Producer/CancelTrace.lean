import AfkakProofs.Producer.Order
import AfkakProofs.Producer.Queued
import Afkak.Monitor.C19
/-! C19 cancellation: the monitors `cancel` and `detach` hold on every model trace. -/
namespace Afkak.Producer
open Afkak.Consts Afkak.Monitor.ProducerTrace Afkak.Monitor.C01 Afkak.Monitor.C19

theorem trackOb_cq (e : Ev) (r : Bool) (t : Track) (o : Ob) : (trackOb e r t o).cancelledQueued = t.cancelledQueued := by
  cases o <;> rfl

theorem foldl_cq (e : Ev) (r : Bool) (obs : List Ob) (t : Track) :
    (obs.foldl (trackOb e r) t).cancelledQueued = t.cancelledQueued := by
  induction obs generalizing t with
  | nil => rfl
  | cons o rest ih => rw [List.foldl_cons, ih, trackOb_cq]

theorem track_cq (pre : Snap) (t : Track) (s : Step) :
    (track pre t s).cancelledQueued = (trackEv pre t s.ev).cancelledQueued := by
  have := foldl_cq s.ev (isRetryStep t s.ev) s.obs (trackEv pre t s.ev)
  simp only [track]
  repeat' split
  all_goals exact this

theorem trackEv_cq (pre : Snap) (t : Track) (e : Ev) :
    (trackEv pre t e).cancelledQueued = (match e with
      | .cancel sid => if sid ∈ pre.queue then sid :: t.cancelledQueued else t.cancelledQueued
      | _ => t.cancelledQueued) := by
  cases e <;> simp only [trackEv, completionOf] <;> repeat' split
  all_goals first | rfl | simp_all

/-- the trace invariant for the cancellation checks -/
structure CInv (cfg : Cfg) (st : St) (t : Track) : Prop where
  ti : TInv cfg st t
  qo : QO st
  cq : ∀ x ∈ t.cancelledQueued, Gone x st

theorem pairwise_lt_nodup {l : List Sid} (h : l.Pairwise (· < ·)) : l.Nodup :=
  h.imp (fun hlt => Nat.ne_of_lt hlt)

/-- the cancel check, from facts in `Prop` form -/
theorem cancelStep_of (pre : Snap) (t : Track) (e : Ev) (obs : List Ob) (post : Snap)
    (h1 : ∀ rid ps, Ob.produce rid ps ∈ obs → ∀ x ∈ payloadSids ps, x ∉ (trackEv pre t e).cancelledQueued)
    (h2 : ∀ sid, e = .cancel sid →
      (sid ∈ pre.queue → sid ∉ t.produced ∧ obs = [.fire sid (.err (.acancelled (some false)))] ∧
        post = { pre with queue := pre.queue.filter (· ≠ sid),
                          msgCount := pre.msgCount - (t.msgsOf sid).length,
                          byteCount := pre.byteCount - msgBytes (t.msgsOf sid),
                          outstanding := pre.outstanding.erase sid }) ∧
      (sid ∉ pre.queue → sid ∈ pre.outstanding →
        obs = [.fire sid (.err (.acancelled (some (!pre.idle))))] ∧
        post = { pre with outstanding := pre.outstanding.erase sid }) ∧
      (sid ∉ pre.queue → sid ∉ pre.outstanding → (∀ o ∈ obs, o = .badOp) ∧ post = pre)) :
    cancelStep pre t ⟨e, obs, post⟩ = true := by
  have p1 : obs.all (fun o => match o with
      | .produce _ ps => (payloadSids ps).all (· ∉ (trackEv pre t e).cancelledQueued)
      | _ => true) = true := by
    rw [List.all_eq_true]; intro o ho
    cases o with
    | produce rid ps =>
      rw [List.all_eq_true]; intro x hx
      exact decide_eq_true (h1 rid ps ho x hx)
    | _ => rfl
  unfold cancelStep
  rw [Bool.and_eq_true]
  refine ⟨p1, ?_⟩
  cases e with
  | cancel sid =>
    obtain ⟨a1, a2, a3⟩ := h2 sid rfl
    dsimp only
    by_cases hq : sid ∈ pre.queue
    · obtain ⟨b1, b2, b3⟩ := a1 hq
      rw [if_pos hq, b2, b3]
      simp [b1]
    · by_cases ho : sid ∈ pre.outstanding
      · obtain ⟨b2, b3⟩ := a2 hq ho
        rw [if_neg hq, if_pos ho, b2, b3]
        simp
      · obtain ⟨b2, b3⟩ := a3 hq ho
        rw [if_neg hq, if_neg ho, b3]
        simp only [beq_self_eq_true, Bool.and_true, List.all_eq_true, beq_iff_eq]
        exact b2
  | _ => rfl

theorem cinv_step (cfg : Cfg) (st : St) (t : Track) (e : Ev) (h : CInv cfg st t) :
    CInv cfg (step cfg st e).1 (track (snapOf st) t (mkStep cfg st e)) ∧
    cancelStep (snapOf st) t (mkStep cfg st e) = true ∧ detachStep cfg (snapOf st) t (mkStep cfg st e) = true := by
  obtain ⟨hti', _, _, _⟩ := tinv_step cfg st t (snapOf st) e h.ti
  have hqo' := step_qo cfg st e h.ti.g h.qo
  have hcq0 := trackEv_cq (snapOf st) t e
  have hcq' : (track (snapOf st) t (mkStep cfg st e)).cancelledQueued = (trackEv (snapOf st) t e).cancelledQueued :=
    track_cq _ _ _
  have hdet : detachStep cfg (snapOf st) t (mkStep cfg st e) = true := by
    simp only [detachStep, (fireRel_step cfg st t (snapOf st) e h.ti.fr).2, Bool.or_true]
  -- sends cancelled while queued stay away from every produce request
  have hold : ∀ x ∈ t.cancelledQueued, Gone x (step cfg st e).1 ∧
      ∀ rid ps, Ob.produce rid ps ∈ (step cfg st e).2 → x ∉ payloadSids ps :=
    fun x hx => gone_step cfg st e x (h.cq x hx)
  have hq_nodup : (st.queue.map (·.sid)).Nodup := pairwise_lt_nodup h.ti.g.q_inc
  -- no produce request in a cancel step
  have hnoprod : ∀ sid, e = .cancel sid → ∀ rid ps, Ob.produce rid ps ∉ (step cfg st e).2 := by
    intro sid he rid ps hm
    subst he
    have hsh : shapeOf (step cfg st (.cancel sid)).2 = [] := by
      simp only [step]; split
      · exact (cancelSend_spec st sid).2.1
      · simp [shapeOf, isShape]
    have : Ob.produce rid ps ∈ shapeOf (step cfg st (.cancel sid)).2 := List.mem_filter.mpr ⟨hm, rfl⟩
    rw [hsh] at this; cases this
  have h1 : ∀ rid ps, Ob.produce rid ps ∈ (step cfg st e).2 → ∀ x ∈ payloadSids ps,
      x ∉ (trackEv (snapOf st) t e).cancelledQueued := by
    intro rid ps hm x hx hc
    rw [hcq0] at hc
    cases e with
    | cancel sid => exact hnoprod sid rfl rid ps hm
    | _ => exact (hold x hc).2 rid ps hm hx
  have hcq'' : ∀ x ∈ (track (snapOf st) t (mkStep cfg st e)).cancelledQueued, Gone x (step cfg st e).1 := by
    intro x hx
    rw [hcq', hcq0] at hx
    cases e with
    | cancel sid =>
      simp only at hx
      split at hx
      · rename_i hq
        rcases List.mem_cons.mp hx with hx | hx
        · rw [hx]
          exact (cancel_gone cfg st sid h.ti.k hq (h.qo sid hq)).1
        · exact (hold x hx).1
      · exact (hold x hx).1
    | _ => exact (hold x hx).1
  refine ⟨⟨hti', hqo', hcq''⟩, ?_, hdet⟩
  apply cancelStep_of (snapOf st) t e (step cfg st e).2 (snapOf (step cfg st e).1) h1
  intro sid he
  subst he
  refine ⟨?_, ?_, ?_⟩
  · intro hq
    have hq' : sid ∈ queued st := hq
    have hlt : sid < st.nextSid := h.ti.k.lt sid (List.mem_append_right _ hq')
    have ho : sid ∈ st.outstanding := h.qo sid hq'
    obtain ⟨r, hr, hre⟩ := List.mem_map.mp hq'
    have hany : st.queue.any (·.sid = sid) = true := by
      rw [List.any_eq_true]; exact ⟨r, hr, by simp [hre]⟩
    have hfil : st.queue.filter (·.sid = sid) = [r] := by
      have := filter_sid_of_nodup st.queue r hq_nodup hr
      rw [hre] at this; exact this
    have hms : t.msgsOf sid = r.msgs := by
      have := msgsOf_of_mem t r h.ti.si.nodup (h.ti.si.q r hr)
      rw [hre] at this; exact this
    have hstep : step cfg st (.cancel sid) = cancelSend st sid := by simp [step, hlt]
    refine ⟨fun hc => Nat.lt_irrefl _ (h.ti.g.p_q sid hc sid hq'), ?_, ?_⟩
    · rw [hstep]; simp only [cancelSend, ho, hany, if_true]
    · rw [hstep]
      simp only [cancelSend, ho, hany, if_true, snapOf, hfil, hms, List.map_cons, List.map_nil, List.sum_cons,
        List.sum_nil, Int.add_zero, Snap.mk.injEq, and_true]
      rw [List.filter_map]
      rfl
  · intro hq ho
    have hq' : sid ∉ queued st := hq
    have ho' : sid ∈ st.outstanding := ho
    have hlt : sid < st.nextSid := h.ti.fr.once.lt sid ho'
    have hany : st.queue.any (·.sid = sid) = false := by
      rw [Bool.eq_false_iff]; intro hc
      rw [List.any_eq_true] at hc
      obtain ⟨r, hr, hre⟩ := hc
      exact hq' (List.mem_map.mpr ⟨r, hr, by simpa using hre⟩)
    have hstep : step cfg st (.cancel sid) = cancelSend st sid := by simp [step, hlt]
    rw [hstep]
    simp only [cancelSend, ho', hany, if_true, Bool.false_eq_true, if_false]
    exact ⟨rfl, rfl⟩
  · intro hq ho
    have ho' : sid ∉ st.outstanding := ho
    by_cases hlt : sid < st.nextSid
    · have hstep : step cfg st (.cancel sid) = (st, []) := by simp [step, hlt, cancelSend, ho']
      rw [hstep]; exact ⟨fun o hm => (by cases hm), rfl⟩
    · have hstep : step cfg st (.cancel sid) = (st, [.badOp]) := by simp [step, hlt]
      rw [hstep]; exact ⟨fun o hm => (by simpa using hm), rfl⟩


theorem cinv_init (cfg : Cfg) : CInv cfg (St.init cfg) {} :=
  ⟨tinv_init cfg, fun x hx => by simp [queued, St.init] at hx, fun x hx => by cases hx⟩

theorem cancel_from (cfg : Cfg) (evs : List Ev) (st : St) (t : Track) (h : CInv cfg st t) :
    checkFrom cancelStep (snapOf st) t (traceFrom cfg st evs) = true ∧
    checkFrom (detachStep cfg) (snapOf st) t (traceFrom cfg st evs) = true := by
  induction evs generalizing st t with
  | nil => exact ⟨rfl, rfl⟩
  | cons e rest ih =>
    obtain ⟨r1, r2, r3⟩ := cinv_step cfg st t e h
    obtain ⟨i1, i2⟩ := ih (step cfg st e).1 _ r1
    simp only [traceFrom, checkFrom, Bool.and_eq_true]
    exact ⟨⟨r2, i1⟩, ⟨r3, i2⟩⟩

theorem cancel_model (cfg : Cfg) (evs : List Ev) : Afkak.Monitor.C19.cancel cfg (traceOf cfg evs) = true :=
  (cancel_from cfg evs _ _ (cinv_init cfg)).1

theorem detach_model (cfg : Cfg) (evs : List Ev) : detach cfg (traceOf cfg evs) = true :=
  (cancel_from cfg evs _ _ (cinv_init cfg)).2

end Afkak.Producer
