import AfkakProofs.Producer.Fires
import AfkakProofs.Producer.Static
/-! Where the handlers of the Producer model land: resulting phase, counters, and the
produce / timer observations they make (the part of the observations the monitors' summary reads). -/
namespace Afkak.Producer
open Afkak.Consts Afkak.Monitor.ProducerTrace

/-- the observations that change more than `fired` in the monitors' summary -/
def isShape : Ob → Bool
  | .produce .. => true
  | .setTimer .. => true
  | _ => false

def shapeOf (obs : List Ob) : List Ob := obs.filter isShape

theorem shapeOf_append (a b : List Ob) : shapeOf (a ++ b) = shapeOf a ++ shapeOf b := by
  simp [shapeOf]

/-- all Deferreds fired in `obs` failed -/
def onlyErr (obs : List Ob) : Prop := ∀ s o, Ob.fire s o ∈ obs → ∃ k, o = .err k

theorem onlyErr_nil : onlyErr [] := by intro s o h; cases h
theorem onlyErr_append {a b : List Ob} (ha : onlyErr a) (hb : onlyErr b) : onlyErr (a ++ b) := by
  intro s o h
  rcases List.mem_append.mp h with h | h
  · exact ha s o h
  · exact hb s o h
theorem onlyErr_of_nofire {obs : List Ob} (h : ∀ s o, Ob.fire s o ∉ obs) : onlyErr obs := by
  intro s o hm; exact absurd hm (h s o)

def LPc.isBackoff : LPc → Bool
  | .waitBackoff _ => true
  | _ => false

/-- a batch as `_send_requests` creates it -/
structure Fresh (b : Batch) : Prop where
  cur : b.current = b.groups.map (·.tp)
  live : b.live = b.groups.map (·.tp)
  nodup : (b.groups.map (·.tp)).Nodup
  ne : b.groups ≠ []

/-! ### look-ups -/

theorem lookupHead_spec (cfg : Cfg) (st : St) (r : Req) :
    shapeOf (lookupHead cfg st r).2.2 = [] ∧ (lookupHead cfg st r).2.1.isBackoff = false ∧
    (lookupHead cfg st r).1.attempts = st.attempts ∧ (lookupHead cfg st r).1.interval = st.interval ∧
    (lookupHead cfg st r).1.phase = st.phase ∧ (lookupHead cfg st r).1.nextTid = st.nextTid ∧
    (st.stopping = true → st.attempts ≥ cfg.maxAttempts ∨ metaErr st r.topic = 0 → True) := by
  have hf := lookupHead_frame cfg st r
  refine ⟨?_, ?_, by rw [hf], by rw [hf], by rw [hf], by rw [hf], fun _ _ => trivial⟩
  · simp only [lookupHead]; repeat' split
    all_goals simp [shapeOf, isShape]
  · simp only [lookupHead]; repeat' split
    all_goals simp [LPc.isBackoff]

theorem startLookups_spec (cfg : Cfg) (st : St) (rs : List Req) :
    shapeOf (startLookups cfg st rs).2.2 = [] ∧
    (∀ l ∈ (startLookups cfg st rs).2.1, l.pc.isBackoff = false) ∧
    (startLookups cfg st rs).2.1.map (·.req) = rs := by
  induction rs generalizing st with
  | nil => simp [startLookups, shapeOf]
  | cons r rest ih =>
    obtain ⟨h1, h2, h3⟩ := ih (lookupHead cfg st r).1
    obtain ⟨g1, g2, _⟩ := lookupHead_spec cfg st r
    simp only [startLookups]
    refine ⟨by rw [shapeOf_append, g1, h1]; rfl, ?_, by simp [h3]⟩
    intro l hl
    rcases List.mem_cons.mp hl with h | h
    · subst h; exact g2
    · exact h2 l h

/-! ### `_send_requests` -/

theorem addToGroups_tps_nodup (gs : List Payload) (tp : TP) (sid : Sid) (ms : List Msg) (h : (gs.map (·.tp)).Nodup) :
    ((addToGroups gs tp sid ms).map (·.tp)).Nodup := by
  simp only [addToGroups]
  split
  · have : (gs.map (fun g => if g.tp = tp then { g with sids := g.sids ++ [sid], msgs := g.msgs ++ ms } else g)).map (·.tp) = gs.map (·.tp) := by
      rw [List.map_map]; apply List.map_congr_left; intro g _; simp only [Function.comp]; split <;> rfl
    rw [this]; exact h
  · rename_i hn
    rw [List.map_append, List.nodup_append]
    refine ⟨h, by simp, ?_⟩
    intro a ha b hb hab
    simp at hb; subst hb; subst hab
    apply hn
    obtain ⟨g, hg, hga⟩ := List.mem_map.mp ha
    simp only [List.any_eq_true, decide_eq_true_eq]
    exact ⟨g, hg, hga⟩

theorem procResults_spec (ls : List Lookup) (out : List Sid) (gs : List Payload) (h : (gs.map (·.tp)).Nodup) :
    ((procResults ls out gs).2.1.map (·.tp)).Nodup ∧ onlyErr (procResults ls out gs).2.2 ∧
    shapeOf (procResults ls out gs).2.2 = [] := by
  induction ls generalizing out gs with
  | nil => simp [procResults, onlyErr_nil, shapeOf, h]
  | cons l rest ih =>
    simp only [procResults]
    split
    · split
      · exact ih _ _ (addToGroups_tps_nodup gs _ _ _ h)
      · obtain ⟨h1, h2, h3⟩ := ih (out.erase l.req.sid) gs h
        refine ⟨h1, ?_, by rw [show ∀ (x : Ob) (l : List Ob), x :: l = [x] ++ l from fun _ _ => rfl, shapeOf_append, h3]; simp [shapeOf, isShape]⟩
        intro s o hm
        rcases List.mem_cons.mp hm with hm | hm
        · injection hm with _ ho; exact ⟨_, ho⟩
        · exact h2 s o hm
      · exact ih _ _ h
    · exact ih _ _ h

theorem sendRequests_spec (st : St) (ls : List Lookup) :
    onlyErr (sendRequests st ls).2.1 ∧ (sendRequests st ls).1.interval = st.interval ∧
    (sendRequests st ls).1.nextTid = st.nextTid ∧
    (((sendRequests st ls).2.2 = true ∧ (sendRequests st ls).1.phase = st.phase ∧
        (sendRequests st ls).1.attempts = st.attempts ∧ shapeOf (sendRequests st ls).2.1 = []) ∨
     ((sendRequests st ls).2.2 = false ∧ st.stopping = false ∧ ∃ b, (sendRequests st ls).1.phase = .sending st.nextRid b ∧ Fresh b ∧
        (sendRequests st ls).1.attempts = st.attempts + 1 ∧
        shapeOf (sendRequests st ls).2.1 = [.produce st.nextRid b.groups])) := by
  obtain ⟨p1, p2, p3⟩ := procResults_spec ls st.outstanding [] (by simp)
  simp only [sendRequests]
  split
  · exact ⟨onlyErr_nil, rfl, rfl, Or.inl ⟨rfl, rfl, rfl, rfl⟩⟩
  · rename_i hs
    split
    · exact ⟨p2, rfl, rfl, Or.inl ⟨rfl, rfl, rfl, p3⟩⟩
    · rename_i hg
      refine ⟨?_, rfl, rfl, Or.inr ⟨rfl, by simpa using hs, _, rfl, ⟨rfl, rfl, p1, ?_⟩, rfl, ?_⟩⟩
      · apply onlyErr_append p2
        intro s o hm; simp at hm
      · intro hc; exact hg (by simpa using hc)
      · rw [shapeOf_append, p3]; simp [shapeOf, isShape]

end Afkak.Producer

namespace Afkak.Producer
open Afkak.Consts Afkak.Monitor.ProducerTrace

/-- where `_send_batch` (possibly running `_send_requests` at once) leaves the producer, starting
    with `_req_attempts = att0` and `_retry_interval = iv0` -/
inductive Landed (cfg : Cfg) (att0 : Int) (iv0 : Rat) (nt0 : Tid) (st' : St) (obs : List Ob) : Prop
  | idle : st'.phase = .idle → st'.attempts = 0 → st'.interval = cfg.initInterval → shapeOf obs = [] →
      Landed cfg att0 iv0 nt0 st' obs
  | lookups (ls : List Lookup) : st'.phase = .lookups ls → (∀ l ∈ ls, l.pc.isBackoff = false) →
      ls.all (·.pc.isDone) = false →
      st'.attempts = att0 → st'.interval = iv0 → shapeOf obs = [] → Landed cfg att0 iv0 nt0 st' obs
  | sending (rid : Rid) (b : Batch) : st'.phase = .sending rid b → Fresh b → st'.attempts = att0 + 1 →
      st'.interval = iv0 → shapeOf obs = [.produce rid b.groups] → st'.stopping = false →
      Landed cfg att0 iv0 nt0 st' obs

theorem dispatch_spec (cfg : Cfg) (st : St) :
    Landed cfg st.attempts st.interval st.nextTid (dispatch cfg st).1 (dispatch cfg st).2 ∧
    onlyErr (dispatch cfg st).2 ∧ (dispatch cfg st).1.nextTid = st.nextTid := by
  obtain ⟨s1, s2, _⟩ := startLookups_spec cfg { st with queue := [], msgCount := 0, byteCount := 0 } st.queue
  have hf := startLookups_frame cfg { st with queue := [], msgCount := 0, byteCount := 0 } st.queue
  have hne : onlyErr (startLookups cfg { st with queue := [], msgCount := 0, byteCount := 0 } st.queue).2.2 := by
    apply onlyErr_of_nofire
    intro s o hm
    have := startLookups_nofire cfg { st with queue := [], msgCount := 0, byteCount := 0 } st.queue
    have hm' : s ∈ firedSids (startLookups cfg { st with queue := [], msgCount := 0, byteCount := 0 } st.queue).2.2 := by
      simp only [firedSids, List.mem_filterMap]; exact ⟨_, hm, rfl⟩
    rw [this] at hm'; cases hm'
  simp only [dispatch]
  split
  · obtain ⟨q1, q2, q3, q4⟩ := sendRequests_spec
      { (startLookups cfg { st with queue := [], msgCount := 0, byteCount := 0 } st.queue).1 with
        phase := .lookups (startLookups cfg { st with queue := [], msgCount := 0, byteCount := 0 } st.queue).2.1 }
      (startLookups cfg { st with queue := [], msgCount := 0, byteCount := 0 } st.queue).2.1
    rcases q4 with ⟨r1, _, _, r4⟩ | ⟨r1, r0, b, r2, r3, r4, r5⟩
    · rw [r1]; simp only [if_true]
      refine ⟨.idle rfl rfl rfl (by rw [shapeOf_append, s1, r4]; rfl), onlyErr_append hne q1, ?_⟩
      simp only [resetBatch]; rw [q3, hf]
    · rw [r1]; simp only [Bool.false_eq_true, if_false]
      refine ⟨.sending _ b r2 r3 (by rw [r4, hf]) (by rw [q2, hf]) (by rw [shapeOf_append, s1, r5]; rfl) ?_, onlyErr_append hne q1, ?_⟩
      · rw [(sendRequests_stat _ _).2.1]; exact r0
      · rw [q3, hf]
  · rename_i hd
    refine ⟨.lookups _ rfl s2 (by simpa using hd) (by rw [hf]) (by rw [hf]) s1, hne, by rw [hf]⟩

/-- … or nothing happened -/
def LandedOr (cfg : Cfg) (st st' : St) (obs : List Ob) : Prop :=
  (st' = st ∧ obs = []) ∨
  (st.phase = .idle ∧ st.stopping = false ∧ st.queue ≠ [] ∧ Landed cfg st.attempts st.interval st.nextTid st' obs)

theorem sendBatch_spec (cfg : Cfg) (st : St) :
    LandedOr cfg st (sendBatch cfg st).1 (sendBatch cfg st).2 ∧ onlyErr (sendBatch cfg st).2 ∧
    (sendBatch cfg st).1.nextTid = st.nextTid := by
  simp only [sendBatch]
  split
  · rename_i h
    simp only [canDispatch, Bool.and_eq_true, Bool.not_eq_eq_eq_not, Bool.not_true, beq_iff_eq] at h
    obtain ⟨d1, d2, d3⟩ := dispatch_spec cfg st
    refine ⟨Or.inr ⟨h.1.2, h.2, ?_, d1⟩, d2, d3⟩
    intro hc; rw [hc] at h; simp at h
  · exact ⟨Or.inl ⟨rfl, rfl⟩, onlyErr_nil, rfl⟩

theorem checkSendBatch_spec (cfg : Cfg) (st : St) :
    LandedOr cfg st (checkSendBatch cfg st).1 (checkSendBatch cfg st).2 ∧ onlyErr (checkSendBatch cfg st).2 ∧
    (checkSendBatch cfg st).1.nextTid = st.nextTid := by
  simp only [checkSendBatch]
  split
  · exact sendBatch_spec cfg st
  · exact ⟨Or.inl ⟨rfl, rfl⟩, onlyErr_nil, rfl⟩

theorem completeBatch_spec (cfg : Cfg) (st : St) :
    Landed cfg 0 cfg.initInterval st.nextTid (completeBatch cfg st).1 (completeBatch cfg st).2 ∧
    onlyErr (completeBatch cfg st).2 ∧ (completeBatch cfg st).1.nextTid = st.nextTid := by
  simp only [completeBatch]
  obtain ⟨h1, h2, h3⟩ := checkSendBatch_spec cfg (resetBatch cfg st)
  refine ⟨?_, h2, h3⟩
  rcases h1 with ⟨e1, e2⟩ | ⟨_, _, _, l⟩
  · rw [e1, e2]; exact .idle rfl rfl rfl rfl
  · exact l

end Afkak.Producer

namespace Afkak.Producer
open Afkak.Consts Afkak.Monitor.ProducerTrace

/-! ### `_handle_send_response` -/

theorem deliver_fires (out sids : List Sid) (o : Outcome) :
    ∀ s o', Ob.fire s o' ∈ (deliver out sids o).2 → o' = o ∧ s ∈ sids := by
  induction sids generalizing out with
  | nil => intro s o' h; simp [deliver] at h
  | cons a rest ih =>
    intro s o' h
    simp only [deliver] at h
    split at h
    · rcases List.mem_cons.mp h with h | h
      · injection h with h1 h2; exact ⟨h2, by simp [h1]⟩
      · obtain ⟨h1, h2⟩ := ih _ s o' h; exact ⟨h1, List.mem_cons_of_mem _ h2⟩
    · obtain ⟨h1, h2⟩ := ih _ s o' h; exact ⟨h1, List.mem_cons_of_mem _ h2⟩

theorem deliver_shape (out sids : List Sid) (o : Outcome) : shapeOf (deliver out sids o).2 = [] := by
  induction sids generalizing out with
  | nil => simp [deliver, shapeOf]
  | cons a rest ih =>
    simp only [deliver]; split
    · simp only [shapeOf, List.filter_cons, isShape]; exact ih _
    · exact ih _

theorem deliverMany_fires (out : List Sid) (l : List (List Sid × Outcome)) :
    ∀ s o, Ob.fire s o ∈ (deliverMany out l).2 → ∃ sids, (sids, o) ∈ l ∧ s ∈ sids := by
  induction l generalizing out with
  | nil => intro s o h; simp [deliverMany] at h
  | cons x rest ih =>
    obtain ⟨sids, o0⟩ := x
    intro s o h
    simp only [deliverMany] at h
    rcases List.mem_append.mp h with h | h
    · obtain ⟨h1, h2⟩ := deliver_fires _ _ _ s o h
      exact ⟨sids, by simp [h1], h2⟩
    · obtain ⟨sids', h1, h2⟩ := ih _ s o h
      exact ⟨sids', List.mem_cons_of_mem _ h1, h2⟩

theorem deliverMany_shape (out : List Sid) (l : List (List Sid × Outcome)) : shapeOf (deliverMany out l).2 = [] := by
  induction l generalizing out with
  | nil => simp [deliverMany, shapeOf]
  | cons x rest ih =>
    obtain ⟨sids, o0⟩ := x
    simp only [deliverMany, shapeOf_append, deliver_shape, ih, List.append_nil]

/-- what `_handle_send_response` may fire -/
def RespFires (cfg : Cfg) (b : Batch) (r : ProdRes) (obs : List Ob) : Prop :=
  ∀ s o, Ob.fire s o ∈ obs →
    (∃ resp, o = .ok resp ∧ resp ∈ respsOf r ∧ resp.error = 0 ∧ s ∈ b.sidsOf resp.tp) ∨
    (o = .okNone ∧ cfg.acks = producerAckNotRequired ∧ s ∈ b.allSids) ∨
    (∃ k, o = .err k)

/-- the batch with only the payloads `tps` still listed for a retry -/
def Batch.keep (b : Batch) (tps : List TP) : Batch :=
  { b with live := b.live.filter (fun tp => decide (tp ∈ tps)) }

theorem keep_eq (b : Batch) (failed : List FailedP) :
    ({ b with live := b.live.filter (fun tp => failed.any (·.tp = tp)) } : Batch) = b.keep (failed.map (·.tp)) := by
  simp only [Batch.keep]
  congr 1
  apply List.filter_congr
  intro tp _
  simp only [List.any_eq, List.mem_map, decide_eq_true_eq]

/-- how `_handle_send_response` ends: resolved, or waiting on a retry timer -/
inductive Handled (cfg : Cfg) (st : St) (b : Batch) (r : ProdRes) (st' : St) (obs : List Ob) : Bool → Prop
  | resolved : st'.phase = st.phase → st'.attempts = st.attempts → st'.interval = st.interval →
      st'.nextTid = st.nextTid → shapeOf obs = [] → Handled cfg st b r st' obs true
  | retry : st'.phase = .retryWait st.nextTid (b.keep (failedTps b.live r)) (failedTps b.live r) →
      failedTps b.live r ≠ [] →
      st'.attempts = st.attempts → st.attempts < cfg.maxAttempts → st.stopping = false →
      st'.interval = st.interval * producerRetryFactor → st'.nextTid = st.nextTid + 1 →
      shapeOf obs = [.setTimer st.nextTid st.interval] → Handled cfg st b r st' obs false

theorem checkRetry_spec (cfg : Cfg) (st : St) (b : Batch) (f : List FailedP) (_hne : f ≠ []) :
    (∀ s o, Ob.fire s o ∈ (checkRetry cfg st b f).2.1 →
      (∃ k, o = .err k) ∨ (o = .okNone ∧ cfg.acks = producerAckNotRequired ∧ s ∈ b.allSids)) ∧
    (((checkRetry cfg st b f).2.2 = true ∧ (checkRetry cfg st b f).1.phase = st.phase ∧
      (checkRetry cfg st b f).1.attempts = st.attempts ∧ (checkRetry cfg st b f).1.interval = st.interval ∧
      (checkRetry cfg st b f).1.nextTid = st.nextTid ∧ shapeOf (checkRetry cfg st b f).2.1 = []) ∨
     ((checkRetry cfg st b f).2.2 = false ∧ (checkRetry cfg st b f).1.phase = .retryWait st.nextTid b (f.map (·.tp)) ∧
      (checkRetry cfg st b f).1.attempts = st.attempts ∧ st.attempts < cfg.maxAttempts ∧ st.stopping = false ∧
      (checkRetry cfg st b f).1.interval = st.interval * producerRetryFactor ∧
      (checkRetry cfg st b f).1.nextTid = st.nextTid + 1 ∧
      shapeOf (checkRetry cfg st b f).2.1 = [.setTimer st.nextTid st.interval])) := by
  simp only [checkRetry]
  split
  · exact ⟨fun s o h => by simp at h, Or.inl ⟨rfl, rfl, rfl, rfl, rfl, rfl⟩⟩
  · rename_i hs
    split
    · have e1 : ∀ s o, Ob.fire s o ∈ (deliverMany st.outstanding (f.map (fun f => (b.sidsOf f.tp, Outcome.err f.kind)))).2 →
          ∃ k, o = .err k := by
        intro s o h
        obtain ⟨sids, h1, _⟩ := deliverMany_fires _ _ s o h
        obtain ⟨x, _, hx⟩ := List.mem_map.mp h1
        injection hx with _ ho
        exact ⟨_, ho.symm⟩
      split
      · rename_i ha0
        refine ⟨?_, Or.inl ⟨rfl, rfl, rfl, rfl, rfl, by rw [shapeOf_append, deliverMany_shape, deliver_shape]; rfl⟩⟩
        intro s o h
        rcases List.mem_append.mp h with h | h
        · exact Or.inl (e1 s o h)
        · obtain ⟨h1, h2⟩ := deliver_fires _ _ _ s o h
          exact Or.inr ⟨h1, ha0, h2⟩
      · refine ⟨?_, Or.inl ⟨rfl, rfl, rfl, rfl, rfl, by rw [List.append_nil]; exact deliverMany_shape _ _⟩⟩
        intro s o h
        rw [List.append_nil] at h
        exact Or.inl (e1 s o h)
    · rename_i ha
      refine ⟨?_, Or.inr ⟨rfl, rfl, rfl, by omega, by simpa using hs, rfl, rfl, ?_⟩⟩
      · intro s o h; split at h <;> simp at h
      · split <;> simp [shapeOf, isShape, List.filter_cons]

end Afkak.Producer

namespace Afkak.Producer
open Afkak.Consts Afkak.Monitor.ProducerTrace

theorem handleResults_spec (cfg : Cfg) (st : St) (b : Batch) (rs : List Resp) (fs : List FailedP) :
    (∀ s o, Ob.fire s o ∈ (handleResults cfg st b rs fs).2.1 →
      (∃ resp, o = .ok resp ∧ resp ∈ rs ∧ resp.error = 0 ∧ s ∈ b.sidsOf resp.tp) ∨ (∃ k, o = .err k) ∨
      (o = .okNone ∧ cfg.acks = producerAckNotRequired ∧ s ∈ b.allSids)) ∧
    (((handleResults cfg st b rs fs).2.2 = true ∧ (handleResults cfg st b rs fs).1.phase = st.phase ∧
      (handleResults cfg st b rs fs).1.attempts = st.attempts ∧ (handleResults cfg st b rs fs).1.interval = st.interval ∧
      (handleResults cfg st b rs fs).1.nextTid = st.nextTid ∧ shapeOf (handleResults cfg st b rs fs).2.1 = []) ∨
     ((handleResults cfg st b rs fs).2.2 = false ∧
      (handleResults cfg st b rs fs).1.phase = .retryWait st.nextTid
        (b.keep (fs.map (·.tp) ++ (rs.filter (·.error ≠ 0)).map (·.tp)))
        (fs.map (·.tp) ++ (rs.filter (·.error ≠ 0)).map (·.tp)) ∧
      (fs.map (·.tp) ++ (rs.filter (·.error ≠ 0)).map (·.tp)) ≠ [] ∧
      (handleResults cfg st b rs fs).1.attempts = st.attempts ∧ st.attempts < cfg.maxAttempts ∧ st.stopping = false ∧
      (handleResults cfg st b rs fs).1.interval = st.interval * producerRetryFactor ∧
      (handleResults cfg st b rs fs).1.nextTid = st.nextTid + 1 ∧
      shapeOf (handleResults cfg st b rs fs).2.1 = [.setTimer st.nextTid st.interval])) := by
  have good : ∀ s o, Ob.fire s o ∈ (deliverMany st.outstanding
      ((rs.filter (·.error = 0)).map (fun r => (b.sidsOf r.tp, Outcome.ok r)))).2 →
      (∃ resp, o = .ok resp ∧ resp ∈ rs ∧ resp.error = 0 ∧ s ∈ b.sidsOf resp.tp) := by
    intro s o h
    obtain ⟨sids, h1, h2⟩ := deliverMany_fires _ _ s o h
    obtain ⟨x, hx, hxe⟩ := List.mem_map.mp h1
    injection hxe with e1 e2
    have := List.mem_filter.mp hx
    exact ⟨x, e2.symm, this.1, by simpa using this.2, by rw [← e1] at h2; exact h2⟩
  simp only [handleResults]
  split
  · refine ⟨fun s o h => Or.inl (good s o h), Or.inl ⟨rfl, rfl, rfl, rfl, rfl, deliverMany_shape _ _⟩⟩
  · rename_i hf
    have hne : fs ++ (rs.filter (·.error ≠ 0)).map (fun r => (⟨r.tp, .broker r.error, false⟩ : FailedP)) ≠ [] := by
      intro hc; rw [hc] at hf; simp at hf
    obtain ⟨c1, c2⟩ := checkRetry_spec cfg
      { st with outstanding := (deliverMany st.outstanding ((rs.filter (·.error = 0)).map (fun r => (b.sidsOf r.tp, Outcome.ok r)))).1 }
      { b with live := b.live.filter (fun tp => (fs ++ (rs.filter (·.error ≠ 0)).map (fun r => (⟨r.tp, .broker r.error, false⟩ : FailedP))).any (·.tp = tp)) } _ hne
    dsimp only
    refine ⟨?_, ?_⟩
    · intro s o h
      rcases List.mem_append.mp h with h | h
      · exact Or.inl (good s o h)
      · rcases c1 s o h with hk | ⟨h1, h2, h3⟩
        · exact Or.inr (Or.inl hk)
        · exact Or.inr (Or.inr ⟨h1, h2, by simpa [Batch.allSids] using h3⟩)
    · rcases c2 with ⟨d1, d2, d3, d4, d5, d6⟩ | ⟨d1, d2, d3, d4, d5, d6, d7, d8⟩
      · exact Or.inl ⟨d1, d2, d3, d4, d5, by rw [shapeOf_append, deliverMany_shape]; exact d6⟩
      · refine Or.inr ⟨d1, ?_, ?_, d3, d4, d5, d6, d7, by rw [shapeOf_append, deliverMany_shape]; exact d8⟩
        · refine Eq.trans d2 ?_
          rw [keep_eq]
          simp [List.map_append, List.map_map, Function.comp_def]
        · intro hc
          apply hne
          simp only [List.append_eq_nil_iff, List.map_eq_nil_iff] at hc ⊢
          exact hc

end Afkak.Producer

namespace Afkak.Producer
open Afkak.Consts Afkak.Monitor.ProducerTrace

theorem deliverAll_spec (st : St) (b : Batch) (o : Outcome) :
    (∀ s o', Ob.fire s o' ∈ (deliverAll st b o).2.1 → o' = o ∧ s ∈ b.allSids) ∧
    (deliverAll st b o).2.2 = true ∧ (deliverAll st b o).1.phase = st.phase ∧
    (deliverAll st b o).1.attempts = st.attempts ∧ (deliverAll st b o).1.interval = st.interval ∧
    (deliverAll st b o).1.nextTid = st.nextTid ∧ shapeOf (deliverAll st b o).2.1 = [] := by
  unfold deliverAll
  exact ⟨deliver_fires _ _ _, rfl, rfl, rfl, rfl, rfl, deliver_shape _ _ _⟩

theorem handleSendResponse_spec (cfg : Cfg) (st : St) (b : Batch) (r : ProdRes) :
    RespFires cfg b r (handleSendResponse cfg st b r).2.1 ∧
    Handled cfg st b r (handleSendResponse cfg st b r).1 (handleSendResponse cfg st b r).2.1
      (handleSendResponse cfg st b r).2.2 := by
  have all : ∀ o, (o = .okNone → cfg.acks = producerAckNotRequired ∧ (r = .none ∨ r = .responses [])) →
      (∀ k, o ≠ .ok k) → (∀ k, o ≠ .okExc k) →
      RespFires cfg b r (deliverAll st b o).2.1 ∧ Handled cfg st b r (deliverAll st b o).1 (deliverAll st b o).2.1 (deliverAll st b o).2.2 := by
    intro o h1 h2 h3
    obtain ⟨d1, d2, d3, d4, d5, d6, d7⟩ := deliverAll_spec st b o
    refine ⟨?_, by rw [d2]; exact .resolved d3 d4 d5 d6 d7⟩
    intro s o' hm
    obtain ⟨e1, e2⟩ := d1 s o' hm
    subst e1
    cases o' with
    | ok k => exact absurd rfl (h2 k)
    | okNone => exact Or.inr (Or.inl ⟨rfl, (h1 rfl).1, e2⟩)
    | okExc k => exact absurd rfl (h3 k)
    | err k => exact Or.inr (Or.inr ⟨k, rfl⟩)
  have res : ∀ rs fs, respsOf r = rs → (∀ live, failedTps live r = fs.map (·.tp) ++ (rs.filter (·.error ≠ 0)).map (·.tp)) →
      RespFires cfg b r (handleResults cfg st b rs fs).2.1 ∧
      Handled cfg st b r (handleResults cfg st b rs fs).1 (handleResults cfg st b rs fs).2.1 (handleResults cfg st b rs fs).2.2 := by
    intro rs fs hr hft
    obtain ⟨h1, h2⟩ := handleResults_spec cfg st b rs fs
    refine ⟨?_, ?_⟩
    · intro s o hm
      rcases h1 s o hm with ⟨resp, e1, e2, e3, e4⟩ | h | h
      · exact Or.inl ⟨resp, e1, by rw [hr]; exact e2, e3, e4⟩
      · exact Or.inr (Or.inr h)
      · exact Or.inr (Or.inl h)
    · rcases h2 with ⟨d1, d2, d3, d4, d5, d6⟩ | ⟨d1, d2, d3, d4, d5, d6, d7, d8, d9⟩
      · rw [d1]; exact .resolved d2 d3 d4 d5 d6
      · rw [d1]
        exact .retry (by rw [d2, hft]) (by rw [hft]; exact d3) d4 d5 d6 d7 d8 d9
  cases r with
  | none =>
    simp only [handleSendResponse]
    apply all
    · intro h; split at h
      · rename_i ha; exact ⟨ha, Or.inl rfl⟩
      · cases h
    · intro k; split <;> simp
    · intro k; split <;> simp
  | responses rs =>
    cases rs with
    | nil =>
      simp only [handleSendResponse]
      apply all
      · intro h; split at h
        · rename_i ha; exact ⟨ha, Or.inr rfl⟩
        · cases h
      · intro k; split <;> simp
      · intro k; split <;> simp
    | cons x rest =>
      simp only [handleSendResponse]
      exact res (x :: rest) [] rfl (by intro live; simp [failedTps])
  | failed rs fs =>
    simp only [handleSendResponse]
    exact res rs fs rfl (by intro live; simp [failedTps])
  | err k =>
    simp only [handleSendResponse]
    split
    · obtain ⟨h1, h2⟩ := handleResults_spec cfg st b [] (b.live.map (fun tp => ⟨tp, k, true⟩))
      refine ⟨?_, ?_⟩
      · intro s o hm
        rcases h1 s o hm with ⟨resp, _, e2, _, _⟩ | h | h
        · cases e2
        · exact Or.inr (Or.inr h)
        · exact Or.inr (Or.inl h)
      · rcases h2 with ⟨d1, d2, d3, d4, d5, d6⟩ | ⟨d1, d2, d3, d4, d5, d6, d7, d8, d9⟩
        · rw [d1]; exact .resolved d2 d3 d4 d5 d6
        · rw [d1]
          have e : (b.live.map (fun tp => (⟨tp, k, true⟩ : FailedP))).map (·.tp) ++
              (([] : List Resp).filter (·.error ≠ 0)).map (·.tp) = b.live := by simp [List.map_map, Function.comp_def]
          rw [e] at d2 d3
          refine .retry ?_ ?_ d4 d5 d6 d7 d8 d9
          · simpa [failedTps] using d2
          · simpa [failedTps] using d3
    · apply all
      · intro h; cases h
      · intro k'; simp
      · intro k'; simp

/-! ### what firing removes -/

theorem deliver_removes (out sids : List Sid) (o : Outcome) (hn : out.Nodup) :
    ∀ x ∈ (deliver out sids o).1, x ∉ sids := by
  induction sids generalizing out with
  | nil => intro x _ h; cases h
  | cons s rest ih =>
    intro x hx hc
    simp only [deliver] at hx
    split at hx
    · have hsub := (deliver_fd (out.erase s) rest o).sub x hx
      rcases List.mem_cons.mp hc with h | h
      · subst h; exact hn.not_mem_erase hsub
      · exact ih _ (hn.erase s) x hx h
    · rename_i hs
      rcases List.mem_cons.mp hc with h | h
      · subst h; exact hs ((deliver_fd out rest o).sub x hx)
      · exact ih _ hn x hx h

theorem deliverMany_removes (out : List Sid) (l : List (List Sid × Outcome)) (hn : out.Nodup) :
    ∀ x ∈ (deliverMany out l).1, ∀ sids o, (sids, o) ∈ l → x ∉ sids := by
  induction l generalizing out with
  | nil => intro x _ sids o h; cases h
  | cons a rest ih =>
    obtain ⟨s0, o0⟩ := a
    intro x hx sids o hm
    simp only [deliverMany] at hx
    rcases List.mem_cons.mp hm with h | h
    · injection h with h1 h2; subst h1
      exact deliver_removes out sids o0 hn x ((deliverMany_fd _ rest).sub x hx)
    · exact ih _ ((deliver_fd out s0 o0).nodup hn) x hx sids o h

/-! ### success without a value (acks = 0) is for what was handed over -/

theorem deliver_fires_out (out sids : List Sid) (o : Outcome) :
    ∀ s o', Ob.fire s o' ∈ (deliver out sids o).2 → s ∈ out := by
  induction sids generalizing out with
  | nil => intro s o' h; simp [deliver] at h
  | cons a rest ih =>
    intro s o' h
    simp only [deliver] at h
    split at h
    · rename_i ha
      rcases List.mem_cons.mp h with h | h
      · injection h with h1 _; rw [h1]; exact ha
      · exact List.mem_of_mem_erase (ih _ s o' h)
    · exact ih _ s o' h

theorem checkRetry_okNone (cfg : Cfg) (st : St) (b : Batch) (f : List FailedP) (hnd : st.outstanding.Nodup) :
    ∀ s, Ob.fire s .okNone ∈ (checkRetry cfg st b f).2.1 →
      cfg.maxAttempts ≤ st.attempts ∧ ∀ x ∈ f, s ∉ b.sidsOf x.tp := by
  intro s hm
  simp only [checkRetry] at hm
  split at hm
  · simp at hm
  · split at hm
    · rename_i ha
      rcases List.mem_append.mp hm with h | h
      · obtain ⟨sids, h1, _⟩ := deliverMany_fires _ _ s _ h
        obtain ⟨x, _, hx⟩ := List.mem_map.mp h1
        injection hx with _ ho; cases ho
      · split at h
        · have hs := deliver_fires_out _ _ _ s _ h
          refine ⟨ha, ?_⟩
          intro x hx
          exact deliverMany_removes _ _ hnd s hs (b.sidsOf x.tp) (.err x.kind) (List.mem_map.mpr ⟨x, hx, rfl⟩)
        · simp at h
    · split at hm <;> simp at hm

theorem handleResults_okNone (cfg : Cfg) (st : St) (b : Batch) (rs : List Resp) (fs : List FailedP)
    (hnd : st.outstanding.Nodup) :
    ∀ s, Ob.fire s .okNone ∈ (handleResults cfg st b rs fs).2.1 →
      cfg.maxAttempts ≤ st.attempts ∧
      ∀ tp ∈ fs.map (·.tp) ++ (rs.filter (·.error ≠ 0)).map (·.tp), s ∉ b.sidsOf tp := by
  intro s hm
  have good : ∀ o, Ob.fire s o ∈ (deliverMany st.outstanding
      ((rs.filter (·.error = 0)).map (fun r => (b.sidsOf r.tp, Outcome.ok r)))).2 → ∃ r, o = .ok r := by
    intro o h
    obtain ⟨sids, h1, _⟩ := deliverMany_fires _ _ s o h
    obtain ⟨x, _, hxe⟩ := List.mem_map.mp h1
    injection hxe with _ e2
    exact ⟨x, e2.symm⟩
  simp only [handleResults] at hm
  split at hm
  · obtain ⟨r, hr⟩ := good _ hm; cases hr
  · dsimp only at hm
    rcases List.mem_append.mp hm with h | h
    · obtain ⟨r, hr⟩ := good _ h; cases hr
    · obtain ⟨c1, c2⟩ := checkRetry_okNone cfg _ _ _ ((deliverMany_fd _ _).nodup hnd) s h
      refine ⟨c1, ?_⟩
      intro tp htp
      rcases List.mem_append.mp htp with h1 | h1
      · obtain ⟨x, hx, hxt⟩ := List.mem_map.mp h1
        have := c2 x (List.mem_append_left _ hx)
        rw [hxt] at this; exact this
      · obtain ⟨x, hx, hxt⟩ := List.mem_map.mp h1
        have := c2 ⟨x.tp, .broker x.error, false⟩ (List.mem_append_right _ (List.mem_map.mpr ⟨x, hx, rfl⟩))
        rw [hxt] at this; exact this

/-- `None` as a success value: only for the empty answer, or when the answer ends the batch for good (no attempt
    left) and the send rides on none of the payloads it reports failed -/
theorem handleSendResponse_okNone (cfg : Cfg) (st : St) (b : Batch) (r : ProdRes) (hnd : st.outstanding.Nodup) :
    ∀ s, Ob.fire s .okNone ∈ (handleSendResponse cfg st b r).2.1 →
      (r = .none ∨ r = .responses []) ∨
      (cfg.maxAttempts ≤ st.attempts ∧ ∀ tp ∈ failedTps b.live r, s ∉ b.sidsOf tp) := by
  intro s hm
  cases r with
  | none => exact Or.inl (Or.inl rfl)
  | responses rs =>
    cases rs with
    | nil => exact Or.inl (Or.inr rfl)
    | cons x rest =>
      simp only [handleSendResponse] at hm
      have := handleResults_okNone cfg st b (x :: rest) [] hnd s hm
      exact Or.inr (by simpa [failedTps] using this)
  | failed rs fs =>
    simp only [handleSendResponse] at hm
    exact Or.inr (by simpa [failedTps] using handleResults_okNone cfg st b rs fs hnd s hm)
  | err k =>
    simp only [handleSendResponse] at hm
    split at hm
    · have := handleResults_okNone cfg st b [] (b.live.map (fun tp => ⟨tp, k, true⟩)) hnd s hm
      exact Or.inr (by simpa [failedTps, List.map_map, Function.comp_def] using this)
    · obtain ⟨h1, _⟩ := (deliverAll_spec st b (.err k)).1 s _ hm
      cases h1

/-- after `finish`: either the handler left a retry pending, or the completion hook ran -/
theorem finish_spec (cfg : Cfg) (st' : St) (obs : List Ob) (resolved : Bool) :
    (resolved = false → (finish cfg (st', obs, resolved)) = (st', obs)) ∧
    (resolved = true → (finish cfg (st', obs, resolved)).1 = (completeBatch cfg st').1 ∧
       (finish cfg (st', obs, resolved)).2 = obs ++ (completeBatch cfg st').2) := by
  constructor
  · intro h; subst h; simp [finish]
  · intro h; subst h; simp [finish]

end Afkak.Producer

namespace Afkak.Producer
open Afkak.Consts Afkak.Monitor.ProducerTrace

/-! ### after a look-up moved -/

/-- how `afterLookups` ends -/
inductive AfterL (cfg : Cfg) (st : St) (ls : List Lookup) (obs0 : List Ob) (st' : St) (obs : List Ob) : Prop
  | pending : ls.all (·.pc.isDone) = false → st' = { st with phase := .lookups ls } → obs = obs0 →
      AfterL cfg st ls obs0 st' obs
  | done : ls.all (·.pc.isDone) = true → Landed cfg st.attempts st.interval st.nextTid st' obs →
      AfterL cfg st ls obs0 st' obs
  | resolved : ls.all (·.pc.isDone) = true → Landed cfg 0 cfg.initInterval st.nextTid st' obs →
      AfterL cfg st ls obs0 st' obs

theorem afterLookups_spec (cfg : Cfg) (st : St) (ls : List Lookup) (obs0 : List Ob)
    (h0 : ls.all (·.pc.isDone) = true → shapeOf obs0 = []) (he : onlyErr obs0) :
    AfterL cfg st ls obs0 (afterLookups cfg st ls obs0).1 (afterLookups cfg st ls obs0).2 ∧
    onlyErr (afterLookups cfg st ls obs0).2 ∧ (afterLookups cfg st ls obs0).1.nextTid = st.nextTid := by
  simp only [afterLookups]
  split
  · rename_i hd
    obtain ⟨q1, q2, q3, q4⟩ := sendRequests_spec { st with phase := .lookups ls } ls
    rcases q4 with ⟨r1, _, _, r4⟩ | ⟨r1, r0, b, r2, r3, r4, r5⟩
    · rw [r1]; simp only [if_true]
      obtain ⟨c1, c2, c3⟩ := completeBatch_spec cfg (sendRequests { st with phase := .lookups ls } ls).1
      refine ⟨.resolved hd ?_, onlyErr_append (onlyErr_append he q1) c2, by rw [c3, q3]⟩
      rw [q3] at c1
      cases c1 with
      | idle a1 a2 a3 a4 => exact .idle a1 a2 a3 (by rw [shapeOf_append, shapeOf_append, h0 hd, r4, a4]; rfl)
      | lookups ls' a1 a2 a3 a4 a5 a6 => exact .lookups ls' a1 a2 a3 a4 a5 (by rw [shapeOf_append, shapeOf_append, h0 hd, r4, a6]; rfl)
      | sending rid b a1 a2 a3 a4 a5 a6 => exact .sending rid b a1 a2 a3 a4 (by rw [shapeOf_append, shapeOf_append, h0 hd, r4, a5]; rfl) a6
    · rw [r1]; simp only [Bool.false_eq_true, if_false]
      refine ⟨.done hd (.sending _ b r2 r3 r4 q2 (by rw [shapeOf_append, h0 hd, r5]; rfl) ?_), onlyErr_append he q1, q3⟩
      rw [(sendRequests_stat _ _).2.1]; exact r0
  · rename_i hd
    exact ⟨.pending (by simpa using hd) rfl rfl, he, rfl⟩

theorem cancelSend_spec (st : St) (sid : Sid) :
    onlyErr (cancelSend st sid).2 ∧ shapeOf (cancelSend st sid).2 = [] ∧
    (cancelSend st sid).1.phase = st.phase ∧ (cancelSend st sid).1.attempts = st.attempts ∧
    (cancelSend st sid).1.interval = st.interval ∧ (cancelSend st sid).1.nextTid = st.nextTid := by
  simp only [cancelSend]
  repeat' split
  all_goals (refine ⟨?_, by simp [shapeOf, isShape], rfl, rfl, rfl, rfl⟩; intro s o h; simp at h; try exact ⟨_, h.2⟩)

theorem cancelAll_spec (st : St) (l : List Sid) :
    onlyErr (cancelAll st l).2 ∧ shapeOf (cancelAll st l).2 = [] ∧
    (cancelAll st l).1.phase = st.phase ∧ (cancelAll st l).1.attempts = st.attempts ∧
    (cancelAll st l).1.interval = st.interval ∧ (cancelAll st l).1.nextTid = st.nextTid := by
  induction l generalizing st with
  | nil => exact ⟨onlyErr_nil, rfl, rfl, rfl, rfl, rfl⟩
  | cons s rest ih =>
    obtain ⟨a1, a2, a3, a4, a5, a6⟩ := cancelSend_spec st s
    obtain ⟨b1, b2, b3, b4, b5, b6⟩ := ih (cancelSend st s).1
    simp only [cancelAll]
    exact ⟨onlyErr_append a1 b1, by rw [shapeOf_append, a2, b2]; rfl, by rw [b3, a3], by rw [b4, a4], by rw [b5, a5], by rw [b6, a6]⟩

end Afkak.Producer
