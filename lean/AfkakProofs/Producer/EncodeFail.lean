import Afkak.ProducerEncode
import AfkakProofs.Producer.Spec
/-! The repaired `_send_requests` when the encoder raises: every send the request would have carried fails. -/
namespace Afkak.Producer
open Afkak.Monitor.ProducerTrace

theorem deliver_fires_all (out sids : List Sid) (o : Outcome) :
    ∀ s ∈ sids, s ∈ out → Ob.fire s o ∈ (deliver out sids o).2 := by
  induction sids generalizing out with
  | nil => intro s hs; cases hs
  | cons a rest ih =>
    intro s hs ho
    simp only [deliver]
    split
    · by_cases hsa : s = a
      · subst hsa; exact List.mem_cons_self
      · rcases List.mem_cons.mp hs with h | h
        · exact absurd h hsa
        · exact List.mem_cons_of_mem _ (ih _ s h ((List.mem_erase_of_ne hsa).mpr ho))
    · rename_i ha
      rcases List.mem_cons.mp hs with h | h
      · subst h; exact absurd ho ha
      · exact ih _ s h ho

theorem deliver_no_produce (out sids : List Sid) (o : Outcome) : ∀ rid ps, Ob.produce rid ps ∉ (deliver out sids o).2 := by
  intro rid ps h
  have := deliver_shape out sids o
  have hm : Ob.produce rid ps ∈ shapeOf (deliver out sids o).2 := by
    simp only [shapeOf, List.mem_filter]; exact ⟨h, rfl⟩
  rw [this] at hm; cases hm

theorem no_produce_of_shape {obs : List Ob} (h : shapeOf obs = []) : ∀ rid ps, Ob.produce rid ps ∉ obs := by
  intro rid ps hm
  have : Ob.produce rid ps ∈ shapeOf obs := by
    simp only [shapeOf, List.mem_filter]; exact ⟨hm, rfl⟩
  rw [h] at this; cases this

/-- what the two handlers have in common, and where they part: the batch resolves; if `_send_requests` would have
    made the produce request `ps` (nothing raising), then with the encoder raising `k` the look-up failures are
    reported as before, every send of `ps` that is still outstanding after them fires `err k`, no send of `ps` is
    outstanding afterwards, and nothing is transmitted -/
theorem sendRequestsE_spec (k : ErrKind) (st : St) (ls : List Lookup) :
    (sendRequestsE k st ls).2.2 = true ∧
    (∀ rid ps, Ob.produce rid ps ∉ (sendRequestsE k st ls).2.1) ∧
    (∀ rid ps, Ob.produce rid ps ∈ (sendRequests st ls).2.1 →
      ps = (procResults ls st.outstanding []).2.1 ∧
      (∀ o, o ∈ (procResults ls st.outstanding []).2.2 → o ∈ (sendRequestsE k st ls).2.1) ∧
      (∀ s ∈ payloadSids ps, s ∈ (procResults ls st.outstanding []).1 → Ob.fire s (.err k) ∈ (sendRequestsE k st ls).2.1) ∧
      (st.outstanding.Nodup → ∀ s ∈ payloadSids ps, s ∉ (sendRequestsE k st ls).1.outstanding)) := by
  have hshape := (procResults_spec ls st.outstanding [] (by simp)).2.2
  unfold sendRequestsE sendRequests
  by_cases hstop : st.stopping = true
  · simp [hstop]
  · simp only [hstop, Bool.false_eq_true, if_false]
    generalize hpr : procResults ls st.outstanding [] = pr at hshape
    obtain ⟨out, gs, obs⟩ := pr
    simp only at hshape ⊢
    by_cases hg : gs.isEmpty = true
    · simp only [hg, if_true, true_and]
      exact ⟨no_produce_of_shape hshape, fun rid ps h => absurd h (no_produce_of_shape hshape rid ps)⟩
    · simp only [hg, Bool.false_eq_true, if_false, true_and]
      refine ⟨?_, ?_⟩
      · intro rid ps h
        rcases List.mem_append.mp h with h | h
        · exact no_produce_of_shape hshape rid ps h
        · exact deliver_no_produce _ _ _ rid ps h
      · intro rid ps h
        rcases List.mem_append.mp h with h | h
        · exact absurd h (no_produce_of_shape hshape rid ps)
        · simp only [List.mem_singleton] at h
          injection h with _ hps
          subst hps
          refine ⟨rfl, fun o ho => List.mem_append_left _ ho, ?_, ?_⟩
          · intro s hs hout
            exact List.mem_append_right _ (deliver_fires_all out (payloadSids ps) (.err k) s hs hout)
          · intro hn s hs hc
            have hnd : out.Nodup := by
              have := (procResults_fd ls st.outstanding []).nodup hn
              rw [hpr] at this; exact this
            exact deliver_removes out (payloadSids ps) (.err k) hnd s hc hs

end Afkak.Producer
