import AfkakProofs.Producer.RelStep
import AfkakProofs.Producer.Sids
import AfkakProofs.Producer.Stop
/-! A step makes at most one produce request, and it is the last thing the step does. -/
namespace Afkak.Producer
open Afkak.Consts Afkak.Monitor.ProducerTrace

def noProd (obs : List Ob) : Prop := ∀ rid ps, Ob.produce rid ps ∉ obs

/-- no produce request, or exactly one, at the very end -/
def prodLast (obs : List Ob) : Prop :=
  noProd obs ∨ ∃ pre rid ps, obs = pre ++ [.produce rid ps] ∧ noProd pre

theorem noProd_nil : noProd [] := by intro rid ps h; cases h
theorem noProd_append {a b : List Ob} (ha : noProd a) (hb : noProd b) : noProd (a ++ b) := by
  intro rid ps h; rcases List.mem_append.mp h with h | h
  · exact ha rid ps h
  · exact hb rid ps h
theorem noProd_of_isProduce {obs : List Ob} (h : ∀ o ∈ obs, isProduce o = false) : noProd obs := by
  intro rid ps hm; have := h _ hm; simp [isProduce] at this
theorem noProd_of_shape {obs : List Ob} (h : shapeOf obs = [] ∨ ∃ tid d, shapeOf obs = [.setTimer tid d]) : noProd obs :=
  noProd_of_isProduce (shape_noProduce h)
theorem noProd_of_noTx {obs : List Ob} (h : noTx obs) : noProd obs := by
  intro rid ps hm; have := h _ hm; simp [Afkak.Monitor.C19.isTransmission] at this
theorem noProd_single {o : Ob} (h : isProduce o = false) : noProd [o] := by
  intro rid ps hm; simp at hm; subst hm; simp [isProduce] at h

theorem prodLast_prepend {a b : List Ob} (ha : noProd a) (hb : prodLast b) : prodLast (a ++ b) := by
  rcases hb with hb | ⟨pre, rid, ps, e, hp⟩
  · exact Or.inl (noProd_append ha hb)
  · exact Or.inr ⟨a ++ pre, rid, ps, by rw [e, List.append_assoc], noProd_append ha hp⟩

theorem sendRequests_pl (st : St) (ls : List Lookup) : prodLast (sendRequests st ls).2.1 := by
  have hsh := (procResults_spec ls st.outstanding [] (by simp)).2.2
  simp only [sendRequests]
  split
  · exact Or.inl noProd_nil
  · split
    · exact Or.inl (noProd_of_shape (Or.inl hsh))
    · exact Or.inr ⟨_, _, _, rfl, noProd_of_shape (Or.inl hsh)⟩

theorem dispatch_pl (cfg : Cfg) (st : St) : prodLast (dispatch cfg st).2 := by
  obtain ⟨s1, _, _⟩ := startLookups_spec cfg { st with queue := [], msgCount := 0, byteCount := 0 } st.queue
  simp only [dispatch]
  split
  · exact prodLast_prepend (noProd_of_shape (Or.inl s1)) (sendRequests_pl _ _)
  · exact Or.inl (noProd_of_shape (Or.inl s1))

theorem sendBatch_pl (cfg : Cfg) (st : St) : prodLast (sendBatch cfg st).2 := by
  simp only [sendBatch]; split
  · exact dispatch_pl cfg st
  · exact Or.inl noProd_nil

theorem checkSendBatch_pl (cfg : Cfg) (st : St) : prodLast (checkSendBatch cfg st).2 := by
  simp only [checkSendBatch]; split
  · exact sendBatch_pl cfg st
  · exact Or.inl noProd_nil

theorem completeBatch_pl (cfg : Cfg) (st : St) : prodLast (completeBatch cfg st).2 := by
  simp only [completeBatch]; exact checkSendBatch_pl cfg _

theorem finish_pl (cfg : Cfg) (r : St × List Ob × Bool) (h : noProd r.2.1) : prodLast (finish cfg r).2 := by
  simp only [finish]; split
  · exact prodLast_prepend h (completeBatch_pl cfg _)
  · exact Or.inl h

theorem afterLookups_pl (cfg : Cfg) (st : St) (ls : List Lookup) (obs : List Ob) (h : noProd obs) :
    prodLast (afterLookups cfg st ls obs).2 := by
  simp only [afterLookups]
  split
  · obtain ⟨_, _, _, q4⟩ := sendRequests_spec { st with phase := .lookups ls } ls
    split
    · rename_i hr
      rcases q4 with ⟨_, _, _, r4⟩ | ⟨r1, _⟩
      · rw [List.append_assoc]
        exact prodLast_prepend h (prodLast_prepend (noProd_of_shape (Or.inl r4)) (completeBatch_pl cfg _))
      · rw [r1] at hr; cases hr
    · exact prodLast_prepend h (sendRequests_pl _ _)
  · exact Or.inl h

theorem step_pl (cfg : Cfg) (st : St) (e : Ev) : prodLast (step cfg st e).2 := by
  have bad : prodLast [Ob.badOp] := Or.inl (noProd_single rfl)
  cases e with
  | send sid topic key msgs =>
    simp only [step]; split
    · exact bad
    · split
      · exact Or.inl (noProd_single rfl)
      · exact checkSendBatch_pl cfg _
  | cancel sid =>
    simp only [step]; split
    · exact Or.inl (noProd_of_shape (Or.inl (cancelSend_spec st sid).2.1))
    · exact bad
  | tick =>
    simp only [step]; split
    · exact sendBatch_pl cfg st
    · exact bad
  | timer tid =>
    have hz : prodLast (zombieTimer st tid).2 := by
      simp only [zombieTimer]; split
      · exact Or.inl noProd_nil
      · exact bad
    simp only [step]
    split
    · simp only [timerLookups]; split
      · exact afterLookups_pl cfg _ _ _ (noProd_of_shape (Or.inl (lookupHead_spec cfg st _).1))
      · exact hz
    · split
      · exact Or.inr ⟨[], _, _, rfl, noProd_nil⟩
      · exact hz
    · exact hz
  | advance dt => exact Or.inl noProd_nil
  | metaSet topic err parts => exact Or.inl noProd_nil
  | metaReset topics => exact Or.inl noProd_nil
  | metaWipe => exact Or.inl noProd_nil
  | metaDone rid res =>
    simp only [step]; split
    · simp only [metaDoneLookups]; split
      · exact afterLookups_pl cfg _ _ _ (noProd_of_shape (metaContinue_phase_shape cfg st _ res).2)
      · exact bad
    · exact bad
  | produceDone rid res =>
    simp only [step]; split
    · split
      · exact finish_pl cfg _ (noProd_of_isProduce (handled_noProduce cfg st _ res))
      · exact bad
    · exact bad
  | stop wipe pout mouts =>
    simp only [step]; split
    · exact bad
    · exact Or.inl (noProd_of_noTx (doStop_stopped cfg st wipe pout mouts).1)

end Afkak.Producer
