import AfkakProofs.Producer.CancelTrace
/-! C19 stop: the trace monitor `stop` holds on every model trace - everything outstanding fires inside
`stop()`, with a cancellation error (or truthfully `ok`), the looping call stops, the queue is emptied, and
nothing is transmitted in or after it. -/
namespace Afkak.Producer
open Afkak.Consts Afkak.Monitor.ProducerTrace Afkak.Monitor.C01 Afkak.Monitor.C19

/-! ### the looping call only ever stops -/

theorem step_looper (cfg : Cfg) (st : St) (e : Ev) (h : (step cfg st e).1.looper = true) : st.looper = true := by
  cases e with
  | send sid topic key msgs =>
    simp only [step] at h
    split at h
    · exact h
    · split at h
      · exact h
      · simp only [doSend] at h; rw [(checkSendBatch_stat cfg _).2.2] at h; exact h
  | cancel sid =>
    simp only [step] at h; split at h
    · rw [(cancelSend_stat st sid).2.2] at h; exact h
    · exact h
  | tick =>
    simp only [step] at h; split at h
    · rw [(sendBatch_stat cfg st).2.2] at h; exact h
    · exact h
  | timer tid =>
    simp only [step] at h
    split at h
    · rw [(timerLookups_stat cfg st _ tid).2.2] at h; exact h
    · split at h
      · exact h
      · rw [(zombieTimer_stat st tid).2.2] at h; exact h
    · rw [(zombieTimer_stat st tid).2.2] at h; exact h
  | advance dt => exact h
  | metaSet topic err parts => exact h
  | metaReset topics => exact h
  | metaWipe => exact h
  | metaDone rid res =>
    simp only [step] at h; split at h
    · rw [(metaDoneLookups_stat cfg st _ rid res).2.2] at h; exact h
    · exact h
  | produceDone rid res =>
    simp only [step] at h; split at h
    · split at h
      · rw [(finish_stat cfg st _ (handleSendResponse_stat cfg st _ res)).2.2] at h; exact h
      · exact h
    · exact h
  | stop wipe pout mouts =>
    simp only [step] at h; split at h
    · exact h
    · simp only [doStop] at h
      split at h
      · rw [(cancelAll_stat _ _).2.2] at h; cases h
      · rw [(cancelAll_stat _ _).2.2, (cancelBatch_stat cfg _ wipe pout mouts).2.2] at h; exact h

/-- `stop()` leaves the looping call stopped (it only runs when `batch_every_t` is set) -/
theorem doStop_looper (cfg : Cfg) (st : St) (wipe : Bool) (pout : Option ProdRes) (mouts : List (Rid × MetaRes))
    (hl : st.looper = true → cfg.everyT.isSome = true) : (doStop cfg st wipe pout mouts).1.looper = false := by
  have h2 : (cancelBatch cfg { st with stopping := true } wipe pout mouts).1.looper = st.looper :=
    (cancelBatch_stat cfg _ wipe pout mouts).2.2
  simp only [doStop]
  split
  · rw [(cancelAll_stat _ _).2.2]
  · rename_i hc
    rw [(cancelAll_stat _ _).2.2, h2]
    rw [h2] at hc
    cases hlp : st.looper with
    | false => rfl
    | true => rw [hlp, hl hlp] at hc; simp at hc

/-! ### what fires inside `stop()` -/

/-- every Deferred fired in `obs` fails with a cancellation error, or succeeds with a response -/
def cancelKinds (obs : List Ob) : Prop :=
  ∀ s o, Ob.fire s o ∈ obs → (∃ k, o = .err k ∧ k.isCancel = true) ∨ (∃ r, o = .ok r)

theorem cancelKinds_nil : cancelKinds [] := by intro s o h; cases h
theorem cancelKinds_append {a b : List Ob} (ha : cancelKinds a) (hb : cancelKinds b) : cancelKinds (a ++ b) := by
  intro s o h; rcases List.mem_append.mp h with h | h
  · exact ha s o h
  · exact hb s o h
theorem cancelKinds_cons {o : Ob} {l : List Ob} (ho : ∀ s x, o ≠ .fire s x) (hl : cancelKinds l) : cancelKinds (o :: l) := by
  intro s x h; rcases List.mem_cons.mp h with h | h
  · exact absurd h.symm (ho s x)
  · exact hl s x h
theorem cancelKinds_of_nofire {obs : List Ob} (h : firedSids obs = []) : cancelKinds obs := by
  intro s o hm
  have : s ∈ firedSids obs := by simp only [firedSids, List.mem_filterMap]; exact ⟨_, hm, rfl⟩
  rw [h] at this; cases this

theorem handleResults_stopping_kinds (cfg : Cfg) (st : St) (b : Batch) (rs : List Resp) (fs : List FailedP)
    (hs : st.stopping = true) : cancelKinds (handleResults cfg st b rs fs).2.1 := by
  have good : cancelKinds (deliverMany st.outstanding ((rs.filter (·.error = 0)).map (fun r => (b.sidsOf r.tp, Outcome.ok r)))).2 := by
    intro s o hm
    obtain ⟨sids, h1, _⟩ := deliverMany_fires _ _ s o hm
    obtain ⟨r, _, he⟩ := List.mem_map.mp h1
    injection he with _ h2
    exact Or.inr ⟨r, h2.symm⟩
  simp only [handleResults]
  split
  · exact good
  · dsimp only
    have : ∀ (s : St) (b' : Batch) (f : List FailedP), s.stopping = true → (checkRetry cfg s b' f).2.1 = [] := by
      intro s b' f h; simp [checkRetry, h]
    rw [this]
    · rw [List.append_nil]; exact good
    · exact hs

theorem handle_stopping_kinds (cfg : Cfg) (st : St) (b : Batch) (r : ProdRes) (hs : st.stopping = true)
    (hl : legitCancel (some r) = true) : cancelKinds (handleSendResponse cfg st b r).2.1 := by
  have dall : cancelKinds (deliverAll st b (.err .tcancelled)).2.1 := by
    intro s o hm
    obtain ⟨h1, _⟩ := (deliverAll_spec st b (.err .tcancelled)).1 s o hm
    exact Or.inl ⟨.tcancelled, h1, rfl⟩
  cases r with
  | none => simp [legitCancel] at hl
  | responses rs => simp [legitCancel] at hl
  | failed rs fs => simp only [handleSendResponse]; exact handleResults_stopping_kinds cfg st b rs fs hs
  | err k =>
    simp only [handleSendResponse]
    split
    · exact handleResults_stopping_kinds cfg st b _ _ hs
    · rename_i hk
      simp only [legitCancel, Bool.or_eq_true, beq_iff_eq] at hl
      rcases hl with hl | hl
      · exact absurd hl hk
      · subst hl; exact dall

theorem cancelSend_kinds (st : St) (sid : Sid) : cancelKinds (cancelSend st sid).2 := by
  simp only [cancelSend]; repeat' split
  all_goals (intro s o h; simp at h; try exact Or.inl ⟨_, h.2, rfl⟩)

theorem cancelAll_kinds (st : St) (l : List Sid) : cancelKinds (cancelAll st l).2 := by
  induction l generalizing st with
  | nil => exact cancelKinds_nil
  | cons s rest ih => simp only [cancelAll]; exact cancelKinds_append (cancelSend_kinds st s) (ih _)

theorem cancelBatch_kinds (cfg : Cfg) (st : St) (wipe : Bool) (pout : Option ProdRes) (mouts : List (Rid × MetaRes))
    (hs : st.stopping = true) (hl : legitCancel pout = true) : cancelKinds (cancelBatch cfg st wipe pout mouts).2 := by
  simp only [cancelBatch]
  cases hph : st.phase with
  | idle => exact cancelKinds_nil
  | lookups ls =>
    simp only [cancelLookups]
    rw [afterLookups_stopped cfg _ _ _ (by exact hs)]
    have hobs : cancelKinds ((ls.map (cancelLookup mouts)).flatMap (·.2.2)) := by
      apply cancelKinds_of_nofire
      rw [List.flatMap_map]; exact flatMap_nofire _ _ (cancelLookup_nofire mouts)
    split <;> exact hobs
  | sending rid b =>
    cases pout with
    | none => simp only [cancelSending]; exact cancelKinds_cons (fun s x hc => by cases hc) cancelKinds_nil
    | some r =>
      simp only [cancelSending]
      have hs' : (if wipe then { st with tmeta := [] } else st).stopping = true := by split <;> exact hs
      have h1 := handle_stopping_kinds cfg (if wipe then { st with tmeta := [] } else st) b r hs' hl
      obtain ⟨f1, _, _⟩ := handleSendResponse_stopped cfg (if wipe then { st with tmeta := [] } else st) b r hs'
      have hst : (handleSendResponse cfg (if wipe then { st with tmeta := [] } else st) b r).1.stopping = true := by
        rw [(handleSendResponse_stat cfg _ b r).2.1]; exact hs'
      refine cancelKinds_cons (fun s x hc => by cases hc) ?_
      simp only [finish, f1, if_true, completeBatch_stopped cfg _ hst, List.append_nil]
      exact h1
  | retryWait tid b tps =>
    simp only [cancelRetryWait]
    obtain ⟨d1, d2, _⟩ := deliverAll_spec st b (.err .tcancelled)
    have hst : (deliverAll st b (.err .tcancelled)).1.stopping = true := by
      rw [(deliverAll_stat st b _).2.1]; exact hs
    refine cancelKinds_cons (fun s x hc => by cases hc) ?_
    simp only [finish, d2, if_true, completeBatch_stopped cfg _ hst, List.append_nil]
    intro s o hm
    exact Or.inl ⟨.tcancelled, (d1 s o hm).1, rfl⟩

theorem doStop_kinds (cfg : Cfg) (st : St) (wipe : Bool) (pout : Option ProdRes) (mouts : List (Rid × MetaRes))
    (hl : legitCancel pout = true) : cancelKinds (doStop cfg st wipe pout mouts).2 := by
  have h1 := cancelBatch_kinds cfg { st with stopping := true } wipe pout mouts rfl hl
  simp only [doStop]
  split
  · exact cancelKinds_append (cancelKinds_append h1 (cancelKinds_cons (fun s x hc => by cases hc) cancelKinds_nil))
      (cancelAll_kinds _ _)
  · exact cancelKinds_append (cancelKinds_append h1 cancelKinds_nil) (cancelAll_kinds _ _)


/-! ### along the trace -/

theorem effective_stop {cfg : Cfg} {st : St} {t : Track} (h : Rel cfg st t) (w : Bool) (pout : Option ProdRes)
    (m : List (Rid × MetaRes)) : effective t (.stop w pout m) = stopValid st pout := by
  cases pout with
  | none => cases hp : st.phase <;> simp [effective, stopValid, hp]
  | some r =>
    cases hp : st.phase with
    | sending rid b =>
      have a := h.sending rid b hp
      simp only [effective, a.cur, a.res, stopValid, hp]
      exact validFor_of_sending h hp r
    | _ =>
      have hq := not_effective h (fun rid b hc => by rw [hp] at hc; cases hc)
      simp only [stopValid, hp]
      simp only [effective]
      rcases hq with hq | hq
      · rw [hq]
      · cases hc : t.curRes with
        | none => rw [hc] at hq; cases hq
        | some x => cases t.cur <;> rfl

theorem trackEv_stopped (pre : Snap) (t : Track) (e : Ev) :
    (trackEv pre t e).stopped = (match e with
      | .stop .. => if effective t e then true else t.stopped
      | _ => t.stopped) := by
  cases e <;> simp only [trackEv, completionOf] <;> repeat' split
  all_goals first | rfl | simp_all

/-- the stop check, from facts in `Prop` form -/
theorem stopStep_of (pre : Snap) (t : Track) (e : Ev) (obs : List Ob) (post : Snap)
    (h1 : (trackEv pre t e).stopped = true → ∀ o ∈ obs, isTransmission o = false)
    (h2 : ∀ w pout m, e = .stop w pout m → effective t e = true →
      post.outstanding = [] ∧ post.looper = false ∧ post.queue = [] ∧
      (∀ x ∈ pre.outstanding, x ∈ firedSids obs) ∧ (legitCancel pout = true → cancelKinds obs))
    (h3 : (trackEv pre t e).stopped = true → post.outstanding = [] ∧ post.queue = [])
    (h4 : ∀ sid topic key msgs, e = .send sid topic key msgs → t.stopped = true → sid = t.nextSid →
      msgs.isEmpty = false → obs = [.fire sid (.err (.acancelled (some false)))]) :
    stopStep pre t ⟨e, obs, post⟩ = true := by
  unfold stopStep
  rw [Bool.and_eq_true, Bool.and_eq_true]
  refine ⟨⟨?_, ?_⟩, ?_⟩
  · dsimp only
    cases hs : (trackEv pre t e).stopped with
    | false => rfl
    | true =>
      simp only [Bool.not_true, Bool.false_or, List.all_eq_true, Bool.not_eq_true']
      exact h1 hs
  · dsimp only
    cases hs : (trackEv pre t e).stopped with
    | false => rfl
    | true =>
      obtain ⟨a1, a2⟩ := h3 hs
      simp [a1, a2]
  · cases e with
    | send sid topic key msgs =>
      dsimp only
      cases h5 : (t.stopped && sid == t.nextSid && !msgs.isEmpty) with
      | false => rfl
      | true =>
        simp only [Bool.and_eq_true, beq_iff_eq, Bool.not_eq_true'] at h5
        rw [h4 sid topic key msgs rfl h5.1.1 h5.1.2 h5.2]
        simp
    | stop w pout m =>
      dsimp only
      cases he : effective t (.stop w pout m) with
      | false => rfl
      | true =>
        obtain ⟨a1, a2, a3, a4, a5⟩ := h2 w pout m rfl he
        simp only [Bool.not_true, Bool.false_or, a1, a2, a3, List.isEmpty_nil, Bool.not_false, Bool.true_and,
          Bool.and_eq_true, List.all_eq_true, decide_eq_true_eq, Bool.or_eq_true, Bool.not_eq_true']
        refine ⟨a4, ?_⟩
        cases hl : legitCancel pout with
        | false => exact Or.inl rfl
        | true =>
          right
          intro o ho
          cases o with
          | fire s out =>
            rcases a5 hl s out ho with ⟨k, e1, e2⟩ | ⟨r, e1⟩
            · subst e1; exact e2
            · subst e1; rfl
          | _ => rfl
    | _ => rfl

structure SInv (cfg : Cfg) (st : St) (t : Track) : Prop where
  ci : CInv cfg st t
  stop : st.stopping = true → StopInv st
  looper : st.looper = true → cfg.everyT.isSome = true
  /-- once `stop()` has begun nothing is outstanding (hence nothing queued) any more -/
  empty : st.stopping = true → st.outstanding = []

theorem trackOb_stopped (e : Ev) (r : Bool) (t : Track) (o : Ob) : (trackOb e r t o).stopped = t.stopped := by
  cases o <;> rfl

theorem foldl_stopped (e : Ev) (r : Bool) (obs : List Ob) (t : Track) : (obs.foldl (trackOb e r) t).stopped = t.stopped := by
  induction obs generalizing t with
  | nil => rfl
  | cons o rest ih => rw [List.foldl_cons, ih, trackOb_stopped]

theorem track_stopped (pre : Snap) (t : Track) (s : Step) : (track pre t s).stopped = (trackEv pre t s.ev).stopped := by
  have := foldl_stopped s.ev (isRetryStep t s.ev) s.obs (trackEv pre t s.ev)
  simp only [track]
  repeat' split
  all_goals exact this

/-- `stopping` is only ever set by a valid `stop` -/
theorem step_sets_stopping (cfg : Cfg) (st : St) (e : Ev) (h0 : ¬ st.stopping = true)
    (hs : (step cfg st e).1.stopping = true) : ∃ w pout m, e = .stop w pout m ∧ stopValid st pout = true := by
  cases e with
  | stop w pout m =>
    by_cases hv : stopValid st pout = true
    · exact ⟨w, pout, m, rfl, hv⟩
    · exfalso
      have : step cfg st (.stop w pout m) = (st, [.badOp]) := by simp [step, hv]
      rw [this] at hs; exact h0 hs
  | send sid topic key msgs =>
    exfalso; apply h0; rw [← hs]; symm
    simp only [step]; split
    · rfl
    · split
      · rfl
      · simp only [doSend]; rw [(checkSendBatch_stat cfg _).2.1]; rfl
  | cancel sid =>
    exfalso; apply h0; rw [← hs]; symm
    simp only [step]; split
    · exact (cancelSend_stat st sid).2.1
    · rfl
  | tick =>
    exfalso; apply h0; rw [← hs]; symm
    simp only [step]; split
    · exact (sendBatch_stat cfg st).2.1
    · rfl
  | timer tid =>
    exfalso; apply h0; rw [← hs]; symm
    simp only [step]; split
    · exact (timerLookups_stat cfg st _ tid).2.1
    · split
      · rfl
      · exact (zombieTimer_stat st tid).2.1
    · exact (zombieTimer_stat st tid).2.1
  | advance dt => exact absurd hs h0
  | metaSet topic err parts => exact absurd hs h0
  | metaReset topics => exact absurd hs h0
  | metaWipe => exact absurd hs h0
  | metaDone rid res =>
    exfalso; apply h0; rw [← hs]; symm
    simp only [step]; split
    · exact (metaDoneLookups_stat cfg st _ rid res).2.1
    · rfl
  | produceDone rid res =>
    exfalso; apply h0; rw [← hs]; symm
    simp only [step]; split
    · split
      · exact (finish_stat cfg st _ (handleSendResponse_stat cfg st _ res)).2.1
      · rfl
    · rfl

theorem sinv_step (cfg : Cfg) (st : St) (t : Track) (e : Ev) (h : SInv cfg st t) :
    SInv cfg (step cfg st e).1 (track (snapOf st) t (mkStep cfg st e)) ∧
    stopStep (snapOf st) t (mkStep cfg st e) = true := by
  obtain ⟨hci', _, _⟩ := cinv_step cfg st t e h.ci
  have hrel := h.ci.ti.fr.rel
  have hstopped := trackEv_stopped (snapOf st) t e
  have hstop' : (step cfg st e).1.stopping = true → StopInv (step cfg st e).1 := by
    intro hs
    by_cases h0 : st.stopping = true
    · exact (stopped_step cfg st e (h.stop h0)).2
    · obtain ⟨w, pout, m, he, hv⟩ := step_sets_stopping cfg st e h0 hs
      subst he
      exact (stop_establishes cfg st w pout m hv).2
  have hemp' : (step cfg st e).1.stopping = true → (step cfg st e).1.outstanding = [] := by
    intro hs
    by_cases h0 : st.stopping = true
    · have ho := h.empty h0
      have fd := step_fd cfg st e
      cases e with
      | send sid topic key msgs =>
        simp only [step]
        split
        · exact ho
        · simp only [h0, Bool.or_true, if_true]; exact ho
      | _ =>
        apply List.eq_nil_iff_forall_not_mem.mpr
        intro x hx
        have := fd.sub x hx
        simp only [outPlus, ho] at this
        cases this
    · obtain ⟨w, pout, m, he, hv⟩ := step_sets_stopping cfg st e h0 hs
      subst he
      exact (stop_fires_all cfg st w pout m hv h.ci.ti.fr.once.nodup).1
  have hq' : (step cfg st e).1.stopping = true → (step cfg st e).1.queue = [] := by
    intro hs
    have ho := hemp' hs
    cases hqq : (step cfg st e).1.queue with
    | nil => rfl
    | cons r rest =>
      have := hci'.qo r.sid (by simp [queued, hqq])
      rw [ho] at this; cases this
  refine ⟨⟨hci', hstop', fun hl => h.looper (step_looper cfg st e hl), hemp'⟩, ?_⟩
  apply stopStep_of (snapOf st) t e (step cfg st e).2 (snapOf (step cfg st e).1)
  · intro hs o ho
    rw [hstopped] at hs
    by_cases h0 : st.stopping = true
    · exact (stopped_step cfg st e (h.stop h0)).1 o ho
    · have hts : t.stopped = false := by rw [hrel.stopped]; simpa using h0
      cases e with
      | stop w pout m =>
        simp only at hs
        split at hs
        · rename_i he
          rw [effective_stop hrel] at he
          exact (stop_establishes cfg st w pout m he).1 o ho
        · rw [hts] at hs; cases hs
      | _ => simp only at hs; rw [hts] at hs; cases hs
  · intro w pout m he heff
    subst he
    rw [effective_stop hrel] at heff
    obtain ⟨f1, f2⟩ := stop_fires_all cfg st w pout m heff h.ci.ti.fr.once.nodup
    have hstep : step cfg st (.stop w pout m) = doStop cfg st w pout m := by simp [step, heff]
    refine ⟨f1, ?_, ?_, f2, ?_⟩
    · show (step cfg st (.stop w pout m)).1.looper = false
      rw [hstep]; exact doStop_looper cfg st w pout m h.looper
    · show queued (step cfg st (.stop w pout m)).1 = []
      apply List.eq_nil_iff_forall_not_mem.mpr
      intro x hx
      have := hci'.qo x hx
      rw [f1] at this; cases this
    · intro hl
      rw [hstep]; exact doStop_kinds cfg st w pout m hl
  · intro hs
    have hs' : (step cfg st e).1.stopping = true := by
      rw [← hci'.ti.fr.rel.stopped, track_stopped]; exact hs
    exact ⟨hemp' hs', by simp only [snapOf, hq' hs', List.map_nil]⟩
  · intro sid topic key msgs he h1 h2 h3
    subst he
    have hs : st.stopping = true := by rw [← hrel.stopped]; exact h1
    have hn : sid = st.nextSid := by rw [h2]; exact h.ci.ti.si.ns
    show (step cfg st (.send sid topic key msgs)).2 = _
    simp [step, hn, hs, h3]

theorem sinv_init (cfg : Cfg) : SInv cfg (St.init cfg) {} := by
  refine ⟨cinv_init cfg, fun h => by simp [St.init] at h, ?_, fun h => by simp [St.init] at h⟩
  intro h
  simp only [St.init] at h
  cases hc : cfg.everyT with
  | none => rw [hc] at h; cases h
  | some x => rfl

theorem stop_from (cfg : Cfg) (evs : List Ev) (st : St) (t : Track) (h : SInv cfg st t) :
    checkFrom stopStep (snapOf st) t (traceFrom cfg st evs) = true := by
  induction evs generalizing st t with
  | nil => rfl
  | cons e rest ih =>
    obtain ⟨r1, r2⟩ := sinv_step cfg st t e h
    simp only [traceFrom, checkFrom, Bool.and_eq_true]
    exact ⟨r2, ih _ _ r1⟩

theorem stop_model (cfg : Cfg) (evs : List Ev) : Afkak.Monitor.C19.stop cfg (traceOf cfg evs) = true :=
  stop_from cfg evs _ _ (sinv_init cfg)

end Afkak.Producer
