import AfkakProofs.Producer.Pending
/-! C01 "fires exactly once", as a statement about runs of the model with the environment's part spelled out:
if every result the client gives accounts for every payload of its request (C07), then whenever no batch
is in flight every accepted send is still queued or has fired - exactly once. -/
namespace Afkak.Producer
open Afkak.Consts Afkak.Monitor.ProducerTrace

/-- the environment's part: every result the client gives along the run accounts for every payload of the
    request it answers (the client contract C07; with `fail_on_error=False` nothing is dropped) -/
def Accounted (cfg : Cfg) : St → List Ev → Prop
  | _, [] => True
  | st, e :: es => AccOK true cfg st e ∧ Accounted cfg (step cfg st e).1 es

/-- what has fired so far is exactly what was accepted and is no longer outstanding -/
structure FiredInv (st : St) (F : List Sid) : Prop where
  nodup : st.outstanding.Nodup
  lt : ∀ s ∈ st.outstanding, s < st.nextSid
  fnodup : F.Nodup
  iff : ∀ s, s ∈ F ↔ s < st.nextSid ∧ s ∉ st.outstanding

/-- `outPlus` covers what was outstanding and the id a valid `send` hands out -/
theorem outPlus_cover (cfg : Cfg) (st : St) (e : Ev) :
    (∀ s ∈ st.outstanding, s ∈ outPlus st e) ∧
    (∀ s, s < (step cfg st e).1.nextSid → s < st.nextSid ∨ s ∈ outPlus st e) := by
  have hns := step_nextSid cfg st e
  have hin : ∀ s ∈ st.outstanding, s ∈ outPlus st e := by
    intro s hs
    cases e <;> simp only [outPlus] <;> try exact hs
    split
    · exact List.mem_append_left _ hs
    · exact hs
  have hnew : ∀ s, s < (step cfg st e).1.nextSid → s < st.nextSid ∨ s ∈ outPlus st e := by
    intro s hs
    cases e with
    | send sid topic key msgs =>
      simp only at hns
      by_cases hsid : sid = st.nextSid
      · rw [if_pos hsid] at hns
        rw [hns] at hs
        by_cases hlt' : s < st.nextSid
        · exact Or.inl hlt'
        · right
          have : s = st.nextSid := Nat.le_antisymm (Nat.le_of_lt_succ hs) (Nat.le_of_not_lt hlt')
          simp only [outPlus, if_pos hsid, List.mem_append, List.mem_singleton]
          exact Or.inr (by rw [this, hsid])
      · rw [if_neg hsid] at hns; rw [hns] at hs; exact Or.inl hs
    | _ => simp only at hns; rw [hns] at hs; exact Or.inl hs
  exact ⟨hin, hnew⟩

theorem firedInv_step (cfg : Cfg) (st : St) (e : Ev) (F : List Sid) (h : FiredInv st F) :
    FiredInv (step cfg st e).1 (F ++ firedSids (step cfg st e).2) := by
  have fd := step_fd cfg st e
  obtain ⟨hn, hlt, hf, hmono⟩ := outPlus_spec (cfg := cfg) (t := { fired := F }) st e
    ⟨h.nodup, h.lt, fun s hs => (h.iff s).mp hs⟩
  have hns := step_nextSid cfg st e
  obtain ⟨hin, hnew⟩ := outPlus_cover cfg st e
  refine ⟨fd.nodup hn, fun s hs => hlt s (fd.sub s hs), ?_, ?_⟩
  · rw [List.nodup_append]
    refine ⟨h.fnodup, fd.fnodup hn, ?_⟩
    intro a ha b hb hab
    subst hab
    exact hf a ha (fd.fin a hb)
  · intro s
    rw [List.mem_append]
    constructor
    · rintro (hs | hs)
      · have := (h.iff s).mp hs
        exact ⟨Nat.lt_of_lt_of_le this.1 hmono, fun hc => hf s hs (fd.sub s hc)⟩
      · exact ⟨hlt s (fd.fin s hs), fd.fout hn s hs⟩
    · rintro ⟨h1, h2⟩
      by_cases hF : s ∈ F
      · exact Or.inl hF
      · right
        have hs : s ∈ outPlus st e := by
          rcases hnew s h1 with h3 | h3
          · by_cases ho : s ∈ st.outstanding
            · exact hin s ho
            · exact absurd ((h.iff s).mpr ⟨h3, ho⟩) hF
          · exact h3
        exact fd.gone s hs h2

theorem firedInv_run (cfg : Cfg) (evs : List Ev) (st : St) (F : List Sid) (h : FiredInv st F) :
    FiredInv (run cfg st evs).1 (F ++ firedSids (run cfg st evs).2) := by
  induction evs generalizing st F with
  | nil => simpa [run, firedSids] using h
  | cons e rest ih =>
    simp only [run, firedSids_append]
    have := ih _ _ (firedInv_step cfg st e F h)
    rw [List.append_assoc] at this
    exact this

theorem firedInv_init (cfg : Cfg) : FiredInv (St.init cfg) [] := by
  constructor <;> simp [St.init]

/-- the state part of the accounting invariant -/
structure AInv (cfg : Cfg) (st : St) : Prop where
  rel : ∃ t, Rel cfg st t
  nodup : st.outstanding.Nodup
  lt : ∀ s ∈ st.outstanding, s < st.nextSid
  pv : PV true [] st false

theorem ainv_step (cfg : Cfg) (st : St) (e : Ev) (h : AInv cfg st) (ha : AccOK true cfg st e) :
    AInv cfg (step cfg st e).1 := by
  obtain ⟨t, ht⟩ := h.rel
  have fd := step_fd cfg st e
  obtain ⟨hn, hlt, _, _⟩ := outPlus_spec (cfg := cfg) (t := { fired := [] }) st e
    ⟨h.nodup, h.lt, fun s hs => by cases hs⟩
  exact ⟨⟨_, (rel_step cfg st t (snapOf st) e ht).1⟩, fd.nodup hn, fun s hs => hlt s (fd.sub s hs),
    step_pv true [] cfg st e h.nodup h.lt ht.bok ha h.pv⟩

theorem ainv_run (cfg : Cfg) (evs : List Ev) (st : St) (h : AInv cfg st) (ha : Accounted cfg st evs) :
    AInv cfg (run cfg st evs).1 := by
  induction evs generalizing st with
  | nil => exact h
  | cons e rest ih =>
    simp only [run]
    exact ih _ (ainv_step cfg st e h ha.1) ha.2

theorem ainv_init (cfg : Cfg) : AInv cfg (St.init cfg) :=
  ⟨⟨_, rel_init cfg⟩, by simp [St.init], by simp [St.init], fun x hx => by simp [St.init] at hx⟩

/-- no Deferred fires twice in a run, whatever the environment does -/
theorem run_fires_nodup (cfg : Cfg) (evs : List Ev) : (firedSids (run cfg (St.init cfg) evs).2).Nodup := by
  have := (firedInv_run cfg evs _ _ (firedInv_init cfg)).fnodup
  simpa using this

/-- Exactly once: with an accounting client, whenever no batch is in flight every accepted send is still
    queued (waiting for its batch) or has fired exactly once. -/
theorem run_fires_exactly_once (cfg : Cfg) (evs : List Ev) (hacc : Accounted cfg (St.init cfg) evs)
    (hidle : (run cfg (St.init cfg) evs).1.phase = .idle) :
    ∀ s, s < (run cfg (St.init cfg) evs).1.nextSid →
      s ∈ queued (run cfg (St.init cfg) evs).1 ∨ (firedSids (run cfg (St.init cfg) evs).2).count s = 1 := by
  intro s hs
  have hf := firedInv_run cfg evs _ _ (firedInv_init cfg)
  have ha := ainv_run cfg evs _ (ainv_init cfg) hacc
  simp only [List.nil_append] at hf
  by_cases ho : s ∈ (run cfg (St.init cfg) evs).1.outstanding
  · rcases ha.pv s ho with (h | h) | ⟨_, _, h⟩
    · exact Or.inl h
    · cases h
    · simp [pend, hidle] at h
  · right
    have hm : s ∈ firedSids (run cfg (St.init cfg) evs).2 := (hf.iff s).mpr ⟨hs, ho⟩
    have h1 := List.count_pos_iff.mpr hm
    have h2 := (List.nodup_iff_count.mp hf.fnodup) s
    omega

end Afkak.Producer
