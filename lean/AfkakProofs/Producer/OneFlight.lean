import AfkakProofs.Producer.ProdLast
/-! One batch in flight, as a theorem about a single step (audit C09-1 / C19-1): a produce request is made only when
nothing is in flight, or by the very step that takes the answer the batch in flight was waiting for - a look-up
answer (no request was out), the client's answer to THE request in flight, or the retry timer. -/
namespace Afkak.Producer
open Afkak.Consts Afkak.Monitor.ProducerTrace

theorem sendBatch_busy (cfg : Cfg) (st : St) (h : st.phase ≠ .idle) : sendBatch cfg st = (st, []) := by
  simp only [sendBatch, canDispatch]
  have : (st.phase == Phase.idle) = false := by
    cases hp : st.phase <;> first | exact absurd hp h | rfl
  simp [this]

theorem checkSendBatch_busy (cfg : Cfg) (st : St) (h : st.phase ≠ .idle) : checkSendBatch cfg st = (st, []) := by
  simp only [checkSendBatch]; split
  · exact sendBatch_busy cfg st h
  · rfl

/-- **One batch in flight (step form).**  If a step makes a produce request then before the step no batch was in
    flight, or the batch in flight was waiting for partition look-ups and the event is a look-up answer (a metadata
    result or a back-off timer), or it was waiting for the client's answer to request `r` and the event IS that
    answer (a valid one), or it was waiting for retry timer `tid` and the event is that timer. -/
theorem produce_only_when_free (cfg : Cfg) (st : St) (e : Ev) (rid : Rid) (ps : List Payload)
    (h : Ob.produce rid ps ∈ (step cfg st e).2) :
    st.phase = .idle ∨
    (∃ ls, st.phase = .lookups ls ∧ ((∃ tid, e = .timer tid) ∨ ∃ r res, e = .metaDone r res)) ∨
    (∃ r b res, st.phase = .sending r b ∧ e = .produceDone r res ∧ validResult b res = true) ∨
    (∃ tid b tps, st.phase = .retryWait tid b tps ∧ e = .timer tid) := by
  by_cases hidle : st.phase = .idle
  · exact Or.inl hidle
  right
  have hz : ∀ tid, Ob.produce rid ps ∉ (zombieTimer st tid).2 := by
    intro tid hc; simp only [zombieTimer] at hc; split at hc <;> simp at hc
  cases e with
  | send sid topic key msgs =>
    exfalso
    simp only [step] at h
    split at h
    · simp at h
    · split at h
      · simp at h
      · simp only [doSend] at h
        rw [checkSendBatch_busy cfg _ (by simpa [enqueue] using hidle)] at h
        cases h
  | cancel sid =>
    exfalso
    simp only [step] at h
    split at h
    · exact noProd_of_shape (Or.inl (cancelSend_spec st sid).2.1) rid ps h
    · simp at h
  | tick =>
    exfalso
    simp only [step] at h
    split at h
    · rw [sendBatch_busy cfg st hidle] at h; cases h
    · simp at h
  | timer tid =>
    cases hp : st.phase with
    | idle => exact absurd hp hidle
    | lookups ls => exact Or.inl ⟨ls, rfl, Or.inl ⟨tid, rfl⟩⟩
    | sending r b =>
      exfalso; simp only [step, hp] at h; exact hz tid h
    | retryWait t b tps =>
      by_cases ht : t = tid
      · subst ht; exact Or.inr (Or.inr ⟨t, b, tps, rfl, rfl⟩)
      · exfalso; simp only [step, hp, ht, if_false] at h; exact hz tid h
  | advance dt => simp [step] at h
  | metaSet topic err parts => simp [step] at h
  | metaReset topics => simp [step] at h
  | metaWipe => simp [step] at h
  | metaDone r res =>
    cases hp : st.phase with
    | lookups ls => exact Or.inl ⟨ls, rfl, Or.inr ⟨r, res, rfl⟩⟩
    | idle => exact absurd hp hidle
    | sending r' b => simp [step, hp] at h
    | retryWait t b tps => simp [step, hp] at h
  | produceDone r res =>
    cases hp : st.phase with
    | sending r' b =>
      simp only [step, hp] at h
      split at h
      · rename_i hc
        simp only [Bool.and_eq_true, decide_eq_true_eq] at hc
        obtain ⟨h1, h2⟩ := hc
        subst h1
        exact Or.inr (Or.inl ⟨r', b, res, rfl, rfl, h2⟩)
      · simp at h
    | idle => exact absurd hp hidle
    | lookups ls => simp [step, hp] at h
    | retryWait t b tps => simp [step, hp] at h
  | stop wipe pout mouts =>
    exfalso
    simp only [step] at h
    split at h
    · simp at h
    · exact noProd_of_noTx (doStop_stopped cfg st wipe pout mouts).1 rid ps h

end Afkak.Producer
