import AfkakProofs.Producer.ReentrantExt
/-! Hooks that fire in TAIL position - the callback of a send cancelled by its caller, the callback attached to
a send that `send_messages` refused - run when the Producer's own code has finished: such a hooked step IS a
flat run, on the event list "the step, then the hook's calls".  (Hooks that fire in the middle of a loop have no
flat equivalent: that is what `ProducerR` is for.) -/
namespace Afkak.ProducerR
open Afkak.Consts Afkak.Producer

/-- the flat event a hook's call amounts to, in flat state `c` -/
def Action.toEvC (c : St) : Action → Ev
  | .send topic key msgs => .send c.nextSid topic key msgs
  | .cancel sid => .cancel sid
  | .stop wipe pout mouts => .stop wipe pout mouts

/-- the calls of a hook as a flat event list (the ids of its sends are the next free ones) -/
def flatten (cfg : Cfg) : St → Hook → List Ev
  | _, [] => []
  | c, a :: rest => a.toEvC c :: flatten cfg (step cfg c (a.toEvC c)).1 rest

/-- the observations without the hook markers -/
def flatObs (obs : List ObR) : List Ob := obs.filterMap (fun o => match o with | .ob x => some x | _ => none)

theorem flatObs_lift (obs : List Ob) : flatObs (lift obs) = obs := by
  induction obs with
  | nil => rfl
  | cons o rest ih => simp only [lift, List.map_cons, flatObs, List.filterMap_cons] at ih ⊢; rw [ih]

theorem flatObs_append (a b : List ObR) : flatObs (a ++ b) = flatObs a ++ flatObs b := by
  simp [flatObs, List.filterMap_append]

/-- a hook run from a flat state (no other hooks) is the flat run of its calls -/
theorem runActs_flat (cfg : Cfg) (n : Nat) (h : Hook) (c : St) :
    runActs (actAt cfg (n + 1)) (ofCore c) h =
      (ofCore (run cfg c (flatten cfg c h)).1, lift (run cfg c (flatten cfg c h)).2) := by
  induction h generalizing c with
  | nil => simp [runActs, flatten, run, lift]
  | cons a rest ih =>
    have ha : actAt cfg (n + 1) (ofCore c) a = (ofCore (step cfg c (a.toEvC c)).1, lift (step cfg c (a.toEvC c)).2) := by
      have : a.toEv (ofCore c) = a.toEvC c := by cases a <;> rfl
      simp only [actAt, this]
      exact stepCore_flat cfg _ c _
    simp only [runActs, flatten, run, ha, ih]
    simp [lift]

/-- CANCEL of a hooked send (the only hook): the step is the flat run of `cancel`, then the hook's calls -/
theorem cancel_hooked (cfg : Cfg) (n : Nat) (c : St) (sid : Sid) (h : Hook)
    (hlt : sid < c.nextSid) (ho : sid ∈ c.outstanding) :
    let r := stepR cfg (n + 1) { core := c, hooks := [(sid, h)], running := false } (.flat (.cancel sid))
    let evs := Ev.cancel sid :: flatten cfg (Producer.cancelSend c sid).1 h
    r.1 = ofCore (run cfg c evs).1 ∧ flatObs r.2 = (run cfg c evs).2 := by
  have hfire : ∃ o, (Producer.cancelSend c sid).2 = [.fire sid o] := by
    simp only [Producer.cancelSend, ho, if_true]
    split <;> exact ⟨_, rfl⟩
  obtain ⟨o, ho'⟩ := hfire
  have hstepflat : step cfg c (.cancel sid) = Producer.cancelSend c sid := by simp [step, hlt]
  have hr : stepR cfg (n + 1) { core := c, hooks := [(sid, h)], running := false } (.flat (.cancel sid)) =
      ((runActs (actAt cfg (n + 1)) (ofCore (Producer.cancelSend c sid).1) h).1,
        [.ob (.fire sid o), .hookBegin sid] ++ (runActs (actAt cfg (n + 1)) (ofCore (Producer.cancelSend c sid).1) h).2 ++ [.hookEnd]) := by
    simp only [stepR, stepCore, hlt, if_true, cancelSend, ho', fired, hookOf, List.filter_cons, decide_true,
      List.filter_nil, List.head?_cons, Option.map_some, ofCore]
    simp
  simp only
  rw [hr, runActs_flat]
  simp only [run, hstepflat, ho', flatObs_append, flatObs_lift]
  constructor
  · first | rfl | trivial
  · simp [flatObs]

/-- a hooked send that `send_messages` REFUSES (no messages): the callback runs as it is attached - the step
    is the flat run of the send, then the hook's calls -/
theorem sendH_refused (cfg : Cfg) (n : Nat) (c : St) (topic : Topic) (key : Option (List UInt8)) (h : Hook)
    (hno : c.nextSid ∉ c.outstanding) :
    let r := stepR cfg (n + 1) (ofCore c) (.sendH c.nextSid topic key [] h)
    let evs := Ev.send c.nextSid topic key [] :: flatten cfg { c with nextSid := c.nextSid + 1 } h
    r.1 = ofCore (run cfg c evs).1 ∧ flatObs r.2 = (run cfg c evs).2 := by
  have hstepflat : step cfg c (.send c.nextSid topic key []) =
      ({ c with nextSid := c.nextSid + 1 }, [.fire c.nextSid (.err (.other 4))]) := by simp [step]
  have hcore : stepCore cfg (actAt cfg (n + 1)) (ofCore c) (.send c.nextSid topic key []) =
      (ofCore { c with nextSid := c.nextSid + 1 }, lift [.fire c.nextSid (.err (.other 4))]) := by
    rw [stepCore_flat, hstepflat]
  simp only [stepR, hcore]
  have h1 : ¬ (c.nextSid ≠ (ofCore c).core.nextSid) := by simp [ofCore]
  have hno' : c.nextSid ∉ (ofCore { c with nextSid := c.nextSid + 1 }).core.outstanding := hno
  rw [if_neg h1, if_neg hno', runActs_flat]
  simp only [run, hstepflat, flatObs_append, flatObs_lift]
  constructor
  · first | rfl | trivial
  · simp [flatObs]

end Afkak.ProducerR
