import AfkakProofs.Producer.WireCompose
import AfkakProofs.Wire.TotalProduce
import AfkakProofs.Wire.Compressed
/-! The payload of a produce request down to the BYTES a broker reads (composition of `WireCompose` with the wire
package's theorems about `_encode_message_set`, `AfkakProofs/Wire/{ProduceReq,TotalProduce,Compressed}.lean`):
the bytes `_encode_message_set` writes for the message set `create_message_set` builds from the sends of a payload
parse, under the Kafka grammar (`Afkak/Wire/Spec.lean`, written from the protocol guide, not from afkak), to exactly
the payload's messages - keys, values, order - each under a checksum that verifies. -/
namespace Afkak.Producer.WireBytes
open Afkak Afkak.Producer Afkak.Wire Afkak.Codec Afkak.Consts Afkak.Monitor.C04 Afkak.Producer.WireCompose

set_option synthInstance.maxSize 100000

/-- the message-set entry the grammar must find for a Producer-model message: offset 0 (the producer writes no
    offsets), the format asked for, attributes 0 (no compression), the clock's timestamp for format 1, the message's
    key and the bytes of its value -/
def brokerEntry (nowMs : Int) (body : Nat → Bytes) (magic : Int) (m : Msg) : Int × Spec.Msg :=
  (0, ⟨if magic = 1 then 1 else 0, 0, if magic = 1 then some nowMs else none, m.key, m.value.map body⟩)

/-- what the caller gave: `(key, value bytes)` per message -/
def kv (body : Nat → Bytes) (m : Msg) : Option Bytes × Option Bytes := (m.key, m.value.map body)

theorem brokerEntry_kv (nowMs : Int) (body : Nat → Bytes) (magic : Int) (ms : List Msg) :
    (ms.map (brokerEntry nowMs body magic)).map (fun e => (e.2.key, e.2.value)) = ms.map (kv body) := by
  simp only [List.map_map]
  rfl

theorem specEntries_wire (ext : Ext) (body : Nat → Bytes) (magic : Int) (ms : List Msg) :
    specEntries ext.nowMs (ms.map (wireMsg ext body magic)) = some (ms.map (brokerEntry ext.nowMs body magic)) := by
  unfold specEntries
  induction ms with
  | nil => rfl
  | cons m rest ih =>
    rw [List.map_cons, mapM_option_cons, ih]
    by_cases h1 : magic = 1
    · simp [specMsg, wireMsg, brokerEntry, h1]
    · simp [specMsg, wireMsg, brokerEntry, h1]

/-- **Uncompressed payload, down to the bytes.**  For the sends `rs` of a payload `p` (`hp`: what
    `C01_payload_integrity` delivers), message format `magic ∈ {0, 1}`, any externals (`ext.crc` any checksum
    function, `ext.nowMs` the clock) and any `body` (value size ↦ value bytes): if the grammar can carry the
    messages at all (`hvalid`: the decidable size bounds of the Kafka grammar - every key, value and message
    shorter than 2^31 bytes, the clock within int64), then `create_message_set` returns a message set `ms`,
    `_encode_message_set(ms, magic=magic)` writes bytes, and those bytes parse under the grammar's message-set
    decoder to exactly one entry per message of the payload, in order: offset 0, the format asked for, attributes 0,
    the message's key and value (null ≠ empty), checksum verified (the grammar's `message` codec checks it). -/
theorem payload_bytes_decode (ext : Ext) (body : Nat → Bytes) (magic : Int) (hm : magic = 0 ∨ magic = 1)
    (rs : List Req) (p : Payload) (hp : p.msgs = rs.flatMap (·.wire))
    (hvalid : (Spec.messageSet ext.crc).valid (p.msgs.map (brokerEntry ext.nowMs body magic)) = true) :
    ∃ ms bytes entries,
      createMessageSet ext (rs.map (sendArg body)) codecNone magic = .ok ms
      ∧ encodeMessageSet ext ms none magic = .ok bytes
      ∧ (Spec.messageSet ext.crc).dec bytes = some entries
      ∧ entries = p.msgs.map (brokerEntry ext.nowMs body magic)
      ∧ entries.map (fun e => (e.2.key, e.2.value)) = p.msgs.map (kv body) := by
  have hse := specEntries_wire ext body magic p.msgs
  obtain ⟨bytes, hbytes⟩ := msgset_total ext magic hm _ _ 0 rfl hse (many_valid hvalid)
  have heq := msgset_bytes ext magic hm _ _ bytes 0 rfl hbytes hse
  refine ⟨_, bytes, _, createMessageSet_none ext body magic rs p hp, hbytes, ?_, rfl, brokerEntry_kv _ _ _ _⟩
  rw [heq]
  exact (Spec.messageSet ext.crc).law _ hvalid

/-! ## gzip -/

theorem plainEntries_sendArg (nowMs : Int) (body : Nat → Bytes) (magic : Int) (rs : List Req) :
    plainEntries nowMs magic (rs.map (sendArg body)) = (rs.flatMap (·.wire)).map (brokerEntry nowMs body magic) := by
  unfold plainEntries
  induction rs with
  | nil => rfl
  | cons r rest ih =>
    rw [List.map_cons, List.flatMap_cons, ih, List.flatMap_cons, List.map_append]
    simp only [sendArg, Req.wire, List.map_map]
    rfl

/-- the entry the grammar must find for the gzip wrapper: offset 0, the format asked for, the gzip codec in the
    attributes, the clock's timestamp for format 1, a null key, the compressor's output as value -/
def wrapperEntry (nowMs : Int) (magic : Int) (gz : Bytes) : Int × Spec.Msg :=
  (0, ⟨magic, codecGzip.toNat, if magic = 1 then some nowMs else none, none, some gz⟩)

/-- **Gzip payload, down to the bytes.**  Whenever `create_message_set(reqs, CODEC_GZIP, magic)` returns for the
    sends of a payload `p`, it returns ONE wrapper message (gzip codec in its attributes, null key, the format asked
    for) whose value `gz` is the compressor's output; if the decompressor undoes the compressor (`hinv`; both are
    externals) and the grammar can carry the payload's messages (`hvalid`, the grammar's decidable size bounds),
    `gz` decompresses to bytes that parse under the grammar's message-set decoder to exactly one entry per message
    of the payload, in order, with its key and value.  And (`houter`: the grammar can carry the wrapper)
    `_encode_message_set` writes that wrapper as bytes which parse under the grammar to that one wrapper entry
    (value `gz`, checksum verified) - so the broker, reading the payload's bytes and decompressing the wrapper's
    value, recovers exactly the caller's messages, keys and order. -/
theorem payload_bytes_decode_gzip (ext : Ext) (body : Nat → Bytes) (magic : Int) (hm : magic = 0 ∨ magic = 1)
    (rs : List Req) (p : Payload) (hp : p.msgs = rs.flatMap (·.wire)) (ms : List Message)
    (h : createMessageSet ext (rs.map (sendArg body)) codecGzip magic = .ok ms)
    (hinv : ∀ b z, ext.gzip b = .ok z → ext.gunzip (some z) = .ok b)
    (hvalid : (Spec.messageSet ext.crc).valid (p.msgs.map (brokerEntry ext.nowMs body magic)) = true) :
    ∃ gz inner entries,
      ext.gunzip (some gz) = .ok inner
      ∧ (Spec.messageSet ext.crc).dec inner = some entries
      ∧ entries = p.msgs.map (brokerEntry ext.nowMs body magic)
      ∧ entries.map (fun e => (e.2.key, e.2.value)) = p.msgs.map (kv body)
      ∧ ((Spec.messageSet ext.crc).valid [wrapperEntry ext.nowMs magic gz] = true →
          ∃ bytes, encodeMessageSet ext ms none magic = .ok bytes
            ∧ (Spec.messageSet ext.crc).dec bytes = some [wrapperEntry ext.nowMs magic gz]) := by
  obtain ⟨w, gz, rfl, ha, hk, hv, hmg, hts, hgz⟩ := Afkak.Wire.createMessageSet_gzip ext _ magic ms h
  rw [plainEntries_sendArg, ← hp] at hgz
  refine ⟨gz, _, _, hinv _ _ hgz, (Spec.messageSet ext.crc).law _ hvalid, rfl, brokerEntry_kv _ _ _ _, ?_⟩
  intro houter
  have hse : specEntries ext.nowMs [w] = some [wrapperEntry ext.nowMs magic gz] := by
    obtain ⟨wm, wa, wk, wv, wt⟩ := w
    simp only at ha hk hv hmg hts
    subst ha hk hv hmg hts
    rcases hm with rfl | rfl <;> rfl
  obtain ⟨bytes, hbytes⟩ := msgset_total ext magic hm _ _ 0 rfl hse (many_valid houter)
  have heq := msgset_bytes ext magic hm _ _ bytes 0 rfl hbytes hse
  refine ⟨bytes, hbytes, ?_⟩
  rw [heq]
  exact (Spec.messageSet ext.crc).law _ houter

/-! ## the whole produce request -/

/-- the `ProduceRequest(topic, partition, msgSet)` the Producer builds for a payload (no compression); `tn`: the
    name of a topic as bytes -/
def wireReq (ext : Ext) (body : Nat → Bytes) (magic : Int) (tn : Topic → Bytes) (p : Payload) : ProduceReq :=
  ⟨some (tn p.tp.topic), p.tp.part, p.msgs.map (wireMsg ext body magic)⟩

/-- what the grammar must find for a payload: `(topic, (partition, entries))` -/
def brokerPart (nowMs : Int) (body : Nat → Bytes) (magic : Int) (tn : Topic → Bytes) (p : Payload) :
    Bytes × (Int × List (Int × Spec.Msg)) :=
  (tn p.tp.topic, (p.tp.part, p.msgs.map (brokerEntry nowMs body magic)))

theorem keyed_wireReq (ext : Ext) (body : Nat → Bytes) (magic : Int) (tn : Topic → Bytes) (ps : List Payload) :
    keyed ProduceReq.topic ProduceReq.partition (fun q => specEntries ext.nowMs q.messages)
      (ps.map (wireReq ext body magic tn)) = some (ps.map (brokerPart ext.nowMs body magic tn)) := by
  unfold keyed
  induction ps with
  | nil => rfl
  | cons p rest ih =>
    rw [List.map_cons, mapM_option_cons, ih]
    simp only [keyOne, wireReq, specEntries_wire, List.map_cons, brokerPart]

/-- `regroup` neither loses nor invents an item: `q` is under topic `t` in the nested structure iff `(t, q)` was given -/
theorem regroup_mem {β : Type} (l : List (Bytes × β)) (t : Bytes) (q : β) :
    (∃ e ∈ regroup l, e.1 = t ∧ q ∈ e.2) ↔ (t, q) ∈ l := by
  unfold regroup
  constructor
  · rintro ⟨e, he, rfl, hq⟩
    obtain ⟨u, _, rfl⟩ := List.mem_map.mp he
    obtain ⟨x, hx, rfl⟩ := List.mem_map.mp hq
    have := List.mem_filter.mp hx
    have h1 : x.1 = u := by simpa using this.2
    subst h1
    exact this.1
  · intro h
    refine ⟨(t, (l.filter (fun x => x.1 == t)).map (·.2)), ?_, rfl, ?_⟩
    · apply List.mem_map.mpr
      exact ⟨t, (mem_firstOccurrences _ _).mpr (List.mem_map.mpr ⟨_, h, rfl⟩), rfl⟩
    · apply List.mem_map.mpr
      exact ⟨(t, q), List.mem_filter.mpr ⟨h, by simp⟩, rfl⟩

/-- **The whole produce request, down to the bytes** (no compression).  For the payload list of an `Ob.produce`
    (`payloads`), topic names `tn`, message format `magic ∈ {0, 1}`, a request version the encoder implements
    (`hv`), one payload per (topic name, partition) (`hnd`: what the Producer builds, `C01_payload_integrity`, when
    distinct topics have distinct names), ASCII topic names (`hascii`) and a request the grammar can carry
    (`hvalid`: the grammar's decidable size bounds): `encode_produce_request` writes a frame, and the frame parses
    under the grammar's request decoder to the header (key 0, version `v`, the correlation and client id), `acks`,
    `timeout` and the payloads nested by topic (`regroup`: topics by first occurrence, a topic's partitions in the
    order given), each partition with exactly one entry per message of its payload, in order, key and value kept,
    checksum verified.  Nothing is lost or invented by the nesting: `q` is under topic `t` iff `(t, q)` is the
    `(topic, (partition, entries))` of one of the payloads. -/
theorem request_bytes_decode (ext : Ext) (body : Nat → Bytes) (magic : Int) (tn : Topic → Bytes)
    (payloads : List Payload) (cid : Bytes) (corr acks timeout ver v : Int)
    (hv : implementedVersion ver = some v)
    (hnd : (payloads.map (fun p => (tn p.tp.topic, p.tp.part))).Nodup)
    (hascii : ∀ p ∈ payloads, isAscii (tn p.tp.topic) = true)
    (hvalid : (Spec.request (Spec.produceRequest ext.crc)).valid
      (hdr 0 v corr cid, acks, timeout, regroup (payloads.map (brokerPart ext.nowMs body magic tn))) = true) :
    ∃ frame nested,
      encodeProduceRequest ext cid corr (payloads.map (wireReq ext body magic tn)) acks timeout ver = .ok frame
      ∧ (Spec.request (Spec.produceRequest ext.crc)).dec frame = some (hdr 0 v corr cid, acks, timeout, nested)
      ∧ nested = regroup (payloads.map (brokerPart ext.nowMs body magic tn))
      ∧ (∀ t q, (∃ e ∈ nested, e.1 = t ∧ q ∈ e.2) ↔
          ∃ p ∈ payloads, t = tn p.tp.topic ∧ q = (p.tp.part, p.msgs.map (brokerEntry ext.nowMs body magic))) := by
  have hk := keyed_wireReq ext body magic tn payloads
  have hnd' : ((payloads.map (wireReq ext body magic tn)).map (fun p => (p.topic, p.partition))).Nodup := by
    have : (payloads.map (wireReq ext body magic tn)).map (fun p => (p.topic, p.partition))
        = (payloads.map (fun p => (tn p.tp.topic, p.tp.part))).map (fun x => (some x.1, x.2)) := by
      simp only [List.map_map]; rfl
    rw [this]
    exact List.Pairwise.map _ (fun a b hab h => hab (by
      have h1 := congrArg Prod.fst h
      have h2 := congrArg Prod.snd h
      simp only [Option.some.injEq] at h1 h2
      exact Prod.ext h1 h2)) hnd
  have hascii' : ∀ e ∈ regroup (payloads.map (brokerPart ext.nowMs body magic tn)), isAscii e.1 = true := by
    intro e he
    unfold regroup at he
    obtain ⟨u, hu, rfl⟩ := List.mem_map.mp he
    obtain ⟨x, hx, rfl⟩ := List.mem_map.mp ((mem_firstOccurrences _ _).mp hu)
    obtain ⟨p, hp, rfl⟩ := List.mem_map.mp hx
    exact hascii p hp
  obtain ⟨frame, hframe⟩ := produce_total hv hk hnd' hvalid hascii'
  refine ⟨frame, _, hframe, ?_, rfl, ?_⟩
  · rw [produce_bytes hframe hv hk]
    exact (Spec.request (Spec.produceRequest ext.crc)).law _ hvalid
  · intro t q
    rw [regroup_mem]
    constructor
    · intro h
      obtain ⟨p, hp, he⟩ := List.mem_map.mp h
      refine ⟨p, hp, ?_, ?_⟩
      · exact (congrArg Prod.fst he).symm
      · exact (congrArg Prod.snd he).symm
    · rintro ⟨p, hp, rfl, rfl⟩
      exact List.mem_map.mpr ⟨p, hp, rfl⟩

/-! ## non-vacuity: a concrete payload that meets every hypothesis -/

/-- externals for the examples: a checksum, a "compressor" that prefixes a byte and its inverse -/
def exExt : Ext :=
  { crc := fun bs => bs.length * 2654435761 + 7,
    gzip := fun b => .ok (31 :: b),
    gunzip := fun z => match z with | some (_ :: b) => .ok b | _ => .error .extMissing,
    snappy := fun _ => .error .notImplemented, unsnappy := fun _ => .error .notImplemented, nowMs := 1500000000123 }
def exBody (n : Nat) : Bytes := List.replicate n 120
/-- two sends on one partition: a keyed one with a value and a null message, an unkeyed one with an empty value -/
def exRs : List Req := [⟨0, 0, some [107], [some 3, none]⟩, ⟨1, 0, none, [some 0]⟩]
def exP : Payload := ⟨⟨0, 0⟩, [0, 1], [⟨some [107], some 3⟩, ⟨some [107], none⟩, ⟨none, some 0⟩]⟩
def exP2 : Payload := ⟨⟨1, 2⟩, [2], [⟨none, some 1⟩]⟩
def exTn (t : Topic) : Bytes := [116, 48 + t.toUInt8]

example : exP.msgs = exRs.flatMap (·.wire) := by decide
example : (Spec.messageSet exExt.crc).valid (exP.msgs.map (brokerEntry exExt.nowMs exBody 1)) = true := by decide +kernel
example : (Spec.messageSet exExt.crc).valid (exP.msgs.map (brokerEntry exExt.nowMs exBody 0)) = true := by decide +kernel
/-- the conclusion on the instance: what the grammar reads back is the three caller messages, keys and order -/
example : ∃ bytes, encodeMessageSet exExt (exP.msgs.map (wireMsg exExt exBody 1)) none 1 = .ok bytes
    ∧ ((Spec.messageSet exExt.crc).dec bytes).map (·.map (fun e => (e.2.key, e.2.value)))
        = some [(some [107], some [120, 120, 120]), (some [107], none), (none, some [])] := ⟨_, rfl, by decide +kernel⟩
example : ∀ b z, exExt.gzip b = .ok z → exExt.gunzip (some z) = .ok b := by
  intro b z h; cases h; rfl
example : ∃ ms, createMessageSet exExt (exRs.map (sendArg exBody)) codecGzip 1 = .ok ms := ⟨_, rfl⟩
example : (Spec.messageSet exExt.crc).valid [wrapperEntry exExt.nowMs 1
    (31 :: (Spec.messageSet exExt.crc).enc (exP.msgs.map (brokerEntry exExt.nowMs exBody 1)))] = true := by decide +kernel
example : implementedVersion 8 = some 2 := by decide
example : ([exP, exP2].map (fun p => (exTn p.tp.topic, p.tp.part))).Nodup := by decide
example : ∀ p ∈ [exP, exP2], isAscii (exTn p.tp.topic) = true := by decide
example : (Spec.request (Spec.produceRequest exExt.crc)).valid
    (hdr 0 2 5 [99], -1, 1000, regroup ([exP, exP2].map (brokerPart exExt.nowMs exBody 1 exTn))) = true := by decide +kernel

end Afkak.Producer.WireBytes
