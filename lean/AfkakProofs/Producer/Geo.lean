import AfkakProofs.Producer.RelStep
import AfkakProofs.Producer.Sids
import AfkakProofs.Producer.Stop
import AfkakProofs.Producer.AccTrace
/-! C09 geometric delays: the k-th timer set since the batch in flight was dispatched waits
`init * factor^k`; the count restarts when the batch resolves. -/
namespace Afkak.Producer
open Afkak.Consts Afkak.Monitor.ProducerTrace Afkak.Monitor.C09

/-- no timer is set in `obs` -/
def noTimer (obs : List Ob) : Prop := ∀ tid d, Ob.setTimer tid d ∉ obs

theorem noTimer_of_shape {obs : List Ob} (h : shapeOf obs = [] ∨ ∃ rid ps, shapeOf obs = [.produce rid ps]) : noTimer obs := by
  intro tid d hm
  have : Ob.setTimer tid d ∈ shapeOf obs := List.mem_filter.mpr ⟨hm, rfl⟩
  rcases h with h | ⟨rid, ps, h⟩ <;> (rw [h] at this; simp at this)

/-- what a step does to the retry interval, the timers and the queue (`q`: the queue a dispatch in
    this step would have taken) -/
inductive GeoOut (cfg : Cfg) (st st' : St) (obs : List Ob) (q : List Sid) : Prop
  | quiet : st'.interval = st.interval → noTimer obs → (∀ x ∈ q, x ∈ queued st') → GeoOut cfg st st' obs q
  | timer (tid : Tid) : st'.interval = st.interval * producerRetryFactor → shapeOf obs = [.setTimer tid st.interval] →
      st'.phase ≠ .idle → (∀ x ∈ q, x ∈ queued st') → GeoOut cfg st st' obs q
  | reset : st'.interval = cfg.initInterval → noTimer obs → (st'.phase = .idle ∨ (q ≠ [] ∧ st'.queue = [])) →
      GeoOut cfg st st' obs q

theorem landed_noTimer {cfg : Cfg} {a : Int} {iv : Rat} {nt : Tid} {st' : St} {obs : List Ob} (h : Landed cfg a iv nt st' obs) :
    noTimer obs := by
  cases h with
  | idle _ _ _ h4 => exact noTimer_of_shape (Or.inl h4)
  | lookups _ _ _ _ _ _ h6 => exact noTimer_of_shape (Or.inl h6)
  | sending _ _ _ _ _ _ h5 _ => exact noTimer_of_shape (Or.inr ⟨_, _, h5⟩)

theorem landed_interval {cfg : Cfg} {a : Int} {iv : Rat} {nt : Tid} {st' : St} {obs : List Ob} (h : Landed cfg a iv nt st' obs) :
    st'.interval = iv ∨ (st'.phase = .idle ∧ st'.interval = cfg.initInterval) := by
  cases h with
  | idle h1 _ h3 _ => exact Or.inr ⟨h1, h3⟩
  | lookups _ _ _ _ _ h5 _ => exact Or.inl h5
  | sending _ _ _ _ _ h4 _ _ => exact Or.inl h4

/-- `_send_batch`: nothing at all, or (from idle) the whole non-empty queue was taken -/
theorem sendBatch_cases (cfg : Cfg) (st : St) :
    sendBatch cfg st = (st, []) ∨
    (st.phase = .idle ∧ st.queue ≠ [] ∧ (sendBatch cfg st).1.queue = [] ∧ noTimer (sendBatch cfg st).2 ∧
      ((sendBatch cfg st).1.interval = st.interval ∨
       ((sendBatch cfg st).1.phase = .idle ∧ (sendBatch cfg st).1.interval = cfg.initInterval))) := by
  obtain ⟨c1, _, _⟩ := sendBatch_spec cfg st
  rcases c1 with ⟨e1, e2⟩ | ⟨h1, h2, h3, l⟩
  · left; exact Prod.ext e1 e2
  · right
    have hd : sendBatch cfg st = dispatch cfg st := by
      simp only [sendBatch]; split
      · rfl
      · rename_i hc; exfalso; apply hc
        simp only [canDispatch, Bool.and_eq_true, Bool.not_eq_eq_eq_not, Bool.not_true, beq_iff_eq]
        refine ⟨⟨?_, h1⟩, h2⟩
        cases hq : st.queue with
        | nil => exact absurd hq h3
        | cons a b => rfl
    exact ⟨h1, h3, by rw [hd]; exact dispatch_emptied cfg st, landed_noTimer l, landed_interval l⟩

theorem checkSendBatch_cases (cfg : Cfg) (st : St) :
    checkSendBatch cfg st = (st, []) ∨
    (st.phase = .idle ∧ st.queue ≠ [] ∧ (checkSendBatch cfg st).1.queue = [] ∧ noTimer (checkSendBatch cfg st).2 ∧
      ((checkSendBatch cfg st).1.interval = st.interval ∨
       ((checkSendBatch cfg st).1.phase = .idle ∧ (checkSendBatch cfg st).1.interval = cfg.initInterval))) := by
  simp only [checkSendBatch]; split
  · exact sendBatch_cases cfg st
  · exact Or.inl rfl

theorem queued_ne_nil {st : St} (h : st.queue ≠ []) : queued st ≠ [] := by
  intro hc; simp [queued] at hc; exact h hc

/-- `_send_batch` / `_check_send_batch` from a state whose interval is initial when idle -/
theorem geo_of_cases {cfg : Cfg} {st : St} {r : St × List Ob} (hi : st.phase = .idle → st.interval = cfg.initInterval)
    (h : r = (st, []) ∨ (st.phase = .idle ∧ st.queue ≠ [] ∧ r.1.queue = [] ∧ noTimer r.2 ∧
      (r.1.interval = st.interval ∨ (r.1.phase = .idle ∧ r.1.interval = cfg.initInterval)))) :
    GeoOut cfg st r.1 r.2 (queued st) := by
  rcases h with h | ⟨h1, h2, h3, h4, h5⟩
  · rw [h]; exact .quiet rfl (fun _ _ hm => (by cases hm)) (fun x hx => hx)
  · refine .reset ?_ h4 (Or.inr ⟨queued_ne_nil h2, h3⟩)
    rcases h5 with h | ⟨_, h⟩
    · rw [h]; exact hi h1
    · exact h

/-- the completion hook: the interval is back at its initial value, and either nothing is in flight
    or the whole (non-empty) queue was taken -/
theorem completeBatch_geo (cfg : Cfg) (st : St) :
    (completeBatch cfg st).1.interval = cfg.initInterval ∧ noTimer (completeBatch cfg st).2 ∧
    ((completeBatch cfg st).1.phase = .idle ∨ (queued st ≠ [] ∧ (completeBatch cfg st).1.queue = [])) := by
  simp only [completeBatch]
  rcases checkSendBatch_cases cfg (resetBatch cfg st) with h | ⟨_, h2, h3, h4, h5⟩
  · rw [h]; exact ⟨rfl, fun _ _ hm => (by cases hm), Or.inl rfl⟩
  · refine ⟨?_, h4, Or.inr ⟨queued_ne_nil h2, h3⟩⟩
    rcases h5 with h | ⟨_, h⟩
    · rw [h]; rfl
    · exact h

end Afkak.Producer

namespace Afkak.Producer
open Afkak.Consts Afkak.Monitor.ProducerTrace Afkak.Monitor.C09

def qOf (st : St) : Ev → List Sid
  | .send sid _ _ msgs => if sid = st.nextSid ∧ msgs.isEmpty = false ∧ st.stopping = false then queued st ++ [sid] else queued st
  | .cancel sid => (queued st).filter (· ≠ sid)
  | .stop .. => []
  | _ => queued st

theorem GeoOut.same {cfg : Cfg} {st st' : St} {obs : List Ob} {q : List Sid} (hi : st'.interval = st.interval)
    (hs : shapeOf obs = []) (hq : ∀ x ∈ q, x ∈ queued st') : GeoOut cfg st st' obs q :=
  .quiet hi (noTimer_of_shape (Or.inl hs)) hq

/-- after a look-up moved: interval untouched (still in flight), or reset by the completion hook -/
theorem afterLookups_geo (cfg : Cfg) (s : St) (ls : List Lookup) (obs0 : List Ob)
    (h0 : ls.all (·.pc.isDone) = true → shapeOf obs0 = []) (he : onlyErr obs0) :
    ((afterLookups cfg s ls obs0).1.interval = s.interval ∧ (afterLookups cfg s ls obs0).1.queue = s.queue ∧
      (afterLookups cfg s ls obs0).1.phase ≠ .idle ∧
      (∀ tid d, Ob.setTimer tid d ∈ (afterLookups cfg s ls obs0).2 → Ob.setTimer tid d ∈ obs0)) ∨
    ((afterLookups cfg s ls obs0).1.interval = cfg.initInterval ∧ noTimer (afterLookups cfg s ls obs0).2 ∧
      ((afterLookups cfg s ls obs0).1.phase = .idle ∨ (queued s ≠ [] ∧ (afterLookups cfg s ls obs0).1.queue = []))) := by
  simp only [afterLookups]
  split
  · rename_i hd
    have hs0 := h0 hd
    obtain ⟨q1, q2, _, q4⟩ := sendRequests_spec { s with phase := .lookups ls } ls
    have hsq := sendRequests_sameQ { s with phase := .lookups ls } ls
    rcases q4 with ⟨r1, _, _, r4⟩ | ⟨r1, _, b, r2, _, _, r5⟩
    · rw [r1]; simp only [if_true]
      right
      obtain ⟨c1, c2, c3⟩ := completeBatch_geo cfg (sendRequests { s with phase := .lookups ls } ls).1
      refine ⟨c1, ?_, ?_⟩
      · intro tid d hm
        rcases List.mem_append.mp hm with hm | hm
        · rcases List.mem_append.mp hm with hm | hm
          · exact noTimer_of_shape (Or.inl hs0) tid d hm
          · exact noTimer_of_shape (Or.inl r4) tid d hm
        · exact c2 tid d hm
      · rcases c3 with c3 | ⟨c3, c4⟩
        · exact Or.inl c3
        · refine Or.inr ⟨?_, c4⟩
          simpa [queued, hsq.1] using c3
    · rw [r1]; simp only [Bool.false_eq_true, if_false]
      left
      refine ⟨q2, hsq.1, by rw [r2]; exact fun hc => (by cases hc), ?_⟩
      intro tid d hm
      rcases List.mem_append.mp hm with hm | hm
      · exact hm
      · exact absurd hm (noTimer_of_shape (Or.inr ⟨_, _, r5⟩) tid d)
  · left
    exact ⟨rfl, rfl, fun hc => (by cases hc), fun tid d hm => hm⟩

theorem afterLookups_pending (cfg : Cfg) (s : St) (ls : List Lookup) (obs0 : List Ob) (h : ls.all (·.pc.isDone) = false) :
    afterLookups cfg s ls obs0 = ({ s with phase := .lookups ls }, obs0) := by
  simp [afterLookups, h]

end Afkak.Producer

namespace Afkak.Producer
open Afkak.Consts Afkak.Monitor.ProducerTrace Afkak.Monitor.C09

theorem noTimer_nofire_shape {obs : List Ob} (h : shapeOf obs = []) : noTimer obs := noTimer_of_shape (Or.inl h)

/-- the look-up part of a `timer` / `metaDone` step followed by `afterLookups`, when the look-up's own
    step did not touch the interval -/
theorem geo_afterL_plain (cfg : Cfg) (st s : St) (ls : List Lookup) (obs0 : List Ob) (q : List Sid)
    (hiv : s.interval = st.interval) (hq : s.queue = st.queue) (hqq : q = queued st)
    (hs0 : shapeOf obs0 = []) (he : onlyErr obs0) :
    GeoOut cfg st (afterLookups cfg s ls obs0).1 (afterLookups cfg s ls obs0).2 q := by
  rcases afterLookups_geo cfg s ls obs0 (fun _ => hs0) he with ⟨a1, a2, _, a4⟩ | ⟨b1, b2, b3⟩
  · refine .quiet (by rw [a1, hiv]) ?_ (by rw [hqq]; intro x hx; simpa [queued, a2, hq] using hx)
    intro tid d hm; exact noTimer_nofire_shape hs0 tid d (a4 tid d hm)
  · refine .reset b1 b2 ?_
    rcases b3 with b3 | ⟨b3, b4⟩
    · exact Or.inl b3
    · exact Or.inr ⟨by rw [hqq]; simpa [queued, hq] using b3, b4⟩

theorem metaContinue_interval (cfg : Cfg) (st : St) (r : Req) (res : MetaRes) :
    ((metaContinue cfg st r res).2.1 = .waitBackoff st.nextTid ∧
      (metaContinue cfg st r res).1.interval = st.interval * producerRetryFactor ∧
      shapeOf (metaContinue cfg st r res).2.2 = [.setTimer st.nextTid st.interval]) ∨
    ((metaContinue cfg st r res).2.1.isDone = true ∧ (metaContinue cfg st r res).1.interval = st.interval ∧
      shapeOf (metaContinue cfg st r res).2.2 = []) := by
  cases res with
  | err k => right; simp [metaContinue, LPc.isDone, shapeOf]
  | ok =>
    simp only [metaContinue]
    split
    · right; simp [LPc.isDone, shapeOf]
    · split
      · right; refine ⟨rfl, by rw [pickPartition_frame], rfl⟩
      · left; exact ⟨rfl, rfl, by simp [shapeOf, isShape, List.filter_cons]⟩

/-- `_batch_send_d.cancel()` under `stopping`: the interval is kept, or the batch resolved (idle, reset) -/
theorem cancelBatch_geo (cfg : Cfg) (st : St) (wipe : Bool) (pout : Option ProdRes) (mouts : List (Rid × MetaRes))
    (h : st.stopping = true) :
    shapeOf (cancelBatch cfg st wipe pout mouts).2 = [] ∧
    ((cancelBatch cfg st wipe pout mouts).1.interval = st.interval ∨
     ((cancelBatch cfg st wipe pout mouts).1.interval = cfg.initInterval ∧ (cancelBatch cfg st wipe pout mouts).1.phase = .idle)) := by
  simp only [cancelBatch]
  cases hph : st.phase with
  | idle => exact ⟨rfl, Or.inl rfl⟩
  | lookups ls =>
    simp only [cancelLookups]
    rw [afterLookups_stopped cfg _ _ _ (by exact h)]
    have hsh : shapeOf ((ls.map (cancelLookup mouts)).flatMap (·.2.2)) = [] := by
      rw [List.flatMap_map]; exact flatMap_shape _ _ (cancelLookup_shape mouts)
    split
    · exact ⟨hsh, Or.inr ⟨rfl, rfl⟩⟩
    · exact ⟨hsh, Or.inl rfl⟩
  | sending rid b =>
    cases pout with
    | none => exact ⟨by simp [cancelSending, shapeOf, isShape], Or.inl rfl⟩
    | some r =>
      simp only [cancelSending]
      have key : ∀ s : St, s.stopping = true →
          shapeOf (finish cfg (handleSendResponse cfg s b r)).2 = [] ∧
          (finish cfg (handleSendResponse cfg s b r)).1.interval = cfg.initInterval ∧
          (finish cfg (handleSendResponse cfg s b r)).1.phase = .idle := by
        intro s hs
        obtain ⟨h1, _, _⟩ := handleSendResponse_stopped cfg s b r hs
        have hst : (handleSendResponse cfg s b r).1.stopping = true := by
          rw [(handleSendResponse_stat cfg s b r).2.1]; exact hs
        obtain ⟨_, hd⟩ := handleSendResponse_spec cfg s b r
        have hsh : shapeOf (handleSendResponse cfg s b r).2.1 = [] := by
          generalize hres : (handleSendResponse cfg s b r).2.2 = resolved at hd
          cases hd with
          | resolved _ _ _ _ d5 => exact d5
          | retry _ _ _ _ d5 => rw [hs] at d5; cases d5
        simp only [finish, h1, if_true, completeBatch_stopped cfg _ hst, List.append_nil]
        exact ⟨hsh, rfl, rfl⟩
      cases wipe with
      | false =>
        obtain ⟨k1, k2, k3⟩ := key st h
        exact ⟨by rw [shapeOf_cons_nonshape _ _ rfl]; exact k1, Or.inr ⟨k2, k3⟩⟩
      | true =>
        obtain ⟨k1, k2, k3⟩ := key { st with tmeta := [] } h
        exact ⟨by rw [shapeOf_cons_nonshape _ _ rfl]; exact k1, Or.inr ⟨k2, k3⟩⟩
  | retryWait tid b tps =>
    simp only [cancelRetryWait]
    obtain ⟨_, d2, _, _, _, _, d7⟩ := deliverAll_spec st b (.err .tcancelled)
    have hst : (deliverAll st b (.err .tcancelled)).1.stopping = true := by
      rw [(deliverAll_stat st b _).2.1]; exact h
    simp only [finish, d2, if_true, completeBatch_stopped cfg _ hst, List.append_nil]
    exact ⟨by rw [shapeOf_cons_nonshape _ _ rfl]; exact d7, Or.inr ⟨rfl, rfl⟩⟩

theorem geo_step (cfg : Cfg) (st : St) (e : Ev) (hi : st.phase = .idle → st.interval = cfg.initInterval) :
    GeoOut cfg st (step cfg st e).1 (step cfg st e).2 (qOf st e) := by
  cases e with
  | send sid topic key msgs =>
    simp only [step, qOf]
    split
    · rename_i hs
      have : ¬ (sid = st.nextSid ∧ msgs.isEmpty = false ∧ st.stopping = false) := fun h => hs h.1
      rw [if_neg this]; exact GeoOut.same rfl (by simp [shapeOf, isShape]) (fun x hx => hx)
    · rename_i hs
      have hs' : sid = st.nextSid := by simpa using hs
      split
      · rename_i hm
        have : ¬ (sid = st.nextSid ∧ msgs.isEmpty = false ∧ st.stopping = false) := fun h => by
          rw [h.2.1, h.2.2] at hm; cases hm
        rw [if_neg this]; exact GeoOut.same rfl (by simp [shapeOf, isShape]) (fun x hx => hx)
      · rename_i hm
        have hm' : msgs.isEmpty = false ∧ st.stopping = false := by
          cases h1 : msgs.isEmpty <;> cases h2 : st.stopping <;> simp [h1, h2] at hm ⊢
        rw [if_pos ⟨hs', hm'⟩]
        simp only [doSend]
        have g := geo_of_cases (cfg := cfg) (st := enqueue st sid topic key msgs) (r := checkSendBatch cfg (enqueue st sid topic key msgs))
          hi (checkSendBatch_cases cfg _)
        have hq : queued (enqueue st sid topic key msgs) = queued st ++ [sid] := by simp [queued, enqueue]
        rw [hq] at g
        cases g with
        | quiet a1 a2 a3 => exact .quiet a1 a2 a3
        | timer tid a1 a2 a3 a4 => exact .timer tid a1 a2 a3 a4
        | reset a1 a2 a3 => exact .reset a1 a2 a3
  | cancel sid =>
    simp only [step, qOf]; split
    · obtain ⟨_, c2, _, _, c5, _⟩ := cancelSend_spec st sid
      refine GeoOut.same c5 c2 ?_
      intro x hx
      obtain ⟨hx1, hx2⟩ := List.mem_filter.mp hx
      rcases cancelSend_queue st sid with h | h
      · simpa [queued, h] using hx1
      · simp only [queued, h, List.mem_map, List.mem_filter] at hx1 ⊢
        obtain ⟨r, hr, hre⟩ := hx1
        exact ⟨r, ⟨hr, by rw [hre]; simpa using hx2⟩, hre⟩
    · exact GeoOut.same rfl (by simp [shapeOf, isShape]) (fun x hx => (List.mem_filter.mp hx).1)
  | tick =>
    simp only [step, qOf]; split
    · exact geo_of_cases hi (sendBatch_cases cfg st)
    · exact GeoOut.same rfl (by simp [shapeOf, isShape]) (fun x hx => hx)
  | timer tid =>
    have zomb : GeoOut cfg st (zombieTimer st tid).1 (zombieTimer st tid).2 (queued st) := by
      obtain ⟨_, _, _, _, z5, z6⟩ := zombieTimer_same st tid
      refine GeoOut.same z5 z6 ?_
      intro x hx
      have : (zombieTimer st tid).1.queue = st.queue := by simp only [zombieTimer]; split <;> rfl
      simpa [queued, this] using hx
    simp only [step, qOf]
    split
    · rename_i ls hp
      simp only [timerLookups]
      split
      · rename_i l _
        obtain ⟨s1, _, _, s4, _, _, _⟩ := lookupHead_spec cfg st l.req
        exact geo_afterL_plain cfg st _ _ _ _ s4 (lookupHead_sameQ cfg st l.req).1 rfl s1
          (nofire_onlyErr (lookupHead_nofire cfg st l.req))
      · exact zomb
    · split
      · refine .quiet rfl ?_ (fun x hx => hx)
        intro t' d hm; simp [doRetry] at hm
      · exact zomb
    · exact zomb
  | advance dt => exact GeoOut.same rfl rfl (fun x hx => hx)
  | metaSet topic err parts => exact GeoOut.same rfl rfl (fun x hx => hx)
  | metaReset topics => exact GeoOut.same rfl rfl (fun x hx => hx)
  | metaWipe => exact GeoOut.same rfl rfl (fun x hx => hx)
  | metaDone rid res =>
    simp only [step, qOf]; split
    · rename_i ls hp
      simp only [metaDoneLookups]
      split
      · rename_i l hl
        have hsq := metaContinue_sameQ cfg st l.req res
        have hne := nofire_onlyErr (metaContinue_nofire cfg st l.req res)
        rcases metaContinue_interval cfg st l.req res with ⟨e1, e2, e3⟩ | ⟨e1, e2, e3⟩
        · -- backs off: a timer with the current interval; the look-ups stay pending
          have hnd : (setPc ls (.waitMeta rid) (metaContinue cfg st l.req res).2.1).all (·.pc.isDone) = false :=
            allDone_setPc ls _ _ l hl (by rw [e1]; rfl)
          rw [afterLookups_pending cfg _ _ _ hnd]
          exact .timer st.nextTid e2 e3 (fun hc => (by cases hc)) (fun x hx => by simpa [queued, hsq.1] using hx)
        · exact geo_afterL_plain cfg st _ _ _ _ e2 hsq.1 rfl e3 hne
      · exact GeoOut.same rfl (by simp [shapeOf, isShape]) (fun x hx => hx)
    · exact GeoOut.same rfl (by simp [shapeOf, isShape]) (fun x hx => hx)
  | produceDone rid res =>
    simp only [step, qOf]; split
    · rename_i r b hp
      split
      · obtain ⟨_, hd⟩ := handleSendResponse_spec cfg st b res
        have hsq := handleSendResponse_sameQ cfg st b res
        generalize hres : (handleSendResponse cfg st b res).2.2 = resolved at hd
        have hfe : finish cfg (handleSendResponse cfg st b res) =
            finish cfg ((handleSendResponse cfg st b res).1, (handleSendResponse cfg st b res).2.1, resolved) := by rw [← hres]
        rw [hfe]
        cases hd with
        | resolved d1 _ d3 _ d5 =>
          obtain ⟨f1, f2⟩ := (finish_spec cfg (handleSendResponse cfg st b res).1 (handleSendResponse cfg st b res).2.1 true).2 rfl
          rw [f1, f2]
          obtain ⟨c1, c2, c3⟩ := completeBatch_geo cfg (handleSendResponse cfg st b res).1
          refine .reset c1 ?_ ?_
          · intro tid d hm
            rcases List.mem_append.mp hm with hm | hm
            · exact noTimer_nofire_shape d5 tid d hm
            · exact c2 tid d hm
          · rcases c3 with c3 | ⟨c3, c4⟩
            · exact Or.inl c3
            · exact Or.inr ⟨by simpa [queued, hsq.1] using c3, c4⟩
        | retry d1 _ _ _ _ d6 _ d8 =>
          rw [(finish_spec cfg (handleSendResponse cfg st b res).1 (handleSendResponse cfg st b res).2.1 false).1 rfl]
          exact .timer st.nextTid d6 d8 (by rw [d1]; exact fun hc => (by cases hc)) (fun x hx => by simpa [queued, hsq.1] using hx)
      · exact GeoOut.same rfl (by simp [shapeOf, isShape]) (fun x hx => hx)
    · exact GeoOut.same rfl (by simp [shapeOf, isShape]) (fun x hx => hx)
  | stop wipe pout mouts =>
    simp only [step, qOf]; split
    · exact GeoOut.same rfl (by simp [shapeOf, isShape]) (fun x hx => by cases hx)
    · -- under `stopping` nothing is dispatched and no timer is set; the interval is kept or reset
      obtain ⟨c1, c2⟩ := cancelBatch_geo cfg { st with stopping := true } wipe pout mouts rfl
      have tail : ∀ (s3 : St) (o3 : List Ob),
          s3.interval = (cancelBatch cfg { st with stopping := true } wipe pout mouts).1.interval →
          s3.phase = (cancelBatch cfg { st with stopping := true } wipe pout mouts).1.phase → shapeOf o3 = [] →
          GeoOut cfg st (cancelAll s3 s3.outstanding).1
            ((cancelBatch cfg { st with stopping := true } wipe pout mouts).2 ++ o3 ++ (cancelAll s3 s3.outstanding).2) [] := by
        intro s3 o3 hiv hp ho
        obtain ⟨_, a2, a3, _, a5, _⟩ := cancelAll_spec s3 s3.outstanding
        have hsh : shapeOf ((cancelBatch cfg { st with stopping := true } wipe pout mouts).2 ++ o3 ++ (cancelAll s3 s3.outstanding).2) = [] := by
          rw [shapeOf_append, shapeOf_append, c1, ho, a2]; rfl
        rcases c2 with c2 | ⟨c2, c3⟩
        · exact .quiet (by rw [a5, hiv, c2]) (noTimer_nofire_shape hsh) (fun x hx => by cases hx)
        · exact .reset (by rw [a5, hiv, c2]) (noTimer_nofire_shape hsh) (Or.inl (by rw [a3, hp, c3]))
      simp only [doStop]
      split
      · exact tail { (cancelBatch cfg { st with stopping := true } wipe pout mouts).1 with looper := false } _ rfl rfl
          (by simp [shapeOf, isShape])
      · exact tail (cancelBatch cfg { st with stopping := true } wipe pout mouts).1 _ rfl rfl rfl

end Afkak.Producer

namespace Afkak.Producer
open Afkak.Consts Afkak.Monitor.ProducerTrace Afkak.Monitor.C09

/-! ### the monitor's timer count and the geometric check -/

def isTimer : Ob → Bool
  | .setTimer .. => true
  | _ => false

def nTimers (obs : List Ob) : Nat := (obs.filter isTimer).length

theorem trackOb_tsr (e : Ev) (r : Bool) (t : Track) (o : Ob) :
    (trackOb e r t o).timersSinceReset = t.timersSinceReset + (if isTimer o then 1 else 0) := by
  cases o <;> simp [trackOb, isTimer]

theorem foldl_tsr (e : Ev) (r : Bool) (obs : List Ob) (t : Track) :
    (obs.foldl (trackOb e r) t).timersSinceReset = t.timersSinceReset + nTimers obs := by
  induction obs generalizing t with
  | nil => simp [nTimers]
  | cons o rest ih =>
    rw [List.foldl_cons, ih, trackOb_tsr]
    simp only [nTimers, List.filter_cons]
    split <;> simp <;> omega

theorem trackEv_tsr (pre : Snap) (t : Track) (e : Ev) : (trackEv pre t e).timersSinceReset = t.timersSinceReset := by
  simp only [trackEv]
  repeat' split
  all_goals rfl

theorem nTimers_noTimer {obs : List Ob} (h : noTimer obs) : nTimers obs = 0 := by
  simp only [nTimers, List.length_eq_zero_iff, List.filter_eq_nil_iff]
  intro o ho
  cases o with
  | setTimer tid d => exact absurd ho (h tid d)
  | _ => simp [isTimer]

theorem nTimers_shape (obs : List Ob) : nTimers obs = nTimers (shapeOf obs) := by
  simp only [nTimers, shapeOf, List.filter_filter]
  congr 1
  apply List.filter_congr
  intro o _; cases o <;> simp [isTimer, isShape]

theorem geoOk_tsr (cfg : Cfg) (tol : Rat) (t t' : Track) (o : Ob) (h : t.timersSinceReset = t'.timersSinceReset) :
    geometricOk cfg tol t o = geometricOk cfg tol t' o := by
  cases o <;> simp only [geometricOk, h]

theorem geo_check_noTimer (cfg : Cfg) (tol : Rat) (e : Ev) (r : Bool) (obs : List Ob) (t0 : Track) (h : noTimer obs) :
    checkObs (geometricOk cfg tol) e r t0 obs = true := by
  induction obs generalizing t0 with
  | nil => rfl
  | cons o rest ih =>
    simp only [checkObs, Bool.and_eq_true]
    refine ⟨?_, ih _ (fun tid d hm => h tid d (List.mem_cons_of_mem _ hm))⟩
    cases o with
    | setTimer tid d => exact absurd List.mem_cons_self (h tid d)
    | _ => rfl

theorem geo_check_timer (cfg : Cfg) (tol : Rat) (e : Ev) (r : Bool) (obs : List Ob) (t0 : Track) (tid : Tid) (d : Rat)
    (h : shapeOf obs = [.setTimer tid d]) (hok : geometricOk cfg tol t0 (.setTimer tid d) = true) :
    checkObs (geometricOk cfg tol) e r t0 obs = true := by
  induction obs generalizing t0 with
  | nil => simp [shapeOf] at h
  | cons o rest ih =>
    simp only [checkObs, Bool.and_eq_true]
    by_cases hs : isShape o = true
    · have h' : o :: shapeOf rest = [.setTimer tid d] := by
        simpa [shapeOf, List.filter_cons, hs] using h
      injection h' with h1 h2
      subst h1
      exact ⟨hok, geo_check_noTimer cfg tol e r rest _ (noTimer_of_shape (Or.inl h2))⟩
    · have hs' : isShape o = false := by simpa using hs
      have h' : shapeOf rest = [.setTimer tid d] := by
        simpa [shapeOf, List.filter_cons, hs'] using h
      have hnt : isTimer o = false := by cases o <;> simp_all [isShape, isTimer]
      refine ⟨by cases o <;> simp_all [geometricOk, isShape], ih _ h' ?_⟩
      rw [← geoOk_tsr cfg tol t0 _ _ (by rw [trackOb_tsr, hnt]; simp)]
      exact hok

theorem closeTo_refl (a : Rat) : closeTo 0 a a = true := by
  simp [closeTo, Rat.sub_self, Rat.zero_mul]

end Afkak.Producer

namespace Afkak.Producer
open Afkak.Consts Afkak.Monitor.ProducerTrace Afkak.Monitor.C09

theorem factor_gt_one : (1 : Rat) < producerRetryFactor := by decide +kernel

theorem track_tsr (pre : Snap) (t : Track) (s : Step) :
    ((s.post.idle || dispatched t.nextSid t.stopped pre s) = true → (track pre t s).timersSinceReset = 0) ∧
    ((s.post.idle || dispatched t.nextSid t.stopped pre s) = false →
      (track pre t s).timersSinceReset = t.timersSinceReset + nTimers s.obs) := by
  constructor
  · intro h; simp only [track, h, if_true]
  · intro h
    simp only [track, h, Bool.false_eq_true, if_false]
    split <;> simp only [foldl_tsr, trackEv_tsr]

theorem dispatched_eq (st : St) (e : Ev) (obs : List Ob) (st' : St) :
    dispatched st.nextSid st.stopping (snapOf st) { ev := e, obs := obs, post := snapOf st' } =
      (qOf st e).any (fun x => x ∉ queued st') := by
  simp only [dispatched, qOf, snapOf, queued]
  cases e <;> rfl

/-- the relation for the geometric-delay monitor -/
structure GeoRel (cfg : Cfg) (st : St) (t : Track) (pre : Snap) : Prop where
  rel : Rel cfg st t
  ns : t.nextSid = st.nextSid
  g : st.interval = cfg.initInterval * producerRetryFactor ^ t.timersSinceReset
  snap : pre = snapOf st

theorem any_not_mem_false {q l : List Sid} (h : ∀ x ∈ q, x ∈ l) : q.any (fun x => x ∉ l) = false := by
  rw [List.any_eq_false]; intro x hx; simpa using h x hx

theorem geoRel_step (cfg : Cfg) (st : St) (t : Track) (pre : Snap) (e : Ev) (h : GeoRel cfg st t pre)
    (hns' : (track pre t (mkStep cfg st e)).nextSid = (step cfg st e).1.nextSid) :
    geometricStep cfg 0 pre t (mkStep cfg st e) = true ∧
    GeoRel cfg (step cfg st e).1 (track pre t (mkStep cfg st e)) (snapOf (step cfg st e).1) := by
  obtain ⟨hrel, hns, hg, hsnap⟩ := h
  subst hsnap
  obtain ⟨hrel', _, _, _⟩ := rel_step cfg st t (snapOf st) e hrel
  have go := geo_step cfg st e (fun hp => (hrel.idle0 hp).2)
  obtain ⟨hts1, hts0⟩ := track_tsr (snapOf st) t (mkStep cfg st e)
  have hdq : dispatched t.nextSid t.stopped (snapOf st) (mkStep cfg st e) = (qOf st e).any (fun x => x ∉ queued (step cfg st e).1) := by
    rw [hns, hrel.stopped]; exact dispatched_eq st e _ _
  have hpi : (mkStep cfg st e).post.idle = (snapOf (step cfg st e).1).idle := rfl
  have hobs : (mkStep cfg st e).obs = (step cfg st e).2 := rfl
  rw [hdq, hpi] at hts1 hts0
  rw [hobs] at hts0
  have hidle : (snapOf (step cfg st e).1).idle = true ↔ (step cfg st e).1.phase = .idle := by
    simp [snapOf]
  have hchk : ∀ (_ : checkObs (geometricOk cfg 0) e (isRetryStep t e) (trackEv (snapOf st) t e) (step cfg st e).2 = true),
      geometricStep cfg 0 (snapOf st) t (mkStep cfg st e) = true := fun c => c
  cases go with
  | quiet a1 a2 a3 =>
    refine ⟨hchk (geo_check_noTimer cfg 0 _ _ _ _ a2), hrel', hns', ?_, rfl⟩
    by_cases hi : (snapOf (step cfg st e).1).idle = true
    · rw [hts1 (by rw [hi]; rfl), (hrel'.idle0 (hidle.mp hi)).2]; simp [Rat.pow_zero, Rat.mul_one]
    · have hi' : (snapOf (step cfg st e).1).idle = false := by simpa using hi
      rw [hts0 (by rw [hi', any_not_mem_false a3]; rfl), nTimers_noTimer a2, a1, hg]; simp
  | timer tid a1 a2 a3 a4 =>
    refine ⟨hchk (geo_check_timer cfg 0 _ _ _ _ tid st.interval a2 ?_), hrel', hns', ?_, rfl⟩
    · simp only [geometricOk, Bool.and_eq_true, decide_eq_true_eq]
      refine ⟨factor_gt_one, ?_⟩
      rw [trackEv_tsr, ← hg]; exact closeTo_refl _
    · have hi' : (snapOf (step cfg st e).1).idle = false := by
        cases hc : (snapOf (step cfg st e).1).idle with
        | false => rfl
        | true => exact absurd (hidle.mp hc) a3
      have hnt : nTimers (step cfg st e).2 = 1 := by rw [nTimers_shape, a2]; rfl
      rw [hts0 (by rw [hi', any_not_mem_false a4]; rfl), hnt, a1, hg, Rat.pow_succ, Rat.mul_assoc]
  | reset a1 a2 a3 =>
    refine ⟨hchk (geo_check_noTimer cfg 0 _ _ _ _ a2), hrel', hns', ?_, rfl⟩
    have hc : ((snapOf (step cfg st e).1).idle || (qOf st e).any (fun x => x ∉ queued (step cfg st e).1)) = true := by
      rcases a3 with a3 | ⟨a3, a4⟩
      · rw [hidle.mpr a3]; rfl
      · rw [Bool.or_eq_true]; right
        cases hq : qOf st e with
        | nil => exact absurd hq a3
        | cons x rest => simp [queued, a4]
    rw [hts1 hc, a1]
    simp [Rat.pow_zero, Rat.mul_one]

end Afkak.Producer

namespace Afkak.Producer
open Afkak.Consts Afkak.Monitor.ProducerTrace Afkak.Monitor.C09

theorem geo_from (cfg : Cfg) (evs : List Ev) (st : St) (t : Track) (pre : Snap) (h : GeoRel cfg st t pre)
    (hs : SendsInv st t) : checkFrom (geometricStep cfg 0) pre t (traceFrom cfg st evs) = true := by
  induction evs generalizing st t pre with
  | nil => rfl
  | cons e rest ih =>
    have hs' := sends_step cfg st t pre e hs
    obtain ⟨e1, e2⟩ := track_sends pre t (mkStep cfg st e)
    have hs'' : SendsInv (step cfg st e).1 (track pre t (mkStep cfg st e)) :=
      ⟨by rw [e2]; exact hs'.ns, by rw [e1, e2]; exact hs'.lt, by rw [e1]; exact hs'.nodup, by rw [e1]; exact hs'.q, hs'.acc⟩
    obtain ⟨g1, g2⟩ := geoRel_step cfg st t pre e h hs''.ns
    simp only [traceFrom, checkFrom, Bool.and_eq_true]
    exact ⟨g1, ih _ _ _ g2 hs''⟩

theorem geometric_model (cfg : Cfg) (evs : List Ev) : geometric cfg 0 (traceOf cfg evs) = true :=
  geo_from cfg evs _ _ _ ⟨rel_init cfg, rfl, by simp [St.init, Rat.pow_zero, Rat.mul_one], rfl⟩
    ⟨rfl, by simp, by simp, by simp [St.init], acc_init cfg⟩

end Afkak.Producer
