import AfkakProofs.Producer.Spec
/-! C01 truthfulness at step level: in ANY state, a step fires `ok` only from the handler of the
produce result, for a response of that result with error 0, to sends riding on that response's payload. -/
namespace Afkak.Producer
open Afkak.Consts Afkak.Monitor.ProducerTrace

/-- fires in `obs` are failures, except those allowed by `P` -/
def FiresSat (P : Sid → Outcome → Prop) (obs : List Ob) : Prop := ∀ s o, Ob.fire s o ∈ obs → P s o

theorem onlyErr.sat {P : Sid → Outcome → Prop} {obs : List Ob} (h : onlyErr obs) (hp : ∀ s k, P s (.err k)) :
    FiresSat P obs := by
  intro s o hm; obtain ⟨k, hk⟩ := h s o hm; subst hk; exact hp s k

theorem nofire_onlyErr {obs : List Ob} (h : firedSids obs = []) : onlyErr obs := by
  apply onlyErr_of_nofire
  intro s o hm
  have : s ∈ firedSids obs := by simp only [firedSids, List.mem_filterMap]; exact ⟨_, hm, rfl⟩
  rw [h] at this; cases this

theorem finish_onlyErr_tail (cfg : Cfg) (r : St × List Ob × Bool) :
    ∃ tail, (finish cfg r).2 = r.2.1 ++ tail ∧ onlyErr tail := by
  simp only [finish]
  split
  · exact ⟨_, rfl, (completeBatch_spec cfg r.1).2.1⟩
  · exact ⟨[], by simp, onlyErr_nil⟩

theorem zombieTimer_onlyErr (st : St) (tid : Tid) : onlyErr (zombieTimer st tid).2 := by
  simp only [zombieTimer]; split
  · exact onlyErr_nil
  · intro s o h; simp at h

theorem timerLookups_onlyErr (cfg : Cfg) (st : St) (ls : List Lookup) (tid : Tid) :
    onlyErr (timerLookups cfg st ls tid).2 := by
  simp only [timerLookups]; split
  · rename_i l _
    have hs := (lookupHead_spec cfg st l.req).1
    exact (afterLookups_spec cfg _ _ _ (fun _ => hs) (nofire_onlyErr (lookupHead_nofire cfg st l.req))).2.1
  · exact zombieTimer_onlyErr st tid

theorem allDone_setPc (ls : List Lookup) (old new : LPc) (l : Lookup) (hl : findPc ls old = some l)
    (hn : new.isDone = false) : (setPc ls old new).all (·.pc.isDone) = false := by
  have hm : l ∈ ls.filter (·.pc = old) := by
    simp only [findPc] at hl
    exact List.mem_of_mem_head? hl
  obtain ⟨h1, h2⟩ := List.mem_filter.mp hm
  rw [Bool.eq_false_iff]
  intro hc
  rw [List.all_eq_true] at hc
  have := hc (if l.pc = old then { l with pc := new } else l) (by
    simp only [setPc]; exact List.mem_map_of_mem (f := fun l => if l.pc = old then { l with pc := new } else l) h1)
  simp only [decide_eq_true_eq] at h2
  rw [if_pos h2] at this
  simp [hn] at this

theorem metaContinue_shape (cfg : Cfg) (st : St) (r : Req) (res : MetaRes) :
    (metaContinue cfg st r res).2.1.isDone = true → shapeOf (metaContinue cfg st r res).2.2 = [] := by
  cases res <;> simp only [metaContinue] <;> repeat' split
  all_goals simp [shapeOf, isShape, LPc.isDone]

theorem metaDoneLookups_onlyErr (cfg : Cfg) (st : St) (ls : List Lookup) (rid : Rid) (res : MetaRes) :
    onlyErr (metaDoneLookups cfg st ls rid res).2 := by
  simp only [metaDoneLookups]; split
  · rename_i l hl
    refine (afterLookups_spec cfg _ _ _ ?_ (nofire_onlyErr (metaContinue_nofire cfg st l.req res))).2.1
    intro hd
    by_cases hdone : (metaContinue cfg st l.req res).2.1.isDone = true
    · exact metaContinue_shape cfg st l.req res hdone
    · rw [allDone_setPc ls _ _ l hl (by simpa using hdone)] at hd; cases hd
  · intro s o h; simp at h

theorem cancelLookup_shape (mouts : List (Rid × MetaRes)) (l : Lookup) : shapeOf (cancelLookup mouts l).2.2 = [] := by
  simp only [cancelLookup]; repeat' split
  all_goals simp [shapeOf, isShape]

theorem flatMap_shape {α} (l : List α) (f : α → List Ob) (h : ∀ x, shapeOf (f x) = []) :
    shapeOf (l.flatMap f) = [] := by
  induction l with
  | nil => rfl
  | cons a rest ih => simp only [List.flatMap_cons, shapeOf_append, h a, ih, List.append_nil]

theorem cancelLookups_onlyErr (cfg : Cfg) (st : St) (ls : List Lookup) (mouts : List (Rid × MetaRes)) :
    onlyErr (cancelLookups cfg st ls mouts).2 := by
  simp only [cancelLookups]
  have hn : firedSids ((ls.map (cancelLookup mouts)).flatMap (·.2.2)) = [] := by
    rw [List.flatMap_map]; exact flatMap_nofire _ _ (cancelLookup_nofire mouts)
  refine (afterLookups_spec cfg _ _ _ ?_ (nofire_onlyErr hn)).2.1
  intro _
  rw [List.flatMap_map]
  exact flatMap_shape _ _ (cancelLookup_shape mouts)

/-- what a step may report as SUCCESS -/
def OkAllowed (cfg : Cfg) (st : St) (e : Ev) (s : Sid) (o : Outcome) : Prop :=
  (∃ k, o = .err k) ∨
  ∃ rid b r, st.phase = .sending rid b ∧ (e = .produceDone rid r ∨ ∃ w m, e = .stop w (some r) m) ∧
    validResult b r = true ∧
    ((∃ resp, o = .ok resp ∧ resp ∈ respsOf r ∧ resp.error = 0 ∧ s ∈ b.sidsOf resp.tp) ∨
     (o = .okNone ∧ cfg.acks = producerAckNotRequired ∧ s ∈ b.allSids))

theorem OkAllowed.err (cfg : Cfg) (st : St) (e : Ev) (s : Sid) (k : ErrKind) : OkAllowed cfg st e s (.err k) :=
  Or.inl ⟨k, rfl⟩

theorem handled_fires (cfg : Cfg) (st st0 : St) (e : Ev) (rid : Rid) (b : Batch) (r : ProdRes)
    (hph : st.phase = .sending rid b) (hv : validResult b r = true)
    (he : e = .produceDone rid r ∨ ∃ w m, e = .stop w (some r) m) :
    FiresSat (OkAllowed cfg st e) (finish cfg (handleSendResponse cfg st0 b r)).2 := by
  obtain ⟨tail, h1, h2⟩ := finish_onlyErr_tail cfg (handleSendResponse cfg st0 b r)
  rw [h1]
  intro s o hm
  rcases List.mem_append.mp hm with hm | hm
  · rcases (handleSendResponse_spec cfg st0 b r).1 s o hm with h | h | h
    · exact Or.inr ⟨rid, b, r, hph, he, hv, Or.inl h⟩
    · exact Or.inr ⟨rid, b, r, hph, he, hv, Or.inr h⟩
    · exact Or.inl h
  · exact Or.inl (h2 s o hm)

theorem cancelBatch_fires (cfg : Cfg) (st : St) (wipe : Bool) (pout : Option ProdRes) (mouts : List (Rid × MetaRes))
    (hv : stopValid st pout = true) :
    FiresSat (OkAllowed cfg st (.stop wipe pout mouts)) (cancelBatch cfg { st with stopping := true } wipe pout mouts).2 := by
  simp only [cancelBatch]
  split
  · intro s o h; cases h
  · exact (cancelLookups_onlyErr cfg _ _ mouts).sat (OkAllowed.err cfg st _)
  · rename_i rid b hph
    cases pout with
    | none => simp only [cancelSending]; intro s o h; simp at h
    | some r =>
      simp only [cancelSending]
      have hph' : st.phase = .sending rid b := hph
      have hv' : validResult b r = true := by simpa [stopValid, hph'] using hv
      intro s o hm
      rcases List.mem_cons.mp hm with hm | hm
      · cases hm
      · cases wipe with
        | false => exact handled_fires cfg st _ _ rid b r hph' hv' (Or.inr ⟨_, _, rfl⟩) s o hm
        | true => exact handled_fires cfg st _ _ rid b r hph' hv' (Or.inr ⟨_, _, rfl⟩) s o hm
  · rename_i tid b tps hph
    simp only [cancelRetryWait]
    obtain ⟨tail, h1, h2⟩ := finish_onlyErr_tail cfg (deliverAll { st with stopping := true } b (.err .tcancelled))
    intro s o hm
    rcases List.mem_cons.mp hm with hm | hm
    · cases hm
    · rw [h1] at hm
      rcases List.mem_append.mp hm with hm | hm
      · exact Or.inl ⟨_, ((deliverAll_spec _ b _).1 s o hm).1⟩
      · exact Or.inl (h2 s o hm)

/-- C01, step level, ANY state: whatever a step fires as success is an acknowledged response of
    the result being handled, delivered to a send riding on that response's topic/partition. -/
theorem step_fires_ok (cfg : Cfg) (st : St) (e : Ev) : FiresSat (OkAllowed cfg st e) (step cfg st e).2 := by
  cases e with
  | send sid topic key msgs =>
    simp only [step]; split
    · intro s o h; simp at h
    · split
      · intro s o h; simp at h; exact Or.inl ⟨_, h.2⟩
      · simp only [doSend]; exact (checkSendBatch_spec cfg _).2.1.sat (OkAllowed.err cfg st _)
  | cancel sid =>
    simp only [step]; split
    · exact (cancelSend_spec st sid).1.sat (OkAllowed.err cfg st _)
    · intro s o h; simp at h
  | tick =>
    simp only [step]; split
    · exact (sendBatch_spec cfg st).2.1.sat (OkAllowed.err cfg st _)
    · intro s o h; simp at h
  | timer tid =>
    simp only [step]; split
    · exact (timerLookups_onlyErr cfg st _ tid).sat (OkAllowed.err cfg st _)
    · split
      · intro s o h; simp [doRetry] at h
      · exact (zombieTimer_onlyErr st tid).sat (OkAllowed.err cfg st _)
    · exact (zombieTimer_onlyErr st tid).sat (OkAllowed.err cfg st _)
  | advance dt => intro s o h; simp [step] at h
  | metaSet topic err parts => intro s o h; simp [step] at h
  | metaReset topics => intro s o h; simp [step] at h
  | metaWipe => intro s o h; simp [step] at h
  | metaDone rid res =>
    simp only [step]; split
    · exact (metaDoneLookups_onlyErr cfg st _ rid res).sat (OkAllowed.err cfg st _)
    · intro s o h; simp at h
  | produceDone rid res =>
    simp only [step]; split
    · rename_i r b hph
      split
      · rename_i hc
        simp only [Bool.and_eq_true, decide_eq_true_eq] at hc
        exact handled_fires cfg st st _ rid b res (by rw [hph, hc.1]) hc.2 (Or.inl rfl)
      · intro s o h; simp at h
    · intro s o h; simp at h
  | stop wipe pout mouts =>
    simp only [step]; split
    · intro s o h; simp at h
    · rename_i hv
      simp only [doStop]
      intro s o hm
      rcases List.mem_append.mp hm with hm | hm
      · rcases List.mem_append.mp hm with hm | hm
        · exact cancelBatch_fires cfg st wipe pout mouts (by simpa using hv) s o hm
        · split at hm <;> simp at hm
      · exact Or.inl ((cancelAll_spec _ _).1 s o hm)

end Afkak.Producer
