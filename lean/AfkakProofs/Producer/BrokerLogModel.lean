import AfkakProofs.Producer.BrokerLog
import AfkakProofs.Producer.Order
import AfkakProofs.Producer.RelStep
/-! The abstract broker log (`Afkak/Monitor/C09Log.lean`) of every MODEL trace: the trace-level lemmas of
`BrokerLog.lean` instantiated with the monitor theorems of the Producer model. -/
namespace Afkak.Producer.BrokerLog
open Afkak.Producer Afkak.Monitor.ProducerTrace Afkak.Monitor.C09 Afkak.Monitor.C01 Afkak.Monitor.C09Log

theorem logOK_model (cfg : Cfg) (applied : Rid → TP → Bool) (evs : List Ev) :
    LogOK (brokerLog cfg applied (traceOf cfg evs)) :=
  logOK_of_monitors cfg applied _ (order_model cfg evs) (oneBatch_model cfg evs) (retryOnlyFailed_model cfg evs)
    (payloads_model cfg evs)

theorem success_logged_model (cfg : Cfg) (applied : Rid → TP → Bool) (evs : List Ev) :
    ∀ x ∈ successes (traceOf cfg evs), ∃ E ∈ brokerLog cfg applied (traceOf cfg evs),
      E.acked = true ∧ E.tp = x.2.tp ∧ x.1 ∈ E.sids :=
  success_logged cfg applied _ (successAcked_model cfg evs)

/-- the statements of `AfkakProps/C09.lean`, for any event list -/
theorem log_order_model (cfg : Cfg) (applied : Rid → TP → Bool) (evs : List Ev) :
    (∀ E ∈ brokerLog cfg applied (traceOf cfg evs), E.sids ≠ [] ∧ increasing E.sids = true) ∧
    (brokerLog cfg applied (traceOf cfg evs)).Pairwise
      (fun E1 E2 => E1.tp = E2.tp → E1.sids = E2.sids ∨ ∀ x ∈ E1.sids, ∀ y ∈ E2.sids, x < y) ∧
    (∀ A E B, brokerLog cfg applied (traceOf cfg evs) = A ++ E :: B → ∀ x y, x < y → y ∈ E.sids →
      (∃ E' ∈ brokerLog cfg applied (traceOf cfg evs), E'.tp = E.tp ∧ x ∈ E'.sids) →
      x ∈ E.sids ∨ ∃ E0 ∈ A, E0.tp = E.tp ∧ x ∈ E0.sids) := by
  have h := logOK_model cfg applied evs
  refine ⟨h.ne, h.pw, ?_⟩
  intro A E B hL x y hxy hy ⟨E', hE', htp, hx⟩
  exact earlier_first h A B E hL x y hxy hy E' hE' htp hx

theorem duplicates_model (cfg : Cfg) (applied : Rid → TP → Bool) (evs : List Ev) :
    (brokerLog cfg applied (traceOf cfg evs)).Pairwise
      (fun E1 E2 => ∀ s, s ∈ E1.sids → s ∈ E2.sids → E1.acked = false ∧ (E1.tp = E2.tp → E1.sids = E2.sids)) := by
  have h := logOK_model cfg applied evs
  have h2 := h.pw.and h.dup
  refine h2.imp ?_
  intro E1 E2 ⟨hp, hd⟩ s hs1 hs2
  refine ⟨?_, fun htp => ?_⟩
  · cases ha : E1.acked with
    | false => rfl
    | true => exact absurd hs2 (hd ha s hs1)
  · rcases hp htp with heq | hlt
    · exact heq
    · exact absurd (hlt s hs1 s hs2) (Nat.lt_irrefl s)

/-- no acknowledgement lost: every send is in the log at most once -/
theorem exactly_once_model (cfg : Cfg) (evs : List Ev) :
    (brokerLog cfg (fun _ _ => false) (traceOf cfg evs)).Pairwise (fun E1 E2 => ∀ s ∈ E1.sids, s ∉ E2.sids) := by
  have h := (logOK_model cfg (fun _ _ => false) evs).dup
  have ha := all_acked cfg (traceOf cfg evs)
  rw [List.pairwise_iff_forall_sublist] at h ⊢
  intro a b hab
  exact h hab (ha a (hab.subset (by simp)))

end Afkak.Producer.BrokerLog
