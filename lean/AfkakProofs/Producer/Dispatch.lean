import AfkakProofs.Producer.StopTrace
/-! C19 "dispatch exactly when it should": the monitor `dispatchIff` holds on every model trace. -/
namespace Afkak.Producer
open Afkak.Consts Afkak.Monitor.ProducerTrace Afkak.Monitor.C01 Afkak.Monitor.C19

theorem thresholdMet_eq (cfg : Cfg) (st : St) : thresholdMet cfg st = thresh cfg st.msgCount st.byteCount := by
  simp only [thresholdMet, thresh, bne, ne_eq, decide_not]
  rfl

/-! ### never idle with a queue over a threshold -/

/-- after every step: stopping, or a batch in flight, or nothing queued, or no threshold met -/
def I1 (cfg : Cfg) (st : St) : Prop :=
  st.stopping = true ∨ st.phase ≠ .idle ∨ st.queue = [] ∨ thresholdMet cfg st = false

theorem sendBatch_i1 (cfg : Cfg) (st : St) (h : I1 cfg st) : I1 cfg (sendBatch cfg st).1 := by
  simp only [sendBatch]; split
  · exact Or.inr (Or.inr (Or.inl (dispatch_emptied cfg st)))
  · exact h

theorem checkSendBatch_i1 (cfg : Cfg) (st : St) : I1 cfg (checkSendBatch cfg st).1 := by
  simp only [checkSendBatch]
  split
  · simp only [sendBatch]; split
    · exact Or.inr (Or.inr (Or.inl (dispatch_emptied cfg st)))
    · rename_i hc
      simp only [canDispatch, Bool.and_eq_true, Bool.not_eq_eq_eq_not, Bool.not_true, beq_iff_eq, not_and] at hc
      by_cases h1 : st.queue = []
      · exact Or.inr (Or.inr (Or.inl h1))
      · by_cases h2 : st.phase = .idle
        · left
          have : st.queue.isEmpty = false := by cases hq : st.queue <;> simp_all
          have := hc ⟨this, h2⟩
          simpa using this
        · exact Or.inr (Or.inl h2)
  · rename_i hc
    exact Or.inr (Or.inr (Or.inr (by simpa using hc)))

theorem completeBatch_i1 (cfg : Cfg) (st : St) : I1 cfg (completeBatch cfg st).1 := by
  simp only [completeBatch]; exact checkSendBatch_i1 cfg _

theorem finish_i1 (cfg : Cfg) (r : St × List Ob × Bool) (h : r.2.2 = false → r.1.phase ≠ .idle) :
    I1 cfg (finish cfg r).1 := by
  simp only [finish]; split
  · exact completeBatch_i1 cfg _
  · rename_i hc; exact Or.inr (Or.inl (h (by simpa using hc)))

theorem afterLookups_i1 (cfg : Cfg) (st : St) (ls : List Lookup) (obs : List Ob) : I1 cfg (afterLookups cfg st ls obs).1 := by
  simp only [afterLookups]
  split
  · obtain ⟨_, _, _, q4⟩ := sendRequests_spec { st with phase := .lookups ls } ls
    split
    · exact completeBatch_i1 cfg _
    · rename_i hr
      rcases q4 with ⟨r1, _⟩ | ⟨_, _, b, r2, _⟩
      · exact absurd r1 hr
      · right; left; rw [r2]; intro hc; cases hc
  · right; left; intro hc; cases hc

theorem I1.same {cfg : Cfg} {a b : St} (h : I1 cfg a) (hq : SameQ a b) (hp : b.phase = a.phase) (hs : b.stopping = a.stopping) :
    I1 cfg b := by
  rcases h with h | h | h | h
  · exact Or.inl (by rw [hs]; exact h)
  · exact Or.inr (Or.inl (by rw [hp]; exact h))
  · exact Or.inr (Or.inr (Or.inl (by rw [hq.1]; exact h)))
  · exact Or.inr (Or.inr (Or.inr (by rw [thresholdMet_eq, hq.2.1, hq.2.2, ← thresholdMet_eq]; exact h)))

theorem zombieTimer_i1 (cfg : Cfg) (st : St) (tid : Tid) (h : I1 cfg st) : I1 cfg (zombieTimer st tid).1 := by
  simp only [zombieTimer]; split
  · exact h.same ⟨rfl, rfl, rfl⟩ rfl rfl
  · exact h

/-- message counts and byte counts are not negative -/
theorem msgBytes_nonneg (msgs : List (Option Nat)) : 0 ≤ msgBytes msgs := by
  induction msgs with
  | nil => simp [msgBytes]
  | cons m rest ih =>
    simp only [msgBytes, List.map_cons, List.sum_cons] at *
    cases m <;> simp <;> omega

theorem thresh_mono (cfg : Cfg) {mc mc' bc bc' : Int} (h1 : mc' ≤ mc) (h2 : bc' ≤ bc)
    (h : thresh cfg mc bc = false) : thresh cfg mc' bc' = false := by
  simp only [thresh, Bool.or_eq_false_iff, Bool.and_eq_false_iff, bne_eq_false_iff_eq, decide_eq_false_iff_not] at *
  obtain ⟨a, b⟩ := h
  constructor
  · rcases a with a | a
    · exact Or.inl a
    · exact Or.inr (by omega)
  · rcases b with b | b
    · exact Or.inl b
    · exact Or.inr (by omega)

theorem sum_nonneg_len (l : List Req) : 0 ≤ (l.map (fun r => (r.msgs.length : Int))).sum := by
  induction l with
  | nil => simp
  | cons a rest ih => simp only [List.map_cons, List.sum_cons]; omega

theorem sum_nonneg_bytes (l : List Req) : 0 ≤ (l.map (fun r => msgBytes r.msgs)).sum := by
  induction l with
  | nil => simp
  | cons a rest ih =>
    simp only [List.map_cons, List.sum_cons]
    have := msgBytes_nonneg a.msgs
    omega

theorem cancelSend_i1 (cfg : Cfg) (st : St) (sid : Sid) (h : I1 cfg st) : I1 cfg (cancelSend st sid).1 := by
  simp only [cancelSend]
  split
  · split
    · rcases h with h | h | h | h
      · exact Or.inl h
      · exact Or.inr (Or.inl h)
      · exact Or.inr (Or.inr (Or.inl (by simp [h])))
      · refine Or.inr (Or.inr (Or.inr ?_))
        rw [thresholdMet_eq] at h ⊢
        refine thresh_mono cfg ?_ ?_ h
        · have := sum_nonneg_len (st.queue.filter (·.sid = sid)); simp only; omega
        · have := sum_nonneg_bytes (st.queue.filter (·.sid = sid)); simp only; omega
    · exact h.same ⟨rfl, rfl, rfl⟩ rfl rfl
  · exact h

theorem cancelAll_i1 (cfg : Cfg) (st : St) (l : List Sid) (h : I1 cfg st) : I1 cfg (cancelAll st l).1 := by
  induction l generalizing st with
  | nil => exact h
  | cons s rest ih => simp only [cancelAll]; exact ih _ (cancelSend_i1 cfg st s h)

theorem step_i1 (cfg : Cfg) (st : St) (e : Ev) (h : I1 cfg st) : I1 cfg (step cfg st e).1 := by
  cases e with
  | send sid topic key msgs =>
    simp only [step]; split
    · exact h
    · split
      · exact h.same ⟨rfl, rfl, rfl⟩ rfl rfl
      · exact checkSendBatch_i1 cfg _
  | cancel sid =>
    simp only [step]; split
    · exact cancelSend_i1 cfg st sid h
    · exact h
  | tick =>
    simp only [step]; split
    · exact sendBatch_i1 cfg st h
    · exact h
  | timer tid =>
    simp only [step]
    split
    · simp only [timerLookups]; split
      · exact afterLookups_i1 cfg _ _ _
      · exact zombieTimer_i1 cfg st tid h
    · split
      · right; left; simp [doRetry]
      · exact zombieTimer_i1 cfg st tid h
    · exact zombieTimer_i1 cfg st tid h
  | advance dt => exact h
  | metaSet topic err parts => exact h.same ⟨rfl, rfl, rfl⟩ rfl rfl
  | metaReset topics => exact h.same ⟨rfl, rfl, rfl⟩ rfl rfl
  | metaWipe => exact h.same ⟨rfl, rfl, rfl⟩ rfl rfl
  | metaDone rid res =>
    simp only [step]; split
    · simp only [metaDoneLookups]; split
      · exact afterLookups_i1 cfg _ _ _
      · exact h
    · exact h
  | produceDone rid res =>
    simp only [step]; split
    · split
      · apply finish_i1
        intro hr
        obtain ⟨_, hd⟩ := handleSendResponse_spec cfg st _ res
        generalize hres : (handleSendResponse cfg st _ res).2.2 = resolved at hd
        rw [hres] at hr; subst hr
        cases hd with
        | retry d1 => rw [d1]; intro hc; cases hc
      · exact h
    · exact h
  | stop wipe pout mouts =>
    simp only [step]; split
    · exact h
    · left
      exact (doStop_stopped cfg st wipe pout mouts).2.stopping


/-! ### the queue is taken only over a threshold (the periodic tick apart), and never once stopping -/

/-- queue and counters untouched, or the queue was dispatched: a threshold was met, and not stopping -/
def DQ (cfg : Cfg) (a b : St) : Prop :=
  b.stopping = a.stopping ∧
  (SameQ a b ∨ (thresh cfg a.msgCount a.byteCount = true ∧ b.queue = [] ∧ a.stopping = false))

theorem DQ.rfl' (cfg : Cfg) (a : St) : DQ cfg a a := ⟨rfl, Or.inl (SameQ.rfl' a)⟩
theorem DQ.ofSame {cfg : Cfg} {a b : St} (hq : SameQ a b) (hs : Stat a b) : DQ cfg a b := ⟨hs.2.1, Or.inl hq⟩
theorem DQ.trans {cfg : Cfg} {a b c : St} (h1 : DQ cfg a b) (h2 : DQ cfg b c) : DQ cfg a c := by
  refine ⟨h2.1.trans h1.1, ?_⟩
  rcases h1.2 with h1' | ⟨t1, q1, s1⟩
  · rcases h2.2 with h2' | ⟨t2, q2, s2⟩
    · exact Or.inl (h1'.trans h2')
    · exact Or.inr ⟨by rw [← h1'.2.1, ← h1'.2.2]; exact t2, q2, by rw [← h1.1]; exact s2⟩
  · rcases h2.2 with h2' | ⟨_, q2, _⟩
    · exact Or.inr ⟨t1, by rw [h2'.1]; exact q1, s1⟩
    · exact Or.inr ⟨t1, q2, s1⟩

theorem checkSendBatch_dq (cfg : Cfg) (st : St) : DQ cfg st (checkSendBatch cfg st).1 := by
  refine ⟨(checkSendBatch_stat cfg st).2.1, ?_⟩
  simp only [checkSendBatch]
  split
  · rename_i ht
    simp only [sendBatch]; split
    · rename_i hc
      simp only [canDispatch, Bool.and_eq_true, Bool.not_eq_eq_eq_not, Bool.not_true] at hc
      exact Or.inr ⟨by rw [← thresholdMet_eq]; exact ht, dispatch_emptied cfg st, hc.2⟩
    · exact Or.inl (SameQ.rfl' st)
  · exact Or.inl (SameQ.rfl' st)

theorem completeBatch_dq (cfg : Cfg) (st : St) : DQ cfg st (completeBatch cfg st).1 := by
  simp only [completeBatch]
  exact DQ.trans (b := resetBatch cfg st) (DQ.ofSame ⟨rfl, rfl, rfl⟩ ⟨rfl, rfl, rfl⟩) (checkSendBatch_dq cfg _)

theorem finish_dq (cfg : Cfg) (st : St) (r : St × List Ob × Bool) (h : DQ cfg st r.1) : DQ cfg st (finish cfg r).1 := by
  simp only [finish]; split
  · exact h.trans (completeBatch_dq cfg r.1)
  · exact h

theorem afterLookups_dq (cfg : Cfg) (st : St) (ls : List Lookup) (obs : List Ob) : DQ cfg st (afterLookups cfg st ls obs).1 := by
  simp only [afterLookups]
  split
  · have h1 : DQ cfg st (sendRequests { st with phase := .lookups ls } ls).1 :=
      DQ.trans (b := { st with phase := .lookups ls }) (DQ.ofSame ⟨rfl, rfl, rfl⟩ ⟨rfl, rfl, rfl⟩)
        (DQ.ofSame (sendRequests_sameQ _ ls) (sendRequests_stat _ ls))
    split
    · exact h1.trans (completeBatch_dq cfg _)
    · exact h1
  · exact DQ.ofSame ⟨rfl, rfl, rfl⟩ ⟨rfl, rfl, rfl⟩

theorem zombieTimer_dq (cfg : Cfg) (st : St) (tid : Tid) : DQ cfg st (zombieTimer st tid).1 := by
  simp only [zombieTimer]; split
  · exact DQ.ofSame ⟨rfl, rfl, rfl⟩ ⟨rfl, rfl, rfl⟩
  · exact DQ.rfl' cfg st

/-- the state whose queue and counters `_check_send_batch` looks at in this step -/
def atCheck (st : St) : Ev → St
  | .send sid topic key msgs =>
    if sid = st.nextSid ∧ msgs.isEmpty = false ∧ st.stopping = false then enqueue st sid topic key msgs else st
  | _ => st

/-- events other than cancel / stop -/
def notCS : Ev → Prop
  | .cancel _ => False
  | .stop .. => False
  | _ => True

/-- events other than cancel / tick / stop -/
def notCTS : Ev → Prop
  | .cancel _ => False
  | .tick => False
  | .stop .. => False
  | _ => True

theorem step_dq (cfg : Cfg) (st : St) (e : Ev) (he : notCTS e) :
    DQ cfg (atCheck st e) (step cfg st e).1 := by
  cases e with
  | send sid topic key msgs =>
    by_cases hs : sid = st.nextSid
    · by_cases hm : (msgs.isEmpty || st.stopping) = true
      · have h1 : atCheck st (.send sid topic key msgs) = st := by
          simp only [atCheck]
          rw [if_neg]
          intro hc; rw [hc.2.1, hc.2.2] at hm; cases hm
        have h2 : (step cfg st (.send sid topic key msgs)).1 = { st with nextSid := st.nextSid + 1 } := by
          simp only [step, hs, ne_eq, not_true_eq_false, if_false, hm, if_true]
        rw [h1, h2]; exact ⟨rfl, Or.inl ⟨rfl, rfl, rfl⟩⟩
      · have hm' : msgs.isEmpty = false ∧ st.stopping = false := by
          cases h1 : msgs.isEmpty <;> cases h2 : st.stopping <;> simp [h1, h2] at hm ⊢
        have h1 : atCheck st (.send sid topic key msgs) = enqueue st sid topic key msgs := by
          simp [atCheck, hs, hm'.1, hm'.2]
        have h2 : (step cfg st (.send sid topic key msgs)).1 = (checkSendBatch cfg (enqueue st sid topic key msgs)).1 := by
          simp [step, hs, hm'.1, hm'.2, doSend]
        rw [h1, h2]; exact checkSendBatch_dq cfg _
    · have h1 : atCheck st (.send sid topic key msgs) = st := by
        simp only [atCheck]; rw [if_neg]; intro hc; exact hs hc.1
      have h2 : step cfg st (.send sid topic key msgs) = (st, [.badOp]) := by simp [step, hs]
      rw [h1, h2]; exact DQ.rfl' cfg st
  | cancel sid => cases he
  | tick => cases he
  | timer tid =>
    simp only [step, atCheck]
    split
    · simp only [timerLookups]; split
      · exact DQ.trans (DQ.ofSame (lookupHead_sameQ cfg st _) (lookupHead_stat cfg st _)) (afterLookups_dq cfg _ _ _)
      · exact zombieTimer_dq cfg st tid
    · split
      · exact DQ.ofSame ⟨rfl, rfl, rfl⟩ ⟨rfl, rfl, rfl⟩
      · exact zombieTimer_dq cfg st tid
    · exact zombieTimer_dq cfg st tid
  | advance dt => exact DQ.rfl' cfg st
  | metaSet topic err parts => exact DQ.ofSame ⟨rfl, rfl, rfl⟩ ⟨rfl, rfl, rfl⟩
  | metaReset topics => exact DQ.ofSame ⟨rfl, rfl, rfl⟩ ⟨rfl, rfl, rfl⟩
  | metaWipe => exact DQ.ofSame ⟨rfl, rfl, rfl⟩ ⟨rfl, rfl, rfl⟩
  | metaDone rid res =>
    simp only [step, atCheck]; split
    · simp only [metaDoneLookups]; split
      · exact DQ.trans (DQ.ofSame (metaContinue_sameQ cfg st _ res) (metaContinue_stat cfg st _ res)) (afterLookups_dq cfg _ _ _)
      · exact DQ.rfl' cfg st
    · exact DQ.rfl' cfg st
  | produceDone rid res =>
    simp only [step, atCheck]; split
    · split
      · exact finish_dq cfg st _ (DQ.ofSame (handleSendResponse_sameQ cfg st _ res) (handleSendResponse_stat cfg st _ res))
      · exact DQ.rfl' cfg st
    · exact DQ.rfl' cfg st
  | stop wipe pout mouts => cases he


/-! ### along the trace -/

/-- the queue is taken only when no batch is in flight, or by the step that takes the answer the batch in flight
    was waiting for -/
theorem taken_only_when_free (cfg : Cfg) (st : St) (e : Ev)
    (hd : ∃ x ∈ queued (atCheck st e), x ∉ queued (step cfg st e).1)
    (hc : ∀ sid, e ≠ .cancel sid) (hs : ∀ w p m, e ≠ .stop w p m) :
    st.phase = .idle ∨
    (∃ ls, st.phase = .lookups ls ∧ isLookupAnswer e = true) ∨
    (∃ r b res, st.phase = .sending r b ∧ e = .produceDone r res ∧ validResult b res = true) := by
  by_cases hidle : st.phase = .idle
  · exact Or.inl hidle
  right
  obtain ⟨x, hx, hnx⟩ := hd
  have same : (step cfg st e).1.queue = (atCheck st e).queue → False := by
    intro hq; apply hnx; simp only [queued, hq]; exact hx
  have hz : ∀ tid, (zombieTimer st tid).1.queue = st.queue := by
    intro tid; simp only [zombieTimer]; split <;> rfl
  cases e with
  | send sid topic key msgs =>
    exfalso; apply same
    simp only [step, atCheck]
    by_cases h1 : sid = st.nextSid
    · by_cases h2 : (msgs.isEmpty || st.stopping) = true
      · have h3 : ¬ (sid = st.nextSid ∧ msgs.isEmpty = false ∧ st.stopping = false) := by
          intro hc; rw [hc.2.1, hc.2.2] at h2; cases h2
        rw [if_neg (by simpa using h1), if_pos h2, if_neg h3]
      · have h2' : msgs.isEmpty = false ∧ st.stopping = false := by
          cases h3 : msgs.isEmpty <;> cases h4 : st.stopping <;> simp [h3, h4] at h2 ⊢
        rw [if_neg (by simpa using h1), if_neg h2, if_pos ⟨h1, h2'⟩]
        simp only [doSend]
        rw [checkSendBatch_busy cfg _ (by simpa [enqueue] using hidle)]
    · rw [if_pos (by simpa using h1), if_neg (fun hc => h1 hc.1)]
  | cancel sid => exact absurd rfl (hc sid)
  | tick =>
    exfalso; apply same
    simp only [step, atCheck]; split
    · rw [sendBatch_busy cfg st hidle]
    · rfl
  | timer tid =>
    cases hp : st.phase with
    | idle => exact absurd hp hidle
    | lookups ls => exact Or.inl ⟨ls, rfl, rfl⟩
    | sending r b => exfalso; apply same; simp only [step, hp, atCheck]; exact hz tid
    | retryWait t b tps =>
      exfalso; apply same; simp only [step, hp, atCheck]
      split
      · rfl
      · exact hz tid
  | advance dt => exact (same rfl).elim
  | metaSet topic err parts => exact (same rfl).elim
  | metaReset topics => exact (same rfl).elim
  | metaWipe => exact (same rfl).elim
  | metaDone r res =>
    cases hp : st.phase with
    | lookups ls => exact Or.inl ⟨ls, rfl, rfl⟩
    | idle => exact absurd hp hidle
    | sending r' b => exfalso; apply same; simp [step, hp, atCheck]
    | retryWait t b tps => exfalso; apply same; simp [step, hp, atCheck]
  | produceDone r res =>
    cases hp : st.phase with
    | sending r' b =>
      by_cases hcv : (r' = r && validResult b res) = true
      · simp only [Bool.and_eq_true, decide_eq_true_eq] at hcv
        obtain ⟨h1, h2⟩ := hcv
        subst h1
        exact Or.inr ⟨r', b, res, rfl, rfl, h2⟩
      · exfalso; apply same; simp only [step, hp, atCheck, hcv]; rfl
    | idle => exact absurd hp hidle
    | lookups ls => exfalso; apply same; simp [step, hp, atCheck]
    | retryWait t b tps => exfalso; apply same; simp [step, hp, atCheck]
  | stop w p m => exact absurd rfl (hs w p m)

/-- the dispatch check, from facts in `Prop` form -/
theorem dispatchStep_of (cfg : Cfg) (pre : Snap) (t : Track) (e : Ev) (obs : List Ob) (post : Snap)
    (h1 : post.idle = false ∨ post.queue = [] ∨ thresh cfg post.msgCount post.byteCount = false)
    (h2 : dispatched t.nextSid t.stopped pre ⟨e, obs, post⟩ = true → e = .tick ∨
      thresh cfg (msgCountOf (trackEv pre t e) (queueAtCheck t.nextSid t.stopped pre e))
        (byteCountOf (trackEv pre t e) (queueAtCheck t.nextSid t.stopped pre e)) = true)
    (h3 : e = .tick → pre.idle = true → pre.queue ≠ [] → pre.looper = true →
      dispatched t.nextSid t.stopped pre ⟨e, obs, post⟩ = true)
    (h4 : dispatched t.nextSid t.stopped pre ⟨e, obs, post⟩ = true → (trackEv pre t e).stopped = false)
    (h5 : dispatched t.nextSid t.stopped pre ⟨e, obs, post⟩ = true →
      pre.idle = true ∨ (t.curRes.isNone = true ∧ (trackEv pre t e).curRes.isSome = true) ∨
      (isLookupAnswer e = true ∧ ((trackEv pre t e).cur.isNone = true ∨ (trackEv pre t e).curRes.isSome = true))) :
    dispatchStep cfg pre t ⟨e, obs, post⟩ = true := by
  unfold dispatchStep
  dsimp only
  simp only [Bool.and_eq_true]
  refine ⟨⟨⟨⟨?_, ?_⟩, ?_⟩, ?_⟩, ?_⟩
  · rcases h1 with h | h | h
    · simp [h]
    · simp [h]
    · simp [h]
  · cases hd : dispatched t.nextSid t.stopped pre ⟨e, obs, post⟩ with
    | false => rfl
    | true =>
      rcases h2 hd with h | h
      · subst h; rfl
      · cases e <;> simp_all
  · cases e with
    | tick =>
      dsimp only
      cases hi : pre.idle with
      | false => rfl
      | true =>
        cases hq : pre.queue.isEmpty with
        | true => rfl
        | false =>
          cases hl : pre.looper with
          | false => rfl
          | true =>
            have hq' : pre.queue ≠ [] := by intro hc; rw [hc] at hq; cases hq
            simp [h3 rfl hi hq' hl]
    | _ => rfl
  · cases hd : dispatched t.nextSid t.stopped pre ⟨e, obs, post⟩ with
    | false => rfl
    | true => simp [h4 hd]
  · cases hd : dispatched t.nextSid t.stopped pre ⟨e, obs, post⟩ with
    | false => rfl
    | true =>
      rcases h5 hd with h | ⟨h, h'⟩ | ⟨h, h' | h'⟩
      · simp [h]
      · simp [h, h']
      · simp [h, h']
      · simp [h, h']

structure DInv (cfg : Cfg) (st : St) (t : Track) : Prop where
  si : SInv cfg st t
  i1 : I1 cfg st

theorem accInv_enqueue (st : St) (sid : Sid) (topic : Topic) (key : Option (List UInt8)) (msgs : List (Option Nat))
    (h : AccInv st) : AccInv (enqueue st sid topic key msgs) := by
  obtain ⟨h1, h2⟩ := h
  simp only [AccInv, enqueue, qMsgs, qBytes, List.map_append, List.sum_append, List.map_cons, List.map_nil,
    List.sum_cons, List.sum_nil] at *
  constructor <;> omega

theorem any_not_mem_of_subset {q l : List Sid} (h : ∀ x ∈ q, x ∈ l) : q.any (fun x => decide (x ∉ l)) = false := by
  rw [List.any_eq_false]; intro x hx; simpa using h x hx

theorem dinv_step (cfg : Cfg) (st : St) (t : Track) (e : Ev) (h : DInv cfg st t) :
    DInv cfg (step cfg st e).1 (track (snapOf st) t (mkStep cfg st e)) ∧
    dispatchStep cfg (snapOf st) t (mkStep cfg st e) = true := by
  obtain ⟨hsi', _⟩ := sinv_step cfg st t e h.si
  have hi1' := step_i1 cfg st e h.i1
  refine ⟨⟨hsi', hi1'⟩, ?_⟩
  have hti := h.si.ci.ti
  have hns : t.nextSid = st.nextSid := hti.si.ns
  have hrel' := hsi'.ci.ti.fr.rel
  have hrel := hti.fr.rel
  -- cancel and stop never take the queue
  have hcancel : ∀ sid, e = .cancel sid →
      dispatched t.nextSid t.stopped (snapOf st) (⟨e, (step cfg st e).2, snapOf (step cfg st e).1⟩ : Step) = false := by
    intro sid he; subst he
    simp only [dispatched]
    apply any_not_mem_of_subset
    intro x hx
    obtain ⟨hx1, hx2⟩ := List.mem_filter.mp hx
    have hne : x ≠ sid := by simpa using hx2
    show x ∈ queued (step cfg st (.cancel sid)).1
    simp only [step]; split
    · simp only [cancelSend]
      split
      · split
        · simp only [queued, snapOf, List.mem_map, List.mem_filter] at hx1 ⊢
          obtain ⟨r, hr, hre⟩ := hx1
          exact ⟨r, ⟨hr, by simpa [hre] using hne⟩, hre⟩
        · exact hx1
      · exact hx1
    · exact hx1
  have hstopd : ∀ w p m, e = .stop w p m →
      dispatched t.nextSid t.stopped (snapOf st) (⟨e, (step cfg st e).2, snapOf (step cfg st e).1⟩ : Step) = false := by
    intro w p m he; subst he; simp [dispatched]
  -- once stopping, nothing is queued
  have hqempty : ∀ s' : St, (∀ x ∈ queued s', x ∈ s'.outstanding) → s'.outstanding = [] → s'.queue = [] := by
    intro s' hqo ho
    cases hqq : s'.queue with
    | nil => rfl
    | cons r rest =>
      have := hqo r.sid (by simp [queued, hqq])
      rw [ho] at this; cases this
  have hst0 : (trackEv (snapOf st) t e).stopped = (step cfg st e).1.stopping := by
    rw [← hrel'.stopped]; exact (track_stopped (snapOf st) t (⟨e, (step cfg st e).2, snapOf (step cfg st e).1⟩ : Step)).symm
  have hsends0 := sends_step cfg st t (snapOf st) e hti.si
  -- the queue at the check, as the summary computes it
  have hq_at : ∀ (he : notCS e),
      queueAtCheck t.nextSid t.stopped (snapOf st) e = queued (atCheck st e) := by
    intro he
    cases e with
    | send sid topic key msgs =>
      simp only [queueAtCheck, atCheck, hns, hrel.stopped]
      split
      · simp [queued, enqueue, snapOf]
      · rfl
    | cancel sid => cases he
    | stop w p m => cases he
    | _ => rfl
  -- … and as `dispatched` does
  have hd_at : ∀ (he : notCS e),
      dispatched t.nextSid t.stopped (snapOf st) (⟨e, (step cfg st e).2, snapOf (step cfg st e).1⟩ : Step) =
        (queued (atCheck st e)).any (fun x => decide (x ∉ queued (step cfg st e).1)) := by
    intro he
    cases e with
    | send sid topic key msgs =>
      simp only [dispatched, atCheck, hns, hrel.stopped]
      split
      · simp [queued, enqueue, snapOf]
      · rfl
    | cancel sid => cases he
    | stop w p m => cases he
    | _ => rfl
  -- a step that is not cancel/tick/stop took the queue only over a threshold, and not stopping
  have hmain : ∀ (he : notCTS e),
      dispatched t.nextSid t.stopped (snapOf st) (⟨e, (step cfg st e).2, snapOf (step cfg st e).1⟩ : Step) = true →
      thresh cfg (atCheck st e).msgCount (atCheck st e).byteCount = true ∧ (step cfg st e).1.stopping = false := by
    intro he hd
    have he' : notCS e := by cases e <;> first | trivial | cases he
    rw [hd_at he'] at hd
    obtain ⟨hs, hq⟩ := step_dq cfg st e he
    rcases hq with hq | ⟨h1, _, h3⟩
    · exfalso
      have : queued (step cfg st e).1 = queued (atCheck st e) := by simp [queued, hq.1]
      rw [this, any_not_mem_of_subset (fun x hx => hx)] at hd
      cases hd
    · exact ⟨h1, by rw [hs]; exact h3⟩
  -- counting the queue at the check
  have hcount : ∀ (he : notCS e),
      msgCountOf (trackEv (snapOf st) t e) (queued (atCheck st e)) = (atCheck st e).msgCount ∧
      byteCountOf (trackEv (snapOf st) t e) (queued (atCheck st e)) = (atCheck st e).byteCount := by
    intro he
    obtain ⟨hs, _⟩ := trackEv_sends (snapOf st) t e
    have hsub : ∀ r ∈ (atCheck st e).queue, r ∈ (trackEv (snapOf st) t e).sends := by
      intro r hr
      cases e with
      | send sid topic key msgs =>
        rw [hs]
        simp only [atCheck] at hr
        split at hr
        · rename_i hc
          simp only
          rw [if_pos (by rw [hns]; exact hc.1), hc.2.1]
          simp only [Bool.false_eq_true, if_false]
          simp only [enqueue, List.mem_append, List.mem_singleton] at hr ⊢
          rcases hr with hr | hr
          · exact Or.inl (hti.si.q r hr)
          · exact Or.inr hr
        · simp only
          split
          · split
            · exact hti.si.q r hr
            · exact List.mem_append_left _ (hti.si.q r hr)
          · exact hti.si.q r hr
      | cancel sid => cases he
      | stop w p m => cases he
      | _ => rw [hs]; exact hti.si.q r hr
    have hacc : AccInv (atCheck st e) := by
      cases e with
      | send sid topic key msgs =>
        simp only [atCheck]; split
        · exact accInv_enqueue st sid topic key msgs hti.si.acc
        · exact hti.si.acc
      | _ => exact hti.si.acc
    obtain ⟨c1, c2⟩ := counts_of_queue (trackEv (snapOf st) t e) (atCheck st e).queue hsends0.nodup hsub
    exact ⟨by rw [show queued (atCheck st e) = (atCheck st e).queue.map (·.sid) from rfl, c1, hacc.1],
      by rw [show queued (atCheck st e) = (atCheck st e).queue.map (·.sid) from rfl, c2, hacc.2]⟩
  apply dispatchStep_of cfg (snapOf st) t e (step cfg st e).2 (snapOf (step cfg st e).1)
  · -- (i)
    rcases hi1' with h1 | h1 | h1 | h1
    · right; left
      simp [snapOf, hqempty _ hsi'.ci.qo (hsi'.empty h1)]
    · left
      simp only [snapOf]
      cases hp : (step cfg st e).1.phase with
      | idle => exact absurd hp h1
      | _ => rfl
    · right; left; simp [snapOf, h1]
    · right; right
      rw [thresholdMet_eq] at h1; exact h1
  · -- (ii)
    intro hd
    cases e with
    | tick => exact Or.inl rfl
    | cancel sid =>
      exfalso
      have : dispatched t.nextSid t.stopped (snapOf st) (⟨.cancel sid, (step cfg st (.cancel sid)).2, snapOf (step cfg st (.cancel sid)).1⟩ : Step) = false := by
        simp only [dispatched]
        apply any_not_mem_of_subset
        intro x hx
        obtain ⟨hx1, hx2⟩ := List.mem_filter.mp hx
        have hne : x ≠ sid := by simpa using hx2
        show x ∈ queued (step cfg st (.cancel sid)).1
        simp only [step]; split
        · simp only [cancelSend]
          split
          · split
            · simp only [queued, snapOf, List.mem_map, List.mem_filter] at hx1 ⊢
              obtain ⟨r, hr, hre⟩ := hx1
              exact ⟨r, ⟨hr, by simpa [hre] using hne⟩, hre⟩
            · exact hx1
          · exact hx1
        · exact hx1
      rw [this] at hd; cases hd
    | stop w p m =>
      exfalso
      have : dispatched t.nextSid t.stopped (snapOf st) (⟨.stop w p m, (step cfg st (.stop w p m)).2, snapOf (step cfg st (.stop w p m)).1⟩ : Step) = false := by simp [dispatched]
      rw [this] at hd; cases hd
    | send sid topic key msgs =>
      right
      obtain ⟨hth, _⟩ := hmain trivial hd
      obtain ⟨c1, c2⟩ := hcount trivial
      rw [hq_at trivial, c1, c2]; exact hth
    | timer tid =>
      right
      obtain ⟨hth, _⟩ := hmain trivial hd
      obtain ⟨c1, c2⟩ := hcount trivial
      rw [hq_at trivial, c1, c2]; exact hth
    | advance dt =>
      right
      obtain ⟨hth, _⟩ := hmain trivial hd
      obtain ⟨c1, c2⟩ := hcount trivial
      rw [hq_at trivial, c1, c2]; exact hth
    | metaSet a b c =>
      right
      obtain ⟨hth, _⟩ := hmain trivial hd
      obtain ⟨c1, c2⟩ := hcount trivial
      rw [hq_at trivial, c1, c2]; exact hth
    | metaReset a =>
      right
      obtain ⟨hth, _⟩ := hmain trivial hd
      obtain ⟨c1, c2⟩ := hcount trivial
      rw [hq_at trivial, c1, c2]; exact hth
    | metaWipe =>
      right
      obtain ⟨hth, _⟩ := hmain trivial hd
      obtain ⟨c1, c2⟩ := hcount trivial
      rw [hq_at trivial, c1, c2]; exact hth
    | metaDone a b =>
      right
      obtain ⟨hth, _⟩ := hmain trivial hd
      obtain ⟨c1, c2⟩ := hcount trivial
      rw [hq_at trivial, c1, c2]; exact hth
    | produceDone a b =>
      right
      obtain ⟨hth, _⟩ := hmain trivial hd
      obtain ⟨c1, c2⟩ := hcount trivial
      rw [hq_at trivial, c1, c2]; exact hth
  · -- (iii)
    intro he hi hq hl
    subst he
    have hi' : st.phase = .idle := by
      simp only [snapOf] at hi
      cases hp : st.phase with
      | idle => rfl
      | _ => rw [hp] at hi; cases hi
    have hq' : st.queue ≠ [] := by intro hc; apply hq; simp [snapOf, hc]
    have hl' : st.looper = true := hl
    have hstep : step cfg st .tick = sendBatch cfg st := by simp [step, hl']
    have hs' : st.stopping = false := by
      cases hss : st.stopping with
      | false => rfl
      | true => exact absurd (hqempty st h.si.ci.qo (h.si.empty hss)) hq'
    have hcan : canDispatch st = true := by
      simp only [canDispatch, Bool.and_eq_true, Bool.not_eq_eq_eq_not, Bool.not_true, beq_iff_eq]
      refine ⟨⟨?_, hi'⟩, hs'⟩
      cases hqq : st.queue with
      | nil => exact absurd hqq hq'
      | cons a b => rfl
    have hqe : (step cfg st .tick).1.queue = [] := by
      rw [hstep]; simp only [sendBatch, hcan, if_true]; exact dispatch_emptied cfg st
    rw [hd_at trivial]
    simp only [atCheck, queued, hqe, List.map_nil, List.not_mem_nil, not_false_eq_true, decide_true]
    cases hqq : st.queue with
    | nil => exact absurd hqq hq'
    | cons a b => rfl
  · -- (iv)
    intro hd
    rw [hst0]
    cases e with
    | tick =>
      rw [hd_at trivial] at hd
      have hsame : (queued st).any (fun x => decide (x ∉ queued st)) = false := any_not_mem_of_subset (fun x hx => hx)
      by_cases hl : st.looper = true
      · by_cases hc : canDispatch st = true
        · have hstep : step cfg st .tick = dispatch cfg st := by simp [step, hl, sendBatch, hc]
          rw [hstep, (dispatch_ctl cfg st).2.1]
          simp only [canDispatch, Bool.and_eq_true, Bool.not_eq_eq_eq_not, Bool.not_true] at hc
          exact hc.2
        · have hstep : step cfg st .tick = (st, []) := by simp [step, hl, sendBatch, hc]
          exfalso
          rw [hstep] at hd
          dsimp only [atCheck] at hd
          rw [hsame] at hd; cases hd
      · have hstep : step cfg st .tick = (st, [.badOp]) := by simp [step, hl]
        exfalso
        rw [hstep] at hd
        dsimp only [atCheck] at hd
        rw [hsame] at hd; cases hd
    | cancel sid =>
      exfalso
      have : dispatched t.nextSid t.stopped (snapOf st) (⟨.cancel sid, (step cfg st (.cancel sid)).2, snapOf (step cfg st (.cancel sid)).1⟩ : Step) = false := by
        simp only [dispatched]
        apply any_not_mem_of_subset
        intro x hx
        obtain ⟨hx1, hx2⟩ := List.mem_filter.mp hx
        have hne : x ≠ sid := by simpa using hx2
        show x ∈ queued (step cfg st (.cancel sid)).1
        simp only [step]; split
        · simp only [cancelSend]
          split
          · split
            · simp only [queued, snapOf, List.mem_map, List.mem_filter] at hx1 ⊢
              obtain ⟨r, hr, hre⟩ := hx1
              exact ⟨r, ⟨hr, by simpa [hre] using hne⟩, hre⟩
            · exact hx1
          · exact hx1
        · exact hx1
      rw [this] at hd; cases hd
    | stop w p m =>
      exfalso
      have : dispatched t.nextSid t.stopped (snapOf st) (⟨.stop w p m, (step cfg st (.stop w p m)).2, snapOf (step cfg st (.stop w p m)).1⟩ : Step) = false := by simp [dispatched]
      rw [this] at hd; cases hd
    | send sid topic key msgs => exact (hmain trivial hd).2
    | timer tid => exact (hmain trivial hd).2
    | advance dt => exact (hmain trivial hd).2
    | metaSet a b c => exact (hmain trivial hd).2
    | metaReset a => exact (hmain trivial hd).2
    | metaWipe => exact (hmain trivial hd).2
    | metaDone a b => exact (hmain trivial hd).2
    | produceDone a b => exact (hmain trivial hd).2
  · -- (v)
    intro hd
    have hnc : ∀ sid, e ≠ .cancel sid := by
      intro sid he; rw [hcancel sid he] at hd; cases hd
    have hnst : ∀ w p m, e ≠ .stop w p m := by
      intro w p m he; rw [hstopd w p m he] at hd; cases hd
    have he' : notCS e := by
      cases e with
      | cancel sid => exact absurd rfl (hnc sid)
      | stop w p m => exact absurd rfl (hnst w p m)
      | _ => trivial
    rw [hd_at he', List.any_eq_true] at hd
    obtain ⟨x, hx, hnx⟩ := hd
    rcases taken_only_when_free cfg st e ⟨x, hx, by simpa using hnx⟩ hnc hnst with hp | ⟨ls, hp, ha⟩ | ⟨r, b, res, hp, he, hv⟩
    · left; simp [snapOf, hp]
    · right; right
      exact ⟨ha, trackEv_quiet (snapOf st) t e (hrel.quiet (Or.inr ⟨ls, hp⟩))⟩
    · right; left
      subst he
      exact trackEv_answered (snapOf st) hrel hp res hv

theorem dinv_init (cfg : Cfg) : DInv cfg (St.init cfg) {} :=
  ⟨sinv_init cfg, Or.inr (Or.inr (Or.inl rfl))⟩

theorem dispatch_from (cfg : Cfg) (evs : List Ev) (st : St) (t : Track) (h : DInv cfg st t) :
    checkFrom (dispatchStep cfg) (snapOf st) t (traceFrom cfg st evs) = true := by
  induction evs generalizing st t with
  | nil => rfl
  | cons e rest ih =>
    obtain ⟨r1, r2⟩ := dinv_step cfg st t e h
    simp only [traceFrom, checkFrom, Bool.and_eq_true]
    exact ⟨r2, ih _ _ r1⟩

theorem dispatchIff_model (cfg : Cfg) (evs : List Ev) : dispatchIff cfg (traceOf cfg evs) = true :=
  dispatch_from cfg evs _ _ (dinv_init cfg)

end Afkak.Producer
