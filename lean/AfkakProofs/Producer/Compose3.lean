import AfkakProofs.Producer.Compose2
/-! Producer × KafkaClient, the product machine: no response handed to the Producer - hence no success of a send
Deferred - is for a payload whose broker request FAILED (lost connection, timeout, cancel). -/
namespace Afkak.ProducerCompose
open Afkak.Producer Afkak.Monitor.ProducerTrace
open Afkak.ClientCache (Cache Broker route assemble BrokerResult RouteErr get? resolveAll groupByNode)

theorem unique_of_flatMap_nodup {α β} (f : α → List β) : ∀ (l : List α), (l.flatMap f).Nodup →
    ∀ a ∈ l, ∀ b ∈ l, ∀ x, x ∈ f a → x ∈ f b → a = b
  | [], _, a, ha, _, _, _, _, _ => by cases ha
  | y :: l, h, a, ha, b, hb, x, hxa, hxb => by
    simp only [List.flatMap_cons, List.nodup_append] at h
    obtain ⟨_, h2, h3⟩ := h
    rcases List.mem_cons.mp ha with rfl | ha' <;> rcases List.mem_cons.mp hb with rfl | hb'
    · rfl
    · exact absurd rfl (h3 x hxa x (List.mem_flatMap.mpr ⟨b, hb', hxb⟩))
    · exact absurd rfl (h3 x hxb x (List.mem_flatMap.mpr ⟨a, ha', hxa⟩))
    · exact unique_of_flatMap_nodup f l h2 a ha' b hb' x hxa hxb

theorem nodup_of_map {α β} (f : α → β) : ∀ (l : List α), (l.map f).Nodup → l.Nodup
  | [], _ => List.nodup_nil
  | a :: l, h => by
    simp only [List.map_cons, List.nodup_cons] at h
    exact List.nodup_cons.mpr ⟨fun hm => h.1 (List.mem_map_of_mem hm), nodup_of_map f l h.2⟩

theorem zip_functional {α β} : ∀ (l : List α) (m : List β), l.Nodup →
    ∀ a x y, (a, x) ∈ l.zip m → (a, y) ∈ l.zip m → x = y
  | [], _, _, _, _, _, h, _ => by simp at h
  | _ :: _, [], _, _, _, _, h, _ => by simp at h
  | a0 :: l, b0 :: m, hnd, a, x, y, hx, hy => by
    simp only [List.nodup_cons] at hnd
    simp only [List.zip_cons_cons, List.mem_cons, Prod.mk.injEq] at hx hy
    rcases hx with ⟨rfl, rfl⟩ | hx <;> rcases hy with ⟨h1, rfl⟩ | hy
    · rfl
    · exact absurd (List.of_mem_zip hy).1 hnd.1
    · subst h1; exact absurd (List.of_mem_zip hx).1 hnd.1
    · exact zip_functional l m hnd.2 a x y hx hy

/-- the requests `route` builds carry every payload index at most once, and go to pairwise distinct nodes -/
theorem route_partition (c : Cache) (ks : List CTP) (gs : List (Int × List Nat)) (h : route c ks none = .ok gs) :
    (gs.flatMap (·.2)).Nodup ∧ (gs.map (·.1)).Nodup := by
  simp only [route] at h
  cases hr : resolveAll c 0 ks with
  | error e => simp [hr, Except.map] at h
  | ok r =>
    simp only [hr, Except.map, Except.ok.injEq] at h
    subst h
    obtain ⟨hidx, _⟩ := Afkak.ClientCache.resolveAll_spec c ks 0 r hr
    have hidx' : r.map (·.2) = List.range ks.length := by simpa using hidx
    exact ⟨(Afkak.ClientCache.groupByNode_partition r ks.length hidx').1, Afkak.ClientCache.groupByNode_nodup r⟩

/-- NO RESPONSE FOR A PAYLOAD WHOSE BROKER REQUEST FAILED: if the request to some node failed, none of the responses
    handed to the Producer is for a topic/partition whose payload that request carried. -/
theorem failed_request_no_response (nm : Topic → String) (c : Cache) (keys : List TP) (outs : Outcomes) (r : ProdRes)
    (resp : Resp) (hok : callOK nm c keys outs = true) (hnd : keys.Nodup)
    (h : sendProduce nm c keys outs = some r) (hr : resp ∈ respsOf r)
    (gs : List (Int × List Nat)) (hgs : route c (keys.map (key nm)) none = .ok gs)
    (n : Int) (idxs : List Nat) (k : ErrKind) (hf : ((n, idxs), BrokerResult.fail k) ∈ brokerRequests gs outs) :
    ∀ i ∈ idxs, keys[i]? ≠ some resp.tp := by
  intro i hi hki
  obtain ⟨gs', hgs', _, n', idxs', rs, cr, hz, _, _, _, _, ⟨i', hi', hlt', hk'⟩, _⟩ :=
    callOK_leaderAcked nm c keys outs r resp hok h hr
  rw [hgs] at hgs'; injection hgs' with hgs'; subst hgs'
  -- the same payload index
  have hlt : i < keys.length := by
    rcases Nat.lt_or_ge i keys.length with h1 | h1
    · exact h1
    · rw [List.getElem?_eq_none h1] at hki; cases hki
  have hii : i = i' := by
    have e1 : keys[i] = resp.tp := by rw [List.getElem?_eq_getElem hlt] at hki; exact Option.some.inj hki
    rcases Nat.lt_trichotomy i i' with h1 | h1 | h1
    · exact absurd (e1.trans hk'.symm) (List.pairwise_iff_getElem.mp hnd i i' hlt hlt' h1)
    · exact h1
    · exact absurd (hk'.trans e1.symm) (List.pairwise_iff_getElem.mp hnd i' i hlt' hlt h1)
  subst hii
  obtain ⟨hpart, hnodes⟩ := route_partition c _ gs hgs
  have hm1 : (n, idxs) ∈ gs := (List.of_mem_zip hf).1
  have hm2 : (n', idxs') ∈ gs := (List.of_mem_zip hz).1
  have heq : (n, idxs) = (n', idxs') := unique_of_flatMap_nodup (·.2) gs hpart _ hm1 _ hm2 i hi hi'
  have hndgs : gs.Nodup := nodup_of_map (·.1) gs hnodes
  rw [heq] at hf
  have := zip_functional gs outs hndgs _ _ _ hf hz
  cases this

/-- COMPOSED, step level, ANY state: a send that succeeds does not ride on a payload whose broker request failed -/
theorem stepC_failed_no_success (cfg : Cfg) (nm : Topic → String) (st : St) (ce : CEv) (s : Sid) (resp : Resp)
    (hok : evOK nm st ce = true) (hnd : ∀ rid b, st.phase = .sending rid b → b.current.Nodup)
    (h : Ob.fire s (.ok resp) ∈ (stepC cfg nm st ce).2) :
    ∀ rid b c outs, st.phase = .sending rid b →
      (ce = .clientDone rid c outs ∨ ∃ w m, ce = .stopC w c (some outs) m) →
      ∀ gs, route c (b.current.map (key nm)) none = .ok gs →
      ∀ n idxs k, ((n, idxs), BrokerResult.fail k) ∈ brokerRequests gs outs → ∀ i ∈ idxs, b.current[i]? ≠ some resp.tp := by
  intro rid b c outs hph hce gs hgs n idxs k hf
  obtain ⟨rid', b', c', outs', r, hph', hce', hsp, hr, _, _, _⟩ := stepC_ok cfg nm st ce s resp h
  rw [hph] at hph'; injection hph' with e1 e2; subst e1; subst e2
  have hco : c' = c ∧ outs' = outs := by
    rcases hce with hce | ⟨w, m, hce⟩ <;> rcases hce' with hce' | ⟨w', m', hce'⟩
    · rw [hce] at hce'; injection hce' with _ h2 h3; exact ⟨h2.symm, h3.symm⟩
    · rw [hce] at hce'; cases hce'
    · rw [hce] at hce'; cases hce'
    · rw [hce] at hce'; injection hce' with _ h2 h3 _; injection h3 with h3; exact ⟨h2.symm, h3.symm⟩
  obtain ⟨rfl, rfl⟩ := hco
  have hcall : callOK nm c' b.current outs' = true := by
    rcases hce with hce | ⟨w, m, hce⟩
    · subst hce; simpa [evOK, hph] using hok
    · subst hce; simpa [evOK, hph] using hok
  exact failed_request_no_response nm c' b.current outs' r resp hcall (hnd rid b hph) hsp hr gs hgs n idxs k hf

end Afkak.ProducerCompose
