import Afkak.Producer
/-! Frame equations: which fields of the state each handler of the Producer model can change. -/
namespace Afkak.Producer
open Afkak.Consts

theorem pickPartition_frame (cfg : Cfg) (st : St) (t : Topic) (k : Option (List UInt8)) :
    (pickPartition cfg st t k).1 =
      { st with partitioners := (pickPartition cfg st t k).1.partitioners } := by
  simp only [pickPartition, setPartitioner]
  repeat' split
  all_goals rfl

theorem lookupHead_frame (cfg : Cfg) (st : St) (r : Req) :
    (lookupHead cfg st r).1 =
      { st with partitioners := (lookupHead cfg st r).1.partitioners,
                nextRid := (lookupHead cfg st r).1.nextRid } := by
  simp only [lookupHead]
  repeat' split
  all_goals first | rfl | (rw [pickPartition_frame])

theorem startLookups_frame (cfg : Cfg) (st : St) (rs : List Req) :
    (startLookups cfg st rs).1 =
      { st with partitioners := (startLookups cfg st rs).1.partitioners,
                nextRid := (startLookups cfg st rs).1.nextRid } := by
  induction rs generalizing st with
  | nil => rfl
  | cons r rest ih =>
    simp only [startLookups]
    rw [ih, lookupHead_frame]

theorem metaContinue_frame (cfg : Cfg) (st : St) (r : Req) (res : MetaRes) :
    (metaContinue cfg st r res).1 =
      { st with partitioners := (metaContinue cfg st r res).1.partitioners,
                attempts := (metaContinue cfg st r res).1.attempts,
                nextTid := (metaContinue cfg st r res).1.nextTid,
                interval := (metaContinue cfg st r res).1.interval } := by
  cases res <;> simp only [metaContinue]
  repeat' split
  all_goals first | rfl | (rw [pickPartition_frame])

theorem sendRequests_frame (st : St) (ls : List Lookup) :
    (sendRequests st ls).1 =
      { st with outstanding := (sendRequests st ls).1.outstanding,
                nextRid := (sendRequests st ls).1.nextRid,
                attempts := (sendRequests st ls).1.attempts,
                phase := (sendRequests st ls).1.phase } := by
  simp only [sendRequests]
  repeat' split
  all_goals rfl

theorem checkRetry_frame (cfg : Cfg) (st : St) (b : Batch) (f : List FailedP) :
    (checkRetry cfg st b f).1 =
      { st with outstanding := (checkRetry cfg st b f).1.outstanding,
                nextTid := (checkRetry cfg st b f).1.nextTid,
                interval := (checkRetry cfg st b f).1.interval,
                tmeta := (checkRetry cfg st b f).1.tmeta,
                phase := (checkRetry cfg st b f).1.phase } := by
  simp only [checkRetry]
  repeat' split
  all_goals rfl

theorem handleResults_frame (cfg : Cfg) (st : St) (b : Batch) (rs : List Resp) (fs : List FailedP) :
    (handleResults cfg st b rs fs).1 =
      { st with outstanding := (handleResults cfg st b rs fs).1.outstanding,
                nextTid := (handleResults cfg st b rs fs).1.nextTid,
                interval := (handleResults cfg st b rs fs).1.interval,
                tmeta := (handleResults cfg st b rs fs).1.tmeta,
                phase := (handleResults cfg st b rs fs).1.phase } := by
  simp only [handleResults]
  repeat' split
  all_goals first | rfl | (rw [checkRetry_frame])

theorem deliverAll_frame (st : St) (b : Batch) (o : Outcome) :
    (deliverAll st b o).1 =
      { st with outstanding := (deliverAll st b o).1.outstanding } := by
  simp only [deliverAll]

theorem handleSendResponse_frame (cfg : Cfg) (st : St) (b : Batch) (r : ProdRes) :
    (handleSendResponse cfg st b r).1 =
      { st with outstanding := (handleSendResponse cfg st b r).1.outstanding,
                nextTid := (handleSendResponse cfg st b r).1.nextTid,
                interval := (handleSendResponse cfg st b r).1.interval,
                tmeta := (handleSendResponse cfg st b r).1.tmeta,
                phase := (handleSendResponse cfg st b r).1.phase } := by
  simp only [handleSendResponse]
  repeat' split
  all_goals first | rfl | (rw [handleResults_frame]) | (rw [deliverAll_frame])

end Afkak.Producer

namespace Afkak.Producer
open Afkak.Consts

/-- what `dispatch` and the completion hook may touch: everything except
    `looper stopping tmeta nextSid nextTid zombies` -/
def CtlSame (a b : St) : Prop :=
  b.looper = a.looper ∧ b.stopping = a.stopping ∧ b.tmeta = a.tmeta ∧ b.nextSid = a.nextSid ∧
  b.nextTid = a.nextTid ∧ b.zombies = a.zombies

theorem CtlSame.rfl' (a : St) : CtlSame a a := ⟨rfl, rfl, rfl, rfl, rfl, rfl⟩
theorem CtlSame.trans {a b c : St} (h1 : CtlSame a b) (h2 : CtlSame b c) : CtlSame a c := by
  unfold CtlSame at *; grind

theorem dispatch_ctl (cfg : Cfg) (st : St) : CtlSame st (dispatch cfg st).1 := by
  simp only [dispatch, resetBatch]
  repeat' split
  all_goals (first
    | (rw [sendRequests_frame, startLookups_frame]; exact ⟨rfl, rfl, rfl, rfl, rfl, rfl⟩)
    | (rw [startLookups_frame]; exact ⟨rfl, rfl, rfl, rfl, rfl, rfl⟩))

theorem sendBatch_ctl (cfg : Cfg) (st : St) : CtlSame st (sendBatch cfg st).1 := by
  simp only [sendBatch]; split
  · exact dispatch_ctl cfg st
  · exact CtlSame.rfl' st

theorem checkSendBatch_ctl (cfg : Cfg) (st : St) : CtlSame st (checkSendBatch cfg st).1 := by
  simp only [checkSendBatch]; split
  · exact sendBatch_ctl cfg st
  · exact CtlSame.rfl' st

theorem completeBatch_ctl (cfg : Cfg) (st : St) : CtlSame st (completeBatch cfg st).1 := by
  simp only [completeBatch]
  exact CtlSame.trans (b := resetBatch cfg st) ⟨rfl, rfl, rfl, rfl, rfl, rfl⟩ (checkSendBatch_ctl cfg _)

end Afkak.Producer
