import AfkakProofs.Producer.Sids
/-! The shape of the batch in flight: payloads are made of whole sends, in submission order, each send in
one payload; what is queued is newer than what is in flight, which is newer than everything sent before. -/
namespace Afkak.Producer
open Afkak.Consts Afkak.Monitor.ProducerTrace

/-- payload groups as `_send_requests` builds them; `S`: the sends made so far -/
structure GsOk (S : List Req) (gs : List Payload) : Prop where
  tps : (gs.map (·.tp)).Nodup
  ne : ∀ g ∈ gs, g.sids ≠ []
  inc : ∀ g ∈ gs, g.sids.Pairwise (· < ·)
  nodup : (payloadSids gs).Nodup
  src : ∀ g ∈ gs, ∀ s ∈ g.sids, ∃ r ∈ S, r.sid = s ∧ r.topic = g.tp.topic
  /-- a payload's messages are its sends' messages, send after send, each value under its call's key -/
  msgs : ∀ g ∈ gs, ∃ rs : List Req, (∀ r ∈ rs, r ∈ S) ∧ rs.map (·.sid) = g.sids ∧ g.msgs = rs.flatMap (·.wire)

theorem gsOk_nil (S : List Req) : GsOk S [] := by
  constructor <;> simp [payloadSids]

theorem addToGroups_perm (gs : List Payload) (tp : TP) (sid : Sid) (ms : List Msg) (hn : (gs.map (·.tp)).Nodup) :
    (payloadSids (addToGroups gs tp sid ms)).Perm (sid :: payloadSids gs) := by
  simp only [addToGroups]
  split
  · rename_i hany
    simp only [List.any_eq_true, decide_eq_true_eq] at hany
    induction gs with
    | nil => obtain ⟨g, hg, _⟩ := hany; cases hg
    | cons g rest ih =>
      simp only [List.map_cons, List.nodup_cons] at hn
      by_cases hgt : g.tp = tp
      · have hrest : rest.map (fun g => if g.tp = tp then { g with sids := g.sids ++ [sid], msgs := g.msgs ++ ms } else g) = rest := by
          conv => rhs; rw [← List.map_id rest]
          apply List.map_congr_left
          intro x hx
          have : x.tp ≠ tp := by
            intro hc; apply hn.1; rw [hgt, ← hc]; exact List.mem_map_of_mem hx
          simp [this]
        simp only [List.map_cons, hgt, if_true, hrest, payloadSids, List.flatMap_cons]
        rw [List.append_assoc]
        exact List.perm_middle
      · have hany' : ∃ x ∈ rest, x.tp = tp := by
          obtain ⟨x, hx, hxt⟩ := hany
          rcases List.mem_cons.mp hx with h | h
          · subst h; exact absurd hxt hgt
          · exact ⟨x, h, hxt⟩
        have := ih hn.2 hany'
        simp only [List.map_cons, hgt, if_false, payloadSids, List.flatMap_cons] at this ⊢
        exact (List.Perm.append_left g.sids this).trans List.perm_middle
  · simp only [payloadSids, List.flatMap_append, List.flatMap_cons, List.flatMap_nil, List.append_nil]
    exact List.perm_append_singleton _ _

theorem addToGroups_ok (S : List Req) (gs : List Payload) (tp : TP) (sid : Sid) (ms : List Msg) (h : GsOk S gs)
    (hlt : ∀ x ∈ payloadSids gs, x < sid) (hsrc : ∃ r ∈ S, r.sid = sid ∧ r.topic = tp.topic ∧ r.wire = ms) :
    GsOk S (addToGroups gs tp sid ms) := by
  have hperm := addToGroups_perm gs tp sid ms h.tps
  refine ⟨addToGroups_tps_nodup gs tp sid ms h.tps, ?_, ?_, ?_, ?_, ?_⟩
  · intro g hg
    simp only [addToGroups] at hg
    split at hg
    · obtain ⟨g0, hg0, he⟩ := List.mem_map.mp hg
      split at he
      · subst he; simp
      · subst he; exact h.ne g0 hg0
    · rcases List.mem_append.mp hg with hg | hg
      · exact h.ne g hg
      · simp at hg; subst hg; simp
  · intro g hg
    simp only [addToGroups] at hg
    split at hg
    · obtain ⟨g0, hg0, he⟩ := List.mem_map.mp hg
      split at he
      · subst he
        simp only
        rw [List.pairwise_append]
        refine ⟨h.inc g0 hg0, by simp, ?_⟩
        intro a ha b hb
        simp at hb; subst hb
        exact hlt a (by simp only [payloadSids, List.mem_flatMap]; exact ⟨g0, hg0, ha⟩)
      · subst he; exact h.inc g0 hg0
    · rcases List.mem_append.mp hg with hg | hg
      · exact h.inc g hg
      · simp at hg; subst hg; simp
  · rw [hperm.nodup_iff, List.nodup_cons]
    exact ⟨fun hc => Nat.lt_irrefl _ (hlt sid hc), h.nodup⟩
  · intro g hg s hs
    simp only [addToGroups] at hg
    split at hg
    · obtain ⟨g0, hg0, he⟩ := List.mem_map.mp hg
      split at he
      · rename_i hgt
        subst he
        simp only [List.mem_append, List.mem_singleton] at hs
        rcases hs with hs | hs
        · exact h.src g0 hg0 s hs
        · subst hs; simp only; rw [hgt]; obtain ⟨r, r1, r2, r3, _⟩ := hsrc; exact ⟨r, r1, r2, r3⟩
      · subst he; exact h.src g0 hg0 s hs
    · rcases List.mem_append.mp hg with hg | hg
      · exact h.src g hg s hs
      · simp at hg; subst hg
        simp at hs; subst hs; obtain ⟨r, r1, r2, r3, _⟩ := hsrc; exact ⟨r, r1, r2, r3⟩
  · obtain ⟨r, r1, r2, _, r4⟩ := hsrc
    intro g hg
    simp only [addToGroups] at hg
    split at hg
    · obtain ⟨g0, hg0, he⟩ := List.mem_map.mp hg
      split at he
      · subst he
        obtain ⟨rs, m1, m2, m3⟩ := h.msgs g0 hg0
        refine ⟨rs ++ [r], ?_, by simp [m2, r2], by simp [m3, r4]⟩
        intro x hx
        rcases List.mem_append.mp hx with hx | hx
        · exact m1 x hx
        · simp at hx; subst hx; exact r1
      · subst he; exact h.msgs g0 hg0
    · rcases List.mem_append.mp hg with hg | hg
      · exact h.msgs g hg
      · simp at hg; subst hg
        exact ⟨[r], by simpa using r1, by simp [r2], by simp [r4]⟩

theorem procResults_ok (S : List Req) (ls : List Lookup) (out : List Sid) (gs : List Payload) (h : GsOk S gs)
    (hinc : (ls.map (·.req.sid)).Pairwise (· < ·))
    (hlt : ∀ x ∈ payloadSids gs, ∀ y ∈ ls.map (·.req.sid), x < y)
    (hsrc : ∀ l ∈ ls, l.req ∈ S) : GsOk S (procResults ls out gs).2.1 := by
  induction ls generalizing out gs with
  | nil => exact h
  | cons l rest ih =>
    simp only [List.map_cons, List.pairwise_cons] at hinc
    have hlt' : ∀ x ∈ payloadSids gs, ∀ y ∈ rest.map (·.req.sid), x < y :=
      fun x hx y hy => hlt x hx y (List.mem_cons_of_mem _ hy)
    have hsrc' : ∀ l ∈ rest, l.req ∈ S := fun x hx => hsrc x (List.mem_cons_of_mem _ hx)
    simp only [procResults]
    split
    · split
      · rename_i p _
        apply ih _ _ _ hinc.2 _ hsrc'
        · apply addToGroups_ok S gs _ _ _ h
          · intro x hx; exact hlt x hx _ List.mem_cons_self
          · exact ⟨l.req, hsrc l List.mem_cons_self, rfl, rfl, rfl⟩
        · intro x hx y hy
          rcases List.mem_cons.mp ((addToGroups_perm gs _ _ _ h.tps).mem_iff.mp hx) with hx | hx
          · rw [hx]; exact hinc.1 y hy
          · exact hlt' x hx y hy
      · exact ih _ _ h hinc.2 hlt' hsrc'
      · exact ih _ _ h hinc.2 hlt' hsrc'
    · exact ih _ _ h hinc.2 hlt' hsrc'


/-- the batch whose request is (or is about to be again) in flight -/
def batchOf (st : St) : Option Batch :=
  match st.phase with
  | .sending _ b => some b
  | .retryWait _ b _ => some b
  | _ => none

/-- `S`: the sends made so far; `P`: the sends that have been in a produce request before this step -/
structure G (S : List Req) (P : List Sid) (st : St) : Prop where
  q_inc : (queued st).Pairwise (· < ·)
  q_src : ∀ r ∈ st.queue, r ∈ S
  cross : ∀ x ∈ inflight st, ∀ y ∈ queued st, x < y
  lk_inc : ∀ ls, st.phase = .lookups ls → (ls.map (·.req.sid)).Pairwise (· < ·)
  lk_src : ∀ ls, st.phase = .lookups ls → ∀ l ∈ ls, l.req ∈ S
  grp : ∀ b, batchOf st = some b → GsOk S b.groups ∧ b.groups ≠ []
  p_q : ∀ a ∈ P, ∀ y ∈ queued st, a < y
  p_lk : ∀ ls, st.phase = .lookups ls → ∀ a ∈ P, ∀ x ∈ ls.map (·.req.sid), a < x

/-- every FIRST-attempt produce request of `obs` carries only sends later than all of `P` -/
def prodOut (P : List Sid) (obs : List Ob) : Prop :=
  ∀ rid ps, Ob.produce rid ps ∈ obs → ∀ x ∈ payloadSids ps, ∀ a ∈ P, a < x

theorem prodOut_nil (P : List Sid) : prodOut P [] := by intro rid ps h; cases h
theorem prodOut_append {P : List Sid} {a b : List Ob} (ha : prodOut P a) (hb : prodOut P b) : prodOut P (a ++ b) := by
  intro rid ps h
  rcases List.mem_append.mp h with h | h
  · exact ha rid ps h
  · exact hb rid ps h
theorem prodOut_of_noshape {obs : List Ob} (P : List Sid)
    (h : shapeOf obs = [] ∨ ∃ tid d, shapeOf obs = [.setTimer tid d]) : prodOut P obs := by
  intro rid ps hm
  have : Ob.produce rid ps ∈ shapeOf obs := List.mem_filter.mpr ⟨hm, rfl⟩
  rcases h with h | ⟨_, _, h⟩ <;> (rw [h] at this; simp at this)

theorem G.of_eq {S : List Req} {P : List Sid} {a b : St} (h : G S P a) (hq : b.queue = a.queue) (hp : b.phase = a.phase) :
    G S P b := by
  have e1 : queued b = queued a := by simp [queued, hq]
  have e2 : inflight b = inflight a := by simp [inflight, hp]
  have e3 : batchOf b = batchOf a := by simp [batchOf, hp]
  exact ⟨by rw [e1]; exact h.q_inc, by rw [hq]; exact h.q_src, by rw [e1, e2]; exact h.cross,
    by rw [hp]; exact h.lk_inc, by rw [hp]; exact h.lk_src, by rw [e3]; exact h.grp,
    by rw [e1]; exact h.p_q, by rw [hp]; exact h.p_lk⟩

theorem G.reset {S : List Req} {P : List Sid} {st : St} (h : G S P st) (cfg : Cfg) : G S P (resetBatch cfg st) := by
  refine ⟨h.q_inc, h.q_src, ?_, ?_, ?_, ?_, h.p_q, ?_⟩
  · intro x hx; simp [inflight, resetBatch] at hx
  · intro ls hp; simp [resetBatch] at hp
  · intro ls hp; simp [resetBatch] at hp
  · intro b hb; simp [batchOf, resetBatch] at hb
  · intro ls hp; simp [resetBatch] at hp

/-- the look-ups moved (same requests) -/
theorem G.relookup {S : List Req} {P : List Sid} {a b : St} {ls ls' : List Lookup} (h : G S P a)
    (hpa : a.phase = .lookups ls) (hpb : b.phase = .lookups ls') (hq : b.queue = a.queue)
    (hr : ls'.map (·.req) = ls.map (·.req)) : G S P b := by
  have hs : ls'.map (·.req.sid) = ls.map (·.req.sid) := by
    have := congrArg (List.map (·.sid)) hr
    simpa [List.map_map, Function.comp_def] using this
  have e1 : queued b = queued a := by simp [queued, hq]
  have e2 : inflight b = inflight a := by simp [inflight, hpa, hpb, hs]
  refine ⟨by rw [e1]; exact h.q_inc, by rw [hq]; exact h.q_src, by rw [e1, e2]; exact h.cross, ?_, ?_, ?_,
    by rw [e1]; exact h.p_q, ?_⟩
  · intro l hl; rw [hpb] at hl; injection hl with hl; subst hl; rw [hs]; exact h.lk_inc ls hpa
  · intro l hl x hx; rw [hpb] at hl; injection hl with hl; subst hl
    have : x.req ∈ ls'.map (·.req) := List.mem_map_of_mem hx
    rw [hr] at this
    obtain ⟨y, hy, hye⟩ := List.mem_map.mp this
    rw [← hye]; exact h.lk_src ls hpa y hy
  · intro b' hb'; simp [batchOf, hpb] at hb'
  · intro l hl; rw [hpb] at hl; injection hl with hl; subst hl; rw [hs]; exact h.p_lk ls hpa

theorem sendRequests_g (S : List Req) (P : List Sid) (st : St) (ls : List Lookup) (hp : st.phase = .lookups ls)
    (h : G S P st) : G S P (sendRequests st ls).1 ∧ prodOut P (sendRequests st ls).2.1 := by
  have hsids := procResults_sids ls st.outstanding []
  have hsh := (procResults_spec ls st.outstanding [] (by simp)).2.2
  have hok := procResults_ok S ls st.outstanding [] (gsOk_nil S) (h.lk_inc ls hp)
    (by intro x hx; simp [payloadSids] at hx) (h.lk_src ls hp)
  have hin : ∀ x ∈ payloadSids (procResults ls st.outstanding []).2.1, x ∈ ls.map (·.req.sid) := by
    intro x hx
    rcases hsids x hx with h1 | h1
    · simp [payloadSids] at h1
    · exact h1
  simp only [sendRequests]
  split
  · exact ⟨h, prodOut_nil P⟩
  · split
    · exact ⟨h.of_eq rfl rfl, prodOut_of_noshape P (Or.inl hsh)⟩
    · rename_i hne
      refine ⟨⟨h.q_inc, h.q_src, ?_, ?_, ?_, ?_, h.p_q, ?_⟩, ?_⟩
      · intro x hx y hy
        have hx' : x ∈ inflight st := by
          simp only [inflight, hp]; exact hin x (by simpa [inflight, Batch.allSids, payloadSids] using hx)
        exact h.cross x hx' y hy
      · intro l hl; cases hl
      · intro l hl; cases hl
      · intro b hb
        simp only [batchOf] at hb
        injection hb with hb; subst hb
        exact ⟨hok, by intro hc; apply hne; simp only at hc; rw [hc]; rfl⟩
      · intro l hl; cases hl
      · apply prodOut_append (prodOut_of_noshape P (Or.inl hsh))
        intro rid ps hm x hx a ha
        simp only [List.mem_singleton] at hm
        injection hm with _ hps; subst hps
        exact h.p_lk ls hp a ha x (hin x hx)

theorem dispatch_g (S : List Req) (P : List Sid) (cfg : Cfg) (st : St) (h : G S P st) :
    G S P (dispatch cfg st).1 ∧ prodOut P (dispatch cfg st).2 := by
  have hf := startLookups_frame cfg { st with queue := [], msgCount := 0, byteCount := 0 } st.queue
  obtain ⟨s1, _, s3⟩ := startLookups_spec cfg { st with queue := [], msgCount := 0, byteCount := 0 } st.queue
  have hls : (startLookups cfg { st with queue := [], msgCount := 0, byteCount := 0 } st.queue).2.1.map (·.req.sid) = queued st := by
    have := congrArg (List.map (·.sid)) s3
    simpa [queued, List.map_map, Function.comp_def] using this
  have hq0 : (startLookups cfg { st with queue := [], msgCount := 0, byteCount := 0 } st.queue).1.queue = [] := by rw [hf]
  have g2 : G S P { (startLookups cfg { st with queue := [], msgCount := 0, byteCount := 0 } st.queue).1 with
      phase := .lookups (startLookups cfg { st with queue := [], msgCount := 0, byteCount := 0 } st.queue).2.1 } := by
    refine ⟨by simp [queued, hq0], by simp [hq0], by simp [queued, hq0], ?_, ?_, ?_, by simp [queued, hq0], ?_⟩
    · intro ls hp; injection hp with hp; subst hp; rw [hls]; exact h.q_inc
    · intro ls hp l hl; injection hp with hp; subst hp
      have : l.req ∈ (startLookups cfg { st with queue := [], msgCount := 0, byteCount := 0 } st.queue).2.1.map (·.req) :=
        List.mem_map_of_mem hl
      rw [s3] at this; exact h.q_src _ this
    · intro b hb; simp [batchOf] at hb
    · intro ls hp a ha x hx; injection hp with hp; subst hp; rw [hls] at hx; exact h.p_q a ha x hx
  simp only [dispatch]
  split
  · obtain ⟨g3, p3⟩ := sendRequests_g S P _ _ rfl g2
    refine ⟨?_, prodOut_append (prodOut_of_noshape P (Or.inl s1)) p3⟩
    split
    · exact g3.reset cfg
    · exact g3
  · exact ⟨g2, prodOut_of_noshape P (Or.inl s1)⟩

theorem sendBatch_g (S : List Req) (P : List Sid) (cfg : Cfg) (st : St) (h : G S P st) :
    G S P (sendBatch cfg st).1 ∧ prodOut P (sendBatch cfg st).2 := by
  simp only [sendBatch]; split
  · exact dispatch_g S P cfg st h
  · exact ⟨h, prodOut_nil P⟩

theorem checkSendBatch_g (S : List Req) (P : List Sid) (cfg : Cfg) (st : St) (h : G S P st) :
    G S P (checkSendBatch cfg st).1 ∧ prodOut P (checkSendBatch cfg st).2 := by
  simp only [checkSendBatch]; split
  · exact sendBatch_g S P cfg st h
  · exact ⟨h, prodOut_nil P⟩

theorem completeBatch_g (S : List Req) (P : List Sid) (cfg : Cfg) (st : St) (h : G S P st) :
    G S P (completeBatch cfg st).1 ∧ prodOut P (completeBatch cfg st).2 := by
  simp only [completeBatch]; exact checkSendBatch_g S P cfg _ (h.reset cfg)

theorem finish_g (S : List Req) (P : List Sid) (cfg : Cfg) (r : St × List Ob × Bool) (h : G S P r.1) (hp : prodOut P r.2.1) :
    G S P (finish cfg r).1 ∧ prodOut P (finish cfg r).2 := by
  simp only [finish]; split
  · obtain ⟨g, p⟩ := completeBatch_g S P cfg r.1 h
    exact ⟨g, prodOut_append hp p⟩
  · exact ⟨h, hp⟩

theorem afterLookups_g (S : List Req) (P : List Sid) (cfg : Cfg) (st : St) (ls : List Lookup) (obs : List Ob)
    (h : G S P { st with phase := .lookups ls }) (hp : prodOut P obs) :
    G S P (afterLookups cfg st ls obs).1 ∧ prodOut P (afterLookups cfg st ls obs).2 := by
  simp only [afterLookups]
  split
  · obtain ⟨g3, p3⟩ := sendRequests_g S P { st with phase := .lookups ls } ls rfl h
    split
    · obtain ⟨g4, p4⟩ := completeBatch_g S P cfg _ g3
      exact ⟨g4, prodOut_append (prodOut_append hp p3) p4⟩
    · exact ⟨g3, prodOut_append hp p3⟩
  · exact ⟨h, hp⟩


/-- the batch moved on (same groups), the queue did not -/
theorem G.move {S : List Req} {P : List Sid} {a b : St} (h : G S P a) (hq : b.queue = a.queue)
    (hi : inflight b = inflight a) (hnl : ∀ ls, b.phase ≠ .lookups ls)
    (hb : ∀ b1, batchOf b = some b1 → ∃ b0, batchOf a = some b0 ∧ b1.groups = b0.groups) : G S P b := by
  have e1 : queued b = queued a := by simp [queued, hq]
  refine ⟨by rw [e1]; exact h.q_inc, by rw [hq]; exact h.q_src, by rw [e1, hi]; exact h.cross,
    fun ls hp => absurd hp (hnl ls), fun ls hp => absurd hp (hnl ls), ?_, by rw [e1]; exact h.p_q,
    fun ls hp => absurd hp (hnl ls)⟩
  intro b1 hb1
  obtain ⟨b0, h0, hg⟩ := hb b1 hb1
  rw [hg]; exact h.grp b0 h0

/-- part of the queue was cancelled -/
theorem G.subq {S : List Req} {P : List Sid} {a b : St} (h : G S P a) (hq : b.queue.Sublist a.queue)
    (hp : b.phase = a.phase) : G S P b := by
  have e1 : (queued b).Sublist (queued a) := hq.map _
  have e2 : inflight b = inflight a := by simp [inflight, hp]
  have e3 : batchOf b = batchOf a := by simp [batchOf, hp]
  exact ⟨h.q_inc.sublist e1, fun r hr => h.q_src r (hq.subset hr),
    by rw [e2]; exact fun x hx y hy => h.cross x hx y (e1.subset hy),
    by rw [hp]; exact h.lk_inc, by rw [hp]; exact h.lk_src, by rw [e3]; exact h.grp,
    fun a ha y hy => h.p_q a ha y (e1.subset hy), by rw [hp]; exact h.p_lk⟩

theorem handleSendResponse_g (S : List Req) (P : List Sid) (cfg : Cfg) (st : St) (rid : Rid) (b : Batch) (r : ProdRes)
    (hp : st.phase = .sending rid b) (h : G S P st) :
    G S P (handleSendResponse cfg st b r).1 ∧ prodOut P (handleSendResponse cfg st b r).2.1 := by
  obtain ⟨_, hd⟩ := handleSendResponse_spec cfg st b r
  have hq := (handleSendResponse_sameQ cfg st b r).1
  generalize (handleSendResponse cfg st b r).2.2 = resolved at hd
  cases hd with
  | resolved d1 _ _ _ d5 => exact ⟨h.of_eq hq d1, prodOut_of_noshape P (Or.inl d5)⟩
  | retry d1 _ _ _ _ _ _ d8 =>
    refine ⟨h.move hq ?_ ?_ ?_, prodOut_of_noshape P (Or.inr ⟨_, _, d8⟩)⟩
    · simp only [inflight, d1, hp, keep_allSids]
    · intro ls hc; rw [d1] at hc; cases hc
    · intro b1 hb1
      simp only [batchOf, d1] at hb1
      injection hb1 with hb1; subst hb1
      exact ⟨b, by simp [batchOf, hp], rfl⟩

theorem deliverAll_g (S : List Req) (P : List Sid) (st : St) (b : Batch) (o : Outcome) (h : G S P st) :
    G S P (deliverAll st b o).1 ∧ prodOut P (deliverAll st b o).2.1 := by
  obtain ⟨_, _, d3, _, _, _, d7⟩ := deliverAll_spec st b o
  exact ⟨h.of_eq (deliverAll_sameQ st b o).1 d3, prodOut_of_noshape P (Or.inl d7)⟩

theorem doRetry_g (S : List Req) (P : List Sid) (st : St) (tid : Tid) (b : Batch) (tps : List TP)
    (hp : st.phase = .retryWait tid b tps) (h : G S P st) : G S P (doRetry st b tps).1 := by
  refine h.move rfl ?_ ?_ ?_
  · simp [inflight, doRetry, hp, Batch.allSids]
  · intro ls hc; simp [doRetry] at hc
  · intro b1 hb1
    simp only [batchOf, doRetry] at hb1
    injection hb1 with hb1; subst hb1
    exact ⟨b, by simp [batchOf, hp], rfl⟩

theorem cancelSend_g (S : List Req) (P : List Sid) (st : St) (sid : Sid) (h : G S P st) : G S P (cancelSend st sid).1 := by
  simp only [cancelSend]
  split
  · split
    · exact h.subq List.filter_sublist rfl
    · exact h.of_eq rfl rfl
  · exact h

theorem cancelAll_g (S : List Req) (P : List Sid) (st : St) (l : List Sid) (h : G S P st) : G S P (cancelAll st l).1 := by
  induction l generalizing st with
  | nil => exact h
  | cons s rest ih => simp only [cancelAll]; exact ih _ (cancelSend_g S P st s h)

theorem enqueue_g (S : List Req) (P : List Sid) (st : St) (topic : Topic) (key : Option (List UInt8)) (msgs : List (Option Nat))
    (h : G S P st) (hk : ∀ x ∈ known st, x < st.nextSid) (hP : ∀ a ∈ P, a < st.nextSid)
    (hS : (⟨st.nextSid, topic, key, msgs⟩ : Req) ∈ S) : G S P (enqueue st st.nextSid topic key msgs) := by
  have hq : queued (enqueue st st.nextSid topic key msgs) = queued st ++ [st.nextSid] := by simp [queued, enqueue]
  have hi : inflight (enqueue st st.nextSid topic key msgs) = inflight st := rfl
  refine ⟨?_, ?_, ?_, h.lk_inc, h.lk_src, h.grp, ?_, h.p_lk⟩
  · rw [hq, List.pairwise_append]
    refine ⟨h.q_inc, by simp, ?_⟩
    intro a ha b hb; simp at hb; subst hb
    exact hk a (List.mem_append_right _ ha)
  · intro r hr
    simp only [enqueue, List.mem_append, List.mem_singleton] at hr
    rcases hr with hr | hr
    · exact h.q_src r hr
    · rw [hr]; exact hS
  · intro x hx y hy
    rw [hq] at hy; rw [hi] at hx
    rcases List.mem_append.mp hy with hy | hy
    · exact h.cross x hx y hy
    · simp at hy; subst hy; exact hk x (List.mem_append_left _ hx)
  · intro a ha y hy
    rw [hq] at hy
    rcases List.mem_append.mp hy with hy | hy
    · exact h.p_q a ha y hy
    · simp at hy; subst hy; exact hP a ha

theorem setPc_req (ls : List Lookup) (old new : LPc) : (setPc ls old new).map (·.req) = ls.map (·.req) := by
  simp only [setPc, List.map_map]
  apply List.map_congr_left
  intro l _; simp only [Function.comp]; split <;> rfl

theorem zombieTimer_g (S : List Req) (P : List Sid) (st : St) (tid : Tid) (h : G S P st) :
    G S P (zombieTimer st tid).1 ∧ prodOut P (zombieTimer st tid).2 := by
  simp only [zombieTimer]; split
  · exact ⟨h.of_eq rfl rfl, prodOut_nil P⟩
  · exact ⟨h, prodOut_of_noshape P (Or.inl (by simp [shapeOf, isShape]))⟩

theorem timerLookups_g (S : List Req) (P : List Sid) (cfg : Cfg) (st : St) (ls : List Lookup) (tid : Tid)
    (hp : st.phase = .lookups ls) (h : G S P st) :
    G S P (timerLookups cfg st ls tid).1 ∧ prodOut P (timerLookups cfg st ls tid).2 := by
  simp only [timerLookups]; split
  · rename_i l _
    apply afterLookups_g S P cfg
    · exact h.relookup hp rfl (lookupHead_sameQ cfg st l.req).1 (setPc_req _ _ _)
    · exact prodOut_of_noshape P (Or.inl (lookupHead_spec cfg st l.req).1)
  · exact zombieTimer_g S P st tid h

theorem metaDoneLookups_g (S : List Req) (P : List Sid) (cfg : Cfg) (st : St) (ls : List Lookup) (rid : Rid) (res : MetaRes)
    (hp : st.phase = .lookups ls) (h : G S P st) :
    G S P (metaDoneLookups cfg st ls rid res).1 ∧ prodOut P (metaDoneLookups cfg st ls rid res).2 := by
  simp only [metaDoneLookups]; split
  · rename_i l _
    apply afterLookups_g S P cfg
    · exact h.relookup hp rfl (metaContinue_sameQ cfg st l.req res).1 (setPc_req _ _ _)
    · exact prodOut_of_noshape P (metaContinue_phase_shape cfg st l.req res).2
  · exact ⟨h, prodOut_of_noshape P (Or.inl (by simp [shapeOf, isShape]))⟩

theorem cancelLookups_g (S : List Req) (P : List Sid) (cfg : Cfg) (st : St) (ls : List Lookup) (mouts : List (Rid × MetaRes))
    (hp : st.phase = .lookups ls) (h : G S P st) :
    G S P (cancelLookups cfg st ls mouts).1 ∧ prodOut P (cancelLookups cfg st ls mouts).2 := by
  simp only [cancelLookups]
  apply afterLookups_g S P cfg
  · refine h.relookup hp rfl rfl ?_
    simp only [List.map_map]
    apply List.map_congr_left
    intro l _; simp only [Function.comp, cancelLookup_req]
  · apply prodOut_of_noshape P (Or.inl ?_)
    rw [List.flatMap_map]; exact flatMap_shape _ _ (cancelLookup_shape mouts)

theorem prodOut_cons_nonshape {P : List Sid} {o : Ob} {l : List Ob} (ho : isShape o = false) (h : prodOut P l) :
    prodOut P (o :: l) := by
  intro rid ps hm
  rcases List.mem_cons.mp hm with hm | hm
  · subst hm; simp [isShape] at ho
  · exact h rid ps hm

theorem cancelBatch_g (S : List Req) (P : List Sid) (cfg : Cfg) (st : St) (wipe : Bool) (pout : Option ProdRes)
    (mouts : List (Rid × MetaRes)) (h : G S P st) :
    G S P (cancelBatch cfg st wipe pout mouts).1 ∧ prodOut P (cancelBatch cfg st wipe pout mouts).2 := by
  simp only [cancelBatch]
  split
  · exact ⟨h, prodOut_nil P⟩
  · rename_i ls hp; exact cancelLookups_g S P cfg st ls mouts hp h
  · rename_i rid b hp
    cases pout with
    | none => exact ⟨h, prodOut_of_noshape P (Or.inl (by simp [cancelSending, shapeOf, isShape]))⟩
    | some r =>
      simp only [cancelSending]
      have key : ∀ s : St, s.phase = .sending rid b → G S P s →
          G S P (finish cfg (handleSendResponse cfg s b r)).1 ∧
          prodOut P (Ob.cancelReq rid :: (finish cfg (handleSendResponse cfg s b r)).2) := by
        intro s hs gs
        obtain ⟨g1, p1⟩ := handleSendResponse_g S P cfg s rid b r hs gs
        obtain ⟨g2, p2⟩ := finish_g S P cfg _ g1 p1
        exact ⟨g2, prodOut_cons_nonshape rfl p2⟩
      cases wipe with
      | false => exact key st hp h
      | true => exact key { st with tmeta := [] } hp (h.of_eq rfl rfl)
  · simp only [cancelRetryWait]
    obtain ⟨g1, p1⟩ := deliverAll_g S P st _ (.err .tcancelled) h
    obtain ⟨g2, p2⟩ := finish_g S P cfg _ g1 p1
    exact ⟨g2, prodOut_cons_nonshape rfl p2⟩

theorem doStop_g (S : List Req) (P : List Sid) (cfg : Cfg) (st : St) (wipe : Bool) (pout : Option ProdRes)
    (mouts : List (Rid × MetaRes)) (h : G S P st) :
    G S P (doStop cfg st wipe pout mouts).1 ∧ prodOut P (doStop cfg st wipe pout mouts).2 := by
  obtain ⟨g1, p1⟩ := cancelBatch_g S P cfg { st with stopping := true } wipe pout mouts (h.of_eq rfl rfl)
  simp only [doStop]
  split
  · refine ⟨cancelAll_g S P _ _ (g1.of_eq rfl rfl), prodOut_append (prodOut_append p1 ?_) ?_⟩
    · exact prodOut_of_noshape P (Or.inl (by simp [shapeOf, isShape]))
    · exact prodOut_of_noshape P (Or.inl (cancelAll_spec _ _).2.1)
  · refine ⟨cancelAll_g S P _ _ g1, prodOut_append (prodOut_append p1 (prodOut_nil P)) ?_⟩
    exact prodOut_of_noshape P (Or.inl (cancelAll_spec _ _).2.1)

/-- a whole step.  The produce request of a retry (the retry timer fires) is excepted from `prodOut`. -/
theorem step_g (S : List Req) (P : List Sid) (cfg : Cfg) (st : St) (e : Ev) (h : G S P st)
    (hk : ∀ x ∈ known st, x < st.nextSid) (hP : ∀ a ∈ P, a < st.nextSid)
    (hS : ∀ sid topic key msgs, e = .send sid topic key msgs → sid = st.nextSid → msgs.isEmpty = false →
      (⟨sid, topic, key, msgs⟩ : Req) ∈ S) :
    G S P (step cfg st e).1 ∧
    ((∀ tid b tps, st.phase = .retryWait tid b tps → e ≠ .timer tid) → prodOut P (step cfg st e).2) := by
  have bad : prodOut P [Ob.badOp] := prodOut_of_noshape P (Or.inl (by simp [shapeOf, isShape]))
  cases e with
  | send sid topic key msgs =>
    simp only [step]
    split
    · exact ⟨h, fun _ => bad⟩
    · rename_i hs
      have hs' : sid = st.nextSid := by simpa using hs
      split
      · exact ⟨h.of_eq rfl rfl, fun _ => prodOut_of_noshape P (Or.inl (by simp [shapeOf, isShape]))⟩
      · rename_i hm
        subst hs'
        obtain ⟨g, p⟩ := checkSendBatch_g S P cfg _
          (enqueue_g S P st topic key msgs h hk hP (hS _ topic key msgs rfl rfl (by cases h1 : msgs.isEmpty <;> simp [h1] at hm ⊢)))
        exact ⟨g, fun _ => p⟩
  | cancel sid =>
    simp only [step]; split
    · exact ⟨cancelSend_g S P st sid h, fun _ => prodOut_of_noshape P (Or.inl (cancelSend_spec st sid).2.1)⟩
    · exact ⟨h, fun _ => bad⟩
  | tick =>
    simp only [step]; split
    · obtain ⟨g, p⟩ := sendBatch_g S P cfg st h; exact ⟨g, fun _ => p⟩
    · exact ⟨h, fun _ => bad⟩
  | timer tid =>
    simp only [step]
    split
    · rename_i ls hp
      obtain ⟨g, p⟩ := timerLookups_g S P cfg st ls tid hp h; exact ⟨g, fun _ => p⟩
    · rename_i t' b tps hp
      split
      · rename_i ht
        refine ⟨doRetry_g S P st t' b tps hp h, fun hne => ?_⟩
        exact absurd (by rw [ht]) (hne t' b tps hp)
      · obtain ⟨g, p⟩ := zombieTimer_g S P st tid h; exact ⟨g, fun _ => p⟩
    · obtain ⟨g, p⟩ := zombieTimer_g S P st tid h; exact ⟨g, fun _ => p⟩
  | advance dt => exact ⟨h, fun _ => prodOut_nil P⟩
  | metaSet topic err parts => exact ⟨h.of_eq rfl rfl, fun _ => prodOut_nil P⟩
  | metaReset topics => exact ⟨h.of_eq rfl rfl, fun _ => prodOut_nil P⟩
  | metaWipe => exact ⟨h.of_eq rfl rfl, fun _ => prodOut_nil P⟩
  | metaDone rid res =>
    simp only [step]; split
    · rename_i ls hp
      obtain ⟨g, p⟩ := metaDoneLookups_g S P cfg st ls rid res hp h; exact ⟨g, fun _ => p⟩
    · exact ⟨h, fun _ => bad⟩
  | produceDone rid res =>
    simp only [step]; split
    · rename_i r b hp
      split
      · obtain ⟨g1, p1⟩ := handleSendResponse_g S P cfg st r b res hp h
        obtain ⟨g2, p2⟩ := finish_g S P cfg _ g1 p1
        exact ⟨g2, fun _ => p2⟩
      · exact ⟨h, fun _ => bad⟩
    · exact ⟨h, fun _ => bad⟩
  | stop wipe pout mouts =>
    simp only [step]; split
    · exact ⟨h, fun _ => bad⟩
    · obtain ⟨g, p⟩ := doStop_g S P cfg st wipe pout mouts h; exact ⟨g, fun _ => p⟩

end Afkak.Producer
