import AfkakProofs.Producer.Rel
/-! Generic pieces of the preservation proof: evaluating per-observation checks along a step, and
what the relation looks like after `_send_batch` / the completion hook landed somewhere. -/
namespace Afkak.Producer
open Afkak.Consts Afkak.Monitor.ProducerTrace

/-! ### `checkObs` -/

def isProduce : Ob → Bool
  | .produce .. => true
  | _ => false

theorem checkObs_congr (chk : Track → Ob → Bool) (hinv : ∀ t t' o, norm t = norm t' → chk t o = chk t' o)
    (e : Ev) (r : Bool) (obs : List Ob) (t t' : Track) (h : norm t = norm t') :
    checkObs chk e r t obs = checkObs chk e r t' obs := by
  induction obs generalizing t t' with
  | nil => rfl
  | cons o rest ih =>
    simp only [checkObs]
    rw [hinv t t' o h, ih (trackOb e r t o) (trackOb e r t' o) (by rw [norm_trackOb e r t, norm_trackOb e r t', h])]

/-- a check that only looks at produce observations and not at the forgotten fields can be
    evaluated on the shape of the step -/
theorem checkObs_shape (chk : Track → Ob → Bool) (hinv : ∀ t t' o, norm t = norm t' → chk t o = chk t' o)
    (htriv : ∀ t o, isProduce o = false → chk t o = true)
    (e : Ev) (r : Bool) (obs : List Ob) (t : Track) :
    checkObs chk e r t obs = checkObs chk e r t (shapeOf obs) := by
  induction obs generalizing t with
  | nil => rfl
  | cons o rest ih =>
    simp only [shapeOf, List.filter_cons]
    by_cases h : isShape o = true
    · rw [if_pos h]; simp only [checkObs]; rw [ih]; rfl
    · have h' : isShape o = false := by simpa using h
      rw [if_neg h]
      simp only [checkObs]
      have hp : isProduce o = false := by cases o <;> simp_all [isShape, isProduce]
      rw [htriv t o hp, Bool.true_and, ih]
      exact checkObs_congr chk hinv e r _ _ _ (norm_trackOb_nonshape e r t o h')

theorem checkObs_nil_shape (chk : Track → Ob → Bool) (hinv : ∀ t t' o, norm t = norm t' → chk t o = chk t' o)
    (htriv : ∀ t o, isProduce o = false → chk t o = true) (e : Ev) (r : Bool) (obs : List Ob) (t : Track)
    (h : shapeOf obs = []) : checkObs chk e r t obs = true := by
  rw [checkObs_shape chk hinv htriv, h]; rfl

theorem checkObs_timer_shape (chk : Track → Ob → Bool) (hinv : ∀ t t' o, norm t = norm t' → chk t o = chk t' o)
    (htriv : ∀ t o, isProduce o = false → chk t o = true) (e : Ev) (r : Bool) (obs : List Ob) (t : Track)
    (tid : Tid) (d : Rat) (h : shapeOf obs = [.setTimer tid d]) : checkObs chk e r t obs = true := by
  rw [checkObs_shape chk hinv htriv, h]
  simp only [checkObs, Bool.and_true]
  exact htriv _ _ rfl

theorem checkObs_produce_shape (chk : Track → Ob → Bool) (hinv : ∀ t t' o, norm t = norm t' → chk t o = chk t' o)
    (htriv : ∀ t o, isProduce o = false → chk t o = true) (e : Ev) (r : Bool) (obs : List Ob) (t : Track)
    (rid : Rid) (ps : List Payload) (h : shapeOf obs = [.produce rid ps]) :
    checkObs chk e r t obs = chk t (.produce rid ps) := by
  rw [checkObs_shape chk hinv htriv, h]; simp [checkObs]

/-! ### the relation when the phase did not move -/

theorem Rel.same {cfg : Cfg} {st st' : St} {t : Track} (h : Rel cfg st t)
    (hph : st'.phase = st.phase) (hst : st'.stopping = st.stopping) (hat : st'.attempts = st.attempts)
    (hnt : st.nextTid ≤ st'.nextTid) (hiv : st'.interval = st.interval) : Rel cfg st' t := by
  refine ⟨by rw [hst]; exact h.stopped, ?_, ?_, by rw [hph]; exact h.quiet, h.lp_nodup, ?_, ?_, ?_, ?_, by rw [hat]; exact h.att,
    by rw [hph, hat, hiv]; exact h.idle0⟩
  · intro rid b hp; rw [hph] at hp
    have a := h.sending rid b hp
    exact ⟨a.cur, a.res, a.br, by rw [hat]; exact a.chain, a.sub, a.nodup, a.ne, a.al⟩
  · intro tid b tps hp; rw [hph] at hp
    have a := h.retrying tid b tps hp
    exact ⟨a.tid, a.res, a.br, by rw [hat]; exact a.chain, by rw [hat]; exact a.att, a.sub, a.nodup, by rw [hst]; exact a.nostop, a.ne, a.al, a.prev⟩
  · intro tid ht; exact Nat.lt_of_lt_of_le (h.rt_lt tid ht) hnt
  · intro ls hp l hl tid hpc; rw [hph] at hp; exact Nat.lt_of_lt_of_le (h.bo_lt ls hp l hl tid hpc) hnt
  · intro ls hp; rw [hph] at hp; exact h.bo_nr ls hp
  · intro hs ls hp; rw [hph] at hp; rw [hst] at hs; exact h.bo_stop hs ls hp

/-! ### the relation after landing -/

/-- what must hold of the summary before the landing's observations are folded in -/
structure PreLand (st' : St) (t1 : Track) : Prop where
  stopped : t1.stopped = st'.stopping
  quiet : t1.cur = none ∨ t1.curRes.isSome = true
  lp_nodup : (t1.lastP.map (·.1)).Nodup
  rt_lt : ∀ tid ∈ t1.retryTids, tid < st'.nextTid

theorem lastP_update_nodup (ps : List Payload) (old : List (TP × List Sid)) (h1 : (ps.map (·.tp)).Nodup)
    (h2 : (old.map (·.1)).Nodup) :
    ((ps.map (fun p => (p.tp, p.sids)) ++ old.filter (fun x => !ps.any (·.tp = x.1))).map (·.1)).Nodup := by
  rw [List.map_append, List.nodup_append]
  refine ⟨by rw [List.map_map]; exact h1, ?_, ?_⟩
  · exact List.Nodup.sublist (List.Sublist.map _ List.filter_sublist) h2
  · intro a ha b hb hab
    subst hab
    simp only [List.map_map, List.mem_map, Function.comp] at ha
    obtain ⟨p, hp, hpa⟩ := ha
    obtain ⟨x, hx, hxa⟩ := List.mem_map.mp hb
    have := (List.mem_filter.mp hx).2
    simp only [Bool.not_eq_true', List.any_eq_false, decide_eq_true_eq] at this
    exact this p hp (by rw [hpa, hxa])

theorem rel_landed {cfg : Cfg} {st' : St} {t1 : Track} {e : Ev} {obs : List Ob} {att0 : Int} {iv0 : Rat} {nt0 : Tid}
    (hl : Landed cfg att0 iv0 nt0 st' obs) (hp : PreLand st' t1) (hatt : 0 ≤ att0) :
    Rel cfg st' ((shapeOf obs).foldl (trackOb e false) t1) := by
  cases hl with
  | idle a1 a2 a3 a4 =>
    rw [a4]
    refine ⟨hp.stopped, ?_, ?_, fun _ => hp.quiet, hp.lp_nodup, hp.rt_lt, ?_, ?_, ?_, by rw [a2]; exact Int.le_refl 0, fun _ => ⟨a2, a3⟩⟩
    · intro rid b h; rw [a1] at h; cases h
    · intro tid b tps h; rw [a1] at h; cases h
    · intro ls h; rw [a1] at h; cases h
    · intro ls h; rw [a1] at h; cases h
    · intro _ ls h; rw [a1] at h; cases h
  | lookups ls a1 a2 a3 a4 a5 a6 =>
    rw [a6]
    refine ⟨hp.stopped, ?_, ?_, fun _ => hp.quiet, hp.lp_nodup, hp.rt_lt, ?_, ?_, ?_, by rw [a4]; exact hatt, ?_⟩
    · intro rid b h; rw [a1] at h; cases h
    · intro tid b tps h; rw [a1] at h; cases h
    · intro ls' h l hl tid hpc; rw [a1] at h; injection h with h; subst h
      have := a2 l hl; rw [hpc] at this; simp [LPc.isBackoff] at this
    · intro ls' h l hl tid hpc; rw [a1] at h; injection h with h; subst h
      have := a2 l hl; rw [hpc] at this; simp [LPc.isBackoff] at this
    · intro _ ls' h l hl; rw [a1] at h; injection h with h; subst h; exact a2 l hl
    · intro h; rw [a1] at h; cases h
  | sending rid b a1 a2 a3 a4 a5 a6 =>
    rw [a5]
    simp only [List.foldl_cons, List.foldl_nil, trackOb, Bool.false_eq_true, if_false]
    have hpf : b.payloadsFor b.current = b.groups := by rw [a2.cur]; exact payloadsFor_all b a2.nodup
    refine ⟨hp.stopped, ?_, ?_, ?_, lastP_update_nodup _ _ a2.nodup hp.lp_nodup, hp.rt_lt, ?_, ?_, ?_, by rw [a3]; omega, ?_⟩
    · intro rid' b' h
      rw [a1] at h; injection h with h1 h2; subst h1; subst h2
      refine ⟨by rw [hpf], rfl, ⟨rfl, a2.nodup, ?_, ?_, ?_, ?_, ?_, Nat.le_refl 1⟩, by rw [a3]; simp; omega, ?_, by rw [a2.cur]; exact a2.nodup,
        by rw [a2.cur]; intro hc; exact a2.ne (List.map_eq_nil_iff.mp hc),
        fun tp htp => by rw [a2.cur]; rw [a2.live] at htp; exact htp⟩
      · intro tp htp; rw [a2.live] at htp; exact htp
      · rw [a2.live]; exact a2.nodup
      · intro tp _ hc; cases hc
      · intro g hg
        apply List.mem_append_left
        exact List.mem_map_of_mem (f := fun p : Payload => (p.tp, p.sids)) hg
      · intro s hs
        apply List.mem_append_left
        exact hs
      · intro tp htp; rw [a2.live, ← a2.cur]; exact htp
    · intro tid b' tps h; rw [a1] at h; cases h
    · intro h; rcases h with h | ⟨ls, h⟩ <;> (rw [a1] at h; cases h)
    · intro ls h; rw [a1] at h; cases h
    · intro ls h; rw [a1] at h; cases h
    · intro _ ls h; rw [a1] at h; cases h
    · intro h; rw [a1] at h; cases h

end Afkak.Producer
