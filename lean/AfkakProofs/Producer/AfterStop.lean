import AfkakProofs.Producer.Wait
import AfkakProofs.Producer.ReportedTrace
/-! Once `stop()` has begun (audit item 1, C01-1 / C19-2): nothing is queued, nothing is outstanding, a
`send_messages` is refused at once; hence "still queued" in the exactly-once statement is never a way out for a
stopped Producer.  And the state-level form of "acknowledged ones are reported at once". -/
namespace Afkak.Producer
open Afkak.Consts Afkak.Monitor.ProducerTrace

/-- in every reachable state: `stopping` → nothing outstanding, nothing queued -/
theorem reach_stopped_empty {cfg : Cfg} {st : St} (h : Reach cfg st) (hs : st.stopping = true) :
    st.outstanding = [] ∧ st.queue = [] := by
  obtain ⟨t, hd⟩ := h
  have ho := hd.si.empty hs
  refine ⟨ho, ?_⟩
  cases hq : st.queue with
  | nil => rfl
  | cons r rest =>
    have := hd.si.ci.qo r.sid (by simp [queued, hq])
    rw [ho] at this; cases this

/-- `send_messages` once `stop()` has begun: refused at once with `CancelledError(request_sent=False)`, nothing is
    queued, nothing becomes outstanding -/
theorem send_after_stop (cfg : Cfg) (st : St) (topic : Topic) (key : Option (List UInt8)) (msgs : List (Option Nat))
    (hs : st.stopping = true) (hm : msgs ≠ []) :
    step cfg st (.send st.nextSid topic key msgs) =
      ({ st with nextSid := st.nextSid + 1 }, [.fire st.nextSid (.err (.acancelled (some false)))]) := by
  have : msgs.isEmpty = false := by cases msgs with | nil => exact absurd rfl hm | cons _ _ => rfl
  simp [step, hs, this]

/-- Exactly once, with no way out for a stopped Producer: with an accounting client, whenever no batch is in flight
    every accepted send has fired exactly once - or is still queued, which happens only while `stop()` has not
    begun. -/
theorem run_fires_exactly_once_strict (cfg : Cfg) (evs : List Ev) (hacc : Accounted cfg (St.init cfg) evs)
    (hidle : (run cfg (St.init cfg) evs).1.phase = .idle) :
    ∀ s, s < (run cfg (St.init cfg) evs).1.nextSid →
      ((run cfg (St.init cfg) evs).1.stopping = false ∧ s ∈ queued (run cfg (St.init cfg) evs).1) ∨
      (firedSids (run cfg (St.init cfg) evs).2).count s = 1 := by
  intro s hs
  rcases run_fires_exactly_once cfg evs hacc hidle s hs with h | h
  · left
    refine ⟨?_, h⟩
    cases hst : (run cfg (St.init cfg) evs).1.stopping with
    | false => rfl
    | true =>
      have := (reach_stopped_empty (reach_run cfg evs _ (reach_init cfg)) hst).2
      simp [queued, this] at h
  · exact Or.inr h

/-- Acknowledged ones are reported at once (state level): in a reachable state waiting on produce request `rid`,
    when the client answers with a valid result `r`, every outstanding send riding on a payload that `r`
    acknowledges (error 0) fires `ok` with that very response IN THAT STEP. -/
theorem acked_reported_step (cfg : Cfg) (st : St) (h : Reach cfg st) (rid : Rid) (b : Batch) (r : ProdRes)
    (hp : st.phase = .sending rid b) (hv : validResult b r = true) (resp : Resp) (hr : resp ∈ respsOf r)
    (he : resp.error = 0) (s : Sid) (hs : s ∈ b.sidsOf resp.tp) (ho : s ∈ st.outstanding) :
    Ob.fire s (.ok resp) ∈ (step cfg st (.produceDone rid r)).2 := by
  obtain ⟨t, hd⟩ := h
  have hti := hd.si.ci.ti
  have a := hti.fr.rel.sending rid b hp
  have hg : GsOk t.sends b.groups := (hti.g.grp b (by simp [batchOf, hp])).1
  obtain ⟨r1, _, _, _⟩ := handle_reports cfg st b r hg hv a.sub a.br.live_nodup
  obtain ⟨tail, t1, _⟩ := finish_onlyErr_tail cfg (handleSendResponse cfg st b r)
  have : (step cfg st (.produceDone rid r)).2 = (finish cfg (handleSendResponse cfg st b r)).2 := by
    simp [step, hp, hv]
  rw [this, t1]
  exact List.mem_append_left _ (r1 resp hr he s hs ho)

end Afkak.Producer
