import AfkakProofs.Producer.Spec
/-! How the monitors' summary (`Track`) moves with a step, up to the fields the batch relation does
not read (`fired`, `timersSinceReset`, `sends`, `nextSid`, `cancelledQueued`, `lateCancel`, `ex1`, `ex0`). -/
namespace Afkak.Producer
open Afkak.Consts Afkak.Monitor.ProducerTrace

/-- forget the fields the batch relation does not read -/
def norm (t : Track) : Track :=
  { t with fired := [], timersSinceReset := 0, sends := [], nextSid := 0, cancelledQueued := [],
           lateCancel := false, ex1 := [], ex0 := [] }

theorem norm_idem (t : Track) : norm (norm t) = norm t := rfl

/-- `trackOb` commutes with forgetting -/
theorem norm_trackOb (e : Ev) (r : Bool) (t : Track) (o : Ob) :
    norm (trackOb e r t o) = norm (trackOb e r (norm t) o) := by
  cases o <;> simp only [trackOb, norm] <;> rfl

theorem norm_foldl (e : Ev) (r : Bool) (obs : List Ob) (t : Track) :
    norm (obs.foldl (trackOb e r) t) = norm (obs.foldl (trackOb e r) (norm t)) := by
  induction obs generalizing t with
  | nil => rfl
  | cons o rest ih =>
    simp only [List.foldl_cons]
    rw [ih (trackOb e r t o), ih (trackOb e r (norm t) o), norm_trackOb]

theorem norm_trackOb_nonshape (e : Ev) (r : Bool) (t : Track) (o : Ob) (h : isShape o = false) :
    norm (trackOb e r t o) = norm t := by
  cases o <;> simp only [trackOb, norm] <;> first | rfl | (simp [isShape] at h)

/-- only produce / setTimer observations matter (up to the forgotten fields) -/
theorem norm_foldl_shape (e : Ev) (r : Bool) (obs : List Ob) (t : Track) :
    norm (obs.foldl (trackOb e r) t) = norm ((shapeOf obs).foldl (trackOb e r) t) := by
  induction obs generalizing t with
  | nil => rfl
  | cons o rest ih =>
    simp only [List.foldl_cons, shapeOf, List.filter_cons]
    by_cases h : isShape o = true
    · rw [if_pos h, List.foldl_cons]; exact ih _
    · have h' : isShape o = false := by simpa using h
      rw [if_neg h]
      rw [ih (trackOb e r t o), norm_foldl e r _ (trackOb e r t o), norm_trackOb_nonshape e r t o h', ← norm_foldl]
      rfl

/-- the whole step, up to the forgotten fields -/
def trackCore (pre : Snap) (t : Track) (e : Ev) (shape : List Ob) : Track :=
  let t2 := shape.foldl (trackOb e (isRetryStep t e)) (trackEv pre t e)
  match e with
  | .timer tid => { t2 with retryTids := t2.retryTids.filter (· ≠ tid) }
  | _ => t2

theorem norm_track (pre : Snap) (t : Track) (s : Step) :
    norm (track pre t s) = norm (trackCore pre t s.ev (shapeOf s.obs)) := by
  have key : ∀ a b : Track, norm a = norm b → ∀ (f : Track → Track), (∀ x y, norm x = norm y → norm (f x) = norm (f y)) →
      norm (f a) = norm (f b) := fun a b h f hf => hf a b h
  have hfold := norm_foldl_shape s.ev (isRetryStep t s.ev) s.obs (trackEv pre t s.ev)
  simp only [track, trackCore]
  cases hev : s.ev with
  | timer tid =>
    simp only [hev] at hfold ⊢
    split <;> (simp only [norm] at hfold ⊢; simp only [Track.mk.injEq] at hfold ⊢; simp_all)
  | _ =>
    simp only [hev] at hfold ⊢
    split <;> (simp only [norm] at hfold ⊢; simp only [Track.mk.injEq] at hfold ⊢; simp_all)

end Afkak.Producer
