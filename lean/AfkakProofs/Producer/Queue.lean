import AfkakProofs.Producer.Acc
/-! How handlers move the queue: all but `send`/`cancel` either leave it alone or take all of it. -/
namespace Afkak.Producer
open Afkak.Consts

/-- queue and counters untouched, or the queue was dispatched -/
def QStep (a b : St) : Prop := SameQ a b ∨ (b.queue = [] ∧ b.msgCount = 0 ∧ b.byteCount = 0)

theorem QStep.rfl' (a : St) : QStep a a := Or.inl (SameQ.rfl' a)
theorem SameQ.q {a b : St} (h : SameQ a b) : QStep a b := Or.inl h
theorem QStep.trans {a b c : St} (h1 : QStep a b) (h2 : QStep b c) : QStep a c := by
  unfold QStep SameQ at *; grind
theorem QStep.sub {a b : St} (h : QStep a b) : ∀ r ∈ b.queue, r ∈ a.queue := by
  unfold QStep SameQ at *; grind

theorem dispatch_q (cfg : Cfg) (st : St) : QStep st (dispatch cfg st).1 := by
  right
  have h1 := startLookups_sameQ cfg { st with queue := [], msgCount := 0, byteCount := 0 } st.queue
  simp only [dispatch]
  split
  · have h2 := h1.trans (SameQ.trans (b := { (startLookups cfg { st with queue := [], msgCount := 0, byteCount := 0 } st.queue).1 with
        phase := .lookups (startLookups cfg { st with queue := [], msgCount := 0, byteCount := 0 } st.queue).2.1 })
        ⟨rfl, rfl, rfl⟩ (sendRequests_sameQ _ (startLookups cfg { st with queue := [], msgCount := 0, byteCount := 0 } st.queue).2.1))
    split
    · exact ⟨h2.1, h2.2.1, h2.2.2⟩
    · exact ⟨h2.1, h2.2.1, h2.2.2⟩
  · exact ⟨h1.1, h1.2.1, h1.2.2⟩

theorem sendBatch_q (cfg : Cfg) (st : St) : QStep st (sendBatch cfg st).1 := by
  simp only [sendBatch]; split
  · exact dispatch_q cfg st
  · exact QStep.rfl' st

theorem checkSendBatch_q (cfg : Cfg) (st : St) : QStep st (checkSendBatch cfg st).1 := by
  simp only [checkSendBatch]; split
  · exact sendBatch_q cfg st
  · exact QStep.rfl' st

theorem completeBatch_q (cfg : Cfg) (st : St) : QStep st (completeBatch cfg st).1 := by
  simp only [completeBatch]
  exact QStep.trans (b := resetBatch cfg st) (SameQ.q ⟨rfl, rfl, rfl⟩) (checkSendBatch_q cfg _)

theorem finish_q (cfg : Cfg) (st : St) (r : St × List Ob × Bool) (h : QStep st r.1) : QStep st (finish cfg r).1 := by
  simp only [finish]; split
  · exact h.trans (completeBatch_q cfg r.1)
  · exact h

theorem afterLookups_q (cfg : Cfg) (st : St) (ls : List Lookup) (obs : List Ob) :
    QStep st (afterLookups cfg st ls obs).1 := by
  simp only [afterLookups]
  split
  · have h1 : QStep st (sendRequests { st with phase := .lookups ls } ls).1 :=
      QStep.trans (b := { st with phase := .lookups ls }) (SameQ.q ⟨rfl, rfl, rfl⟩) (sendRequests_sameQ _ ls).q
    split
    · exact h1.trans (completeBatch_q cfg _)
    · exact h1
  · exact SameQ.q ⟨rfl, rfl, rfl⟩

theorem zombieTimer_q (st : St) (tid : Tid) : QStep st (zombieTimer st tid).1 := by
  simp only [zombieTimer]; split
  · exact SameQ.q ⟨rfl, rfl, rfl⟩
  · exact QStep.rfl' st

theorem timerLookups_q (cfg : Cfg) (st : St) (ls : List Lookup) (tid : Tid) : QStep st (timerLookups cfg st ls tid).1 := by
  simp only [timerLookups]; split
  · exact (lookupHead_sameQ cfg st _).q.trans (afterLookups_q cfg _ _ _)
  · exact zombieTimer_q st tid

theorem metaDoneLookups_q (cfg : Cfg) (st : St) (ls : List Lookup) (rid : Rid) (res : MetaRes) :
    QStep st (metaDoneLookups cfg st ls rid res).1 := by
  simp only [metaDoneLookups]; split
  · exact (metaContinue_sameQ cfg st _ res).q.trans (afterLookups_q cfg _ _ _)
  · exact QStep.rfl' st

theorem cancelLookups_q (cfg : Cfg) (st : St) (ls : List Lookup) (mouts : List (Rid × MetaRes)) :
    QStep st (cancelLookups cfg st ls mouts).1 := by
  simp only [cancelLookups]
  exact QStep.trans (b := { st with zombies := st.zombies ++ (ls.map (cancelLookup mouts)).flatMap (·.2.1) })
    (SameQ.q ⟨rfl, rfl, rfl⟩) (afterLookups_q cfg _ _ _)

theorem cancelSending_q (cfg : Cfg) (st : St) (wipe : Bool) (rid : Rid) (b : Batch) (pout : Option ProdRes) :
    QStep st (cancelSending cfg st wipe rid b pout).1 := by
  cases pout with
  | none => exact QStep.rfl' st
  | some r =>
    simp only [cancelSending]
    cases wipe with
    | false => exact finish_q cfg st _ (handleSendResponse_sameQ cfg st b r).q
    | true =>
      exact QStep.trans (b := { st with tmeta := [] }) (SameQ.q ⟨rfl, rfl, rfl⟩)
        (finish_q cfg { st with tmeta := [] } _ (handleSendResponse_sameQ cfg _ b r).q)

theorem cancelRetryWait_q (cfg : Cfg) (st : St) (tid : Tid) (b : Batch) : QStep st (cancelRetryWait cfg st tid b).1 := by
  simp only [cancelRetryWait]
  exact finish_q cfg st _ (deliverAll_sameQ st b _).q

theorem cancelBatch_q (cfg : Cfg) (st : St) (wipe : Bool) (pout : Option ProdRes) (mouts : List (Rid × MetaRes)) :
    QStep st (cancelBatch cfg st wipe pout mouts).1 := by
  simp only [cancelBatch]; split
  · exact QStep.rfl' st
  · exact cancelLookups_q _ _ _ _
  · exact cancelSending_q _ _ _ _ _ _
  · exact cancelRetryWait_q _ _ _ _

theorem cancelSend_queue (st : St) (sid : Sid) :
    (cancelSend st sid).1.queue = st.queue ∨ (cancelSend st sid).1.queue = st.queue.filter (·.sid ≠ sid) := by
  simp only [cancelSend]; repeat' split
  all_goals simp

theorem cancelSend_qsub (st : St) (sid : Sid) : ∀ r ∈ (cancelSend st sid).1.queue, r ∈ st.queue := by
  intro r hr
  rcases cancelSend_queue st sid with h | h <;> rw [h] at hr
  · exact hr
  · exact (List.mem_filter.mp hr).1

theorem cancelAll_qsub (st : St) (l : List Sid) : ∀ r ∈ (cancelAll st l).1.queue, r ∈ st.queue := by
  induction l generalizing st with
  | nil => intro r hr; exact hr
  | cons s rest ih =>
    intro r hr
    simp only [cancelAll] at hr
    exact cancelSend_qsub st s r (ih _ r hr)

/-- the queue after a step: what was queued, plus the request of a valid non-empty `send` -/
theorem step_qsub (cfg : Cfg) (st : St) (e : Ev) :
    ∀ r ∈ (step cfg st e).1.queue, r ∈ st.queue ∨
      (e = .send r.sid r.topic r.key r.msgs ∧ r.sid = st.nextSid ∧ r.msgs ≠ []) := by
  intro r hr
  cases e with
  | send sid topic key msgs =>
    simp only [step] at hr
    split at hr
    · exact Or.inl hr
    · rename_i hs
      split at hr
      · exact Or.inl hr
      · rename_i hm
        simp only [doSend] at hr
        have := (checkSendBatch_q cfg _).sub r hr
        simp only [enqueue, List.mem_append, List.mem_singleton] at this
        rcases this with h | h
        · exact Or.inl h
        · right; subst h
          simp at hs
          exact ⟨rfl, hs, by have := hm; simp at this; exact this.1⟩
  | cancel sid =>
    simp only [step] at hr; split at hr
    · exact Or.inl (cancelSend_qsub st sid r hr)
    · exact Or.inl hr
  | tick =>
    simp only [step] at hr; split at hr
    · exact Or.inl ((sendBatch_q cfg st).sub r hr)
    · exact Or.inl hr
  | timer tid =>
    simp only [step] at hr; split at hr
    · exact Or.inl ((timerLookups_q cfg st _ tid).sub r hr)
    · split at hr
      · exact Or.inl hr
      · exact Or.inl ((zombieTimer_q st tid).sub r hr)
    · exact Or.inl ((zombieTimer_q st tid).sub r hr)
  | advance dt => exact Or.inl hr
  | metaSet topic err parts => exact Or.inl hr
  | metaReset topics => exact Or.inl hr
  | metaWipe => exact Or.inl hr
  | metaDone rid res =>
    simp only [step] at hr; split at hr
    · exact Or.inl ((metaDoneLookups_q cfg st _ rid res).sub r hr)
    · exact Or.inl hr
  | produceDone rid res =>
    simp only [step] at hr; split at hr
    · split at hr
      · exact Or.inl ((finish_q cfg st _ (handleSendResponse_sameQ cfg st _ res).q).sub r hr)
      · exact Or.inl hr
    · exact Or.inl hr
  | stop wipe pout mouts =>
    simp only [step] at hr; split at hr
    · exact Or.inl hr
    · simp only [doStop] at hr
      have h1 := (cancelBatch_q cfg { st with stopping := true } wipe pout mouts).sub
      split at hr
      · have h2 := cancelAll_qsub _ _ r hr; exact Or.inl (h1 r h2)
      · have h2 := cancelAll_qsub _ _ r hr; exact Or.inl (h1 r h2)

end Afkak.Producer
