import AfkakProofs.Producer.WireBytesEmitted
/-! The whole produce request without side condition: whatever `encode_produce_request` WRITES is inside the grammar
(the converse of the wire package's `produce_total`), hence parses back.  With it `WireBytes.request_bytes_decode`
holds with "the encoder returned a frame" in place of the grammar's validity check. -/
namespace Afkak.Producer.WireBytes
open Afkak Afkak.Producer Afkak.Wire Afkak.Codec Afkak.Consts Afkak.Monitor.C04 Afkak.Producer.WireCompose

set_option synthInstance.maxSize 100000

variable {α β : Type}

/-- `message += f(x)` over a list: if each written item is grammar-valid, all are -/
theorem concatMapM_valid (f : α → R Bytes) (g : α → Option β) (c : Codec β)
    (hfg : ∀ a b y, g a = some b → f a = .ok y → c.valid b = true) :
    ∀ (l : List α) (l' : List β) (x : Bytes), l.mapM g = some l' → concatMapM f l = .ok x →
      ∀ b ∈ l', c.valid b = true := by
  intro l
  induction l with
  | nil =>
    intro l' x hm _ b hb
    simp at hm
    subst hm
    cases hb
  | cons a as ih =>
    intro l' x hm hx
    obtain ⟨b0, bs, hb0, hbs, rfl⟩ := mapM_cons_some g a as l' hm
    simp only [concatMapM] at hx
    split at hx
    · cases hx
    · rename_i y hy
      split at hx
      · cases hx
      · rename_i z hz
        intro b hb
        rcases List.mem_cons.mp hb with rfl | hb'
        · exact hfg a _ y hb0 hy
        · exact ih bs z hbs hz b hb'

theorem mapM_some_length (g : α → Option β) : ∀ (l : List α) (l' : List β), l.mapM g = some l' → l'.length = l.length := by
  intro l
  induction l with
  | nil => intro l' h; simp at h; subst h; rfl
  | cons a as ih =>
    intro l' h
    obtain ⟨b, bs, _, hbs, rfl⟩ := mapM_cons_some g a as l' h
    simp only [List.length_cons, ih bs hbs]

theorem writeShortAscii_valid {s x : Bytes} (h : writeShortAscii (some s) = .ok x) : Codec.string.valid s = true := by
  simp only [writeShortAscii] at h
  split at h
  · simp only [writeShortBytes] at h
    split at h
    · cases h
    · split at h
      · cases h
      · rename_i l hl
        simp only [fmt_write_short_bytes_0] at hl
        have hok := ((pack_eq _ _ _).mp hl).1
        simp only [fieldsOk, fieldSpec, and_true] at hok
        exact (intFitsB_iff _ _).mpr ((fits2 _).mp hok)
  · cases h

theorem encodeHeader_valid {cid : Bytes} {corr key ver : Int} {x : Bytes} (h : encodeHeader cid corr key ver = .ok x) :
    Spec.header.valid ⟨key, ver, corr, some cid⟩ = true := by
  simp only [encodeHeader, fmt_encode_message_header_0] at h
  split at h
  · cases h
  · rename_i l hl
    have hok := ((pack_eq _ _ _).mp hl).1
    simp only [fieldsOk, fieldSpec, and_true] at hok
    show (true && (int16.valid key && (int16.valid ver && (int32.valid corr && nullableString.valid (some cid))))) = true
    have h1 : int16.valid key = true := (intFitsB_iff _ _).mpr ((fits2 _).mp hok.1)
    have h2 : int16.valid ver = true := (intFitsB_iff _ _).mpr ((fits2 _).mp hok.2.1)
    have h3 : int32.valid corr = true := (intFitsB_iff _ _).mpr ((fits4 _).mp hok.2.2.1)
    have h4 : nullableString.valid (some cid) = true := (intFitsB_iff _ _).mpr ((fits2 _).mp hok.2.2.2)
    rw [h1, h2, h3, h4]
    rfl

/-- the topic loop shared by all broker-aware requests writes only grammar-valid `(topic, [partition item])` -/
theorem topics_valid (topic : α → Option Bytes) (partition : α → Int) (item : α → Option β) (c : Codec (Int × β))
    (partEntry : Int × α → R Bytes)
    (hitem : ∀ q b y, itemMap item q = some b → partEntry q = .ok y → c.valid b = true)
    (xs : List α) (l : List (Bytes × (Int × β))) (hk : keyed topic partition item xs = some l)
    (hcnt : payloadCount (groupByTopicPartition topic partition xs) = xs.length) (body : Bytes)
    (hbody : concatMapM (topicEntry ['>', 'i'] partEntry) (groupByTopicPartition topic partition xs) = .ok body) :
    ∀ e ∈ regroup l, (Codec.string ⊗ array c).valid e = true := by
  have hg := group_mapM_regroup topic partition item xs l hk (payloadCount_eq_iff_nodup topic partition xs hcnt)
  apply concatMapM_valid (topicEntry ['>', 'i'] partEntry) (topicMap item) (Codec.string ⊗ array c) _ _ _ _ hg.1 hbody
  intro tp r y hr hy
  obtain ⟨h1, h2⟩ := topicMap_some hr
  obtain ⟨t, ps⟩ := r
  simp only at h1 h2
  unfold topicEntry at hy
  rw [h1] at hy
  split at hy
  · cases hy
  · rename_i tb htb
    split at hy
    · cases hy
    · rename_i nb hnb
      split at hy
      · cases hy
      · rename_i pb hpb
        have hok := ((pack_eq _ _ _).mp hnb).1
        simp only [fieldsOk, fieldSpec, and_true] at hok
        have hlen := mapM_some_length _ _ _ h2
        have hs : Codec.string.valid t = true := writeShortAscii_valid htb
        have hn : intFitsB 4 (ps.length : Int) = true := by
          rw [hlen]; exact (intFitsB_iff _ _).mpr ((fits4 _).mp hok)
        have hall : ps.all c.valid = true :=
          List.all_eq_true.mpr (concatMapM_valid partEntry (itemMap item) c hitem _ _ _ h2 hpb)
        show (Codec.string.valid t && (intFitsB 4 (ps.length : Int) && ps.all c.valid)) = true
        rw [hs, hn, hall]
        rfl

/-- **a produce request the encoder wrote is grammar-valid** -/
theorem produce_valid_of_encode {ext : Ext} {cid : Bytes} {corr acks timeout ver v : Int} {ps : List ProduceReq}
    {l : List (Bytes × (Int × List (Int × Spec.Msg)))} {frame : Bytes}
    (h : encodeProduceRequest ext cid corr ps acks timeout ver = .ok frame) (hv : implementedVersion ver = some v)
    (hk : keyed ProduceReq.topic ProduceReq.partition (fun p => specEntries ext.nowMs p.messages) ps = some l) :
    (Spec.request (Spec.produceRequest ext.crc)).valid (hdr 0 v corr cid, acks, timeout, regroup l) = true := by
  have hcl := clamp_produce hv
  unfold encodeProduceRequest at h
  simp only at h
  split at h
  · cases h
  rename_i hcnt
  have hcnt' := Decidable.not_not.mp hcnt
  split at h
  · cases h
  · rename_i hd hhd
    split at h
    · cases h
    · rename_i h2 hh2
      split at h
      · cases h
      · rename_i body hbody
        simp only [fmt_encode_produce_request_1] at hbody
        have hall := topics_valid ProduceReq.topic ProduceReq.partition (fun p => specEntries ext.nowMs p.messages)
          (int32 ⊗ sized32 (Spec.messageSet ext.crc)) (producePartEntry ext (produceClamp ver).2)
          (by
            intro q b y hq hy
            unfold itemMap at hq
            cases hse : specEntries ext.nowMs q.2.messages with
            | none => simp [hse] at hq
            | some entries =>
              simp only [hse, Option.map_some, Option.some.injEq] at hq
              subst hq
              unfold producePartEntry at hy
              split at hy
              · cases hy
              · rename_i ms hms
                split at hy
                · cases hy
                · rename_i hh hhh
                  simp only [fmt_encode_produce_request_2] at hhh
                  have hok := ((pack_eq _ _ _).mp hhh).1
                  simp only [fieldsOk, fieldSpec, and_true] at hok
                  unfold encodeMessageSet at hms
                  have hmsb : ms = encAll (Spec.entry ext.crc) entries := msgset_bytes ext _ hcl.2 _ _ _ 0 rfl hms hse
                  have hmv := msgset_valid_of_encode ext _ _ _ _ 0 rfl hms hse
                  have hp : int32.valid q.1 = true := (intFitsB_iff _ _).mpr ((fits4 _).mp hok.1)
                  have hl : intFitsB 4 (((Spec.messageSet ext.crc).enc entries).length : Int) = true := by
                    show intFitsB 4 ((encAll (Spec.entry ext.crc) entries).length : Int) = true
                    rw [← hmsb]
                    exact (intFitsB_iff _ _).mpr ((fits4 _).mp hok.2)
                  show (int32.valid q.1 && ((Spec.messageSet ext.crc).valid entries && intFitsB 4 _)) = true
                  rw [hp, hmv, hl]
                  rfl)
          ps l hk hcnt' body hbody
        have hg := group_mapM_regroup ProduceReq.topic ProduceReq.partition (fun p => specEntries ext.nowMs p.messages)
          ps l hk (payloadCount_eq_iff_nodup ProduceReq.topic ProduceReq.partition ps hcnt')
        simp only [fmt_encode_produce_request_0] at hh2
        have hok := ((pack_eq _ _ _).mp hh2).1
        simp only [fieldsOk, fieldSpec, and_true] at hok
        have hhv := encodeHeader_valid hhd
        rw [hcl.1] at hhv
        have ha : int16.valid acks = true := (intFitsB_iff _ _).mpr ((fits2 _).mp hok.1)
        have ht : int32.valid timeout = true := (intFitsB_iff _ _).mpr ((fits4 _).mp hok.2.1)
        have hn : intFitsB 4 ((regroup l).length : Int) = true := by
          rw [← hg.2]; exact (intFitsB_iff _ _).mpr ((fits4 _).mp hok.2.2)
        have hall' : (regroup l).all (Codec.string ⊗ array (int32 ⊗ sized32 (Spec.messageSet ext.crc))).valid = true :=
          List.all_eq_true.mpr hall
        show (Spec.header.valid (hdr 0 v corr cid) && (int16.valid acks && (int32.valid timeout &&
          (intFitsB 4 ((regroup l).length : Int) &&
            (regroup l).all (Codec.string ⊗ array (int32 ⊗ sized32 (Spec.messageSet ext.crc))).valid)))) = true
        rw [show hdr 0 v corr cid = (⟨hdrKey_encode_produce_request, v, corr, some cid⟩ : Spec.Header) from rfl,
          hhv, ha, ht, hn, hall']
        rfl

/-- **The whole produce request, down to the bytes, no size condition** (no compression).  For the payload list of
    an `Ob.produce`, topic names `tn`, any message format, a request version the encoder implements (`hv`):
    WHENEVER `encode_produce_request` returns a frame (it raises when the same (topic, partition) is named twice, a
    topic name is not ASCII, or a size does not fit its field - and nothing is sent), the frame parses under the
    grammar's request decoder to the header (api key 0, version `v`, correlation and client id), `acks`, `timeout`
    and the payloads nested by topic, each partition with exactly one entry per message of its payload, in order, key
    and value kept, checksum verified; the nesting loses and invents nothing. -/
theorem request_bytes_decode_emitted (ext : Ext) (body : Nat → Bytes) (magic : Int) (tn : Topic → Bytes)
    (payloads : List Payload) (cid : Bytes) (corr acks timeout ver v : Int)
    (hv : implementedVersion ver = some v) (frame : Bytes)
    (h : encodeProduceRequest ext cid corr (payloads.map (wireReq ext body magic tn)) acks timeout ver = .ok frame) :
    ∃ nested,
      (Spec.request (Spec.produceRequest ext.crc)).dec frame = some (hdr 0 v corr cid, acks, timeout, nested)
      ∧ nested = regroup (payloads.map (brokerPart ext.nowMs body magic tn))
      ∧ (∀ t q, (∃ e ∈ nested, e.1 = t ∧ q ∈ e.2) ↔
          ∃ p ∈ payloads, t = tn p.tp.topic ∧ q = (p.tp.part, p.msgs.map (brokerEntry ext.nowMs body magic))) := by
  have hk := keyed_wireReq ext body magic tn payloads
  have hvalid := produce_valid_of_encode h hv hk
  refine ⟨_, ?_, rfl, ?_⟩
  · rw [produce_bytes h hv hk]
    exact (Spec.request (Spec.produceRequest ext.crc)).law _ hvalid
  · intro t q
    rw [regroup_mem]
    constructor
    · intro hm
      obtain ⟨p, hp, he⟩ := List.mem_map.mp hm
      exact ⟨p, hp, (congrArg Prod.fst he).symm, (congrArg Prod.snd he).symm⟩
    · rintro ⟨p, hp, rfl, rfl⟩
      exact List.mem_map.mpr ⟨p, hp, rfl⟩

end Afkak.Producer.WireBytes
