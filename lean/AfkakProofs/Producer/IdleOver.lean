import Afkak.Monitor.C19Idle
import AfkakProofs.Producer.Dispatch
/-! `neverIdleOver` (clause (i) of the dispatch monitor alone) of every model trace. -/
namespace Afkak.Producer
open Afkak.Monitor.ProducerTrace Afkak.Monitor.C19

theorem checkFrom_mono (c1 c2 : Snap → Track → Step → Bool) (h : ∀ pre t s, c1 pre t s = true → c2 pre t s = true) :
    ∀ (tr : List Step) (pre : Snap) (t : Track), checkFrom c1 pre t tr = true → checkFrom c2 pre t tr = true
  | [], _, _, _ => rfl
  | s :: rest, pre, t, hc => by
    simp only [checkFrom, Bool.and_eq_true] at hc ⊢
    exact ⟨h pre t s hc.1, checkFrom_mono c1 c2 h rest _ _ hc.2⟩

theorem neverIdleOver_of_dispatchIff (cfg : Cfg) (tr : List Step) (h : dispatchIff cfg tr = true) :
    neverIdleOver cfg tr = true := by
  refine checkFrom_mono (dispatchStep cfg) (idleOverStep cfg) ?_ tr _ _ h
  intro pre t s hs
  simp only [dispatchStep, Bool.and_eq_true] at hs
  exact hs.1.1.1.1

theorem neverIdleOver_model (cfg : Cfg) (evs : List Ev) : neverIdleOver cfg (traceOf cfg evs) = true :=
  neverIdleOver_of_dispatchIff cfg _ (dispatchIff_model cfg evs)

end Afkak.Producer
