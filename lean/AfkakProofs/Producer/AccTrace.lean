import AfkakProofs.Producer.Queue
import AfkakProofs.Producer.Static
/-! C19 accounting at trace level: the monitor `accounting` holds on every model trace. -/
namespace Afkak.Producer
open Afkak.Consts Afkak.Monitor.ProducerTrace Afkak.Monitor.C19

theorem trackEv_sends (pre : Snap) (t : Track) (e : Ev) :
    (trackEv pre t e).sends = (match e with
      | .send sid topic key msgs =>
        if sid = t.nextSid then (if msgs.isEmpty then t.sends else t.sends ++ [{ sid, topic, key, msgs }]) else t.sends
      | _ => t.sends) ∧
    (trackEv pre t e).nextSid = (match e with
      | .send sid _ _ _ => if sid = t.nextSid then t.nextSid + 1 else t.nextSid
      | _ => t.nextSid) := by
  cases e <;> simp only [trackEv, completionOf] <;> repeat' split
  all_goals (first | exact ⟨rfl, rfl⟩ | simp_all)

theorem foldl_trackOb_sends (e : Ev) (retry : Bool) (obs : List Ob) (t : Track) :
    (obs.foldl (trackOb e retry) t).sends = t.sends ∧ (obs.foldl (trackOb e retry) t).nextSid = t.nextSid := by
  induction obs generalizing t with
  | nil => exact ⟨rfl, rfl⟩
  | cons o rest ih =>
    rw [List.foldl_cons]
    obtain ⟨h1, h2⟩ := ih (trackOb e retry t o)
    rw [h1, h2]
    cases o <;> simp [trackOb]

theorem track_sends (pre : Snap) (t : Track) (s : Step) :
    (track pre t s).sends = (trackEv pre t s.ev).sends ∧ (track pre t s).nextSid = (trackEv pre t s.ev).nextSid := by
  have h : (track pre t s).sends = (s.obs.foldl (trackOb s.ev (isRetryStep t s.ev)) (trackEv pre t s.ev)).sends ∧
      (track pre t s).nextSid = (s.obs.foldl (trackOb s.ev (isRetryStep t s.ev)) (trackEv pre t s.ev)).nextSid := by
    simp only [track]
    repeat' split
    all_goals exact ⟨rfl, rfl⟩
  rw [h.1, h.2]
  exact foldl_trackOb_sends _ _ _ _

structure SendsInv (st : St) (t : Track) : Prop where
  ns : t.nextSid = st.nextSid
  lt : ∀ r ∈ t.sends, r.sid < t.nextSid
  nodup : (t.sends.map (·.sid)).Nodup
  q : ∀ r ∈ st.queue, r ∈ t.sends
  acc : AccInv st

theorem filter_sid_of_nodup (l : List Req) (r : Req) (hn : (l.map (·.sid)).Nodup) (hr : r ∈ l) :
    l.filter (·.sid = r.sid) = [r] := by
  induction l with
  | nil => cases hr
  | cons a rest ih =>
    simp only [List.map_cons, List.nodup_cons] at hn
    rcases List.mem_cons.mp hr with h | h
    · subst h
      have : rest.filter (fun x => decide (x.sid = r.sid)) = [] := by
        rw [List.filter_eq_nil_iff]
        intro x hx hc
        simp only [decide_eq_true_eq] at hc
        exact hn.1 (by rw [← hc]; exact List.mem_map_of_mem hx)
      simp [this]
    · have hne : a.sid ≠ r.sid := by
        intro hc; exact hn.1 (by rw [hc]; exact List.mem_map_of_mem h)
      simp [hne, ih hn.2 h]

theorem msgsOf_of_mem (t : Track) (r : Req) (hn : (t.sends.map (·.sid)).Nodup) (hr : r ∈ t.sends) :
    t.msgsOf r.sid = r.msgs := by
  simp only [Track.msgsOf, filter_sid_of_nodup t.sends r hn hr, List.flatMap_cons, List.flatMap_nil, List.append_nil]

theorem counts_of_queue (t : Track) (q : List Req) (hn : (t.sends.map (·.sid)).Nodup) (hq : ∀ r ∈ q, r ∈ t.sends) :
    msgCountOf t (q.map (·.sid)) = qMsgs q ∧ byteCountOf t (q.map (·.sid)) = qBytes q := by
  induction q with
  | nil => simp [msgCountOf, byteCountOf, qMsgs, qBytes]
  | cons r rest ih =>
    obtain ⟨h1, h2⟩ := ih (fun x hx => hq x (List.mem_cons_of_mem _ hx))
    have hm := msgsOf_of_mem t r hn (hq r List.mem_cons_self)
    simp only [msgCountOf, byteCountOf, qMsgs, qBytes, List.map_cons, List.sum_cons] at *
    rw [hm, h1, h2]; exact ⟨rfl, rfl⟩

theorem sends_step (cfg : Cfg) (st : St) (t : Track) (pre : Snap) (e : Ev) (h : SendsInv st t) :
    SendsInv (step cfg st e).1 (trackEv pre t e) := by
  obtain ⟨hs, hn⟩ := trackEv_sends pre t e
  have hns := step_nextSid cfg st e
  have hq := step_qsub cfg st e
  have hacc := step_acc cfg st e h.acc
  cases e with
  | send sid topic key msgs =>
    simp only at hs hn hns
    by_cases hsid : sid = st.nextSid
    · have hsid' : sid = t.nextSid := by rw [h.ns]; exact hsid
      rw [if_pos hsid'] at hs hn
      rw [if_pos hsid] at hns
      by_cases hm : msgs.isEmpty
      · rw [if_pos hm] at hs
        refine ⟨by rw [hn, hns, h.ns], ?_, by rw [hs]; exact h.nodup, ?_, hacc⟩
        · intro r hr; rw [hs] at hr; rw [hn]; exact Nat.lt_succ_of_lt (h.lt r hr)
        · intro r hr
          rw [hs]
          rcases hq r hr with h1 | ⟨h1, _, h3⟩
          · exact h.q r h1
          · injection h1 with _ _ _ h4
            simp at hm; exact absurd (h4 ▸ hm) h3
      · rw [if_neg hm] at hs
        refine ⟨by rw [hn, hns, h.ns], ?_, ?_, ?_, hacc⟩
        · intro r hr; rw [hs] at hr; rw [hn]
          rcases List.mem_append.mp hr with h1 | h1
          · exact Nat.lt_succ_of_lt (h.lt r h1)
          · simp at h1; subst h1; show sid < t.nextSid + 1; rw [hsid']; exact Nat.lt_succ_self _
        · rw [hs, List.map_append, List.nodup_append]
          refine ⟨h.nodup, by simp, ?_⟩
          intro a ha b hb hab
          simp at hb; subst hb
          obtain ⟨r, hr, hra⟩ := List.mem_map.mp ha
          have := h.lt r hr
          rw [hra, hab, hsid'] at this
          exact absurd this (Nat.lt_irrefl _)
        · intro r hr
          rw [hs]
          rcases hq r hr with h1 | ⟨h1, _, _⟩
          · exact List.mem_append_left _ (h.q r h1)
          · injection h1 with h1 h2 h3 h4
            apply List.mem_append_right
            simp only [List.mem_singleton]
            cases r; simp_all
    · have hsid' : ¬ sid = t.nextSid := by rw [h.ns]; exact hsid
      rw [if_neg hsid'] at hs hn
      rw [if_neg hsid] at hns
      refine ⟨by rw [hn, hns, h.ns], by rw [hs, hn]; exact h.lt, by rw [hs]; exact h.nodup, ?_, hacc⟩
      intro r hr; rw [hs]
      rcases hq r hr with h1 | ⟨h1, h2, _⟩
      · exact h.q r h1
      · injection h1 with h1 _ _ _
        exact absurd (h1.trans h2) hsid
  | _ =>
    simp only at hs hn hns
    refine ⟨by rw [hn, hns, h.ns], by rw [hs, hn]; exact h.lt, by rw [hs]; exact h.nodup, ?_, hacc⟩
    intro r hr; rw [hs]
    rcases hq r hr with h1 | ⟨h1, _, _⟩
    · exact h.q r h1
    · cases h1

theorem acc_step_ok (cfg : Cfg) (st : St) (t : Track) (pre : Snap) (e : Ev) (h : SendsInv st t) :
    accountingStep pre t { ev := e, obs := (step cfg st e).2, post := snapOf (step cfg st e).1 } = true := by
  have h' := sends_step cfg st t pre e h
  obtain ⟨c1, c2⟩ := counts_of_queue (trackEv pre t e) (step cfg st e).1.queue h'.nodup h'.q
  simp only [accountingStep, snapOf, Bool.and_eq_true, beq_iff_eq]
  rw [c1, c2]
  exact h'.acc

theorem acc_from (cfg : Cfg) (evs : List Ev) (st : St) (t : Track) (pre : Snap) (h : SendsInv st t) :
    checkFrom accountingStep pre t (traceFrom cfg st evs) = true := by
  induction evs generalizing st t pre with
  | nil => rfl
  | cons e rest ih =>
    simp only [traceFrom, checkFrom, Bool.and_eq_true]
    refine ⟨acc_step_ok cfg st t pre e h, ih _ _ _ ?_⟩
    have h' := sends_step cfg st t pre e h
    obtain ⟨e1, e2⟩ := track_sends pre t { ev := e, obs := (step cfg st e).2, post := snapOf (step cfg st e).1 }
    exact ⟨by rw [e2]; exact h'.ns, by rw [e1, e2]; exact h'.lt, by rw [e1]; exact h'.nodup, by rw [e1]; exact h'.q, h'.acc⟩

theorem accounting_model (cfg : Cfg) (evs : List Ev) : accounting cfg (traceOf cfg evs) = true :=
  acc_from cfg evs _ _ _ ⟨rfl, by simp, by simp, by simp [St.init], acc_init cfg⟩

end Afkak.Producer
