import AfkakProofs.Producer.Frame
import Afkak.Monitor.ProducerTrace
/-! Fire discipline: a handler fires only Deferreds that are outstanding, each once, and removes
exactly those from `_outstanding`. -/
namespace Afkak.Producer
open Afkak.Consts Afkak.Monitor.ProducerTrace

/-- going from `_outstanding = out` to `out'` while emitting `obs` -/
structure FD (out out' : List Sid) (obs : List Ob) : Prop where
  sub : ∀ s ∈ out', s ∈ out
  nodup : out.Nodup → out'.Nodup
  fnodup : out.Nodup → (firedSids obs).Nodup
  fin : ∀ s ∈ firedSids obs, s ∈ out
  fout : out.Nodup → ∀ s ∈ firedSids obs, s ∉ out'
  /-- what is no longer outstanding has fired -/
  gone : ∀ s ∈ out, s ∉ out' → s ∈ firedSids obs

theorem firedSids_append (a b : List Ob) : firedSids (a ++ b) = firedSids a ++ firedSids b := by
  simp [firedSids, List.filterMap_append]

theorem firedSids_cons_fire (s : Sid) (o : Outcome) (l : List Ob) :
    firedSids (.fire s o :: l) = s :: firedSids l := by
  simp [firedSids]

theorem FD.rfl' (out : List Sid) : FD out out [] := by
  constructor <;> simp [firedSids]

theorem FD.nofire {out : List Sid} {obs : List Ob} (h : firedSids obs = []) : FD out out obs := by
  constructor <;> simp [h]

theorem FD.trans {a b c : List Sid} {o1 o2 : List Ob} (h1 : FD a b o1) (h2 : FD b c o2) :
    FD a c (o1 ++ o2) := by
  constructor
  · intro s hs; exact h1.sub s (h2.sub s hs)
  · intro hn; exact h2.nodup (h1.nodup hn)
  · intro hn
    rw [firedSids_append, List.nodup_append]
    refine ⟨h1.fnodup hn, h2.fnodup (h1.nodup hn), ?_⟩
    intro x hx y hy hxy
    subst hxy
    exact h1.fout hn x hx (h2.fin x hy)
  · intro s hs
    rw [firedSids_append, List.mem_append] at hs
    rcases hs with hs | hs
    · exact h1.fin s hs
    · exact h1.sub s (h2.fin s hs)
  · intro hn s hs
    rw [firedSids_append, List.mem_append] at hs
    rcases hs with hs | hs
    · intro hc; exact h1.fout hn s hs (h2.sub s hc)
    · exact h2.fout (h1.nodup hn) s hs
  · intro s hs hc
    rw [firedSids_append, List.mem_append]
    by_cases hb : s ∈ b
    · exact Or.inr (h2.gone s hb hc)
    · exact Or.inl (h1.gone s hs hb)

theorem FD.fire1 {out : List Sid} {s : Sid} (o : Outcome) (hs : s ∈ out) :
    FD out (out.erase s) [.fire s o] := by
  constructor
  · intro x hx; exact List.mem_of_mem_erase hx
  · intro hn; exact hn.erase s
  · intro _; simp [firedSids]
  · intro x hx; simp [firedSids] at hx; subst hx; exact hs
  · intro hn x hx; simp [firedSids] at hx; subst hx; exact hn.not_mem_erase
  · intro x hx hc
    simp only [firedSids, List.filterMap_cons, List.filterMap_nil, List.mem_singleton]
    by_cases hxs : x = s
    · exact hxs
    · exact absurd ((List.mem_erase_of_ne hxs).mpr hx) hc

theorem deliver_fd (out sids : List Sid) (o : Outcome) :
    FD out (deliver out sids o).1 (deliver out sids o).2 := by
  induction sids generalizing out with
  | nil => simpa [deliver] using FD.rfl' out
  | cons s rest ih =>
    simp only [deliver]
    split
    · rename_i hs
      have := (FD.fire1 o hs).trans (ih (out.erase s))
      simpa using this
    · exact ih out

theorem deliverMany_fd (out : List Sid) (l : List (List Sid × Outcome)) :
    FD out (deliverMany out l).1 (deliverMany out l).2 := by
  induction l generalizing out with
  | nil => simpa [deliverMany] using FD.rfl' out
  | cons x rest ih =>
    obtain ⟨sids, o⟩ := x
    simp only [deliverMany]
    exact (deliver_fd out sids o).trans (ih _)

theorem procResults_fd (ls : List Lookup) (out : List Sid) (gs : List Payload) :
    FD out (procResults ls out gs).1 (procResults ls out gs).2.2 := by
  induction ls generalizing out gs with
  | nil => simpa [procResults] using FD.rfl' out
  | cons l rest ih =>
    simp only [procResults]
    split
    · rename_i hs
      split
      · exact ih _ _
      · have := (FD.fire1 (.err ‹ErrKind›) hs).trans (ih (out.erase l.req.sid) gs)
        simpa using this
      · exact ih _ _
    · exact ih _ _

end Afkak.Producer

namespace Afkak.Producer
open Afkak.Consts Afkak.Monitor.ProducerTrace

/-- fire discipline of a state transformer -/
abbrev FDs (a b : St) (obs : List Ob) : Prop := FD a.outstanding b.outstanding obs

theorem lookupHead_nofire (cfg : Cfg) (st : St) (r : Req) : firedSids (lookupHead cfg st r).2.2 = [] := by
  simp only [lookupHead]; repeat' split
  all_goals simp [firedSids]

theorem lookupHead_out (cfg : Cfg) (st : St) (r : Req) : (lookupHead cfg st r).1.outstanding = st.outstanding := by
  rw [lookupHead_frame]

theorem startLookups_nofire (cfg : Cfg) (st : St) (rs : List Req) : firedSids (startLookups cfg st rs).2.2 = [] := by
  induction rs generalizing st with
  | nil => simp [startLookups, firedSids]
  | cons r rest ih => simp only [startLookups, firedSids_append, lookupHead_nofire, ih, List.append_nil]

theorem startLookups_out (cfg : Cfg) (st : St) (rs : List Req) : (startLookups cfg st rs).1.outstanding = st.outstanding := by
  rw [startLookups_frame]

theorem metaContinue_nofire (cfg : Cfg) (st : St) (r : Req) (res : MetaRes) :
    firedSids (metaContinue cfg st r res).2.2 = [] := by
  cases res <;> simp only [metaContinue] <;> repeat' split
  all_goals simp [firedSids]

theorem metaContinue_out (cfg : Cfg) (st : St) (r : Req) (res : MetaRes) :
    (metaContinue cfg st r res).1.outstanding = st.outstanding := by
  rw [metaContinue_frame]

theorem sendRequests_fd (st : St) (ls : List Lookup) : FDs st (sendRequests st ls).1 (sendRequests st ls).2.1 := by
  simp only [sendRequests]
  split
  · exact FD.rfl' _
  · split
    · exact procResults_fd ls st.outstanding []
    · have h := (procResults_fd ls st.outstanding []).trans
        (FD.nofire (out := (procResults ls st.outstanding []).1)
          (obs := [Ob.produce st.nextRid (procResults ls st.outstanding []).2.1]) (by simp [firedSids]))
      exact h

theorem checkRetry_fd (cfg : Cfg) (st : St) (b : Batch) (f : List FailedP) :
    FDs st (checkRetry cfg st b f).1 (checkRetry cfg st b f).2.1 := by
  simp only [checkRetry]
  split
  · exact FD.rfl' _
  · split
    · split
      · exact (deliverMany_fd _ _).trans (deliver_fd _ _ _)
      · have := (deliverMany_fd st.outstanding (f.map (fun f => (b.sidsOf f.tp, Outcome.err f.kind)))).trans (FD.rfl' _)
        simpa using this
    · apply FD.nofire; split <;> simp [firedSids]

theorem checkRetry_fd' (cfg : Cfg) (st : St) (b : Batch) (f : List FailedP) (out : List Sid) :
    FD out (checkRetry cfg { st with outstanding := out } b f).1.outstanding
      (checkRetry cfg { st with outstanding := out } b f).2.1 :=
  checkRetry_fd cfg { st with outstanding := out } b f

theorem handleResults_fd (cfg : Cfg) (st : St) (b : Batch) (rs : List Resp) (fs : List FailedP) :
    FDs st (handleResults cfg st b rs fs).1 (handleResults cfg st b rs fs).2.1 := by
  simp only [handleResults]
  split
  · exact deliverMany_fd _ _
  · dsimp only
    exact FD.trans (deliverMany_fd _ _) (checkRetry_fd' cfg st _ _ _)

theorem deliverAll_fd (st : St) (b : Batch) (o : Outcome) : FDs st (deliverAll st b o).1 (deliverAll st b o).2.1 := by
  simp only [deliverAll]; exact deliver_fd _ _ _

theorem handleSendResponse_fd (cfg : Cfg) (st : St) (b : Batch) (r : ProdRes) :
    FDs st (handleSendResponse cfg st b r).1 (handleSendResponse cfg st b r).2.1 := by
  simp only [handleSendResponse]
  repeat' split
  all_goals first | exact deliverAll_fd _ _ _ | exact handleResults_fd _ _ _ _ _

theorem dispatch_fd (cfg : Cfg) (st : St) : FDs st (dispatch cfg st).1 (dispatch cfg st).2 := by
  simp only [dispatch]
  have h0 : FD st.outstanding (startLookups cfg { st with queue := [], msgCount := 0, byteCount := 0 } st.queue).1.outstanding
      (startLookups cfg { st with queue := [], msgCount := 0, byteCount := 0 } st.queue).2.2 := by
    rw [startLookups_out]; exact FD.nofire (startLookups_nofire _ _ _)
  split
  · have h1 := h0.trans (sendRequests_fd
      { (startLookups cfg { st with queue := [], msgCount := 0, byteCount := 0 } st.queue).1 with
        phase := .lookups (startLookups cfg { st with queue := [], msgCount := 0, byteCount := 0 } st.queue).2.1 }
      (startLookups cfg { st with queue := [], msgCount := 0, byteCount := 0 } st.queue).2.1)
    split <;> exact h1
  · exact h0

theorem sendBatch_fd (cfg : Cfg) (st : St) : FDs st (sendBatch cfg st).1 (sendBatch cfg st).2 := by
  simp only [sendBatch]; split
  · exact dispatch_fd cfg st
  · exact FD.rfl' _

theorem checkSendBatch_fd (cfg : Cfg) (st : St) : FDs st (checkSendBatch cfg st).1 (checkSendBatch cfg st).2 := by
  simp only [checkSendBatch]; split
  · exact sendBatch_fd cfg st
  · exact FD.rfl' _

theorem completeBatch_fd (cfg : Cfg) (st : St) : FDs st (completeBatch cfg st).1 (completeBatch cfg st).2 := by
  simp only [completeBatch]; exact checkSendBatch_fd cfg (resetBatch cfg st)

theorem finish_fd (cfg : Cfg) (st : St) (r : St × List Ob × Bool) (h : FDs st r.1 r.2.1) :
    FDs st (finish cfg r).1 (finish cfg r).2 := by
  simp only [finish]; split
  · exact h.trans (completeBatch_fd cfg r.1)
  · exact h

theorem afterLookups_fd (cfg : Cfg) (st : St) (ls : List Lookup) (obs : List Ob) (h : firedSids obs = []) :
    FDs st (afterLookups cfg st ls obs).1 (afterLookups cfg st ls obs).2 := by
  simp only [afterLookups]
  have h0 : FD st.outstanding st.outstanding obs := FD.nofire h
  split
  · have h1 := h0.trans (sendRequests_fd { st with phase := .lookups ls } ls)
    split
    · have := h1.trans (completeBatch_fd cfg (sendRequests { st with phase := .lookups ls } ls).1)
      simpa [List.append_assoc] using this
    · exact h1
  · exact h0

theorem cancelSend_fd (st : St) (sid : Sid) : FDs st (cancelSend st sid).1 (cancelSend st sid).2 := by
  simp only [cancelSend]
  split
  · rename_i hs
    split <;> exact FD.fire1 _ hs
  · exact FD.rfl' _

theorem cancelAll_fd (st : St) (l : List Sid) : FDs st (cancelAll st l).1 (cancelAll st l).2 := by
  induction l generalizing st with
  | nil => exact FD.rfl' _
  | cons s rest ih =>
    simp only [cancelAll]
    exact (cancelSend_fd st s).trans (ih _)

theorem doRetry_fd (st : St) (b : Batch) (tps : List TP) : FDs st (doRetry st b tps).1 (doRetry st b tps).2 := by
  simp only [doRetry]; exact FD.nofire (by simp [firedSids])

end Afkak.Producer

namespace Afkak.Producer
open Afkak.Consts Afkak.Monitor.ProducerTrace

theorem cancelLookup_nofire (mouts : List (Rid × MetaRes)) (l : Lookup) :
    firedSids (cancelLookup mouts l).2.2 = [] := by
  simp only [cancelLookup]; repeat' split
  all_goals simp [firedSids]

theorem flatMap_nofire {α} (l : List α) (f : α → List Ob) (h : ∀ x, firedSids (f x) = []) :
    firedSids (l.flatMap f) = [] := by
  induction l with
  | nil => simp [firedSids]
  | cons a rest ih => simp only [List.flatMap_cons, firedSids_append, h a, ih, List.append_nil]

theorem cancelLookups_fd (cfg : Cfg) (st : St) (ls : List Lookup) (mouts : List (Rid × MetaRes)) :
    FDs st (cancelLookups cfg st ls mouts).1 (cancelLookups cfg st ls mouts).2 := by
  simp only [cancelLookups]
  have hn : firedSids ((ls.map (cancelLookup mouts)).flatMap (·.2.2)) = [] := by
    rw [List.flatMap_map]; exact flatMap_nofire _ _ (cancelLookup_nofire mouts)
  exact afterLookups_fd cfg { st with zombies := st.zombies ++ (ls.map (cancelLookup mouts)).flatMap (·.2.1) } _ _ hn

theorem cancelSending_fd (cfg : Cfg) (st : St) (wipe : Bool) (rid : Rid) (b : Batch) (pout : Option ProdRes) :
    FDs st (cancelSending cfg st wipe rid b pout).1 (cancelSending cfg st wipe rid b pout).2 := by
  cases pout with
  | none => simp only [cancelSending]; exact FD.nofire (by simp [firedSids])
  | some r =>
    simp only [cancelSending]
    have h2 : FD st.outstanding st.outstanding [Ob.cancelReq rid] := FD.nofire (by simp [firedSids])
    cases wipe with
    | false =>
      have h1 := finish_fd cfg st _ (handleSendResponse_fd cfg st b r)
      simpa using h2.trans h1
    | true =>
      have h1 := finish_fd cfg { st with tmeta := [] } _ (handleSendResponse_fd cfg { st with tmeta := [] } b r)
      simpa using h2.trans h1

theorem cancelRetryWait_fd (cfg : Cfg) (st : St) (tid : Tid) (b : Batch) :
    FDs st (cancelRetryWait cfg st tid b).1 (cancelRetryWait cfg st tid b).2 := by
  simp only [cancelRetryWait]
  have h := finish_fd cfg st _ (deliverAll_fd st b (.err .tcancelled))
  have h2 : FD st.outstanding st.outstanding [Ob.cancelTimer tid] := FD.nofire (by simp [firedSids])
  simpa using h2.trans h

theorem cancelBatch_fd (cfg : Cfg) (st : St) (wipe : Bool) (pout : Option ProdRes) (mouts : List (Rid × MetaRes)) :
    FDs st (cancelBatch cfg st wipe pout mouts).1 (cancelBatch cfg st wipe pout mouts).2 := by
  simp only [cancelBatch]
  split
  · exact FD.rfl' _
  · exact cancelLookups_fd ..
  · exact cancelSending_fd ..
  · exact cancelRetryWait_fd ..

theorem zombieTimer_fd (st : St) (tid : Tid) : FDs st (zombieTimer st tid).1 (zombieTimer st tid).2 := by
  simp only [zombieTimer]; split
  · exact FD.rfl' _
  · exact FD.nofire (by simp [firedSids])

theorem timerLookups_fd (cfg : Cfg) (st : St) (ls : List Lookup) (tid : Tid) :
    FDs st (timerLookups cfg st ls tid).1 (timerLookups cfg st ls tid).2 := by
  simp only [timerLookups]
  split
  · rename_i l _
    have h := afterLookups_fd cfg (lookupHead cfg st l.req).1 (setPc ls (.waitBackoff tid) (lookupHead cfg st l.req).2.1)
      (lookupHead cfg st l.req).2.2 (lookupHead_nofire cfg st l.req)
    unfold FDs at h; rw [lookupHead_out] at h
    exact h
  · exact zombieTimer_fd st tid

theorem metaDoneLookups_fd (cfg : Cfg) (st : St) (ls : List Lookup) (rid : Rid) (res : MetaRes) :
    FDs st (metaDoneLookups cfg st ls rid res).1 (metaDoneLookups cfg st ls rid res).2 := by
  simp only [metaDoneLookups]
  split
  · rename_i l _
    have h := afterLookups_fd cfg (metaContinue cfg st l.req res).1 (setPc ls (.waitMeta rid) (metaContinue cfg st l.req res).2.1)
      (metaContinue cfg st l.req res).2.2 (metaContinue_nofire cfg st l.req res)
    unfold FDs at h; rw [metaContinue_out] at h
    exact h
  · exact FD.nofire (by simp [firedSids])

theorem doStop_fd (cfg : Cfg) (st : St) (wipe : Bool) (pout : Option ProdRes) (mouts : List (Rid × MetaRes)) :
    FDs st (doStop cfg st wipe pout mouts).1 (doStop cfg st wipe pout mouts).2 := by
  simp only [doStop]
  have h1 : FD st.outstanding _ _ := cancelBatch_fd cfg { st with stopping := true } wipe pout mouts
  split
  · have h2 : FD (cancelBatch cfg { st with stopping := true } wipe pout mouts).1.outstanding
          (cancelBatch cfg { st with stopping := true } wipe pout mouts).1.outstanding [Ob.stopLooper] :=
        FD.nofire (by simp [firedSids])
    have h3 := cancelAll_fd { (cancelBatch cfg { st with stopping := true } wipe pout mouts).1 with looper := false }
        (cancelBatch cfg { st with stopping := true } wipe pout mouts).1.outstanding
    exact (h1.trans h2).trans h3
  · have h3 := cancelAll_fd (cancelBatch cfg { st with stopping := true } wipe pout mouts).1
        (cancelBatch cfg { st with stopping := true } wipe pout mouts).1.outstanding
    exact (h1.trans (FD.rfl' _)).trans h3

/-- `_outstanding` as the step's handlers first see it (a valid `send` appends its Deferred) -/
def outPlus (st : St) : Ev → List Sid
  | .send sid _ _ _ => if sid = st.nextSid then st.outstanding ++ [sid] else st.outstanding
  | _ => st.outstanding

theorem step_fd (cfg : Cfg) (st : St) (e : Ev) : FD (outPlus st e) (step cfg st e).1.outstanding (step cfg st e).2 := by
  cases e with
  | send sid topic key msgs =>
    by_cases h' : sid = st.nextSid
    · simp only [step, outPlus, h', ne_eq, not_true_eq_false, if_false, if_true]
      split
      · have h1 := FD.fire1 (out := st.outstanding ++ [st.nextSid]) (s := st.nextSid) (.err (.other 4)) (by simp)
        refine ⟨?_, ?_, h1.fnodup, h1.fin, ?_, ?_⟩
        · intro s hs; exact List.mem_append_left _ hs
        · intro hn; exact (List.nodup_append.mp hn).1
        · intro hn s hs
          simp [firedSids] at hs; subst hs
          intro hc
          exact (List.nodup_append.mp hn).2.2 _ hc _ (by simp) rfl
        · intro s hs hc
          simp only [firedSids, List.filterMap_cons, List.filterMap_nil, List.mem_singleton]
          rcases List.mem_append.mp hs with h | h
          · exact absurd h hc
          · simpa using h
      · simp only [doSend]
        exact checkSendBatch_fd cfg (enqueue st st.nextSid topic key msgs)
    · simp only [step, outPlus, h', ne_eq, not_false_eq_true, if_true, if_false]
      exact FD.nofire (by simp [firedSids])
  | cancel sid =>
    simp only [step, outPlus]; split
    · exact cancelSend_fd st sid
    · exact FD.nofire (by simp [firedSids])
  | tick =>
    simp only [step, outPlus]; split
    · exact sendBatch_fd cfg st
    · exact FD.nofire (by simp [firedSids])
  | timer tid =>
    simp only [step, outPlus]
    split
    · exact timerLookups_fd ..
    · split
      · exact doRetry_fd ..
      · exact zombieTimer_fd ..
    · exact zombieTimer_fd ..
  | advance dt => simp only [step, outPlus]; exact FD.rfl' _
  | metaSet topic err parts => simp only [step, outPlus]; exact FD.rfl' _
  | metaReset topics => simp only [step, outPlus]; exact FD.rfl' _
  | metaWipe => simp only [step, outPlus]; exact FD.rfl' _
  | metaDone rid res =>
    simp only [step, outPlus]
    split
    · exact metaDoneLookups_fd ..
    · exact FD.nofire (by simp [firedSids])
  | produceDone rid res =>
    simp only [step, outPlus]
    split
    · split
      · exact finish_fd cfg st _ (handleSendResponse_fd cfg st _ res)
      · exact FD.nofire (by simp [firedSids])
    · exact FD.nofire (by simp [firedSids])
  | stop wipe pout mouts =>
    simp only [step, outPlus]
    split
    · exact FD.nofire (by simp [firedSids])
    · exact doStop_fd ..

end Afkak.Producer
