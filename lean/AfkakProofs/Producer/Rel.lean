import AfkakProofs.Producer.TrackLemmas
import Afkak.Monitor.C01
import Afkak.Monitor.C09
/-! The relation between the Producer model's state and the monitors' summary of the trace so far. -/
namespace Afkak.Producer
open Afkak.Consts Afkak.Monitor.ProducerTrace

/-! ### payload look-ups -/

theorem filter_tp_of_nodup (gs : List Payload) (g : Payload) (hn : (gs.map (·.tp)).Nodup) (hg : g ∈ gs) :
    gs.filter (·.tp = g.tp) = [g] := by
  induction gs with
  | nil => cases hg
  | cons a rest ih =>
    simp only [List.map_cons, List.nodup_cons] at hn
    rcases List.mem_cons.mp hg with h | h
    · subst h
      have : rest.filter (fun x => decide (x.tp = g.tp)) = [] := by
        rw [List.filter_eq_nil_iff]
        intro x hx hc
        simp only [decide_eq_true_eq] at hc
        exact hn.1 (by rw [← hc]; exact List.mem_map_of_mem hx)
      simp [this]
    · have hne : a.tp ≠ g.tp := by
        intro hc; exact hn.1 (by rw [hc]; exact List.mem_map_of_mem h)
      simp [hne, ih hn.2 h]

theorem payloadsFor_all (b : Batch) (hn : (b.groups.map (·.tp)).Nodup) :
    b.payloadsFor (b.groups.map (·.tp)) = b.groups := by
  simp only [Batch.payloadsFor, List.flatMap_map]
  have : ∀ gs : List Payload, (∀ g ∈ gs, g ∈ b.groups) →
      gs.flatMap (fun g => b.groups.filter (·.tp = g.tp)) = gs := by
    intro gs hs
    induction gs with
    | nil => rfl
    | cons g rest ih =>
      simp only [List.flatMap_cons]
      rw [filter_tp_of_nodup b.groups g hn (hs g List.mem_cons_self), ih (fun x hx => hs x (List.mem_cons_of_mem _ hx))]
      rfl
  exact this b.groups (fun g hg => hg)

theorem payloadsFor_map_tp (b : Batch) (tps : List TP) (hn : (b.groups.map (·.tp)).Nodup)
    (hs : ∀ tp ∈ tps, tp ∈ b.groups.map (·.tp)) : (b.payloadsFor tps).map (·.tp) = tps := by
  induction tps with
  | nil => rfl
  | cons tp rest ih =>
    simp only [Batch.payloadsFor, List.flatMap_cons, List.map_append]
    obtain ⟨g, hg, hgt⟩ := List.mem_map.mp (hs tp List.mem_cons_self)
    have := filter_tp_of_nodup b.groups g hn hg
    rw [hgt] at this
    rw [this]
    simp only [List.map_cons, List.map_nil, List.singleton_append, hgt]
    congr 1
    exact ih (fun x hx => hs x (List.mem_cons_of_mem _ hx))

theorem mem_payloadsFor (b : Batch) (tps : List TP) (g : Payload) :
    g ∈ b.payloadsFor tps ↔ g ∈ b.groups ∧ g.tp ∈ tps := by
  simp only [Batch.payloadsFor, List.mem_flatMap, List.mem_filter, decide_eq_true_eq]
  constructor
  · rintro ⟨tp, h1, h2, h3⟩; exact ⟨h2, h3 ▸ h1⟩
  · rintro ⟨h1, h2⟩; exact ⟨g.tp, h2, h1, rfl⟩

theorem payloadSids_payloadsFor_sub (b : Batch) (tps : List TP) :
    ∀ s ∈ payloadSids (b.payloadsFor tps), s ∈ b.allSids := by
  intro s hs
  simp only [payloadSids, Batch.allSids, List.mem_flatMap] at *
  obtain ⟨g, hg, hgs⟩ := hs
  exact ⟨g, ((mem_payloadsFor b tps g).mp hg).1, hgs⟩

theorem validFor_eq (b : Batch) (r : ProdRes) (hn : (b.groups.map (·.tp)).Nodup)
    (hs : ∀ tp ∈ b.current, tp ∈ b.groups.map (·.tp)) :
    validFor (b.payloadsFor b.current) r = validResult b r := by
  simp only [validFor, validResult, payloadsFor_map_tp b b.current hn hs]

/-! ### the relation -/

/-- the batch in flight, as the summary knows it -/
structure BRel (b : Batch) (t : Track) : Prop where
  tps : t.batchTps = b.groups.map (·.tp)
  nodup : (b.groups.map (·.tp)).Nodup
  /-- what stays listed for a retry: payloads of the batch, each once, none acknowledged so far -/
  live_sub : ∀ tp ∈ b.live, tp ∈ b.groups.map (·.tp)
  live_nodup : b.live.Nodup
  live_unacked : ∀ tp ∈ b.live, tp ∉ t.acked
  lastP : ∀ g ∈ b.groups, (g.tp, g.sids) ∈ t.lastP
  prod : ∀ s ∈ b.allSids, s ∈ t.produced
  chain1 : 1 ≤ t.chain

/-- while the client's produce Deferred is pending -/
structure SendRel (st : St) (t : Track) (rid : Rid) (b : Batch) : Prop where
  cur : t.cur = some (rid, b.payloadsFor b.current)
  res : t.curRes = none
  br : BRel b t
  chain : (t.chain : Int) ≤ st.attempts
  sub : ∀ tp ∈ b.current, tp ∈ b.live
  nodup : b.current.Nodup
  ne : b.current ≠ []
  /-- nothing but the payloads of the attempt is listed for a retry (F17, F30) -/
  al : ∀ tp ∈ b.live, tp ∈ b.current

/-- while the retry timer is pending -/
structure RetryRel (cfg : Cfg) (st : St) (t : Track) (tid : Tid) (b : Batch) (tps : List TP) : Prop where
  tid : tid ∈ t.retryTids
  res : ∃ res, t.curRes = some res ∧ tps = failedTps tps res
  br : BRel b t
  chain : (t.chain : Int) ≤ st.attempts
  att : st.attempts < cfg.maxAttempts
  sub : ∀ tp ∈ tps, tp ∈ b.live
  nodup : tps.Nodup
  nostop : st.stopping = false
  ne : tps ≠ []
  al : ∀ tp ∈ b.live, tp ∈ tps
  /-- the request being retried: the retry is part of it - and all of it after a total failure -/
  prev : ∃ rid cur0, t.cur = some (rid, b.payloadsFor cur0) ∧ (∀ tp ∈ cur0, tp ∈ b.groups.map (·.tp)) ∧
    (∀ tp ∈ tps, tp ∈ cur0) ∧ (∀ k, t.curRes = some (.err k) → ∀ tp ∈ cur0, tp ∈ tps)

structure Rel (cfg : Cfg) (st : St) (t : Track) : Prop where
  stopped : t.stopped = st.stopping
  sending : ∀ rid b, st.phase = .sending rid b → SendRel st t rid b
  retrying : ∀ tid b tps, st.phase = .retryWait tid b tps → RetryRel cfg st t tid b tps
  quiet : (st.phase = .idle ∨ ∃ ls, st.phase = .lookups ls) → (t.cur = none ∨ t.curRes.isSome = true)
  lp_nodup : (t.lastP.map (·.1)).Nodup
  rt_lt : ∀ tid ∈ t.retryTids, tid < st.nextTid
  bo_lt : ∀ ls, st.phase = .lookups ls → ∀ l ∈ ls, ∀ tid, l.pc = .waitBackoff tid → tid < st.nextTid
  bo_nr : ∀ ls, st.phase = .lookups ls → ∀ l ∈ ls, ∀ tid, l.pc = .waitBackoff tid → tid ∉ t.retryTids
  bo_stop : st.stopping = true → ∀ ls, st.phase = .lookups ls → ∀ l ∈ ls, l.pc.isBackoff = false
  att : 0 ≤ st.attempts
  idle0 : st.phase = .idle → st.attempts = 0 ∧ st.interval = cfg.initInterval

theorem norm_field {α : Type} {t t' : Track} (f : Track → α) (hf : ∀ x, f x = f (norm x)) (hn : norm t = norm t') :
    f t = f t' := by rw [hf t, hf t', hn]

theorem BRel.congr {b : Batch} {t t' : Track} (h : BRel b t) (hn : norm t = norm t') : BRel b t' := by
  have e5 : t.batchTps = t'.batchTps := norm_field (·.batchTps) (fun _ => rfl) hn
  have e6 : t.acked = t'.acked := norm_field (·.acked) (fun _ => rfl) hn
  have e7 : t.lastP = t'.lastP := norm_field (·.lastP) (fun _ => rfl) hn
  have e8 : t.produced = t'.produced := norm_field (·.produced) (fun _ => rfl) hn
  have e9 : t.chain = t'.chain := norm_field (·.chain) (fun _ => rfl) hn
  exact ⟨by rw [← e5]; exact h.tps, h.nodup, h.live_sub, h.live_nodup, by rw [← e6]; exact h.live_unacked, by rw [← e7]; exact h.lastP,
    by rw [← e8]; exact h.prod, by rw [← e9]; exact h.chain1⟩

theorem SendRel.congr {st : St} {t t' : Track} {rid : Rid} {b : Batch} (h : SendRel st t rid b) (hn : norm t = norm t') :
    SendRel st t' rid b := by
  have e1 : t.cur = t'.cur := norm_field (·.cur) (fun _ => rfl) hn
  have e2 : t.curRes = t'.curRes := norm_field (·.curRes) (fun _ => rfl) hn
  have e3 : t.chain = t'.chain := norm_field (·.chain) (fun _ => rfl) hn
  exact ⟨by rw [← e1]; exact h.cur, by rw [← e2]; exact h.res, h.br.congr hn, by rw [← e3]; exact h.chain, h.sub, h.nodup, h.ne, h.al⟩

theorem RetryRel.congr {cfg : Cfg} {st : St} {t t' : Track} {tid : Tid} {b : Batch} {tps : List TP}
    (h : RetryRel cfg st t tid b tps) (hn : norm t = norm t') : RetryRel cfg st t' tid b tps := by
  have e2 : t.curRes = t'.curRes := norm_field (·.curRes) (fun _ => rfl) hn
  have e3 : t.chain = t'.chain := norm_field (·.chain) (fun _ => rfl) hn
  have e4 : t.retryTids = t'.retryTids := norm_field (·.retryTids) (fun _ => rfl) hn
  have e5 : t.batchTps = t'.batchTps := norm_field (·.batchTps) (fun _ => rfl) hn
  have e6 : t.acked = t'.acked := norm_field (·.acked) (fun _ => rfl) hn
  exact ⟨by rw [← e4]; exact h.tid, by rw [← e2]; exact h.res, h.br.congr hn, by rw [← e3]; exact h.chain,
    h.att, h.sub, h.nodup, h.nostop, h.ne, h.al,
    by rw [← e2, ← (norm_field (·.cur) (fun _ => rfl) hn : t.cur = t'.cur)]; exact h.prev⟩

theorem Rel.congr {cfg : Cfg} {st : St} {t t' : Track} (h : Rel cfg st t) (hn : norm t = norm t') : Rel cfg st t' := by
  have e1 : t.cur = t'.cur := norm_field (·.cur) (fun _ => rfl) hn
  have e2 : t.curRes = t'.curRes := norm_field (·.curRes) (fun _ => rfl) hn
  have e4 : t.retryTids = t'.retryTids := norm_field (·.retryTids) (fun _ => rfl) hn
  have e7 : t.lastP = t'.lastP := norm_field (·.lastP) (fun _ => rfl) hn
  have e8 : t.stopped = t'.stopped := norm_field (·.stopped) (fun _ => rfl) hn
  exact ⟨by rw [← e8]; exact h.stopped, fun rid b hp => (h.sending rid b hp).congr hn,
    fun tid b tps hp => (h.retrying tid b tps hp).congr hn, by rw [← e1, ← e2]; exact h.quiet,
    by rw [← e7]; exact h.lp_nodup, by rw [← e4]; exact h.rt_lt, h.bo_lt, by rw [← e4]; exact h.bo_nr, h.bo_stop, h.att, h.idle0⟩

end Afkak.Producer
