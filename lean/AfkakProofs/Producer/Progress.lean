import AfkakProofs.Producer.ExactlyOnce
/-! C01 "eventually": a batch in flight cannot go on unresolved for ever - if the environment keeps answering
(the client completes the request in flight, the retry timer fires), the batch resolves after at most
`2·(max_req_attempts − _req_attempts) + 1` answers. -/
namespace Afkak.Producer
open Afkak.Consts Afkak.Monitor.ProducerTrace

/-- how many more answers of the environment the batch in flight can take without resolving -/
def budget (cfg : Cfg) (st : St) : Nat :=
  match st.phase with
  | .sending _ _ => 2 * (cfg.maxAttempts - st.attempts).toNat + 1
  | .retryWait _ _ _ => 2 * (cfg.maxAttempts - st.attempts).toNat
  | _ => 0

/-- the environment answers what the batch in flight waits for (the client's result for the request in
    flight, valid; the retry timer), and no answer resolves the batch -/
def unresolvedChain (cfg : Cfg) : St → List Ev → Prop
  | _, [] => True
  | st, e :: es =>
    (match st.phase with
      | .sending rid b => ∃ r, e = .produceDone rid r ∧ validResult b r = true ∧ (handleSendResponse cfg st b r).2.2 = false
      | .retryWait tid _ _ => e = .timer tid
      | _ => False) ∧ unresolvedChain cfg (step cfg st e).1 es

/-- the same, decidably (for examples) -/
def unresolvedChainB (cfg : Cfg) : St → List Ev → Bool
  | _, [] => true
  | st, e :: es =>
    (match st.phase, e with
      | .sending rid b, .produceDone k r => k == rid && validResult b r && !(handleSendResponse cfg st b r).2.2
      | .retryWait tid _ _, .timer t => t == tid
      | _, _ => false) && unresolvedChainB cfg (step cfg st e).1 es

theorem unresolvedChainB_sound (cfg : Cfg) (evs : List Ev) (st : St) (h : unresolvedChainB cfg st evs = true) :
    unresolvedChain cfg st evs := by
  induction evs generalizing st with
  | nil => trivial
  | cons e rest ih =>
    simp only [unresolvedChainB, Bool.and_eq_true] at h
    refine ⟨?_, ih _ h.2⟩
    have h1 := h.1
    cases hp : st.phase with
    | idle => rw [hp] at h1; simp at h1
    | lookups ls => rw [hp] at h1; simp at h1
    | sending rid b =>
      rw [hp] at h1
      cases e with
      | produceDone k r =>
        simp only [Bool.and_eq_true, beq_iff_eq, Bool.not_eq_true'] at h1
        obtain ⟨⟨hk, hv⟩, hr⟩ := h1
        subst hk
        exact ⟨r, rfl, hv, hr⟩
      | _ => simp at h1
    | retryWait tid b tps =>
      rw [hp] at h1
      cases e with
      | timer t => simp only [beq_iff_eq] at h1; rw [h1]
      | _ => simp at h1

theorem unresolved_bound (cfg : Cfg) (evs : List Ev) (st : St) (hr : ∃ t, Rel cfg st t)
    (h : unresolvedChain cfg st evs) : evs.length ≤ budget cfg st := by
  induction evs generalizing st with
  | nil => exact Nat.zero_le _
  | cons e rest ih =>
    obtain ⟨t, ht⟩ := hr
    obtain ⟨h1, h2⟩ := h
    have hr' : ∃ t', Rel cfg (step cfg st e).1 t' := ⟨_, (rel_step cfg st t (snapOf st) e ht).1⟩
    have ih' := ih _ hr' h2
    cases hp : st.phase with
    | idle => rw [hp] at h1; cases h1
    | lookups ls => rw [hp] at h1; cases h1
    | sending rid b =>
      rw [hp] at h1
      obtain ⟨r, he, hv, hres⟩ := h1
      subst he
      have hstep : step cfg st (.produceDone rid r) = finish cfg (handleSendResponse cfg st b r) := by
        simp [step, hp, hv]
      obtain ⟨_, hd⟩ := handleSendResponse_spec cfg st b r
      generalize hg : (handleSendResponse cfg st b r).2.2 = res at hd hres
      subst hres
      cases hd with
      | retry d1 _ d3 d4 =>
        have hfin : finish cfg (handleSendResponse cfg st b r) = ((handleSendResponse cfg st b r).1, (handleSendResponse cfg st b r).2.1) := by
          simp [finish, hg]
        rw [hstep, hfin] at ih'
        simp only [budget, d1, d3] at ih'
        simp only [List.length_cons, budget, hp]
        omega
    | retryWait tid b tps =>
      rw [hp] at h1
      subst h1
      have hatt := (ht.retrying tid b tps hp).att
      have hstep : step cfg st (.timer tid) = doRetry st b tps := by simp [step, hp]
      rw [hstep] at ih'
      simp only [budget, doRetry] at ih'
      simp only [List.length_cons, budget, hp]
      omega

/-- … from the initial state: along ANY run, whenever a batch is in flight (request out or waiting to retry)
    an answering environment resolves it within the budget -/
theorem run_unresolved_bound (cfg : Cfg) (pre evs : List Ev)
    (h : unresolvedChain cfg (run cfg (St.init cfg) pre).1 evs) :
    evs.length ≤ budget cfg (run cfg (St.init cfg) pre).1 := by
  apply unresolved_bound cfg evs _ _ h
  have : ∀ (evs : List Ev) (st : St), (∃ t, Rel cfg st t) → ∃ t, Rel cfg (run cfg st evs).1 t := by
    intro evs
    induction evs with
    | nil => intro st h; exact h
    | cons e rest ih =>
      intro st ⟨t, ht⟩
      simp only [run]
      exact ih _ ⟨_, (rel_step cfg st t (snapOf st) e ht).1⟩
  exact this pre _ ⟨_, rel_init cfg⟩

end Afkak.Producer
