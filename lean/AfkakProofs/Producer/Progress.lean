import AfkakProofs.Producer.ExactlyOnce
import AfkakProofs.Producer.OneFlight
/-! C01 "eventually": a batch in flight cannot go on unresolved for ever - if the environment keeps answering
(the client completes the request in flight, the retry timer fires), the batch resolves after at most
`2·(max_req_attempts − _req_attempts) + 1` answers. -/
namespace Afkak.Producer
open Afkak.Consts Afkak.Monitor.ProducerTrace

/-- how many more answers of the environment the batch in flight can take without resolving -/
def budget (cfg : Cfg) (st : St) : Nat :=
  match st.phase with
  | .sending _ _ => 2 * (cfg.maxAttempts - st.attempts).toNat + 1
  | .retryWait _ _ _ => 2 * (cfg.maxAttempts - st.attempts).toNat
  | _ => 0

/-- the environment answers what the batch in flight waits for (the client's result for the request in
    flight, valid; the retry timer), and no answer resolves the batch -/
def unresolvedChain (cfg : Cfg) : St → List Ev → Prop
  | _, [] => True
  | st, e :: es =>
    (match st.phase with
      | .sending rid b => ∃ r, e = .produceDone rid r ∧ validResult b r = true ∧ (handleSendResponse cfg st b r).2.2 = false
      | .retryWait tid _ _ => e = .timer tid
      | _ => False) ∧ unresolvedChain cfg (step cfg st e).1 es

/-- the same, decidably (for examples) -/
def unresolvedChainB (cfg : Cfg) : St → List Ev → Bool
  | _, [] => true
  | st, e :: es =>
    (match st.phase, e with
      | .sending rid b, .produceDone k r => k == rid && validResult b r && !(handleSendResponse cfg st b r).2.2
      | .retryWait tid _ _, .timer t => t == tid
      | _, _ => false) && unresolvedChainB cfg (step cfg st e).1 es

theorem unresolvedChainB_sound (cfg : Cfg) (evs : List Ev) (st : St) (h : unresolvedChainB cfg st evs = true) :
    unresolvedChain cfg st evs := by
  induction evs generalizing st with
  | nil => trivial
  | cons e rest ih =>
    simp only [unresolvedChainB, Bool.and_eq_true] at h
    refine ⟨?_, ih _ h.2⟩
    have h1 := h.1
    cases hp : st.phase with
    | idle => rw [hp] at h1; simp at h1
    | lookups ls => rw [hp] at h1; simp at h1
    | sending rid b =>
      rw [hp] at h1
      cases e with
      | produceDone k r =>
        simp only [Bool.and_eq_true, beq_iff_eq, Bool.not_eq_true'] at h1
        obtain ⟨⟨hk, hv⟩, hr⟩ := h1
        subst hk
        exact ⟨r, rfl, hv, hr⟩
      | _ => simp at h1
    | retryWait tid b tps =>
      rw [hp] at h1
      cases e with
      | timer t => simp only [beq_iff_eq] at h1; rw [h1]
      | _ => simp at h1

theorem unresolved_bound (cfg : Cfg) (evs : List Ev) (st : St) (hr : ∃ t, Rel cfg st t)
    (h : unresolvedChain cfg st evs) : evs.length ≤ budget cfg st := by
  induction evs generalizing st with
  | nil => exact Nat.zero_le _
  | cons e rest ih =>
    obtain ⟨t, ht⟩ := hr
    obtain ⟨h1, h2⟩ := h
    have hr' : ∃ t', Rel cfg (step cfg st e).1 t' := ⟨_, (rel_step cfg st t (snapOf st) e ht).1⟩
    have ih' := ih _ hr' h2
    cases hp : st.phase with
    | idle => rw [hp] at h1; cases h1
    | lookups ls => rw [hp] at h1; cases h1
    | sending rid b =>
      rw [hp] at h1
      obtain ⟨r, he, hv, hres⟩ := h1
      subst he
      have hstep : step cfg st (.produceDone rid r) = finish cfg (handleSendResponse cfg st b r) := by
        simp [step, hp, hv]
      obtain ⟨_, hd⟩ := handleSendResponse_spec cfg st b r
      generalize hg : (handleSendResponse cfg st b r).2.2 = res at hd hres
      subst hres
      cases hd with
      | retry d1 _ d3 d4 =>
        have hfin : finish cfg (handleSendResponse cfg st b r) = ((handleSendResponse cfg st b r).1, (handleSendResponse cfg st b r).2.1) := by
          simp [finish, hg]
        rw [hstep, hfin] at ih'
        simp only [budget, d1, d3] at ih'
        simp only [List.length_cons, budget, hp]
        omega
    | retryWait tid b tps =>
      rw [hp] at h1
      subst h1
      have hatt := (ht.retrying tid b tps hp).att
      have hstep : step cfg st (.timer tid) = doRetry st b tps := by simp [step, hp]
      rw [hstep] at ih'
      simp only [budget, doRetry] at ih'
      simp only [List.length_cons, budget, hp]
      omega

/-- … from the initial state: along ANY run, whenever a batch is in flight (request out or waiting to retry)
    an answering environment resolves it within the budget -/
theorem run_unresolved_bound (cfg : Cfg) (pre evs : List Ev)
    (h : unresolvedChain cfg (run cfg (St.init cfg) pre).1 evs) :
    evs.length ≤ budget cfg (run cfg (St.init cfg) pre).1 := by
  apply unresolved_bound cfg evs _ _ h
  have : ∀ (evs : List Ev) (st : St), (∃ t, Rel cfg st t) → ∃ t, Rel cfg (run cfg st evs).1 t := by
    intro evs
    induction evs with
    | nil => intro st h; exact h
    | cons e rest ih =>
      intro st ⟨t, ht⟩
      simp only [run]
      exact ih _ ⟨_, (rel_step cfg st t (snapOf st) e ht).1⟩
  exact this pre _ ⟨_, rel_init cfg⟩

/-! ### … with anything else going on in between (audit C01-5)

The chain above lets the environment do nothing but answer.  Real runs interleave new sends, cancels, ticks, stray
timers, metadata changes with the answers; none of those touches the batch in flight, so the bound is on the number
of ANSWERS in an arbitrary run along which the batch stays unresolved. -/

/-- is `e` the answer the batch in flight waits for (the client's valid result for THE request in flight; THE
    retry timer)? -/
def isAnswer (st : St) (e : Ev) : Bool :=
  match st.phase, e with
  | .sending rid b, .produceDone k r => k == rid && validResult b r
  | .retryWait tid _ _, .timer t => t == tid
  | _, _ => false

/-- the answers among the events of a run -/
def answerCount (cfg : Cfg) : St → List Ev → Nat
  | _, [] => 0
  | st, e :: es => (if isAnswer st e then 1 else 0) + answerCount cfg (step cfg st e).1 es

/-- a run - ANY events except `stop()` - along which the batch in flight stays unresolved: at every step a request
    is out or a retry is pending, and no answer of the client resolves the batch -/
def unresolvedRun (cfg : Cfg) : St → List Ev → Prop
  | _, [] => True
  | st, e :: es =>
    (match st.phase with
      | .sending rid b => ∀ r, e = .produceDone rid r → validResult b r = true → (handleSendResponse cfg st b r).2.2 = false
      | .retryWait _ _ _ => True
      | _ => False) ∧ (∀ w p m, e ≠ .stop w p m) ∧ unresolvedRun cfg (step cfg st e).1 es

/-- the same, decidably (for examples) -/
def unresolvedRunB (cfg : Cfg) : St → List Ev → Bool
  | _, [] => true
  | st, e :: es =>
    (match st.phase, e with
      | _, .stop .. => false
      | .sending rid b, .produceDone k r => !(k == rid && validResult b r) || !(handleSendResponse cfg st b r).2.2
      | .sending _ _, _ => true
      | .retryWait _ _ _, _ => true
      | _, _ => false) && unresolvedRunB cfg (step cfg st e).1 es

theorem unresolvedRunB_sound (cfg : Cfg) (evs : List Ev) (st : St) (h : unresolvedRunB cfg st evs = true) :
    unresolvedRun cfg st evs := by
  induction evs generalizing st with
  | nil => trivial
  | cons e rest ih =>
    simp only [unresolvedRunB, Bool.and_eq_true] at h
    obtain ⟨h1, h2⟩ := h
    refine ⟨?_, ?_, ih _ h2⟩
    · cases hp : st.phase with
      | idle => rw [hp] at h1; cases e <;> simp at h1
      | lookups ls => rw [hp] at h1; cases e <;> simp at h1
      | retryWait tid b tps => trivial
      | sending rid b =>
        intro r he hv
        subst he
        rw [hp] at h1
        simp only [beq_self_eq_true, hv, Bool.and_self, Bool.not_true, Bool.false_or, Bool.not_eq_true'] at h1
        exact h1
    · intro w p m he; subst he
      cases hp : st.phase <;> (rw [hp] at h1; simp at h1)

/-- an event that is no answer (and not `stop`) leaves the batch in flight as it is -/
theorem busy_frame (cfg : Cfg) (st : St) (e : Ev) (hb : (∃ rid b, st.phase = .sending rid b) ∨ ∃ tid b tps, st.phase = .retryWait tid b tps)
    (hna : isAnswer st e = false) (hns : ∀ w p m, e ≠ .stop w p m) :
    (step cfg st e).1.phase = st.phase ∧ (step cfg st e).1.attempts = st.attempts := by
  have hidle : st.phase ≠ .idle := by
    rcases hb with ⟨rid, b, hp⟩ | ⟨tid, b, tps, hp⟩ <;> (rw [hp]; intro hc; cases hc)
  have hz : ∀ tid, (zombieTimer st tid).1.phase = st.phase ∧ (zombieTimer st tid).1.attempts = st.attempts := by
    intro tid; simp only [zombieTimer]; split <;> exact ⟨rfl, rfl⟩
  cases e with
  | send sid topic key msgs =>
    simp only [step]
    split
    · exact ⟨rfl, rfl⟩
    · split
      · exact ⟨rfl, rfl⟩
      · simp only [doSend]
        rw [checkSendBatch_busy cfg _ (by simpa [enqueue] using hidle)]
        exact ⟨rfl, rfl⟩
  | cancel sid =>
    simp only [step]; split
    · simp only [cancelSend]; repeat' split
      all_goals exact ⟨rfl, rfl⟩
    · exact ⟨rfl, rfl⟩
  | tick =>
    simp only [step]; split
    · rw [sendBatch_busy cfg st hidle]; exact ⟨rfl, rfl⟩
    · exact ⟨rfl, rfl⟩
  | timer tid =>
    rcases hb with ⟨rid, b, hp⟩ | ⟨t, b, tps, hp⟩
    · simp only [step, hp]; rw [← hp]; exact hz tid
    · have hne : t ≠ tid := by
        intro hc; subst hc
        simp [isAnswer, hp] at hna
      simp only [step, hp, hne, if_false]; rw [← hp]; exact hz tid
  | advance dt => exact ⟨rfl, rfl⟩
  | metaSet topic err parts => exact ⟨rfl, rfl⟩
  | metaReset topics => exact ⟨rfl, rfl⟩
  | metaWipe => exact ⟨rfl, rfl⟩
  | metaDone r res =>
    rcases hb with ⟨rid, b, hp⟩ | ⟨t, b, tps, hp⟩ <;> simp [step, hp]
  | produceDone k r =>
    rcases hb with ⟨rid, b, hp⟩ | ⟨t, b, tps, hp⟩
    · have : (rid == k && validResult b r) = false := by
        simp only [isAnswer, hp] at hna
        cases hv : validResult b r with
        | false => simp
        | true =>
          rw [hv] at hna
          simp only [Bool.and_true, beq_eq_false_iff_ne, ne_eq] at hna ⊢
          exact fun hc => hna hc.symm
      have h2 : (decide (rid = k) && validResult b r) = false := by
        cases hv : validResult b r with
        | false => simp
        | true =>
          rw [hv] at this
          simp only [Bool.and_true, beq_eq_false_iff_ne, ne_eq, decide_eq_false_iff_not] at this ⊢
          exact this
      simp [step, hp, h2]
    · simp [step, hp]
  | stop w p m => exact absurd rfl (hns w p m)

/-- **"Eventually", with interleaving**: along ANY run (sends, cancels, ticks, stray timers, metadata changes,
    invalid or stale client results in between) during which the batch in flight stays unresolved, the environment
    can have answered it (the client's valid result for the request in flight, the retry timer) at most `budget`
    times: the next answer resolves the batch. -/
theorem answers_bound (cfg : Cfg) (evs : List Ev) (st : St) (hr : ∃ t, Rel cfg st t)
    (h : unresolvedRun cfg st evs) : answerCount cfg st evs ≤ budget cfg st := by
  induction evs generalizing st with
  | nil => exact Nat.zero_le _
  | cons e rest ih =>
    obtain ⟨t, ht⟩ := hr
    obtain ⟨h1, hns, h2⟩ := h
    have hr' : ∃ t', Rel cfg (step cfg st e).1 t' := ⟨_, (rel_step cfg st t (snapOf st) e ht).1⟩
    have ih' := ih _ hr' h2
    simp only [answerCount]
    have hb : (∃ rid b, st.phase = .sending rid b) ∨ ∃ tid b tps, st.phase = .retryWait tid b tps := by
      cases hp : st.phase with
      | idle => rw [hp] at h1; cases h1
      | lookups ls => rw [hp] at h1; cases h1
      | sending rid b => exact Or.inl ⟨rid, b, rfl⟩
      | retryWait tid b tps => exact Or.inr ⟨tid, b, tps, rfl⟩
    by_cases ha : isAnswer st e = true
    · rw [if_pos ha]
      cases hp : st.phase with
      | idle => rw [hp] at h1; cases h1
      | lookups ls => rw [hp] at h1; cases h1
      | sending rid b =>
        rw [hp] at h1
        cases e with
        | produceDone k r =>
          simp only [isAnswer, hp, Bool.and_eq_true, beq_iff_eq] at ha
          obtain ⟨hk, hv⟩ := ha
          subst hk
          have hres := h1 r rfl hv
          have hstep : step cfg st (.produceDone k r) = finish cfg (handleSendResponse cfg st b r) := by
            simp [step, hp, hv]
          obtain ⟨_, hd⟩ := handleSendResponse_spec cfg st b r
          generalize hg : (handleSendResponse cfg st b r).2.2 = res at hd hres
          subst hres
          cases hd with
          | retry d1 _ d3 d4 =>
            have hfin : finish cfg (handleSendResponse cfg st b r) = ((handleSendResponse cfg st b r).1, (handleSendResponse cfg st b r).2.1) := by
              simp [finish, hg]
            rw [hstep, hfin] at ih' ⊢
            simp only [budget, d1, d3] at ih'
            simp only [budget, hp]
            omega
        | _ => simp [isAnswer, hp] at ha
      | retryWait tid b tps =>
        cases e with
        | timer t' =>
          simp only [isAnswer, hp, beq_iff_eq] at ha
          subst ha
          have hatt := (ht.retrying t' b tps hp).att
          have hstep : step cfg st (.timer t') = doRetry st b tps := by simp [step, hp]
          rw [hstep] at ih' ⊢
          simp only [budget, doRetry] at ih' ⊢
          simp only [hp]
          omega
        | _ => simp [isAnswer, hp] at ha
    · rw [if_neg ha]
      obtain ⟨f1, f2⟩ := busy_frame cfg st e hb (by simpa using ha) hns
      have : budget cfg (step cfg st e).1 = budget cfg st := by simp only [budget, f1, f2]
      rw [this] at ih'
      omega

theorem run_answers_bound (cfg : Cfg) (pre evs : List Ev)
    (h : unresolvedRun cfg (run cfg (St.init cfg) pre).1 evs) :
    answerCount cfg (run cfg (St.init cfg) pre).1 evs ≤ budget cfg (run cfg (St.init cfg) pre).1 := by
  apply answers_bound cfg evs _ _ h
  have : ∀ (evs : List Ev) (st : St), (∃ t, Rel cfg st t) → ∃ t, Rel cfg (run cfg st evs).1 t := by
    intro evs
    induction evs with
    | nil => intro st h; exact h
    | cons e rest ih =>
      intro st ⟨t, ht⟩
      simp only [run]
      exact ih _ ⟨_, (rel_step cfg st t (snapOf st) e ht).1⟩
  exact this pre _ ⟨_, rel_init cfg⟩

end Afkak.Producer
