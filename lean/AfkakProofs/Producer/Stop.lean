import AfkakProofs.Producer.Spec
import AfkakProofs.Producer.Truth
import AfkakProofs.Producer.Queue
import Afkak.Monitor.C19
/-! C19 stop: after `stop()` nothing is transmitted, ever; `stop()` fires every outstanding Deferred. -/
namespace Afkak.Producer
open Afkak.Consts Afkak.Monitor.ProducerTrace Afkak.Monitor.C19

/-- no produce request, no metadata load -/
def noTx (obs : List Ob) : Prop := ∀ o ∈ obs, isTransmission o = false

theorem noTx_nil : noTx [] := by intro o h; cases h
theorem noTx_append {a b : List Ob} (ha : noTx a) (hb : noTx b) : noTx (a ++ b) := by
  intro o h; rcases List.mem_append.mp h with h | h
  · exact ha o h
  · exact hb o h
theorem noTx_cons {o : Ob} {l : List Ob} (ho : isTransmission o = false) (hl : noTx l) : noTx (o :: l) := by
  intro x h; rcases List.mem_cons.mp h with h | h
  · rw [h]; exact ho
  · exact hl x h

/-- what `stop()` leaves behind for good: not waiting to retry, no look-up backing off -/
structure StopInv (st : St) : Prop where
  stopping : st.stopping = true
  noretry : ∀ tid b tps, st.phase ≠ .retryWait tid b tps
  nobackoff : ∀ ls, st.phase = .lookups ls → ∀ l ∈ ls, l.pc.isBackoff = false

theorem deliver_noTx (out sids : List Sid) (o : Outcome) : noTx (deliver out sids o).2 := by
  intro x hx
  cases x with
  | fire s o' => rfl
  | produce rid ps =>
    have : Ob.produce rid ps ∈ shapeOf (deliver out sids o).2 := List.mem_filter.mpr ⟨hx, rfl⟩
    rw [deliver_shape] at this; cases this
  | loadMeta rid t =>
    exfalso
    induction sids generalizing out with
    | nil => simp [deliver] at hx
    | cons a rest ih =>
      simp only [deliver] at hx
      split at hx
      · rcases List.mem_cons.mp hx with h | h
        · cases h
        · exact ih _ h
      · exact ih _ hx
  | _ => rfl

theorem deliverMany_noTx (out : List Sid) (l : List (List Sid × Outcome)) : noTx (deliverMany out l).2 := by
  induction l generalizing out with
  | nil => exact noTx_nil
  | cons x rest ih =>
    obtain ⟨sids, o⟩ := x
    simp only [deliverMany]
    exact noTx_append (deliver_noTx _ _ _) (ih _)

theorem sendBatch_stopped (cfg : Cfg) (st : St) (h : st.stopping = true) : sendBatch cfg st = (st, []) := by
  simp [sendBatch, canDispatch, h]

theorem checkSendBatch_stopped (cfg : Cfg) (st : St) (h : st.stopping = true) : checkSendBatch cfg st = (st, []) := by
  simp only [checkSendBatch]; split
  · exact sendBatch_stopped cfg st h
  · rfl

theorem completeBatch_stopped (cfg : Cfg) (st : St) (h : st.stopping = true) :
    completeBatch cfg st = (resetBatch cfg st, []) := by
  simp only [completeBatch]; exact checkSendBatch_stopped cfg _ h

theorem sendRequests_stopped (st : St) (ls : List Lookup) (h : st.stopping = true) : sendRequests st ls = (st, [], true) := by
  simp [sendRequests, h]

theorem afterLookups_stopped (cfg : Cfg) (st : St) (ls : List Lookup) (obs : List Ob) (h : st.stopping = true) :
    afterLookups cfg st ls obs = (if ls.all (·.pc.isDone) then (resetBatch cfg { st with phase := .lookups ls }, obs)
      else ({ st with phase := .lookups ls }, obs)) := by
  simp only [afterLookups]
  split
  · rw [sendRequests_stopped _ ls (by exact h)]
    simp only [if_true]
    rw [completeBatch_stopped cfg _ (by exact h)]
    simp
  · rfl

theorem handleSendResponse_stopped (cfg : Cfg) (st : St) (b : Batch) (r : ProdRes) (h : st.stopping = true) :
    (handleSendResponse cfg st b r).2.2 = true ∧ noTx (handleSendResponse cfg st b r).2.1 ∧
    (handleSendResponse cfg st b r).1.phase = st.phase := by
  obtain ⟨_, hd⟩ := handleSendResponse_spec cfg st b r
  generalize hres : (handleSendResponse cfg st b r).2.2 = resolved at hd
  cases hd with
  | retry _ _ _ _ d5 => rw [h] at d5; cases d5
  | resolved d1 _ _ _ d5 =>
    refine ⟨rfl, ?_, d1⟩
    intro o ho
    cases o with
    | produce rid ps =>
      have : Ob.produce rid ps ∈ shapeOf (handleSendResponse cfg st b r).2.1 := List.mem_filter.mpr ⟨ho, rfl⟩
      rw [d5] at this; cases this
    | loadMeta rid t =>
      exfalso
      -- the handler only delivers results
      have key : ∀ (rs : List Resp) (fs : List FailedP), Ob.loadMeta rid t ∉ (handleResults cfg st b rs fs).2.1 := by
        intro rs fs hm
        simp only [handleResults] at hm
        split at hm
        · exact absurd (deliverMany_noTx _ _ _ hm) (by simp [isTransmission])
        · rcases List.mem_append.mp hm with hm | hm
          · exact absurd (deliverMany_noTx _ _ _ hm) (by simp [isTransmission])
          · simp only [checkRetry, h, if_true] at hm; cases hm
      have key2 : ∀ o', Ob.loadMeta rid t ∉ (deliverAll st b o').2.1 := by
        intro o' hm; simp only [deliverAll] at hm
        exact absurd (deliver_noTx _ _ _ _ hm) (by simp [isTransmission])
      cases r with
      | none => simp only [handleSendResponse] at ho; exact key2 _ ho
      | responses rs =>
        cases rs with
        | nil => simp only [handleSendResponse] at ho; exact key2 _ ho
        | cons x rest => simp only [handleSendResponse] at ho; exact key _ _ ho
      | failed rs fs => simp only [handleSendResponse] at ho; exact key _ _ ho
      | err k =>
        simp only [handleSendResponse] at ho
        split at ho
        · exact key _ _ ho
        · exact key2 _ ho
    | _ => rfl

end Afkak.Producer

namespace Afkak.Producer
open Afkak.Consts Afkak.Monitor.ProducerTrace Afkak.Monitor.C19

theorem cancelSend_noTx (st : St) (sid : Sid) : noTx (cancelSend st sid).2 ∧ (cancelSend st sid).1.phase = st.phase ∧
    (cancelSend st sid).1.stopping = st.stopping := by
  simp only [cancelSend]; repeat' split
  all_goals exact ⟨by intro o h; simp at h; try (subst h; rfl), rfl, rfl⟩

theorem cancelAll_noTx (st : St) (l : List Sid) : noTx (cancelAll st l).2 ∧ (cancelAll st l).1.phase = st.phase ∧
    (cancelAll st l).1.stopping = st.stopping := by
  induction l generalizing st with
  | nil => exact ⟨noTx_nil, rfl, rfl⟩
  | cons s rest ih =>
    obtain ⟨a1, a2, a3⟩ := cancelSend_noTx st s
    obtain ⟨b1, b2, b3⟩ := ih (cancelSend st s).1
    simp only [cancelAll]
    exact ⟨noTx_append a1 b1, by rw [b2, a2], by rw [b3, a3]⟩

theorem zombieTimer_noTx (st : St) (tid : Tid) : noTx (zombieTimer st tid).2 ∧ (zombieTimer st tid).1.phase = st.phase ∧
    (zombieTimer st tid).1.stopping = st.stopping := by
  simp only [zombieTimer]; split
  · exact ⟨noTx_nil, rfl, rfl⟩
  · exact ⟨by intro o h; simp at h; subst h; rfl, rfl, rfl⟩

theorem StopInv.of_phase {st st' : St} (h : StopInv st) (hp : st'.phase = st.phase) (hs : st'.stopping = st.stopping) :
    StopInv st' := by
  obtain ⟨h1, h2, h3⟩ := h
  exact ⟨by rw [hs]; exact h1, by rw [hp]; exact h2, by rw [hp]; exact h3⟩

theorem StopInv.idle {st : St} (h : st.stopping = true) (hp : st.phase = .idle) : StopInv st :=
  ⟨h, fun tid b tps hc => (by rw [hp] at hc; cases hc), fun ls hc => (by rw [hp] at hc; cases hc)⟩

/-- the completion path under `stopping`: handle the result, resolve, dispatch nothing -/
theorem finish_handle_stopped (cfg : Cfg) (st : St) (b : Batch) (r : ProdRes) (h : st.stopping = true) :
    noTx (finish cfg (handleSendResponse cfg st b r)).2 ∧
    (finish cfg (handleSendResponse cfg st b r)).1.phase = .idle ∧
    (finish cfg (handleSendResponse cfg st b r)).1.stopping = true := by
  obtain ⟨h1, h2, _⟩ := handleSendResponse_stopped cfg st b r h
  have hst : (handleSendResponse cfg st b r).1.stopping = true := by
    rw [(handleSendResponse_stat cfg st b r).2.1]; exact h
  simp only [finish, h1, if_true, completeBatch_stopped cfg _ hst, List.append_nil]
  exact ⟨h2, rfl, hst⟩

theorem cancelBatch_stopped (cfg : Cfg) (st : St) (wipe : Bool) (pout : Option ProdRes) (mouts : List (Rid × MetaRes))
    (h : st.stopping = true) :
    noTx (cancelBatch cfg st wipe pout mouts).2 ∧ StopInv (cancelBatch cfg st wipe pout mouts).1 := by
  simp only [cancelBatch]
  cases hph : st.phase with
  | idle => exact ⟨noTx_nil, StopInv.idle h hph⟩
  | lookups ls =>
    simp only [cancelLookups]
    rw [afterLookups_stopped cfg _ _ _ (by exact h)]
    have hobs : noTx ((ls.map (cancelLookup mouts)).flatMap (·.2.2)) := by
      intro o ho
      simp only [List.mem_flatMap, List.mem_map] at ho
      obtain ⟨x, ⟨l, _, hl⟩, hx⟩ := ho
      subst hl
      simp only [cancelLookup] at hx
      repeat' split at hx
      all_goals (simp at hx; try (subst hx; rfl))
    split
    · exact ⟨hobs, StopInv.idle h rfl⟩
    · refine ⟨hobs, ⟨h, fun tid b tps hc => (by cases hc), ?_⟩⟩
      intro ls' hc l hl
      injection hc with hc; subst hc
      simp only [List.map_map, List.mem_map, Function.comp] at hl
      obtain ⟨x, _, hx⟩ := hl
      rw [← hx]
      simp only [cancelLookup]; repeat' split
      all_goals simp_all [LPc.isBackoff]
  | sending rid b =>
    cases pout with
    | none =>
      simp only [cancelSending]
      exact ⟨by intro o ho; simp at ho; subst ho; rfl, ⟨h, fun tid b' tps hc => (by rw [hph] at hc; cases hc),
        fun ls hc => (by rw [hph] at hc; cases hc)⟩⟩
    | some r =>
      simp only [cancelSending]
      have hs' : (if wipe then { st with tmeta := [] } else st).stopping = true := by split <;> exact h
      obtain ⟨f1, f2, f3⟩ := finish_handle_stopped cfg (if wipe then { st with tmeta := [] } else st) b r hs'
      exact ⟨noTx_cons rfl f1, StopInv.idle f3 f2⟩
  | retryWait tid b tps =>
    simp only [cancelRetryWait]
    obtain ⟨_, d2, _, _, _, _, _⟩ := deliverAll_spec st b (.err .tcancelled)
    have hst : (deliverAll st b (.err .tcancelled)).1.stopping = true := by
      rw [(deliverAll_stat st b _).2.1]; exact h
    simp only [finish, d2, if_true, completeBatch_stopped cfg _ hst, List.append_nil]
    refine ⟨noTx_cons rfl ?_, StopInv.idle hst rfl⟩
    simp only [deliverAll]; exact deliver_noTx _ _ _

theorem doStop_stopped (cfg : Cfg) (st : St) (wipe : Bool) (pout : Option ProdRes) (mouts : List (Rid × MetaRes)) :
    noTx (doStop cfg st wipe pout mouts).2 ∧ StopInv (doStop cfg st wipe pout mouts).1 := by
  obtain ⟨c1, c2⟩ := cancelBatch_stopped cfg { st with stopping := true } wipe pout mouts rfl
  simp only [doStop]
  split
  · obtain ⟨a1, a2, a3⟩ := cancelAll_noTx { (cancelBatch cfg { st with stopping := true } wipe pout mouts).1 with looper := false }
      (cancelBatch cfg { st with stopping := true } wipe pout mouts).1.outstanding
    exact ⟨noTx_append (noTx_append c1 (by intro o ho; simp at ho; subst ho; rfl)) a1, c2.of_phase a2 a3⟩
  · obtain ⟨a1, a2, a3⟩ := cancelAll_noTx (cancelBatch cfg { st with stopping := true } wipe pout mouts).1
      (cancelBatch cfg { st with stopping := true } wipe pout mouts).1.outstanding
    exact ⟨noTx_append (noTx_append c1 noTx_nil) a1, c2.of_phase a2 a3⟩

/-- `stop()` (when enabled) transmits nothing and establishes the stopped regime -/
theorem stop_establishes (cfg : Cfg) (st : St) (wipe : Bool) (pout : Option ProdRes) (mouts : List (Rid × MetaRes))
    (hv : stopValid st pout = true) :
    noTx (step cfg st (.stop wipe pout mouts)).2 ∧ StopInv (step cfg st (.stop wipe pout mouts)).1 := by
  simp only [step, hv, Bool.not_true, Bool.false_eq_true, if_false]
  exact doStop_stopped cfg st wipe pout mouts

/-- once stopped, always stopped, and nothing is ever transmitted again -/
theorem stopped_step (cfg : Cfg) (st : St) (e : Ev) (h : StopInv st) :
    noTx (step cfg st e).2 ∧ StopInv (step cfg st e).1 := by
  obtain ⟨hs, hnr, hnb⟩ := h
  have h0 : StopInv st := ⟨hs, hnr, hnb⟩
  have bad : noTx [Ob.badOp] := by intro o ho; simp at ho; subst ho; rfl
  cases e with
  | send sid topic key msgs =>
    simp only [step]; split
    · exact ⟨bad, h0⟩
    · split
      · exact ⟨by intro o ho; simp at ho; subst ho; rfl, h0.of_phase rfl rfl⟩
      · simp only [doSend]
        rw [checkSendBatch_stopped cfg _ (by exact hs)]
        exact ⟨noTx_nil, h0.of_phase rfl rfl⟩
  | cancel sid =>
    simp only [step]; split
    · obtain ⟨a1, a2, a3⟩ := cancelSend_noTx st sid; exact ⟨a1, h0.of_phase a2 a3⟩
    · exact ⟨bad, h0⟩
  | tick =>
    simp only [step]; split
    · rw [sendBatch_stopped cfg st hs]; exact ⟨noTx_nil, h0⟩
    · exact ⟨bad, h0⟩
  | timer tid =>
    have z := zombieTimer_noTx st tid
    simp only [step]
    cases hph : st.phase with
    | idle => exact ⟨z.1, h0.of_phase z.2.1 z.2.2⟩
    | sending rid b => exact ⟨z.1, h0.of_phase z.2.1 z.2.2⟩
    | retryWait t' b tps => exact absurd hph (hnr t' b tps)
    | lookups ls =>
      simp only [timerLookups]
      cases hf : findPc ls (.waitBackoff tid) with
      | none => exact ⟨z.1, h0.of_phase z.2.1 z.2.2⟩
      | some l =>
        have hm : l ∈ ls.filter (·.pc = .waitBackoff tid) := List.mem_of_mem_head? hf
        obtain ⟨m1, m2⟩ := List.mem_filter.mp hm
        have := hnb ls hph l m1
        simp only [decide_eq_true_eq] at m2
        rw [m2] at this; simp [LPc.isBackoff] at this
  | advance dt => exact ⟨noTx_nil, h0⟩
  | metaSet topic err parts => exact ⟨noTx_nil, h0.of_phase rfl rfl⟩
  | metaReset topics => exact ⟨noTx_nil, h0.of_phase rfl rfl⟩
  | metaWipe => exact ⟨noTx_nil, h0.of_phase rfl rfl⟩
  | metaDone rid res =>
    simp only [step]
    cases hph : st.phase with
    | idle => exact ⟨bad, h0⟩
    | sending r b => exact ⟨bad, h0⟩
    | retryWait t' b tps => exact ⟨bad, h0⟩
    | lookups ls =>
      simp only [metaDoneLookups]
      cases hf : findPc ls (.waitMeta rid) with
      | none => exact ⟨bad, h0⟩
      | some l =>
        have hmc : metaContinue cfg st l.req res = (st, (metaContinue cfg st l.req res).2.1, []) ∧
            (metaContinue cfg st l.req res).2.1.isBackoff = false := by
          cases res <;> simp [metaContinue, hs, LPc.isBackoff]
        simp only
        rw [hmc.1, afterLookups_stopped cfg _ _ _ hs]
        split
        · exact ⟨noTx_nil, StopInv.idle hs rfl⟩
        · refine ⟨noTx_nil, ⟨hs, fun t' b tps hc => (by cases hc), ?_⟩⟩
          intro ls' hc x hx
          injection hc with hc; subst hc
          simp only [setPc, List.mem_map] at hx
          obtain ⟨y, hy, hye⟩ := hx
          split at hye
          · rw [← hye]; exact hmc.2
          · rw [← hye]; exact hnb ls hph y hy
  | produceDone rid res =>
    simp only [step]
    cases hph : st.phase with
    | idle => exact ⟨bad, h0⟩
    | lookups ls => exact ⟨bad, h0⟩
    | retryWait t' b tps => exact ⟨bad, h0⟩
    | sending r b =>
      simp only
      split
      · obtain ⟨f1, f2, f3⟩ := finish_handle_stopped cfg st b res hs
        exact ⟨f1, StopInv.idle f3 f2⟩
      · exact ⟨bad, h0⟩
  | stop wipe pout mouts =>
    simp only [step]; split
    · exact ⟨bad, h0⟩
    · exact doStop_stopped cfg st wipe pout mouts

/-- trace level: after an enabled `stop`, no later step (nor `stop` itself) transmits anything -/
theorem run_after_stop (cfg : Cfg) (st : St) (evs : List Ev) (h : StopInv st) : noTx (run cfg st evs).2 := by
  induction evs generalizing st with
  | nil => exact noTx_nil
  | cons e rest ih =>
    obtain ⟨a1, a2⟩ := stopped_step cfg st e h
    simp only [run]
    exact noTx_append a1 (ih _ a2)

end Afkak.Producer

namespace Afkak.Producer
open Afkak.Consts Afkak.Monitor.ProducerTrace Afkak.Monitor.C19

theorem cancelSend_out (st : St) (sid : Sid) (hn : st.outstanding.Nodup) :
    (cancelSend st sid).1.outstanding = st.outstanding.filter (· ≠ sid) := by
  have he : sid ∈ st.outstanding → st.outstanding.erase sid = st.outstanding.filter (· ≠ sid) := by
    intro _; rw [hn.erase_eq_filter]; apply List.filter_congr; intro x _; simp only [bne, ne_eq, decide_not]; congr 1
  simp only [cancelSend]
  split
  · rename_i h; split <;> exact he h
  · rename_i h
    symm; rw [List.filter_eq_self]
    intro a ha; simp only [ne_eq, decide_eq_true_eq]; intro hc; exact h (hc ▸ ha)

theorem cancelAll_out (st : St) (l : List Sid) (hn : st.outstanding.Nodup) :
    (cancelAll st l).1.outstanding = st.outstanding.filter (· ∉ l) := by
  induction l generalizing st with
  | nil => simp only [cancelAll]; exact (List.filter_eq_self.mpr (fun _ _ => by simp)).symm
  | cons s rest ih =>
    simp only [cancelAll]
    have h1 := cancelSend_out st s hn
    rw [ih _ (by rw [h1]; exact hn.filter _), h1, List.filter_filter]
    apply List.filter_congr
    intro x _
    simp only [List.mem_cons, not_or, ne_eq, decide_not, Bool.decide_and]
    exact Bool.and_comm _ _

/-- `stop()` fires every outstanding Deferred before it returns: afterwards `_outstanding` is empty,
    and what left it fired in this very step -/
theorem stop_fires_all (cfg : Cfg) (st : St) (wipe : Bool) (pout : Option ProdRes) (mouts : List (Rid × MetaRes))
    (hv : stopValid st pout = true) (hn : st.outstanding.Nodup) :
    (step cfg st (.stop wipe pout mouts)).1.outstanding = [] ∧
    ∀ s ∈ st.outstanding, s ∈ firedSids (step cfg st (.stop wipe pout mouts)).2 := by
  have fd := step_fd cfg st (.stop wipe pout mouts)
  simp only [outPlus] at fd
  have hempty : (step cfg st (.stop wipe pout mouts)).1.outstanding = [] := by
    simp only [step, hv, Bool.not_true, Bool.false_eq_true, if_false, doStop]
    have hn2 := (cancelBatch_fd cfg { st with stopping := true } wipe pout mouts).nodup hn
    split
    · rw [cancelAll_out _ _ (by exact hn2)]
      rw [List.filter_eq_nil_iff]; intro a ha; simpa using ha
    · rw [cancelAll_out _ _ hn2]
      rw [List.filter_eq_nil_iff]; intro a ha; simpa using ha
  refine ⟨hempty, fun s hs => fd.gone s hs (by rw [hempty]; simp)⟩

end Afkak.Producer
