import AfkakProofs.Producer.Dispatch
/-! C19 wait bound: from any moment at which no batch is in flight, everything queued is dispatched by the
looping call's next tick - within one period `batch_every_t`. -/
namespace Afkak.Producer
open Afkak.Consts Afkak.Monitor.ProducerTrace Afkak.Monitor.C19

/-- a reachable state: the invariants behind the trace theorems hold (for some summary of the trace so far) -/
def Reach (cfg : Cfg) (st : St) : Prop := ∃ t, DInv cfg st t

theorem reach_init (cfg : Cfg) : Reach cfg (St.init cfg) := ⟨_, dinv_init cfg⟩
theorem reach_step (cfg : Cfg) (st : St) (e : Ev) (h : Reach cfg st) : Reach cfg (step cfg st e).1 := by
  obtain ⟨t, ht⟩ := h
  exact ⟨_, (dinv_step cfg st t e ht).1⟩
theorem reach_run (cfg : Cfg) (evs : List Ev) (st : St) (h : Reach cfg st) : Reach cfg (run cfg st evs).1 := by
  induction evs generalizing st with
  | nil => exact h
  | cons e rest ih => simp only [run]; exact ih _ (reach_step cfg st e h)

/-- where a queued send stands: dispatched/cancelled for good, or still waiting with no batch in flight,
    the looping call running and not yet due again since we started watching (`due0`) -/
inductive WaitSt (sid : Sid) (due0 : Rat) (st : St) (due : Rat) : Prop
  | gone : sid ∉ queued st → sid < st.nextSid → WaitSt sid due0 st due
  | waiting : st.phase = .idle → st.looper = true → st.stopping = false → due = due0 → sid ∈ queued st →
      WaitSt sid due0 st due

theorem wait_step (cfg : Cfg) (T : Rat) (st : St) (hr : Reach cfg st) (e : Ev)
    (sid : Sid) (due0 now due : Rat) (h : WaitSt sid due0 st due) :
    WaitSt sid due0 (step cfg st e).1 (match e with | .tick => nextDue T now | _ => due) := by
  obtain ⟨t, hd⟩ := hr
  have hk := hd.si.ci.ti.k
  have hmono : st.nextSid ≤ (step cfg st e).1.nextSid := (newOf_spec cfg st e).1
  cases h with
  | gone h1 h2 =>
    apply WaitSt.gone
    · intro hc
      rcases (step_k cfg st e).qsub sid hc with h3 | h3
      · exact h1 h3
      · obtain ⟨e1, _⟩ := (newOf_spec cfg st e).2 sid h3
        rw [e1] at h2; exact Nat.lt_irrefl _ h2
    · exact Nat.lt_of_lt_of_le h2 hmono
  | waiting hi hl hs hdue hq =>
    have hlt : sid < st.nextSid := hk.lt sid (List.mem_append_right _ hq)
    have hlt' : sid < (step cfg st e).1.nextSid := Nat.lt_of_lt_of_le hlt hmono
    have gone_of_empty : (step cfg st e).1.queue = [] →
        WaitSt sid due0 (step cfg st e).1 (match e with | .tick => nextDue T now | _ => due) := by
      intro hqe
      exact WaitSt.gone (by simp [queued, hqe]) hlt'
    cases e with
    | send sid' topic key msgs =>
      by_cases hs' : sid' = st.nextSid
      · by_cases hm : msgs.isEmpty = true
        · have hstep : (step cfg st (.send sid' topic key msgs)).1 = { st with nextSid := st.nextSid + 1 } := by
            simp [step, hs', hm]
          rw [hstep]; exact WaitSt.waiting hi hl hs hdue hq
        · have hm' : msgs.isEmpty = false := by simpa using hm
          have hstep : (step cfg st (.send sid' topic key msgs)).1 = (checkSendBatch cfg (enqueue st sid' topic key msgs)).1 := by
            simp [step, hs', hm', hs, doSend]
          by_cases hc : thresholdMet cfg (enqueue st sid' topic key msgs) = true ∧ canDispatch (enqueue st sid' topic key msgs) = true
          · apply gone_of_empty
            rw [hstep]
            simp only [checkSendBatch, sendBatch, hc.1, hc.2, if_true]
            exact dispatch_emptied cfg _
          · have : (checkSendBatch cfg (enqueue st sid' topic key msgs)).1 = enqueue st sid' topic key msgs := by
              simp only [checkSendBatch, sendBatch]
              split
              · split
                · rename_i h1 h2; exact absurd ⟨h1, h2⟩ hc
                · rfl
              · rfl
            rw [hstep, this]
            exact WaitSt.waiting hi hl hs hdue (by simp only [queued, enqueue, List.map_append, List.mem_append]; exact Or.inl hq)
      · have hstep : step cfg st (.send sid' topic key msgs) = (st, [.badOp]) := by simp [step, hs']
        rw [hstep]; exact WaitSt.waiting hi hl hs hdue hq
    | cancel sid' =>
      by_cases hlt2 : sid' < st.nextSid
      · have hstep : step cfg st (.cancel sid') = cancelSend st sid' := by simp [step, hlt2]
        rw [hstep]
        obtain ⟨c1, c2, _⟩ := cancelSend_k st sid'
        have cstat := cancelSend_stat st sid'
        by_cases he : sid' = sid
        · subst he
          have ho : sid' ∈ st.outstanding := hd.si.ci.qo sid' hq
          refine WaitSt.gone (fun hc => (c2 sid' hc).2 ho rfl) (by rw [cstat.1]; exact hlt)
        · refine WaitSt.waiting (by rw [c1]; exact hi) (by rw [cstat.2.2]; exact hl) (by rw [cstat.2.1]; exact hs) hdue ?_
          simp only [cancelSend]
          split
          · split
            · simp only [queued, List.mem_map, List.mem_filter] at hq ⊢
              obtain ⟨r, hr, hre⟩ := hq
              exact ⟨r, ⟨hr, by simp only [decide_eq_true_eq, hre]; exact fun hc => he hc.symm⟩, hre⟩
            · exact hq
          · exact hq
      · have hstep : step cfg st (.cancel sid') = (st, [.badOp]) := by simp [step, hlt2]
        rw [hstep]; exact WaitSt.waiting hi hl hs hdue hq
    | tick =>
      apply gone_of_empty
      have hcan : canDispatch st = true := by
        simp only [canDispatch, Bool.and_eq_true, Bool.not_eq_eq_eq_not, Bool.not_true, beq_iff_eq]
        refine ⟨⟨?_, hi⟩, hs⟩
        cases hqq : st.queue with
        | nil => simp [queued, hqq] at hq
        | cons a b => rfl
      simp only [step, hl, if_true, sendBatch, hcan]
      exact dispatch_emptied cfg st
    | timer tid =>
      have hstep : step cfg st (.timer tid) = zombieTimer st tid := by simp [step, hi]
      rw [hstep]
      have z := zombieTimer_stat st tid
      have zq : (zombieTimer st tid).1.queue = st.queue ∧ (zombieTimer st tid).1.phase = st.phase := by
        simp only [zombieTimer]; split <;> exact ⟨rfl, rfl⟩
      exact WaitSt.waiting (by rw [zq.2]; exact hi) (by rw [z.2.2]; exact hl) (by rw [z.2.1]; exact hs) hdue
        (by simpa [queued, zq.1] using hq)
    | advance dt => exact WaitSt.waiting hi hl hs hdue hq
    | metaSet a b c => exact WaitSt.waiting hi hl hs hdue hq
    | metaReset a => exact WaitSt.waiting hi hl hs hdue hq
    | metaWipe => exact WaitSt.waiting hi hl hs hdue hq
    | metaDone a b =>
      have hstep : step cfg st (.metaDone a b) = (st, [.badOp]) := by simp [step, hi]
      rw [hstep]; exact WaitSt.waiting hi hl hs hdue hq
    | produceDone a b =>
      have hstep : step cfg st (.produceDone a b) = (st, [.badOp]) := by simp [step, hi]
      rw [hstep]; exact WaitSt.waiting hi hl hs hdue hq
    | stop w p m =>
      apply gone_of_empty
      have hv : stopValid st p = true := by simp [stopValid, hi]
      obtain ⟨f1, _⟩ := stop_fires_all cfg st w p m hv hd.si.ci.ti.fr.once.nodup
      have hqo' := step_qo cfg st (.stop w p m) hd.si.ci.ti.g hd.si.ci.qo
      cases hqq : (step cfg st (.stop w p m)).1.queue with
      | nil => rfl
      | cons r rest =>
        exfalso
        have : r.sid ∈ (step cfg st (.stop w p m)).1.outstanding := hqo' r.sid (by simp [queued, hqq])
        rw [f1] at this; cases this

theorem wait_run (cfg : Cfg) (T : Rat) (evs : List Ev) (st : St) (hr : Reach cfg st)
    (sid : Sid) (due0 now due : Rat) (h : WaitSt sid due0 st due) :
    WaitSt sid due0 (run cfg st evs).1 (clockFrom T now due (traceFrom cfg st evs)).2 := by
  induction evs generalizing st now due with
  | nil => exact h
  | cons e rest ih =>
    have h1 := wait_step cfg T st hr e sid due0 now due h
    simp only [run, traceFrom, clockFrom]
    cases e with
    | tick => exact ih _ (reach_step cfg st _ hr) _ _ h1
    | advance dt => exact ih _ (reach_step cfg st _ hr) _ _ h1
    | _ => exact ih _ (reach_step cfg st _ hr) _ _ h1

/-- Wait bound.  From a reachable state with NO BATCH IN FLIGHT, the looping call running and due within one
    period (`due ≤ now + T`): once more than one period has passed and the looping call is not overdue (the
    reactor has run what was due), every send that was queued has left the queue - dispatched by the tick
    or by a threshold, cancelled, or cancelled by `stop`.  It never comes back. -/
theorem wait_bound (cfg : Cfg) (T : Rat) (st : St) (hr : Reach cfg st)
    (hidle : st.phase = .idle) (hl : st.looper = true) (hs : st.stopping = false)
    (now due : Rat) (hdue : due ≤ now + T) (evs : List Ev)
    (hlate : now + T < (clockFrom T now due (traceFrom cfg st evs)).1)
    (hsettled : ¬ ((run cfg st evs).1.looper = true ∧
      (clockFrom T now due (traceFrom cfg st evs)).2 ≤ (clockFrom T now due (traceFrom cfg st evs)).1)) :
    ∀ sid ∈ queued st, sid ∉ queued (run cfg st evs).1 := by
  intro sid hq
  have h := wait_run cfg T evs st hr sid due now due (WaitSt.waiting hidle hl hs rfl hq)
  cases h with
  | gone h1 _ => exact h1
  | waiting _ h2 _ h4 _ =>
    exfalso
    apply hsettled
    refine ⟨h2, ?_⟩
    rw [h4]
    grind


/-! ### the schedule assumption gives "settled" wherever something other than a timer happens -/

theorem runningAfter_model (cfg : Cfg) (evs : List Ev) (st : St) :
    runningAfter st.looper (traceFrom cfg st evs) = (run cfg st evs).1.looper := by
  induction evs generalizing st with
  | nil => rfl
  | cons e rest ih => simp only [traceFrom, runningAfter, run, snapOf]; exact ih _

/-- events other than a tick or a timer firing -/
def notTT : Ev → Prop
  | .tick => False
  | .timer _ => False
  | _ => True

/-- on a trace that obeys the looping call's schedule, whenever an event other than a tick or a timer
    happens the looping call is not overdue -/
theorem schedule_settled (T : Rat) (tr : List Step) (s : Step) (rest : List Step) (now due : Rat) (r : Bool)
    (h : scheduleFrom T now due r (tr ++ s :: rest) = true)
    (hs : notTT s.ev) :
    ¬ (runningAfter r tr = true ∧ (clockFrom T now due tr).2 ≤ (clockFrom T now due tr).1) := by
  induction tr generalizing now due r with
  | nil =>
    simp only [List.nil_append, scheduleFrom] at h
    simp only [runningAfter, clockFrom]
    intro hc
    cases hev : s.ev with
    | tick => rw [hev] at hs; cases hs
    | timer tid => rw [hev] at hs; cases hs
    | _ => rw [hev] at h; simp_all
  | cons a tr' ih =>
    simp only [List.cons_append, scheduleFrom] at h
    simp only [runningAfter, clockFrom]
    cases hev : a.ev with
    | advance dt =>
      rw [hev] at h
      simp only [Bool.and_eq_true] at h
      exact ih _ _ _ h.2
    | tick =>
      rw [hev] at h
      simp only [Bool.and_eq_true] at h
      exact ih _ _ _ h.2
    | timer tid =>
      rw [hev] at h
      exact ih _ _ _ h
    | _ =>
      rw [hev] at h
      simp only [Bool.and_eq_true] at h
      exact ih _ _ _ h.2

/-- Wait bound on a scheduled trace: if the model's trace from such a state obeys the looping call's
    schedule, then at any event (other than a tick/timer firing) that comes more than one period later,
    nothing that was queued is still queued. -/
theorem wait_bound_scheduled (cfg : Cfg) (T : Rat) (st : St) (hr : Reach cfg st)
    (hidle : st.phase = .idle) (hl : st.looper = true) (hs : st.stopping = false)
    (now due : Rat) (hdue : due ≤ now + T) (evs : List Ev) (e : Ev) (rest : List Ev)
    (hsched : scheduleFrom T now due true (traceFrom cfg st (evs ++ e :: rest)) = true)
    (he : notTT e)
    (hlate : now + T < (clockFrom T now due (traceFrom cfg st evs)).1) :
    ∀ sid ∈ queued st, sid ∉ queued (run cfg st evs).1 := by
  have hsplit : ∀ (evs : List Ev) (st : St), traceFrom cfg st (evs ++ e :: rest) =
      traceFrom cfg st evs ++ (⟨e, (step cfg (run cfg st evs).1 e).2, snapOf (step cfg (run cfg st evs).1 e).1⟩ : Step) ::
        traceFrom cfg (step cfg (run cfg st evs).1 e).1 rest := by
    intro evs
    induction evs with
    | nil => intro st; rfl
    | cons a l ih => intro st; simp only [List.cons_append, traceFrom, run, ih]
  rw [hsplit] at hsched
  have hsched' : scheduleFrom T now due st.looper (traceFrom cfg st evs ++
      (⟨e, (step cfg (run cfg st evs).1 e).2, snapOf (step cfg (run cfg st evs).1 e).1⟩ : Step) ::
        traceFrom cfg (step cfg (run cfg st evs).1 e).1 rest) = true := by rw [hl]; exact hsched
  have hset := schedule_settled T (traceFrom cfg st evs)
    (⟨e, (step cfg (run cfg st evs).1 e).2, snapOf (step cfg (run cfg st evs).1 e).1⟩ : Step)
    (traceFrom cfg (step cfg (run cfg st evs).1 e).1 rest) now due st.looper hsched' he
  rw [runningAfter_model] at hset
  exact wait_bound cfg T st hr hidle hl hs now due hdue evs hlate hset

end Afkak.Producer
