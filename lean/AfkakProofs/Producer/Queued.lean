import AfkakProofs.Producer.Groups
import AfkakProofs.Producer.Stop
/-! What is queued is outstanding: a queued send's Deferred fires only by being cancelled, which takes it
out of the queue. -/
namespace Afkak.Producer
open Afkak.Consts Afkak.Monitor.ProducerTrace

def QO (st : St) : Prop := ∀ x ∈ queued st, x ∈ st.outstanding

theorem QO.same {a b : St} (h : QO a) (hq : b.queue = a.queue) (ho : b.outstanding = a.outstanding) : QO b := by
  intro x hx; rw [ho]; exact h x (by simpa [queued, hq] using hx)

theorem deliver_keeps (out sids : List Sid) (o : Outcome) : ∀ x ∈ out, x ∉ sids → x ∈ (deliver out sids o).1 := by
  intro x hx hn
  false_or_by_contra
  rename_i hc
  have := (deliver_fd out sids o).gone x hx hc
  simp only [firedSids, List.mem_filterMap] at this
  obtain ⟨ob, hob, he⟩ := this
  cases ob with
  | fire s o' =>
    simp only [Option.some.injEq] at he; subst he
    exact hn (deliver_fires out sids o s o' hob).2
  | _ => cases he

theorem deliverMany_keeps (out : List Sid) (l : List (List Sid × Outcome)) :
    ∀ x ∈ out, (∀ sids o, (sids, o) ∈ l → x ∉ sids) → x ∈ (deliverMany out l).1 := by
  intro x hx hn
  false_or_by_contra
  rename_i hc
  have := (deliverMany_fd out l).gone x hx hc
  simp only [firedSids, List.mem_filterMap] at this
  obtain ⟨ob, hob, he⟩ := this
  cases ob with
  | fire s o' =>
    simp only [Option.some.injEq] at he; subst he
    obtain ⟨sids, h1, h2⟩ := deliverMany_fires out l s o' hob
    exact hn sids o' h1 h2
  | _ => cases he

theorem procResults_fires (ls : List Lookup) (out : List Sid) (gs : List Payload) :
    ∀ s ∈ firedSids (procResults ls out gs).2.2, s ∈ ls.map (·.req.sid) := by
  induction ls generalizing out gs with
  | nil => intro s hs; simp [procResults, firedSids] at hs
  | cons l rest ih =>
    intro s hs
    simp only [procResults] at hs
    split at hs
    · split at hs
      · exact List.mem_cons_of_mem _ (ih _ _ s hs)
      · rw [firedSids_cons_fire] at hs
        rcases List.mem_cons.mp hs with h | h
        · rw [h]; exact List.mem_cons_self
        · exact List.mem_cons_of_mem _ (ih _ _ s h)
      · exact List.mem_cons_of_mem _ (ih _ _ s hs)
    · exact List.mem_cons_of_mem _ (ih _ _ s hs)

theorem procResults_keeps (ls : List Lookup) (out : List Sid) (gs : List Payload) :
    ∀ x ∈ out, x ∉ ls.map (·.req.sid) → x ∈ (procResults ls out gs).1 := by
  intro x hx hn
  false_or_by_contra
  rename_i hc
  exact hn (procResults_fires ls out gs x ((procResults_fd ls out gs).gone x hx hc))

/-- a queued send is not in flight -/
theorem G.not_inflight {S : List Req} {P : List Sid} {st : St} (h : G S P st) : ∀ x ∈ queued st, x ∉ inflight st :=
  fun x hx hc => Nat.lt_irrefl _ (h.cross x hc x hx)

theorem sendRequests_qo {S : List Req} {P : List Sid} (st : St) (ls : List Lookup) (hp : st.phase = .lookups ls)
    (hg : G S P st) (hq : QO st) : QO (sendRequests st ls).1 := by
  have key : ∀ x ∈ queued st, x ∈ (procResults ls st.outstanding []).1 := by
    intro x hx
    apply procResults_keeps ls st.outstanding [] x (hq x hx)
    have := hg.not_inflight x hx
    simpa [inflight, hp] using this
  simp only [sendRequests]
  split
  · exact hq
  · split
    · intro x hx; exact key x hx
    · intro x hx; exact key x hx

theorem dispatch_qo (cfg : Cfg) (st : St) : QO (dispatch cfg st).1 := by
  intro x hx
  simp [queued, dispatch_emptied cfg st] at hx

theorem sendBatch_qo (cfg : Cfg) (st : St) (hq : QO st) : QO (sendBatch cfg st).1 := by
  simp only [sendBatch]; split
  · exact dispatch_qo cfg st
  · exact hq

theorem checkSendBatch_qo (cfg : Cfg) (st : St) (hq : QO st) : QO (checkSendBatch cfg st).1 := by
  simp only [checkSendBatch]; split
  · exact sendBatch_qo cfg st hq
  · exact hq

theorem completeBatch_qo (cfg : Cfg) (st : St) (hq : QO st) : QO (completeBatch cfg st).1 := by
  simp only [completeBatch]; exact checkSendBatch_qo cfg _ (hq.same rfl rfl)

theorem finish_qo (cfg : Cfg) (r : St × List Ob × Bool) (hq : QO r.1) : QO (finish cfg r).1 := by
  simp only [finish]; split
  · exact completeBatch_qo cfg _ hq
  · exact hq

theorem afterLookups_qo {S : List Req} {P : List Sid} (cfg : Cfg) (st : St) (ls : List Lookup) (obs : List Ob)
    (hg : G S P { st with phase := .lookups ls }) (hq : QO st) : QO (afterLookups cfg st ls obs).1 := by
  simp only [afterLookups]
  split
  · have h3 := sendRequests_qo { st with phase := .lookups ls } ls rfl hg (hq.same rfl rfl)
    split
    · exact completeBatch_qo cfg _ h3
    · exact h3
  · exact hq.same rfl rfl

theorem deliverAll_keeps (st : St) (b : Batch) (o : Outcome) :
    ∀ x ∈ st.outstanding, x ∉ b.allSids → x ∈ (deliverAll st b o).1.outstanding :=
  fun x hx hn => deliver_keeps st.outstanding b.allSids o x hx hn

theorem checkRetry_keeps (cfg : Cfg) (st : St) (b : Batch) (f : List FailedP) :
    ∀ x ∈ st.outstanding, x ∉ b.allSids → x ∈ (checkRetry cfg st b f).1.outstanding := by
  intro x hx hn
  simp only [checkRetry]
  split
  · exact hx
  · split
    · have h1 : x ∈ (deliverMany st.outstanding (f.map (fun f => (b.sidsOf f.tp, Outcome.err f.kind)))).1 := by
        apply deliverMany_keeps _ _ x hx
        intro sids o hm hc
        obtain ⟨fp, _, he⟩ := List.mem_map.mp hm
        injection he with h1 _
        rw [← h1] at hc
        obtain ⟨g, hg, _, hxg⟩ := (by
          simp only [Batch.sidsOf, List.mem_flatMap, List.mem_filter, decide_eq_true_eq] at hc
          obtain ⟨g, ⟨h1, h2⟩, h3⟩ := hc
          exact ⟨g, h1, h2, h3⟩ : ∃ g ∈ b.groups, g.tp = fp.tp ∧ x ∈ g.sids)
        exact hn (List.mem_flatMap.mpr ⟨g, hg, hxg⟩)
      dsimp only
      split
      · exact deliver_keeps _ _ _ x h1 hn
      · exact h1
    · exact hx

theorem handleResults_keeps (cfg : Cfg) (st : St) (b : Batch) (rs : List Resp) (fs : List FailedP) :
    ∀ x ∈ st.outstanding, x ∉ b.allSids → x ∈ (handleResults cfg st b rs fs).1.outstanding := by
  intro x hx hn
  have h1 : x ∈ (deliverMany st.outstanding ((rs.filter (·.error = 0)).map (fun r => (b.sidsOf r.tp, Outcome.ok r)))).1 := by
    apply deliverMany_keeps _ _ x hx
    intro sids o hm hc
    obtain ⟨r, _, he⟩ := List.mem_map.mp hm
    injection he with h1 _
    rw [← h1] at hc
    simp only [Batch.sidsOf, List.mem_flatMap, List.mem_filter, decide_eq_true_eq] at hc
    obtain ⟨g, ⟨h1, _⟩, h3⟩ := hc
    exact hn (List.mem_flatMap.mpr ⟨g, h1, h3⟩)
  simp only [handleResults]
  split
  · exact h1
  · exact checkRetry_keeps cfg _ _ _ x h1 hn

theorem handleSendResponse_keeps (cfg : Cfg) (st : St) (b : Batch) (r : ProdRes) :
    ∀ x ∈ st.outstanding, x ∉ b.allSids → x ∈ (handleSendResponse cfg st b r).1.outstanding := by
  intro x hx hn
  cases r with
  | none => simp only [handleSendResponse]; exact deliverAll_keeps st b _ x hx hn
  | responses rs =>
    cases rs with
    | nil => simp only [handleSendResponse]; exact deliverAll_keeps st b _ x hx hn
    | cons a l => simp only [handleSendResponse]; exact handleResults_keeps cfg st b _ _ x hx hn
  | failed rs fs => simp only [handleSendResponse]; exact handleResults_keeps cfg st b _ _ x hx hn
  | err k =>
    simp only [handleSendResponse]; split
    · exact handleResults_keeps cfg st b _ _ x hx hn
    · exact deliverAll_keeps st b _ x hx hn

theorem handleSendResponse_qo {S : List Req} {P : List Sid} (cfg : Cfg) (st : St) (rid : Rid) (b : Batch) (r : ProdRes)
    (hp : st.phase = .sending rid b) (hg : G S P st) (hq : QO st) : QO (handleSendResponse cfg st b r).1 := by
  intro x hx
  have hx' : x ∈ queued st := by simpa [queued, (handleSendResponse_sameQ cfg st b r).1] using hx
  apply handleSendResponse_keeps cfg st b r x (hq x hx')
  have := hg.not_inflight x hx'
  simpa [inflight, hp] using this

theorem deliverAll_qo {S : List Req} {P : List Sid} (st : St) (b : Batch) (o : Outcome)
    (hb : inflight st = b.allSids) (hg : G S P st) (hq : QO st) : QO (deliverAll st b o).1 := by
  intro x hx
  have hx' : x ∈ queued st := by simpa [queued, (deliverAll_sameQ st b o).1] using hx
  apply deliverAll_keeps st b o x (hq x hx')
  rw [← hb]; exact hg.not_inflight x hx'

theorem cancelSend_qo (st : St) (sid : Sid) (hq : QO st) : QO (cancelSend st sid).1 := by
  intro x hx
  obtain ⟨_, a2, _⟩ := cancelSend_k st sid
  obtain ⟨h1, h2⟩ := a2 x hx
  have hxo := hq x h1
  simp only [cancelSend]
  split
  · rename_i hs
    have hne := h2 hs
    split <;> exact (List.mem_erase_of_ne hne).mpr hxo
  · exact hxo

theorem cancelAll_qo (st : St) (l : List Sid) (hq : QO st) : QO (cancelAll st l).1 := by
  induction l generalizing st with
  | nil => exact hq
  | cons s rest ih => simp only [cancelAll]; exact ih _ (cancelSend_qo st s hq)

theorem enqueue_qo (st : St) (sid : Sid) (topic : Topic) (key : Option (List UInt8)) (msgs : List (Option Nat)) (hq : QO st) :
    QO (enqueue st sid topic key msgs) := by
  intro x hx
  simp only [queued, enqueue, List.map_append, List.mem_append, List.map_cons, List.map_nil, List.mem_singleton] at hx ⊢
  rcases hx with hx | hx
  · exact Or.inl (hq x hx)
  · exact Or.inr hx

theorem zombieTimer_qo (st : St) (tid : Tid) (hq : QO st) : QO (zombieTimer st tid).1 := by
  simp only [zombieTimer]; split
  · exact hq.same rfl rfl
  · exact hq

theorem cancelBatch_qo {S : List Req} {P : List Sid} (cfg : Cfg) (st : St) (wipe : Bool) (pout : Option ProdRes)
    (mouts : List (Rid × MetaRes)) (hg : G S P st) (hq : QO st) : QO (cancelBatch cfg st wipe pout mouts).1 := by
  simp only [cancelBatch]
  split
  · exact hq
  · rename_i ls hp
    simp only [cancelLookups]
    apply afterLookups_qo (S := S) (P := P) cfg
    · refine hg.relookup hp rfl rfl ?_
      simp only [List.map_map]
      apply List.map_congr_left
      intro l _; simp only [Function.comp, cancelLookup_req]
    · exact hq.same rfl rfl
  · rename_i rid b hp
    cases pout with
    | none => exact hq
    | some r =>
      simp only [cancelSending]
      cases wipe with
      | false => exact finish_qo cfg _ (handleSendResponse_qo cfg st rid b r hp hg hq)
      | true =>
        exact finish_qo cfg _ (handleSendResponse_qo cfg { st with tmeta := [] } rid b r hp (hg.of_eq rfl rfl) (hq.same rfl rfl))
  · rename_i tid b tps hp
    simp only [cancelRetryWait]
    exact finish_qo cfg _ (deliverAll_qo st b _ (by simp [inflight, hp]) hg hq)

theorem step_qo {S : List Req} {P : List Sid} (cfg : Cfg) (st : St) (e : Ev) (hg : G S P st) (hq : QO st) :
    QO (step cfg st e).1 := by
  cases e with
  | send sid topic key msgs =>
    simp only [step]; split
    · exact hq
    · split
      · exact hq.same rfl rfl
      · exact checkSendBatch_qo cfg _ (enqueue_qo st sid topic key msgs hq)
  | cancel sid =>
    simp only [step]; split
    · exact cancelSend_qo st sid hq
    · exact hq
  | tick =>
    simp only [step]; split
    · exact sendBatch_qo cfg st hq
    · exact hq
  | timer tid =>
    simp only [step]
    split
    · rename_i ls hp
      simp only [timerLookups]; split
      · rename_i l _
        apply afterLookups_qo (S := S) (P := P) cfg
        · exact hg.relookup hp rfl (lookupHead_sameQ cfg st l.req).1 (setPc_req _ _ _)
        · exact hq.same (lookupHead_sameQ cfg st l.req).1 (lookupHead_out cfg st l.req)
      · exact zombieTimer_qo st tid hq
    · split
      · exact hq.same rfl rfl
      · exact zombieTimer_qo st tid hq
    · exact zombieTimer_qo st tid hq
  | advance dt => exact hq
  | metaSet topic err parts => exact hq.same rfl rfl
  | metaReset topics => exact hq.same rfl rfl
  | metaWipe => exact hq.same rfl rfl
  | metaDone rid res =>
    simp only [step]; split
    · rename_i ls hp
      simp only [metaDoneLookups]; split
      · rename_i l _
        apply afterLookups_qo (S := S) (P := P) cfg
        · exact hg.relookup hp rfl (metaContinue_sameQ cfg st l.req res).1 (setPc_req _ _ _)
        · exact hq.same (metaContinue_sameQ cfg st l.req res).1 (metaContinue_out cfg st l.req res)
      · exact hq
    · exact hq
  | produceDone rid res =>
    simp only [step]; split
    · rename_i r b hp
      split
      · exact finish_qo cfg _ (handleSendResponse_qo cfg st r b res hp hg hq)
      · exact hq
    · exact hq
  | stop wipe pout mouts =>
    simp only [step]; split
    · exact hq
    · simp only [doStop]
      have h1 := cancelBatch_qo cfg { st with stopping := true } wipe pout mouts (hg.of_eq rfl rfl) (hq.same rfl rfl)
      split
      · exact cancelAll_qo _ _ (h1.same rfl rfl)
      · exact cancelAll_qo _ _ h1

end Afkak.Producer
