import Afkak.Monitor.C01Dropped
import AfkakProofs.Producer.Once
/-! `neverDropped` of every model trace, from the step theorem (`step_fd`: what leaves `_outstanding` fires). -/
namespace Afkak.Producer
open Afkak.Monitor.ProducerTrace Afkak.Monitor.C01

theorem never_dropped_step (cfg : Cfg) (st : St) (e : Ev) (s : Sid) (hs : s ∈ st.outstanding)
    (hgone : s ∉ (step cfg st e).1.outstanding) : s ∈ firedSids (step cfg st e).2 := by
  have fd := step_fd cfg st e
  apply fd.gone s _ hgone
  cases e <;> simp only [outPlus] <;> try exact hs
  split
  · exact List.mem_append_left _ hs
  · exact hs

theorem neverDropped_from (cfg : Cfg) : ∀ (evs : List Ev) (st : St) (t : Track),
    checkFrom neverDroppedStep (snapOf st) t (traceFrom cfg st evs) = true
  | [], _, _ => rfl
  | e :: rest, st, t => by
    simp only [traceFrom, checkFrom, Bool.and_eq_true]
    refine ⟨?_, neverDropped_from cfg rest _ _⟩
    simp only [neverDroppedStep, List.all_eq_true, Bool.or_eq_true, List.contains_eq_mem, decide_eq_true_eq]
    intro x hx
    by_cases h : x ∈ (step cfg st e).1.outstanding
    · exact Or.inl h
    · exact Or.inr (never_dropped_step cfg st e x hx h)

theorem neverDropped_model (cfg : Cfg) (evs : List Ev) : neverDropped cfg (traceOf cfg evs) = true :=
  neverDropped_from cfg evs _ _

end Afkak.Producer
