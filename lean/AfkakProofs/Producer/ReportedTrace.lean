import AfkakProofs.Producer.Reported
import AfkakProofs.Producer.StopTrace
/-! The monitors `reported` (C09) and `emptyAnswer` (C01) hold of every model trace. -/
namespace Afkak.Producer
open Afkak.Consts Afkak.Monitor.ProducerTrace Afkak.Monitor.C01 Afkak.Monitor.C09

theorem firesOn_of (pre : Snap) (s : Step) (b : Batch) (tp : TP) (o : Outcome)
    (h : ∀ sid ∈ b.sidsOf tp, sid ∈ pre.outstanding → Ob.fire sid o ∈ s.obs) :
    firesOn pre s (b.payloadsFor b.current) tp o = true := by
  simp only [firesOn, List.all_eq_true, Bool.or_eq_true, Bool.not_eq_true', List.contains_iff_mem]
  intro p hp sid hsid
  obtain ⟨hp1, hp2⟩ := List.mem_filter.mp hp
  have hp2' : p.tp = tp := by simpa using hp2
  have hg : p ∈ b.groups := ((mem_payloadsFor b b.current p).mp hp1).1
  by_cases ho : sid ∈ pre.outstanding
  · right
    exact h sid ((mem_sidsOf b tp sid).mpr ⟨p, hg, hp2', hsid⟩) ho
  · left
    simpa using ho

/-- the observations of `_handle_send_response` are among those of a `stop()` that takes the client's answer -/
theorem stop_obs_sub (cfg : Cfg) (st : St) (rid : Rid) (b : Batch) (r : ProdRes) (w : Bool) (m : List (Rid × MetaRes))
    (hp : st.phase = .sending rid b) (hv : validResult b r = true) :
    ∀ o ∈ (handleSendResponse cfg { st with stopping := true, tmeta := if w then [] else st.tmeta } b r).2.1,
      o ∈ (step cfg st (.stop w (some r) m)).2 := by
  intro o ho
  have hsv : stopValid st (some r) = true := by simp [stopValid, hp, hv]
  obtain ⟨tail, h1, _⟩ := finish_onlyErr_tail cfg
    (handleSendResponse cfg { st with stopping := true, tmeta := if w then [] else st.tmeta } b r)
  have hcb : (cancelBatch cfg { st with stopping := true } w (some r) m).2 =
      Ob.cancelReq rid :: (finish cfg (handleSendResponse cfg { st with stopping := true, tmeta := if w then [] else st.tmeta } b r)).2 := by
    rw [cancelBatch_sending cfg { st with stopping := true } w (some r) m rid b hp]
    simp only [cancelSending]
    cases w <;> rfl
  have hin : o ∈ (cancelBatch cfg { st with stopping := true } w (some r) m).2 := by
    rw [hcb, h1]
    exact List.mem_cons_of_mem _ (List.mem_append_left _ ho)
  simp only [step, hsv, Bool.not_true, Bool.false_eq_true, if_false, doStop]
  split <;> exact List.mem_append_left _ (List.mem_append_left _ hin)

/-- **Reported at once**, and the empty answer, on every model step. -/
theorem reported_step (cfg : Cfg) (st : St) (t : Track) (e : Ev) (h : TInv cfg st t) :
    reportedStep cfg (snapOf st) t (mkStep cfg st e) = true ∧
    emptyAnswerStep cfg (snapOf st) t (mkStep cfg st e) = true := by
  have hrel := h.fr.rel
  -- the shared core: an effective answer `r` to the request in flight
  have core : ∀ r rid ps, (if effective t e = true then completionOf e else none) = some r → t.cur = some (rid, ps) →
      t.curRes = none → ∃ b st', st.phase = .sending rid b ∧ ps = b.payloadsFor b.current ∧ validResult b r = true ∧
        st'.outstanding = st.outstanding ∧ st'.attempts = st.attempts ∧
        (st'.stopping = false → (trackEv (snapOf st) t e).stopped = false) ∧
        ((trackEv (snapOf st) t e).stopped = false → st'.stopping = false) ∧
        (∀ o ∈ (handleSendResponse cfg st' b r).2.1, o ∈ (step cfg st e).2) := by
    intro r rid ps h1 h2 h3
    obtain ⟨b, hp, hps⟩ := produce_post hrel h2 h3
    have hvf := validFor_of_sending hrel hp r
    by_cases heff : effective t e = true
    · rw [if_pos heff] at h1
      cases e with
      | produceDone k r' =>
        simp only [completionOf] at h1; injection h1 with h1; subst h1
        simp only [effective, h2, h3, Bool.and_eq_true, beq_iff_eq] at heff
        obtain ⟨hk, hv⟩ := heff
        subst hk
        rw [hps, hvf] at hv
        refine ⟨b, st, hp, hps, hv, rfl, rfl, ?_, ?_, ?_⟩
        · intro hs; rw [trackEv_stopped, hrel.stopped]; exact hs
        · intro hs; rw [trackEv_stopped, hrel.stopped] at hs; exact hs
        · intro o ho
          obtain ⟨tail, t1, _⟩ := finish_onlyErr_tail cfg (handleSendResponse cfg st b r')
          have : (step cfg st (.produceDone k r')).2 = (finish cfg (handleSendResponse cfg st b r')).2 := by
            simp [step, hp, hv]
          rw [this, t1]; exact List.mem_append_left _ ho
      | stop w pout m =>
        cases pout with
        | none => simp [completionOf] at h1
        | some r' =>
          simp only [completionOf] at h1; injection h1 with h1; subst h1
          simp only [effective, h2, h3] at heff
          rw [hps, hvf] at heff
          refine ⟨b, { st with stopping := true, tmeta := if w then [] else st.tmeta }, hp, hps, heff, rfl, rfl, ?_, ?_,
            stop_obs_sub cfg st rid b r' w m hp heff⟩
          · intro hs; cases hs
          · intro hs
            rw [trackEv_stopped] at hs
            have : effective t (.stop w (some r') m) = true := by
              simp only [effective, h2, h3]; rw [hps, hvf]; exact heff
            simp [this] at hs
      | send _ _ _ _ => simp [completionOf] at h1
      | cancel _ => simp [completionOf] at h1
      | tick => simp [completionOf] at h1
      | timer _ => simp [completionOf] at h1
      | advance _ => simp [completionOf] at h1
      | metaSet _ _ _ => simp [completionOf] at h1
      | metaReset _ => simp [completionOf] at h1
      | metaWipe => simp [completionOf] at h1
      | metaDone _ _ => simp [completionOf] at h1
    · rw [if_neg heff] at h1; cases h1
  constructor
  · simp only [reportedStep]
    split
    · rename_i r rid ps h1 h2 h3
      obtain ⟨b, st', hp, hps, hv, e1, e2, e3, e4, hsub⟩ := core r rid ps h1 h2 h3
      have a := hrel.sending rid b hp
      have hg : GsOk t.sends b.groups := (h.g.grp b (by simp [batchOf, hp])).1
      obtain ⟨r1, r2, r3, _⟩ := handle_reports cfg st' b r hg hv a.sub a.br.live_nodup
      subst hps
      simp only [show (mkStep cfg st e).ev = e from rfl, Bool.and_eq_true, List.all_eq_true, Bool.or_eq_true, Bool.not_eq_true']
      refine ⟨⟨?_, ?_⟩, ?_⟩
      · intro resp hresp
        obtain ⟨q1, q2⟩ := List.mem_filter.mp hresp
        apply firesOn_of
        intro sid hs ho
        exact hsub _ (r1 resp q1 (by simpa using q2) sid hs (by rw [e1]; exact ho))
      · by_cases hc : (decide (cfg.maxAttempts ≤ (snapOf st).attempts) && !(trackEv (snapOf st) t e).stopped) = true
        · right
          simp only [Bool.and_eq_true, decide_eq_true_eq, Bool.not_eq_true'] at hc
          intro f hf
          apply firesOn_of
          intro sid hs ho
          exact hsub _ (r2 (e4 hc.2) (by rw [e2]; exact hc.1) f hf sid hs (by rw [e1]; exact ho))
        · left; simpa using hc
      · cases r with
        | err k =>
          simp only [Bool.or_eq_true, List.all_eq_true]
          by_cases hk : k.isKafka = true
          · exact Or.inl hk
          · right
            intro p hp'
            apply firesOn_of
            intro sid hs ho
            exact hsub _ (r3 k rfl (by simpa using hk) sid (sidsOf_sub_allSids b _ sid hs) (by rw [e1]; exact ho))
        | none => trivial
        | responses _ => trivial
        | failed _ _ => trivial
    · rfl
  · simp only [emptyAnswerStep]
    split
    · rename_i r rid ps h1 h2 h3
      obtain ⟨b, st', hp, hps, hv, e1, _, _, _, hsub⟩ := core r rid ps h1 h2 h3
      have a := hrel.sending rid b hp
      have hg : GsOk t.sends b.groups := (h.g.grp b (by simp [batchOf, hp])).1
      obtain ⟨_, _, _, r4⟩ := handle_reports cfg st' b r hg hv a.sub a.br.live_nodup
      subst hps
      by_cases hemp : isEmptyResult r = true
      · simp only [hemp, Bool.not_true, Bool.false_or, List.all_eq_true, Bool.or_eq_true, Bool.not_eq_true',
          List.contains_iff_mem]
        intro sid hsid
        by_cases ho : sid ∈ (snapOf st).outstanding
        · right
          exact hsub _ (r4 hemp sid (payloadSids_payloadsFor_sub b b.current sid hsid) (by rw [e1]; exact ho))
        · left; simpa using ho
      · simp [hemp]
    · rfl

theorem reported_from (cfg : Cfg) (evs : List Ev) (st : St) (t : Track) (h : TInv cfg st t) :
    checkFrom (reportedStep cfg) (snapOf st) t (traceFrom cfg st evs) = true ∧
    checkFrom (emptyAnswerStep cfg) (snapOf st) t (traceFrom cfg st evs) = true := by
  induction evs generalizing st t with
  | nil => exact ⟨rfl, rfl⟩
  | cons e rest ih =>
    obtain ⟨r1, r2⟩ := reported_step cfg st t e h
    obtain ⟨i1, i2⟩ := ih _ _ (tinv_step cfg st t (snapOf st) e h).1
    simp only [traceFrom, checkFrom, Bool.and_eq_true]
    exact ⟨⟨r1, i1⟩, ⟨r2, i2⟩⟩

theorem reported_model (cfg : Cfg) (evs : List Ev) : reported cfg (traceOf cfg evs) = true :=
  (reported_from cfg evs _ _ (tinv_init cfg)).1

theorem emptyAnswer_model (cfg : Cfg) (evs : List Ev) : emptyAnswer cfg (traceOf cfg evs) = true :=
  (reported_from cfg evs _ _ (tinv_init cfg)).2

end Afkak.Producer
