import AfkakProofs.Producer.RelLand
import AfkakProofs.Producer.Truth
import AfkakProofs.Producer.Once
/-! Preservation of the state/summary relation by every step, and the per-step checks of the monitors
`successAcked`, `retryOnlyFailed`, `attemptBound`. -/
namespace Afkak.Producer
open Afkak.Consts Afkak.Monitor.ProducerTrace Afkak.Monitor.C01 Afkak.Monitor.C09

/-- the step record of the model -/
def mkStep (cfg : Cfg) (st : St) (e : Ev) : Step :=
  { ev := e, obs := (step cfg st e).2, post := snapOf (step cfg st e).1 }

/-! ### checks that hold for trivial reasons -/

theorem retryOk_inv (retry : Bool) : ∀ t t' o, norm t = norm t' → retryOk retry t o = retryOk retry t' o := by
  intro t t' o h
  have e2 : t.curRes = t'.curRes := norm_field (·.curRes) (fun _ => rfl) h
  have e5 : t.batchTps = t'.batchTps := norm_field (·.batchTps) (fun _ => rfl) h
  have e6 : t.acked = t'.acked := norm_field (·.acked) (fun _ => rfl) h
  have e7 : t.lastP = t'.lastP := norm_field (·.lastP) (fun _ => rfl) h
  have e1 : t.cur = t'.cur := norm_field (·.cur) (fun _ => rfl) h
  cases o <;> simp only [retryOk, e1, e2, e5, e6, e7]

theorem retryOk_triv (retry : Bool) : ∀ t o, isProduce o = false → retryOk retry t o = true := by
  intro t o h; cases o <;> simp_all [retryOk, isProduce]

theorem attemptOk_inv (cfg : Cfg) (retry : Bool) : ∀ t t' o, norm t = norm t' → attemptOk cfg retry t o = attemptOk cfg retry t' o := by
  intro t t' o h
  have e3 : t.chain = t'.chain := norm_field (·.chain) (fun _ => rfl) h
  cases o <;> simp only [attemptOk, e3]

theorem attemptOk_triv (cfg : Cfg) (retry : Bool) : ∀ t o, isProduce o = false → attemptOk cfg retry t o = true := by
  intro t o h; cases o <;> simp_all [attemptOk, isProduce]

theorem checkObs_all_true (chk : Track → Ob → Bool) (h : ∀ t o, chk t o = true) (e : Ev) (r : Bool) (t : Track) (obs : List Ob) :
    checkObs chk e r t obs = true := by
  induction obs generalizing t with
  | nil => rfl
  | cons o rest ih => simp only [checkObs, h, ih, Bool.and_self]

/-- a step that is not a retry passes the retry / attempt checks -/
theorem nonretry_checks (cfg : Cfg) (pre : Snap) (t : Track) (s : Step) (h : isRetryStep t s.ev = false) :
    retryStep pre t s = true ∧ attemptStep cfg pre t s = true := by
  simp only [retryStep, attemptStep, h]
  constructor
  · apply checkObs_all_true; intro t o; cases o <;> simp [retryOk]
  · apply checkObs_all_true; intro t o; cases o <;> simp [attemptOk]; omega

theorem fireOk_err (cfg : Cfg) (pre : Snap) (t : Track) (e : Ev) (s : Sid) (k : ErrKind) : fireOk cfg pre t e (.fire s (.err k)) = true := rfl

/-- a step that fires failures only passes the truthfulness check -/
theorem acked_onlyErr (cfg : Cfg) (pre : Snap) (t : Track) (s : Step) (h : onlyErr s.obs) :
    successAckedStep cfg pre t s = true := by
  simp only [successAckedStep, Bool.and_eq_true]
  constructor
  · rw [List.all_eq_true]; intro o ho
    cases o with
    | fire sid out =>
      obtain ⟨k, hk⟩ := h sid out ho; subst hk; rfl
    | _ => rfl
  · have : ∀ (obs : List Ob) (tt : Track), onlyErr obs →
        checkObs (fun tt o => fireOk cfg pre tt s.ev o) s.ev (isRetryStep t s.ev) tt obs = true := by
      intro obs
      induction obs with
      | nil => intro _ _; rfl
      | cons o rest ih =>
        intro tt ho
        simp only [checkObs, Bool.and_eq_true]
        refine ⟨?_, ih _ (fun s' o' hm => ho s' o' (List.mem_cons_of_mem _ hm))⟩
        cases o with
        | fire sid out =>
          obtain ⟨k, hk⟩ := ho sid out List.mem_cons_self; subst hk; rfl
        | _ => rfl
    exact this s.obs _ h

/-! ### `trackEv` on events that carry no completion -/

theorem trackEv_plain (pre : Snap) (t : Track) (e : Ev)
    (h : match e with | .send .. => False | .cancel .. => False | .stop .. => False | .produceDone .. => False | _ => True) :
    trackEv pre t e = t := by
  cases e <;> simp_all [trackEv, effective, completionOf]

theorem trackEv_send_norm (pre : Snap) (t : Track) (sid : Sid) (topic : Topic) (key : Option (List UInt8)) (msgs : List (Option Nat)) :
    norm (trackEv pre t (.send sid topic key msgs)) = norm t := by
  simp only [trackEv, effective, completionOf, ↓reduceIte]
  split <;> rfl

theorem trackEv_cancel_norm (pre : Snap) (t : Track) (sid : Sid) : norm (trackEv pre t (.cancel sid)) = norm t := by
  simp only [trackEv, effective, completionOf, ↓reduceIte]
  repeat' split
  all_goals rfl

end Afkak.Producer

namespace Afkak.Producer
open Afkak.Consts Afkak.Monitor.ProducerTrace Afkak.Monitor.C01 Afkak.Monitor.C09

/-! ### pieces of the preservation proof -/

theorem rel_via_core {cfg : Cfg} {st' : St} {pre : Snap} {t : Track} {s : Step}
    (h : Rel cfg st' (trackCore pre t s.ev (shapeOf s.obs))) : Rel cfg st' (track pre t s) :=
  h.congr (norm_track pre t s).symm

theorem Rel.preland {cfg : Cfg} {st st' : St} {t : Track} (h : Rel cfg st t)
    (hq : st.phase = .idle ∨ ∃ ls, st.phase = .lookups ls) (hs : st'.stopping = st.stopping)
    (hnt : st.nextTid ≤ st'.nextTid) : PreLand st' t :=
  ⟨by rw [hs]; exact h.stopped, h.quiet hq, h.lp_nodup, fun tid ht => Nat.lt_of_lt_of_le (h.rt_lt tid ht) hnt⟩

/-- nothing happened, or `_send_batch` ran from idle -/
theorem rel_landedOr {cfg : Cfg} {st1 st' : St} {t1 : Track} {e : Ev} {obs : List Ob}
    (h : Rel cfg st1 t1) (hl : LandedOr cfg st1 st' obs) (hstat : Stat st1 st') (hnt : st'.nextTid = st1.nextTid) :
    Rel cfg st' ((shapeOf obs).foldl (trackOb e false) t1) := by
  rcases hl with ⟨e1, e2⟩ | ⟨h1, _, _, l⟩
  · rw [e1, e2]; exact h
  · exact rel_landed l (h.preland (Or.inl h1) hstat.2.1 (by rw [hnt]; exact Nat.le_refl _)) h.att

/-- what `rel_afterL` needs of the state before the DeferredList is looked at -/
structure PreAfter (s : St) (t : Track) : Prop where
  stopped : t.stopped = s.stopping
  quiet : t.cur = none ∨ t.curRes.isSome = true
  lp_nodup : (t.lastP.map (·.1)).Nodup
  rt_lt : ∀ tid ∈ t.retryTids, tid < s.nextTid
  att : 0 ≤ s.attempts

theorem Rel.preAfter {cfg : Cfg} {s : St} {t : Track} (h : Rel cfg s t) (hph : ∃ ls0, s.phase = .lookups ls0) : PreAfter s t :=
  ⟨h.stopped, h.quiet (Or.inr hph), h.lp_nodup, h.rt_lt, h.att⟩

/-- after a look-up moved (`s` is the state after the look-up's own step) -/
theorem rel_afterL {cfg : Cfg} {s st' : St} {t : Track} {e : Ev} {ls : List Lookup} {obs0 obs : List Ob}
    (h : PreAfter s t) (ha : AfterL cfg s ls obs0 st' obs)
    (hstat : Stat s st') (hnt : st'.nextTid = s.nextTid)
    (hbo : ∀ l ∈ ls, ∀ tid, l.pc = .waitBackoff tid → tid < s.nextTid)
    (hbs : s.stopping = true → ∀ l ∈ ls, l.pc.isBackoff = false)
    (hbn : ∀ l ∈ ls, ∀ tid, l.pc = .waitBackoff tid → tid ∉ t.retryTids)
    (hsh : shapeOf obs0 = [] ∨ (isCompletion e = false ∧ ∃ tid d, shapeOf obs0 = [.setTimer tid d])) :
    Rel cfg st' ((shapeOf obs).foldl (trackOb e false) t) := by
  have hpl : PreLand st' t :=
    ⟨by rw [hstat.2.1]; exact h.stopped, h.quiet, h.lp_nodup, fun tid ht => by rw [hnt]; exact h.rt_lt tid ht⟩
  cases ha with
  | pending a1 a2 a3 =>
    subst a2; rw [a3]
    have ht : norm ((shapeOf obs0).foldl (trackOb e false) t) = norm t := by
      rcases hsh with h0 | ⟨hne, tid, d, h0⟩
      · rw [h0]; rfl
      · rw [h0]; simp only [List.foldl_cons, List.foldl_nil, trackOb, hne]; rfl
    refine Rel.congr ?_ ht.symm
    refine ⟨h.stopped, ?_, ?_, fun _ => h.quiet, h.lp_nodup, h.rt_lt, ?_, ?_, ?_, h.att, ?_⟩
    · intro rid b hp; cases hp
    · intro tid b tps hp; cases hp
    · intro ls' hp l hl tid hpc; injection hp with hp; subst hp; exact hbo l hl tid hpc
    · intro ls' hp l hl tid hpc; injection hp with hp; subst hp; exact hbn l hl tid hpc
    · intro hs ls' hp l hl; injection hp with hp; subst hp; exact hbs hs l hl
    · intro hp; cases hp
  | done a1 l => exact rel_landed l hpl h.att
  | resolved a1 l => exact rel_landed l hpl (Int.le_refl 0)

end Afkak.Producer

namespace Afkak.Producer
open Afkak.Consts Afkak.Monitor.ProducerTrace Afkak.Monitor.C01 Afkak.Monitor.C09

theorem Rel.lookups_step {cfg : Cfg} {st s : St} {t : Track} {ls0 : List Lookup} (h : Rel cfg st t)
    (hp : st.phase = .lookups ls0) (hph : s.phase = st.phase) (hst : s.stopping = st.stopping)
    (hnt : st.nextTid ≤ s.nextTid) (hat : 0 ≤ s.attempts) : Rel cfg s t := by
  refine ⟨by rw [hst]; exact h.stopped, ?_, ?_, fun _ => h.quiet (Or.inr ⟨ls0, hp⟩), h.lp_nodup, ?_, ?_, ?_, ?_, hat, ?_⟩
  · intro rid b hp'; rw [hph, hp] at hp'; cases hp'
  · intro tid b tps hp'; rw [hph, hp] at hp'; cases hp'
  · intro tid ht; exact Nat.lt_of_lt_of_le (h.rt_lt tid ht) hnt
  · intro ls hp' l hl tid hpc; rw [hph] at hp'; exact Nat.lt_of_lt_of_le (h.bo_lt ls hp' l hl tid hpc) hnt
  · intro ls hp'; rw [hph] at hp'; exact h.bo_nr ls hp'
  · intro hs ls hp'; rw [hph] at hp'; rw [hst] at hs; exact h.bo_stop hs ls hp'
  · intro hp'; rw [hph, hp] at hp'; cases hp'

theorem metaContinue_spec (cfg : Cfg) (st : St) (r : Req) (res : MetaRes) :
    (metaContinue cfg st r res).1.phase = st.phase ∧
    (((metaContinue cfg st r res).2.1 = .waitBackoff st.nextTid ∧ st.stopping = false ∧
       (metaContinue cfg st r res).1.nextTid = st.nextTid + 1 ∧
       (metaContinue cfg st r res).1.attempts = st.attempts + 1 ∧
       shapeOf (metaContinue cfg st r res).2.2 = [.setTimer st.nextTid st.interval]) ∨
     ((metaContinue cfg st r res).2.1.isBackoff = false ∧ (metaContinue cfg st r res).1.nextTid = st.nextTid ∧
       (metaContinue cfg st r res).1.attempts = st.attempts ∧ shapeOf (metaContinue cfg st r res).2.2 = [])) := by
  cases res with
  | err k => simp [metaContinue, LPc.isBackoff, shapeOf]
  | ok =>
    simp only [metaContinue]
    split
    · simp [LPc.isBackoff, shapeOf]
    · rename_i hs
      split
      · have hf := pickPartition_frame cfg st r.topic r.key
        refine ⟨by rw [hf], Or.inr ⟨rfl, by rw [hf], by rw [hf], rfl⟩⟩
      · exact ⟨rfl, Or.inl ⟨rfl, by simpa using hs, rfl, rfl, by simp [shapeOf, isShape]⟩⟩

theorem setPc_mem (ls : List Lookup) (old new : LPc) (l : Lookup) (hl : l ∈ setPc ls old new) :
    l.pc = new ∨ l ∈ ls := by
  simp only [setPc, List.mem_map] at hl
  obtain ⟨x, hx, hxe⟩ := hl
  split at hxe
  · left; rw [← hxe]
  · right; rw [← hxe]; exact hx

end Afkak.Producer

namespace Afkak.Producer
open Afkak.Consts Afkak.Monitor.ProducerTrace Afkak.Monitor.C01 Afkak.Monitor.C09

theorem rel_send (cfg : Cfg) (st : St) (t : Track) (pre : Snap) (sid : Sid) (topic : Topic) (key : Option (List UInt8))
    (msgs : List (Option Nat)) (h : Rel cfg st t) :
    Rel cfg (step cfg st (.send sid topic key msgs)).1
      (trackCore pre t (.send sid topic key msgs) (shapeOf (step cfg st (.send sid topic key msgs)).2)) := by
  have ht := trackEv_send_norm pre t sid topic key msgs
  have h1 : Rel cfg st (trackEv pre t (.send sid topic key msgs)) := h.congr ht.symm
  simp only [trackCore, isRetryStep]
  simp only [step]
  split
  · simpa [shapeOf, isShape] using h1
  · split
    · have : ∀ k, shapeOf [Ob.fire sid (.err k)] = [] := by intro k; simp [shapeOf, isShape]
      simp only [this, List.foldl_nil]
      exact h1.same rfl rfl rfl (Nat.le_refl _) rfl
    · simp only [doSend]
      obtain ⟨c1, _, c3⟩ := checkSendBatch_spec cfg (enqueue st sid topic key msgs)
      exact rel_landedOr (st1 := enqueue st sid topic key msgs) (h1.same rfl rfl rfl (Nat.le_refl _) rfl) c1
        (checkSendBatch_stat cfg _) c3

theorem rel_cancel (cfg : Cfg) (st : St) (t : Track) (pre : Snap) (sid : Sid) (h : Rel cfg st t) :
    Rel cfg (step cfg st (.cancel sid)).1 (trackCore pre t (.cancel sid) (shapeOf (step cfg st (.cancel sid)).2)) := by
  have h1 : Rel cfg st (trackEv pre t (.cancel sid)) := h.congr (trackEv_cancel_norm pre t sid).symm
  simp only [trackCore, isRetryStep, step]
  split
  · obtain ⟨_, c2, c3, c4, c5, c6⟩ := cancelSend_spec st sid
    rw [c2]
    exact h1.same c3 (cancelSend_stat st sid).2.1 c4 (by rw [c6]; exact Nat.le_refl _) c5
  · simpa [shapeOf, isShape] using h1

theorem rel_tick (cfg : Cfg) (st : St) (t : Track) (pre : Snap) (h : Rel cfg st t) :
    Rel cfg (step cfg st .tick).1 (trackCore pre t .tick (shapeOf (step cfg st .tick).2)) := by
  simp only [trackCore, isRetryStep, step, trackEv_plain pre t .tick trivial]
  split
  · obtain ⟨c1, _, c3⟩ := sendBatch_spec cfg st
    exact rel_landedOr h c1 (sendBatch_stat cfg st) c3
  · simpa [shapeOf, isShape] using h

theorem rel_quiet_events (cfg : Cfg) (st : St) (t : Track) (pre : Snap) (e : Ev) (h : Rel cfg st t)
    (he : match e with | .advance _ => True | .metaSet .. => True | .metaReset _ => True | .metaWipe => True | _ => False) :
    Rel cfg (step cfg st e).1 (trackCore pre t e (shapeOf (step cfg st e).2)) := by
  cases e <;> simp only at he
  all_goals
    simp only [trackCore, isRetryStep, step, shapeOf, List.filter_nil, List.foldl_nil]
    rw [trackEv_plain pre t _ trivial]
    exact h.same rfl rfl rfl (Nat.le_refl _) rfl

end Afkak.Producer

namespace Afkak.Producer
open Afkak.Consts Afkak.Monitor.ProducerTrace Afkak.Monitor.C01 Afkak.Monitor.C09

/-- dropping a timer id from the summary's retry timers keeps the relation, unless the batch waits on it -/
theorem Rel.dropTid {cfg : Cfg} {st : St} {t : Track} (h : Rel cfg st t) (tid : Tid)
    (hne : ∀ b tps, st.phase ≠ .retryWait tid b tps) :
    Rel cfg st { t with retryTids := t.retryTids.filter (· ≠ tid) } := by
  refine ⟨h.stopped, ?_, ?_, h.quiet, h.lp_nodup, fun x hx => h.rt_lt x (List.mem_filter.mp hx).1, h.bo_lt,
    fun ls hp l hl x hpc hc => h.bo_nr ls hp l hl x hpc (List.mem_filter.mp hc).1, h.bo_stop, h.att, h.idle0⟩
  · intro rid b hp
    have a := h.sending rid b hp
    exact ⟨a.cur, a.res, ⟨a.br.tps, a.br.nodup, a.br.live_sub, a.br.live_nodup, a.br.live_unacked, a.br.lastP, a.br.prod, a.br.chain1⟩, a.chain, a.sub, a.nodup, a.ne, a.al⟩
  · intro tid' b tps hp
    have a := h.retrying tid' b tps hp
    refine ⟨List.mem_filter.mpr ⟨a.tid, ?_⟩, a.res, ⟨a.br.tps, a.br.nodup, a.br.live_sub, a.br.live_nodup, a.br.live_unacked, a.br.lastP, a.br.prod, a.br.chain1⟩,
      a.chain, a.att, a.sub, a.nodup, a.nostop, a.ne, a.al, a.prev⟩
    simp only [decide_eq_true_eq]
    intro hc; subst hc; exact hne b tps hp

theorem zombieTimer_same (st : St) (tid : Tid) :
    (zombieTimer st tid).1.phase = st.phase ∧ (zombieTimer st tid).1.stopping = st.stopping ∧
    (zombieTimer st tid).1.attempts = st.attempts ∧ (zombieTimer st tid).1.nextTid = st.nextTid ∧
    (zombieTimer st tid).1.interval = st.interval ∧ shapeOf (zombieTimer st tid).2 = [] := by
  simp only [zombieTimer]; split <;> simp [shapeOf, isShape]

theorem lookupHead_phase (cfg : Cfg) (st : St) (r : Req) : (lookupHead cfg st r).1.phase = st.phase :=
  (lookupHead_spec cfg st r).2.2.2.2.1

theorem findPc_mem {ls : List Lookup} {pc : LPc} {l : Lookup} (h : findPc ls pc = some l) : l ∈ ls ∧ l.pc = pc := by
  have hm : l ∈ ls.filter (·.pc = pc) := List.mem_of_mem_head? h
  obtain ⟨h1, h2⟩ := List.mem_filter.mp hm
  exact ⟨h1, by simpa using h2⟩

end Afkak.Producer

namespace Afkak.Producer
open Afkak.Consts Afkak.Monitor.ProducerTrace Afkak.Monitor.C01 Afkak.Monitor.C09

theorem lookupHead_nextTid (cfg : Cfg) (st : St) (r : Req) : (lookupHead cfg st r).1.nextTid = st.nextTid :=
  (lookupHead_spec cfg st r).2.2.2.2.2.1

/-- a back-off timer fires while look-ups are pending -/
theorem rel_timerLookups (cfg : Cfg) (st : St) (t : Track) (ls : List Lookup) (tid : Tid) (h : Rel cfg st t)
    (hph : st.phase = .lookups ls) :
    Rel cfg (timerLookups cfg st ls tid).1
      { ((shapeOf (timerLookups cfg st ls tid).2).foldl (trackOb (.timer tid) (isRetryStep t (.timer tid))) t) with
        retryTids := ((shapeOf (timerLookups cfg st ls tid).2).foldl (trackOb (.timer tid) (isRetryStep t (.timer tid))) t).retryTids.filter (· ≠ tid) } := by
  simp only [timerLookups]
  split
  · rename_i l hl
    obtain ⟨m1, m2⟩ := findPc_mem hl
    have hnr : isRetryStep t (.timer tid) = false := by
      simp only [isRetryStep, decide_eq_false_iff_not]
      exact h.bo_nr ls hph l m1 tid m2
    rw [hnr]
    obtain ⟨s1, s2, s3, s4, s5, s6, _⟩ := lookupHead_spec cfg st l.req
    have hs : Rel cfg (lookupHead cfg st l.req).1 t :=
      h.lookups_step hph s5 (lookupHead_stat cfg st l.req).2.1 (by rw [s6]; exact Nat.le_refl _) (by rw [s3]; exact h.att)
    obtain ⟨a1, _, a3⟩ := afterLookups_spec cfg (lookupHead cfg st l.req).1 (setPc ls (.waitBackoff tid) (lookupHead cfg st l.req).2.1)
      (lookupHead cfg st l.req).2.2 (fun _ => s1) (nofire_onlyErr (lookupHead_nofire cfg st l.req))
    have hr := rel_afterL (e := .timer tid) (hs.preAfter ⟨ls, by rw [s5]; exact hph⟩) a1 (afterLookups_stat cfg _ _ _) a3
      (by
        intro x hx y hy
        rcases setPc_mem _ _ _ _ hx with hp | hp
        · rw [hp] at hy; rw [hy] at s2; simp [LPc.isBackoff] at s2
        · rw [s6]; exact h.bo_lt ls hph x hp y hy)
      (by
        intro hst x hx
        rcases setPc_mem _ _ _ _ hx with hp | hp
        · rw [hp]; exact s2
        · exact h.bo_stop (by rw [← (lookupHead_stat cfg st l.req).2.1]; exact hst) ls hph x hp)
      (by
        intro x hx y hy
        rcases setPc_mem _ _ _ _ hx with hp | hp
        · rw [hp] at hy; rw [hy] at s2; simp [LPc.isBackoff] at s2
        · exact h.bo_nr ls hph x hp y hy)
      (Or.inl s1)
    refine Rel.dropTid hr tid ?_
    intro b tps hc
    -- the result is idle, looking up, or sending: never waiting to retry
    cases a1 with
    | pending _ e2 _ => rw [e2] at hc; cases hc
    | done _ l' => cases l' with
      | idle p1 => rw [p1] at hc; cases hc
      | lookups _ p1 => rw [p1] at hc; cases hc
      | sending _ _ p1 => rw [p1] at hc; cases hc
    | resolved _ l' => cases l' with
      | idle p1 => rw [p1] at hc; cases hc
      | lookups _ p1 => rw [p1] at hc; cases hc
      | sending _ _ p1 => rw [p1] at hc; cases hc
  · obtain ⟨z1, z2, z3, z4, z5, z6⟩ := zombieTimer_same st tid
    rw [z6]
    simp only [List.foldl_nil]
    refine Rel.dropTid (h.same z1 z2 z3 (by rw [z4]; exact Nat.le_refl _) z5) tid ?_
    intro b tps hc; rw [z1, hph] at hc; cases hc

end Afkak.Producer

namespace Afkak.Producer
open Afkak.Consts Afkak.Monitor.ProducerTrace Afkak.Monitor.C01 Afkak.Monitor.C09

theorem mem_lastP_unique {lp : List (TP × List Sid)} (hn : (lp.map (·.1)).Nodup) {tp : TP} {sids : List Sid}
    (hm : (tp, sids) ∈ lp) : (lp.filter (·.1 == tp)).all (·.2 == sids) = true ∧ lp.any (·.1 == tp) = true := by
  constructor
  · rw [List.all_eq_true]
    intro x hx
    obtain ⟨h1, h2⟩ := List.mem_filter.mp hx
    have h2' : x.1 = tp := by simpa using h2
    have : x = (tp, sids) := by
      induction lp with
      | nil => cases hm
      | cons a rest ih =>
        simp only [List.map_cons, List.nodup_cons] at hn
        rcases List.mem_cons.mp h1 with e1 | e1 <;> rcases List.mem_cons.mp hm with e2 | e2
        · rw [e1, e2]
        · exact absurd (List.mem_map_of_mem (f := (·.1)) e2) (by rw [← e1, h2'] at hn; exact hn.1)
        · exact absurd (List.mem_map_of_mem (f := (·.1)) e1) (by rw [← e2] at hn; rw [h2']; exact hn.1)
        · exact ih hn.2 e2 (List.mem_filter.mpr ⟨e1, h2⟩) e1
    rw [this]; simp
  · rw [List.any_eq_true]; exact ⟨_, hm, by simp⟩

/-- the retry timer fires: `_do_retry` -/
theorem rel_retry (cfg : Cfg) (st : St) (t : Track) (tid : Tid) (b : Batch) (tps : List TP) (h : Rel cfg st t)
    (hph : st.phase = .retryWait tid b tps) :
    isRetryStep t (.timer tid) = true ∧
    Rel cfg (doRetry st b tps).1
      { (trackOb (.timer tid) true t (.produce st.nextRid (b.payloadsFor tps))) with
        retryTids := (trackOb (.timer tid) true t (.produce st.nextRid (b.payloadsFor tps))).retryTids.filter (· ≠ tid) } ∧
    retryOk true t (.produce st.nextRid (b.payloadsFor tps)) = true ∧
    attemptOk cfg true t (.produce st.nextRid (b.payloadsFor tps)) = true := by
  have a := h.retrying tid b tps hph
  have hsub : ∀ tp ∈ tps, tp ∈ b.groups.map (·.tp) := fun tp htp => a.br.live_sub tp (a.sub tp htp)
  have hmap := payloadsFor_map_tp b tps a.br.nodup hsub
  refine ⟨by simp [isRetryStep, a.tid], ?_, ?_, ?_⟩
  · simp only [doRetry, trackOb, if_true]
    refine ⟨h.stopped, ?_, ?_, ?_, ?_, fun x hx => h.rt_lt x (List.mem_filter.mp hx).1, ?_, ?_, ?_, by show 0 ≤ st.attempts + 1; have := h.att; omega, ?_⟩
    · intro rid' b' hp
      injection hp with e1 e2; subst e1; subst e2
      refine ⟨rfl, rfl, ⟨a.br.tps, a.br.nodup, a.br.live_sub, a.br.live_nodup, a.br.live_unacked, ?_, ?_, Nat.succ_le_succ (Nat.zero_le _)⟩, ?_, a.sub, a.nodup, a.ne, a.al⟩
      · intro g hg
        by_cases hgt : g.tp ∈ tps
        · apply List.mem_append_left
          exact List.mem_map_of_mem (f := fun p : Payload => (p.tp, p.sids)) ((mem_payloadsFor b tps g).mpr ⟨hg, hgt⟩)
        · apply List.mem_append_right
          refine List.mem_filter.mpr ⟨a.br.lastP g hg, ?_⟩
          simp only [Bool.not_eq_true', List.any_eq_false, decide_eq_true_eq]
          intro p hp hc
          exact hgt (hc ▸ ((mem_payloadsFor b tps p).mp hp).2)
      · intro s hs
        exact List.mem_append_right _ (a.br.prod s hs)
      · show ((t.chain + 1 : Nat) : Int) ≤ st.attempts + 1
        have := a.chain; omega
    · intro tid' b' tps' hp; cases hp
    · intro hq; rcases hq with hq | ⟨ls, hq⟩ <;> cases hq
    · exact lastP_update_nodup _ _ (by rw [hmap]; exact a.nodup) h.lp_nodup
    · intro ls hp; cases hp
    · intro ls hp; cases hp
    · intro _ ls hp; cases hp
    · intro hp; cases hp
  · obtain ⟨res, r1, r2⟩ := a.res
    obtain ⟨rid0, cur0, c1, c2, c3, c4⟩ := a.prev
    have hmap0 := payloadsFor_map_tp b cur0 a.br.nodup c2
    simp only [retryOk, r1, c1, if_true, Bool.and_eq_true, List.all_eq_true]
    refine ⟨?_, ?_⟩
    · cases res with
      | err k =>
        simp only [Bool.and_eq_true, decide_eq_true_eq, List.all_eq_true]
        rw [hmap, hmap0]
        exact ⟨⟨a.nodup, fun tp h => by simpa using c3 tp h⟩, fun tp h => by simpa using c4 k r1 tp h⟩
      | responses rs => simp only [beq_iff_eq]; rw [hmap]; exact r2
      | failed rs fs => simp only [beq_iff_eq]; rw [hmap]; exact r2
      | none => simp only [beq_iff_eq]; rw [hmap]; exact r2
    intro p hp
    obtain ⟨pg, pt⟩ := (mem_payloadsFor b tps p).mp hp
    obtain ⟨u1, u2⟩ := mem_lastP_unique h.lp_nodup (a.br.lastP p pg)
    refine ⟨⟨?_, ?_⟩, u2⟩
    rotate_left
    · intro x hx
      have := (List.all_eq_true.mp u1) x hx
      simpa using this
    simpa using a.br.live_unacked p.tp (a.sub p.tp pt)
  · simp only [attemptOk, if_true, decide_eq_true_eq]
    have := a.chain; have := a.att
    omega

end Afkak.Producer

namespace Afkak.Producer
open Afkak.Consts Afkak.Monitor.ProducerTrace Afkak.Monitor.C01 Afkak.Monitor.C09

theorem rel_metaDoneLookups (cfg : Cfg) (st : St) (t : Track) (ls : List Lookup) (rid : Rid) (res : MetaRes)
    (h : Rel cfg st t) (hph : st.phase = .lookups ls) :
    Rel cfg (metaDoneLookups cfg st ls rid res).1
      ((shapeOf (metaDoneLookups cfg st ls rid res).2).foldl (trackOb (.metaDone rid res) false) t) := by
  simp only [metaDoneLookups]
  split
  · rename_i l hl
    obtain ⟨m1, m2⟩ := findPc_mem hl
    obtain ⟨c0, c1⟩ := metaContinue_spec cfg st l.req res
    have hstat := metaContinue_stat cfg st l.req res
    have hnt : st.nextTid ≤ (metaContinue cfg st l.req res).1.nextTid := by
      rcases c1 with ⟨_, _, e, _⟩ | ⟨_, e, _⟩ <;> rw [e]
      · exact Nat.le_succ _
      · exact Nat.le_refl _
    have hat : 0 ≤ (metaContinue cfg st l.req res).1.attempts := by
      have := h.att
      rcases c1 with ⟨_, _, _, e, _⟩ | ⟨_, _, e, _⟩ <;> rw [e] <;> omega
    have hs : Rel cfg (metaContinue cfg st l.req res).1 t := h.lookups_step hph c0 hstat.2.1 hnt hat
    have h0 : (setPc ls (.waitMeta rid) (metaContinue cfg st l.req res).2.1).all (·.pc.isDone) = true →
        shapeOf (metaContinue cfg st l.req res).2.2 = [] := by
      intro hd
      by_cases hdone : (metaContinue cfg st l.req res).2.1.isDone = true
      · exact metaContinue_shape cfg st l.req res hdone
      · rw [allDone_setPc ls _ _ l hl (by simpa using hdone)] at hd; cases hd
    obtain ⟨a1, _, a3⟩ := afterLookups_spec cfg (metaContinue cfg st l.req res).1
      (setPc ls (.waitMeta rid) (metaContinue cfg st l.req res).2.1) (metaContinue cfg st l.req res).2.2 h0
      (nofire_onlyErr (metaContinue_nofire cfg st l.req res))
    refine rel_afterL (e := .metaDone rid res) (hs.preAfter ⟨ls, by rw [c0]; exact hph⟩) a1 (afterLookups_stat cfg _ _ _) a3 ?_ ?_ ?_ ?_
    · intro x hx y hy
      rcases setPc_mem _ _ _ _ hx with hp | hp
      · rcases c1 with ⟨e1, _, e3, _⟩ | ⟨e1, _⟩
        · rw [hp, e1] at hy; injection hy with hy; rw [e3, ← hy]; exact Nat.lt_succ_self _
        · rw [hp] at hy; rw [hy] at e1; simp [LPc.isBackoff] at e1
      · exact Nat.lt_of_lt_of_le (h.bo_lt ls hph x hp y hy) hnt
    · intro hst x hx
      rw [hstat.2.1] at hst
      rcases setPc_mem _ _ _ _ hx with hp | hp
      · rcases c1 with ⟨_, e2, _⟩ | ⟨e1, _⟩
        · rw [e2] at hst; cases hst
        · rw [hp]; exact e1
      · exact h.bo_stop hst ls hph x hp
    · intro x hx y hy
      rcases setPc_mem _ _ _ _ hx with hp | hp
      · rcases c1 with ⟨e1, _⟩ | ⟨e1, _⟩
        · rw [hp, e1] at hy; injection hy with hy
          intro hc; have := h.rt_lt y hc; rw [← hy] at this; exact Nat.lt_irrefl _ this
        · rw [hp] at hy; rw [hy] at e1; simp [LPc.isBackoff] at e1
      · exact h.bo_nr ls hph x hp y hy
    · rcases c1 with ⟨_, _, _, _, e5⟩ | ⟨_, _, _, e4⟩
      · exact Or.inr ⟨rfl, _, _, e5⟩
      · exact Or.inl e4
  · simpa [shapeOf, isShape] using h

end Afkak.Producer

namespace Afkak.Producer
open Afkak.Consts Afkak.Monitor.ProducerTrace Afkak.Monitor.C01 Afkak.Monitor.C09

/-! ### the produce result arrives -/

theorem inj_of_nodup_map {α β : Type} (f : α → β) (l : List α) (h : (l.map f).Nodup) {a b : α}
    (ha : a ∈ l) (hb : b ∈ l) (hab : f a = f b) : a = b := by
  induction l with
  | nil => cases ha
  | cons x rest ih =>
    simp only [List.map_cons, List.nodup_cons] at h
    rcases List.mem_cons.mp ha with e1 | e1 <;> rcases List.mem_cons.mp hb with e2 | e2
    · rw [e1, e2]
    · exact absurd (List.mem_map_of_mem (f := f) e2) (by rw [← hab, e1]; exact h.1)
    · exact absurd (List.mem_map_of_mem (f := f) e1) (by rw [hab, e2]; exact h.1)
    · exact ih h.2 e1 e2

theorem sublist_nodup_tps (rs : List Resp) (p : Resp → Bool) (h : (rs.map (·.tp)).Nodup) :
    ((rs.filter p).map (·.tp)).Nodup :=
  List.Nodup.sublist (List.Sublist.map _ List.filter_sublist) h

/-- what a valid result reports failed: listed payloads of the attempt, each once, none of them acknowledged by it -/
theorem failedTps_facts (b : Batch) (r : ProdRes) (hv : validResult b r = true) (hsub : ∀ tp ∈ b.current, tp ∈ b.live)
    (hal : ∀ tp ∈ b.live, tp ∈ b.current) (hln : b.live.Nodup) :
    (∀ tp ∈ failedTps b.live r, tp ∈ b.current) ∧ (failedTps b.live r).Nodup ∧
    (∀ tp ∈ failedTps b.live r, tp ∉ ((respsOf r).filter (·.error = 0)).map (·.tp)) := by
  simp only [validResult, Bool.and_eq_true, List.all_eq_true, decide_eq_true_eq] at hv
  obtain ⟨hin, hnd⟩ := hv
  have uniq : ∀ (rs : List Resp), (rs.map (·.tp)).Nodup → ∀ tp ∈ (rs.filter (·.error ≠ 0)).map (·.tp),
      tp ∉ (rs.filter (·.error = 0)).map (·.tp) := by
    intro rs hn tp htp hc
    obtain ⟨x, hx, hxt⟩ := List.mem_map.mp htp
    obtain ⟨y, hy, hyt⟩ := List.mem_map.mp hc
    obtain ⟨hx1, hx2⟩ := List.mem_filter.mp hx
    obtain ⟨hy1, hy2⟩ := List.mem_filter.mp hy
    have : y = x := inj_of_nodup_map (·.tp) rs hn hy1 hx1 (by rw [hyt, hxt])
    subst this
    simp at hx2 hy2; exact hx2 hy2
  cases r with
  | none => simp [failedTps]
  | err k =>
    simp only [failedTps, respsOf, List.filter_nil, List.map_nil, List.not_mem_nil, not_false_eq_true, implies_true, and_true]
    exact ⟨hal, hln⟩
  | responses rs =>
    simp only [failedTps, respsOf, ProdRes.tps] at *
    refine ⟨?_, sublist_nodup_tps rs _ hnd, uniq rs hnd⟩
    intro tp htp
    obtain ⟨x, hx, hxt⟩ := List.mem_map.mp htp
    exact hin tp (List.mem_map.mpr ⟨x, (List.mem_filter.mp hx).1, hxt⟩)
  | failed rs fs =>
    simp only [failedTps, respsOf, ProdRes.tps] at *
    rw [List.nodup_append] at hnd
    obtain ⟨hn1, hn2, hdisj⟩ := hnd
    refine ⟨?_, ?_, ?_⟩
    · intro tp htp
      rcases List.mem_append.mp htp with htp | htp
      · exact hin tp (List.mem_append_left _ htp)
      · obtain ⟨x, hx, hxt⟩ := List.mem_map.mp htp
        exact hin tp (List.mem_append_right _ (List.mem_map.mpr ⟨x, (List.mem_filter.mp hx).1, hxt⟩))
    · rw [List.nodup_append]
      refine ⟨hn1, sublist_nodup_tps rs _ hn2, ?_⟩
      intro a ha c hc hac
      obtain ⟨x, hx, hxt⟩ := List.mem_map.mp hc
      exact hdisj a ha c (List.mem_map.mpr ⟨x, (List.mem_filter.mp hx).1, hxt⟩) hac
    · intro tp htp
      rcases List.mem_append.mp htp with htp | htp
      · intro hc
        obtain ⟨y, hy, hyt⟩ := List.mem_map.mp hc
        exact hdisj tp htp tp (List.mem_map.mpr ⟨y, (List.mem_filter.mp hy).1, hyt⟩) rfl
      · exact uniq rs hn2 tp htp

/-- a payload the result acknowledges (error 0) is not among those it reports failed - given only that the result
    names each payload at most once -/
theorem acked_not_failed (l : List TP) (r : ProdRes) (hn : r.tps.Nodup) :
    ∀ x ∈ respsOf r, x.error = 0 → x.tp ∉ failedTps l r := by
  have uniq : ∀ (rs : List Resp), (rs.map (·.tp)).Nodup → ∀ x ∈ rs, x.error = 0 →
      x.tp ∉ (rs.filter (·.error ≠ 0)).map (·.tp) := by
    intro rs hn x hx he hc
    obtain ⟨y, hy, hyt⟩ := List.mem_map.mp hc
    obtain ⟨hy1, hy2⟩ := List.mem_filter.mp hy
    have : y = x := inj_of_nodup_map (·.tp) rs hn hy1 hx hyt
    subst this
    simp at hy2; exact hy2 he
  intro x hx he
  cases r with
  | none => simp [respsOf] at hx
  | err k => simp [respsOf] at hx
  | responses rs =>
    simp only [respsOf] at hx
    simp only [failedTps]
    exact uniq rs hn x hx he
  | failed rs fs =>
    simp only [respsOf] at hx
    simp only [ProdRes.tps] at hn
    rw [List.nodup_append] at hn
    obtain ⟨_, hn2, hdisj⟩ := hn
    simp only [failedTps, List.mem_append, not_or]
    exact ⟨fun hc => hdisj x.tp hc x.tp (List.mem_map_of_mem hx) rfl, uniq rs hn2 x hx he⟩

theorem failedTps_self (l : List TP) (r : ProdRes) : failedTps l r = failedTps (failedTps l r) r := by
  cases r <;> rfl

end Afkak.Producer

namespace Afkak.Producer
open Afkak.Consts Afkak.Monitor.ProducerTrace Afkak.Monitor.C01 Afkak.Monitor.C09

/-- the summary right after an effective completion event for the request in flight -/
def completedTrack (t : Track) (ps : List Payload) (r : ProdRes) : Track :=
  { t with curRes := some r,
           ex1 := if accounts ps r then t.ex1 else batchSids t ++ t.ex1,
           ex0 := if isAcks0Shape r then t.ex0 else batchSids t ++ t.ex0,
           acked := ((respsOf r).filter (·.error = 0)).map (·.tp) ++ t.acked }

/-- the client's result for the request in flight is handled (`finish ∘ handleSendResponse`) -/
theorem rel_handled (cfg : Cfg) (s : St) (t : Track) (e : Ev) (rid : Rid) (b : Batch) (r : ProdRes)
    (h : Rel cfg s t) (hph : s.phase = .sending rid b) (hv : validResult b r = true) (hc : isCompletion e = true) :
    Rel cfg (finish cfg (handleSendResponse cfg s b r)).1
      ((shapeOf (finish cfg (handleSendResponse cfg s b r)).2).foldl (trackOb e false)
        (completedTrack t (b.payloadsFor b.current) r)) := by
  have a := h.sending rid b hph
  obtain ⟨_, hd⟩ := handleSendResponse_spec cfg s b r
  have hstat := handleSendResponse_stat cfg s b r
  generalize hres : (handleSendResponse cfg s b r).2.2 = resolved at hd
  have hfin := finish_spec cfg (handleSendResponse cfg s b r).1 (handleSendResponse cfg s b r).2.1 resolved
  have hfe : finish cfg (handleSendResponse cfg s b r) =
      finish cfg ((handleSendResponse cfg s b r).1, (handleSendResponse cfg s b r).2.1, resolved) := by rw [← hres]
  rw [hfe]
  cases hd with
  | resolved d1 d2 d3 d4 d5 =>
    obtain ⟨f1, f2⟩ := hfin.2 rfl
    rw [f1, f2, shapeOf_append, d5, List.nil_append]
    obtain ⟨c1, _, c3⟩ := completeBatch_spec cfg (handleSendResponse cfg s b r).1
    refine rel_landed c1 ⟨?_, Or.inr rfl, h.lp_nodup, ?_⟩ (Int.le_refl 0)
    · show t.stopped = _
      rw [(completeBatch_stat cfg _).2.1, hstat.2.1]; exact h.stopped
    · intro x hx; rw [c3, d4]; exact h.rt_lt x hx
  | retry d1 d2 d3 d4 d5 d6 d7 d8 =>
    rw [hfin.1 rfl]
    simp only [d8, List.foldl_cons, List.foldl_nil, trackOb, hc, if_true, completedTrack]
    obtain ⟨g1, g2, g3⟩ := failedTps_facts b r hv a.sub a.al a.br.live_nodup
    have hkl : ∀ tp, tp ∈ (b.keep (failedTps b.live r)).live ↔ tp ∈ b.live ∧ tp ∈ failedTps b.live r := by
      intro tp; simp only [Batch.keep, List.mem_filter, decide_eq_true_eq]
    refine ⟨by show t.stopped = _; rw [hstat.2.1]; exact h.stopped, ?_, ?_, ?_, h.lp_nodup, ?_, ?_, ?_, ?_, by rw [d3]; exact h.att, ?_⟩
    · intro rid' b' hp; rw [d1] at hp; cases hp
    · intro tid' b' tps' hp
      rw [d1] at hp; injection hp with e1 e2 e3; subst e1; subst e2; subst e3
      refine ⟨List.mem_cons_self, ⟨r, rfl, failedTps_self b.live r⟩,
        ⟨a.br.tps, a.br.nodup, fun tp htp => a.br.live_sub tp ((hkl tp).mp htp).1,
          List.Nodup.sublist List.filter_sublist a.br.live_nodup, ?_, a.br.lastP, a.br.prod, a.br.chain1⟩,
        by rw [d3]; exact a.chain, by rw [d3]; exact d4, fun tp htp => (hkl tp).mpr ⟨a.sub tp (g1 tp htp), htp⟩, g2,
        by rw [hstat.2.1]; exact d5, d2, fun tp htp => ((hkl tp).mp htp).2, ?_⟩
      · intro tp htp hc
        obtain ⟨l1, l2⟩ := (hkl tp).mp htp
        rcases List.mem_append.mp hc with hc | hc
        · exact g3 tp l2 hc
        · exact a.br.live_unacked tp l1 hc
      · refine ⟨rid, b.current, a.cur, fun tp htp => a.br.live_sub tp (a.sub tp htp), g1, ?_⟩
        intro k hk tp htp
        injection hk with hk; subst hk
        exact a.sub tp htp
    · intro hq; rcases hq with hq | ⟨ls, hq⟩ <;> (rw [d1] at hq; cases hq)
    · intro x hx
      rw [d7]
      rcases List.mem_cons.mp hx with hx | hx
      · rw [hx]; exact Nat.lt_succ_self _
      · exact Nat.lt_succ_of_lt (h.rt_lt x hx)
    · intro ls hp; rw [d1] at hp; cases hp
    · intro ls hp; rw [d1] at hp; cases hp
    · intro _ ls hp; rw [d1] at hp; cases hp
    · intro hp; rw [d1] at hp; cases hp

end Afkak.Producer

namespace Afkak.Producer
open Afkak.Consts Afkak.Monitor.ProducerTrace Afkak.Monitor.C01 Afkak.Monitor.C09

/-! ### the truthfulness check in a completion step -/

def Same3 (a b : Track) : Prop := a.cur = b.cur ∧ a.curRes = b.curRes ∧ a.produced = b.produced

theorem Same3.trackOb {a b : Track} (h : Same3 a b) (e : Ev) (r : Bool) (o : Ob) (ho : isProduce o = false) :
    Same3 (trackOb e r a o) b := by
  cases o <;> simp_all [Same3, Afkak.Monitor.ProducerTrace.trackOb, isProduce]

theorem fireOk_same3 (cfg : Cfg) (pre : Snap) (e : Ev) {a b : Track} (h : Same3 a b) (o : Ob) : fireOk cfg pre a e o = fireOk cfg pre b e o := by
  obtain ⟨h1, h2, h3⟩ := h
  cases o with
  | fire s out => cases out <;> simp only [fireOk, h1, h2, h3]
  | _ => rfl

theorem checkObs_onlyErr (cfg : Cfg) (pre : Snap) (e : Ev) (r : Bool) (obs : List Ob) (tt : Track) (h : onlyErr obs) :
    checkObs (fun tt o => fireOk cfg pre tt e o) e r tt obs = true := by
  induction obs generalizing tt with
  | nil => rfl
  | cons o rest ih =>
    simp only [checkObs, Bool.and_eq_true]
    refine ⟨?_, ih _ (fun s' o' hm => h s' o' (List.mem_cons_of_mem _ hm))⟩
    cases o with
    | fire sid out => obtain ⟨k, hk⟩ := h sid out List.mem_cons_self; subst hk; rfl
    | _ => rfl

theorem checkObs_fire_split (cfg : Cfg) (pre : Snap) (e : Ev) (r : Bool) (A B : List Ob) (t1 tt : Track) (hs : Same3 tt t1)
    (hA : ∀ o ∈ A, isProduce o = false) (hok : ∀ o ∈ A, fireOk cfg pre t1 e o = true) (hB : onlyErr B) :
    checkObs (fun tt o => fireOk cfg pre tt e o) e r tt (A ++ B) = true := by
  induction A generalizing tt with
  | nil => exact checkObs_onlyErr cfg pre e r B tt hB
  | cons o rest ih =>
    simp only [List.cons_append, checkObs, Bool.and_eq_true]
    refine ⟨by rw [fireOk_same3 cfg pre e hs]; exact hok o List.mem_cons_self, ?_⟩
    exact ih _ (hs.trackOb e r o (hA o List.mem_cons_self)) (fun x hx => hA x (List.mem_cons_of_mem _ hx))
      (fun x hx => hok x (List.mem_cons_of_mem _ hx))

theorem shape_noProduce {obs : List Ob} (h : shapeOf obs = [] ∨ ∃ tid d, shapeOf obs = [.setTimer tid d]) :
    ∀ o ∈ obs, isProduce o = false := by
  intro o ho
  cases o with
  | produce rid ps =>
    have : Ob.produce rid ps ∈ shapeOf obs := List.mem_filter.mpr ⟨ho, rfl⟩
    rcases h with h | ⟨tid, d, h⟩ <;> (rw [h] at this; simp at this)
  | _ => rfl

theorem sidsOf_in_payloads (b : Batch) (tp : TP) (s : Sid) (hs : s ∈ b.sidsOf tp) (htp : tp ∈ b.current) :
    (b.payloadsFor b.current).any (fun p => p.tp == tp && p.sids.contains s) = true := by
  simp only [Batch.sidsOf, List.mem_flatMap, List.mem_filter, decide_eq_true_eq] at hs
  obtain ⟨g, ⟨hg, hgt⟩, hgs⟩ := hs
  rw [List.any_eq_true]
  exact ⟨g, (mem_payloadsFor b b.current g).mpr ⟨hg, hgt ▸ htp⟩, by simp [hgt, hgs]⟩

theorem handled_noProduce (cfg : Cfg) (s : St) (b : Batch) (r : ProdRes) :
    ∀ o ∈ (handleSendResponse cfg s b r).2.1, isProduce o = false := by
  obtain ⟨_, hd⟩ := handleSendResponse_spec cfg s b r
  apply shape_noProduce
  generalize (handleSendResponse cfg s b r).2.2 = resolved at hd
  cases hd with
  | resolved _ _ _ _ d5 => exact Or.inl d5
  | retry _ _ _ _ _ _ _ d8 => exact Or.inr ⟨_, _, d8⟩

/-- the payloads of the attempt that a result reports failed are payloads of the batch, listed in `failedTps` -/
theorem failedOf_sub (b : Batch) (r : ProdRes) (hsub : ∀ tp ∈ b.current, tp ∈ b.live) :
    ∀ p ∈ failedOf (b.payloadsFor b.current) r, p ∈ b.groups ∧ p.tp ∈ failedTps b.live r := by
  intro p hp
  cases r with
  | err k =>
    obtain ⟨h1, h2⟩ := (mem_payloadsFor b b.current p).mp hp
    exact ⟨h1, hsub _ h2⟩
  | none =>
    obtain ⟨h1, h2⟩ := List.mem_filter.mp hp
    exact ⟨((mem_payloadsFor b b.current p).mp h1).1, List.contains_iff_mem.mp h2⟩
  | responses rs =>
    obtain ⟨h1, h2⟩ := List.mem_filter.mp hp
    exact ⟨((mem_payloadsFor b b.current p).mp h1).1, List.contains_iff_mem.mp h2⟩
  | failed rs fs =>
    obtain ⟨h1, h2⟩ := List.mem_filter.mp hp
    exact ⟨((mem_payloadsFor b b.current p).mp h1).1, List.contains_iff_mem.mp h2⟩

/-- what the truthfulness check reads off the bookkeeping before the step -/
def PreOk (pre : Snap) (st : St) : Prop := pre.attempts = st.attempts ∧ st.outstanding.Nodup

/-- every Deferred fired by `_handle_send_response` passes the truthfulness check at the summary
    that has just taken the result -/
theorem handled_fireOk (cfg : Cfg) (pre : Snap) (s : St) (t : Track) (e : Ev) (rid : Rid) (b : Batch) (r : ProdRes)
    (hcur : t.cur = some (rid, b.payloadsFor b.current)) (hprod : ∀ x ∈ b.allSids, x ∈ t.produced)
    (hv : validResult b r = true) (hc : completionOf e = some r)
    (hk : match e with | .produceDone k _ => (k == rid) = true | _ => True)
    (hpre : PreOk pre s) (hsub : ∀ tp ∈ b.current, tp ∈ b.live) :
    ∀ o ∈ (handleSendResponse cfg s b r).2.1, fireOk cfg pre (completedTrack t (b.payloadsFor b.current) r) e o = true := by
  obtain ⟨rf, _⟩ := handleSendResponse_spec cfg s b r
  intro o ho
  cases o with
  | fire sid out =>
    rcases rf sid out ho with ⟨resp, e1, e2, e3, e4⟩ | ⟨e1, e2, e4⟩ | ⟨k, e1⟩
    · subst e1
      have htp : resp.tp ∈ b.current := by
        simp only [validResult, Bool.and_eq_true, List.all_eq_true, decide_eq_true_eq] at hv
        apply hv.1
        cases r with
        | responses rs => simp only [respsOf] at e2; simp only [ProdRes.tps, List.mem_map]; exact ⟨_, e2, rfl⟩
        | none => simp [respsOf] at e2
        | failed rs fs =>
          simp only [respsOf] at e2
          simp only [ProdRes.tps, List.mem_append, List.mem_map]; exact Or.inr ⟨_, e2, rfl⟩
        | err k => simp [respsOf] at e2
      simp only [fireOk, hc, completedTrack, hcur, Bool.and_eq_true, beq_self_eq_true, beq_iff_eq, e3,
        List.contains_iff_mem, e2, sidsOf_in_payloads b resp.tp sid e4 htp, and_true, true_and]
      cases e with
      | produceDone k r' => simpa using hk
      | _ => trivial
    · subst e1
      have hon := handleSendResponse_okNone cfg s b r hpre.2 sid ho
      simp only [fireOk, hc, completedTrack, hcur, e2, beq_self_eq_true, Bool.true_and, Bool.and_eq_true,
        List.contains_iff_mem, Bool.or_eq_true, decide_eq_true_eq, Bool.not_eq_true', List.any_eq_false]
      refine ⟨hprod sid e4, ?_⟩
      rcases hon with (h | h) | ⟨h1, h2⟩
      · subst h; exact Or.inl rfl
      · subst h; exact Or.inl rfl
      · right
        refine ⟨by rw [hpre.1]; exact h1, ?_⟩
        intro p hp hc
        obtain ⟨g1, g2⟩ := failedOf_sub b r hsub p hp
        apply h2 p.tp g2
        simp only [Batch.sidsOf, List.mem_flatMap, List.mem_filter, decide_eq_true_eq]
        exact ⟨p, ⟨g1, rfl⟩, hc⟩
    · subst e1; rfl
  | _ => rfl

/-- the fires of `finish ∘ handleSendResponse` satisfy the truthfulness check -/
theorem acked_handled (cfg : Cfg) (pre : Snap) (s : St) (t : Track) (e : Ev) (rid : Rid) (b : Batch) (r : ProdRes)
    (hcur : t.cur = some (rid, b.payloadsFor b.current)) (hprod : ∀ x ∈ b.allSids, x ∈ t.produced)
    (hv : validResult b r = true) (hc : completionOf e = some r)
    (hk : match e with | .produceDone k _ => (k == rid) = true | _ => True)
    (hpre : PreOk pre s) (hsub : ∀ tp ∈ b.current, tp ∈ b.live) :
    checkObs (fun tt o => fireOk cfg pre tt e o) e false (completedTrack t (b.payloadsFor b.current) r)
      (finish cfg (handleSendResponse cfg s b r)).2 = true := by
  obtain ⟨tail, h1, h2⟩ := finish_onlyErr_tail cfg (handleSendResponse cfg s b r)
  rw [h1]
  exact checkObs_fire_split cfg pre e false _ tail _ _ ⟨rfl, rfl, rfl⟩ (handled_noProduce cfg s b r)
    (handled_fireOk cfg pre s t e rid b r hcur hprod hv hc hk hpre hsub) h2

end Afkak.Producer

namespace Afkak.Producer
open Afkak.Consts Afkak.Monitor.ProducerTrace Afkak.Monitor.C01 Afkak.Monitor.C09

/-! ### stop -/

theorem cancelLookup_pc (mouts : List (Rid × MetaRes)) (l : Lookup) : (cancelLookup mouts l).1.pc.isBackoff = false := by
  simp only [cancelLookup]; repeat' split
  all_goals simp_all [LPc.isBackoff]

/-- the summary after the `stop` event itself, when no produce result comes with it -/
def stoppedTrack (t : Track) : Track := { t with stopped := true }

theorem rel_stop_lookups (cfg : Cfg) (st : St) (t : Track) (e : Ev) (ls : List Lookup) (mouts : List (Rid × MetaRes))
    (h : Rel cfg st t) (hph : st.phase = .lookups ls) :
    Rel cfg (cancelLookups cfg { st with stopping := true } ls mouts).1
      ((shapeOf (cancelLookups cfg { st with stopping := true } ls mouts).2).foldl (trackOb e false) (stoppedTrack t)) := by
  simp only [cancelLookups]
  have hsh : shapeOf ((ls.map (cancelLookup mouts)).flatMap (·.2.2)) = [] := by
    rw [List.flatMap_map]; exact flatMap_shape _ _ (cancelLookup_shape mouts)
  have hnf : firedSids ((ls.map (cancelLookup mouts)).flatMap (·.2.2)) = [] := by
    rw [List.flatMap_map]; exact flatMap_nofire _ _ (cancelLookup_nofire mouts)
  obtain ⟨a1, _, a3⟩ := afterLookups_spec cfg
    { st with stopping := true, zombies := st.zombies ++ (ls.map (cancelLookup mouts)).flatMap (·.2.1) }
    ((ls.map (cancelLookup mouts)).map (·.1)) ((ls.map (cancelLookup mouts)).flatMap (·.2.2)) (fun _ => hsh) (nofire_onlyErr hnf)
  have nb : ∀ l ∈ (ls.map (cancelLookup mouts)).map (·.1), l.pc.isBackoff = false := by
    intro l hl
    simp only [List.map_map, List.mem_map, Function.comp] at hl
    obtain ⟨x, _, hx⟩ := hl
    rw [← hx]; exact cancelLookup_pc mouts x
  refine rel_afterL (e := e) (t := stoppedTrack t)
    (s := { st with stopping := true, zombies := st.zombies ++ (ls.map (cancelLookup mouts)).flatMap (·.2.1) })
    ⟨rfl, h.quiet (Or.inr ⟨ls, hph⟩), h.lp_nodup, h.rt_lt, h.att⟩ a1
    (afterLookups_stat cfg _ _ _) a3 ?_ ?_ ?_ (Or.inl hsh)
  · intro l hl tid hpc; have := nb l hl; rw [hpc] at this; simp [LPc.isBackoff] at this
  · intro _ l hl; exact nb l hl
  · intro l hl tid hpc; have := nb l hl; rw [hpc] at this; simp [LPc.isBackoff] at this

/-- setting `stopping` keeps the relation while a produce request is in flight (or nothing is) -/
theorem Rel.setStop {cfg : Cfg} {st : St} {t : Track} (h : Rel cfg st t)
    (hph : st.phase = .idle ∨ ∃ rid b, st.phase = .sending rid b) (tm : List TopicMeta) :
    Rel cfg { st with stopping := true, tmeta := tm } (stoppedTrack t) := by
  refine ⟨rfl, ?_, ?_, h.quiet, h.lp_nodup, h.rt_lt, h.bo_lt, h.bo_nr, ?_, h.att, h.idle0⟩
  · intro rid b hp
    have a := h.sending rid b hp
    exact ⟨a.cur, a.res, ⟨a.br.tps, a.br.nodup, a.br.live_sub, a.br.live_nodup, a.br.live_unacked, a.br.lastP, a.br.prod, a.br.chain1⟩, a.chain, a.sub, a.nodup, a.ne, a.al⟩
  · intro tid b tps hp
    rcases hph with hq | ⟨rid, b', hq⟩ <;> (rw [show ({ st with stopping := true, tmeta := tm } : St).phase = st.phase from rfl, hq] at hp; cases hp)
  · intro _ ls hp
    rcases hph with hq | ⟨rid, b', hq⟩ <;> (rw [show ({ st with stopping := true, tmeta := tm } : St).phase = st.phase from rfl, hq] at hp; cases hp)

theorem rel_stop_retry (cfg : Cfg) (st : St) (t : Track) (e : Ev) (tid : Tid) (b : Batch) (tps : List TP)
    (h : Rel cfg st t) (hph : st.phase = .retryWait tid b tps) :
    Rel cfg (cancelRetryWait cfg { st with stopping := true } tid b).1
      ((shapeOf (cancelRetryWait cfg { st with stopping := true } tid b).2).foldl (trackOb e false) (stoppedTrack t)) := by
  simp only [cancelRetryWait]
  obtain ⟨_, d2, d3, d4, d5, d6, d7⟩ := deliverAll_spec { st with stopping := true } b (.err .tcancelled)
  have a := h.retrying tid b tps hph
  obtain ⟨res, r1, _⟩ := a.res
  have hfin := (finish_spec cfg (deliverAll { st with stopping := true } b (.err .tcancelled)).1
    (deliverAll { st with stopping := true } b (.err .tcancelled)).2.1 true).2 rfl
  have hX : ∀ (X : St × List Ob × Bool), X.2.2 = true → finish cfg X = finish cfg (X.1, X.2.1, true) := by
    intro X hX; rw [← hX]
  have hfe := hX _ d2
  rw [hfe]
  obtain ⟨f1, f2⟩ := hfin
  rw [f1, f2]
  have : shapeOf (Ob.cancelTimer tid :: ((deliverAll { st with stopping := true } b (.err .tcancelled)).2.1 ++
      (completeBatch cfg (deliverAll { st with stopping := true } b (.err .tcancelled)).1).2)) =
      shapeOf (completeBatch cfg (deliverAll { st with stopping := true } b (.err .tcancelled)).1).2 := by
    rw [show ∀ (x : Ob) (l : List Ob), x :: l = [x] ++ l from fun _ _ => rfl, shapeOf_append, shapeOf_append, d7]
    simp [shapeOf, isShape]
  rw [this]
  obtain ⟨c1, _, c3⟩ := completeBatch_spec cfg (deliverAll { st with stopping := true } b (.err .tcancelled)).1
  refine rel_landed c1 ⟨?_, Or.inr (by show t.curRes.isSome = true; rw [r1]; rfl), h.lp_nodup, ?_⟩ (Int.le_refl 0)
  · show true = _
    rw [(completeBatch_stat cfg _).2.1, (deliverAll_stat _ b _).2.1]
  · intro x hx; rw [c3, d6]; exact h.rt_lt x hx

end Afkak.Producer

namespace Afkak.Producer
open Afkak.Consts Afkak.Monitor.ProducerTrace Afkak.Monitor.C01 Afkak.Monitor.C09

/-! ### assembling the step -/

theorem validFor_of_sending {cfg : Cfg} {st : St} {t : Track} (h : Rel cfg st t) {rid : Rid} {b : Batch}
    (hph : st.phase = .sending rid b) (r : ProdRes) : validFor (b.payloadsFor b.current) r = validResult b r := by
  have a := h.sending rid b hph
  exact validFor_eq b r a.br.nodup (fun tp htp => a.br.live_sub tp (a.sub tp htp))

/-- in a phase other than `sending` the summary does not take a produce result -/
theorem not_effective {cfg : Cfg} {st : St} {t : Track} (h : Rel cfg st t) (hns : ∀ rid b, st.phase ≠ .sending rid b) :
    t.cur = none ∨ t.curRes.isSome = true := by
  cases hp : st.phase with
  | idle => exact h.quiet (Or.inl hp)
  | lookups ls => exact h.quiet (Or.inr ⟨ls, hp⟩)
  | sending rid b => exact absurd hp (hns rid b)
  | retryWait tid b tps =>
    obtain ⟨res, r1, _⟩ := (h.retrying tid b tps hp).res
    right; rw [r1]; rfl

theorem trackEv_produceDone_off (pre : Snap) (t : Track) (rid : Rid) (r : ProdRes)
    (h : t.cur = none ∨ t.curRes.isSome = true) : trackEv pre t (.produceDone rid r) = t := by
  have he : effective t (.produceDone rid r) = false := by
    simp only [effective]
    rcases h with h | h
    · rw [h]
    · cases hc : t.curRes with
      | none => rw [hc] at h; cases h
      | some x => cases t.cur <;> rfl
  simp only [trackEv, he, Bool.false_eq_true, if_false]

theorem rel_produceDone (cfg : Cfg) (st : St) (t : Track) (pre : Snap) (rid : Rid) (res : ProdRes) (h : Rel cfg st t) :
    Rel cfg (step cfg st (.produceDone rid res)).1
      (trackCore pre t (.produceDone rid res) (shapeOf (step cfg st (.produceDone rid res)).2)) ∧
    (PreOk pre st → successAckedStep cfg pre t (mkStep cfg st (.produceDone rid res)) = true) := by
  simp only [trackCore, isRetryStep, mkStep, step]
  cases hph : st.phase with
  | sending r b =>
    have a := h.sending r b hph
    have hvf := validFor_of_sending h hph res
    simp only
    by_cases hc : (r = rid && validResult b res) = true
    · rw [if_pos hc]
      simp only [Bool.and_eq_true, decide_eq_true_eq] at hc
      obtain ⟨hr, hv⟩ := hc
      subst hr
      have hte : trackEv pre t (.produceDone r res) = completedTrack t (b.payloadsFor b.current) res := by
        simp only [trackEv, effective, completionOf, a.cur, a.res, hvf, hv, beq_self_eq_true, Bool.and_self, if_true,
          completedTrack]
      rw [hte]
      refine ⟨rel_handled cfg st t _ r b res h hph hv rfl, ?_⟩
      intro hpre
      simp only [successAckedStep, Bool.and_eq_true]
      refine ⟨?_, ?_⟩
      · rw [List.all_eq_true]; intro o _; cases o with
        | fire s out => cases out <;> simp [a.res]
        | _ => rfl
      · rw [hte]
        exact acked_handled cfg pre st t _ r b res a.cur a.br.prod hv rfl (by simp) hpre a.sub
    · rw [if_neg hc]
      have hte : trackEv pre t (.produceDone rid res) = t := by
        simp only [trackEv, effective, completionOf, a.cur, a.res, hvf]
        have : (rid == r && validResult b res) = false := by
          rw [Bool.eq_false_iff]; intro hx; apply hc
          simp only [Bool.and_eq_true, beq_iff_eq, decide_eq_true_eq] at hx ⊢
          exact ⟨hx.1.symm, hx.2⟩
        simp [this]
      rw [hte]
      refine ⟨by simpa [shapeOf, isShape] using h.same (st' := st) rfl rfl rfl (Nat.le_refl _) rfl, ?_⟩
      exact fun _ => acked_onlyErr cfg pre t _ (fun s o hm => by simp at hm)
  | idle =>
    have hte := trackEv_produceDone_off pre t rid res (not_effective h (fun _ _ hc => by rw [hph] at hc; cases hc))
    rw [hte]
    exact ⟨by simpa [shapeOf, isShape] using h, fun _ => acked_onlyErr cfg pre t _ (fun s o hm => by simp at hm)⟩
  | lookups ls =>
    have hte := trackEv_produceDone_off pre t rid res (not_effective h (fun _ _ hc => by rw [hph] at hc; cases hc))
    rw [hte]
    exact ⟨by simpa [shapeOf, isShape] using h, fun _ => acked_onlyErr cfg pre t _ (fun s o hm => by simp at hm)⟩
  | retryWait tid b tps =>
    have hte := trackEv_produceDone_off pre t rid res (not_effective h (fun _ _ hc => by rw [hph] at hc; cases hc))
    rw [hte]
    exact ⟨by simpa [shapeOf, isShape] using h, fun _ => acked_onlyErr cfg pre t _ (fun s o hm => by simp at hm)⟩

end Afkak.Producer

namespace Afkak.Producer
open Afkak.Consts Afkak.Monitor.ProducerTrace Afkak.Monitor.C01 Afkak.Monitor.C09

theorem trackEv_stop_quiet (pre : Snap) (t : Track) (w : Bool) (pout : Option ProdRes) (m : List (Rid × MetaRes))
    (h : t.cur = none ∨ t.curRes.isSome = true) : trackEv pre t (.stop w pout m) = stoppedTrack t := by
  have he : effective t (.stop w pout m) = true := by
    cases pout with
    | none => rfl
    | some r =>
      simp only [effective]
      rcases h with h | h
      · rw [h]
      · cases hc : t.curRes with
        | none => rw [hc] at h; cases h
        | some x => cases t.cur <;> rfl
  simp only [trackEv, he, if_true, stoppedTrack]
  rcases h with h | h
  · simp [h]
  · cases hc : t.curRes with
    | none => rw [hc] at h; cases h
    | some x => cases completionOf (.stop w pout m) <;> cases t.cur <;> rfl

theorem shapeOf_cons_nonshape (o : Ob) (l : List Ob) (h : isShape o = false) : shapeOf (o :: l) = shapeOf l := by
  simp [shapeOf, List.filter_cons, h]

/-- the tail of `stop()`: the LoopingCall and `_cancel_outstanding` do not move the phase -/
theorem rel_stop_tail (cfg : Cfg) (st2 : St) (t2 : Track) (h : Rel cfg st2 t2) :
    let st3 : St := if cfg.everyT.isSome && st2.looper then { st2 with looper := false } else st2
    Rel cfg (cancelAll st3 st3.outstanding).1 t2 ∧ shapeOf (cancelAll st3 st3.outstanding).2 = [] := by
  intro st3
  obtain ⟨_, c2, c3, c4, c5, c6⟩ := cancelAll_spec st3 st3.outstanding
  have h3 : Rel cfg st3 t2 := by
    simp only [st3]; split
    · exact h.same rfl rfl rfl (Nat.le_refl _) rfl
    · exact h
  exact ⟨h3.same c3 (cancelAll_stat _ _).2.1 c4 (by rw [c6]; exact Nat.le_refl _) c5, c2⟩

theorem doStop_shape (cfg : Cfg) (st : St) (wipe : Bool) (pout : Option ProdRes) (mouts : List (Rid × MetaRes)) :
    shapeOf (doStop cfg st wipe pout mouts).2 = shapeOf (cancelBatch cfg { st with stopping := true } wipe pout mouts).2 := by
  simp only [doStop]
  split
  · rw [shapeOf_append, shapeOf_append, (cancelAll_spec _ _).2.1]; simp [shapeOf, isShape]
  · rw [shapeOf_append, shapeOf_append, (cancelAll_spec _ _).2.1]; simp [shapeOf]

theorem rel_doStop (cfg : Cfg) (st : St) (t1 : Track) (wipe : Bool) (pout : Option ProdRes) (mouts : List (Rid × MetaRes))
    (e : Ev) (h : Rel cfg (cancelBatch cfg { st with stopping := true } wipe pout mouts).1
      ((shapeOf (cancelBatch cfg { st with stopping := true } wipe pout mouts).2).foldl (trackOb e false) t1)) :
    Rel cfg (doStop cfg st wipe pout mouts).1 ((shapeOf (doStop cfg st wipe pout mouts).2).foldl (trackOb e false) t1) := by
  rw [doStop_shape]
  have := (rel_stop_tail cfg _ _ h).1
  simp only [doStop]
  split <;> rename_i hl <;> simp only [hl, if_true, if_false, Bool.false_eq_true] at this <;> exact this

end Afkak.Producer

namespace Afkak.Producer
open Afkak.Consts Afkak.Monitor.ProducerTrace Afkak.Monitor.C01 Afkak.Monitor.C09

theorem doStop_obs (cfg : Cfg) (st : St) (wipe : Bool) (pout : Option ProdRes) (mouts : List (Rid × MetaRes)) :
    ∃ tail, (doStop cfg st wipe pout mouts).2 = (cancelBatch cfg { st with stopping := true } wipe pout mouts).2 ++ tail ∧
      onlyErr tail := by
  simp only [doStop]
  split
  · refine ⟨_, List.append_assoc _ _ _, onlyErr_append (fun s o hm => by simp at hm) (cancelAll_spec _ _).1⟩
  · refine ⟨_, List.append_assoc _ _ _, onlyErr_append onlyErr_nil (cancelAll_spec _ _).1⟩

theorem cancelBatch_idle (cfg : Cfg) (s : St) (w : Bool) (p : Option ProdRes) (m : List (Rid × MetaRes))
    (hph : s.phase = .idle) : cancelBatch cfg s w p m = (s, []) := by simp only [cancelBatch, hph]
theorem cancelBatch_lookups (cfg : Cfg) (s : St) (w : Bool) (p : Option ProdRes) (m : List (Rid × MetaRes))
    (ls : List Lookup) (hph : s.phase = .lookups ls) : cancelBatch cfg s w p m = cancelLookups cfg s ls m := by
  simp only [cancelBatch, hph]
theorem cancelBatch_sending (cfg : Cfg) (s : St) (w : Bool) (p : Option ProdRes) (m : List (Rid × MetaRes))
    (rid : Rid) (b : Batch) (hph : s.phase = .sending rid b) : cancelBatch cfg s w p m = cancelSending cfg s w rid b p := by
  simp only [cancelBatch, hph]
theorem cancelBatch_retry (cfg : Cfg) (s : St) (w : Bool) (p : Option ProdRes) (m : List (Rid × MetaRes))
    (tid : Tid) (b : Batch) (tps : List TP) (hph : s.phase = .retryWait tid b tps) :
    cancelBatch cfg s w p m = cancelRetryWait cfg s tid b := by
  simp only [cancelBatch, hph]

theorem step_stop_valid (cfg : Cfg) (st : St) (wipe : Bool) (pout : Option ProdRes) (mouts : List (Rid × MetaRes))
    (hv : stopValid st pout = true) : step cfg st (.stop wipe pout mouts) = doStop cfg st wipe pout mouts := by
  simp [step, hv]

/-- `stop` in a phase where the summary holds no unanswered request -/
theorem rel_stop_quiet (cfg : Cfg) (st : St) (t : Track) (pre : Snap) (wipe : Bool) (pout : Option ProdRes)
    (mouts : List (Rid × MetaRes)) (hq : t.cur = none ∨ t.curRes.isSome = true) (hv : stopValid st pout = true)
    (hr : Rel cfg (cancelBatch cfg { st with stopping := true } wipe pout mouts).1
      ((shapeOf (cancelBatch cfg { st with stopping := true } wipe pout mouts).2).foldl
        (trackOb (.stop wipe pout mouts) false) (stoppedTrack t)))
    (ho : onlyErr (cancelBatch cfg { st with stopping := true } wipe pout mouts).2) :
    Rel cfg (step cfg st (.stop wipe pout mouts)).1
      (trackCore pre t (.stop wipe pout mouts) (shapeOf (step cfg st (.stop wipe pout mouts)).2)) ∧
    (PreOk pre st → successAckedStep cfg pre t (mkStep cfg st (.stop wipe pout mouts)) = true) := by
  simp only [trackCore, isRetryStep, mkStep, step_stop_valid cfg st wipe pout mouts hv,
    trackEv_stop_quiet pre t wipe pout mouts hq]
  refine ⟨rel_doStop cfg st _ wipe pout mouts _ hr, fun _ => acked_onlyErr cfg pre t _ ?_⟩
  obtain ⟨tail, e1, e2⟩ := doStop_obs cfg st wipe pout mouts
  show onlyErr (doStop cfg st wipe pout mouts).2
  rw [e1]; exact onlyErr_append ho e2

theorem rel_stop (cfg : Cfg) (st : St) (t : Track) (pre : Snap) (wipe : Bool) (pout : Option ProdRes)
    (mouts : List (Rid × MetaRes)) (h : Rel cfg st t) :
    Rel cfg (step cfg st (.stop wipe pout mouts)).1
      (trackCore pre t (.stop wipe pout mouts) (shapeOf (step cfg st (.stop wipe pout mouts)).2)) ∧
    (PreOk pre st → successAckedStep cfg pre t (mkStep cfg st (.stop wipe pout mouts)) = true) := by
  cases hph : st.phase with
  | idle =>
    have hv : stopValid st pout = true := by simp [stopValid, hph]
    refine rel_stop_quiet cfg st t pre wipe pout mouts (h.quiet (Or.inl hph)) hv ?_ ?_
    · rw [cancelBatch_idle cfg { st with stopping := true } wipe pout mouts hph]
      exact h.setStop (Or.inl hph) st.tmeta
    · rw [cancelBatch_idle cfg { st with stopping := true } wipe pout mouts hph]; exact onlyErr_nil
  | lookups ls =>
    have hv : stopValid st pout = true := by simp [stopValid, hph]
    refine rel_stop_quiet cfg st t pre wipe pout mouts (h.quiet (Or.inr ⟨ls, hph⟩)) hv ?_ ?_
    · rw [cancelBatch_lookups cfg { st with stopping := true } wipe pout mouts ls hph]
      exact rel_stop_lookups cfg st t _ ls mouts h hph
    · rw [cancelBatch_lookups cfg { st with stopping := true } wipe pout mouts ls hph]
      exact cancelLookups_onlyErr cfg _ ls mouts
  | retryWait tid b tps =>
    have hv : stopValid st pout = true := by simp [stopValid, hph]
    obtain ⟨res, r1, _⟩ := (h.retrying tid b tps hph).res
    refine rel_stop_quiet cfg st t pre wipe pout mouts (Or.inr (by rw [r1]; rfl)) hv ?_ ?_
    · rw [cancelBatch_retry cfg { st with stopping := true } wipe pout mouts tid b tps hph]
      exact rel_stop_retry cfg st t _ tid b tps h hph
    · rw [cancelBatch_retry cfg { st with stopping := true } wipe pout mouts tid b tps hph]
      simp only [cancelRetryWait]
      obtain ⟨tail, h1, h2⟩ := finish_onlyErr_tail cfg (deliverAll { st with stopping := true } b (.err .tcancelled))
      intro s o hm
      rcases List.mem_cons.mp hm with hm | hm
      · cases hm
      · rw [h1] at hm
        rcases List.mem_append.mp hm with hm | hm
        · exact ⟨_, ((deliverAll_spec _ b _).1 s o hm).1⟩
        · exact h2 s o hm
  | sending rid b =>
    have a := h.sending rid b hph
    have hvf := fun r => validFor_of_sending h hph r
    cases pout with
    | none =>
      have hv : stopValid st none = true := by simp [stopValid, hph]
      have hte : trackEv pre t (.stop wipe none mouts) = stoppedTrack t := by
        simp [trackEv, effective, completionOf, stoppedTrack]
      simp only [trackCore, isRetryStep, mkStep, step_stop_valid cfg st wipe none mouts hv, hte]
      have hr : Rel cfg (cancelBatch cfg { st with stopping := true } wipe none mouts).1
          ((shapeOf (cancelBatch cfg { st with stopping := true } wipe none mouts).2).foldl
            (trackOb (.stop wipe none mouts) false) (stoppedTrack t)) := by
        rw [cancelBatch_sending cfg { st with stopping := true } wipe none mouts rid b hph]
        simp only [cancelSending, shapeOf, List.filter_cons, isShape, List.filter_nil, List.foldl_nil]
        exact h.setStop (Or.inr ⟨rid, b, hph⟩) st.tmeta
      refine ⟨rel_doStop cfg st _ wipe none mouts _ hr, fun _ => acked_onlyErr cfg pre t _ ?_⟩
      obtain ⟨tail, e1, e2⟩ := doStop_obs cfg st wipe none mouts
      show onlyErr (doStop cfg st wipe none mouts).2
      rw [e1]
      refine onlyErr_append ?_ e2
      rw [cancelBatch_sending cfg { st with stopping := true } wipe none mouts rid b hph]
      simp only [cancelSending]; intro s o hm; simp at hm
    | some r =>
      by_cases hv : validResult b r = true
      · have hsv : stopValid st (some r) = true := by simp [stopValid, hph, hv]
        have hte : trackEv pre t (.stop wipe (some r) mouts) =
            completedTrack (stoppedTrack t) (b.payloadsFor b.current) r := by
          simp only [trackEv, effective, completionOf, a.cur, a.res, hvf, hv, if_true, completedTrack, stoppedTrack]
        simp only [trackCore, isRetryStep, mkStep, step_stop_valid cfg st wipe (some r) mouts hsv, hte]
        have hcb : (cancelBatch cfg { st with stopping := true } wipe (some r) mouts) =
            ((finish cfg (handleSendResponse cfg { st with stopping := true, tmeta := if wipe then [] else st.tmeta } b r)).1,
             Ob.cancelReq rid :: (finish cfg (handleSendResponse cfg { st with stopping := true, tmeta := if wipe then [] else st.tmeta } b r)).2) := by
          rw [cancelBatch_sending cfg { st with stopping := true } wipe (some r) mouts rid b hph]
          simp only [cancelSending]
          cases wipe <;> rfl
        have hr : Rel cfg (cancelBatch cfg { st with stopping := true } wipe (some r) mouts).1
            ((shapeOf (cancelBatch cfg { st with stopping := true } wipe (some r) mouts).2).foldl
              (trackOb (.stop wipe (some r) mouts) false) (completedTrack (stoppedTrack t) (b.payloadsFor b.current) r)) := by
          rw [hcb, shapeOf_cons_nonshape _ _ rfl]
          exact rel_handled cfg _ (stoppedTrack t) _ rid b r (h.setStop (Or.inr ⟨rid, b, hph⟩) _) hph hv rfl
        refine ⟨rel_doStop cfg st _ wipe (some r) mouts _ hr, ?_⟩
        intro hpre
        simp only [successAckedStep, Bool.and_eq_true]
        refine ⟨?_, ?_⟩
        · rw [List.all_eq_true]; intro o _; cases o with
          | fire s out => cases out <;> simp [a.res]
          | _ => rfl
        · rw [hte]
          obtain ⟨tail, e1, e2⟩ := doStop_obs cfg st wipe (some r) mouts
          obtain ⟨tail2, g1, g2⟩ := finish_onlyErr_tail cfg
            (handleSendResponse cfg { st with stopping := true, tmeta := if wipe then [] else st.tmeta } b r)
          show checkObs _ _ _ _ (doStop cfg st wipe (some r) mouts).2 = true
          rw [e1, hcb]
          show checkObs _ _ _ _ ((Ob.cancelReq rid :: (finish cfg _).2) ++ tail) = true
          rw [g1, List.cons_append, List.append_assoc]
          refine checkObs_fire_split cfg pre _ false
            (Ob.cancelReq rid :: (handleSendResponse cfg { st with stopping := true, tmeta := if wipe then [] else st.tmeta } b r).2.1)
            (tail2 ++ tail) _ _ ⟨rfl, rfl, rfl⟩ ?_ ?_ (onlyErr_append g2 e2)
          · intro o ho
            rcases List.mem_cons.mp ho with ho | ho
            · rw [ho]; rfl
            · exact handled_noProduce cfg _ b r o ho
          · intro o ho
            rcases List.mem_cons.mp ho with ho | ho
            · rw [ho]; rfl
            · exact handled_fireOk cfg pre { st with stopping := true, tmeta := if wipe then [] else st.tmeta } (stoppedTrack t) (.stop wipe (some r) mouts) rid b r a.cur a.br.prod hv rfl trivial
                hpre a.sub o ho
      · have hsv : stopValid st (some r) = false := by simp [stopValid, hph, hv]
        have hte : trackEv pre t (.stop wipe (some r) mouts) = t := by
          have hvv : validResult b r = false := by simpa using hv
          simp only [trackEv, effective, completionOf, a.cur, a.res, hvf, hvv, Bool.false_eq_true, if_false]
        have hstep : step cfg st (.stop wipe (some r) mouts) = (st, [Ob.badOp]) := by simp [step, hsv]
        simp only [trackCore, isRetryStep, mkStep, hstep, hte]
        exact ⟨by simpa [shapeOf, isShape] using h, fun _ => acked_onlyErr cfg pre t _ (fun s o hm => by simp at hm)⟩

end Afkak.Producer

namespace Afkak.Producer
open Afkak.Consts Afkak.Monitor.ProducerTrace Afkak.Monitor.C01 Afkak.Monitor.C09

theorem step_onlyErr (cfg : Cfg) (st : St) (e : Ev)
    (he : match e with | .produceDone .. => False | .stop .. => False | _ => True) : onlyErr (step cfg st e).2 := by
  intro s o hm
  rcases step_fires_ok cfg st e s o hm with hk | ⟨rid, b, r, _, h2, _⟩
  · exact hk
  · rcases h2 with h2 | ⟨w, m, h2⟩ <;> (subst h2; cases he)

theorem rel_timer (cfg : Cfg) (st : St) (t : Track) (pre : Snap) (tid : Tid) (h : Rel cfg st t) :
    Rel cfg (step cfg st (.timer tid)).1 (trackCore pre t (.timer tid) (shapeOf (step cfg st (.timer tid)).2)) ∧
    retryStep pre t (mkStep cfg st (.timer tid)) = true ∧ attemptStep cfg pre t (mkStep cfg st (.timer tid)) = true := by
  have hte : trackEv pre t (.timer tid) = t := trackEv_plain pre t (.timer tid) trivial
  have zomb : ∀ (hne : ∀ b tps, st.phase ≠ .retryWait tid b tps) (hs : step cfg st (.timer tid) = zombieTimer st tid),
      Rel cfg (step cfg st (.timer tid)).1 (trackCore pre t (.timer tid) (shapeOf (step cfg st (.timer tid)).2)) ∧
      retryStep pre t (mkStep cfg st (.timer tid)) = true ∧ attemptStep cfg pre t (mkStep cfg st (.timer tid)) = true := by
    intro hne hs
    obtain ⟨z1, z2, z3, z4, z5, z6⟩ := zombieTimer_same st tid
    simp only [trackCore, mkStep, hs, hte, z6, List.foldl_nil, retryStep, attemptStep]
    refine ⟨Rel.dropTid (h.same z1 z2 z3 (by rw [z4]; exact Nat.le_refl _) z5) tid ?_, ?_, ?_⟩
    · intro b tps hc; rw [z1] at hc; exact hne b tps hc
    · exact checkObs_nil_shape _ (retryOk_inv _) (retryOk_triv _) _ _ _ _ z6
    · exact checkObs_nil_shape _ (attemptOk_inv cfg _) (attemptOk_triv cfg _) _ _ _ _ z6
  cases hph : st.phase with
  | idle => exact zomb (fun b tps hc => by rw [hph] at hc; cases hc) (by simp [step, hph])
  | sending rid b => exact zomb (fun b' tps hc => by rw [hph] at hc; cases hc) (by simp [step, hph])
  | lookups ls =>
    have hs : step cfg st (.timer tid) = timerLookups cfg st ls tid := by simp [step, hph]
    have hr := rel_timerLookups cfg st t ls tid h hph
    simp only [trackCore, mkStep, hs, hte]
    refine ⟨hr, ?_⟩
    -- not a retry step (a pending back-off timer is no retry timer), or no observation of note
    by_cases hx : isRetryStep t (.timer tid) = true
    · have hz : timerLookups cfg st ls tid = zombieTimer st tid := by
        simp only [timerLookups]
        cases hf : findPc ls (.waitBackoff tid) with
        | none => rfl
        | some l =>
          obtain ⟨m1, m2⟩ := findPc_mem hf
          have := h.bo_nr ls hph l m1 tid m2
          simp [isRetryStep] at hx
          exact absurd hx this
      have z6 := (zombieTimer_same st tid).2.2.2.2.2
      simp only [retryStep, attemptStep, hz]
      exact ⟨checkObs_nil_shape _ (retryOk_inv _) (retryOk_triv _) _ _ _ _ z6,
        checkObs_nil_shape _ (attemptOk_inv cfg _) (attemptOk_triv cfg _) _ _ _ _ z6⟩
    · exact nonretry_checks cfg pre t _ (by simpa using hx)
  | retryWait t' b tps =>
    by_cases htid : t' = tid
    · subst htid
      have hs : step cfg st (.timer t') = doRetry st b tps := by simp [step, hph]
      obtain ⟨r1, r2, r3, r4⟩ := rel_retry cfg st t t' b tps h hph
      have hsh : shapeOf (doRetry st b tps).2 = [.produce st.nextRid (b.payloadsFor tps)] := by
        simp [doRetry, shapeOf, isShape]
      simp only [trackCore, mkStep, hs, hte, hsh, r1, List.foldl_cons, List.foldl_nil, retryStep, attemptStep]
      refine ⟨r2, ?_, ?_⟩
      · rw [checkObs_produce_shape _ (retryOk_inv _) (retryOk_triv _) _ _ _ _ _ _ hsh]; exact r3
      · rw [checkObs_produce_shape _ (attemptOk_inv cfg _) (attemptOk_triv cfg _) _ _ _ _ _ _ hsh]; exact r4
    · exact zomb (fun b' tps' hc => by rw [hph] at hc; injection hc with hc; exact htid hc)
        (by simp [step, hph, htid])

/-- The relation is preserved by every step, and the step passes the three per-step checks. -/
theorem rel_step (cfg : Cfg) (st : St) (t : Track) (pre : Snap) (e : Ev) (h : Rel cfg st t) :
    Rel cfg (step cfg st e).1 (track pre t (mkStep cfg st e)) ∧
    (PreOk pre st → successAckedStep cfg pre t (mkStep cfg st e) = true) ∧
    retryStep pre t (mkStep cfg st e) = true ∧ attemptStep cfg pre t (mkStep cfg st e) = true := by
  have core : ∀ (hr : Rel cfg (step cfg st e).1 (trackCore pre t e (shapeOf (step cfg st e).2))),
      Rel cfg (step cfg st e).1 (track pre t (mkStep cfg st e)) := fun hr => rel_via_core (s := mkStep cfg st e) hr
  cases e with
  | send sid topic key msgs =>
    exact ⟨core (rel_send cfg st t pre sid topic key msgs h), fun _ => acked_onlyErr cfg pre t _ (step_onlyErr cfg st _ trivial),
      nonretry_checks cfg pre t _ rfl⟩
  | cancel sid =>
    exact ⟨core (rel_cancel cfg st t pre sid h), fun _ => acked_onlyErr cfg pre t _ (step_onlyErr cfg st _ trivial),
      nonretry_checks cfg pre t _ rfl⟩
  | tick =>
    exact ⟨core (rel_tick cfg st t pre h), fun _ => acked_onlyErr cfg pre t _ (step_onlyErr cfg st _ trivial),
      nonretry_checks cfg pre t _ rfl⟩
  | timer tid =>
    obtain ⟨r1, r2, r3⟩ := rel_timer cfg st t pre tid h
    exact ⟨core r1, fun _ => acked_onlyErr cfg pre t _ (step_onlyErr cfg st _ trivial), r2, r3⟩
  | advance dt =>
    exact ⟨core (rel_quiet_events cfg st t pre _ h trivial), fun _ => acked_onlyErr cfg pre t _ (step_onlyErr cfg st _ trivial),
      nonretry_checks cfg pre t _ rfl⟩
  | metaSet topic err parts =>
    exact ⟨core (rel_quiet_events cfg st t pre _ h trivial), fun _ => acked_onlyErr cfg pre t _ (step_onlyErr cfg st _ trivial),
      nonretry_checks cfg pre t _ rfl⟩
  | metaReset topics =>
    exact ⟨core (rel_quiet_events cfg st t pre _ h trivial), fun _ => acked_onlyErr cfg pre t _ (step_onlyErr cfg st _ trivial),
      nonretry_checks cfg pre t _ rfl⟩
  | metaWipe =>
    exact ⟨core (rel_quiet_events cfg st t pre _ h trivial), fun _ => acked_onlyErr cfg pre t _ (step_onlyErr cfg st _ trivial),
      nonretry_checks cfg pre t _ rfl⟩
  | metaDone rid res =>
    refine ⟨core ?_, fun _ => acked_onlyErr cfg pre t _ (step_onlyErr cfg st _ trivial), nonretry_checks cfg pre t _ rfl⟩
    simp only [trackCore, isRetryStep, step, trackEv_plain pre t (.metaDone rid res) trivial]
    cases hph : st.phase with
    | lookups ls => exact rel_metaDoneLookups cfg st t ls rid res h hph
    | idle => simpa [shapeOf, isShape] using h
    | sending r b => simpa [shapeOf, isShape] using h
    | retryWait t' b tps => simpa [shapeOf, isShape] using h
  | produceDone rid res =>
    obtain ⟨r1, r2⟩ := rel_produceDone cfg st t pre rid res h
    exact ⟨core r1, r2, nonretry_checks cfg pre t _ rfl⟩
  | stop wipe pout mouts =>
    obtain ⟨r1, r2⟩ := rel_stop cfg st t pre wipe pout mouts h
    exact ⟨core r1, r2, nonretry_checks cfg pre t _ rfl⟩

theorem rel_init (cfg : Cfg) : Rel cfg (St.init cfg) {} := by
  refine ⟨rfl, ?_, ?_, fun _ => Or.inl rfl, by simp, by simp, ?_, ?_, ?_, Int.le_refl 0, fun _ => ⟨rfl, rfl⟩⟩
  · intro rid b hp; cases hp
  · intro tid b tps hp; cases hp
  · intro ls hp; cases hp
  · intro ls hp; cases hp
  · intro _ ls hp; cases hp

/-- per-step checks along the whole model trace -/
theorem checks_from (cfg : Cfg) (evs : List Ev) (st : St) (t : Track) (h : Rel cfg st t) (ho : OnceInv st t) :
    checkFrom (successAckedStep cfg) (snapOf st) t (traceFrom cfg st evs) = true ∧
    checkFrom retryStep (snapOf st) t (traceFrom cfg st evs) = true ∧
    checkFrom (attemptStep cfg) (snapOf st) t (traceFrom cfg st evs) = true := by
  induction evs generalizing st t with
  | nil => exact ⟨rfl, rfl, rfl⟩
  | cons e rest ih =>
    obtain ⟨r1, r2, r3, r4⟩ := rel_step cfg st t (snapOf st) e h
    obtain ⟨i1, i2, i3⟩ := ih (step cfg st e).1 _ r1 (once_step cfg st t (snapOf st) e ho).2
    simp only [traceFrom, checkFrom, Bool.and_eq_true]
    exact ⟨⟨r2 ⟨rfl, ho.nodup⟩, i1⟩, ⟨r3, i2⟩, ⟨r4, i3⟩⟩

theorem successAcked_model (cfg : Cfg) (evs : List Ev) : successAcked cfg (traceOf cfg evs) = true :=
  (checks_from cfg evs _ _ (rel_init cfg) (once_init cfg)).1

theorem retryOnlyFailed_model (cfg : Cfg) (evs : List Ev) : retryOnlyFailed cfg (traceOf cfg evs) = true :=
  (checks_from cfg evs _ _ (rel_init cfg) (once_init cfg)).2.1

theorem attemptBound_model (cfg : Cfg) (evs : List Ev) : attemptBound cfg (traceOf cfg evs) = true :=
  (checks_from cfg evs _ _ (rel_init cfg) (once_init cfg)).2.2

end Afkak.Producer
