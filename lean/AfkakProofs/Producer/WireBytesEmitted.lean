import AfkakProofs.Producer.WireBytes
import AfkakProofs.Wire.Sound
/-! No side condition: whatever `_encode_message_set` WRITES is inside the grammar.  The wire package proves
"grammar-valid ⇒ written, and the bytes are the grammar's encoding"; here the converse for message sets: if the
encoder returned bytes at all (no `struct.error`), the entries are grammar-valid, so the bytes decode.  With it the
hypothesis `hvalid` of `WireBytes.payload_bytes_decode` becomes "the encoder returned". -/
namespace Afkak.Producer.WireBytes
open Afkak Afkak.Producer Afkak.Wire Afkak.Codec Afkak.Consts Afkak.Monitor.C04 Afkak.Producer.WireCompose

set_option synthInstance.maxSize 100000

/-- `write_int_string` succeeds only on what the grammar's nullable BYTES can carry -/
theorem writeIntString_valid {s : Option Bytes} {x : Bytes} (h : writeIntString s = .ok x) :
    nullableBytes.valid s = true := by
  cases s with
  | none =>
    simp only [writeIntString, fmt_write_int_string_0, writeIntNull] at h
    have hok := ((pack_eq _ _ _).mp h).1
    simp only [fieldsOk, fieldSpec, and_true] at hok
    exact (intFitsB_iff _ _).mpr ((fits4 _).mp hok)
  | some s =>
    simp only [writeIntString, fmt_write_int_string_1] at h
    split at h
    · cases h
    · rename_i l hl
      have hok := ((pack_eq _ _ _).mp hl).1
      simp only [fieldsOk, fieldSpec, and_true] at hok
      exact (intFitsB_iff _ _).mpr ((fits4 _).mp hok)

theorem uint8_valid_of {a : Int} (h : fieldInRange 1 false a = true) : uint8.valid a.toNat = true := by
  have := (attrs_nat h).2
  exact decide_eq_true (by simpa using this)

/-- **an emitted message is grammar-valid** -/
theorem message_valid_of_encode (ext : Ext) (m : Message) (sm : Spec.Msg) (bytes : Bytes)
    (h : encodeMessage ext m = .ok bytes) (hs : specMsg ext.nowMs m = some sm) :
    (Spec.message ext.crc).valid sm = true := by
  rw [message_valid, msgBody_valid]
  unfold specMsg at hs
  split at hs
  · cases hs
  · unfold encodeMessage at h
    by_cases h0 : m.magic = 0
    · rw [if_pos h0] at h hs
      cases hs
      split at h
      · rename_i hb k v hhb hk hv
        simp only [fmt_encode_message_0] at hhb
        have hok := ((pack_eq _ _ _).mp hhb).1
        simp only [fieldsOk, fieldSpec, and_true] at hok
        simp only [Bool.true_and, Bool.and_eq_true, msgRest0_valid]
        exact ⟨by decide, rfl, uint8_valid_of hok.2, writeIntString_valid hk, writeIntString_valid hv⟩
      · cases h
      · cases h
      · cases h
    · rw [if_neg h0] at h hs
      by_cases h1 : m.magic = 1
      · rw [if_pos h1] at h hs
        cases hs
        simp only [Bool.true_and, Bool.and_eq_true, msgRest1_valid]
        cases hts : m.timestamp with
        | none =>
          simp only [hts] at h
          split at h
          · rename_i hb k v hhb hk hv
            simp only [fmt_encode_message_2] at hhb
            have hok := ((pack_eq _ _ _).mp hhb).1
            simp only [fieldsOk, fieldSpec, and_true] at hok
            exact ⟨by decide, rfl, uint8_valid_of hok.2.1, (intFitsB_iff _ _).mpr ((fits8 _).mp hok.2.2),
              writeIntString_valid hk, writeIntString_valid hv⟩
          · cases h
          · cases h
          · cases h
        | some ts =>
          simp only [hts] at h
          split at h
          · rename_i hb k v hhb hk hv
            simp only [fmt_encode_message_3] at hhb
            have hok := ((pack_eq _ _ _).mp hhb).1
            simp only [fieldsOk, fieldSpec, and_true] at hok
            exact ⟨by decide, rfl, uint8_valid_of hok.2.1, (intFitsB_iff _ _).mpr ((fits8 _).mp hok.2.2),
              writeIntString_valid hk, writeIntString_valid hv⟩
          · cases h
          · cases h
          · cases h
      · rw [if_neg h1] at hs
        cases hs

/-- **an emitted message set (the producer's: every offset 0) is grammar-valid** -/
theorem msgset_valid_of_encode (ext : Ext) (magic : Int) :
    ∀ (ms : List Message) (entries : List (Int × Spec.Msg)) (body : Bytes) (offset : Int), offset = 0 →
      encodeMessageSetLoop ext magic msgSetIncrNoOffset offset ms = .ok body →
      specEntries ext.nowMs ms = some entries → (Spec.messageSet ext.crc).valid entries = true := by
  intro ms
  induction ms with
  | nil =>
    intro entries body offset _ h hs
    simp only [specEntries, List.mapM_nil] at hs
    cases hs
    rfl
  | cons m ms ih =>
    intro entries body offset ho h hs
    subst ho
    unfold specEntries at hs
    obtain ⟨b, bs, hb, hbs, rfl⟩ := mapM_cons_some _ m ms entries hs
    cases hsm : specMsg ext.nowMs m with
    | none => simp [hsm] at hb
    | some sm =>
      simp only [hsm, Option.map_some, Option.some.injEq] at hb
      subst hb
      unfold encodeMessageSetLoop at h
      split at h
      · cases h
      · split at h
        · cases h
        · rename_i enc henc
          split at h
          · cases h
          · rename_i hdr hhdr
            split at h
            · cases h
            · rename_i rest hrest
              have hz : (0 : Int) + msgSetIncrNoOffset = 0 := by decide
              have r := ih bs rest ((0 : Int) + msgSetIncrNoOffset) hz hrest hbs
              simp only [fmt_encode_message_set_0] at hhdr
              have hok := ((pack_eq _ _ _).mp hhdr).1
              simp only [fieldsOk, fieldSpec, and_true] at hok
              have hmv := message_valid_of_encode ext m sm enc henc hsm
              have hlen : intFitsB 4 (((Spec.message ext.crc).enc sm).length : Int) = true := by
                rw [← message_bytes ext m sm enc henc hsm]
                exact (intFitsB_iff _ _).mpr ((fits4 _).mp hok.2)
              have hentry : (Spec.entry ext.crc).valid (0, sm) = true := by
                show (int64.valid 0 && ((Spec.message ext.crc).valid sm && intFitsB 4 _)) = true
                rw [hmv, hlen]
                decide
              have hne : ((Spec.entry ext.crc).enc (0, sm)).isEmpty = false := by
                cases hx : (Spec.entry ext.crc).enc (0, sm) with
                | nil => exact absurd hx (Spec.entry_enc_ne_nil ext.crc (0, sm))
                | cons _ _ => rfl
              have r' : bs.all (fun a => (Spec.entry ext.crc).valid a && !((Spec.entry ext.crc).enc a).isEmpty) = true := r
              show ((0, sm) :: bs).all (fun a => (Spec.entry ext.crc).valid a && !((Spec.entry ext.crc).enc a).isEmpty) = true
              rw [List.all_cons, hentry, hne, r']
              rfl

/-- **Uncompressed payload, down to the bytes, no side condition.**  For EVERY payload `p` made of the sends `rs`,
    every externals, `body` and message format `magic ∈ {0, 1}`: `create_message_set` returns the message set `ms`
    of `createMessageSet_none`, and WHENEVER `_encode_message_set(ms, magic=magic)` returns bytes (it raises
    `struct.error` only when a size or the clock does not fit its field), those bytes parse under the grammar's
    message-set decoder to exactly one entry per message of the payload, in order, with the message's key and value.
    The encoder never writes bytes that a broker would read as other messages. -/
theorem payload_bytes_decode_emitted (ext : Ext) (body : Nat → Bytes) (magic : Int) (hm : magic = 0 ∨ magic = 1)
    (rs : List Req) (p : Payload) (hp : p.msgs = rs.flatMap (·.wire)) :
    ∃ ms, createMessageSet ext (rs.map (sendArg body)) codecNone magic = .ok ms
      ∧ ∀ bytes, encodeMessageSet ext ms none magic = .ok bytes →
        ∃ entries, (Spec.messageSet ext.crc).dec bytes = some entries
          ∧ entries = p.msgs.map (brokerEntry ext.nowMs body magic)
          ∧ entries.map (fun e => (e.2.key, e.2.value)) = p.msgs.map (kv body) := by
  refine ⟨_, createMessageSet_none ext body magic rs p hp, ?_⟩
  intro bytes hbytes
  have hse := specEntries_wire ext body magic p.msgs
  have hvalid := msgset_valid_of_encode ext magic _ _ bytes 0 rfl hbytes hse
  have heq := msgset_bytes ext magic hm _ _ bytes 0 rfl hbytes hse
  refine ⟨_, ?_, rfl, brokerEntry_kv _ _ _ _⟩
  rw [heq]
  exact (Spec.messageSet ext.crc).law _ hvalid

/-- **Gzip payload, down to the bytes, no size condition.**  WHENEVER `create_message_set(reqs, CODEC_GZIP, magic)`
    returns for the sends of a payload `p` (so `_encode_message_set` of the inner messages and the compressor both
    returned), and the decompressor undoes the compressor (`hinv`; both are externals): the returned set is ONE
    wrapper whose value `gz` decompresses to bytes that parse under the grammar's message-set decoder to exactly
    one entry per message of the payload, in order, with the message's key and value; and WHENEVER
    `_encode_message_set` of the returned set returns bytes, they parse under the grammar to that one wrapper entry
    (offset 0, format `magic`, gzip codec in the attributes, null key, value `gz`, checksum verified). -/
theorem payload_bytes_decode_gzip_emitted (ext : Ext) (body : Nat → Bytes) (magic : Int) (hm : magic = 0 ∨ magic = 1)
    (rs : List Req) (p : Payload) (hp : p.msgs = rs.flatMap (·.wire)) (ms : List Message)
    (h : createMessageSet ext (rs.map (sendArg body)) codecGzip magic = .ok ms)
    (hinv : ∀ b z, ext.gzip b = .ok z → ext.gunzip (some z) = .ok b) :
    ∃ gz inner entries,
      ext.gunzip (some gz) = .ok inner
      ∧ (Spec.messageSet ext.crc).dec inner = some entries
      ∧ entries = p.msgs.map (brokerEntry ext.nowMs body magic)
      ∧ entries.map (fun e => (e.2.key, e.2.value)) = p.msgs.map (kv body)
      ∧ (∀ bytes, encodeMessageSet ext ms none magic = .ok bytes →
            (Spec.messageSet ext.crc).dec bytes = some [wrapperEntry ext.nowMs magic gz]) := by
  have hvalid : (Spec.messageSet ext.crc).valid (p.msgs.map (brokerEntry ext.nowMs body magic)) = true := by
    have h' := h
    rw [WireCompose.createMessageSet_gzip ext body magic rs p hp] at h'
    cases henc : encodeMessageSet ext (p.msgs.map (wireMsg ext body magic)) with
    | error e => simp [createGzipMessage, henc] at h'
    | ok enc => exact msgset_valid_of_encode ext 0 _ _ enc 0 rfl henc (specEntries_wire ext body magic p.msgs)
  obtain ⟨w, gz, rfl, ha, hk, hv, hmg, hts, hgz⟩ := Afkak.Wire.createMessageSet_gzip ext _ magic ms h
  rw [plainEntries_sendArg, ← hp] at hgz
  refine ⟨gz, _, _, hinv _ _ hgz, (Spec.messageSet ext.crc).law _ hvalid, rfl, brokerEntry_kv _ _ _ _, ?_⟩
  intro bytes hbytes
  have hse : specEntries ext.nowMs [w] = some [wrapperEntry ext.nowMs magic gz] := by
    obtain ⟨wm, wa, wk, wv, wt⟩ := w
    simp only at ha hk hv hmg hts
    subst ha hk hv hmg hts
    rcases hm with rfl | rfl <;> rfl
  have houter := msgset_valid_of_encode ext magic _ _ bytes 0 rfl hbytes hse
  have heq := msgset_bytes ext magic hm _ _ bytes 0 rfl hbytes hse
  rw [heq]
  exact (Spec.messageSet ext.crc).law _ houter

end Afkak.Producer.WireBytes
