import AfkakProofs.Producer.Fires
import AfkakProofs.Producer.Static
import Afkak.Monitor.C01
/-! C01: a send's Deferred fires at most once — the monitor holds on every model trace. -/
namespace Afkak.Producer
open Afkak.Consts Afkak.Monitor.ProducerTrace Afkak.Monitor.C01

theorem trackEv_fired (pre : Snap) (t : Track) (e : Ev) : (trackEv pre t e).fired = t.fired := by
  simp only [trackEv]
  repeat' split
  all_goals rfl

theorem foldl_trackOb_fired (e : Ev) (retry : Bool) (obs : List Ob) (t : Track) (x : Sid) :
    x ∈ (obs.foldl (trackOb e retry) t).fired ↔ x ∈ firedSids obs ∨ x ∈ t.fired := by
  induction obs generalizing t with
  | nil => simp [firedSids]
  | cons o rest ih =>
    rw [List.foldl_cons, ih]
    cases o <;> simp [trackOb, firedSids] <;> grind

theorem track_fired (pre : Snap) (t : Track) (s : Step) (x : Sid) :
    x ∈ (track pre t s).fired ↔ x ∈ firedSids s.obs ∨ x ∈ t.fired := by
  have h : (track pre t s).fired = (s.obs.foldl (trackOb s.ev (isRetryStep t s.ev)) (trackEv pre t s.ev)).fired := by
    simp only [track]
    repeat' split
    all_goals rfl
  rw [h, foldl_trackOb_fired, trackEv_fired]

/-- what at-most-once needs of the state and the monitor's summary -/
structure OnceInv (st : St) (t : Track) : Prop where
  nodup : st.outstanding.Nodup
  lt : ∀ s ∈ st.outstanding, s < st.nextSid
  fired : ∀ s ∈ t.fired, s < st.nextSid ∧ s ∉ st.outstanding

theorem outPlus_spec (st : St) (e : Ev) (h : OnceInv st t) :
    (outPlus st e).Nodup ∧ (∀ s ∈ outPlus st e, s < (step cfg st e).1.nextSid) ∧
    (∀ s ∈ t.fired, s ∉ outPlus st e) ∧ st.nextSid ≤ (step cfg st e).1.nextSid := by
  have hns := step_nextSid cfg st e
  have same : ∀ (e : Ev), outPlus st e = st.outstanding → (step cfg st e).1.nextSid = st.nextSid →
      (outPlus st e).Nodup ∧ (∀ s ∈ outPlus st e, s < (step cfg st e).1.nextSid) ∧
      (∀ s ∈ t.fired, s ∉ outPlus st e) ∧ st.nextSid ≤ (step cfg st e).1.nextSid := by
    intro e h1 h2
    rw [h1, h2]
    exact ⟨h.nodup, h.lt, fun s hs' => (h.fired s hs').2, Nat.le_refl _⟩
  cases e with
  | send sid topic key msgs =>
    by_cases hs : sid = st.nextSid
    · have hns' : (step cfg st (.send sid topic key msgs)).1.nextSid = st.nextSid + 1 := by
        rw [hns]; simp [hs]
      have ho : outPlus st (.send sid topic key msgs) = st.outstanding ++ [st.nextSid] := by
        simp [outPlus, hs]
      rw [ho, hns']
      refine ⟨?_, ?_, ?_, Nat.le_succ _⟩
      · rw [List.nodup_append]
        refine ⟨h.nodup, by simp, ?_⟩
        intro a ha b hb hab
        simp at hb; subst hb; subst hab
        exact absurd (h.lt _ ha) (Nat.lt_irrefl _)
      · intro s hs'
        rcases List.mem_append.mp hs' with h1 | h1
        · exact Nat.lt_succ_of_lt (h.lt s h1)
        · simp at h1; subst h1; exact Nat.lt_succ_self _
      · intro s hs' hc
        rcases List.mem_append.mp hc with h1 | h1
        · exact (h.fired s hs').2 h1
        · simp at h1; subst h1; exact absurd (h.fired _ hs').1 (Nat.lt_irrefl _)
    · apply same
      · simp [outPlus, hs]
      · rw [hns]; simp [hs]
  | cancel sid => exact same _ rfl hns
  | tick => exact same _ rfl hns
  | timer tid => exact same _ rfl hns
  | advance dt => exact same _ rfl hns
  | metaSet topic err parts => exact same _ rfl hns
  | metaReset topics => exact same _ rfl hns
  | metaWipe => exact same _ rfl hns
  | metaDone rid res => exact same _ rfl hns
  | produceDone rid res => exact same _ rfl hns
  | stop wipe pout mouts => exact same _ rfl hns

theorem once_step (cfg : Cfg) (st : St) (t : Track) (pre : Snap) (e : Ev) (h : OnceInv st t) :
    atMostOnceStep pre t { ev := e, obs := (step cfg st e).2, post := snapOf (step cfg st e).1 } = true ∧
    OnceInv (step cfg st e).1 (track pre t { ev := e, obs := (step cfg st e).2, post := snapOf (step cfg st e).1 }) := by
  have fd := step_fd cfg st e
  obtain ⟨hn, hlt, hf, hmono⟩ := outPlus_spec (cfg := cfg) st e h
  constructor
  · simp only [atMostOnceStep, Bool.and_eq_true, decide_eq_true_eq, List.all_eq_true]
    refine ⟨fd.fnodup hn, ?_⟩
    intro x hx hc
    exact hf x hc (fd.fin x hx)
  · constructor
    · exact fd.nodup hn
    · intro s hs; exact hlt s (fd.sub s hs)
    · intro s hs
      rw [track_fired] at hs
      rcases hs with hs | hs
      · exact ⟨hlt s (fd.fin s hs), fd.fout hn s hs⟩
      · refine ⟨Nat.lt_of_lt_of_le (h.fired s hs).1 hmono, ?_⟩
        intro hc; exact hf s hs (fd.sub s hc)

theorem once_from (cfg : Cfg) (evs : List Ev) (st : St) (t : Track) (pre : Snap) (h : OnceInv st t) :
    checkFrom atMostOnceStep pre t (traceFrom cfg st evs) = true := by
  induction evs generalizing st t pre with
  | nil => rfl
  | cons e rest ih =>
    simp only [traceFrom, checkFrom, Bool.and_eq_true]
    obtain ⟨h1, h2⟩ := once_step cfg st t pre e h
    exact ⟨h1, ih _ _ _ h2⟩

theorem once_init (cfg : Cfg) : OnceInv (St.init cfg) {} := by
  constructor <;> simp [St.init]

theorem atMostOnce_model (cfg : Cfg) (evs : List Ev) : atMostOnce cfg (traceOf cfg evs) = true :=
  once_from cfg evs _ _ _ (once_init cfg)

end Afkak.Producer
