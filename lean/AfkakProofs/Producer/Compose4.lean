import AfkakProofs.Producer.Compose3
import AfkakProofs.Producer.Compose
import AfkakProofs.Producer.AfterStop
/-! Producer × KafkaClient, the product machine: "FIRES EXACTLY ONCE" end to end.  The environment hypothesis
`Accounted` of the Producer-level theorem (every result of the client accounts for every payload of the request) is
DISCHARGED for the answers the client model computes: it follows from what the brokers do (`callAccounts`: each
answers exactly the partitions it was asked). -/
namespace Afkak.ProducerCompose
open Afkak.Producer Afkak.Monitor.ProducerTrace
open Afkak.ClientCache (Cache Broker route assemble BrokerResult RouteErr get? resolveAll groupByNode AnswersAsked)

/-- the two definitions of the client's result (this file's model and `AfkakProofs/Producer/Compose.lean`) coincide -/
theorem clientResult_eq_compose (nm : Topic → String) (keys : List TP) (results : List (List Nat × BrokerResult ErrKind)) :
    clientResult nm keys results = Afkak.Producer.Compose.clientResult nm keys results := rfl

theorem map_fst_zip_of_length_eq {α β} : ∀ (l : List α) (m : List β), m.length = l.length → (l.zip m).map (·.1) = l
  | [], _, _ => by simp
  | _ :: _, [], h => by simp at h
  | a :: l, b :: m, h => by
    simp only [List.zip_cons_cons, List.map_cons, List.cons.injEq, true_and]
    exact map_fst_zip_of_length_eq l m (by simpa using h)

/-- the requests of `route` cover every payload index, and only payload indices -/
theorem route_cover (c : Cache) (ks : List CTP) (gs : List (Int × List Nat)) (h : route c ks none = .ok gs) :
    (∀ i, i < ks.length → i ∈ gs.flatMap (·.2)) ∧ (∀ i ∈ gs.flatMap (·.2), i < ks.length) := by
  constructor
  · simp only [route] at h
    cases hr : resolveAll c 0 ks with
    | error e => simp [hr, Except.map] at h
    | ok r =>
      simp only [hr, Except.map, Except.ok.injEq] at h
      subst h
      obtain ⟨hidx, _⟩ := Afkak.ClientCache.resolveAll_spec c ks 0 r hr
      have hidx' : r.map (·.2) = List.range ks.length := by simpa using hidx
      exact (Afkak.ClientCache.groupByNode_partition r ks.length hidx').2
  · intro i hi
    obtain ⟨⟨n, idxs⟩, hm, hin⟩ := List.mem_flatMap.mp hi
    obtain ⟨hlt, _⟩ := routed_to_leader c ks gs h n idxs hm i hin
    exact hlt

theorem callAccounts_hyp (nm : Topic → String) (c : Cache) (keys : List TP) (outs : Outcomes)
    (gs : List (Int × List Nat)) (hgs : route c (keys.map (key nm)) none = .ok gs)
    (h : callAccounts nm c keys outs = true) :
    outs.length = gs.length ∧
    Afkak.Producer.Compose.Hyp nm keys ((brokerRequests gs outs).map (fun x => (x.1.2, x.2))) := by
  simp only [callAccounts, Bool.and_eq_true, decide_eq_true_eq] at h
  obtain ⟨⟨hok, hnd⟩, hrest⟩ := h
  rw [hgs] at hrest
  simp only [Bool.and_eq_true, decide_eq_true_eq, List.all_eq_true] at hrest
  obtain ⟨hlen, hall⟩ := hrest
  refine ⟨hlen, ?_⟩
  have hok' := hok
  simp only [callOK, Bool.and_eq_true] at hok'
  have hoa : outcomesOnlyAsked (keys.map (key nm)) (brokerRequests gs outs) = true := by
    have := hok'.2; rw [hgs] at this; exact this
  have hidx : ((brokerRequests gs outs).map (fun x => (x.1.2, x.2))).flatMap (·.1) = gs.flatMap (·.2) := by
    have h1 : ((brokerRequests gs outs).map (fun x => (x.1.2, x.2))).flatMap (·.1) =
        ((brokerRequests gs outs).map (·.1)).flatMap (·.2) := by
      simp [List.flatMap_map]
    rw [h1, brokerRequests, map_fst_zip_of_length_eq gs outs hlen]
  obtain ⟨hpart, _⟩ := route_partition c _ gs hgs
  obtain ⟨hcov, hbound⟩ := route_cover c _ gs hgs
  refine ⟨namesDistinct_spec hok'.1, hnd, by rw [hidx]; exact hpart, ?_, ?_, ?_⟩
  · intro i hi; rw [hidx]; exact hcov i (by simpa using hi)
  · intro i hi; rw [hidx] at hi; simpa using hbound i hi
  · intro idxs rs hm
    obtain ⟨⟨⟨n, idxs'⟩, res⟩, hz, heq⟩ := List.mem_map.mp hm
    simp only [Prod.mk.injEq] at heq
    obtain ⟨rfl, rfl⟩ := heq
    constructor
    · intro r hr
      simp only [outcomesOnlyAsked, List.all_eq_true] at hoa
      have := hoa _ hz
      simp only [onlyAsked, List.all_eq_true, List.any_eq_true, beq_iff_eq] at this
      exact this r hr
    · intro i hi k hk
      have := hall _ hz
      simp only [answersAll, List.all_eq_true] at this
      have := this i hi
      have hk' : (keys.map (key nm))[i]? = some k := hk
      rw [hk'] at this
      simp only [List.any_eq_true, beq_iff_eq] at this
      exact this

/-- the computed answer accounts for every payload of the request -/
theorem sendProduce_accounts (nm : Topic → String) (c : Cache) (b : Batch) (outs : Outcomes) (r : ProdRes)
    (hacc : callAccounts nm c b.current outs = true) (h : sendProduce nm c b.current outs = some r) :
    accounts (b.payloadsFor b.current) r = true := by
  unfold sendProduce at h
  split at h
  · injection h with h; subst h; rfl
  · injection h with h; subst h; rfl
  · cases h
  · rename_i gs hgs
    split at h
    · injection h with h; subst h
      obtain ⟨_, hyp⟩ := callAccounts_hyp nm c b.current outs gs hgs hacc
      rw [clientResult_eq_compose]
      exact Afkak.Producer.Compose.compose_accounts hyp b rfl
    · cases h

/-- the environment's part of a composed run: raw events account (`AccOK`, as at the Producer level), composed calls
    meet `callAccounts` -/
def AccountedC (cfg : Cfg) (nm : Topic → String) : St → List CEv → Prop
  | _, [] => True
  | st, ce :: es =>
    (match ce with
     | .ev e => AccOK true cfg st e
     | .clientDone _ c outs => ∀ rid b, st.phase = .sending rid b → callAccounts nm c b.current outs = true
     | .stopC _ c (some outs) _ => ∀ rid b, st.phase = .sending rid b → callAccounts nm c b.current outs = true
     | .stopC _ _ none _ => True) ∧
    AccountedC cfg nm (stepC cfg nm st ce).1 es

theorem noOp_accOK (cfg : Cfg) (st : St) : AccOK true cfg st (noOp st) := by
  intro rid b r _ hc _ _
  simp [noOp, completionOf] at hc

theorem accountedC_accounted (cfg : Cfg) (nm : Topic → String) : ∀ (st : St) (ces : List CEv),
    AccountedC cfg nm st ces → Accounted cfg st (flatten cfg nm st ces)
  | _, [], _ => trivial
  | st, ce :: es, h => by
    obtain ⟨h1, h2⟩ := h
    refine ⟨?_, accountedC_accounted cfg nm _ es h2⟩
    cases ce with
    | ev e =>
      simp only [toEv]
      split
      · exact h1
      · exact noOp_accOK cfg st
    | clientDone rid' c outs =>
      simp only [toEv]
      split
      · rename_i r0 b hph
        cases hsp : sendProduce nm c b.current outs with
        | none => exact noOp_accOK cfg st
        | some r =>
          simp only
          intro rid b' r' hph' hc _ _
          rw [hph] at hph'; injection hph' with e1 e2; subst e2
          simp only [completionOf, Option.some.injEq] at hc; subst hc
          simp only [if_true]
          exact sendProduce_accounts nm c b outs r (h1 r0 b hph) hsp
      · exact noOp_accOK cfg st
    | stopC wipe c outs mouts =>
      simp only [toEv]
      split
      · rename_i r0 b o hph
        cases hsp : sendProduce nm c b.current o with
        | none => exact noOp_accOK cfg st
        | some r =>
          simp only
          intro rid b' r' hph' hc _ _
          rw [hph] at hph'; injection hph' with e1 e2; subst e2
          simp only [completionOf, Option.some.injEq] at hc; subst hc
          simp only [if_true]
          exact sendProduce_accounts nm c b o r (h1 r0 b hph) hsp
      · intro rid b r _ hc _ _
        simp [completionOf] at hc

end Afkak.ProducerCompose
