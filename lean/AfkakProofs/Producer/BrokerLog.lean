import Afkak.Monitor.C09Log
/-! The abstract broker log of a Producer trace (`Afkak/Monitor/C09Log.lean`): order and duplicates, derived for ANY
trace on which the monitors `order`, `oneBatch`, `retryOnlyFailed` (C09) and `payloads` (C01) hold - a pure
trace-level argument (no model state): what the summary `Track` remembers is enough. -/
namespace Afkak.Producer.BrokerLog
open Afkak.Producer Afkak.Monitor.ProducerTrace Afkak.Monitor.C09 Afkak.Monitor.C01 Afkak.Monitor.C09Log

/-- the same payload again (a retry), or only later sends -/
def R (a b : List Sid) : Prop := a = b ∨ ∀ x ∈ a, ∀ y ∈ b, x < y

theorem R.refl' (a : List Sid) : R a a := Or.inl rfl

theorem R.trans' {a b c : List Sid} (h1 : R a b) (h2 : R b c) (hb : b ≠ []) : R a c := by
  rcases h1 with h1 | h1
  · subst h1; exact h2
  · rcases h2 with h2 | h2
    · subst h2; exact Or.inr h1
    · right
      intro x hx y hy
      obtain ⟨m, hm⟩ := List.exists_mem_of_ne_nil b hb
      exact Nat.lt_trans (h1 x hx m hm) (h2 m hm y hy)

/-! ### what the monitors say about one produce observation -/

theorem orderOk_spec (t : Track) (rid : Rid) (ps : List Payload) (h : orderOk t (.produce rid ps) = true) :
    (payloadSids ps).Nodup ∧ ∀ p ∈ ps, increasing p.sids = true ∧ ∀ old ∈ t.lastP, old.1 = p.tp → R old.2 p.sids := by
  simp only [orderOk, Bool.and_eq_true, decide_eq_true_eq, List.all_eq_true, List.mem_filter, beq_iff_eq,
    Bool.or_eq_true, and_imp] at h
  refine ⟨h.1, fun p hp => ⟨(h.2 p hp).1, fun old ho he => ?_⟩⟩
  rcases (h.2 p hp).2 old ho he with h1 | h1
  · exact Or.inl h1
  · exact Or.inr h1

/-- the part of `payloadOk` that does not depend on the summary -/
def shapeOk : Ob → Bool
  | .produce _ ps => decide (ps.map (·.tp)).Nodup && ps.all (fun p => !p.sids.isEmpty)
  | _ => true

theorem payloadOk_shape (t : Track) (o : Ob) (h : payloadOk t o = true) : shapeOk o = true := by
  cases o with
  | produce rid ps =>
    simp only [payloadOk, Bool.and_eq_true, decide_eq_true_eq, List.all_eq_true] at h
    simp only [shapeOk, Bool.and_eq_true, decide_eq_true_eq, List.all_eq_true]
    exact ⟨h.1.2, fun p hp => (h.2 p hp).1.1⟩
  | _ => rfl

theorem shapeOk_spec (rid : Rid) (ps : List Payload) (h : shapeOk (.produce rid ps) = true) :
    (ps.map (·.tp)).Nodup ∧ ∀ p ∈ ps, p.sids ≠ [] := by
  simp only [shapeOk, Bool.and_eq_true, decide_eq_true_eq, List.all_eq_true, Bool.not_eq_true',
    List.isEmpty_eq_false_iff] at h
  exact h

theorem failedTps_sub (r : ProdRes) (hne : ∀ k, r ≠ .err k) : ∀ tp ∈ failedTps [] r, tp ∈ r.tps := by
  intro tp h
  cases r with
  | responses rs =>
    simp only [failedTps, List.mem_map, List.mem_filter] at h
    obtain ⟨x, ⟨hx, _⟩, rfl⟩ := h
    exact List.mem_map_of_mem hx
  | none => simp [failedTps] at h
  | failed rs fs =>
    simp only [failedTps, List.mem_append, List.mem_map, List.mem_filter] at h
    simp only [ProdRes.tps, List.mem_append, List.mem_map]
    rcases h with ⟨x, hx, rfl⟩ | ⟨x, ⟨hx, _⟩, rfl⟩
    · exact Or.inl ⟨x, hx, rfl⟩
    · exact Or.inr ⟨x, hx, rfl⟩
  | err k => exact absurd rfl (hne k)

/-! ### payloads with disjoint sends -/

theorem share_eq : ∀ (ps : List Payload), (payloadSids ps).Nodup → ∀ p ∈ ps, ∀ q ∈ ps, ∀ s, s ∈ p.sids → s ∈ q.sids → p = q
  | [], _, p, hp, _, _, _, _, _ => by cases hp
  | a :: rest, h, p, hp, q, hq, s, hsp, hsq => by
    simp only [payloadSids, List.flatMap_cons, List.nodup_append] at h
    rcases List.mem_cons.mp hp with rfl | hp' <;> rcases List.mem_cons.mp hq with rfl | hq'
    · rfl
    · exact absurd rfl (h.2.2 s hsp s (List.mem_flatMap.mpr ⟨q, hq', hsq⟩))
    · exact absurd rfl (h.2.2 s hsq s (List.mem_flatMap.mpr ⟨p, hp', hsp⟩))
    · exact share_eq rest h.2.1 p hp' q hq' s hsp hsq

theorem disjoint_pairwise : ∀ (ps : List Payload), (payloadSids ps).Nodup →
    ps.Pairwise (fun p q => ∀ s ∈ p.sids, s ∉ q.sids)
  | [], _ => List.Pairwise.nil
  | p :: rest, h => by
    simp only [payloadSids, List.flatMap_cons, List.nodup_append] at h
    refine List.Pairwise.cons ?_ (disjoint_pairwise rest h.2.1)
    intro q hq s hs hsq
    exact h.2.2 s hs s (List.mem_flatMap.mpr ⟨q, hq, hsq⟩) rfl

/-! ### the fields of the summary the log depends on -/

structure V where
  lastP : List (TP × List Sid)
  cur : Option (Rid × List Payload)
  curRes : Option ProdRes
  acked : List TP
  produced : List Sid

def view (t : Track) : V := ⟨t.lastP, t.cur, t.curRes, t.acked, t.produced⟩

structure LInv (v : V) (L : List Entry) : Prop where
  lp_nodup : (v.lastP.map (·.1)).Nodup
  lp_ne : ∀ e ∈ v.lastP, e.2 ≠ []
  cur_lp : ∀ rid ps, v.cur = some (rid, ps) → ∀ p ∈ ps, (p.tp, p.sids) ∈ v.lastP
  cur_nd : ∀ rid ps, v.cur = some (rid, ps) → (payloadSids ps).Nodup
  cur_tps : ∀ rid ps, v.cur = some (rid, ps) → (ps.map (·.tp)).Nodup
  cur_inc : ∀ rid ps, v.cur = some (rid, ps) → ∀ p ∈ ps, increasing p.sids = true
  cur_prod : ∀ rid ps, v.cur = some (rid, ps) → ∀ s ∈ payloadSids ps, s ∈ v.produced
  cur_unacked : ∀ rid ps, v.cur = some (rid, ps) → v.curRes = none → ∀ p ∈ ps, p.tp ∉ v.acked
  res_valid : ∀ rid ps res, v.cur = some (rid, ps) → v.curRes = some res → ∀ tp ∈ res.tps, tp ∈ ps.map (·.tp)
  ent : ∀ E ∈ L, E.sids ≠ [] ∧ increasing E.sids = true ∧ ∃ e ∈ v.lastP, e.1 = E.tp ∧ R E.sids e.2
  pw : L.Pairwise (fun E1 E2 => E1.tp = E2.tp → R E1.sids E2.sids)
  gone : ∀ E ∈ L, E.acked = true → ∀ s ∈ E.sids, s ∈ v.produced ∧
    ∀ e ∈ v.lastP, s ∈ e.2 → e.1 ∈ v.acked ∨ ∀ rid ps, v.cur = some (rid, ps) → e.1 ∉ ps.map (·.tp)
  dup : L.Pairwise (fun E1 E2 => E1.acked = true → ∀ s ∈ E1.sids, s ∉ E2.sids)

theorem linv_init : LInv (view {}) [] := by
  constructor <;> simp [view]

/-- the entry of `lastP` for a topic/partition is unique -/
theorem lp_unique {lastP : List (TP × List Sid)} (hn : (lastP.map (·.1)).Nodup) {a b : TP × List Sid}
    (ha : a ∈ lastP) (hb : b ∈ lastP) (h : a.1 = b.1) : a = b := by
  induction lastP with
  | nil => cases ha
  | cons x rest ih =>
    simp only [List.map_cons, List.nodup_cons] at hn
    rcases List.mem_cons.mp ha with rfl | ha' <;> rcases List.mem_cons.mp hb with rfl | hb'
    · rfl
    · exact absurd (h ▸ List.mem_map_of_mem (f := (·.1)) hb') hn.1
    · exact absurd (h ▸ List.mem_map_of_mem (f := (·.1)) ha') hn.1
    · exact ih hn.2 ha' hb'

theorem mem_entries {applied : Rid → TP → Bool} {rid : Rid} {ps : List Payload} {ans : Option ProdRes} {E : Entry}
    (h : E ∈ entries applied rid ps ans) : ∃ p ∈ ps, E = ⟨p.tp, p.sids, p.msgs, acks ans p.tp⟩ := by
  simp only [entries, List.mem_map, List.mem_filter] at h
  obtain ⟨p, ⟨hp, _⟩, rfl⟩ := h
  exact ⟨p, hp, rfl⟩

/-- appending what the brokers made of the request in flight (answered with `ans`, or never answered): everything
    about the log that does not involve `acked` / `curRes` of the summary -/
theorem append_entries (applied : Rid → TP → Bool) (v : V) (L : List Entry) (rid : Rid) (ps : List Payload)
    (ans : Option ProdRes) (h : LInv v L) (hc : v.cur = some (rid, ps)) (hr : v.curRes = none) :
    (∀ E ∈ L ++ entries applied rid ps ans,
        E.sids ≠ [] ∧ increasing E.sids = true ∧ ∃ e ∈ v.lastP, e.1 = E.tp ∧ R E.sids e.2) ∧
    (L ++ entries applied rid ps ans).Pairwise (fun E1 E2 => E1.tp = E2.tp → R E1.sids E2.sids) ∧
    (L ++ entries applied rid ps ans).Pairwise (fun E1 E2 => E1.acked = true → ∀ s ∈ E1.sids, s ∉ E2.sids) := by
  have hnew : ∀ E ∈ entries applied rid ps ans, ∃ p ∈ ps, E = ⟨p.tp, p.sids, p.msgs, acks ans p.tp⟩ :=
    fun E hE => mem_entries hE
  refine ⟨?_, ?_, ?_⟩
  · intro E hE
    rcases List.mem_append.mp hE with hE | hE
    · exact h.ent E hE
    · obtain ⟨p, hp, rfl⟩ := hnew E hE
      have hl := h.cur_lp rid ps hc p hp
      exact ⟨h.lp_ne _ hl, h.cur_inc rid ps hc p hp, (p.tp, p.sids), hl, rfl, R.refl' _⟩
  · rw [List.pairwise_append]
    refine ⟨h.pw, ?_, ?_⟩
    · -- new entries: distinct topic/partitions
      have : (ps.map (·.tp)).Nodup := h.cur_tps rid ps hc
      rw [List.Nodup, List.pairwise_map] at this
      simp only [entries, List.pairwise_map]
      refine (this.filter _).imp ?_
      intro a b hab he
      exact absurd he hab
    · intro E1 h1 E2 h2 he
      obtain ⟨p, hp, rfl⟩ := hnew E2 h2
      obtain ⟨_, _, e, hel, he1, hR⟩ := h.ent E1 h1
      have hl := h.cur_lp rid ps hc p hp
      have : e = (p.tp, p.sids) := lp_unique h.lp_nodup hel hl (by rw [he1]; exact he)
      subst this
      exact hR
  · rw [List.pairwise_append]
    refine ⟨h.dup, ?_, ?_⟩
    · have := disjoint_pairwise ps (h.cur_nd rid ps hc)
      simp only [entries, List.pairwise_map]
      refine (this.filter _).imp ?_
      intro a b hab _
      exact hab
    · intro E1 h1 E2 h2 ha s hs hs2
      obtain ⟨p, hp, rfl⟩ := hnew E2 h2
      have hl := h.cur_lp rid ps hc p hp
      rcases (h.gone E1 h1 ha s hs).2 _ hl hs2 with hk | hk
      · exact h.cur_unacked rid ps hc hr p hp hk
      · exact hk rid ps hc (List.mem_map_of_mem hp)

/-! ### the event part of a step -/

/-- the summary after the event part, as far as the log is concerned -/
def viewEv (v : V) (ans : Option ProdRes) : V :=
  match ans with
  | some r => { v with curRes := some r, acked := ((respsOf r).filter (·.error = 0)).map (·.tp) ++ v.acked }
  | none => v

theorem view_trackEv (pre : Snap) (t : Track) (e : Ev) : view (trackEv pre t e) = viewEv (view t) (answerOf t e) := by
  have key : ∀ t0 : Track, t0.cur = t.cur → t0.curRes = t.curRes → t0.acked = t.acked → t0.lastP = t.lastP →
      t0.produced = t.produced →
      view (match (if effective t e then completionOf e else none), t0.cur, t0.curRes with
        | some r, some (_, ps), none =>
          { t0 with curRes := some r,
                    ex1 := if accounts ps r then t0.ex1 else batchSids t0 ++ t0.ex1,
                    ex0 := if isAcks0Shape r then t0.ex0 else batchSids t0 ++ t0.ex0,
                    acked := ((respsOf r).filter (·.error = 0)).map (·.tp) ++ t0.acked }
        | _, _, _ => t0) = viewEv (view t) (answerOf t e) := by
    intro t0 h1 h2 h3 h4 h5
    simp only [answerOf, h1, h2]
    generalize (if effective t e then completionOf e else none) = c
    rcases c with _ | r <;> rcases hcur : t.cur with _ | ⟨rid, ps⟩ <;> rcases hres : t.curRes with _ | r' <;>
      simp [view, viewEv, h1, h2, h3, h4, h5, hcur, hres]
  unfold trackEv
  apply key <;> (cases e <;> simp only [] <;> (try split) <;> (try split) <;> (try split) <;> rfl)

theorem answerOf_some {t : Track} {e : Ev} {r : ProdRes} (h : answerOf t e = some r) :
    (∃ rid ps, t.cur = some (rid, ps) ∧ validFor ps r = true) ∧ t.curRes = none := by
  unfold answerOf at h
  split at h
  · next r' c hc hcur hres =>
    injection h with h; subst h
    obtain ⟨rid, ps⟩ := c
    refine ⟨⟨rid, ps, hcur, ?_⟩, hres⟩
    by_cases he : effective t e = true
    · rw [if_pos he] at hc
      cases e with
      | produceDone k r0 =>
        simp only [completionOf] at hc; injection hc with hc; subst hc
        simp only [effective, hcur, hres, Bool.and_eq_true] at he
        exact he.2
      | stop w pout m =>
        cases pout with
        | none => simp [completionOf] at hc
        | some r0 =>
          simp only [completionOf] at hc; injection hc with hc; subst hc
          simpa only [effective, hcur, hres] using he
      | _ => simp [completionOf] at hc
    · rw [if_neg he] at hc; cases hc
  · cases h

theorem validFor_sub {ps : List Payload} {r : ProdRes} (h : validFor ps r = true) : ∀ tp ∈ r.tps, tp ∈ ps.map (·.tp) := by
  simp only [validFor, Bool.and_eq_true, List.all_eq_true, decide_eq_true_eq] at h
  exact h.1

theorem acks_mem {r : ProdRes} {tp : TP} (h : acks (some r) tp = true) :
    tp ∈ ((respsOf r).filter (·.error = 0)).map (·.tp) := by
  simp only [acks, List.any_eq_true, Bool.and_eq_true, beq_iff_eq] at h
  obtain ⟨x, hx, h1, h2⟩ := h
  exact List.mem_map.mpr ⟨x, List.mem_filter.mpr ⟨hx, by simpa using h2⟩, h1⟩

theorem linv_ev (applied : Rid → TP → Bool) (pre : Snap) (t : Track) (e : Ev) (L : List Entry) (h : LInv (view t) L) :
    LInv (view (trackEv pre t e)) (logEv applied t e L) := by
  rw [view_trackEv]
  unfold logEv
  cases ha : answerOf t e with
  | none => simpa [viewEv] using h
  | some r =>
    obtain ⟨⟨rid, ps, hc, hv⟩, hr⟩ := answerOf_some ha
    simp only [hc, viewEv]
    have hc' : (view t).cur = some (rid, ps) := hc
    have hr' : (view t).curRes = none := hr
    obtain ⟨a1, a2, a3⟩ := append_entries applied (view t) L rid ps (some r) h hc' hr'
    refine ⟨h.lp_nodup, h.lp_ne, h.cur_lp, h.cur_nd, h.cur_tps, h.cur_inc, h.cur_prod, ?_, ?_, a1, a2, ?_, a3⟩
    · intro rid' ps' _ hres; cases hres
    · intro rid' ps' res hcur hres tp htp
      rw [hc'] at hcur; injection hcur with hcur; injection hcur with _ e2; subst e2
      injection hres with hres; subst hres
      exact validFor_sub hv tp htp
    · intro E hE hack s hs
      simp only [List.mem_append]
      rcases List.mem_append.mp hE with hE | hE
      · obtain ⟨g1, g2⟩ := h.gone E hE hack s hs
        refine ⟨g1, fun e' he' hse => ?_⟩
        rcases g2 e' he' hse with g | g
        · exact Or.inl (Or.inr g)
        · exact Or.inr g
      · obtain ⟨p, hp, rfl⟩ := mem_entries hE
        simp only at hack hs
        refine ⟨h.cur_prod rid ps hc' s (List.mem_flatMap.mpr ⟨p, hp, hs⟩), fun e' he' hse => ?_⟩
        by_cases hin : e'.1 ∈ ps.map (·.tp)
        · obtain ⟨q, hq, hqe⟩ := List.mem_map.mp hin
          have hl := h.cur_lp rid ps hc' q hq
          have : e' = (q.tp, q.sids) := lp_unique h.lp_nodup he' hl hqe.symm
          subst this
          have : p = q := share_eq ps (h.cur_nd rid ps hc') p hp q hq s hs hse
          subst this
          exact Or.inl (Or.inl (acks_mem hack))
        · right
          intro rid' ps' hcur
          rw [hc'] at hcur; injection hcur with hcur; injection hcur with _ e2; subst e2
          exact hin

/-! ### a produce observation -/

def viewProd (v : V) (retry : Bool) (rid : Rid) (ps : List Payload) : V :=
  { lastP := ps.map (fun p => (p.tp, p.sids)) ++ v.lastP.filter (fun x => !ps.any (·.tp = x.1)),
    cur := some (rid, ps), curRes := none, acked := if retry then v.acked else [],
    produced := payloadSids ps ++ v.produced }

theorem view_trackOb_produce (e : Ev) (retry : Bool) (t : Track) (rid : Rid) (ps : List Payload) :
    view (trackOb e retry t (.produce rid ps)) = viewProd (view t) retry rid ps := rfl

theorem view_trackOb_other (e : Ev) (retry : Bool) (t : Track) (o : Ob) (h : ∀ rid ps, o ≠ .produce rid ps) :
    view (trackOb e retry t o) = view t := by
  cases o <;> first | rfl | exact absurd rfl (h _ _)

/-- what the monitors say of a produce request, in the two cases -/
def ProdCase (v : V) (retry : Bool) (ps : List Payload) : Prop :=
  (retry = false ∧ (v.cur = none ∨ v.curRes.isSome = true) ∧ ∀ s ∈ payloadSids ps, s ∉ v.produced) ∨
  (retry = true ∧ ∃ res rid0 prev, v.curRes = some res ∧ v.cur = some (rid0, prev) ∧
    ∀ p ∈ ps, p.tp ∈ prev.map (·.tp) ∧ p.tp ∉ v.acked ∧ (p.tp, p.sids) ∈ v.lastP)

theorem linv_prod (v : V) (L : List Entry) (retry : Bool) (rid : Rid) (ps : List Payload) (h : LInv v L)
    (hnd : (payloadSids ps).Nodup) (hinc : ∀ p ∈ ps, increasing p.sids = true)
    (hord : ∀ p ∈ ps, ∀ old ∈ v.lastP, old.1 = p.tp → R old.2 p.sids)
    (htps : (ps.map (·.tp)).Nodup) (hne : ∀ p ∈ ps, p.sids ≠ []) (hcase : ProdCase v retry ps) :
    LInv (viewProd v retry rid ps) L := by
  have hmem : ∀ e : TP × List Sid, e ∈ (viewProd v retry rid ps).lastP ↔
      (∃ p ∈ ps, e = (p.tp, p.sids)) ∨ (e ∈ v.lastP ∧ ∀ p ∈ ps, p.tp ≠ e.1) := by
    intro e
    simp only [viewProd, List.mem_append, List.mem_map, List.mem_filter, Bool.not_eq_true', List.any_eq_false,
      decide_eq_true_eq]
    constructor
    · rintro (⟨p, hp, rfl⟩ | ⟨h1, h2⟩)
      · exact Or.inl ⟨p, hp, rfl⟩
      · exact Or.inr ⟨h1, h2⟩
    · rintro (⟨p, hp, rfl⟩ | ⟨h1, h2⟩)
      · exact Or.inl ⟨p, hp, rfl⟩
      · exact Or.inr ⟨h1, h2⟩
  have hcur : ∀ rid' ps', (viewProd v retry rid ps).cur = some (rid', ps') → ps' = ps := by
    intro rid' ps' hc
    simp only [viewProd] at hc
    injection hc with hc; injection hc with _ e2; exact e2.symm
  refine ⟨?_, ?_, ?_, ?_, ?_, ?_, ?_, ?_, ?_, ?_, h.pw, ?_, h.dup⟩
  · -- lp_nodup
    simp only [viewProd, List.map_append, List.map_map, List.nodup_append]
    refine ⟨?_, ?_, ?_⟩
    · exact htps
    · exact (List.Nodup.sublist (List.Sublist.map _ List.filter_sublist) h.lp_nodup)
    · intro a ha b hb hab
      subst hab
      simp only [List.mem_map, Function.comp, List.mem_filter, Bool.not_eq_true', List.any_eq_false,
        decide_eq_true_eq] at ha hb
      obtain ⟨p, hp, rfl⟩ := ha
      obtain ⟨x, ⟨_, hx⟩, hxe⟩ := hb
      exact hx p hp hxe.symm
  · -- lp_ne
    intro e he
    rcases (hmem e).mp he with ⟨p, hp, rfl⟩ | ⟨h1, _⟩
    · exact hne p hp
    · exact h.lp_ne e h1
  · intro rid' ps' hc p hp
    rw [hcur rid' ps' hc] at hp
    exact (hmem _).mpr (Or.inl ⟨p, hp, rfl⟩)
  · intro rid' ps' hc; rw [hcur rid' ps' hc]; exact hnd
  · intro rid' ps' hc; rw [hcur rid' ps' hc]; exact htps
  · intro rid' ps' hc; rw [hcur rid' ps' hc]; exact hinc
  · intro rid' ps' hc s hs
    rw [hcur rid' ps' hc] at hs
    exact List.mem_append_left _ hs
  · -- cur_unacked
    intro rid' ps' hc _ p hp
    rw [hcur rid' ps' hc] at hp
    rcases hcase with ⟨hr, _, _⟩ | ⟨hr, res, rid0, prev, _, _, hall⟩
    · simp [viewProd, hr]
    · simp only [viewProd, hr, if_true]
      exact (hall p hp).2.1
  · intro rid' ps' res _ hres; cases hres
  · -- ent
    intro E hE
    obtain ⟨e1, e2, e, he, het, hR⟩ := h.ent E hE
    refine ⟨e1, e2, ?_⟩
    by_cases hex : ∃ p ∈ ps, p.tp = e.1
    · obtain ⟨p, hp, hpe⟩ := hex
      refine ⟨(p.tp, p.sids), (hmem _).mpr (Or.inl ⟨p, hp, rfl⟩), by rw [← het]; exact hpe, ?_⟩
      exact R.trans' hR (hord p hp e he hpe.symm) (h.lp_ne e he)
    · refine ⟨e, (hmem _).mpr (Or.inr ⟨he, fun p hp hc => hex ⟨p, hp, hc⟩⟩), het, hR⟩
  · -- gone
    intro E hE hack s hs
    obtain ⟨g1, g2⟩ := h.gone E hE hack s hs
    refine ⟨List.mem_append_right _ g1, fun e he hse => ?_⟩
    rcases (hmem e).mp he with ⟨p, hp, rfl⟩ | ⟨h1, h2⟩
    · exfalso
      rcases hcase with ⟨_, _, hfresh⟩ | ⟨_, res, rid0, prev, _, hc0, hall⟩
      · exact hfresh s (List.mem_flatMap.mpr ⟨p, hp, hse⟩) g1
      · obtain ⟨a1, a2, a3⟩ := hall p hp
        rcases g2 _ a3 hse with g | g
        · exact a2 g
        · exact g rid0 prev hc0 a1
    · right
      intro rid' ps' hc
      rw [hcur rid' ps' hc]
      intro hin
      obtain ⟨p, hp, hpe⟩ := List.mem_map.mp hin
      exact h2 p hp hpe

theorem flush_id (applied : Rid → TP → Bool) (t : Track) (L : List Entry)
    (h : t.cur = none ∨ t.curRes.isSome = true) : flush applied t L = L := by
  unfold flush
  rcases h with h | h
  · simp [h]
  · cases hc : t.cur with
    | none => rfl
    | some x =>
      cases hr : t.curRes with
      | none => simp [hr] at h
      | some r => rfl

theorem prodCase_of (t : Track) (L : List Entry) (retry : Bool) (rid : Rid) (ps : List Payload) (h : LInv (view t) L)
    (h2 : oneBatchOk retry t (.produce rid ps) = true) (h3 : retryOk retry t (.produce rid ps) = true) :
    ProdCase (view t) retry ps := by
  cases retry with
  | false =>
    left
    simp only [oneBatchOk, Bool.false_eq_true, if_false, Bool.and_eq_true, Bool.or_eq_true, List.all_eq_true,
      decide_eq_true_eq] at h2
    refine ⟨rfl, ?_, fun s hs => h2.1.2 s hs⟩
    rcases h2.1.1 with hn | hs
    · left; simpa [view, Option.isNone_iff_eq_none] using hn
    · right; exact hs
  | true =>
    right
    simp only [retryOk, if_true] at h3
    cases hres : t.curRes with
    | none => simp [hres] at h3
    | some res =>
      cases hcur : t.cur with
      | none => simp [hres, hcur] at h3
      | some c =>
        obtain ⟨rid0, prev⟩ := c
        simp only [hres, hcur, Bool.and_eq_true, List.all_eq_true, decide_eq_true_eq, List.mem_filter, beq_iff_eq,
          List.any_eq_true, and_imp] at h3
        refine ⟨rfl, res, rid0, prev, hres, hcur, fun p hp => ?_⟩
        obtain ⟨⟨hu, hall⟩, e, he, het⟩ := h3.2 p hp
        have hpe : (p.tp, p.sids) ∈ t.lastP := by
          have := hall e he het
          rw [← this, ← het]; exact he
        refine ⟨?_, hu, hpe⟩
        have hin : p.tp ∈ ps.map (·.tp) := List.mem_map_of_mem hp
        cases res with
        | err k =>
          simp only [Bool.and_eq_true, List.all_eq_true, decide_eq_true_eq] at h3
          exact h3.1.1.2 _ hin
        | responses rs =>
          have h31 := h3.1
          simp only [beq_iff_eq] at h31
          rw [h31] at hin
          exact h.res_valid rid0 prev _ hcur hres _ (failedTps_sub _ (fun k => by simp) _ hin)
        | none =>
          have h31 := h3.1
          simp only [beq_iff_eq] at h31
          rw [h31] at hin
          exact h.res_valid rid0 prev _ hcur hres _ (failedTps_sub _ (fun k => by simp) _ hin)
        | failed rs fs =>
          have h31 := h3.1
          simp only [beq_iff_eq] at h31
          rw [h31] at hin
          exact h.res_valid rid0 prev _ hcur hres _ (failedTps_sub _ (fun k => by simp) _ hin)

/-- one observation -/
theorem linv_ob (applied : Rid → TP → Bool) (e : Ev) (retry : Bool) (t : Track) (L : List Entry) (o : Ob)
    (h : LInv (view t) L) (h1 : orderOk t o = true) (h2 : oneBatchOk retry t o = true)
    (h3 : retryOk retry t o = true) (h4 : shapeOk o = true) :
    LInv (view (trackOb e retry t o)) (logOb applied t L o) := by
  by_cases hp : ∃ rid ps, o = .produce rid ps
  · obtain ⟨rid, ps, rfl⟩ := hp
    have hc := prodCase_of t L retry rid ps h h2 h3
    have hfl : flush applied t L = L := by
      apply flush_id
      rcases hc with ⟨_, hf, _⟩ | ⟨_, res, rid0, prev, hr, _, _⟩
      · exact hf
      · right; show t.curRes.isSome = true; have : t.curRes = some res := hr; simp [this]
    simp only [logOb, hfl, view_trackOb_produce]
    obtain ⟨o1, o2⟩ := orderOk_spec t rid ps h1
    obtain ⟨s1, s2⟩ := shapeOk_spec rid ps h4
    exact linv_prod (view t) L retry rid ps h o1 (fun p hp => (o2 p hp).1) (fun p hp => (o2 p hp).2) s1 s2 hc
  · have hno : ∀ rid ps, o ≠ .produce rid ps := fun rid ps hc => hp ⟨rid, ps, hc⟩
    rw [view_trackOb_other e retry t o hno]
    cases o <;> first | exact h | exact absurd rfl (hno _ _)

/-! ### a step, a trace -/

theorem linv_obs (applied : Rid → TP → Bool) (e : Ev) (retry : Bool) : ∀ (obs : List Ob) (t : Track) (L : List Entry),
    LInv (view t) L → checkObs orderOk e retry t obs = true → checkObs (oneBatchOk retry) e retry t obs = true →
    checkObs (retryOk retry) e retry t obs = true → obs.all shapeOk = true →
    LInv (view (obs.foldl (trackOb e retry) t)) (logObs applied e retry t L obs)
  | [], t, L, h, _, _, _, _ => h
  | o :: rest, t, L, h, h1, h2, h3, h4 => by
    simp only [checkObs, Bool.and_eq_true] at h1 h2 h3
    simp only [List.all_cons, Bool.and_eq_true] at h4
    simp only [List.foldl_cons, logObs]
    exact linv_obs applied e retry rest _ _ (linv_ob applied e retry t L o h h1.1 h2.1 h3.1 h4.1) h1.2 h2.2 h3.2 h4.2

theorem view_track (pre : Snap) (t : Track) (s : Step) :
    view (track pre t s) = view (s.obs.foldl (trackOb s.ev (isRetryStep t s.ev)) (trackEv pre t s.ev)) := by
  unfold track
  cases s.ev <;> simp only [] <;> split <;> rfl

/-- the log of a trace that passes the monitors, as far as order and duplicates go -/
structure LogOK (L : List Entry) : Prop where
  /-- every entry is a non-empty payload whose sends are in submission order -/
  ne : ∀ E ∈ L, E.sids ≠ [] ∧ increasing E.sids = true
  /-- two appends to the same partition: the same payload again, or only later sends -/
  pw : L.Pairwise (fun E1 E2 => E1.tp = E2.tp → R E1.sids E2.sids)
  /-- after an ACKNOWLEDGED append no send of it is ever appended again -/
  dup : L.Pairwise (fun E1 E2 => E1.acked = true → ∀ s ∈ E1.sids, s ∉ E2.sids)

theorem logOK_flush (applied : Rid → TP → Bool) (t : Track) (L : List Entry) (h : LInv (view t) L) :
    LogOK (flush applied t L) := by
  unfold flush
  cases hc : t.cur with
  | none => exact ⟨fun E hE => ⟨(h.ent E hE).1, (h.ent E hE).2.1⟩, h.pw, h.dup⟩
  | some c =>
    obtain ⟨rid, ps⟩ := c
    cases hr : t.curRes with
    | some r => exact ⟨fun E hE => ⟨(h.ent E hE).1, (h.ent E hE).2.1⟩, h.pw, h.dup⟩
    | none =>
      obtain ⟨a1, a2, a3⟩ := append_entries applied (view t) L rid ps none h hc hr
      exact ⟨fun E hE => ⟨(a1 E hE).1, (a1 E hE).2.1⟩, a2, a3⟩

theorem logOK_from (applied : Rid → TP → Bool) : ∀ (tr : List Step) (pre : Snap) (t : Track) (L : List Entry),
    LInv (view t) L → checkFrom orderStep pre t tr = true → checkFrom oneBatchStep pre t tr = true →
    checkFrom retryStep pre t tr = true → checkFrom payloadStep pre t tr = true →
    LogOK (logFrom applied pre t L tr)
  | [], _, t, L, h, _, _, _, _ => logOK_flush applied t L h
  | s :: rest, pre, t, L, h, h1, h2, h3, h4 => by
    simp only [checkFrom, Bool.and_eq_true] at h1 h2 h3 h4
    simp only [logFrom]
    refine logOK_from applied rest s.post _ _ ?_ h1.2 h2.2 h3.2 h4.2
    rw [view_track]
    refine linv_obs applied s.ev _ s.obs _ _ (linv_ev applied pre t s.ev L h) h1.1 h2.1 h3.1 ?_
    have := h4.1
    simp only [payloadStep, List.all_eq_true] at this ⊢
    exact fun o ho => payloadOk_shape _ o (this o ho)

/-- ORDER and DUPLICATES of the broker log of ANY trace that passes the monitors `order`, `oneBatch`,
    `retryOnlyFailed` (C09) and `payloads` (C01), for EVERY oracle -/
theorem logOK_of_monitors (cfg : Cfg) (applied : Rid → TP → Bool) (tr : List Step) (h1 : order cfg tr = true)
    (h2 : oneBatch cfg tr = true) (h3 : retryOnlyFailed cfg tr = true) (h4 : payloads cfg tr = true) :
    LogOK (brokerLog cfg applied tr) :=
  logOK_from applied tr _ _ _ linv_init h1 h2 h3 h4

/-! ### a reported success is in the log -/

theorem mem_flush (applied : Rid → TP → Bool) (t : Track) {L : List Entry} {E : Entry} (h : E ∈ L) :
    E ∈ flush applied t L := by
  unfold flush
  split
  · exact List.mem_append_left _ h
  · exact h

theorem mem_logEv (applied : Rid → TP → Bool) (t : Track) (e : Ev) {L : List Entry} {E : Entry} (h : E ∈ L) :
    E ∈ logEv applied t e L := by
  unfold logEv
  split
  · exact List.mem_append_left _ h
  · exact h

theorem mem_logOb (applied : Rid → TP → Bool) (t : Track) (o : Ob) {L : List Entry} {E : Entry} (h : E ∈ L) :
    E ∈ logOb applied t L o := by
  cases o <;> first | exact h | exact mem_flush applied t h

theorem mem_logObs (applied : Rid → TP → Bool) (e : Ev) (retry : Bool) {E : Entry} :
    ∀ (obs : List Ob) (t : Track) (L : List Entry), E ∈ L → E ∈ logObs applied e retry t L obs
  | [], _, _, h => h
  | o :: rest, t, _, h => mem_logObs applied e retry rest _ _ (mem_logOb applied t o h)

theorem mem_logFrom (applied : Rid → TP → Bool) {E : Entry} :
    ∀ (tr : List Step) (pre : Snap) (t : Track) (L : List Entry), E ∈ L → E ∈ logFrom applied pre t L tr
  | [], _, t, _, h => mem_flush applied t h
  | s :: rest, _, t, _, h =>
    mem_logFrom applied rest _ _ _ (mem_logObs applied _ _ s.obs _ _ (mem_logEv applied t s.ev h))

/-- the summary against which the check of a `fire` was made: the one after the event part, unless a produce
    request was observed before it in the same step (then no answer is recorded) -/
theorem checkObs_fire (cfg : Cfg) (pre : Snap) (e : Ev) (retry : Bool) (sid : Sid) (r : Resp) :
    ∀ (obs : List Ob) (tt : Track), checkObs (fun tt o => fireOk cfg pre tt e o) e retry tt obs = true →
      Ob.fire sid (.ok r) ∈ obs →
      ∃ tt', fireOk cfg pre tt' e (.fire sid (.ok r)) = true ∧
        ((tt'.cur = tt.cur ∧ tt'.curRes = tt.curRes) ∨ tt'.curRes = none)
  | [], _, _, hm => by cases hm
  | o :: rest, tt, hc, hm => by
    simp only [checkObs, Bool.and_eq_true] at hc
    rcases List.mem_cons.mp hm with rfl | hm'
    · exact ⟨tt, hc.1, Or.inl ⟨rfl, rfl⟩⟩
    · obtain ⟨tt', h1, h2⟩ := checkObs_fire cfg pre e retry sid r rest _ hc.2 hm'
      refine ⟨tt', h1, ?_⟩
      rcases h2 with ⟨a, b⟩ | b
      · cases o with
        | produce rid ps => right; rw [b]; rfl
        | fire _ _ => left; exact ⟨a, b⟩
        | setTimer _ _ => left; exact ⟨a, b⟩
        | loadMeta _ _ => left; exact ⟨a, b⟩
        | cancelReq _ => left; exact ⟨a, b⟩
        | cancelTimer _ => left; exact ⟨a, b⟩
        | resetMeta _ => left; exact ⟨a, b⟩
        | stopLooper => left; exact ⟨a, b⟩
        | badOp => left; exact ⟨a, b⟩
      · exact Or.inr b

theorem success_step (cfg : Cfg) (applied : Rid → TP → Bool) (pre : Snap) (t : Track) (s : Step) (L : List Entry)
    (h : successAckedStep cfg pre t s = true) (sid : Sid) (r : Resp) (hm : Ob.fire sid (.ok r) ∈ s.obs) :
    ∃ E ∈ logEv applied t s.ev L, E.acked = true ∧ E.tp = r.tp ∧ sid ∈ E.sids := by
  simp only [successAckedStep, Bool.and_eq_true, List.all_eq_true] at h
  have hnone : t.curRes = none := by
    have := h.1 _ hm
    simpa [Option.isNone_iff_eq_none] using this
  obtain ⟨tt', hf, hrel⟩ := checkObs_fire cfg pre s.ev _ sid r s.obs _ h.2 hm
  cases hcomp : completionOf s.ev with
  | none => simp [fireOk, hcomp] at hf
  | some res =>
    cases hcur : tt'.cur with
    | none => simp [fireOk, hcomp, hcur] at hf
    | some c =>
      obtain ⟨rid, ps⟩ := c
      cases hres : tt'.curRes with
      | none => simp [fireOk, hcomp, hcur, hres] at hf
      | some res' =>
        simp only [fireOk, hcomp, hcur, hres, Bool.and_eq_true, beq_iff_eq, List.contains_eq_mem,
          decide_eq_true_eq, List.any_eq_true] at hf
        obtain ⟨⟨⟨⟨_, hrr⟩, herr⟩, hin⟩, p, hp, hpt, hps⟩ := hf
        subst hrr
        rcases hrel with ⟨a, b⟩ | b
        · -- the summary is the one after the event part
          have hv := view_trackEv pre t s.ev
          have hc0 : (trackEv pre t s.ev).cur = some (rid, ps) := by rw [← a]; exact hcur
          have hr0 : (trackEv pre t s.ev).curRes = some res := by rw [← b]; exact hres
          cases ha : answerOf t s.ev with
          | none =>
            rw [ha] at hv
            have : (view (trackEv pre t s.ev)).curRes = (view t).curRes := by rw [hv]; rfl
            simp only [view] at this
            rw [hr0, hnone] at this; cases this
          | some r' =>
            rw [ha] at hv
            have e1 : (view (trackEv pre t s.ev)).curRes = some r' := by rw [hv]; rfl
            have e2 : (view (trackEv pre t s.ev)).cur = t.cur := by rw [hv]; rfl
            simp only [view] at e1 e2
            rw [hr0] at e1; injection e1 with e1; subst e1
            rw [hc0] at e2
            have hack : acks (some res) p.tp = true := by
              simp only [acks, List.any_eq_true, Bool.and_eq_true, beq_iff_eq]
              exact ⟨r, hin, hpt.symm, herr⟩
            refine ⟨⟨p.tp, p.sids, p.msgs, acks (some res) p.tp⟩, ?_, hack, hpt, hps⟩
            simp only [logEv, ha, ← e2]
            refine List.mem_append_right _ ?_
            simp only [entries, List.mem_map, List.mem_filter, Bool.or_eq_true]
            exact ⟨p, ⟨hp, Or.inl hack⟩, rfl⟩
        · rw [hres] at b; cases b

theorem mem_successes_cons {s : Step} {rest : List Step} {x : Sid × Resp} (h : x ∈ successes (s :: rest)) :
    Ob.fire x.1 (.ok x.2) ∈ s.obs ∨ x ∈ successes rest := by
  simp only [successes, allObs, List.flatMap_cons, List.filterMap_append, List.mem_append, List.mem_filterMap] at h ⊢
  rcases h with ⟨o, ho, hf⟩ | h
  · left
    cases o with
    | fire sid out =>
      cases out with
      | ok r => simp only [Option.some.injEq] at hf; subst hf; exact ho
      | _ => simp at hf
    | _ => simp at hf
  · exact Or.inr h

/-- every success reported along a trace that passes the monitor `successAcked` is an ACKNOWLEDGED entry of the
    broker log, for the response's topic/partition, carrying the send -/
theorem success_logged_from (cfg : Cfg) (applied : Rid → TP → Bool) :
    ∀ (tr : List Step) (pre : Snap) (t : Track) (L : List Entry),
      checkFrom (successAckedStep cfg) pre t tr = true → ∀ x ∈ successes tr,
      ∃ E ∈ logFrom applied pre t L tr, E.acked = true ∧ E.tp = x.2.tp ∧ x.1 ∈ E.sids
  | [], _, _, _, _, x, hx => by simp [successes, allObs] at hx
  | s :: rest, pre, t, L, h, x, hx => by
    simp only [checkFrom, Bool.and_eq_true] at h
    rcases mem_successes_cons hx with hm | hm
    · obtain ⟨E, hE, h1, h2, h3⟩ := success_step cfg applied pre t s L h.1 x.1 x.2 hm
      exact ⟨E, mem_logFrom applied rest _ _ _ (mem_logObs applied _ _ s.obs _ _ hE), h1, h2, h3⟩
    · exact success_logged_from cfg applied rest _ _ _ h.2 x hm

theorem success_logged (cfg : Cfg) (applied : Rid → TP → Bool) (tr : List Step) (h : successAcked cfg tr = true) :
    ∀ x ∈ successes tr, ∃ E ∈ brokerLog cfg applied tr, E.acked = true ∧ E.tp = x.2.tp ∧ x.1 ∈ E.sids :=
  success_logged_from cfg applied tr _ _ _ h

/-! ### consequences, in the words of the property -/

/-- by the time ANY copy of a send `y` is in a partition's log, every earlier send `x < y` that is in that log at all
    is already there: in the same append (before `y`: the append's sends are in submission order) or an earlier one -/
theorem earlier_first {L : List Entry} (h : LogOK L) (A B : List Entry) (E : Entry) (hL : L = A ++ E :: B)
    (x y : Sid) (hxy : x < y) (hy : y ∈ E.sids) (E' : Entry) (hE' : E' ∈ L) (htp : E'.tp = E.tp) (hx : x ∈ E'.sids) :
    x ∈ E.sids ∨ ∃ E0 ∈ A, E0.tp = E.tp ∧ x ∈ E0.sids := by
  subst hL
  have hpw := h.pw
  rw [List.pairwise_append] at hpw
  rcases List.mem_append.mp hE' with hA | hB
  · exact Or.inr ⟨E', hA, htp, hx⟩
  · rcases List.mem_cons.mp hB with rfl | hB'
    · exact Or.inl hx
    · have := (List.pairwise_cons.mp hpw.2.1).1 E' hB' htp.symm
      rcases this with heq | hlt
      · left; rw [heq]; exact hx
      · exact absurd (hlt y hy x hx) (Nat.lt_asymm hxy)

/-! ### a property of every entry -/

theorem forall_flush (applied : Rid → TP → Bool) (P : Entry → Prop)
    (hnew : ∀ rid ps ans, ∀ E ∈ entries applied rid ps ans, P E) (t : Track) (L : List Entry) (h : ∀ E ∈ L, P E) :
    ∀ E ∈ flush applied t L, P E := by
  unfold flush
  split
  · intro E hE
    rcases List.mem_append.mp hE with hE | hE
    · exact h E hE
    · exact hnew _ _ _ E hE
  · exact h

theorem forall_logEv (applied : Rid → TP → Bool) (P : Entry → Prop)
    (hnew : ∀ rid ps ans, ∀ E ∈ entries applied rid ps ans, P E) (t : Track) (e : Ev) (L : List Entry)
    (h : ∀ E ∈ L, P E) : ∀ E ∈ logEv applied t e L, P E := by
  unfold logEv
  split
  · intro E hE
    rcases List.mem_append.mp hE with hE | hE
    · exact h E hE
    · exact hnew _ _ _ E hE
  · exact h

theorem forall_logObs (applied : Rid → TP → Bool) (P : Entry → Prop)
    (hnew : ∀ rid ps ans, ∀ E ∈ entries applied rid ps ans, P E) (e : Ev) (retry : Bool) :
    ∀ (obs : List Ob) (t : Track) (L : List Entry), (∀ E ∈ L, P E) → ∀ E ∈ logObs applied e retry t L obs, P E
  | [], _, _, h => h
  | o :: rest, t, L, h => by
    refine forall_logObs applied P hnew e retry rest _ _ ?_
    cases o <;> first | exact h | exact forall_flush applied P hnew t L h

theorem forall_logFrom (applied : Rid → TP → Bool) (P : Entry → Prop)
    (hnew : ∀ rid ps ans, ∀ E ∈ entries applied rid ps ans, P E) :
    ∀ (tr : List Step) (pre : Snap) (t : Track) (L : List Entry), (∀ E ∈ L, P E) →
      ∀ E ∈ logFrom applied pre t L tr, P E
  | [], _, t, L, h => forall_flush applied P hnew t L h
  | s :: rest, _, t, L, h =>
    forall_logFrom applied P hnew rest _ _ _
      (forall_logObs applied P hnew _ _ s.obs _ _ (forall_logEv applied P hnew t s.ev L h))

/-- when no acknowledgement is ever lost (the brokers append exactly what they acknowledge) every entry of the log is
    an acknowledged one -/
theorem all_acked (cfg : Cfg) (tr : List Step) : ∀ E ∈ brokerLog cfg (fun _ _ => false) tr, E.acked = true := by
  refine forall_logFrom _ (fun E => E.acked = true) ?_ tr _ _ [] (fun E hE => by cases hE)
  intro rid ps ans E hE
  simp only [entries, Bool.or_false, List.mem_map, List.mem_filter] at hE
  obtain ⟨p, ⟨_, hp⟩, rfl⟩ := hE
  exact hp

end Afkak.Producer.BrokerLog
