import AfkakProofs.Producer.Order
import AfkakProofs.Producer.Queued
/-! Reported at once (audit C09-3, C01-3): the step that takes the client's answer to the request in flight fires,
in that very step, `ok resp` for every outstanding send riding on a payload the answer acknowledges; the failure for
every outstanding send on a payload it reports failed when that ends the batch; and the empty answer's outcome for
every outstanding send of the request. -/
namespace Afkak.Producer
open Afkak.Consts Afkak.Monitor.ProducerTrace Afkak.Monitor.C01 Afkak.Monitor.C09

theorem deliver_fires_all (out sids : List Sid) (o : Outcome) (s : Sid) (hs : s ∈ sids) (ho : s ∈ out) :
    Ob.fire s o ∈ (deliver out sids o).2 := by
  induction sids generalizing out with
  | nil => cases hs
  | cons a rest ih =>
    simp only [deliver]
    by_cases ha : a = s
    · subst ha; rw [if_pos ho]; exact List.mem_cons_self
    · have hs' : s ∈ rest := by
        rcases List.mem_cons.mp hs with h | h
        · exact absurd h.symm ha
        · exact h
      split
      · exact List.mem_cons_of_mem _ (ih _ hs' ((List.mem_erase_of_ne (Ne.symm ha)).mpr ho))
      · exact ih _ hs' ho

theorem deliverMany_fires_all (out : List Sid) (l : List (List Sid × Outcome)) (sids : List Sid) (o : Outcome) (s : Sid)
    (hm : (sids, o) ∈ l) (hs : s ∈ sids) (ho : s ∈ out) (hu : ∀ p ∈ l, s ∈ p.1 → p = (sids, o)) :
    Ob.fire s o ∈ (deliverMany out l).2 := by
  induction l generalizing out with
  | nil => cases hm
  | cons p rest ih =>
    obtain ⟨s0, o0⟩ := p
    simp only [deliverMany]
    by_cases hp : s ∈ s0
    · have := hu (s0, o0) List.mem_cons_self hp
      injection this with e1 e2; subst e1; subst e2
      exact List.mem_append_left _ (deliver_fires_all out s0 o0 s hp ho)
    · have hm' : (sids, o) ∈ rest := by
        rcases List.mem_cons.mp hm with h | h
        · injection h with e1 _; exact absurd (e1 ▸ hs) hp
        · exact h
      exact List.mem_append_right _
        (ih _ hm' (deliver_keeps out s0 o0 s ho hp) (fun q hq => hu q (List.mem_cons_of_mem _ hq)))

/-- a send rides on one payload only -/
theorem sidsOf_tp_unique {S : List Req} {b : Batch} (hg : GsOk S b.groups) {tp tp' : TP} {s : Sid}
    (h1 : s ∈ b.sidsOf tp) (h2 : s ∈ b.sidsOf tp') : tp = tp' := by
  obtain ⟨g, a1, a2, a3⟩ := (mem_sidsOf b tp s).mp h1
  obtain ⟨g', b1, b2, b3⟩ := (mem_sidsOf b tp' s).mp h2
  have := group_unique hg a1 b1 a3 b3
  subst this
  rw [← a2, ← b2]

/-! ### `_check_retry_payloads` with no attempt left -/

theorem checkRetry_failed {S : List Req} (cfg : Cfg) (st : St) (b : Batch) (failed : List FailedP)
    (hg : GsOk S b.groups) (hn : (failed.map (·.tp)).Nodup) (hstop : st.stopping = false)
    (hatt : cfg.maxAttempts ≤ st.attempts) :
    ∀ f ∈ failed, ∀ s ∈ b.sidsOf f.tp, s ∈ st.outstanding →
      Ob.fire s (.err f.kind) ∈ (checkRetry cfg st b failed).2.1 := by
  intro f hf s hs ho
  simp only [checkRetry, hstop, Bool.false_eq_true, if_false]
  rw [if_pos hatt]
  apply List.mem_append_left
  apply deliverMany_fires_all _ _ (b.sidsOf f.tp) (.err f.kind) s (List.mem_map.mpr ⟨f, hf, rfl⟩) hs ho
  intro p hp hsp
  obtain ⟨f', hf', he⟩ := List.mem_map.mp hp
  subst he
  have htp : f'.tp = f.tp := sidsOf_tp_unique hg hsp hs
  have : f' = f := inj_of_nodup_map (·.tp) failed hn hf' hf htp
  rw [this]

/-! ### `_handle_send_response` -/

theorem handleResults_acked {S : List Req} (cfg : Cfg) (st : St) (b : Batch) (rs : List Resp) (fs : List FailedP)
    (hg : GsOk S b.groups) (hn : (rs.map (·.tp)).Nodup) :
    ∀ resp ∈ rs, resp.error = 0 → ∀ s ∈ b.sidsOf resp.tp, s ∈ st.outstanding →
      Ob.fire s (.ok resp) ∈ (handleResults cfg st b rs fs).2.1 := by
  intro resp hr he s hs ho
  have good : Ob.fire s (.ok resp) ∈ (deliverMany st.outstanding
      ((rs.filter (·.error = 0)).map (fun r => (b.sidsOf r.tp, Outcome.ok r)))).2 := by
    apply deliverMany_fires_all _ _ (b.sidsOf resp.tp) (.ok resp) s
      (List.mem_map.mpr ⟨resp, List.mem_filter.mpr ⟨hr, by simpa using he⟩, rfl⟩) hs ho
    intro p hp hsp
    obtain ⟨r', hr', hpe⟩ := List.mem_map.mp hp
    subst hpe
    have htp : r'.tp = resp.tp := sidsOf_tp_unique hg hsp hs
    have : r' = resp := inj_of_nodup_map (·.tp) rs hn (List.mem_filter.mp hr').1 hr htp
    rw [this]
  simp only [handleResults]
  split
  · exact good
  · exact List.mem_append_left _ good

theorem handleResults_failed {S : List Req} (cfg : Cfg) (st : St) (b : Batch) (rs : List Resp) (fs : List FailedP)
    (hg : GsOk S b.groups) (hn : (fs.map (·.tp) ++ rs.map (·.tp)).Nodup) (hstop : st.stopping = false)
    (hatt : cfg.maxAttempts ≤ st.attempts) :
    ∀ f ∈ fs ++ (rs.filter (·.error ≠ 0)).map (fun r => (⟨r.tp, .broker r.error, false⟩ : FailedP)),
      ∀ s ∈ b.sidsOf f.tp, s ∈ st.outstanding → Ob.fire s (.err f.kind) ∈ (handleResults cfg st b rs fs).2.1 := by
  intro f hf s hs ho
  rw [List.nodup_append] at hn
  obtain ⟨hn1, hn2, hdisj⟩ := hn
  -- the failed list names each payload once
  have hfn : ((fs ++ (rs.filter (·.error ≠ 0)).map (fun r => (⟨r.tp, .broker r.error, false⟩ : FailedP))).map (·.tp)).Nodup := by
    rw [List.map_append, List.map_map, List.nodup_append]
    refine ⟨hn1, sublist_nodup_tps rs _ hn2, ?_⟩
    intro a ha c hc hac
    obtain ⟨x, hx, hxt⟩ := List.mem_map.mp hc
    exact hdisj a ha c (List.mem_map.mpr ⟨x, (List.mem_filter.mp hx).1, hxt⟩) hac
  -- the send is on no acknowledged payload
  have hkeep : s ∈ (deliverMany st.outstanding
      ((rs.filter (·.error = 0)).map (fun r => (b.sidsOf r.tp, Outcome.ok r)))).1 := by
    apply deliverMany_keeps _ _ s ho
    intro sids o hm hc
    obtain ⟨r', hr', hpe⟩ := List.mem_map.mp hm
    injection hpe with e1 _
    subst e1
    have htp : r'.tp = f.tp := sidsOf_tp_unique hg hc hs
    obtain ⟨hr1, hr2⟩ := List.mem_filter.mp hr'
    rcases List.mem_append.mp hf with hf | hf
    · exact hdisj f.tp (List.mem_map_of_mem hf) r'.tp (List.mem_map_of_mem hr1) htp.symm
    · obtain ⟨x, hx, hxe⟩ := List.mem_map.mp hf
      obtain ⟨hx1, hx2⟩ := List.mem_filter.mp hx
      have hxt : x.tp = f.tp := by rw [← hxe]
      have : r' = x := inj_of_nodup_map (·.tp) rs hn2 hr1 hx1 (by rw [htp, hxt])
      subst this
      simp at hr2 hx2; exact hx2 hr2
  simp only [handleResults]
  split
  · rename_i hemp
    exfalso
    cases hfl : fs ++ (rs.filter (·.error ≠ 0)).map (fun r => (⟨r.tp, .broker r.error, false⟩ : FailedP)) with
    | nil => rw [hfl] at hf; cases hf
    | cons _ _ => rw [hfl] at hemp; cases hemp
  · dsimp only
    apply List.mem_append_right
    exact checkRetry_failed (S := S) cfg
      { st with outstanding := (deliverMany st.outstanding
          ((rs.filter (·.error = 0)).map (fun r => (b.sidsOf r.tp, Outcome.ok r)))).1 }
      { b with live := b.live.filter (fun tp =>
          (fs ++ (rs.filter (·.error ≠ 0)).map (fun r => (⟨r.tp, .broker r.error, false⟩ : FailedP))).any (·.tp = tp)) }
      _ hg hfn hstop hatt f hf s hs hkeep

/-- what `_handle_send_response` fires for a valid answer, in the step that takes it -/
theorem handle_reports {S : List Req} (cfg : Cfg) (st : St) (b : Batch) (r : ProdRes) (hg : GsOk S b.groups)
    (hv : validResult b r = true) (hsub : ∀ tp ∈ b.current, tp ∈ b.live) (hln : b.live.Nodup) :
    (∀ resp ∈ respsOf r, resp.error = 0 → ∀ s ∈ b.sidsOf resp.tp, s ∈ st.outstanding →
      Ob.fire s (.ok resp) ∈ (handleSendResponse cfg st b r).2.1) ∧
    (st.stopping = false → cfg.maxAttempts ≤ st.attempts → ∀ f ∈ failedKinds (b.payloadsFor b.current) r,
      ∀ s ∈ b.sidsOf f.1, s ∈ st.outstanding → Ob.fire s (.err f.2) ∈ (handleSendResponse cfg st b r).2.1) ∧
    (∀ k, r = .err k → k.isKafka = false → ∀ s ∈ b.allSids, s ∈ st.outstanding →
      Ob.fire s (.err k) ∈ (handleSendResponse cfg st b r).2.1) ∧
    (isEmptyResult r = true → ∀ s ∈ b.allSids, s ∈ st.outstanding →
      Ob.fire s (if cfg.acks == producerAckNotRequired then .okNone else .err .noResponse) ∈
        (handleSendResponse cfg st b r).2.1) := by
  simp only [validResult, Bool.and_eq_true, List.all_eq_true, decide_eq_true_eq] at hv
  obtain ⟨hin, hnd⟩ := hv
  have hall : ∀ o, ∀ s ∈ b.allSids, s ∈ st.outstanding → Ob.fire s o ∈ (deliverAll st b o).2.1 := by
    intro o s hs ho
    simp only [deliverAll]
    exact deliver_fires_all _ _ _ s hs ho
  have hacks : (if cfg.acks = producerAckNotRequired then Outcome.okNone else Outcome.err .noResponse) =
      (if cfg.acks == producerAckNotRequired then Outcome.okNone else Outcome.err .noResponse) := by
    by_cases h : cfg.acks = producerAckNotRequired <;> simp [h]
  cases r with
  | none =>
    refine ⟨fun resp hr => (by simp [respsOf] at hr), fun _ _ f hf => (by simp [failedKinds] at hf),
      fun k hk => (by cases hk), fun _ s hs ho => ?_⟩
    simp only [handleSendResponse]; rw [hacks]; exact hall _ s hs ho
  | responses rs =>
    cases rs with
    | nil =>
      refine ⟨fun resp hr => (by simp [respsOf] at hr), fun _ _ f hf => (by simp [failedKinds] at hf),
        fun k hk => (by cases hk), fun _ s hs ho => ?_⟩
      simp only [handleSendResponse]; rw [hacks]; exact hall _ s hs ho
    | cons x rest =>
      simp only [ProdRes.tps] at hnd
      refine ⟨?_, ?_, fun k hk => (by cases hk), fun he => (by simp [isEmptyResult] at he)⟩
      · intro resp hr he s hs ho
        simp only [handleSendResponse]
        exact handleResults_acked cfg st b (x :: rest) [] hg hnd resp hr he s hs ho
      · intro hstop hatt f hf s hs ho
        simp only [handleSendResponse]
        simp only [failedKinds] at hf
        obtain ⟨y, hy, hye⟩ := List.mem_map.mp hf
        subst hye
        exact handleResults_failed cfg st b (x :: rest) [] hg (by simpa using hnd) hstop hatt
          ⟨y.tp, .broker y.error, false⟩ (by simp only [List.nil_append]; exact List.mem_map.mpr ⟨y, hy, rfl⟩) s hs ho
  | failed rs fs =>
    simp only [ProdRes.tps] at hnd
    refine ⟨?_, ?_, fun k hk => (by cases hk), fun he => (by simp [isEmptyResult] at he)⟩
    · intro resp hr he s hs ho
      simp only [handleSendResponse]
      exact handleResults_acked cfg st b rs fs hg (List.nodup_append.mp hnd).2.1 resp hr he s hs ho
    · intro hstop hatt f hf s hs ho
      simp only [handleSendResponse]
      simp only [failedKinds, List.mem_append] at hf
      rcases hf with hf | hf
      · obtain ⟨y, hy, hye⟩ := List.mem_map.mp hf
        subst hye
        exact handleResults_failed cfg st b rs fs hg hnd hstop hatt y (List.mem_append_left _ hy) s hs ho
      · obtain ⟨y, hy, hye⟩ := List.mem_map.mp hf
        subst hye
        exact handleResults_failed cfg st b rs fs hg hnd hstop hatt ⟨y.tp, .broker y.error, false⟩
          (List.mem_append_right _ (List.mem_map.mpr ⟨y, hy, rfl⟩)) s hs ho
  | err k =>
    refine ⟨fun resp hr => (by simp [respsOf] at hr), ?_, ?_, fun he => (by simp [isEmptyResult] at he)⟩
    · intro hstop hatt f hf s hs ho
      simp only [failedKinds] at hf
      split at hf
      · rename_i hk
        obtain ⟨p, hp, hpe⟩ := List.mem_map.mp hf
        subst hpe
        have hpc : p.tp ∈ b.current := ((mem_payloadsFor b b.current p).mp hp).2
        simp only [handleSendResponse, hk, if_true]
        have := handleResults_failed cfg st b [] (b.live.map (fun tp => (⟨tp, k, true⟩ : FailedP))) hg
          (by simpa [List.map_map, Function.comp_def] using hln) hstop hatt ⟨p.tp, k, true⟩
          (by simp only [List.filter_nil, List.map_nil, List.append_nil]
              exact List.mem_map.mpr ⟨p.tp, hsub _ hpc, rfl⟩) s hs ho
        exact this
      · cases hf
    · intro k' hk' hkf s hs ho
      injection hk' with hk'; subst hk'
      simp only [handleSendResponse, hkf, Bool.false_eq_true, if_false]
      exact hall _ s hs ho

end Afkak.Producer
