import AfkakProofs.Producer.Frame
import Afkak.Monitor.C19
/-! C19 accounting: the waiting counters are the sums over the queue, in every reachable state. -/
namespace Afkak.Producer
open Afkak.Consts Afkak.Monitor.ProducerTrace Afkak.Monitor.C19

def qMsgs (q : List Req) : Int := (q.map (fun r => (r.msgs.length : Int))).sum
def qBytes (q : List Req) : Int := (q.map (fun r => msgBytes r.msgs)).sum

/-- the counters agree with the queue -/
def AccInv (st : St) : Prop := st.msgCount = qMsgs st.queue ∧ st.byteCount = qBytes st.queue

/-- queue and counters untouched -/
def SameQ (a b : St) : Prop := b.queue = a.queue ∧ b.msgCount = a.msgCount ∧ b.byteCount = a.byteCount

theorem SameQ.rfl' (a : St) : SameQ a a := ⟨rfl, rfl, rfl⟩
theorem SameQ.trans {a b c : St} (h1 : SameQ a b) (h2 : SameQ b c) : SameQ a c := by
  unfold SameQ at *; grind
theorem SameQ.acc {a b : St} (h : SameQ a b) (ha : AccInv a) : AccInv b := by
  unfold SameQ AccInv at *; grind

/-- a handler either leaves queue and counters alone or leaves them consistent (it dispatched) -/
def AccOk (a b : St) : Prop := AccInv a → AccInv b
theorem AccOk.trans {a b c : St} (h1 : AccOk a b) (h2 : AccOk b c) : AccOk a c := fun h => h2 (h1 h)
theorem SameQ.ok {a b : St} (h : SameQ a b) : AccOk a b := h.acc

theorem startLookups_sameQ (cfg : Cfg) (st : St) (rs : List Req) : SameQ st (startLookups cfg st rs).1 := by
  rw [startLookups_frame]; exact ⟨rfl, rfl, rfl⟩
theorem lookupHead_sameQ (cfg : Cfg) (st : St) (r : Req) : SameQ st (lookupHead cfg st r).1 := by
  rw [lookupHead_frame]; exact ⟨rfl, rfl, rfl⟩
theorem metaContinue_sameQ (cfg : Cfg) (st : St) (r : Req) (res : MetaRes) : SameQ st (metaContinue cfg st r res).1 := by
  rw [metaContinue_frame]; exact ⟨rfl, rfl, rfl⟩
theorem sendRequests_sameQ (st : St) (ls : List Lookup) : SameQ st (sendRequests st ls).1 := by
  rw [sendRequests_frame]; exact ⟨rfl, rfl, rfl⟩
theorem handleSendResponse_sameQ (cfg : Cfg) (st : St) (b : Batch) (r : ProdRes) :
    SameQ st (handleSendResponse cfg st b r).1 := by
  rw [handleSendResponse_frame]; exact ⟨rfl, rfl, rfl⟩
theorem deliverAll_sameQ (st : St) (b : Batch) (o : Outcome) : SameQ st (deliverAll st b o).1 := by
  rw [deliverAll_frame]; exact ⟨rfl, rfl, rfl⟩

theorem dispatch_acc (cfg : Cfg) (st : St) : AccInv (dispatch cfg st).1 := by
  have h0 : AccInv { st with queue := [], msgCount := 0, byteCount := 0 } := by simp [AccInv, qMsgs, qBytes]
  have h1 := (startLookups_sameQ cfg { st with queue := [], msgCount := 0, byteCount := 0 } st.queue).acc h0
  simp only [dispatch]
  split
  · have h2 : AccInv (sendRequests { (startLookups cfg { st with queue := [], msgCount := 0, byteCount := 0 } st.queue).1 with
        phase := .lookups (startLookups cfg { st with queue := [], msgCount := 0, byteCount := 0 } st.queue).2.1 }
        (startLookups cfg { st with queue := [], msgCount := 0, byteCount := 0 } st.queue).2.1).1 :=
      (sendRequests_sameQ _ _).acc h1
    split
    · exact h2
    · exact h2
  · exact h1

theorem sendBatch_ok (cfg : Cfg) (st : St) : AccOk st (sendBatch cfg st).1 := by
  simp only [sendBatch]; split
  · exact fun _ => dispatch_acc cfg st
  · exact id

theorem checkSendBatch_ok (cfg : Cfg) (st : St) : AccOk st (checkSendBatch cfg st).1 := by
  simp only [checkSendBatch]; split
  · exact sendBatch_ok cfg st
  · exact id

theorem completeBatch_ok (cfg : Cfg) (st : St) : AccOk st (completeBatch cfg st).1 := by
  simp only [completeBatch]
  exact AccOk.trans (b := resetBatch cfg st) (SameQ.ok ⟨rfl, rfl, rfl⟩) (checkSendBatch_ok cfg _)

theorem finish_ok (cfg : Cfg) (st : St) (r : St × List Ob × Bool) (h : AccOk st r.1) : AccOk st (finish cfg r).1 := by
  simp only [finish]; split
  · exact h.trans (completeBatch_ok cfg r.1)
  · exact h

theorem afterLookups_ok (cfg : Cfg) (st : St) (ls : List Lookup) (obs : List Ob) :
    AccOk st (afterLookups cfg st ls obs).1 := by
  simp only [afterLookups]
  split
  · have h1 : AccOk st (sendRequests { st with phase := .lookups ls } ls).1 :=
      AccOk.trans (b := { st with phase := .lookups ls }) (SameQ.ok ⟨rfl, rfl, rfl⟩) (sendRequests_sameQ _ ls).ok
    split
    · exact h1.trans (completeBatch_ok cfg _)
    · exact h1
  · exact SameQ.ok ⟨rfl, rfl, rfl⟩

theorem sum_filter_split (q : List Req) (sid : Sid) (f : Req → Int) :
    (q.map f).sum = ((q.filter (·.sid ≠ sid)).map f).sum + ((q.filter (·.sid = sid)).map f).sum := by
  induction q with
  | nil => simp
  | cons r rest ih =>
    by_cases h : r.sid = sid <;> simp [h, ih] <;> omega

theorem cancelSend_ok (st : St) (sid : Sid) : AccOk st (cancelSend st sid).1 := by
  simp only [cancelSend]
  split
  · split
    · intro h
      obtain ⟨h1, h2⟩ := h
      have e1 := sum_filter_split st.queue sid (fun r => (r.msgs.length : Int))
      have e2 := sum_filter_split st.queue sid (fun r => msgBytes r.msgs)
      simp only [AccInv, qMsgs, qBytes] at *
      constructor <;> omega
    · exact SameQ.ok ⟨rfl, rfl, rfl⟩
  · exact id

theorem cancelAll_ok (st : St) (l : List Sid) : AccOk st (cancelAll st l).1 := by
  induction l generalizing st with
  | nil => exact id
  | cons s rest ih => simp only [cancelAll]; exact (cancelSend_ok st s).trans (ih _)

theorem zombieTimer_ok (st : St) (tid : Tid) : AccOk st (zombieTimer st tid).1 := by
  simp only [zombieTimer]; split
  · exact SameQ.ok ⟨rfl, rfl, rfl⟩
  · exact id

theorem timerLookups_ok (cfg : Cfg) (st : St) (ls : List Lookup) (tid : Tid) : AccOk st (timerLookups cfg st ls tid).1 := by
  simp only [timerLookups]; split
  · exact (lookupHead_sameQ cfg st _).ok.trans (afterLookups_ok cfg _ _ _)
  · exact zombieTimer_ok st tid

theorem metaDoneLookups_ok (cfg : Cfg) (st : St) (ls : List Lookup) (rid : Rid) (res : MetaRes) :
    AccOk st (metaDoneLookups cfg st ls rid res).1 := by
  simp only [metaDoneLookups]; split
  · exact (metaContinue_sameQ cfg st _ res).ok.trans (afterLookups_ok cfg _ _ _)
  · exact id

theorem cancelLookups_ok (cfg : Cfg) (st : St) (ls : List Lookup) (mouts : List (Rid × MetaRes)) :
    AccOk st (cancelLookups cfg st ls mouts).1 := by
  simp only [cancelLookups]
  exact AccOk.trans (b := { st with zombies := st.zombies ++ (ls.map (cancelLookup mouts)).flatMap (·.2.1) })
    (SameQ.ok ⟨rfl, rfl, rfl⟩) (afterLookups_ok cfg _ _ _)

theorem cancelSending_ok (cfg : Cfg) (st : St) (wipe : Bool) (rid : Rid) (b : Batch) (pout : Option ProdRes) :
    AccOk st (cancelSending cfg st wipe rid b pout).1 := by
  cases pout with
  | none => exact id
  | some r =>
    simp only [cancelSending]
    cases wipe with
    | false => exact finish_ok cfg st _ (handleSendResponse_sameQ cfg st b r).ok
    | true =>
      exact AccOk.trans (b := { st with tmeta := [] }) (SameQ.ok ⟨rfl, rfl, rfl⟩)
        (finish_ok cfg { st with tmeta := [] } _ (handleSendResponse_sameQ cfg _ b r).ok)

theorem cancelRetryWait_ok (cfg : Cfg) (st : St) (tid : Tid) (b : Batch) : AccOk st (cancelRetryWait cfg st tid b).1 := by
  simp only [cancelRetryWait]
  exact finish_ok cfg st _ (deliverAll_sameQ st b _).ok

theorem cancelBatch_ok (cfg : Cfg) (st : St) (wipe : Bool) (pout : Option ProdRes) (mouts : List (Rid × MetaRes)) :
    AccOk st (cancelBatch cfg st wipe pout mouts).1 := by
  simp only [cancelBatch]; split
  · exact id
  · exact cancelLookups_ok _ _ _ _
  · exact cancelSending_ok _ _ _ _ _ _
  · exact cancelRetryWait_ok _ _ _ _

theorem step_acc (cfg : Cfg) (st : St) (e : Ev) (h : AccInv st) : AccInv (step cfg st e).1 := by
  cases e with
  | send sid topic key msgs =>
    simp only [step]
    split
    · exact h
    · split
      · exact (SameQ.ok (a := st) ⟨rfl, rfl, rfl⟩) h
      · simp only [doSend]
        apply checkSendBatch_ok
        obtain ⟨h1, h2⟩ := h
        simp only [AccInv, enqueue, qMsgs, qBytes, List.map_append, List.sum_append, List.map_cons, List.map_nil,
          List.sum_cons, List.sum_nil] at *
        constructor <;> omega
  | cancel sid => simp only [step]; split; exact cancelSend_ok st sid h; exact h
  | tick => simp only [step]; split; exact sendBatch_ok cfg st h; exact h
  | timer tid =>
    simp only [step]; split
    · exact timerLookups_ok cfg st _ tid h
    · split
      · exact (SameQ.ok (a := st) ⟨rfl, rfl, rfl⟩) h
      · exact zombieTimer_ok st tid h
    · exact zombieTimer_ok st tid h
  | advance dt => exact h
  | metaSet topic err parts => exact (SameQ.ok (a := st) ⟨rfl, rfl, rfl⟩) h
  | metaReset topics => exact (SameQ.ok (a := st) ⟨rfl, rfl, rfl⟩) h
  | metaWipe => exact (SameQ.ok (a := st) ⟨rfl, rfl, rfl⟩) h
  | metaDone rid res => simp only [step]; split; exact metaDoneLookups_ok cfg st _ rid res h; exact h
  | produceDone rid res =>
    simp only [step]; split
    · split
      · exact finish_ok cfg st _ (handleSendResponse_sameQ cfg st _ res).ok h
      · exact h
    · exact h
  | stop wipe pout mouts =>
    simp only [step]; split
    · exact h
    · simp only [doStop]
      have h1 := cancelBatch_ok cfg { st with stopping := true } wipe pout mouts ((SameQ.ok (a := st) ⟨rfl, rfl, rfl⟩) h)
      split
      · exact cancelAll_ok _ _ ((SameQ.ok (b := { (cancelBatch cfg { st with stopping := true } wipe pout mouts).1 with looper := false }) ⟨rfl, rfl, rfl⟩) h1)
      · exact cancelAll_ok _ _ h1

theorem acc_init (cfg : Cfg) : AccInv (St.init cfg) := by simp [AccInv, St.init, qMsgs, qBytes]

end Afkak.Producer
