import Afkak.Producer
import Afkak.Monitor.ProducerTrace
/-! Accounting invariant: the waiting counters are the sums over the queue. -/
namespace Afkak.Producer
open Afkak.Consts

def qMsgs (q : List Req) : Int := (q.map (fun r => (r.msgs.length : Int))).sum
def qBytes (q : List Req) : Int := (q.map (fun r => msgBytes r.msgs)).sum

/-- the counters agree with the queue -/
def AccInv (st : St) : Prop := st.msgCount = qMsgs st.queue ∧ st.byteCount = qBytes st.queue

/-- `f` leaves queue and counters alone -/
def SameQ (a b : St) : Prop := b.queue = a.queue ∧ b.msgCount = a.msgCount ∧ b.byteCount = a.byteCount

theorem SameQ.refl (a : St) : SameQ a a := ⟨rfl, rfl, rfl⟩
theorem SameQ.trans {a b c : St} (h1 : SameQ a b) (h2 : SameQ b c) : SameQ a c := by
  unfold SameQ at *; grind
theorem SameQ.acc {a b : St} (h : SameQ a b) (ha : AccInv a) : AccInv b := by
  unfold SameQ AccInv at *; grind

theorem pickPartition_sameQ (cfg : Cfg) (st : St) (t : Topic) (k : Option (List UInt8)) :
    SameQ st (pickPartition cfg st t k).1 := by
  unfold pickPartition setPartitioner SameQ
  split <;> (try split) <;> (try split) <;> (try split) <;> simp

theorem lookupHead_sameQ (cfg : Cfg) (st : St) (r : Req) : SameQ st (lookupHead cfg st r).1 := by
  unfold lookupHead
  split
  · split <;> simp [SameQ]
  · exact pickPartition_sameQ cfg st r.topic r.key

theorem startLookups_sameQ (cfg : Cfg) (st : St) (rs : List Req) : SameQ st (startLookups cfg st rs).1 := by
  induction rs generalizing st with
  | nil => exact SameQ.refl st
  | cons r rest ih =>
    simp only [startLookups]
    exact (lookupHead_sameQ cfg st r).trans (ih _)

end Afkak.Producer
