import Afkak.Producer
import Afkak.Wire.Message
/-! Composition of the Producer model with the wire package's model of `create_message_set` (audit C01-4):
the Producer hands `create_message_set` the `SendRequest`s of a payload, in order; the message list it builds is,
message for message, the payload's `msgs` of the Producer model - same keys, same values, same order. -/
namespace Afkak.Producer.WireCompose
open Afkak Afkak.Producer Afkak.Wire Afkak.Consts

/-- the wire message `create_message` makes of a Producer-model message; `body`: the bytes of a value of a given
    size (the model abstracts a value to its size) -/
def wireMsg (ext : Ext) (body : Nat → Bytes) (magic : Int) (m : Msg) : Message :=
  if magic = 1 then { magic := 1, attributes := 0, key := m.key, value := m.value.map body, timestamp := some ext.nowMs }
  else { magic := 0, attributes := 0, key := m.key, value := m.value.map body }

/-- what the Producer passes to `create_message_set` for a send: `(req.key, req.messages)` -/
def sendArg (body : Nat → Bytes) (r : Req) : Option Bytes × List (Option Bytes) := (r.key, r.msgs.map (·.map body))

theorem createMessagesFor_eq (ext : Ext) (body : Nat → Bytes) (magic : Int) (key : Option Bytes) (vs : List (Option Nat)) :
    createMessagesFor ext magic key (vs.map (·.map body)) =
      .ok ((vs.map (fun v => (⟨key, v⟩ : Msg))).map (wireMsg ext body magic)) := by
  induction vs with
  | nil => rfl
  | cons v rest ih =>
    simp only [List.map_cons, createMessagesFor, ih]
    by_cases hm : magic = 1
    · simp [createMessage, wireMsg, hm]
    · simp [createMessage, wireMsg, hm]

/-- `create_message_set`'s message list for the sends `rs` IS the list of their messages (`Req.wire`), in order -/
theorem createMsgList_eq (ext : Ext) (body : Nat → Bytes) (magic : Int) (rs : List Req) :
    createMsgList ext magic (rs.map (sendArg body)) = .ok ((rs.flatMap (·.wire)).map (wireMsg ext body magic)) := by
  induction rs with
  | nil => rfl
  | cons r rest ih =>
    simp only [List.map_cons, sendArg, createMsgList, List.flatMap_cons, List.map_append]
    rw [createMessagesFor_eq, ih]
    rfl

/-- uncompressed: the payload's message set is exactly those messages -/
theorem createMessageSet_none (ext : Ext) (body : Nat → Bytes) (magic : Int) (rs : List Req) (p : Payload)
    (hp : p.msgs = rs.flatMap (·.wire)) :
    createMessageSet ext (rs.map (sendArg body)) codecNone magic = .ok (p.msgs.map (wireMsg ext body magic)) := by
  simp only [createMessageSet, createMsgList_eq, hp, if_true]

/-- gzip: one wrapper message whose value is the compressed encoding of exactly those messages -/
theorem createMessageSet_gzip (ext : Ext) (body : Nat → Bytes) (magic : Int) (rs : List Req) (p : Payload)
    (hp : p.msgs = rs.flatMap (·.wire)) :
    createMessageSet ext (rs.map (sendArg body)) codecGzip magic =
      (match createGzipMessage ext (p.msgs.map (wireMsg ext body magic)) magic with
       | .error e => .error e
       | .ok m => .ok [m]) := by
  simp only [createMessageSet, createMsgList_eq, hp]
  rfl

end Afkak.Producer.WireCompose
