import AfkakProofs.Producer.Frame
/-! Fields that only the top level of `step` changes: `nextSid`, `stopping`, `looper`. -/
namespace Afkak.Producer
open Afkak.Consts

def Stat (a b : St) : Prop := b.nextSid = a.nextSid ∧ b.stopping = a.stopping ∧ b.looper = a.looper

theorem Stat.rfl' (a : St) : Stat a a := ⟨rfl, rfl, rfl⟩
theorem Stat.trans {a b c : St} (h1 : Stat a b) (h2 : Stat b c) : Stat a c := by
  unfold Stat at *; grind
theorem CtlSame.stat {a b : St} (h : CtlSame a b) : Stat a b := ⟨h.2.2.2.1, h.2.1, h.1⟩

theorem lookupHead_stat (cfg : Cfg) (st : St) (r : Req) : Stat st (lookupHead cfg st r).1 := by
  rw [lookupHead_frame]; exact ⟨rfl, rfl, rfl⟩
theorem metaContinue_stat (cfg : Cfg) (st : St) (r : Req) (res : MetaRes) : Stat st (metaContinue cfg st r res).1 := by
  rw [metaContinue_frame]; exact ⟨rfl, rfl, rfl⟩
theorem sendRequests_stat (st : St) (ls : List Lookup) : Stat st (sendRequests st ls).1 := by
  rw [sendRequests_frame]; exact ⟨rfl, rfl, rfl⟩
theorem handleSendResponse_stat (cfg : Cfg) (st : St) (b : Batch) (r : ProdRes) :
    Stat st (handleSendResponse cfg st b r).1 := by
  rw [handleSendResponse_frame]; exact ⟨rfl, rfl, rfl⟩
theorem deliverAll_stat (st : St) (b : Batch) (o : Outcome) : Stat st (deliverAll st b o).1 := by
  rw [deliverAll_frame]; exact ⟨rfl, rfl, rfl⟩
theorem completeBatch_stat (cfg : Cfg) (st : St) : Stat st (completeBatch cfg st).1 := (completeBatch_ctl cfg st).stat
theorem checkSendBatch_stat (cfg : Cfg) (st : St) : Stat st (checkSendBatch cfg st).1 := (checkSendBatch_ctl cfg st).stat
theorem sendBatch_stat (cfg : Cfg) (st : St) : Stat st (sendBatch cfg st).1 := (sendBatch_ctl cfg st).stat

theorem finish_stat (cfg : Cfg) (st : St) (r : St × List Ob × Bool) (h : Stat st r.1) : Stat st (finish cfg r).1 := by
  simp only [finish]; split
  · exact h.trans (completeBatch_stat cfg r.1)
  · exact h

theorem afterLookups_stat (cfg : Cfg) (st : St) (ls : List Lookup) (obs : List Ob) :
    Stat st (afterLookups cfg st ls obs).1 := by
  simp only [afterLookups]
  split
  · have h1 : Stat st (sendRequests { st with phase := .lookups ls } ls).1 :=
      Stat.trans (b := { st with phase := .lookups ls }) ⟨rfl, rfl, rfl⟩ (sendRequests_stat _ ls)
    split
    · exact h1.trans (completeBatch_stat cfg _)
    · exact h1
  · exact ⟨rfl, rfl, rfl⟩

theorem cancelSend_stat (st : St) (sid : Sid) : Stat st (cancelSend st sid).1 := by
  simp only [cancelSend]; repeat' split
  all_goals exact ⟨rfl, rfl, rfl⟩

theorem cancelAll_stat (st : St) (l : List Sid) : Stat st (cancelAll st l).1 := by
  induction l generalizing st with
  | nil => exact Stat.rfl' st
  | cons s rest ih => simp only [cancelAll]; exact (cancelSend_stat st s).trans (ih _)

theorem doRetry_stat (st : St) (b : Batch) (tps : List TP) : Stat st (doRetry st b tps).1 := ⟨rfl, rfl, rfl⟩

theorem zombieTimer_stat (st : St) (tid : Tid) : Stat st (zombieTimer st tid).1 := by
  simp only [zombieTimer]; split <;> exact ⟨rfl, rfl, rfl⟩

theorem timerLookups_stat (cfg : Cfg) (st : St) (ls : List Lookup) (tid : Tid) : Stat st (timerLookups cfg st ls tid).1 := by
  simp only [timerLookups]; split
  · exact (lookupHead_stat cfg st _).trans (afterLookups_stat cfg _ _ _)
  · exact zombieTimer_stat st tid

theorem metaDoneLookups_stat (cfg : Cfg) (st : St) (ls : List Lookup) (rid : Rid) (res : MetaRes) :
    Stat st (metaDoneLookups cfg st ls rid res).1 := by
  simp only [metaDoneLookups]; split
  · exact (metaContinue_stat cfg st _ res).trans (afterLookups_stat cfg _ _ _)
  · exact Stat.rfl' st

theorem cancelLookups_stat (cfg : Cfg) (st : St) (ls : List Lookup) (mouts : List (Rid × MetaRes)) :
    Stat st (cancelLookups cfg st ls mouts).1 := by
  simp only [cancelLookups]
  exact Stat.trans (b := { st with zombies := st.zombies ++ (ls.map (cancelLookup mouts)).flatMap (·.2.1) })
    ⟨rfl, rfl, rfl⟩ (afterLookups_stat cfg _ _ _)

theorem cancelSending_stat (cfg : Cfg) (st : St) (wipe : Bool) (rid : Rid) (b : Batch) (pout : Option ProdRes) :
    Stat st (cancelSending cfg st wipe rid b pout).1 := by
  cases pout with
  | none => exact Stat.rfl' st
  | some r =>
    simp only [cancelSending]
    cases wipe with
    | false => exact finish_stat cfg st _ (handleSendResponse_stat cfg st b r)
    | true =>
      exact Stat.trans (b := { st with tmeta := [] }) ⟨rfl, rfl, rfl⟩
        (finish_stat cfg { st with tmeta := [] } _ (handleSendResponse_stat cfg _ b r))

theorem cancelRetryWait_stat (cfg : Cfg) (st : St) (tid : Tid) (b : Batch) : Stat st (cancelRetryWait cfg st tid b).1 := by
  simp only [cancelRetryWait]
  exact finish_stat cfg st _ (deliverAll_stat st b _)

theorem cancelBatch_stat (cfg : Cfg) (st : St) (wipe : Bool) (pout : Option ProdRes) (mouts : List (Rid × MetaRes)) :
    Stat st (cancelBatch cfg st wipe pout mouts).1 := by
  simp only [cancelBatch]; split
  · exact Stat.rfl' st
  · exact cancelLookups_stat ..
  · exact cancelSending_stat ..
  · exact cancelRetryWait_stat ..

/-- `nextSid` moves only by a valid `send` -/
theorem step_nextSid (cfg : Cfg) (st : St) (e : Ev) :
    (step cfg st e).1.nextSid = match e with
      | .send sid _ _ _ => if sid = st.nextSid then st.nextSid + 1 else st.nextSid
      | _ => st.nextSid := by
  cases e with
  | send sid topic key msgs =>
    by_cases h : sid = st.nextSid
    · simp only [step, h, ne_eq, not_true_eq_false, if_false, if_true]
      split
      · rfl
      · simp only [doSend]; rw [(checkSendBatch_stat cfg _).1]; rfl
    · simp only [step, h, ne_eq, not_false_eq_true, if_true, if_false]
  | cancel sid =>
    simp only [step]; split
    · exact (cancelSend_stat st sid).1
    · rfl
  | tick =>
    simp only [step]; split
    · exact (sendBatch_stat cfg st).1
    · rfl
  | timer tid =>
    simp only [step]; split
    · exact (timerLookups_stat ..).1
    · split
      · rfl
      · exact (zombieTimer_stat ..).1
    · exact (zombieTimer_stat ..).1
  | advance dt => rfl
  | metaSet topic err parts => rfl
  | metaReset topics => rfl
  | metaWipe => rfl
  | metaDone rid res =>
    simp only [step]; split
    · exact (metaDoneLookups_stat ..).1
    · rfl
  | produceDone rid res =>
    simp only [step]; split
    · split
      · exact (finish_stat cfg st _ (handleSendResponse_stat cfg st _ res)).1
      · rfl
    · rfl
  | stop wipe pout mouts =>
    simp only [step]; split
    · rfl
    · simp only [doStop]
      split
      · rw [(cancelAll_stat _ _).1]; exact (cancelBatch_stat cfg { st with stopping := true } wipe pout mouts).1
      · rw [(cancelAll_stat _ _).1]; exact (cancelBatch_stat cfg { st with stopping := true } wipe pout mouts).1

end Afkak.Producer
