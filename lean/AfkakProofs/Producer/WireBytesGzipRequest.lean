import AfkakProofs.Producer.WireBytesRequest
/-! The whole produce request with gzip payloads, down to the bytes: each partition of the frame holds ONE wrapper
entry whose value decompresses to bytes that parse to exactly the payload's messages. -/
namespace Afkak.Producer.WireBytes
open Afkak Afkak.Producer Afkak.Wire Afkak.Codec Afkak.Consts Afkak.Monitor.C04 Afkak.Producer.WireCompose

set_option synthInstance.maxSize 100000

/-- what `create_message_set(reqs, CODEC_GZIP, magic)` returns for the sends of a payload, as the grammar sees it -/
theorem gzip_wrapper (ext : Ext) (body : Nat → Bytes) (magic : Int) (hm : magic = 0 ∨ magic = 1)
    (rs : List Req) (p : Payload) (hp : p.msgs = rs.flatMap (·.wire)) (ms : List Message)
    (h : createMessageSet ext (rs.map (sendArg body)) codecGzip magic = .ok ms)
    (hinv : ∀ b z, ext.gzip b = .ok z → ext.gunzip (some z) = .ok b) :
    ∃ w gz, ms = [w] ∧ w.value = some gz
      ∧ specEntries ext.nowMs ms = some [wrapperEntry ext.nowMs magic gz]
      ∧ ∃ inner, ext.gunzip (some gz) = .ok inner
          ∧ (Spec.messageSet ext.crc).dec inner = some (p.msgs.map (brokerEntry ext.nowMs body magic)) := by
  have hvalid : (Spec.messageSet ext.crc).valid (p.msgs.map (brokerEntry ext.nowMs body magic)) = true := by
    have h' := h
    rw [WireCompose.createMessageSet_gzip ext body magic rs p hp] at h'
    cases henc : encodeMessageSet ext (p.msgs.map (wireMsg ext body magic)) with
    | error e => simp [createGzipMessage, henc] at h'
    | ok enc => exact msgset_valid_of_encode ext 0 _ _ enc 0 rfl henc (specEntries_wire ext body magic p.msgs)
  obtain ⟨w, gz, rfl, ha, hk, hv, hmg, hts, hgz⟩ := Afkak.Wire.createMessageSet_gzip ext _ magic ms h
  rw [plainEntries_sendArg, ← hp] at hgz
  refine ⟨w, gz, rfl, hv, ?_, _, hinv _ _ hgz, (Spec.messageSet ext.crc).law _ hvalid⟩
  obtain ⟨wm, wa, wk, wv, wt⟩ := w
  simp only at ha hk hv hmg hts
  subst ha hk hv hmg hts
  rcases hm with rfl | rfl <;> rfl

/-- the `ProduceRequest(topic, partition, msgSet)` for a payload whose message set is `ms p` -/
def wireReqWith (tn : Topic → Bytes) (ms : Payload → List Message) (p : Payload) : ProduceReq :=
  ⟨some (tn p.tp.topic), p.tp.part, ms p⟩

/-- the compressor's output in the wrapper `ms p` -/
def gzOf (ms : Payload → List Message) (p : Payload) : Bytes :=
  match ms p with
  | [w] => w.value.getD []
  | _ => []

theorem keyed_wireReqWith (nowMs : Int) (tn : Topic → Bytes) (ms : Payload → List Message)
    (ent : Payload → List (Int × Spec.Msg)) :
    ∀ (ps : List Payload), (∀ p ∈ ps, specEntries nowMs (ms p) = some (ent p)) →
      keyed ProduceReq.topic ProduceReq.partition (fun q => specEntries nowMs q.messages) (ps.map (wireReqWith tn ms))
        = some (ps.map (fun p => (tn p.tp.topic, (p.tp.part, ent p)))) := by
  intro ps
  unfold keyed
  induction ps with
  | nil => intro _; rfl
  | cons p rest ih =>
    intro h
    rw [List.map_cons, mapM_option_cons, ih (fun q hq => h q (List.mem_cons_of_mem _ hq))]
    simp only [keyOne, wireReqWith, h p List.mem_cons_self, List.map_cons]

/-- **The whole produce request with gzip, down to the bytes.**  For the payload list of an `Ob.produce`, each
    payload `p` made of the sends `sends p` (`hp`, `C01_payload_integrity`) and given the message set `ms p` that
    `create_message_set(sends, CODEC_GZIP, magic)` returned (`hms`), a decompressor that undoes the compressor
    (`hinv`; both externals), a request version the encoder implements: WHENEVER `encode_produce_request` returns
    a frame, it parses under the grammar's request decoder to the header, `acks`, `timeout` and the payloads nested
    by topic, each partition holding exactly ONE wrapper entry (offset 0, format `magic`, gzip codec, null key)
    whose value `gzOf ms p` decompresses to bytes that parse under the grammar's message-set decoder to exactly one
    entry per message of the payload, in order, key and value kept. -/
theorem request_bytes_decode_gzip_emitted (ext : Ext) (body : Nat → Bytes) (magic : Int) (hm : magic = 0 ∨ magic = 1)
    (tn : Topic → Bytes) (payloads : List Payload) (sends : Payload → List Req)
    (hp : ∀ p ∈ payloads, p.msgs = (sends p).flatMap (·.wire)) (ms : Payload → List Message)
    (hms : ∀ p ∈ payloads, createMessageSet ext ((sends p).map (sendArg body)) codecGzip magic = .ok (ms p))
    (hinv : ∀ b z, ext.gzip b = .ok z → ext.gunzip (some z) = .ok b)
    (cid : Bytes) (corr acks timeout ver v : Int) (hv : implementedVersion ver = some v) (frame : Bytes)
    (h : encodeProduceRequest ext cid corr (payloads.map (wireReqWith tn ms)) acks timeout ver = .ok frame) :
    ∃ nested,
      (Spec.request (Spec.produceRequest ext.crc)).dec frame = some (hdr 0 v corr cid, acks, timeout, nested)
      ∧ nested = regroup (payloads.map
          (fun p => (tn p.tp.topic, (p.tp.part, [wrapperEntry ext.nowMs magic (gzOf ms p)]))))
      ∧ (∀ t q, (∃ e ∈ nested, e.1 = t ∧ q ∈ e.2) ↔
          ∃ p ∈ payloads, t = tn p.tp.topic ∧ q = (p.tp.part, [wrapperEntry ext.nowMs magic (gzOf ms p)]))
      ∧ (∀ p ∈ payloads, ∃ inner, ext.gunzip (some (gzOf ms p)) = .ok inner
          ∧ (Spec.messageSet ext.crc).dec inner = some (p.msgs.map (brokerEntry ext.nowMs body magic))) := by
  have hw : ∀ p ∈ payloads, specEntries ext.nowMs (ms p) = some [wrapperEntry ext.nowMs magic (gzOf ms p)]
      ∧ ∃ inner, ext.gunzip (some (gzOf ms p)) = .ok inner
          ∧ (Spec.messageSet ext.crc).dec inner = some (p.msgs.map (brokerEntry ext.nowMs body magic)) := by
    intro p hpm
    obtain ⟨w, gz, h1, h2, h3, h4⟩ := gzip_wrapper ext body magic hm (sends p) p (hp p hpm) (ms p) (hms p hpm) hinv
    have hg : gzOf ms p = gz := by simp only [gzOf, h1, h2, Option.getD_some]
    rw [hg]
    exact ⟨h3, h4⟩
  have hk := keyed_wireReqWith ext.nowMs tn ms (fun p => [wrapperEntry ext.nowMs magic (gzOf ms p)]) payloads
    (fun p hpm => (hw p hpm).1)
  have hvalid := produce_valid_of_encode h hv hk
  refine ⟨_, ?_, rfl, ?_, fun p hpm => (hw p hpm).2⟩
  · rw [produce_bytes h hv hk]
    exact (Spec.request (Spec.produceRequest ext.crc)).law _ hvalid
  · intro t q
    rw [regroup_mem]
    constructor
    · intro hmem
      obtain ⟨p, hpm, he⟩ := List.mem_map.mp hmem
      exact ⟨p, hpm, (congrArg Prod.fst he).symm, (congrArg Prod.snd he).symm⟩
    · rintro ⟨p, hpm, rfl, rfl⟩
      exact List.mem_map.mpr ⟨p, hpm, rfl⟩

/-! non-vacuity: the example request of `WireBytes.lean` with gzip -/
def exSends (p : Payload) : List Req := if p = exP then exRs else [⟨2, 1, none, [some 1]⟩]
def exMs (p : Payload) : List Message :=
  match createMessageSet exExt ((exSends p).map (sendArg exBody)) codecGzip 1 with
  | .ok ms => ms
  | .error _ => []
example : ∀ p ∈ [exP, exP2], p.msgs = (exSends p).flatMap (·.wire) := by decide
example : ∀ p ∈ [exP, exP2], createMessageSet exExt ((exSends p).map (sendArg exBody)) codecGzip 1 = .ok (exMs p) := by
  intro p hp
  simp only [List.mem_cons, List.not_mem_nil, or_false] at hp
  rcases hp with rfl | rfl <;> rfl
set_option maxRecDepth 8192 in
example : ∃ frame, encodeProduceRequest exExt [99] 5 ([exP, exP2].map (wireReqWith exTn exMs)) (-1) 1000 8 = .ok frame :=
  ⟨_, rfl⟩

end Afkak.Producer.WireBytes
