import Afkak.ProducerR
import AfkakProofs.Producer.Queue
/-! `Afkak/ProducerR.lean` is a conservative extension of `Afkak/Producer.lean`: as long as no send has a
hook, the re-entrant machine does exactly what the flat one does - same state, same observations - whatever
executes the (absent) hooks' calls. -/
namespace Afkak.ProducerR
open Afkak.Consts Afkak.Producer

variable (cfg : Cfg) (act : Act)

/-- the re-entrant state that corresponds to a flat one (no hooks, no chain callback executing) -/
def ofCore (c : St) : StR := { core := c, hooks := [], running := false }

theorem fired_nohook (st : StR) (s : Sid) (o : Outcome) (h : st.hooks = []) :
    fired act st s o = (st, [.ob (.fire s o)]) := by
  simp [fired, hookOf, h]

/-! ### loops: whatever `running` is -/

theorem deliver_flat (st : StR) (sids : List Sid) (o : Outcome) (h : st.hooks = []) :
    deliver act st sids o =
      ({ st with core := { st.core with outstanding := (Producer.deliver st.core.outstanding sids o).1 } },
        lift (Producer.deliver st.core.outstanding sids o).2) := by
  induction sids generalizing st with
  | nil => simp [deliver, Producer.deliver, lift]
  | cons s rest ih =>
    simp only [deliver, Producer.deliver]
    split
    · rw [fired_nohook act (eraseOut st s) _ _ h]
      simp only
      rw [ih (eraseOut st s) h]
      simp [eraseOut, lift]
    · exact ih st h

theorem deliverMany_flat (st : StR) (l : List (List Sid × Outcome)) (h : st.hooks = []) :
    deliverMany act st l =
      ({ st with core := { st.core with outstanding := (Producer.deliverMany st.core.outstanding l).1 } },
        lift (Producer.deliverMany st.core.outstanding l).2) := by
  induction l generalizing st with
  | nil => simp [deliverMany, Producer.deliverMany, lift]
  | cons x rest ih =>
    obtain ⟨sids, o⟩ := x
    simp only [deliverMany, Producer.deliverMany]
    rw [deliver_flat act st _ _ h]
    simp only
    have := ih { st with core := { st.core with outstanding := (Producer.deliver st.core.outstanding sids o).1 } } h
    rw [this]; simp [lift]

theorem procResults_flat (ls : List Lookup) (st : StR) (gs : List Payload) (h : st.hooks = []) :
    procResults act ls st gs =
      ({ st with core := { st.core with outstanding := (Producer.procResults ls st.core.outstanding gs).1 } },
        (Producer.procResults ls st.core.outstanding gs).2.1,
        lift (Producer.procResults ls st.core.outstanding gs).2.2) := by
  induction ls generalizing st gs with
  | nil => simp [procResults, Producer.procResults, lift]
  | cons l rest ih =>
    simp only [procResults, Producer.procResults]
    by_cases hs : l.req.sid ∈ st.core.outstanding
    · simp only [hs, if_true]
      cases hpc : l.pc with
      | done r =>
        cases r with
        | part p => exact ih st _ h
        | fail k =>
          simp only
          rw [fired_nohook act (eraseOut st l.req.sid) _ _ h]
          simp only
          rw [ih (eraseOut st l.req.sid) _ h]
          simp [eraseOut, lift]
      | waitMeta rid => exact ih st _ h
      | waitBackoff tid => exact ih st _ h
    · simp only [hs, if_false]
      exact ih st _ h


theorem lift_append (a b : List Ob) : lift (a ++ b) = lift a ++ lift b := by simp [lift]

theorem checkRetry_flat (st : StR) (b : Batch) (f : List FailedP) (h : st.hooks = []) :
    checkRetry cfg act st b f =
      ({ st with core := (Producer.checkRetry cfg st.core b f).1 }, lift (Producer.checkRetry cfg st.core b f).2.1,
        (Producer.checkRetry cfg st.core b f).2.2) := by
  simp only [checkRetry, Producer.checkRetry]
  split
  · simp [lift]
  · split
    · rw [deliverMany_flat act st _ h]
      simp only
      split
      · rw [deliver_flat act]
        · simp [lift]
        · exact h
      · simp [lift]
    · rfl

theorem handleResults_flat (st : StR) (b : Batch) (rs : List Resp) (fs : List FailedP) (h : st.hooks = []) :
    handleResults cfg act st b rs fs =
      ({ st with core := (Producer.handleResults cfg st.core b rs fs).1 },
        lift (Producer.handleResults cfg st.core b rs fs).2.1, (Producer.handleResults cfg st.core b rs fs).2.2) := by
  simp only [handleResults, Producer.handleResults]
  rw [deliverMany_flat act st _ h]
  simp only
  split
  · rfl
  · rw [checkRetry_flat cfg act]
    · simp [lift]
    · exact h

theorem deliverAll_flat (st : StR) (b : Batch) (o : Outcome) (h : st.hooks = []) :
    deliverAll act st b o =
      ({ st with core := (Producer.deliverAll st.core b o).1 }, lift (Producer.deliverAll st.core b o).2.1,
        (Producer.deliverAll st.core b o).2.2) := by
  simp only [deliverAll, Producer.deliverAll]
  rw [deliver_flat act st _ _ h]

theorem cancelSend_flat (st : StR) (sid : Sid) (h : st.hooks = []) :
    cancelSend act st sid =
      ({ st with core := (Producer.cancelSend st.core sid).1 }, lift (Producer.cancelSend st.core sid).2) := by
  simp only [cancelSend]
  have : (Producer.cancelSend st.core sid).2 = [] ∨ ∃ o, (Producer.cancelSend st.core sid).2 = [.fire sid o] := by
    simp only [Producer.cancelSend]; repeat' split
    all_goals simp
  rcases this with h0 | ⟨o, h1⟩
  · rw [h0]
  · rw [h1]
    simp only
    rw [fired_nohook act]
    · rfl
    · exact h

theorem cancelAll_flat (st : StR) (l : List Sid) (h : st.hooks = []) :
    cancelAll act st l =
      ({ st with core := (Producer.cancelAll st.core l).1 }, lift (Producer.cancelAll st.core l).2) := by
  induction l generalizing st with
  | nil => simp [cancelAll, Producer.cancelAll, lift]
  | cons s rest ih =>
    simp only [cancelAll, Producer.cancelAll]
    rw [cancelSend_flat act st _ h]
    simp only
    have := ih { st with core := (Producer.cancelSend st.core s).1 } h
    rw [this]; simp [lift]


/-! ### handlers: from a flat state to a flat state -/

theorem sendRequests_flat (c : St) (ls : List Lookup) :
    sendRequests act (ofCore c) ls =
      (ofCore (Producer.sendRequests c ls).1, lift (Producer.sendRequests c ls).2.1, (Producer.sendRequests c ls).2.2) := by
  simp only [sendRequests, Producer.sendRequests, ofCore]
  by_cases hs : c.stopping = true
  · simp [hs, lift]
  · have hs' : c.stopping = false := by simpa using hs
    have hp := procResults_flat act ls { core := c, hooks := [], running := true } [] rfl
    simp only [hs', Bool.false_eq_true, if_false, hp, Bool.or_false]
    by_cases hg : (Producer.procResults ls c.outstanding []).2.1.isEmpty = true
    · simp [hg, lift]
    · simp [hg, lift]

/-- `d` does what the flat `dispatch` does -/
def FlatDispatch (d : StR → StR × List ObR) : Prop :=
  ∀ c : St, d (ofCore c) = (ofCore (Producer.dispatch cfg c).1, lift (Producer.dispatch cfg c).2)

theorem completeWith_flat (d : StR → StR × List ObR) (hd : FlatDispatch cfg d) (c : St) :
    completeWith cfg d (ofCore c) = (ofCore (Producer.completeBatch cfg c).1, lift (Producer.completeBatch cfg c).2) := by
  simp only [completeWith, Producer.completeBatch, Producer.checkSendBatch, Producer.sendBatch, ofCore]
  by_cases h1 : thresholdMet cfg (resetBatch cfg c) = true
  · by_cases h2 : canDispatch (resetBatch cfg c) = true
    · simp only [h1, h2, Bool.and_self, if_true]
      exact hd (resetBatch cfg c)
    · simp [h1, h2, lift]
  · simp [h1, lift]

/-- `dispatchN`, with the look-ups started named -/
theorem dispatchN_unfold (n : Nat) (st : StR) (r : St × List Lookup × List Ob)
    (hr : startLookups cfg { st.core with queue := [], msgCount := 0, byteCount := 0 } st.core.queue = r) :
    dispatchN cfg act (n + 1) st =
      (if r.2.1.all (·.pc.isDone) then
        (if (sendRequests act { st with core := { r.1 with phase := .lookups r.2.1 } } r.2.1).2.2 then
          ((completeWith cfg (dispatchN cfg act n) (sendRequests act { st with core := { r.1 with phase := .lookups r.2.1 } } r.2.1).1).1,
            lift r.2.2 ++ (sendRequests act { st with core := { r.1 with phase := .lookups r.2.1 } } r.2.1).2.1 ++
              (completeWith cfg (dispatchN cfg act n) (sendRequests act { st with core := { r.1 with phase := .lookups r.2.1 } } r.2.1).1).2)
         else ((sendRequests act { st with core := { r.1 with phase := .lookups r.2.1 } } r.2.1).1,
            lift r.2.2 ++ (sendRequests act { st with core := { r.1 with phase := .lookups r.2.1 } } r.2.1).2.1))
       else ({ st with core := { r.1 with phase := .lookups r.2.1 } }, lift r.2.2)) := by
  subst hr
  simp only [dispatchN]

theorem dispatch_unfold (c : St) (r : St × List Lookup × List Ob)
    (hr : startLookups cfg { c with queue := [], msgCount := 0, byteCount := 0 } c.queue = r) :
    Producer.dispatch cfg c =
      (if r.2.1.all (·.pc.isDone) then
        ((if (Producer.sendRequests { r.1 with phase := .lookups r.2.1 } r.2.1).2.2 then
            resetBatch cfg (Producer.sendRequests { r.1 with phase := .lookups r.2.1 } r.2.1).1
          else (Producer.sendRequests { r.1 with phase := .lookups r.2.1 } r.2.1).1),
          r.2.2 ++ (Producer.sendRequests { r.1 with phase := .lookups r.2.1 } r.2.1).2.1)
       else ({ r.1 with phase := .lookups r.2.1 }, r.2.2)) := by
  subst hr
  simp only [Producer.dispatch]

theorem dispatchN_flat (n : Nat) : FlatDispatch cfg (dispatchN cfg act (n + 1)) := by
  intro c
  have hq0 : (startLookups cfg { c with queue := [], msgCount := 0, byteCount := 0 } c.queue).1.queue = [] :=
    (startLookups_sameQ cfg { c with queue := [], msgCount := 0, byteCount := 0 } c.queue).1
  generalize hr : startLookups cfg { c with queue := [], msgCount := 0, byteCount := 0 } c.queue = r at hq0
  rw [dispatchN_unfold cfg act n (ofCore c) r hr, dispatch_unfold cfg c r hr]
  have hsr := sendRequests_flat act { r.1 with phase := .lookups r.2.1 } r.2.1
  simp only [ofCore] at hsr ⊢
  simp only [hsr]
  by_cases hd : r.2.1.all (·.pc.isDone) = true
  · simp only [hd, if_true]
    by_cases hres : (Producer.sendRequests { r.1 with phase := .lookups r.2.1 } r.2.1).2.2 = true
    · simp only [hres, if_true]
      -- the nested `_check_send_batch` finds the queue empty
      have hq3 : (Producer.sendRequests { r.1 with phase := .lookups r.2.1 } r.2.1).1.queue = [] := by
        rw [(sendRequests_sameQ _ _).1]; exact hq0
      have hc : canDispatch (resetBatch cfg (Producer.sendRequests { r.1 with phase := .lookups r.2.1 } r.2.1).1) = false := by
        simp [canDispatch, resetBatch, hq3]
      simp only [completeWith, hc, Bool.and_false, Bool.false_eq_true, if_false]
      simp [lift]
    · simp only [hres, Bool.false_eq_true, if_false]
      simp [lift]
  · simp only [hd, Bool.false_eq_true, if_false]

theorem dispatch_flat : FlatDispatch cfg (dispatch cfg act) := dispatchN_flat cfg act 63

theorem sendBatch_flat (c : St) :
    sendBatch cfg act (ofCore c) = (ofCore (Producer.sendBatch cfg c).1, lift (Producer.sendBatch cfg c).2) := by
  simp only [sendBatch, Producer.sendBatch]
  by_cases h : canDispatch c = true
  · simp only [ofCore] at *
    simp only [h, if_true]
    exact dispatch_flat cfg act c
  · simp [ofCore, h, lift]

theorem checkSendBatch_flat (c : St) :
    checkSendBatch cfg act (ofCore c) = (ofCore (Producer.checkSendBatch cfg c).1, lift (Producer.checkSendBatch cfg c).2) := by
  simp only [checkSendBatch, Producer.checkSendBatch]
  by_cases h : thresholdMet cfg c = true
  · have : thresholdMet cfg (ofCore c).core = true := h
    simp only [this, h, if_true]
    exact sendBatch_flat cfg act c
  · have : ¬ thresholdMet cfg (ofCore c).core = true := h
    simp [this, h, lift]

theorem completeBatch_flat (c : St) :
    completeBatch cfg act (ofCore c) = (ofCore (Producer.completeBatch cfg c).1, lift (Producer.completeBatch cfg c).2) :=
  completeWith_flat cfg _ (dispatch_flat cfg act) c

theorem finish_flat (c : St) (obs : List Ob) (r : Bool) :
    finish cfg act (ofCore c, lift obs, r) = (ofCore (Producer.finish cfg (c, obs, r)).1, lift (Producer.finish cfg (c, obs, r)).2) := by
  simp only [finish, Producer.finish]
  cases r with
  | true =>
    simp only [if_true]
    rw [completeBatch_flat]
    simp [lift]
  | false => simp

theorem afterLookups_flat (c : St) (ls : List Lookup) (obs : List Ob) :
    afterLookups cfg act (ofCore c) ls obs =
      (ofCore (Producer.afterLookups cfg c ls obs).1, lift (Producer.afterLookups cfg c ls obs).2) := by
  simp only [afterLookups, Producer.afterLookups]
  by_cases hd : ls.all (·.pc.isDone) = true
  · simp only [hd, if_true]
    have := sendRequests_flat act { c with phase := .lookups ls } ls
    simp only [ofCore] at this ⊢
    simp only [this]
    by_cases hr : (Producer.sendRequests { c with phase := .lookups ls } ls).2.2 = true
    · simp only [hr, if_true]
      have h2 := completeBatch_flat cfg act (Producer.sendRequests { c with phase := .lookups ls } ls).1
      simp only [ofCore] at h2
      simp only [h2]
      simp [lift]
    · simp only [hr, Bool.false_eq_true, if_false]
      simp [lift]
  · simp [hd, ofCore, lift]

theorem handleSendResponse_flat (c : St) (b : Batch) (r : ProdRes) :
    handleSendResponse cfg act (ofCore c) b r =
      (ofCore (Producer.handleSendResponse cfg c b r).1, lift (Producer.handleSendResponse cfg c b r).2.1,
        (Producer.handleSendResponse cfg c b r).2.2) := by
  have hda : ∀ o, deliverAll act { core := c, hooks := [], running := true } b o =
      ({ core := (Producer.deliverAll c b o).1, hooks := [], running := true }, lift (Producer.deliverAll c b o).2.1,
        (Producer.deliverAll c b o).2.2) := fun o => deliverAll_flat act _ b o rfl
  have hhr : ∀ rs fs, handleResults cfg act { core := c, hooks := [], running := true } b rs fs =
      ({ core := (Producer.handleResults cfg c b rs fs).1, hooks := [], running := true },
        lift (Producer.handleResults cfg c b rs fs).2.1, (Producer.handleResults cfg c b rs fs).2.2) :=
    fun rs fs => handleResults_flat cfg act _ b rs fs rfl
  cases r with
  | none => simp only [handleSendResponse, Producer.handleSendResponse, ofCore, hda]
  | responses rs =>
    cases rs with
    | nil => simp only [handleSendResponse, Producer.handleSendResponse, ofCore, hda]
    | cons a l => simp only [handleSendResponse, Producer.handleSendResponse, ofCore, hhr]
  | failed rs fs => simp only [handleSendResponse, Producer.handleSendResponse, ofCore, hhr]
  | err k =>
    simp only [handleSendResponse, Producer.handleSendResponse, ofCore]
    split
    · simp only [hhr]
    · simp only [hda]


theorem cancelLookups_flat (c : St) (ls : List Lookup) (mouts : List (Rid × MetaRes)) :
    cancelLookups cfg act (ofCore c) ls mouts =
      (ofCore (Producer.cancelLookups cfg c ls mouts).1, lift (Producer.cancelLookups cfg c ls mouts).2) := by
  simp only [cancelLookups, Producer.cancelLookups]
  exact afterLookups_flat cfg act _ _ _

theorem finish_handle_flat (c : St) (b : Batch) (r : ProdRes) :
    finish cfg act (handleSendResponse cfg act (ofCore c) b r) =
      (ofCore (Producer.finish cfg (Producer.handleSendResponse cfg c b r)).1,
        lift (Producer.finish cfg (Producer.handleSendResponse cfg c b r)).2) := by
  rw [handleSendResponse_flat]
  exact finish_flat cfg act _ _ _

theorem cancelSending_flat (c : St) (wipe : Bool) (rid : Rid) (b : Batch) (pout : Option ProdRes) :
    cancelSending cfg act (ofCore c) wipe rid b pout =
      (ofCore (Producer.cancelSending cfg c wipe rid b pout).1, lift (Producer.cancelSending cfg c wipe rid b pout).2) := by
  cases pout with
  | none => simp [cancelSending, Producer.cancelSending, lift]
  | some r =>
    simp only [cancelSending, Producer.cancelSending]
    cases wipe with
    | false =>
      simp only [Bool.false_eq_true, if_false]
      rw [finish_handle_flat]
      simp [lift]
    | true =>
      simp only [if_true]
      have := finish_handle_flat cfg act { c with tmeta := [] } b r
      simp only [ofCore] at this ⊢
      simp only [this]
      simp [lift]

theorem cancelRetryWait_flat (c : St) (tid : Tid) (b : Batch) :
    cancelRetryWait cfg act (ofCore c) tid b =
      (ofCore (Producer.cancelRetryWait cfg c tid b).1, lift (Producer.cancelRetryWait cfg c tid b).2) := by
  have hda : deliverAll act { core := c, hooks := [], running := true } b (.err .tcancelled) =
      ({ core := (Producer.deliverAll c b (.err .tcancelled)).1, hooks := [], running := true },
        lift (Producer.deliverAll c b (.err .tcancelled)).2.1, (Producer.deliverAll c b (.err .tcancelled)).2.2) :=
    deliverAll_flat act _ b _ rfl
  simp only [cancelRetryWait, Producer.cancelRetryWait, ofCore, hda]
  have := finish_flat cfg act (Producer.deliverAll c b (.err .tcancelled)).1 (Producer.deliverAll c b (.err .tcancelled)).2.1
    (Producer.deliverAll c b (.err .tcancelled)).2.2
  simp only [ofCore] at this
  simp only [this]
  simp [lift]

theorem cancelBatch_flat (c : St) (wipe : Bool) (pout : Option ProdRes) (mouts : List (Rid × MetaRes)) :
    cancelBatch cfg act (ofCore c) wipe pout mouts =
      (ofCore (Producer.cancelBatch cfg c wipe pout mouts).1, lift (Producer.cancelBatch cfg c wipe pout mouts).2) := by
  simp only [cancelBatch, Producer.cancelBatch]
  have hr : (ofCore c).running = false := rfl
  simp only [hr, Bool.false_eq_true, if_false]
  cases hp : c.phase with
  | idle => simp [ofCore, hp, lift]
  | lookups ls => simp only [ofCore, hp]; exact cancelLookups_flat cfg act c ls mouts
  | sending rid b => simp only [ofCore, hp]; exact cancelSending_flat cfg act c wipe rid b pout
  | retryWait tid b tps => simp only [ofCore, hp]; exact cancelRetryWait_flat cfg act c tid b

theorem doStop_flat (c : St) (wipe : Bool) (pout : Option ProdRes) (mouts : List (Rid × MetaRes)) :
    doStop cfg act (ofCore c) wipe pout mouts =
      (ofCore (Producer.doStop cfg c wipe pout mouts).1, lift (Producer.doStop cfg c wipe pout mouts).2) := by
  simp only [doStop, Producer.doStop]
  have hcb := cancelBatch_flat cfg act { c with stopping := true } wipe pout mouts
  simp only [ofCore] at hcb ⊢
  simp only [hcb]
  split
  · have := cancelAll_flat act
      { core := { (Producer.cancelBatch cfg { c with stopping := true } wipe pout mouts).1 with looper := false }, hooks := [], running := false }
      (Producer.cancelBatch cfg { c with stopping := true } wipe pout mouts).1.outstanding rfl
    simp only at this
    simp only [this]
    simp [lift]
  · have := cancelAll_flat act
      { core := (Producer.cancelBatch cfg { c with stopping := true } wipe pout mouts).1, hooks := [], running := false }
      (Producer.cancelBatch cfg { c with stopping := true } wipe pout mouts).1.outstanding rfl
    simp only at this
    simp only [this]
    simp [lift]

theorem zombie_flat (c : St) (tid : Tid) :
    (({ ofCore c with core := (zombieTimer c tid).1 } : StR), lift (zombieTimer c tid).2) =
      (ofCore (zombieTimer c tid).1, lift (zombieTimer c tid).2) := rfl

theorem timerLookups_flat (c : St) (ls : List Lookup) (tid : Tid) :
    timerLookups cfg act (ofCore c) ls tid =
      (ofCore (Producer.timerLookups cfg c ls tid).1, lift (Producer.timerLookups cfg c ls tid).2) := by
  simp only [timerLookups, Producer.timerLookups]
  cases hf : findPc ls (.waitBackoff tid) with
  | some l => exact afterLookups_flat cfg act _ _ _
  | none => rfl

theorem metaDoneLookups_flat (c : St) (ls : List Lookup) (rid : Rid) (res : MetaRes) :
    metaDoneLookups cfg act (ofCore c) ls rid res =
      (ofCore (Producer.metaDoneLookups cfg c ls rid res).1, lift (Producer.metaDoneLookups cfg c ls rid res).2) := by
  simp only [metaDoneLookups, Producer.metaDoneLookups]
  cases hf : findPc ls (.waitMeta rid) with
  | some l => exact afterLookups_flat cfg act _ _ _
  | none => rfl

/-- CONSERVATIVE EXTENSION, one step: from a flat state (no hooks) the re-entrant machine does what the flat
    one does, whatever `act` would do with the calls of hooks -/
theorem stepCore_flat (c : St) (e : Ev) :
    stepCore cfg act (ofCore c) e = (ofCore (step cfg c e).1, lift (step cfg c e).2) := by
  cases e with
  | send sid topic key msgs =>
    simp only [stepCore, step]
    by_cases h1 : sid = c.nextSid
    · by_cases h2 : (msgs.isEmpty || c.stopping) = true
      · simp [ofCore, h1, h2, lift]
      · simp only [ofCore, h1, h2, ne_eq, not_true_eq_false, if_false, Bool.false_eq_true, doSend]
        exact checkSendBatch_flat cfg act _
    · simp [ofCore, h1, lift]
  | cancel sid =>
    simp only [stepCore, step]
    by_cases h1 : sid < c.nextSid
    · simp only [ofCore, h1, if_true]
      exact cancelSend_flat act _ sid rfl
    · simp [ofCore, h1, lift]
  | tick =>
    simp only [stepCore, step]
    by_cases h1 : c.looper = true
    · simp only [ofCore, h1, if_true]
      exact sendBatch_flat cfg act c
    · simp [ofCore, h1, lift]
  | timer tid =>
    simp only [stepCore, step]
    cases hp : c.phase with
    | lookups ls => simp only [ofCore, hp]; exact timerLookups_flat cfg act c ls tid
    | retryWait t b tps =>
      simp only [ofCore, hp]
      by_cases ht : t = tid
      · simp [ht, lift]
      · simp [ht, lift]
    | idle => simp [ofCore, hp, lift]
    | sending r b => simp [ofCore, hp, lift]
  | advance dt => simp [stepCore, step, ofCore, lift]
  | metaSet topic err parts => simp [stepCore, step, ofCore, lift]
  | metaReset topics => simp [stepCore, step, ofCore, lift]
  | metaWipe => simp [stepCore, step, ofCore, lift]
  | metaDone rid res =>
    simp only [stepCore, step]
    cases hp : c.phase with
    | lookups ls => simp only [ofCore, hp]; exact metaDoneLookups_flat cfg act c ls rid res
    | idle => simp [ofCore, hp, lift]
    | sending r b => simp [ofCore, hp, lift]
    | retryWait t b tps => simp [ofCore, hp, lift]
  | produceDone rid res =>
    simp only [stepCore, step]
    cases hp : c.phase with
    | sending r b =>
      simp only [ofCore, hp]
      by_cases hc : (r = rid && validResult b res) = true
      · simp only [hc, if_true]
        exact finish_handle_flat cfg act c b res
      · simp [hc, lift]
    | idle => simp [ofCore, hp, lift]
    | lookups ls => simp [ofCore, hp, lift]
    | retryWait t b tps => simp [ofCore, hp, lift]
  | stop wipe pout mouts =>
    simp only [stepCore, step]
    by_cases hv : stopValid c pout = true
    · simp only [ofCore, hv, Bool.not_true, Bool.and_false, Bool.false_eq_true, if_false]
      exact doStop_flat cfg act c wipe pout mouts
    · simp [ofCore, hv, lift]

/-- … for whole runs of flat events, at any hook depth -/
theorem runR_flat (depth : Nat) (c : St) (evs : List Ev) :
    runR cfg depth (ofCore c) (evs.map .flat) = (ofCore (run cfg c evs).1, lift (run cfg c evs).2) := by
  induction evs generalizing c with
  | nil => simp [runR, run, lift]
  | cons e rest ih =>
    simp only [List.map_cons, runR, run, stepR]
    rw [stepCore_flat, ih]
    simp [lift]

/-- a send with an EMPTY hook behaves as a plain send (up to the markers around the empty hook) -/
theorem stepR_flat (depth : Nat) (c : St) (e : Ev) :
    stepR cfg depth (ofCore c) (.flat e) = (ofCore (step cfg c e).1, lift (step cfg c e).2) :=
  stepCore_flat cfg _ c e

end Afkak.ProducerR

namespace Afkak.ProducerR
open Afkak.Consts Afkak.Producer

/-- F27, in the re-entrant machine: whatever the callbacks of the sends failed in `_send_requests`' loop did
    (`act` arbitrary), a produce request goes out only if the Producer is not stopping at that moment -/
theorem sendRequests_not_stopping (act : Act) (st : StR) (ls : List Lookup)
    (h : (sendRequests act st ls).2.2 = false) : (sendRequests act st ls).1.core.stopping = false := by
  by_cases hs : st.core.stopping = true
  · simp [sendRequests, hs] at h
  · by_cases hc : ((procResults act ls { st with running := true } []).2.1.isEmpty ||
        (procResults act ls { st with running := true } []).1.core.stopping) = true
    · simp [sendRequests, hs, hc] at h
    · have hc' := hc
      simp only [Bool.or_eq_true, not_or, Bool.not_eq_true] at hc'
      simp only [sendRequests, hs, Bool.false_eq_true, if_false, hc]
      exact hc'.2

/-- … and if nothing went out, nothing was transmitted by `_send_requests` itself: its own observations
    beyond those of the callbacks are the failed sends' firings -/
theorem sendRequests_resolved_no_produce (act : Act) (st : StR) (ls : List Lookup)
    (h : (sendRequests act st ls).2.2 = true) (hst : st.core.stopping = false) :
    (sendRequests act st ls).2.1 = (procResults act ls { st with running := true } []).2.2 := by
  simp only [sendRequests, hst, Bool.false_eq_true, if_false] at h ⊢
  split
  · rfl
  · rename_i hc
    rw [if_neg hc] at h
    cases h

end Afkak.ProducerR
