import AfkakProofs.Producer.Pending
import AfkakProofs.Producer.ExactlyOnce
import AfkakProofs.Producer.Groups
import AfkakProofs.Producer.ProdLast
import AfkakProofs.Producer.OneFlight
import AfkakProofs.Producer.AccTrace
import Afkak.Monitor.C09
/-! C09 order / one batch in flight and C01 payload integrity: the monitors hold on every model trace. -/
namespace Afkak.Producer
open Afkak.Consts Afkak.Monitor.ProducerTrace Afkak.Monitor.C01 Afkak.Monitor.C09

/-! ### how the summary moves -/

theorem trackEv_keeps (pre : Snap) (t : Track) (e : Ev) :
    (trackEv pre t e).produced = t.produced ∧ (trackEv pre t e).lastP = t.lastP ∧ (trackEv pre t e).cur = t.cur ∧
    (trackEv pre t e).batchTps = t.batchTps := by
  simp only [trackEv]
  repeat' split
  all_goals exact ⟨rfl, rfl, rfl, rfl⟩

theorem trackEv_curRes_mono (pre : Snap) (t : Track) (e : Ev) (h : t.curRes.isSome = true) :
    (trackEv pre t e).curRes.isSome = true := by
  simp only [trackEv]
  repeat' split
  all_goals first | exact h | rfl

/-- no request unanswered before the event: none after it -/
theorem trackEv_quiet (pre : Snap) (t : Track) (e : Ev) (h : t.cur = none ∨ t.curRes.isSome = true) :
    (trackEv pre t e).cur.isNone = true ∨ (trackEv pre t e).curRes.isSome = true := by
  rcases h with hq | hq
  · left; rw [(trackEv_keeps pre t e).2.2.1, hq]; rfl
  · right; exact trackEv_curRes_mono pre t e hq

/-- the client's (valid) answer to the request in flight: the summary takes it -/
theorem trackEv_answered {cfg : Cfg} {st : St} {t : Track} (pre : Snap) (h : Rel cfg st t) {r : Rid} {b : Batch}
    (hp : st.phase = .sending r b) (res : ProdRes) (hv : validResult b res = true) :
    t.curRes.isNone = true ∧ (trackEv pre t (.produceDone r res)).curRes.isSome = true := by
  have a := h.sending r b hp
  have hvf := validFor_of_sending h hp res
  refine ⟨by rw [a.res]; rfl, ?_⟩
  simp only [trackEv, effective, completionOf, a.cur, a.res, hvf, hv, beq_self_eq_true, Bool.and_self, if_true]
  rfl

/-- a produce request that is no retry is made only when no produce request is unanswered -/
theorem free_at_produce {cfg : Cfg} {st : St} {t : Track} (pre : Snap) (e : Ev) (h : Rel cfg st t) (rid : Rid)
    (ps : List Payload) (hm : Ob.produce rid ps ∈ (step cfg st e).2) (hr : isRetryStep t e = false) :
    (trackEv pre t e).cur.isNone = true ∨ (trackEv pre t e).curRes.isSome = true := by
  rcases produce_only_when_free cfg st e rid ps hm with hp | ⟨ls, hp, _⟩ | ⟨r, b, res, hp, he, hv⟩ | ⟨tid, b, tps, hp, he⟩
  · exact trackEv_quiet pre t e (h.quiet (Or.inl hp))
  · exact trackEv_quiet pre t e (h.quiet (Or.inr ⟨ls, hp⟩))
  · right
    subst he
    exact (trackEv_answered pre h hp res hv).2
  · subst he
    have := (h.retrying tid b tps hp).tid
    simp [isRetryStep, this] at hr

/-- the fields a non-produce observation leaves alone -/
structure SameP (a b : Track) : Prop where
  produced : a.produced = b.produced
  lastP : a.lastP = b.lastP
  cur : a.cur = b.cur
  curRes : a.curRes = b.curRes
  ex1 : a.ex1 = b.ex1
  sends : a.sends = b.sends
  batchTps : a.batchTps = b.batchTps

theorem SameP.rfl' (a : Track) : SameP a a := ⟨rfl, rfl, rfl, rfl, rfl, rfl, rfl⟩
theorem SameP.trans {a b c : Track} (h1 : SameP a b) (h2 : SameP b c) : SameP a c :=
  ⟨h1.produced.trans h2.produced, h1.lastP.trans h2.lastP, h1.cur.trans h2.cur, h1.curRes.trans h2.curRes,
    h1.ex1.trans h2.ex1, h1.sends.trans h2.sends, h1.batchTps.trans h2.batchTps⟩

theorem trackOb_sameP (e : Ev) (r : Bool) (t : Track) (o : Ob) (h : isProduce o = false) : SameP (trackOb e r t o) t := by
  cases o <;> first | exact ⟨rfl, rfl, rfl, rfl, rfl, rfl, rfl⟩ | (simp [isProduce] at h)

theorem foldl_sameP (e : Ev) (r : Bool) (obs : List Ob) (t : Track) (h : noProd obs) :
    SameP (obs.foldl (trackOb e r) t) t := by
  induction obs generalizing t with
  | nil => exact SameP.rfl' t
  | cons o rest ih =>
    rw [List.foldl_cons]
    have ho : isProduce o = false := by
      cases o with
      | produce rid ps => exact absurd List.mem_cons_self (h rid ps)
      | _ => rfl
    exact (ih _ (fun rid ps hm => h rid ps (List.mem_cons_of_mem _ hm))).trans (trackOb_sameP e r t o ho)

theorem track_sameP (pre : Snap) (t : Track) (s : Step) :
    SameP (track pre t s) (s.obs.foldl (trackOb s.ev (isRetryStep t s.ev)) (trackEv pre t s.ev)) := by
  simp only [track]
  repeat' split
  all_goals exact ⟨rfl, rfl, rfl, rfl, rfl, rfl, rfl⟩

theorem checkObs_noProd (chk : Track → Ob → Bool) (htriv : ∀ t o, isProduce o = false → chk t o = true)
    (e : Ev) (r : Bool) (t0 : Track) (obs : List Ob) (h : noProd obs) : checkObs chk e r t0 obs = true := by
  induction obs generalizing t0 with
  | nil => rfl
  | cons o rest ih =>
    have ho : isProduce o = false := by
      cases o with
      | produce rid ps => exact absurd List.mem_cons_self (h rid ps)
      | _ => rfl
    simp only [checkObs, htriv t0 o ho, Bool.true_and]
    exact ih _ (fun rid ps hm => h rid ps (List.mem_cons_of_mem _ hm))

theorem checkObs_append (chk : Track → Ob → Bool) (e : Ev) (r : Bool) (t0 : Track) (a b : List Ob) :
    checkObs chk e r t0 (a ++ b) = (checkObs chk e r t0 a && checkObs chk e r (a.foldl (trackOb e r) t0) b) := by
  induction a generalizing t0 with
  | nil => simp [checkObs]
  | cons o rest ih => simp only [List.cons_append, checkObs, List.foldl_cons, ih, Bool.and_assoc]

theorem checkObs_last (chk : Track → Ob → Bool) (htriv : ∀ t o, isProduce o = false → chk t o = true)
    (e : Ev) (r : Bool) (t0 : Track) (front : List Ob) (p : Ob) (h : noProd front) :
    checkObs chk e r t0 (front ++ [p]) = chk (front.foldl (trackOb e r) t0) p := by
  rw [checkObs_append, checkObs_noProd chk htriv e r t0 front h]
  simp [checkObs]

/-- the summary after a step whose last observation is its only produce request -/
theorem track_last (pre : Snap) (t : Track) (s : Step) (front : List Ob) (rid : Rid) (ps : List Payload)
    (hobs : s.obs = front ++ [.produce rid ps]) (hnp : noProd front) :
    (track pre t s).cur = some (rid, ps) ∧ (track pre t s).curRes = none ∧
    (track pre t s).produced = payloadSids ps ++ t.produced ∧
    (track pre t s).lastP = ps.map (fun p => (p.tp, p.sids)) ++ t.lastP.filter (fun x => !ps.any (·.tp = x.1)) ∧
    (track pre t s).batchTps = (if isRetryStep t s.ev then t.batchTps else ps.map (·.tp)) := by
  have h1 := track_sameP pre t s
  have h2 := foldl_sameP s.ev (isRetryStep t s.ev) front (trackEv pre t s.ev) hnp
  obtain ⟨k1, k2, k3, k4⟩ := trackEv_keeps pre t s.ev
  rw [hobs, List.foldl_append] at h1
  simp only [List.foldl_cons, List.foldl_nil, trackOb] at h1
  refine ⟨h1.cur, h1.curRes, ?_, ?_, ?_⟩
  · rw [h1.produced]; simp only; rw [h2.produced, k1]
  · rw [h1.lastP]; simp only; rw [h2.lastP, k2]
  · rw [h1.batchTps]; simp only; rw [h2.batchTps, k4]

theorem track_noProd (pre : Snap) (t : Track) (s : Step) (h : noProd s.obs) :
    (track pre t s).produced = t.produced ∧ (track pre t s).lastP = t.lastP := by
  have h1 := track_sameP pre t s
  have h2 := foldl_sameP s.ev (isRetryStep t s.ev) s.obs (trackEv pre t s.ev) h
  obtain ⟨k1, k2, _, _⟩ := trackEv_keeps pre t s.ev
  exact ⟨by rw [h1.produced, h2.produced, k1], by rw [h1.lastP, h2.lastP, k2]⟩


/-! ### which batch a produce request belongs to -/

theorem produce_post {cfg : Cfg} {st' : St} {t' : Track} (h : Rel cfg st' t') {rid : Rid} {ps : List Payload}
    (hc : t'.cur = some (rid, ps)) (hr : t'.curRes = none) :
    ∃ b, st'.phase = .sending rid b ∧ ps = b.payloadsFor b.current := by
  cases hp : st'.phase with
  | idle => rcases h.quiet (Or.inl hp) with h1 | h1 <;> simp [hc, hr] at h1
  | lookups ls => rcases h.quiet (Or.inr ⟨ls, hp⟩) with h1 | h1 <;> simp [hc, hr] at h1
  | retryWait tid b tps =>
    obtain ⟨res, h1, _⟩ := (h.retrying tid b tps hp).res
    rw [hr] at h1; cases h1
  | sending rid' b =>
    have a := h.sending rid' b hp
    rw [a.cur] at hc
    injection hc with hc; injection hc with h1 h2
    subst h1
    exact ⟨b, rfl, h2.symm⟩

/-- a first attempt carries the whole batch -/
theorem fresh_groups {cfg : Cfg} {st' : St} {t' : Track} (h : Rel cfg st' t') {rid : Rid} {b : Batch}
    (hp : st'.phase = .sending rid b) (hbt : t'.batchTps = (b.payloadsFor b.current).map (·.tp)) :
    b.payloadsFor b.current = b.groups := by
  have a := h.sending rid b hp
  have hm := payloadsFor_map_tp b b.current a.br.nodup (fun tp htp => a.br.live_sub tp (a.sub tp htp))
  rw [hm, a.br.tps] at hbt
  rw [← hbt]; exact payloadsFor_all b a.br.nodup

/-- a produce request in a step the summary calls a retry IS `_do_retry` -/
theorem retry_phase {cfg : Cfg} {st : St} {t : Track} (h : Rel cfg st t) (e : Ev) (hr : isRetryStep t e = true)
    (rid : Rid) (ps : List Payload) (hm : Ob.produce rid ps ∈ (step cfg st e).2) :
    ∃ tid b tps, e = .timer tid ∧ st.phase = .retryWait tid b tps ∧ step cfg st e = doRetry st b tps := by
  cases e with
  | timer tid =>
    simp only [isRetryStep, decide_eq_true_eq] at hr
    have hz : Ob.produce rid ps ∉ (zombieTimer st tid).2 := by
      simp only [zombieTimer]; split <;> simp
    cases hp : st.phase with
    | idle => simp only [step, hp] at hm; exact absurd hm hz
    | sending r b => simp only [step, hp] at hm; exact absurd hm hz
    | lookups ls =>
      simp only [step, hp, timerLookups] at hm
      split at hm
      · rename_i l hf
        obtain ⟨hl, hpc⟩ := findPc_mem hf
        exact absurd hr (h.bo_nr ls hp l hl tid hpc)
      · exact absurd hm hz
    | retryWait t' b tps =>
      by_cases ht : t' = tid
      · subst ht
        exact ⟨t', b, tps, rfl, rfl, by simp [step, hp]⟩
      · simp only [step, hp, if_neg ht] at hm; exact absurd hm hz
  | _ => simp [isRetryStep] at hr

/-! ### payloads out of well-formed groups -/

theorem increasing_of_pairwise : ∀ (l : List Sid), l.Pairwise (· < ·) → increasing l = true
  | [], _ => rfl
  | [_], _ => rfl
  | a :: b :: rest, h => by
    simp only [increasing, Bool.and_eq_true, decide_eq_true_eq]
    rw [List.pairwise_cons] at h
    exact ⟨h.1 b List.mem_cons_self, increasing_of_pairwise (b :: rest) h.2⟩

/-- a send is in one group only -/
theorem group_unique {S : List Req} {gs : List Payload} (h : GsOk S gs) {g g' : Payload} (hg : g ∈ gs) (hg' : g' ∈ gs)
    {x : Sid} (hx : x ∈ g.sids) (hx' : x ∈ g'.sids) : g = g' := by
  have hn := h.nodup
  clear h
  induction gs with
  | nil => cases hg
  | cons a rest ih =>
    simp only [payloadSids, List.flatMap_cons, List.nodup_append] at hn
    obtain ⟨_, hn2, hd⟩ := hn
    rcases List.mem_cons.mp hg with h1 | h1 <;> rcases List.mem_cons.mp hg' with h2 | h2
    · rw [h1, h2]
    · subst h1; exact absurd rfl (hd x hx x (List.mem_flatMap.mpr ⟨g', h2, hx'⟩))
    · subst h2; exact absurd rfl (hd x hx' x (List.mem_flatMap.mpr ⟨g, h1, hx⟩))
    · exact ih h1 h2 hn2

theorem payloadsFor_nodup {S : List Req} (b : Batch) (h : GsOk S b.groups) (tps : List TP) (hn : tps.Nodup) :
    (payloadSids (b.payloadsFor tps)).Nodup := by
  induction tps with
  | nil => simp [Batch.payloadsFor, payloadSids]
  | cons tp rest ih =>
    simp only [List.nodup_cons] at hn
    simp only [Batch.payloadsFor, List.flatMap_cons, payloadSids, List.flatMap_append]
    rw [List.nodup_append]
    refine ⟨?_, ih hn.2, ?_⟩
    · -- the groups of one topic/partition: at most one
      by_cases hex : ∃ g ∈ b.groups, g.tp = tp
      · obtain ⟨g, hg, hgt⟩ := hex
        have := filter_tp_of_nodup b.groups g h.tps hg
        rw [hgt] at this; rw [this]
        simp only [List.flatMap_cons, List.flatMap_nil, List.append_nil]
        exact (h.inc g hg).imp (fun hlt => Nat.ne_of_lt hlt)
      · have : b.groups.filter (fun x => decide (x.tp = tp)) = [] := by
          rw [List.filter_eq_nil_iff]
          intro g hg hc; exact hex ⟨g, hg, by simpa using hc⟩
        rw [this]; simp
    · intro x hx y hy hxy
      subst hxy
      simp only [List.mem_flatMap, List.mem_filter, decide_eq_true_eq] at hx hy
      obtain ⟨g, ⟨hg, hgt⟩, hxg⟩ := hx
      obtain ⟨g', ⟨tp', htp', hg', hgt'⟩, hxg'⟩ := hy
      have := group_unique h hg hg' hxg hxg'
      subst this
      rw [hgt] at hgt'; subst hgt'
      exact hn.1 htp'

theorem payloadOk_of {S : List Req} (t0 : Track) (b : Batch) (hs : t0.sends = S) (h : GsOk S b.groups)
    (hsn : (S.map (·.sid)).Nodup) (hn : b.current.Nodup) (hne : b.current ≠ []) (hsub : ∀ tp ∈ b.current, tp ∈ b.groups.map (·.tp)) (rid : Rid) :
    payloadOk t0 (.produce rid (b.payloadsFor b.current)) = true := by
  simp only [payloadOk, Bool.and_eq_true, Bool.not_eq_true', decide_eq_true_eq, List.all_eq_true]
  refine ⟨⟨⟨?_, payloadsFor_nodup b h b.current hn⟩, ?_⟩, ?_⟩
  · cases hc : b.current with
    | nil => exact absurd hc hne
    | cons tp rest =>
      obtain ⟨g, hg, hgt⟩ := List.mem_map.mp (hsub tp (by rw [hc]; exact List.mem_cons_self))
      have : g ∈ b.payloadsFor (tp :: rest) := (mem_payloadsFor b _ g).mpr ⟨hg, by rw [hgt]; exact List.mem_cons_self⟩
      cases hpf : b.payloadsFor (tp :: rest) with
      | nil => rw [hpf] at this; cases this
      | cons _ _ => rfl
  · rw [payloadsFor_map_tp b b.current h.tps hsub]; exact hn
  · intro p hp
    obtain ⟨hg, _⟩ := (mem_payloadsFor b b.current p).mp hp
    refine ⟨⟨?_, ?_⟩, ?_⟩
    · cases hps : p.sids with
      | nil => exact absurd hps (h.ne p hg)
      | cons _ _ => rfl
    · intro sid hsid
      obtain ⟨r, hr, h1, h2⟩ := h.src p hg sid hsid
      rw [List.any_eq_true]
      exact ⟨r, by rw [hs]; exact hr, by simp [h1, h2]⟩
    · obtain ⟨rs, m1, m2, m3⟩ := h.msgs p hg
      rw [beq_iff_eq, m3, ← m2, List.flatMap_map]
      have : ∀ l : List Req, (∀ r ∈ l, r ∈ S) → l.flatMap (·.wire) = l.flatMap (fun r => wireOf t0 r.sid) := by
        intro l hl
        induction l with
        | nil => rfl
        | cons r rest ih =>
          simp only [List.flatMap_cons]
          rw [ih (fun x hx => hl x (List.mem_cons_of_mem _ hx))]
          congr 1
          simp only [wireOf, hs]
          rw [filter_sid_of_nodup S r hsn (hl r List.mem_cons_self)]
          simp
      exact this rs m1


/-! ### the invariant -/

theorem GsOk.mono {S S' : List Req} {gs : List Payload} (h : GsOk S gs) (hs : ∀ r ∈ S, r ∈ S') : GsOk S' gs :=
  ⟨h.tps, h.ne, h.inc, h.nodup, fun g hg s hsid => by
    obtain ⟨r, hr, h1, h2⟩ := h.src g hg s hsid; exact ⟨r, hs r hr, h1, h2⟩, fun g hg => by
    obtain ⟨rs, m1, m2, m3⟩ := h.msgs g hg; exact ⟨rs, fun r hr => hs r (m1 r hr), m2, m3⟩⟩

theorem G.mono_S {S S' : List Req} {P : List Sid} {st : St} (h : G S P st) (hs : ∀ r ∈ S, r ∈ S') : G S' P st :=
  ⟨h.q_inc, fun r hr => hs r (h.q_src r hr), h.cross, h.lk_inc, fun ls hp l hl => hs _ (h.lk_src ls hp l hl),
    fun b hb => ⟨(h.grp b hb).1.mono hs, (h.grp b hb).2⟩, h.p_q, h.p_lk⟩

/-- sends of the batch in flight have now been in a produce request -/
theorem G.extendP {S : List Req} {P X : List Sid} {st : St} (h : G S P st) (hx : ∀ x ∈ X, x ∈ inflight st)
    (hnl : ∀ ls, st.phase ≠ .lookups ls) : G S (X ++ P) st := by
  refine ⟨h.q_inc, h.q_src, h.cross, h.lk_inc, h.lk_src, h.grp, ?_, fun ls hp => absurd hp (hnl ls)⟩
  intro a ha y hy
  rcases List.mem_append.mp ha with ha | ha
  · exact h.cross a (hx a ha) y hy
  · exact h.p_q a ha y hy

structure TInv (cfg : Cfg) (st : St) (t : Track) : Prop where
  fr : FireRel cfg st t
  k : KInv st
  si : SendsInv st t
  g : G t.sends t.produced st
  plt : ∀ a ∈ t.produced, a < st.nextSid
  lp : ∀ e ∈ t.lastP, ∀ a ∈ e.2, a ∈ t.produced
  fired : ∀ a, a < st.nextSid → a ∉ st.outstanding → a ∈ t.fired

theorem fired_step (cfg : Cfg) (st : St) (t : Track) (pre : Snap) (e : Ev)
    (hf : ∀ a, a < st.nextSid → a ∉ st.outstanding → a ∈ t.fired) :
    ∀ a, a < (step cfg st e).1.nextSid → a ∉ (step cfg st e).1.outstanding →
      a ∈ (track pre t (mkStep cfg st e)).fired := by
  intro a h1 h2
  have fd := step_fd cfg st e
  obtain ⟨hin, hnew⟩ := outPlus_cover cfg st e
  rw [track_fired]
  by_cases hF : a ∈ t.fired
  · exact Or.inr hF
  · left
    have hs : a ∈ outPlus st e := by
      rcases hnew a h1 with h3 | h3
      · by_cases ho' : a ∈ st.outstanding
        · exact hin a ho'
        · exact absurd (hf a h3 ho') hF
      · exact h3
    exact fd.gone a hs h2

/-- the structure after the step, against the sends known after the event and the sends produced before it -/
theorem g_post (cfg : Cfg) (st : St) (t : Track) (pre : Snap) (e : Ev) (h : TInv cfg st t) :
    G (trackEv pre t e).sends t.produced (step cfg st e).1 ∧
    (isRetryStep t e = false → prodOut t.produced (step cfg st e).2) := by
  obtain ⟨hs, _⟩ := trackEv_sends pre t e
  have hsub : ∀ r ∈ t.sends, r ∈ (trackEv pre t e).sends := by
    intro r hr; rw [hs]
    cases e with
    | send sid topic key msgs =>
      simp only
      split
      · split
        · exact hr
        · exact List.mem_append_left _ hr
      · exact hr
    | _ => exact hr
  have hS : ∀ sid topic key msgs, e = .send sid topic key msgs → sid = st.nextSid → msgs.isEmpty = false →
      (⟨sid, topic, key, msgs⟩ : Req) ∈ (trackEv pre t e).sends := by
    intro sid topic key msgs he h1 h2
    subst he
    rw [hs]; simp only
    rw [if_pos (by rw [h.si.ns]; exact h1), h2]
    simp
  obtain ⟨g1, p1⟩ := step_g (trackEv pre t e).sends t.produced cfg st e (h.g.mono_S hsub) h.k.lt h.plt hS
  refine ⟨g1, fun hr => p1 ?_⟩
  intro tid b tps hp he
  subst he
  have := (h.fr.rel.retrying tid b tps hp).tid
  simp [isRetryStep, this] at hr


theorem orderOk_triv : ∀ t o, isProduce o = false → orderOk t o = true := by
  intro t o h; cases o <;> simp_all [orderOk, isProduce]
theorem oneBatchOk_triv (r : Bool) : ∀ t o, isProduce o = false → oneBatchOk r t o = true := by
  intro t o h; cases o <;> simp_all [oneBatchOk, isProduce]
theorem payloadOk_triv : ∀ t o, isProduce o = false → payloadOk t o = true := by
  intro t o h; cases o <;> simp_all [payloadOk, isProduce]

theorem firedSids_append_single_produce (front : List Ob) (rid : Rid) (ps : List Payload) :
    firedSids (front ++ [Ob.produce rid ps]) = firedSids front := by
  simp [firedSids]

theorem tinv_step (cfg : Cfg) (st : St) (t : Track) (pre : Snap) (e : Ev) (h : TInv cfg st t) :
    TInv cfg (step cfg st e).1 (track pre t (mkStep cfg st e)) ∧
    orderStep pre t (mkStep cfg st e) = true ∧ oneBatchStep pre t (mkStep cfg st e) = true ∧
    payloadStep pre t (mkStep cfg st e) = true := by
  obtain ⟨hrel', _, hretry, _⟩ := rel_step cfg st t pre e h.fr.rel
  obtain ⟨hfr', _⟩ := fireRel_step cfg st t pre e h.fr
  have hk' := kinv_step cfg st e h.k
  have hsi0 := sends_step cfg st t pre e h.si
  obtain ⟨es1, es2⟩ := track_sends pre t (mkStep cfg st e)
  have hsi' : SendsInv (step cfg st e).1 (track pre t (mkStep cfg st e)) :=
    ⟨by rw [es2]; exact hsi0.ns, by rw [es1, es2]; exact hsi0.lt, by rw [es1]; exact hsi0.nodup,
      by rw [es1]; exact hsi0.q, hsi0.acc⟩
  have hfired' := fired_step cfg st t pre e h.fired
  have hmono : st.nextSid ≤ (step cfg st e).1.nextSid := (newOf_spec cfg st e).1
  obtain ⟨g0, p0⟩ := g_post cfg st t pre e h
  rcases step_pl cfg st e with hnp | ⟨front, rid, ps, hobs, hnp⟩
  · -- no produce request in this step
    obtain ⟨e1, e2⟩ := track_noProd pre t (mkStep cfg st e) hnp
    refine ⟨⟨hfr', hk', hsi', by rw [es1, e1]; exact g0, ?_, by rw [e1, e2]; exact h.lp, hfired'⟩, ?_, ?_, ?_⟩
    · intro a ha; rw [e1] at ha; exact Nat.lt_of_lt_of_le (h.plt a ha) hmono
    · exact checkObs_noProd _ orderOk_triv _ _ _ _ hnp
    · exact checkObs_noProd _ (oneBatchOk_triv _) _ _ _ _ hnp
    · simp only [payloadStep, List.all_eq_true]
      intro o ho
      apply payloadOk_triv
      cases o with
      | produce rid ps => exact absurd ho (hnp rid ps)
      | _ => rfl
  · -- the step ends with its only produce request
    have hobs' : (mkStep cfg st e).obs = front ++ [.produce rid ps] := hobs
    obtain ⟨c1, c2, c3, c4, c5⟩ := track_last pre t (mkStep cfg st e) front rid ps hobs' hnp
    obtain ⟨b, hp', hps⟩ := produce_post hrel' c1 c2
    have a := hrel'.sending rid b hp'
    have hgs : GsOk (trackEv pre t e).sends b.groups := (g0.grp b (by simp [batchOf, hp'])).1
    have hsubg : ∀ tp ∈ b.current, tp ∈ b.groups.map (·.tp) := fun tp htp => a.br.live_sub tp (a.sub tp htp)
    have hin : ∀ x ∈ payloadSids ps, x ∈ inflight (step cfg st e).1 := by
      intro x hx
      rw [hps] at hx
      simpa [inflight, hp'] using payloadSids_payloadsFor_sub b b.current x hx
    -- the summary just before the produce request
    have hsp := foldl_sameP e (isRetryStep t e) front (trackEv pre t e) hnp
    obtain ⟨k1, k2, k3, _⟩ := trackEv_keeps pre t e
    refine ⟨⟨hfr', hk', hsi', ?_, ?_, ?_, hfired'⟩, ?_, ?_, ?_⟩
    · rw [es1, c3]
      exact g0.extendP hin (fun ls hc => by rw [hp'] at hc; cases hc)
    · intro x hx
      rw [c3] at hx
      rcases List.mem_append.mp hx with hx | hx
      · exact hk'.lt x (List.mem_append_left _ (hin x hx))
      · exact Nat.lt_of_lt_of_le (h.plt x hx) hmono
    · intro en hen x hx
      rw [c4] at hen; rw [c3]
      rcases List.mem_append.mp hen with hen | hen
      · obtain ⟨p, hp, hpe⟩ := List.mem_map.mp hen
        subst hpe
        exact List.mem_append_left _ (List.mem_flatMap.mpr ⟨p, hp, hx⟩)
      · exact List.mem_append_right _ (h.lp en (List.mem_filter.mp hen).1 x hx)
    · -- order
      simp only [orderStep]
      rw [hobs', checkObs_last _ orderOk_triv _ _ _ _ _ hnp]
      simp only [show (mkStep cfg st e).ev = e from rfl]
      simp only [orderOk, Bool.and_eq_true, decide_eq_true_eq, List.all_eq_true]
      refine ⟨by rw [hps]; exact payloadsFor_nodup b hgs b.current a.nodup, ?_⟩
      intro p hp
      have hpg : p ∈ b.groups := by rw [hps] at hp; exact ((mem_payloadsFor b b.current p).mp hp).1
      refine ⟨increasing_of_pairwise _ (hgs.inc p hpg), ?_⟩
      intro old hold
      rw [hsp.lastP, k2] at hold
      obtain ⟨hold1, hold2⟩ := List.mem_filter.mp hold
      by_cases hr : isRetryStep t e = true
      · -- a retry: the payload is the one sent before (checked by `retryOnlyFailed`)
        have hrs := hretry
        simp only [retryStep] at hrs
        rw [hobs', checkObs_last _ (retryOk_triv _) _ _ _ _ _ hnp] at hrs
        simp only [show (mkStep cfg st e).ev = e from rfl] at hrs
        simp only [retryOk, hr, if_true] at hrs
        split at hrs
        · simp only [Bool.and_eq_true, List.all_eq_true] at hrs
          have hsp' := hsp
          rw [hr] at hsp'
          have := (hrs.2 p hp).1.2 old (by rw [hsp'.lastP, k2]; exact hold)
          rw [this]; rfl
        · cases hrs
      · -- a first attempt: everything sent before is older
        have hr' : isRetryStep t e = false := by simpa using hr
        have hpo := p0 hr'
        rw [Bool.or_eq_true]; right
        rw [List.all_eq_true]; intro x hx
        rw [List.all_eq_true]; intro y hy
        simp only [decide_eq_true_eq]
        exact hpo rid ps (by rw [hobs]; exact List.mem_append_right _ List.mem_cons_self) y
          (List.mem_flatMap.mpr ⟨p, hp, hy⟩) x (h.lp old hold1 x hx)
    · -- one batch in flight
      simp only [oneBatchStep]
      rw [hobs', checkObs_last _ (oneBatchOk_triv _) _ _ _ _ _ hnp]
      simp only [show (mkStep cfg st e).ev = e from rfl]
      by_cases hr : isRetryStep t e = true
      · obtain ⟨tid, b0, tps, he, hp0, hstep⟩ := retry_phase h.fr.rel e hr rid ps
          (by rw [hobs]; exact List.mem_append_right _ List.mem_cons_self)
        obtain ⟨rid0, cur0, hcur0, _, hsub0, _⟩ := (h.fr.rel.retrying tid b0 tps hp0).prev
        have hb : b = { b0 with current := tps } := by
          rw [hstep] at hp'
          simp only [doRetry] at hp'
          injection hp' with _ hb; exact hb.symm
        have hsp' := hsp
        rw [hr] at hsp'
        simp only [oneBatchOk, hr, if_true, hsp'.cur, k3, hcur0]
        rw [List.all_eq_true]; intro x hx
        simp only [decide_eq_true_eq]
        rw [hps, hb] at hx
        simp only [payloadSids, List.mem_flatMap] at hx ⊢
        obtain ⟨g, hg, hxg⟩ := hx
        obtain ⟨hg1, hg2⟩ := (mem_payloadsFor _ _ g).mp hg
        exact ⟨g, (mem_payloadsFor b0 cur0 g).mpr ⟨hg1, hsub0 _ hg2⟩, hxg⟩
      · have hr' : isRetryStep t e = false := by simpa using hr
        have hpo := p0 hr' rid ps (by rw [hobs]; exact List.mem_append_right _ List.mem_cons_self)
        have hfresh : ps = b.groups := by
          rw [hps]; apply fresh_groups hrel' hp'
          rw [c5]; simp only [show (mkStep cfg st e).ev = e from rfl, hr', Bool.false_eq_true, if_false]; rw [hps]
        simp only [oneBatchOk, hr', Bool.false_eq_true, if_false, Bool.and_eq_true, List.all_eq_true,
          decide_eq_true_eq, Bool.or_eq_true, List.contains_iff_mem]
        have hsp' := hsp
        rw [hr'] at hsp'
        rw [hsp'.produced, k1, hsp'.cur, hsp'.curRes]
        refine ⟨⟨?_, fun x hx hc => Nat.lt_irrefl _ (hpo x hx x hc)⟩, ?_⟩
        · have := free_at_produce pre e h.fr.rel rid ps (by rw [hobs]; exact List.mem_append_right _ List.mem_cons_self) hr'
          simpa using this
        intro x hx
        by_cases hex : x ∈ (trackEv pre t e).ex1
        · right; rw [hsp'.ex1]; exact hex
        · left
          -- x was produced before and is not exempt; it is no longer outstanding, so it has fired
          have hex' : x ∉ (track pre t (mkStep cfg st e)).ex1 := by
            rw [(track_ex pre t (mkStep cfg st e)).1]; exact hex
          have hnout : x ∉ (step cfg st e).1.outstanding := by
            intro hc
            rcases hfr'.v1 x hc with (hq | hq) | ⟨_, _, hpd⟩
            · exact Nat.lt_irrefl _ (g0.p_q x hx x hq)
            · exact hex' hq
            · have := pend_sub_allSids true _ rid b hp' x hpd
              rw [show b.allSids = payloadSids b.groups from rfl, ← hfresh] at this
              exact Nat.lt_irrefl _ (hpo x this x hx)
          have hf := hfired' x (Nat.lt_of_lt_of_le (h.plt x hx) hmono) hnout
          rw [track_fired, show (mkStep cfg st e).obs = front ++ [.produce rid ps] from hobs,
            firedSids_append_single_produce] at hf
          rw [foldl_trackOb_fired, trackEv_fired]
          exact hf
    · -- payload integrity
      simp only [payloadStep, List.all_eq_true]
      intro o ho
      rw [hobs'] at ho
      rcases List.mem_append.mp ho with ho | ho
      · apply payloadOk_triv
        cases o with
        | produce rid' ps' => exact absurd ho (hnp rid' ps')
        | _ => rfl
      · simp only [List.mem_singleton] at ho
        subst ho
        rw [hps]
        exact payloadOk_of (trackEv pre t e) b rfl hgs hsi0.nodup a.nodup a.ne hsubg rid


theorem tinv_init (cfg : Cfg) : TInv cfg (St.init cfg) {} := by
  refine ⟨fireRel_init cfg, kinv_init cfg, ⟨rfl, by simp, by simp, by simp [St.init], acc_init cfg⟩, ?_, by simp, by simp, ?_⟩
  · refine ⟨by simp [queued, St.init], by simp [St.init], by simp [inflight, St.init], ?_, ?_, ?_, by simp, ?_⟩
    · intro ls hp; simp [St.init] at hp
    · intro ls hp; simp [St.init] at hp
    · intro b hb; simp [batchOf, St.init] at hb
    · intro ls hp; simp [St.init] at hp
  · intro a ha; simp [St.init] at ha

theorem order_from (cfg : Cfg) (evs : List Ev) (st : St) (t : Track) (pre : Snap) (h : TInv cfg st t) :
    checkFrom orderStep pre t (traceFrom cfg st evs) = true ∧
    checkFrom oneBatchStep pre t (traceFrom cfg st evs) = true ∧
    checkFrom payloadStep pre t (traceFrom cfg st evs) = true := by
  induction evs generalizing st t pre with
  | nil => exact ⟨rfl, rfl, rfl⟩
  | cons e rest ih =>
    obtain ⟨r1, r2, r3, r4⟩ := tinv_step cfg st t pre e h
    obtain ⟨i1, i2, i3⟩ := ih (step cfg st e).1 _ (snapOf (step cfg st e).1) r1
    simp only [traceFrom, checkFrom, Bool.and_eq_true]
    exact ⟨⟨r2, i1⟩, ⟨r3, i2⟩, ⟨r4, i3⟩⟩

theorem order_model (cfg : Cfg) (evs : List Ev) : order cfg (traceOf cfg evs) = true :=
  (order_from cfg evs _ _ _ (tinv_init cfg)).1

theorem oneBatch_model (cfg : Cfg) (evs : List Ev) : oneBatch cfg (traceOf cfg evs) = true :=
  (order_from cfg evs _ _ _ (tinv_init cfg)).2.1

theorem payloads_model (cfg : Cfg) (evs : List Ev) : payloads cfg (traceOf cfg evs) = true :=
  (order_from cfg evs _ _ _ (tinv_init cfg)).2.2

end Afkak.Producer
