import AfkakProofs.Producer.Stop
import Afkak.Monitor.C01
/-! C01, acks = 0: the client's empty answer is the sends' success - in a step that handles it nobody
fails with NoResponseError. -/
namespace Afkak.Producer
open Afkak.Consts Afkak.Monitor.ProducerTrace Afkak.Monitor.C01

/-- nobody fails with `NoResponseError` in `obs` -/
def noNR (obs : List Ob) : Prop := ∀ s, Ob.fire s (.err .noResponse) ∉ obs

theorem noNR_nil : noNR [] := by intro s h; cases h
theorem noNR_append {a b : List Ob} (ha : noNR a) (hb : noNR b) : noNR (a ++ b) := by
  intro s h; rcases List.mem_append.mp h with h | h
  · exact ha s h
  · exact hb s h
theorem noNR_cons {o : Ob} {l : List Ob} (ho : ∀ s, o ≠ .fire s (.err .noResponse)) (hl : noNR l) : noNR (o :: l) := by
  intro s h; rcases List.mem_cons.mp h with h | h
  · exact ho s h.symm
  · exact hl s h
theorem noNR_of_nofire {obs : List Ob} (h : firedSids obs = []) : noNR obs := by
  intro s hm
  have : s ∈ firedSids obs := by simp only [firedSids, List.mem_filterMap]; exact ⟨_, hm, rfl⟩
  rw [h] at this; cases this

theorem deliver_noNR (out sids : List Sid) (o : Outcome) (ho : o ≠ .err .noResponse) : noNR (deliver out sids o).2 := by
  intro s hm
  exact ho (deliver_fires out sids o s _ hm).1.symm

/-- a look-up that `_send_batch` starts fails with a broker error code or a partitioner error -/
def lkOk (l : Lookup) : Prop := ∀ k, l.pc = .done (.fail k) → k ≠ .noResponse

theorem pickPartition_kind (cfg : Cfg) (st : St) (t : Topic) (key : Option (List UInt8)) :
    ∀ k, (pickPartition cfg st t key).2 = .fail k → k ≠ .noResponse := by
  intro k hk
  simp only [pickPartition] at hk
  repeat' split at hk
  all_goals (first | (injection hk with hk; subst hk; simp) | cases hk)

theorem lookupHead_kind (cfg : Cfg) (st : St) (r : Req) :
    ∀ k, (lookupHead cfg st r).2.1 = .done (.fail k) → k ≠ .noResponse := by
  intro k hk
  simp only [lookupHead] at hk
  split at hk
  · split at hk
    · injection hk with hk; injection hk with hk; subst hk; simp
    · cases hk
  · injection hk with hk
    exact pickPartition_kind cfg st r.topic r.key k hk

theorem startLookups_kind (cfg : Cfg) (st : St) (rs : List Req) : ∀ l ∈ (startLookups cfg st rs).2.1, lkOk l := by
  induction rs generalizing st with
  | nil => intro l hl; cases hl
  | cons r rest ih =>
    intro l hl
    simp only [startLookups] at hl
    rcases List.mem_cons.mp hl with h | h
    · subst h; exact lookupHead_kind cfg st r
    · exact ih _ l h

theorem procResults_noNR (ls : List Lookup) (out : List Sid) (gs : List Payload) (h : ∀ l ∈ ls, lkOk l) :
    noNR (procResults ls out gs).2.2 := by
  induction ls generalizing out gs with
  | nil => exact noNR_nil
  | cons l rest ih =>
    have ih' := fun out gs => ih out gs (fun x hx => h x (List.mem_cons_of_mem _ hx))
    simp only [procResults]
    split
    · split
      · exact ih' _ _
      · rename_i k hpc
        exact noNR_cons (fun s hc => by injection hc with _ hc; injection hc with hc; exact h l List.mem_cons_self k hpc hc) (ih' _ _)
      · exact ih' _ _
    · exact ih' _ _

theorem sendRequests_noNR (st : St) (ls : List Lookup) (h : ∀ l ∈ ls, lkOk l) : noNR (sendRequests st ls).2.1 := by
  have hp := procResults_noNR ls st.outstanding [] h
  simp only [sendRequests]
  split
  · exact noNR_nil
  · split
    · exact hp
    · exact noNR_append hp (noNR_cons (fun s hc => by cases hc) noNR_nil)

theorem dispatch_noNR (cfg : Cfg) (st : St) : noNR (dispatch cfg st).2 := by
  have h1 := noNR_of_nofire (startLookups_nofire cfg { st with queue := [], msgCount := 0, byteCount := 0 } st.queue)
  have hk := startLookups_kind cfg { st with queue := [], msgCount := 0, byteCount := 0 } st.queue
  simp only [dispatch]
  split
  · exact noNR_append h1 (sendRequests_noNR _ _ hk)
  · exact h1

theorem sendBatch_noNR (cfg : Cfg) (st : St) : noNR (sendBatch cfg st).2 := by
  simp only [sendBatch]; split
  · exact dispatch_noNR cfg st
  · exact noNR_nil

theorem checkSendBatch_noNR (cfg : Cfg) (st : St) : noNR (checkSendBatch cfg st).2 := by
  simp only [checkSendBatch]; split
  · exact sendBatch_noNR cfg st
  · exact noNR_nil

theorem completeBatch_noNR (cfg : Cfg) (st : St) : noNR (completeBatch cfg st).2 := by
  simp only [completeBatch]; exact checkSendBatch_noNR cfg _

theorem finish_noNR (cfg : Cfg) (r : St × List Ob × Bool) (h : noNR r.2.1) : noNR (finish cfg r).2 := by
  simp only [finish]; split
  · exact noNR_append h (completeBatch_noNR cfg _)
  · exact h

/-- the empty answer, without acknowledgements -/
theorem handleEmpty_noNR (cfg : Cfg) (st : St) (b : Batch) (r : ProdRes) (h0 : cfg.acks = producerAckNotRequired)
    (he : isEmptyResult r = true) : noNR (handleSendResponse cfg st b r).2.1 := by
  have : noNR (deliverAll st b .okNone).2.1 := by
    simp only [deliverAll]; exact deliver_noNR _ _ _ (by simp)
  cases r with
  | none => simpa [handleSendResponse, h0] using this
  | responses rs =>
    cases rs with
    | nil => simpa [handleSendResponse, h0] using this
    | cons a l => simp [isEmptyResult] at he
  | failed rs fs => simp [isEmptyResult] at he
  | err k => simp [isEmptyResult] at he

theorem cancelSend_noNR (st : St) (sid : Sid) : noNR (cancelSend st sid).2 := by
  simp only [cancelSend]; repeat' split
  all_goals (intro s h; simp at h)

theorem cancelAll_noNR (st : St) (l : List Sid) : noNR (cancelAll st l).2 := by
  induction l generalizing st with
  | nil => exact noNR_nil
  | cons s rest ih => simp only [cancelAll]; exact noNR_append (cancelSend_noNR st s) (ih _)

theorem cancelBatch_noNR (cfg : Cfg) (st : St) (wipe : Bool) (pout : Option ProdRes) (mouts : List (Rid × MetaRes))
    (hs : st.stopping = true) (h0 : cfg.acks = producerAckNotRequired)
    (he : ∀ r, pout = some r → isEmptyResult r = true) : noNR (cancelBatch cfg st wipe pout mouts).2 := by
  simp only [cancelBatch]
  cases hph : st.phase with
  | idle => exact noNR_nil
  | lookups ls =>
    simp only [cancelLookups]
    rw [afterLookups_stopped cfg _ _ _ (by exact hs)]
    have hobs : noNR ((ls.map (cancelLookup mouts)).flatMap (·.2.2)) := by
      apply noNR_of_nofire
      rw [List.flatMap_map]; exact flatMap_nofire _ _ (cancelLookup_nofire mouts)
    split <;> exact hobs
  | sending rid b =>
    cases pout with
    | none => simp only [cancelSending]; exact noNR_cons (fun s hc => by cases hc) noNR_nil
    | some r =>
      simp only [cancelSending]
      exact noNR_cons (fun s hc => by cases hc) (finish_noNR cfg _ (handleEmpty_noNR cfg _ b r h0 (he r rfl)))
  | retryWait tid b tps =>
    simp only [cancelRetryWait]
    refine noNR_cons (fun s hc => by cases hc) (finish_noNR cfg _ ?_)
    simp only [deliverAll]; exact deliver_noNR _ _ _ (by simp)

theorem acks0_step (cfg : Cfg) (st : St) (e : Ev) (pre : Snap) (t : Track) :
    acks0Step cfg pre t (⟨e, (step cfg st e).2, snapOf (step cfg st e).1⟩ : Step) = true := by
  simp only [acks0Step]
  by_cases h0 : cfg.acks = producerAckNotRequired
  case neg => simp [h0]
  cases hc : completionOf e with
  | none => simp
  | some r =>
    by_cases he : isEmptyResult r = true
    case neg => simp [he]
    have key : noNR (step cfg st e).2 := by
      cases e with
      | produceDone rid r' =>
        simp only [completionOf] at hc; injection hc with hc; subst hc
        simp only [step]
        split
        · split
          · exact finish_noNR cfg _ (handleEmpty_noNR cfg st _ r' h0 he)
          · exact noNR_cons (fun s hc => by cases hc) noNR_nil
        · exact noNR_cons (fun s hc => by cases hc) noNR_nil
      | stop w pout m =>
        cases pout with
        | none => simp [completionOf] at hc
        | some r' =>
          simp only [completionOf] at hc; injection hc with hc; subst hc
          simp only [step]
          split
          · exact noNR_cons (fun s hc => by cases hc) noNR_nil
          · simp only [doStop]
            have h1 := cancelBatch_noNR cfg { st with stopping := true } w (some r') m rfl h0
              (fun r hr => by injection hr with hr; subst hr; exact he)
            split
            · exact noNR_append (noNR_append h1 (noNR_cons (fun s hc => by cases hc) noNR_nil)) (cancelAll_noNR _ _)
            · exact noNR_append (noNR_append h1 noNR_nil) (cancelAll_noNR _ _)
      | _ => simp [completionOf] at hc
    simp only [he, Bool.not_true, Bool.or_false, Bool.or_eq_true, bne_iff_ne, ne_eq, List.all_eq_true]
    right
    intro o ho
    cases o with
    | fire s out =>
      cases out with
      | err k =>
        cases k with
        | noResponse => exact absurd ho (key s)
        | _ => rfl
      | _ => rfl
    | _ => rfl

theorem acks0_from (cfg : Cfg) (evs : List Ev) (st : St) (t : Track) (pre : Snap) :
    checkFrom (acks0Step cfg) pre t (traceFrom cfg st evs) = true := by
  induction evs generalizing st t pre with
  | nil => rfl
  | cons e rest ih =>
    simp only [traceFrom, checkFrom, Bool.and_eq_true]
    exact ⟨acks0_step cfg st e pre t, ih _ _ _⟩

theorem acks0_model (cfg : Cfg) (evs : List Ev) : acks0 cfg (traceOf cfg evs) = true := acks0_from cfg evs _ _ _

end Afkak.Producer
