import Afkak.ClientCache
/-! `_normalize_hosts`: the result is strictly ascending (unique, sorted) and has exactly the parsed inputs. -/
namespace Afkak.ClientCache

theorem hpLt_iff (a b : String × Int) : hpLt a b = true ↔ (a.1 < b.1 ∨ (a.1 = b.1 ∧ a.2 < b.2)) := by
  simp [hpLt]

theorem hpLt_irrefl (a : String × Int) : hpLt a a = false := by
  rw [Bool.eq_false_iff, Ne, hpLt_iff]
  rintro (h | ⟨_, h⟩)
  · exact String.lt_irrefl _ h
  · omega

theorem hpLt_trans {a b c : String × Int} (h1 : hpLt a b = true) (h2 : hpLt b c = true) : hpLt a c = true := by
  rw [hpLt_iff] at *
  rcases h1 with h1 | ⟨e1, h1⟩ <;> rcases h2 with h2 | ⟨e2, h2⟩
  · exact Or.inl (String.lt_trans h1 h2)
  · exact Or.inl (e2 ▸ h1)
  · exact Or.inl (e1 ▸ h2)
  · exact Or.inr ⟨e1.trans e2, by omega⟩

theorem hpLt_total {a b : String × Int} (h : hpLt a b = false) (hne : a ≠ b) : hpLt b a = true := by
  rw [Bool.eq_false_iff, Ne, hpLt_iff] at h
  rw [hpLt_iff]
  by_cases he : a.1 = b.1
  · right
    refine ⟨he.symm, ?_⟩
    have h2 : ¬ a.2 < b.2 := fun hh => h (Or.inr ⟨he, hh⟩)
    have h3 : a.2 ≠ b.2 := fun hh => hne (Prod.ext he hh)
    omega
  · left
    have h1 : ¬ a.1 < b.1 := fun hh => h (Or.inl hh)
    exact Std.lt_of_le_of_ne (String.not_lt.mp h1) (Ne.symm he)

theorem mem_insertHP {x a : String × Int} : ∀ {l : List (String × Int)}, x ∈ insertHP a l ↔ x = a ∨ x ∈ l
  | [] => by simp [insertHP]
  | b :: l => by
    unfold insertHP
    split
    · simp
    · split
      · rename_i _ hab
        have : a = b := by simpa using hab
        subst this; simp
      · simp only [List.mem_cons, mem_insertHP (l := l)]
        constructor
        · rintro (h | h | h) <;> simp [h]
        · rintro (h | h | h) <;> simp [h]

theorem insertHP_sorted (a : String × Int) : ∀ (l : List (String × Int)),
    l.Pairwise (fun x y => hpLt x y = true) → (insertHP a l).Pairwise (fun x y => hpLt x y = true)
  | [], _ => by simp [insertHP]
  | b :: l, h => by
    unfold insertHP
    have hb := List.pairwise_cons.mp h
    split
    · rename_i hab
      refine List.pairwise_cons.mpr ⟨?_, h⟩
      intro y hy
      rcases List.mem_cons.mp hy with rfl | hy
      · exact hab
      · exact hpLt_trans hab (hb.1 y hy)
    · rename_i hab
      split
      · exact h
      · rename_i hne
        refine List.pairwise_cons.mpr ⟨?_, insertHP_sorted a l hb.2⟩
        intro y hy
        rcases mem_insertHP.mp hy with rfl | hy
        · exact hpLt_total (by simpa using hab) (by simpa using hne)
        · exact hb.1 y hy

theorem sortHP_sorted : ∀ (l : List (String × Int)), (sortHP l).Pairwise (fun x y => hpLt x y = true)
  | [] => by simp [sortHP]
  | a :: l => by simpa [sortHP] using insertHP_sorted a _ (sortHP_sorted l)

theorem mem_sortHP {x : String × Int} : ∀ {l : List (String × Int)}, x ∈ sortHP l ↔ x ∈ l
  | [] => by simp [sortHP]
  | a :: l => by simp [sortHP, mem_insertHP, mem_sortHP (l := l)]

theorem mem_of_mapM_some {α β} (f : α → Option β) : ∀ {l : List α} {ps : List β}, l.mapM f = some ps →
    ∀ x, x ∈ ps ↔ ∃ s ∈ l, f s = some x
  | [], ps, h, x => by
    simp only [List.mapM_nil, Option.pure_def, Option.some.injEq] at h; subst h; simp
  | a :: l, ps, h, x => by
    simp only [List.mapM_cons, Option.pure_def, Option.bind_eq_bind] at h
    cases hfa : f a with
    | none => simp [hfa] at h
    | some b =>
      cases hl : l.mapM f with
      | none => simp [hfa, hl] at h
      | some bs =>
        simp only [hfa, hl, Option.bind_some, Option.some.injEq] at h
        subst h
        have ih := mem_of_mapM_some f hl x
        simp only [List.mem_cons, ih]
        constructor
        · rintro (rfl | ⟨s, hs, hfs⟩)
          · exact ⟨a, Or.inl rfl, hfa⟩
          · exact ⟨s, Or.inr hs, hfs⟩
        · rintro ⟨s, rfl | hs, hfs⟩
          · left; rw [hfa] at hfs; exact (Option.some.inj hfs).symm
          · right; exact ⟨s, hs, hfs⟩

/-- strictly ascending lists have no duplicates -/
theorem nodup_of_sorted {l : List (String × Int)} (h : l.Pairwise (fun x y => hpLt x y = true)) : l.Nodup := by
  refine h.imp ?_
  intro a b hab heq
  subst heq
  rw [hpLt_irrefl] at hab; cases hab

end Afkak.ClientCache
