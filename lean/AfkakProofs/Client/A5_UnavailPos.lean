import AfkakProofs.Client.A_Unavail4
/-!
# "Unavailable" only AFTER every bootstrap host was tried - the positional version (session 5)

`trace_unavailable` (A_Unavail4.lean) concludes that a bootstrap connection attempt to every host occurs SOMEWHERE in the
trace.  Here `Good` is positional - the hosts boot-connected strictly BEFORE the `unavailable` result (in the prefix of
the observation list) already cover every bootstrap host - and the same induction (same invariant `UInv`, same
per-action lemma `exec_uinv`) gives: the trace splits as `pre ++ [result o unavailable] ++ post` with a
`bootConnect` to every configured host in `pre`.  The lemmas `runActs_uinv` … `step_uinv` are the ones of
A_Unavail4.lean re-run with the positional `Good` (namespace `Pos`).
-/
namespace Afkak.ClientNet.Pos
open Afkak.ClientCache Afkak.ClientNet

/-- every "unavailable" result is justified by the bootstrap hosts connected BEFORE it -/
def Good (cfg : Cfg) (B0 : List (String × Int)) (obs : List Ob) : Prop :=
  ∀ pre o post, obs = pre ++ o :: post → o.isUnavResult = true → AllTried cfg (B0 ++ bootHostsOf pre)

theorem Good.append {cfg : Cfg} {B0 : List (String × Int)} {obs more : List Ob} (h : Good cfg B0 obs)
    (hm : ∀ o ∈ more, o.isUnavResult = true → AllTried cfg (B0 ++ bootHostsOf obs)) : Good cfg B0 (obs ++ more) := by
  intro pre o post heq hr
  rcases List.append_eq_append_iff.mp heq with ⟨a', h1, h2⟩ | ⟨c', h1, h2⟩
  · -- pre = obs ++ a', more = a' ++ o :: post
    have hmem : o ∈ more := by rw [h2]; simp
    refine (hm o hmem hr).mono ?_
    intro x hx
    rw [h1, bootHostsOf_append, ← List.append_assoc]
    exact List.mem_append_left _ hx
  · -- obs = pre ++ c', o :: post = c' ++ more
    cases c' with
    | nil =>
      simp only [List.nil_append] at h2
      simp only [List.append_nil] at h1
      have hmem : o ∈ more := by rw [← h2]; simp
      rw [← h1]
      exact hm o hmem hr
    | cons c cs =>
      simp only [List.cons_append, List.cons.injEq] at h2
      obtain ⟨rfl, _⟩ := h2
      exact h pre o cs h1 hr

theorem runActs_uinv (cfg : Cfg) (B0 : List (String × Int)) : ∀ (fuel : Nat) (st : St) (acts : List Act) (obs : List Ob),
    UInv cfg st acts (B0 ++ bootHostsOf obs) → Good cfg B0 obs →
    UInv cfg (runActs cfg fuel st acts obs).1 [] (B0 ++ bootHostsOf (runActs cfg fuel st acts obs).2) ∧
      Good cfg B0 (runActs cfg fuel st acts obs).2
  | 0, st, acts, obs, h, hg => by
    simp only [runActs]
    have hb : bootHostsOf (obs ++ [Ob.badOp "fuel"]) = bootHostsOf obs := by simp [bootHostsOf]
    refine ⟨by rw [hb]; exact h.drop (by simp), ?_⟩
    exact hg.append (by intro o ho hr; rw [List.mem_singleton.mp ho] at hr; cases hr)
  | _+1, st, [], obs, h, hg => by simp only [runActs]; exact ⟨h, hg⟩
  | fuel+1, st, a :: rest, obs, h, hg => by
    rw [runActs_succ']
    obtain ⟨h1, h2⟩ := exec_uinv cfg st a rest _ h
    refine runActs_uinv cfg B0 fuel _ _ _ ?_ (hg.append h2)
    rw [bootHostsOf_append, ← List.append_assoc]; exact h1

theorem Good.of_noResult {cfg : Cfg} {B0 : List (String × Int)} {obs : List Ob} (h : ∀ o ∈ obs, o.isUnavResult = false) :
    Good cfg B0 obs := fun pre o post heq hr => by
  have := h o (by rw [heq]; simp)
  rw [this] at hr; cases hr

theorem Good.nil (cfg : Cfg) (B0 : List (String × Int)) : Good cfg B0 [] := fun pre o post h => by cases pre <;> cases h

theorem runActs_uinv0 (cfg : Cfg) (B : List (String × Int)) (st : St) (acts : List Act) (h : UInv cfg st acts B) :
    UInv cfg (runActs cfg fuel st acts []).1 [] (B ++ bootHostsOf (runActs cfg fuel st acts []).2) ∧
      Good cfg B (runActs cfg fuel st acts []).2 :=
  runActs_uinv cfg B fuel st acts [] (by simpa [bootHostsOf] using h) (Good.nil cfg B)

theorem fireDue_uinv (cfg : Cfg) (B0 : List (String × Int)) : ∀ (n : Nat) (st : St) (obs : List Ob),
    UInv cfg st [] (B0 ++ bootHostsOf obs) → Good cfg B0 obs →
    UInv cfg (fireDue cfg n st obs).1 [] (B0 ++ bootHostsOf (fireDue cfg n st obs).2) ∧ Good cfg B0 (fireDue cfg n st obs).2
  | 0, st, obs, h, hg => by
    simp only [fireDue]
    have hb : bootHostsOf (obs ++ [Ob.badOp "fuel"]) = bootHostsOf obs := by simp [bootHostsOf]
    exact ⟨by rw [hb]; exact h, hg.append (by intro o ho hr; rw [List.mem_singleton.mp ho] at hr; cases hr)⟩
  | n+1, st, obs, h, hg => by
    simp only [fireDue]
    split
    · exact ⟨h, hg⟩
    · split
      · exact ⟨h, hg⟩
      · rename_i t rest _ _
        have h1 : UInv cfg { st with timers := rest } [] (B0 ++ bootHostsOf obs) := h.of_state rfl rfl rfl rfl
        obtain ⟨h2, h3⟩ := runActs_uinv cfg B0 fuel _ _ obs (h1.pushPlain _ (timerAct_plain t.what)) hg
        exact fireDue_uinv cfg B0 n _ _ h2 h3

theorem step_uinv (cfg : Cfg) (st : St) (env : Env) (e : Ev) (B : List (String × Int)) (h : UInv cfg st [] B)
    (hnc : ∀ o, e ≠ .close o) (hb : ∀ k r, e = .fire k r → r.benign = true) :
    UInv cfg (step cfg st env e).1 [] (B ++ bootHostsOf (step cfg st env e).2) ∧ Good cfg B (step cfg st env e).2 := by
  have h0 : UInv cfg { st with env := env } [] B := h.of_state rfl rfl rfl rfl
  have hnil : ∀ st', UInv cfg st' [] B → UInv cfg st' [] (B ++ bootHostsOf []) ∧ Good cfg B [] :=
    fun st' h' => ⟨by simpa [bootHostsOf] using h', Good.nil cfg B⟩
  have hbad : ∀ st' w, UInv cfg st' [] B → UInv cfg st' [] (B ++ bootHostsOf [Ob.badOp w]) ∧ Good cfg B [Ob.badOp w] :=
    fun st' w h' => ⟨by simpa [bootHostsOf] using h', Good.of_noResult (fun o ho => by rw [List.mem_singleton.mp ho]; rfl)⟩
  cases e
  all_goals simp only [step]
  case load o topics =>
    refine runActs_uinv0 cfg B _ _ (UInv.pushPlain ?_ _ rfl)
    exact h0.of_state rfl (bootsOf_append_done _ _ _ rfl rfl) rfl rfl
  case send o keys group foe expect =>
    split
    · refine runActs_uinv0 cfg B _ _ (UInv.pushPlain ?_ _ rfl)
      exact h0.of_state rfl rfl rfl rfl
    · split
      · refine runActs_uinv0 cfg B _ _ (UInv.pushPlain ?_ _ rfl)
        exact h0.of_state rfl rfl rfl rfl
      · refine runActs_uinv0 cfg B _ _ (UInv.pushPlain ?_ _ rfl)
        exact h0.of_state rfl rfl rfl rfl
  case cload o g =>
    refine runActs_uinv0 cfg B _ _ (UInv.pushPlain ?_ _ ?_)
    · refine UInv.of_state (st := { st with env := env, liveOps := st.liveOps ++ [o] }) ?_
        (cloadJoin_closing _ _ _) (cloadJoin_boots _ _ _) (restsOf_of_core (core_cloadJoin _ _ _)) (congrArg Cache.brokers (cloadJoin_cache _ _ _))
      exact h0.of_state rfl rfl rfl rfl
    · unfold cloadJoin; split <;> rfl
  case srtc o g minT =>
    split
    · refine runActs_uinv0 cfg B _ _ (UInv.pushPlain ?_ _ rfl)
      exact h0.of_state rfl rfl rfl rfl
    · refine runActs_uinv0 cfg B _ _ (UInv.pushPlain ?_ _ ?_)
      · refine UInv.of_state (st := { st with env := env, liveOps := st.liveOps ++ [o], srtcs := st.srtcs ++ [{ r := st.srtcs.length, o := o, g := g, minTimeout := minT, phase := .resolving }] }) ?_
          (cloadJoin_closing _ _ _) (cloadJoin_boots _ _ _) (restsOf_of_core (core_cloadJoin _ _ _)) (congrArg Cache.brokers (cloadJoin_cache _ _ _))
        exact h0.of_state rfl rfl rfl rfl
      · unfold cloadJoin; split <;> rfl
  case ltp o topics =>
    refine runActs_uinv0 cfg B _ _ (UInv.pushPlain ?_ _ rfl)
    exact h0.of_state rfl rfl rfl rfl
  case cancel o =>
    obtain ⟨h1, h2, h3⟩ := cancelOp_uinv cfg _ o B h0
    exact runActs_uinv cfg B fuel _ _ _ (by rw [h2, List.append_nil]; exact h1) (Good.of_noResult h3)
  case close o => exact absurd rfl (hnc o)
  case resetTopics ts =>
    exact hnil _ (h0.of_state rfl rfl rfl (resetTopics_brokers _ _))
  case fire k r =>
    refine runActs_uinv0 cfg B _ _ (h0.pushPlain _ ?_)
    simp [Act.plainU, Act.claims, hb k r rfl]
  case down b => exact runActs_uinv0 cfg B _ _ (h0.pushPlain _ rfl)
  case conn b v => exact hnil _ (h0.of_state rfl rfl rfl rfl)
  case bootOk j =>
    split
    · exact hbad _ _ h0
    · rename_i x hx
      have hxm := head?_filter_mem' hx
      refine ⟨?_, Good.of_noResult (fun ob hob => ?_)⟩
      · have hbh : bootHostsOf [Ob.bootWrite j, Ob.setTimer (TimerWhat.boot j) (st.now + cfg.timeout)] = [] := rfl
        rw [hbh, List.append_nil]
        refine ⟨h0.open_, ?_, h0.rests, h0.bootAct, h0.nextAct, h0.delivers, h0.claims⟩
        intro r hr
        have hr' : r ∈ bootsOf (setUnaware { st with env := env } x.u fun y => { y with st := UState.bootReq j (match x.st with | UState.bootConn _ rest => rest | _ => []) }) := hr
        rcases bootsOf_setUnaware_sub _ _ _ (some _) (fun y => rfl) r hr' with h1 | h1
        · exact h0.boots r h1
        · cases h1
          have hp := hxm.2
          cases hst : x.st <;> simp only [hst] at hp ⊢ <;> try cases hp
          exact h0.boots _ (mem_bootsOf hxm.1 (by rw [hst]; rfl))
      · simp only [List.mem_cons, List.not_mem_nil, or_false] at hob
        rcases hob with rfl | rfl <;> rfl
  case bootFail j =>
    split
    · exact hbad _ _ h0
    · rename_i x hx
      have hxm := head?_filter_mem' hx
      refine runActs_uinv0 cfg B _ _ (h0.pushOk _ ?_)
      intro a' ha'
      rw [List.mem_singleton.mp ha']
      refine ⟨by simp [Act.claims], ?_, by simp, by simp⟩
      intro u' hosts' hh
      cases hh
      left
      have hp := hxm.2
      cases hst : x.st <;> simp only [hst] at hp ⊢ <;> try cases hp
      exact mem_bootsOf hxm.1 (by rw [hst]; rfl)
  case bootReply j p => exact runActs_uinv0 cfg B _ _ (h0.pushPlain _ rfl)
  case bootLost j => exact runActs_uinv0 cfg B _ _ (h0.pushPlain _ rfl)
  case advance dt =>
    split
    · exact hbad _ _ h0
    · refine fireDue_uinv cfg B _ _ [] ?_ (Good.nil cfg B)
      show UInv cfg _ [] (B ++ [])
      rw [List.append_nil]
      exact h0.of_state rfl rfl rfl rfl

/-- trace level, positional: with `B` the hosts boot-connected before the trace starts -/
theorem trace_unavailable_pos (cfg : Cfg) : ∀ (evs : List (Env × Ev)) (st : St) (B : List (String × Int)), UInv cfg st [] B →
    (∀ e ∈ evs, ∀ o, e.2 ≠ .close o) → (∀ e ∈ evs, ∀ k r, e.2 = .fire k r → r.benign = true) →
    ∀ o, TItem.ob (.result o (.fail .unavailable)) ∈ traceOf cfg st evs →
    ∃ pre post, traceOf cfg st evs = pre ++ TItem.ob (.result o (.fail .unavailable)) :: post ∧
      ∀ hp ∈ cfg.bootHosts, hp ∈ B ∨ ∃ j, TItem.ob (.bootConnect j hp.1 hp.2) ∈ pre
  | [], _, _, _, _, _, o, hm => by simp [traceOf] at hm
  | (env, e) :: rest, st, B, h, hnc, hb, o, hm => by
    obtain ⟨h1, h2⟩ := step_uinv cfg st env e B h (hnc (env, e) (by simp)) (hb (env, e) (by simp))
    have htr : traceOf cfg st ((env, e) :: rest) = [TItem.ev e] ++ (step cfg st env e).2.map TItem.ob ++
        [TItem.dump (step cfg st env e).1.cache, TItem.timers ((step cfg st env e).1.timers.map (fun t => (t.what, t.due)))] ++
        traceOf cfg (step cfg st env e).1 rest := rfl
    rw [htr] at hm ⊢
    rcases List.mem_append.mp hm with hm1 | hm2
    · rcases List.mem_append.mp hm1 with hm3 | hm4
      · rcases List.mem_append.mp hm3 with hm5 | hm6
        · simp at hm5
        · obtain ⟨ob, hob, heq⟩ := List.mem_map.mp hm6
          obtain ⟨p, q, hpq⟩ := List.append_of_mem hob
          have hall := h2 p ob q hpq (by cases heq; rfl)
          refine ⟨[TItem.ev e] ++ p.map TItem.ob, q.map TItem.ob ++
            [TItem.dump (step cfg st env e).1.cache, TItem.timers ((step cfg st env e).1.timers.map (fun t => (t.what, t.due)))] ++
            traceOf cfg (step cfg st env e).1 rest, ?_, ?_⟩
          · rw [hpq, ← heq]; simp
          · intro hp hhp
            rcases List.mem_append.mp (hall hp hhp) with h3 | h3
            · exact Or.inl h3
            · obtain ⟨j, hj⟩ := mem_bootHostsOf h3
              exact Or.inr ⟨j, List.mem_append_right _ (List.mem_map.mpr ⟨_, hj, rfl⟩)⟩
      · simp at hm4
    · obtain ⟨pre', post', heq', hcov⟩ := trace_unavailable_pos cfg rest _ _ h1 (fun e' he' => hnc e' (by simp [he']))
        (fun e' he' => hb e' (by simp [he'])) o hm2
      refine ⟨[TItem.ev e] ++ (step cfg st env e).2.map TItem.ob ++
        [TItem.dump (step cfg st env e).1.cache, TItem.timers ((step cfg st env e).1.timers.map (fun t => (t.what, t.due)))] ++ pre', post', ?_, ?_⟩
      · rw [heq']; simp
      · intro hp hhp
        rcases hcov hp hhp with h3 | ⟨j, hj⟩
        · rcases List.mem_append.mp h3 with h4 | h4
          · exact Or.inl h4
          · obtain ⟨j, hj⟩ := mem_bootHostsOf h4
            refine Or.inr ⟨j, ?_⟩
            apply List.mem_append_left
            apply List.mem_append_left
            apply List.mem_append_right
            exact List.mem_map.mpr ⟨_, hj, rfl⟩
        · exact Or.inr ⟨j, List.mem_append_right _ hj⟩

end Afkak.ClientNet.Pos
