import AfkakProofs.Client.A_Unavail
/-!
# The broker loop of `_send_broker_unaware_request`, action by action (session 5)

"Broker-agnostic requests are tried on every known broker, connected ones first, and then on every bootstrap host":
the first half at the level of the coroutine's actions (the second half, positional, is
`C07_unaware_unavailable_only_after_all`).
-/
namespace Afkak.ClientNet
open Afkak.ClientCache

/-- `unawareStart` on an open client: the list of nodes the loop will walk holds EVERY known broker (and only known
    brokers), those with a connected broker client first -/
theorem unawareStart_order (cfg : Cfg) (st : St) (u : Nat) (hc : st.closing = false) (st1 : St) (nodes : List Int)
    (hsh : shuffle st (st.cache.brokers.map (·.1)) = some (st1, nodes)) :
    (exec cfg st (.unawareStart u)).2.2 = [.unawareNext u (connectedFirst st1 nodes)] ∧
    (∀ n, hasKey n st.cache.brokers = true → n ∈ connectedFirst st1 nodes) ∧
    (∀ n ∈ connectedFirst st1 nodes, hasKey n st.cache.brokers = true) ∧
    ∃ l₁ l₂, connectedFirst st1 nodes = l₁ ++ l₂ ∧ (∀ n ∈ l₁, nodeConnected st1 n = true) ∧ (∀ n ∈ l₂, nodeConnected st1 n = false) := by
  obtain ⟨h1, h2⟩ := shuffle_mem hsh
  have hmem : ∀ n, n ∈ connectedFirst st1 nodes ↔ n ∈ nodes := by
    intro n
    simp only [connectedFirst, List.mem_append, List.mem_filter]
    constructor
    · rintro (h | h) <;> exact h.1
    · intro h; by_cases hcn : nodeConnected st1 n = true
      · exact Or.inl ⟨h, hcn⟩
      · exact Or.inr ⟨h, by simpa using hcn⟩
  refine ⟨by simp [exec, hc, hsh], ?_, ?_, _, _, rfl, ?_, ?_⟩
  · intro n hn
    obtain ⟨v, hv⟩ := hasKey_iff.mp hn
    exact (hmem n).mpr (h1 n (List.mem_map.mpr ⟨_, hv, rfl⟩))
  · intro n hn
    obtain ⟨e, he, rfl⟩ := List.mem_map.mp (h2 n ((hmem n).mp hn))
    exact hasKey_iff.mpr ⟨e.2, he⟩
  · intro n hn; exact (List.mem_filter.mp hn).2
  · intro n hn; simpa using (List.mem_filter.mp hn).2

/-- a request of the loop that fails with a Kafka error (time-out, closed client, …) moves the loop on to the REST of
    the list; a reply, or any other failure, ends the loop -/
theorem unaware_reqDone (st : St) (u : Nat) (rest : List Int) (k : Nat) (r : Res) :
    (reqDone st (.unaware u rest) k r).2 =
      (match r with
       | .ok _ => [Act.unawareDone u r]
       | .err kind => if kind.isKafkaError then [Act.unawareNext u rest] else [Act.unawareDone u r]) := by
  cases r with
  | ok p => rfl
  | err kind => by_cases h : kind.isKafkaError = true <;> simp [reqDone, h]

/-- the loop falls back to the bootstrap hosts only when its list of brokers is exhausted: `unawareNext` with a
    non-empty list never pushes `bootNext` -/
theorem unawareNext_no_boot (cfg : Cfg) (st : St) (u : Nat) (n : Int) (rest : List Int) :
    ∀ a ∈ (exec cfg st (.unawareNext u (n :: rest))).2.2, ∀ u' hosts, a ≠ .bootNext u' hosts := by
  intro a ha u' hosts heq
  subst heq
  simp only [exec] at ha
  split at ha
  · cases ha
  · split at ha
    · simp at ha
    · rename_i i hi
      rcases issueTo_acts_ok hi with h | h <;> rw [h] at ha <;> simp at ha

end Afkak.ClientNet
