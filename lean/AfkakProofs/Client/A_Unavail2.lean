import AfkakProofs.Client.A_Unavail
/-! What each action of the interpreter may push (`ActOk`): the case analysis over `exec`. -/
namespace Afkak.ClientNet
open Afkak.ClientCache

theorem mem_single {α} {a b : α} (h : a ∈ [b]) : a = b := by simpa using h

theorem unawareGet_mem' {st : St} {u : Nat} {x : Unaware} (h : unawareGet st u = some x) : x ∈ st.unawares := by
  unfold unawareGet at h
  exact (List.mem_filter.mp (List.mem_of_mem_head? h)).1

theorem exec_acts_ok (cfg : Cfg) (st : St) (a : Act) (hc : st.closing = false)
    (hn : ∀ u n rest, a = .unawareNext u (n :: rest) → Known st n)
    (hd : ∀ o k r, a = .deliver o k r → ∃ p, r = .ok p) :
    ∀ a' ∈ (exec cfg st a).2.2, ActOk cfg st a a' := by
  cases a
  case fireReq k r nested =>
    simp only [exec]
    split
    · simp
    · rename_i q hq
      split
      · simp
      · dsimp only
        apply reqDone_ok
        · intro u rest ho; exact mem_restsOf (reqGet_mem hq).1 ho
        · intro hb
          split at hb
          · cases hb
          · simpa [Act.claims] using hb
  case deliver owner k r =>
    obtain ⟨p, rfl⟩ := hd owner k r rfl
    simp only [exec]
    intro a' ha'
    unfold reqDone at ha'
    split at ha'
    · exact ActOk.of_plain (by rw [mem_single ha']; rfl)
    · exact ActOk.of_plain (by rw [mem_single ha']; rfl)
    · exact ActOk.of_plain (by rw [mem_single ha']; rfl)
  case timeoutFired k =>
    simp only [exec]
    split
    · simp
    · rename_i q hq
      split
      · simp
      · dsimp only
        intro a' ha'
        rcases List.mem_append.mp ha' with h | h
        · exact reqDone_ok cfg st _ _ q.owner k _ (fun u rest ho => mem_restsOf (reqGet_mem hq).1 ho) (fun hb => by cases hb) a' h
        · split at h
          · exact ActOk.of_plain (by rw [mem_single h]; rfl)
          · cases h
  case cancelReq k =>
    simp only [exec]
    split
    · simp
    · split
      · intro a' ha'; exact ActOk.of_plain (by rw [mem_single ha']; rfl)
      · simp
  case disconnect b => simp [exec]
  case unawareStart u =>
    simp only [exec, hc, Bool.false_eq_true, if_false]
    split
    · simp
    · rename_i st1 nodes hs
      intro a' ha'
      rw [mem_single ha']
      refine ⟨by simp [Act.claims], by simp, ?_, by simp⟩
      intro u' nodes' h
      cases h
      left
      intro n hn'
      have hmem : n ∈ nodes := by
        simp only [connectedFirst, List.mem_append, List.mem_filter] at hn'
        rcases hn' with h | h <;> exact h.1
      have := (shuffle_mem hs).2 n hmem
      obtain ⟨e, he, rfl⟩ := List.mem_map.mp this
      unfold Known
      exact hasKey_iff.mpr ⟨e.2, he⟩
  case unawareNext u nodes =>
    simp only [exec]
    split
    · simp
    · rename_i x hx
      split
      · split
        · simp
        · rename_i st1 hosts hs
          intro a' ha'
          rw [mem_single ha']
          exact ⟨by simp [Act.claims], fun u' h' h => by cases h; exact Or.inr (shuffle_mem hs).1, by simp, by simp⟩
      · rename_i n rest
        split
        · rename_i e he
          exact absurd he (issueTo_ok_of_known hc (hn u n rest rfl) e)
        · rename_i i hi
          exact issueTo_acts_ActOk hi
  case bootNext u hosts =>
    simp only [exec, hc, Bool.false_eq_true, if_false]
    split
    · intro a' ha'
      rw [mem_single ha']
      exact ActOk.of_claims (fun _ => Or.inr ⟨u, rfl⟩) (by simp) (by simp) (by simp)
    · simp
  case bootTimeout j =>
    simp only [exec]
    intro a' ha'; exact ActOk.of_plain (by rw [mem_single ha']; rfl)
  case bootResult j r =>
    simp only [exec]
    split
    · simp
    · rename_i x hx
      have hxm : x ∈ st.unawares := (List.mem_filter.mp (List.mem_of_mem_head? hx)).1
      split
      · intro a' ha'; exact ActOk.of_plain (by rw [mem_single ha']; rfl)
      · intro a' ha'
        rw [mem_single ha']
        refine ⟨by simp [Act.claims], ?_, by simp, by simp⟩
        intro u' hosts' h
        cases h
        left
        have hp := (List.mem_filter.mp (List.mem_of_mem_head? hx)).2
        cases hst : x.st <;> simp only [hst] at hp ⊢ <;> try cases hp
        exact mem_bootsOf hxm (by rw [hst]; rfl)
  case unawareDone u r =>
    simp only [exec]
    split
    · simp
    · rename_i x hx
      split
      · -- load
        rename_i fetchAll lo _
        split
        · dsimp only
          intro a' ha'
          rcases List.mem_append.mp ha' with h | h
          · exact all_plain (applyUpdate_acts_plain _ _ _ _) a' h
          · exact ActOk.of_plain (by rw [mem_single h]; rfl)
        · exact deliverLoad_ok cfg st _ lo (.err (.other garbageCls)) (by simp [Res.claimsU, Kind.isUnav])
        · simp
        · rename_i kd
          apply deliverLoad_ok
          intro h
          split at h
          · simp [Res.claimsU] at h
          · rename_i hcan
            simpa [Act.claims, Res.claimsD] using hcan
      · -- ltp
        rename_i l
        split
        · dsimp only
          intro a' ha'
          rcases List.mem_append.mp ha' with h | h
          · exact all_plain (applyUpdate_acts_plain _ _ _ _) a' h
          · exact ActOk.of_plain (by rw [mem_single h]; rfl)
        · intro a' ha'; exact ActOk.of_plain (by rw [mem_single ha']; rfl)
        · simp
        · rename_i kd
          intro a' ha'
          rw [mem_single ha']
          refine ActOk.of_claims ?_ (by simp) (by simp) (by simp)
          intro h
          left
          cases kd <;> simp_all [Act.claims, Kind.isUnav, Res.claimsD, Kind.isCancel]
      · -- cfetch
        rename_i g _
        split
        · dsimp only
          intro a' ha'
          rcases List.mem_append.mp ha' with h | h
          · exact all_plain (applyUpdate_acts_plain _ _ _ _) a' h
          · obtain ⟨w, _, rfl⟩ := List.mem_map.mp h
            exact ActOk.of_plain rfl
        · intro a' ha'
          obtain ⟨w, _, rfl⟩ := List.mem_map.mp ha'
          exact ActOk.of_plain rfl
  case waiterFire w r =>
    simp only [exec]
    split
    · intro a' ha'
      rw [mem_single ha']
      refine ActOk.of_claims ?_ (by simp) (by simp) (by simp)
      intro h
      left
      cases r <;> simp_all [Act.claims, Res.claimsU]
    · intro a' ha'
      rw [mem_single ha']
      exact ActOk.of_claims (fun h => Or.inl (by simpa [Act.claims] using h)) (by simp) (by simp) (by simp)
    · intro a' ha'
      rw [mem_single ha']
      exact ActOk.of_claims (fun h => Or.inl (by simpa [Act.claims] using h)) (by simp) (by simp) (by simp)
  case sendResolve s =>
    simp only [exec]
    repeat' split
    all_goals (try dsimp only)
    all_goals (first
      | (simp; done)
      | (intro a' ha'; exact ActOk.of_plain (by rw [mem_single ha']; rfl))
      | (intro a' ha'
         unfold cloadJoin at ha'
         split at ha'
         · cases ha'
         · exact ActOk.of_plain (by rw [mem_single ha']; rfl)))
  case sendLoaded s r =>
    simp only [exec]
    split
    · intro a' ha'
      rw [mem_single ha']
      exact ActOk.of_claims (fun h => Or.inl (by simpa [Act.claims, Res.claimsU] using h)) (by simp) (by simp) (by simp)
    · intro a' ha'; exact ActOk.of_plain (by rw [mem_single ha']; rfl)
  case sendCoordLoaded s r =>
    simp only [exec]
    split
    · intro a' ha'
      rw [mem_single ha']
      exact ActOk.of_claims (fun h => Or.inl (by simpa [Act.claims, Res.claimsU] using h)) (by simp) (by simp) (by simp)
    · intro a' ha'; exact ActOk.of_plain (by rw [mem_single ha']; rfl)
  case sendLookup s =>
    simp only [exec]
    split
    · simp
    · split
      · split
        · simp
        · split
          · rename_i kd hl
            intro a' ha'
            rw [mem_single ha']
            refine ActOk.of_plain ?_
            have : kd.isUnav = false := by
              repeat' split at hl
              all_goals (first | (cases hl; rfl) | cases hl)
            simp [Act.plainU, Act.claims, this]
          · intro a' ha'; exact ActOk.of_plain (by rw [mem_single ha']; rfl)
      · simp
  case sendFail s kd =>
    simp only [exec]
    split
    · simp
    · intro a' ha'
      rw [mem_single ha']
      exact ActOk.of_claims (fun h => Or.inl (by simpa [Act.claims] using h)) (by simp) (by simp) (by simp)
  case sendIssue s =>
    simp only [exec]
    split
    · simp
    · dsimp only
      apply all_plain
      simp only [List.all_append, List.all_map, Bool.and_eq_true]
      exact ⟨List.all_eq_true.mpr (fun j _ => rfl), rfl⟩
  case issueSlot s j =>
    simp only [exec]
    repeat' split
    all_goals (try dsimp only)
    all_goals (first
      | (simp; done)
      | (rename_i he
         intro a' ha'
         rw [mem_single ha']
         exact ActOk.of_plain (by simp [Act.plainU, Act.claims, issueTo_err_kind he]))
      | (rename_i hi; exact issueTo_acts_ActOk hi))
  case sendCheck s =>
    simp only [exec]
    repeat' split
    all_goals (try dsimp only)
    all_goals (first
      | (simp; done)
      | (intro a' ha'; exact ActOk.of_plain (by rw [mem_single ha']; rfl))
      | (intro a' ha'
         rw [mem_single ha']
         refine ActOk.of_plain ?_
         simp only [Act.plainU, Act.claims]
         split <;> rfl))
  case srtcCoordLoaded r res =>
    simp only [exec]
    split
    · intro a' ha'
      rw [mem_single ha']
      exact ActOk.of_claims (fun h => Or.inl (by simpa [Act.claims, Res.claimsU] using h)) (by simp) (by simp) (by simp)
    · intro a' ha'; exact ActOk.of_plain (by rw [mem_single ha']; rfl)
  case srtcFail r kd =>
    simp only [exec]
    split
    · simp
    · intro a' ha'
      rw [mem_single ha']
      exact ActOk.of_claims (fun h => Or.inl (by simpa [Act.claims] using h)) (by simp) (by simp) (by simp)
  case srtcGo r =>
    simp only [exec]
    repeat' split
    all_goals (try dsimp only)
    all_goals (first
      | (simp; done)
      | (intro a' ha'; exact ActOk.of_plain (by rw [mem_single ha']; rfl))
      | (rename_i he
         intro a' ha'
         rw [mem_single ha']
         exact ActOk.of_plain (by simp [Act.plainU, Act.claims, issueTo_err_kind he]))
      | (rename_i hi; exact issueTo_acts_ActOk hi))
  case srtcDone r res =>
    simp only [exec]
    split
    · simp
    · split
      · intro a' ha'
        rw [mem_single ha']
        exact ActOk.of_claims (fun h => Or.inl (by simpa [Act.claims, Res.claimsU] using h)) (by simp) (by simp) (by simp)
      · repeat' split
        all_goals (first
          | (simp; done)
          | (intro a' ha'; exact ActOk.of_plain (by rw [mem_single ha']; rfl)))
      · intro a' ha'; exact ActOk.of_plain (by rw [mem_single ha']; rfl)
      · simp
  case closeBc b =>
    simp only [exec]
    apply all_plain
    simp only [List.all_append, List.all_map, Bool.and_eq_true]
    refine ⟨List.all_eq_true.mpr (fun q _ => rfl), ?_⟩
    split <;> rfl
  case newAgg bs => simp only [exec]; exact all_plain rfl
  case bcDown b nested => simp only [exec]; exact all_plain rfl
  case aggCheck =>
    simp only [exec]
    split
    · simp
    · exact all_plain rfl
  case cancelBoots =>
    simp only [exec]
    apply all_plain
    simp only [List.all_map]
    exact List.all_eq_true.mpr (fun x _ => rfl)
  case cancelU u =>
    simp only [exec]
    split
    · simp
    · rename_i x hx
      exact cancelUnaware_ok cfg st _ x (unawareGet_mem' hx)
  case mergeTopics ts lo =>
    simp only [exec]
    exact deliverLoad_ok cfg st _ lo _ (by simp [Res.claimsU])
  case ltpMerged l ts =>
    simp only [exec]
    repeat' split
    all_goals (try dsimp only)
    all_goals (first
      | (simp; done)
      | (intro a' ha'; exact ActOk.of_plain (by rw [mem_single ha']; rfl)))
  case ltpWake l =>
    simp only [exec]
    split
    · simp
    · intro a' ha'; exact ActOk.of_plain (by rw [mem_single ha']; rfl)
  case ltpFail l kd =>
    simp only [exec]
    split
    · simp
    · intro a' ha'
      rw [mem_single ha']
      exact ActOk.of_claims (fun h => Or.inl (by simpa [Act.claims] using h)) (by simp) (by simp) (by simp)
  case cancelDelays =>
    simp only [exec]
    apply all_plain
    simp only [List.all_map]
    exact List.all_eq_true.mpr (fun x _ => rfl)
  case cancelDelay l =>
    simp only [exec]
    split
    · intro a' ha'; exact ActOk.of_plain (by rw [mem_single ha']; rfl)
    · simp
  case finishClose o =>
    simp only [exec]
    split <;> simp
  case closeAgain o =>
    simp only [exec]
    split <;> simp
  case opResult o r =>
    simp only [exec]
    split <;> simp
end Afkak.ClientNet
