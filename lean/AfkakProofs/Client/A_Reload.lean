import AfkakProofs.Client.A_Ids
import AfkakProofs.Client.Dict
import Afkak.Monitor.C08
/-!
# An invalidated topic is reloaded before anything is sent (C08, coroutine level)

`send o [key]` in a reachable state whose cache holds no routing for `key`: the interpreter runs
`sendResolve → (new metadata load) unawareStart → unawareNext/bootNext → …` and every continuation that
can run in the same step (the load failing synchronously) ends in `sendFail`; none of them is `issueSlot`,
the only action that hands a payload request to a broker client.  A simulation-style invariant (`RInv` on the
state, `Act.allowed` on the stack) over `runActs`.
-/
namespace Afkak.ClientNet
open Afkak.ClientCache

/-- a produce/fetch/offset/commit request handed to a broker client -/
def Ob.isPay : Ob → Bool
  | .mk _ _ _ (.payloads _ _) => true
  | _ => false

theorem runActs_succ (cfg : Cfg) (n : Nat) (st : St) (a : Act) (rest : List Act) (obs : List Ob) :
    runActs cfg (n + 1) st (a :: rest) obs =
      runActs cfg n (exec cfg st a).1 ((exec cfg st a).2.2 ++ rest) (obs ++ (exec cfg st a).2.1) := by
  simp [runActs]

/-- observations of a run of the action stack: an invariant of (state, stack) that every action preserves
    while emitting only `P`-observations -/
theorem runActs_obs (cfg : Cfg) (I : St → List Act → Prop) (P : Ob → Prop)
    (hex : ∀ st a rest, I st (a :: rest) →
      I (exec cfg st a).1 ((exec cfg st a).2.2 ++ rest) ∧ ∀ o ∈ (exec cfg st a).2.1, P o)
    (hfuel : P (.badOp "fuel")) :
    ∀ (fuel : Nat) (st : St) (acts : List Act) (obs : List Ob), I st acts → (∀ o ∈ obs, P o) →
      ∀ o ∈ (runActs cfg fuel st acts obs).2, P o
  | 0, st, acts, obs, _, hobs => by
    intro o ho
    simp only [runActs, List.mem_append, List.mem_singleton] at ho
    rcases ho with ho | rfl
    · exact hobs o ho
    · exact hfuel
  | _+1, st, [], obs, _, hobs => by
    intro o ho
    simp only [runActs] at ho
    exact hobs o ho
  | fuel+1, st, a :: rest, obs, hI, hobs => by
    rw [runActs_succ]
    obtain ⟨hI', hP⟩ := hex st a rest hI
    refine runActs_obs cfg I P hex hfuel fuel _ _ _ hI' ?_
    intro o ho
    rcases List.mem_append.mp ho with ho | ho
    · exact hobs o ho
    · exact hP o ho

/-- the actions that can be on the stack while send `s` waits for the metadata load `u` it started -/
def Act.allowed (s u : Nat) : Act → Bool
  | .unawareStart u' | .unawareNext u' _ | .bootNext u' _ => u' == u
  | .unawareDone u' (.err _) => u' == u
  | .sendLoaded s' _ | .sendLookup s' | .sendFail s' _ => s' == s
  | .opResult _ _ => true
  | _ => false

/-- the cache holds no routing for `key`; the load `u` belongs to send `s`; send `s` is still resolving its
    first (only) key, or has failed -/
structure RInv (s u : Nat) (key : TP) (st : St) : Prop where
  noRoute : get? key st.cache.t2b = none
  owner : ∀ y ∈ st.unawares, y.u = u → y.owner = .load false (.leader s)
  send : ∀ x ∈ st.sends, x.s = s → x.phase = .done ∨ (x.phase = .resolving 0 ∧ x.keys[0]? = some key ∧ x.group = none)

theorem RInv.of_eq {s u : Nat} {key : TP} {st st' : St} (h : RInv s u key st) (hc : st'.cache.t2b = st.cache.t2b)
    (hu : st'.unawares = st.unawares) (hs : st'.sends = st.sends) : RInv s u key st' :=
  ⟨by rw [hc]; exact h.noRoute, by rw [hu]; exact h.owner, by rw [hs]; exact h.send⟩

theorem RInv.setUnaware {s u : Nat} {key : TP} {st : St} (h : RInv s u key st) (u' : Nat) (f : Unaware → Unaware)
    (hf : ∀ y, (f y).u = y.u ∧ (f y).owner = y.owner) : RInv s u key (setUnaware st u' f) := by
  refine ⟨h.noRoute, ?_, h.send⟩
  intro y hy hyu
  simp only [ClientNet.setUnaware, List.mem_map] at hy
  obtain ⟨y0, hy0, rfl⟩ := hy
  split at hyu <;> rename_i hc
  · rw [(hf y0).1] at hyu
    simp only [hc, if_true, (hf y0).2]
    exact h.owner y0 hy0 hyu
  · simp only [hc, Bool.false_eq_true, if_false]
    exact h.owner y0 hy0 hyu

theorem RInv.setSend_done {s u : Nat} {key : TP} {st : St} (h : RInv s u key st) (s' : Nat) :
    RInv s u key (setSend st s' (fun y => { y with phase := .done })) := by
  refine ⟨h.noRoute, h.owner, ?_⟩
  intro x hx hxs
  simp only [ClientNet.setSend, List.mem_map] at hx
  obtain ⟨x0, hx0, rfl⟩ := hx
  split
  · exact Or.inl rfl
  · rename_i hc
    simp only [hc, Bool.false_eq_true, if_false] at hxs
    exact h.send x0 hx0 hxs

theorem shuffle_frame {α} {st st' : St} {xs ys : List α} (h : shuffle st xs = some (st', ys)) :
    st'.cache = st.cache ∧ st'.unawares = st.unawares ∧ st'.sends = st.sends := by
  unfold shuffle at h
  split at h
  · cases h
  · simp only [Option.map_eq_some_iff] at h
    obtain ⟨_, _, heq⟩ := h
    cases heq; exact ⟨rfl, rfl, rfl⟩

theorem getBrokerClient_frameR {st st' : St} {n : Int} {b : Nat} {obs : List Ob}
    (h : getBrokerClient st n = .ok (st', b, obs)) :
    st'.cache.t2b = st.cache.t2b ∧ st'.unawares = st.unawares ∧ st'.sends = st.sends ∧ ∀ o ∈ obs, o.isPay = false := by
  unfold getBrokerClient at h
  split at h
  · cases h
  · split at h
    · cases h; exact ⟨rfl, rfl, rfl, by simp⟩
    · split at h
      · cases h
      · cases h; exact ⟨rfl, rfl, rfl, by simp [Ob.isPay]⟩

theorem unawareGet_mem {st : St} {u : Nat} {x : Unaware} (h : unawareGet st u = some x) : x ∈ st.unawares ∧ x.u = u := by
  unfold unawareGet at h
  have := List.mem_of_mem_head? h
  have := List.mem_filter.mp this
  exact ⟨this.1, by simpa using this.2⟩

theorem sendGet_mem {st : St} {s : Nat} {x : Send} (h : sendGet st s = some x) : x ∈ st.sends ∧ x.s = s := by
  unfold sendGet at h
  have := List.mem_of_mem_head? h
  have := List.mem_filter.mp this
  exact ⟨this.1, by simpa using this.2⟩

theorem all_allowed_nil (s u : Nat) : ([] : List Act).all (Act.allowed s u) = true := rfl

/-- every allowed action keeps the invariant, pushes only allowed actions and emits no payload request -/
theorem exec_reload (cfg : Cfg) (s u : Nat) (key : TP) (st : St) (a : Act) (ha : a.allowed s u = true) (h : RInv s u key st) :
    RInv s u key (exec cfg st a).1 ∧ (exec cfg st a).2.2.all (Act.allowed s u) = true ∧
      ∀ o ∈ (exec cfg st a).2.1, o.isPay = false := by
  cases a <;> simp only [Act.allowed, beq_iff_eq, Bool.false_eq_true] at ha
  case unawareStart u' =>
    subst ha
    simp only [exec]
    split
    · exact ⟨h, by simp [Act.allowed], by simp⟩
    · split
      · exact ⟨h, rfl, by simp [Ob.isPay]⟩
      · rename_i st1 nodes hs
        obtain ⟨h1, h2, h3⟩ := shuffle_frame hs
        exact ⟨h.of_eq (by rw [h1]) h2 h3, by simp [Act.allowed], by simp⟩
  case unawareNext u' nodes =>
    subst ha
    simp only [exec]
    split
    · exact ⟨h, rfl, by simp [Ob.isPay]⟩
    · rename_i x hx
      split
      · split
        · exact ⟨h, rfl, by simp [Ob.isPay]⟩
        · rename_i st1 hosts hs
          obtain ⟨h1, h2, h3⟩ := shuffle_frame hs
          exact ⟨h.of_eq (by rw [h1]) h2 h3, by simp [Act.allowed], by simp⟩
      · rename_i n rest
        split
        · rename_i e he
          rcases issueTo_err he with ⟨h1, h2⟩ | ⟨b, hg⟩
          · refine ⟨by rw [h1]; exact h, by simp [Act.allowed], ?_⟩
            rw [h2]; simp
          · obtain ⟨g1, g2, g3, g4⟩ := getBrokerClient_frameR hg
            exact ⟨h.of_eq g1 g2 g3, by simp [Act.allowed], g4⟩
        · rename_i i hi
          obtain ⟨st1, b, obs1, hg, e1, e2, e3, e4⟩ := issueTo_ok hi
          obtain ⟨g1, g2, g3, g4⟩ := getBrokerClient_frameR hg
          have hst : RInv s u' key i.st := by
            rw [e1]
            exact h.of_eq g1 g2 g3
          refine ⟨hst.setUnaware _ _ (fun y => ⟨rfl, rfl⟩), ?_, ?_⟩
          · rw [e4]; simp [makeRequest, syncFire]
          · rw [e3]
            intro o ho
            rcases List.mem_append.mp ho with ho | ho
            · exact g4 o ho
            · simp only [makeRequest, syncFire, Bool.not_true, Bool.false_and, Bool.false_eq_true, if_false,
                List.append_nil, List.mem_append, List.mem_cons, List.not_mem_nil, or_false] at ho
              rcases ho with rfl | rfl
              · cases x.kind <;> rfl
              · rfl
  case bootNext u' hosts =>
    subst ha
    simp only [exec]
    split
    · exact ⟨h, by simp [Act.allowed], by simp⟩
    · split
      · exact ⟨h, by simp [Act.allowed], by simp⟩
      · refine ⟨RInv.setUnaware (st := { st with nBoot := st.nBoot + 1 }) (h.of_eq rfl rfl rfl) _ _ (fun y => ⟨rfl, rfl⟩), rfl, by simp [Ob.isPay]⟩
  case unawareDone u' r =>
    cases r with
    | ok p => simp at ha
    | err kd =>
      simp only [beq_iff_eq] at ha
      subst ha
      simp only [exec]
      split
      · exact ⟨h, rfl, by simp [Ob.isPay]⟩
      · rename_i x hx
        obtain ⟨hxm, hxu⟩ := unawareGet_mem hx
        have how := h.owner x hxm hxu
        rw [how]
        simp only
        refine ⟨h.setUnaware _ _ (fun y => ⟨rfl, rfl⟩), ?_, by simp⟩
        simp [deliverLoad, Act.allowed]
  case sendLoaded s' r =>
    subst ha
    simp only [exec]
    split <;> exact ⟨h, by simp [Act.allowed], by simp⟩
  case sendLookup s' =>
    subst ha
    simp only [exec]
    split
    · exact ⟨h, rfl, by simp [Ob.isPay]⟩
    · rename_i x hx
      obtain ⟨hxm, hxs⟩ := sendGet_mem hx
      rcases h.send x hxm hxs with hp | ⟨hp, hk, hg⟩
      · rw [hp]; exact ⟨h, rfl, by simp [Ob.isPay]⟩
      · rw [hp]
        simp only [hk, hg, h.noRoute]
        exact ⟨h, by simp [Act.allowed], by simp⟩
  case sendFail s' kd =>
    subst ha
    simp only [exec]
    split
    · exact ⟨h, rfl, by simp [Ob.isPay]⟩
    · exact ⟨h.setSend_done _, by simp [Act.allowed], by simp⟩
  case opResult o r =>
    simp only [exec]
    split
    · exact ⟨h.of_eq rfl rfl rfl, rfl, by simp [Ob.isPay]⟩
    · exact ⟨h, rfl, by simp [Ob.isPay]⟩

theorem Ids.send_lt {st : St} (h : Ids st) : ∀ x ∈ st.sends, x.s < st.sends.length := by
  intro x hx
  have : x.s ∈ sids st := List.mem_map.mpr ⟨x, hx, rfl⟩
  rw [h.sends] at this
  exact List.mem_range.mp this

theorem Ids.unaware_lt {st : St} (h : Ids st) : ∀ y ∈ st.unawares, y.u < st.unawares.length := by
  intro y hy
  have : y.u ∈ uids st := List.mem_map.mpr ⟨y, hy, rfl⟩
  rw [h.unawares] at this
  exact List.mem_range.mp this

theorem topicInvalid_noRoute {c : Cache} {key : TP} (h : Afkak.Monitor.C08.topicInvalid c key.1 = true) :
    get? key c.t2b = none := by
  simp only [Afkak.Monitor.C08.topicInvalid, Bool.and_eq_true, Bool.not_eq_eq_eq_not, Bool.not_true, List.isEmpty_iff] at h
  rw [get?_eq_none_iff, Bool.eq_false_iff]
  intro hh
  obtain ⟨v, hv⟩ := hasKey_iff.mp hh
  have : (key, v) ∈ Afkak.Monitor.C08.t2bOf c key.1 := List.mem_filter.mpr ⟨hv, by simp⟩
  rw [h.1.2] at this; cases this

/-- in a state whose ids are positions, with no routing for `key` cached: the step of `send o [key]` hands no
    payload request to any broker client -/
theorem send_invalid_no_payload (cfg : Cfg) (st : St) (env : Env) (key : TP) (o : Nat) (foe expect : Bool)
    (hids : Ids st) (hno : get? key st.cache.t2b = none) :
    ∀ ob ∈ (step cfg st env (.send o [key] none foe expect)).2, ob.isPay = false := by
  have hsort : (sortHP [key]).length = 1 := by simp [sortHP, insertHP]
  simp only [step, List.isEmpty_cons, Bool.false_eq_true, if_false, hsort, List.length_cons, List.length_nil,
    Nat.zero_add, bne_self_eq_false, Bool.and_false]
  rw [show fuel = 99999 + 1 from rfl, runActs_succ]
  -- the first action: `sendResolve` of the new send
  let ns : Send := { s := st.sends.length, o := o, keys := [key], group := none, failOnError := foe, expect := expect, phase := .resolving 0 }
  have hget : ∀ (st1 : St), st1.sends = st.sends ++ [ns] → sendGet st1 st.sends.length = some ns := by
    intro st1 h1
    simp only [sendGet, h1, List.filter_append]
    have : st.sends.filter (fun x => x.s == st.sends.length) = [] := by
      apply List.filter_eq_nil_iff.mpr
      intro x hx
      have := hids.send_lt x hx
      simp; omega
    rw [this]; simp [ns]
  simp only [exec]
  rw [hget _ rfl]
  simp only [ns, List.getElem?_cons_zero, hno, List.append_nil]
  refine runActs_obs cfg (fun st' acts => RInv st.sends.length st.unawares.length key st' ∧ acts.all (Act.allowed st.sends.length st.unawares.length) = true)
    (fun ob => ob.isPay = false) ?_ rfl _ _ _ _ ⟨⟨hno, ?_, ?_⟩, by simp [Act.allowed]⟩ (by simp)
  · intro st' a rest ⟨hI, hall⟩
    simp only [List.all_cons, Bool.and_eq_true] at hall
    obtain ⟨h1, h2, h3⟩ := exec_reload cfg _ _ key st' a hall.1 hI
    exact ⟨⟨h1, by rw [List.all_append, h2, hall.2]; rfl⟩, h3⟩
  · intro y hy hyu
    rcases List.mem_append.mp hy with hy | hy
    · have := hids.unaware_lt y hy; omega
    · simp only [List.mem_singleton] at hy; subst hy; rfl
  · intro x hx hxs
    rcases List.mem_append.mp hx with hx | hx
    · have := hids.send_lt x hx; omega
    · simp only [List.mem_singleton] at hx; subst hx
      exact Or.inr ⟨rfl, rfl, rfl⟩

end Afkak.ClientNet
