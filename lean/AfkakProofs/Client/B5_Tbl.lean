import Afkak.ClientNet
import AfkakProofs.Client.Net
import AfkakProofs.Client.B_BcInv
import AfkakProofs.Client.B_CloseAll
/-!
# The `closed` flags of the client's broker-client table are what its observations say (C20, for the composition)

`tbl t obs` replays the observations of a client step on a table of `closed` flags the way the composition's `route`
treats the broker-client components: `bcNew b …` appends an open entry when `b` is the next position, `bcClose b` marks
position `b` closed.  `Tb st0 obs st`: every instance that is `closed` in `st` is closed in `tbl (flags of st0) obs`, and
the tables have the same length - for every action (`exec_tb`), action stack (`runActs_tb`), clock run (`fireDue_tb`)
and event (`step_tb`) of the client model, in every state satisfying `BcInv`.
-/
namespace Afkak.ClientNet
open Afkak.ClientCache Afkak.Consts

def tblStep (t : List Bool) : Ob → List Bool
  | .bcNew b _ _ _ => if b == t.length then t ++ [false] else t
  | .bcClose b => t.set b true
  | _ => t

def tbl (t : List Bool) (obs : List Ob) : List Bool := obs.foldl tblStep t

/-- same length, and closed on the left implies closed on the right -/
def FLe (a b : List Bool) : Prop := a.length = b.length ∧ ∀ k : Nat, a[k]? = some true → b[k]? = some true

theorem FLe.refl (a : List Bool) : FLe a a := ⟨rfl, fun _ h => h⟩

theorem FLe.trans {a b c : List Bool} (h1 : FLe a b) (h2 : FLe b c) : FLe a c :=
  ⟨h1.1.trans h2.1, fun k h => h2.2 k (h1.2 k h)⟩

theorem FLe.of_eq {a b : List Bool} (h : a = b) : FLe a b := h ▸ FLe.refl a

theorem FLe.append {a b : List Bool} (h : FLe a b) (c : List Bool) : FLe (a ++ c) (b ++ c) := by
  refine ⟨by simp [h.1], ?_⟩
  intro k hk
  by_cases hlt : k < a.length
  · rw [List.getElem?_append_left hlt] at hk
    rw [List.getElem?_append_left (h.1 ▸ hlt)]
    exact h.2 k hk
  · rw [List.getElem?_append_right (by omega)] at hk
    rw [List.getElem?_append_right (by have := h.1; omega), ← h.1]
    exact hk

theorem FLe.set {a b : List Bool} (h : FLe a b) (n : Nat) : FLe (a.set n true) (b.set n true) := by
  refine ⟨by simp [h.1], ?_⟩
  intro k hk
  rw [List.getElem?_set] at hk ⊢
  by_cases hn : n = k
  · subst hn
    simp only [if_true] at hk ⊢
    split at hk
    · rw [if_pos (by have := h.1; omega)]
    · cases hk
  · simp only [hn, if_false] at hk ⊢
    exact h.2 k hk

theorem FLe.set_right (a : List Bool) (n : Nat) : FLe a (a.set n true) := by
  refine ⟨by simp, ?_⟩
  intro k hk
  rw [List.getElem?_set]
  by_cases hn : n = k
  · subst hn
    have hlt : n < a.length := by
      rcases Nat.lt_or_ge n a.length with h | h
      · exact h
      · rw [List.getElem?_eq_none h] at hk; cases hk
    simp [hlt]
  · simp only [hn, if_false]; exact hk

theorem tblStep_mono {a b : List Bool} (h : FLe a b) (o : Ob) : FLe (tblStep a o) (tblStep b o) := by
  cases o
  case bcNew n _ _ _ =>
    simp only [tblStep, h.1]
    by_cases hn : (n == b.length) = true
    · simp only [hn, if_true]; exact h.append _
    · simp only [hn]; exact h
  case bcClose n => exact h.set n
  all_goals exact h

theorem tbl_mono : ∀ (obs : List Ob) {a b : List Bool}, FLe a b → FLe (tbl a obs) (tbl b obs)
  | [], _, _, h => h
  | o :: rest, _, _, h => by
    simp only [tbl, List.foldl_cons]
    exact tbl_mono rest (tblStep_mono h o)

theorem tbl_append (t : List Bool) (a b : List Ob) : tbl t (a ++ b) = tbl (tbl t a) b := by
  simp [tbl, List.foldl_append]

/-- observations that create or close a broker client -/
def Ob.touches : Ob → Bool
  | .bcNew .. | .bcClose _ => true
  | _ => false

theorem tbl_quiet : ∀ (obs : List Ob) (t : List Bool), (∀ o ∈ obs, o.touches = false) → tbl t obs = t
  | [], _, _ => rfl
  | o :: rest, t, h => by
    have ho := h o List.mem_cons_self
    simp only [tbl, List.foldl_cons]
    have : tblStep t o = t := by cases o <;> simp_all [tblStep, Ob.touches]
    rw [this]
    exact tbl_quiet rest t (fun o' ho' => h o' (List.mem_cons_of_mem _ ho'))

def cflags (st : St) : List Bool := st.bcs.map (·.closed)

def Tb (st0 : St) (obs : List Ob) (st : St) : Prop := FLe (cflags st) (tbl (cflags st0) obs)

theorem Tb.refl (st : St) : Tb st [] st := FLe.refl _

theorem Tb.trans {st0 st1 st2 : St} {o1 o2 : List Ob} (h1 : Tb st0 o1 st1) (h2 : Tb st1 o2 st2) : Tb st0 (o1 ++ o2) st2 := by
  unfold Tb at *
  rw [tbl_append]
  exact h2.trans (tbl_mono o2 h1)

/-- nothing about the table shows and the flags are as they were -/
theorem Tb.of_flags {st st1 : St} (obs : List Ob) (hq : ∀ o ∈ obs, o.touches = false) (hb : cflags st1 = cflags st) : Tb st obs st1 := by
  unfold Tb
  rw [tbl_quiet obs _ hq, hb]
  exact FLe.refl _

theorem Tb.of_eq {st st1 : St} (obs : List Ob) (hq : ∀ o ∈ obs, o.touches = false) (hb : st1.bcs = st.bcs) : Tb st obs st1 :=
  Tb.of_flags obs hq (by simp [cflags, hb])

theorem Tb.mapFlags {st st1 : St} (obs : List Ob) (hq : ∀ o ∈ obs, o.touches = false) (f : BcInst → BcInst)
    (hf : ∀ i, (f i).closed = i.closed) (hb : st1.bcs = st.bcs.map f) : Tb st obs st1 :=
  Tb.of_flags obs hq (by simp [cflags, hb, Function.comp_def, hf])

theorem Tb.to_eq {st0 st st' : St} {obs : List Ob} (h : Tb st0 obs st) (hb : st'.bcs = st.bcs) : Tb st0 obs st' := by
  unfold Tb at *; simpa [cflags, hb] using h

theorem Tb.from_eq {st0 st0' st : St} {obs : List Ob} (h : Tb st0 obs st) (hb : st0'.bcs = st0.bcs) : Tb st0' obs st := by
  unfold Tb at *; simpa [cflags, hb] using h

theorem Tb.post {st0 st : St} {obs : List Ob} (h : Tb st0 obs st) (post : List Ob) (hq : ∀ o ∈ post, o.touches = false) :
    Tb st0 (obs ++ post) st := by
  unfold Tb at *
  rw [tbl_append, tbl_quiet post _ hq]
  exact h

theorem getBrokerClient_tb {st st1 : St} {n : Int} {b : Nat} {obs : List Ob}
    (hg : getBrokerClient st n = .ok (st1, b, obs)) : Tb st obs st1 := by
  unfold getBrokerClient at hg
  split at hg
  · cases hg
  · split at hg
    · cases hg; exact Tb.refl _
    · split at hg
      · cases hg
      · cases hg
        unfold Tb
        simp [cflags, tbl, tblStep]
        exact FLe.refl _

theorem makeRequest_touches (cfg : Cfg) (st : St) (b : Nat) (o : ReqOwner) (e : Bool) (w : ReqWhat) (m : Option Rat) :
    ∀ ob ∈ (makeRequest cfg st b o e w m).2.2.1, ob.touches = false := by
  simp only [makeRequest]
  split <;> simp [Ob.touches]

theorem issueTo_ok_tb {cfg : Cfg} {st : St} {n : Int} {o : ReqOwner} {e : Bool} {w : ReqWhat} {m : Option Rat}
    {rj : Bool} {i : IssueOk} (hi : issueTo cfg st n o e w m rj = .ok i) : Tb st i.obs i.st := by
  obtain ⟨st1, b, obs1, hg, hst, _, hobs, _⟩ := issueTo_ok hi
  rw [hobs]
  exact ((getBrokerClient_tb hg).post _ (makeRequest_touches cfg st1 b o e w m)).to_eq (by rw [hst]; rfl)

theorem issueTo_err_tb {cfg : Cfg} {st : St} {n : Int} {o : ReqOwner} {e : Bool} {w : ReqWhat} {m : Option Rat}
    {rj : Bool} {er : IssueErr} (he : issueTo cfg st n o e w m rj = .error er) : Tb st er.obs er.st := by
  rcases issueTo_err he with ⟨h1, h2⟩ | ⟨b, hg⟩
  · rw [h1, h2]; exact Tb.refl _
  · exact getBrokerClient_tb hg

theorem applyUpdate_touches (st : St) (c' : Cache) (cn : List Int) (bs : List Broker) :
    ∀ o ∈ (applyUpdate st c' cn bs).2.1, o.touches = false := by
  intro o ho
  simp only [applyUpdate, List.mem_flatMap] at ho
  obtain ⟨e, _, he⟩ := ho
  split at he
  · simp only [List.mem_singleton] at he; subst he; rfl
  · cases he

theorem applyUpdate_tb (st : St) (c' : Cache) (cn : List Int) (bs : List Broker) :
    Tb st (applyUpdate st c' cn bs).2.1 (applyUpdate st c' cn bs).1 := by
  apply Tb.mapFlags _ (applyUpdate_touches st c' cn bs)
    (fun i => if ((sortByNode (st.bcs.filter (fun i => i.inClients && cn.contains i.node))).map (·.b)).contains i.b
      then { i with inClients := false } else i)
  · intro i; split <;> rfl
  · rfl

theorem cancelUnaware_touches (x : Unaware) : ∀ o ∈ (cancelUnaware x).1, o.touches = false := by
  intro o ho
  unfold cancelUnaware at ho
  split at ho <;> simp at ho
  subst ho; rfl

theorem Tb.closeBc (st : St) (b : Nat) (hI : BcInv st) :
    Tb st [.bcClose b] { st with bcs := st.bcs.map (fun i => if i.b == b then { i with closed := true, conn := false } else i) } := by
  unfold Tb
  simp only [tbl, List.foldl_cons, List.foldl_nil, tblStep, cflags]
  refine ⟨by simp, ?_⟩
  intro k hk
  rw [List.getElem?_map, List.getElem?_map] at hk
  cases h0 : st.bcs[k]? with
  | none => rw [h0] at hk; cases hk
  | some i0 =>
    rw [h0] at hk
    simp only [Option.map_some, Option.some.injEq] at hk
    have hid := hI.ids k i0 h0
    have hlt : k < st.bcs.length := by
      rcases Nat.lt_or_ge k st.bcs.length with h | h
      · exact h
      · rw [List.getElem?_eq_none h] at h0; cases h0
    rw [List.getElem?_set]
    by_cases hb : b = k
    · subst hb; simp [hlt]
    · simp only [hb, if_false]
      have : (i0.b == b) = false := by simp; omega
      simp only [this] at hk
      rw [List.getElem?_map, h0]
      simpa using hk

theorem exec_tb (cfg : Cfg) (st : St) (a : Act) (hI : BcInv st) : Tb st (exec cfg st a).2.1 (exec cfg st a).1 := by
  cases a
  case closeBc b =>
    simp only [exec]
    exact Tb.closeBc st b hI
  case bcDown b nested =>
    simp only [exec]
    apply Tb.mapFlags _ (by split <;> simp [Ob.touches]) (fun i => if i.b == b then { i with down := true } else i)
      (fun i => by split <;> rfl) rfl
  case unawareDone u r =>
    simp only [exec, updateBrokers]
    split <;> try dsimp only
    · exact Tb.of_eq _ (by simp [Ob.touches]) rfl
    · split
      all_goals (split <;> try dsimp only)
      all_goals (first
        | exact (applyUpdate_tb _ _ _ _).from_eq rfl
        | exact Tb.of_eq _ (by simp [Ob.touches]) rfl)
  all_goals simp only [exec]
  all_goals (repeat' split)
  all_goals (try dsimp only)
  all_goals (first
    | exact Tb.of_eq _ (cancelUnaware_touches _) rfl
    | exact issueTo_err_tb (by assumption)
    | exact (issueTo_ok_tb (by assumption)).to_eq rfl
    | exact Tb.of_eq _ (by simp [Ob.touches]) rfl
    | (rename_i hs; exact Tb.of_eq _ (by simp [Ob.touches]) (shuffle_bcs hs).1)
    | exact Tb.of_eq _ (by simp [Ob.touches]) (reqDone_bcs _ _ _ _).1
    | exact Tb.of_eq _ (by simp [Ob.touches]) (cloadJoin_bcs _ _ _).1)

theorem runActs_tb (cfg : Cfg) : ∀ (fuel : Nat) (st : St) (acts : List Act) (obs : List Ob), BcInv st →
    ∃ more, (runActs cfg fuel st acts obs).2 = obs ++ more ∧ Tb st more (runActs cfg fuel st acts obs).1
  | 0, st, _, obs, _ => ⟨[.badOp "fuel"], by simp [runActs], by simp only [runActs]; exact Tb.of_eq _ (by simp [Ob.touches]) rfl⟩
  | _+1, st, [], obs, _ => ⟨[], by simp [runActs], by simp only [runActs]; exact Tb.refl _⟩
  | fuel+1, st, a :: rest, obs, h => by
    simp only [runActs]
    obtain ⟨more, h1, h2⟩ := runActs_tb cfg fuel (exec cfg st a).1 ((exec cfg st a).2.2 ++ rest) (obs ++ (exec cfg st a).2.1)
      (exec_bcInv cfg st a h)
    exact ⟨(exec cfg st a).2.1 ++ more, by rw [h1, List.append_assoc], (exec_tb cfg st a h).trans h2⟩

theorem fireDue_tb (cfg : Cfg) : ∀ (n : Nat) (st : St) (obs : List Ob), BcInv st →
    ∃ more, (fireDue cfg n st obs).2 = obs ++ more ∧ Tb st more (fireDue cfg n st obs).1
  | 0, st, obs, _ => ⟨[.badOp "fuel"], by simp [fireDue], by simp only [fireDue]; exact Tb.of_eq _ (by simp [Ob.touches]) rfl⟩
  | n+1, st, obs, h => by
    simp only [fireDue]
    split
    · exact ⟨[], by simp, Tb.refl _⟩
    · split
      · exact ⟨[], by simp, Tb.refl _⟩
      · rename_i t rest hti hdue
        have h' : BcInv ({ st with timers := rest } : St) := h.of_eq rfl rfl
        obtain ⟨m1, e1, t1⟩ := runActs_tb cfg fuel { st with timers := rest } [timerAct t.what] obs h'
        obtain ⟨m2, e2, t2⟩ := fireDue_tb cfg n (runActs cfg fuel { st with timers := rest } [timerAct t.what] obs).1
          (runActs cfg fuel { st with timers := rest } [timerAct t.what] obs).2 (runActs_bcInv cfg fuel _ _ _ h')
        exact ⟨m1 ++ m2, by rw [e2, e1, List.append_assoc], (t1.from_eq (st0' := st) rfl).trans t2⟩

theorem runActs_tb' (cfg : Cfg) (fuel : Nat) (st0 st : St) (acts : List Act) (obs : List Ob) (h : BcInv st) (h0 : Tb st0 obs st) :
    Tb st0 (runActs cfg fuel st acts obs).2 (runActs cfg fuel st acts obs).1 := by
  obtain ⟨more, e, t⟩ := runActs_tb cfg fuel st acts obs h
  rw [e]; exact h0.trans t

theorem fireDue_tb' (cfg : Cfg) (n : Nat) (st0 st : St) (obs : List Ob) (h : BcInv st) (h0 : Tb st0 obs st) :
    Tb st0 (fireDue cfg n st obs).2 (fireDue cfg n st obs).1 := by
  obtain ⟨more, e, t⟩ := fireDue_tb cfg n st obs h
  rw [e]; exact h0.trans t

theorem cancelOp_touches (st : St) (o : Nat) : ∀ ob ∈ (cancelOp st o).2.1, ob.touches = false := by
  unfold cancelOp
  repeat' split
  all_goals (try dsimp only)
  all_goals (first
    | exact cancelUnaware_touches _
    | (simp [Ob.touches]; done))

theorem bcInv_closeStart {st : St} (h : BcInv st) (env : Env) :
    BcInv ({ st with env := env, closing := true, cache := { st.cache with clients := [] },
                     bcs := st.bcs.map (fun i => { i with inClients := false }) } : St) := by
  constructor
  · intro k i hi
    simp only [List.getElem?_map] at hi
    cases h0 : st.bcs[k]? with
    | none => rw [h0] at hi; cases hi
    | some i0 =>
      rw [h0] at hi
      simp only [Option.map_some, Option.some.injEq] at hi
      rw [← hi]; exact h.ids k i0 h0
  · show ([] : List (Int × Broker)).map (·.1) = nodesIn (st.bcs.map _)
    rw [nodesIn_allOut]; rfl
  · show (nodesIn (st.bcs.map _)).Nodup
    rw [nodesIn_allOut]; exact List.nodup_nil

/-- every event: what the step does to the `closed` flags of the broker-client table shows in its observations -/
theorem step_tb (cfg : Cfg) (st : St) (env : Env) (e : Ev) (h : BcInv st) : Tb st (step cfg st env e).2 (step cfg st env e).1 := by
  have h' : BcInv ({ st with env := env } : St) := h.of_eq rfl rfl
  have q0 : ∀ o ∈ ([] : List Ob), o.touches = false := by simp
  cases e
  case cancel o =>
    simp only [step]
    apply runActs_tb' cfg fuel st _ _ _ (h'.of_eq (cancelOp_bcs _ o).1 (by rw [(cancelOp_bcs _ o).2]))
    exact Tb.of_eq _ (cancelOp_touches _ o) (cancelOp_bcs _ o).1
  case advance dt =>
    simp only [step]
    split
    · exact Tb.of_eq _ (by simp [Ob.touches]) rfl
    · exact fireDue_tb' cfg _ st _ _ (h'.of_eq rfl rfl) (Tb.of_eq _ q0 rfl)
  case close o =>
    cases hc : st.closing
    · rw [step_close_open cfg st env o hc]
      apply runActs_tb' cfg fuel st _ _ _ (bcInv_closeStart h env)
      exact Tb.mapFlags _ q0 (fun i => { i with inClients := false }) (fun i => rfl) rfl
    · rw [step_close_closing cfg st env o hc]
      split
      · exact runActs_tb' cfg fuel st _ _ _ h' (Tb.of_eq _ q0 rfl)
      · exact Tb.of_eq _ (by simp [Ob.touches]) rfl
  case conn b v =>
    simp only [step]
    exact Tb.mapFlags _ q0 (fun i => if i.b == b then { i with conn := v } else i) (fun i => by split <;> rfl) rfl
  case resetTopics ts => simp only [step]; exact Tb.of_eq _ q0 rfl
  case load o topics => simp only [step]; exact runActs_tb' cfg fuel st _ _ _ (h'.of_eq rfl rfl) (Tb.of_eq _ q0 rfl)
  case cload o g =>
    simp only [step]
    exact runActs_tb' cfg fuel st _ _ _ (h.of_eq (cloadJoin_bcs _ _ _).1 (by rw [(cloadJoin_bcs _ _ _).2])) (Tb.of_eq _ q0 (cloadJoin_bcs _ _ _).1)
  case srtc o g m =>
    simp only [step]
    split
    · exact runActs_tb' cfg fuel st _ _ _ (h'.of_eq rfl rfl) (Tb.of_eq _ q0 rfl)
    · exact runActs_tb' cfg fuel st _ _ _ (h.of_eq (cloadJoin_bcs _ _ _).1 (by rw [(cloadJoin_bcs _ _ _).2])) (Tb.of_eq _ q0 (cloadJoin_bcs _ _ _).1)
  case bootOk j =>
    simp only [step]
    split
    · exact Tb.of_eq _ (by simp [Ob.touches]) rfl
    · exact Tb.of_eq _ (by simp [Ob.touches]) rfl
  case bootFail j =>
    simp only [step]
    split
    · exact Tb.of_eq _ (by simp [Ob.touches]) rfl
    · exact runActs_tb' cfg fuel st _ _ _ h' (Tb.of_eq _ q0 rfl)
  case send o keys group foe expect =>
    simp only [step]
    split
    · exact runActs_tb' cfg fuel st _ _ _ (h'.of_eq rfl rfl) (Tb.of_eq _ q0 rfl)
    · split <;> exact runActs_tb' cfg fuel st _ _ _ (h'.of_eq rfl rfl) (Tb.of_eq _ q0 rfl)
  case ltp o topics => simp only [step]; exact runActs_tb' cfg fuel st _ _ _ (h'.of_eq rfl rfl) (Tb.of_eq _ q0 rfl)
  all_goals (simp only [step]; exact runActs_tb' cfg fuel st _ _ _ h' (Tb.of_eq _ q0 rfl))

end Afkak.ClientNet
