import Afkak.ClientNet
import Afkak.Monitor.C08
/-!
# Two small coroutine-level facts (session 5)

* concurrent `load_coordinator_for_group` calls for one group share ONE look-up: a call made while a look-up for the
  group is in flight joins it - its step hands nothing to any broker client or bootstrap connection;
* the action that delivers a `FailedPayloadsError` leaves no routing in the cache at that moment
  (`reset_all_metadata()` runs before the error is raised).
-/
namespace Afkak.ClientNet
open Afkak.ClientCache

theorem runActs_nil (cfg : Cfg) (n : Nat) (st : St) (obs : List Ob) : runActs cfg (n + 1) st [] obs = (st, obs) := by
  simp [runActs]

theorem cloadJoin_run (cfg : Cfg) (st1 : St) (w : Waiter) (g : String) (h : st1.cfetches.any (fun f => f.g == g) = true) :
    runActs cfg fuel (cloadJoin st1 w g).1 (cloadJoin st1 w g).2 [] =
      ({ st1 with cfetches := st1.cfetches.map (fun f => if f.g == g then { f with waiters := f.waiters ++ [(w, false)] } else f) }, []) := by
  simp [cloadJoin, h, fuel, runActs]

/-- `load_coordinator_for_group(g)` while a look-up for `g` is in flight: no observation at all (no request, no
    connection attempt, no result yet) - the caller is appended to the waiters of the look-up in flight -/
theorem cload_joins (cfg : Cfg) (st : St) (env : Env) (o : Nat) (g : String)
    (h : st.cfetches.any (fun f => f.g == g) = true) :
    (step cfg st env (.cload o g)).2 = [] ∧
    (step cfg st env (.cload o g)).1.unawares = st.unawares ∧
    (step cfg st env (.cload o g)).1.reqs = st.reqs ∧
    ∀ f ∈ (step cfg st env (.cload o g)).1.cfetches, f.g = g → (Waiter.api o, false) ∈ f.waiters := by
  simp only [step]
  rw [cloadJoin_run cfg _ (.api o) g (by simpa using h)]
  refine ⟨rfl, rfl, rfl, ?_⟩
  intro f hf hg
  simp only [List.mem_map] at hf
  obtain ⟨f0, _, rfl⟩ := hf
  by_cases hc : (f0.g == g) = true
  · simp [hc]
  · simp only [hc, Bool.false_eq_true, if_false] at hg
    simp [hg] at hc

/-- the action that raises `FailedPayloadsError` leaves no routing behind: when `sendCheck` hands the caller a
    `failedPayloads` result the cache it leaves is `resetAll` of something -/
theorem sendCheck_failed_invalidates (cfg : Cfg) (st : St) (s o : Nat) (tags : List Int) (failed : List (Nat × Kind))
    (h : (exec cfg st (.sendCheck s)).2.2 = [.opResult o (.failedPayloads tags failed)]) :
    Afkak.Monitor.C08.allInvalid (exec cfg st (.sendCheck s)).1.cache = true := by
  simp only [exec] at h ⊢
  cases hsg : sendGet st s with
  | none => simp [hsg] at h
  | some x =>
    simp only [hsg] at h ⊢
    cases hph : x.phase with
    | resolving i => simp [hph] at h
    | done => simp [hph] at h
    | inflight slots =>
      simp only [hph] at h ⊢
      by_cases hall : (!slots.all (fun sl => sl.res.isSome)) = true
      · simp [hall] at h
      · simp only [hall, Bool.false_eq_true, if_false] at h ⊢
        cases hsr : slotResults x.expect slots with
        | none => simp [hsr] at h
        | some results =>
          simp only [hsr] at h ⊢
          by_cases hf : (!(assemble x.keys results).2.isEmpty) = true
          · simp [hf, Afkak.Monitor.C08.allInvalid, resetAll]
          · simp only [hf, Bool.false_eq_true, if_false, List.cons.injEq, and_true, Act.opResult.injEq] at h
            split at h <;> simp at h

end Afkak.ClientNet
