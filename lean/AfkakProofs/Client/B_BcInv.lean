import Afkak.ClientNet
import AfkakProofs.Client.Net
/-!
# `self.clients` and the broker-client instances agree (C20)

`BcInv`: in every reachable state the broker-client instances are numbered by position, the keys of `cache.clients`
are exactly the node ids of the instances still in `self.clients` (`inClients`), in order, and no node id has two
such instances.  Needed to show that `close()` tells EVERY live broker client to close (`B_CloseAll.lean`).
-/
namespace Afkak.ClientNet
open Afkak.ClientCache

def nodesIn (bcs : List BcInst) : List Int := (bcs.filter (·.inClients)).map (·.node)

structure BcInv (st : St) : Prop where
  ids : ∀ (k : Nat) (i : BcInst), st.bcs[k]? = some i → i.b = k
  keys : st.cache.clients.map (·.1) = nodesIn st.bcs
  nodup : (nodesIn st.bcs).Nodup

theorem BcInv.init : BcInv ({} : St) := ⟨by simp, rfl, by simp [nodesIn]⟩

theorem BcInv.of_eq {st st' : St} (h : BcInv st) (hb : st'.bcs = st.bcs) (hc : st'.cache.clients = st.cache.clients) :
    BcInv st' := by
  constructor
  · rw [hb]; exact h.ids
  · rw [hb, hc]; exact h.keys
  · rw [hb]; exact h.nodup

theorem nodesIn_map_flags (f : BcInst → BcInst) (hf : ∀ i, (f i).node = i.node ∧ (f i).inClients = i.inClients) :
    ∀ l : List BcInst, nodesIn (l.map f) = nodesIn l
  | [] => rfl
  | a :: l => by
    have ih := nodesIn_map_flags f hf l
    simp only [nodesIn, List.map_cons, List.filter_cons, (hf a).2] at ih ⊢
    split
    · simp only [List.map_cons, (hf a).1, ih]
    · exact ih

/-- flags other than `inClients` change (closed, down, conn) -/
theorem BcInv.mapFlags {st st' : St} (h : BcInv st) (f : BcInst → BcInst)
    (hf : ∀ i, (f i).b = i.b ∧ (f i).node = i.node ∧ (f i).inClients = i.inClients)
    (hb : st'.bcs = st.bcs.map f) (hc : st'.cache.clients = st.cache.clients) : BcInv st' := by
  have hn : nodesIn st'.bcs = nodesIn st.bcs := by rw [hb]; exact nodesIn_map_flags f (fun i => ⟨(hf i).2.1, (hf i).2.2⟩) _
  constructor
  · intro k i hi
    rw [hb, List.getElem?_map] at hi
    cases h0 : st.bcs[k]? with
    | none => rw [h0] at hi; cases hi
    | some i0 =>
      rw [h0] at hi
      simp only [Option.map_some, Option.some.injEq] at hi
      rw [← hi, (hf i0).1]; exact h.ids k i0 h0
  · rw [hc, hn]; exact h.keys
  · rw [hn]; exact h.nodup

theorem bcOfNode_none_not_in {st : St} {n : Int} (h : bcOfNode st n = none) : n ∉ nodesIn st.bcs := by
  intro hm
  simp only [nodesIn, List.mem_map, List.mem_filter] at hm
  obtain ⟨i, ⟨hi, hic⟩, hin⟩ := hm
  unfold bcOfNode at h
  rw [List.head?_eq_none_iff, List.filter_eq_nil_iff] at h
  have := h i hi
  simp [hin, hic] at this

theorem getBrokerClient_bcInv {st st1 : St} {n : Int} {b : Nat} {obs : List Ob}
    (hg : getBrokerClient st n = .ok (st1, b, obs)) (h : BcInv st) : BcInv st1 := by
  unfold getBrokerClient at hg
  split at hg
  · cases hg
  · split at hg
    · cases hg; exact h
    · rename_i hnone
      split at hg
      · cases hg
      · rename_i bm hbm
        cases hg
        have hnin := bcOfNode_none_not_in hnone
        have hnodes : nodesIn (st.bcs ++ [{ b := st.bcs.length, node := n }]) = nodesIn st.bcs ++ [n] := by
          simp [nodesIn, List.filter_append]
        constructor
        · intro k i hi
          dsimp only at hi
          by_cases hk : k < st.bcs.length
          · rw [List.getElem?_append_left hk] at hi; exact h.ids k i hi
          · rw [List.getElem?_append_right (by omega)] at hi
            rcases Nat.eq_zero_or_pos (k - st.bcs.length) with h0 | hpos
            · rw [h0] at hi
              simp only [List.getElem?_cons_zero, Option.some.injEq] at hi
              subst hi
              show st.bcs.length = k
              omega
            · rw [List.getElem?_eq_none (by simp; omega)] at hi; cases hi
        · show (st.cache.clients ++ [(n, bm)]).map (·.1) = nodesIn (st.bcs ++ [{ b := st.bcs.length, node := n }])
          rw [hnodes, List.map_append, h.keys]; rfl
        · show (nodesIn (st.bcs ++ [{ b := st.bcs.length, node := n }])).Nodup
          rw [hnodes]
          exact List.nodup_append.mpr ⟨h.nodup, by simp, by
            intro a ha b hb
            simp only [List.mem_singleton] at hb
            subst hb
            intro hab; subst hab; exact hnin ha⟩

theorem issueTo_ok_bcInv {cfg : Cfg} {st : St} {n : Int} {o : ReqOwner} {e : Bool} {w : ReqWhat} {m : Option Rat}
    {rj : Bool} {i : IssueOk} (hi : issueTo cfg st n o e w m rj = .ok i) (h : BcInv st) : BcInv i.st := by
  obtain ⟨st1, b, obs1, hg, hst, _, _, _⟩ := issueTo_ok hi
  have h1 : BcInv st1 := getBrokerClient_bcInv hg h
  rw [hst]
  exact h1.of_eq rfl rfl

theorem issueTo_err_bcInv {cfg : Cfg} {st : St} {n : Int} {o : ReqOwner} {e : Bool} {w : ReqWhat} {m : Option Rat}
    {rj : Bool} {er : IssueErr} (he : issueTo cfg st n o e w m rj = .error er) (h : BcInv st) : BcInv er.st := by
  rcases issueTo_err he with ⟨h1, _⟩ | ⟨b, hg⟩
  · rw [h1]; exact h
  · exact getBrokerClient_bcInv hg h

/-! ## `_update_brokers` on the live client (`applyUpdate`) -/

theorem mem_insertByNode {a x : BcInst} : ∀ {l : List BcInst}, x ∈ insertByNode a l ↔ x = a ∨ x ∈ l
  | [] => by simp [insertByNode]
  | y :: l => by
    unfold insertByNode
    split
    · simp
    · simp only [List.mem_cons, mem_insertByNode (l := l)]
      constructor
      · rintro (h | h | h) <;> simp [h]
      · rintro (h | h | h) <;> simp [h]

theorem mem_sortByNode {x : BcInst} : ∀ {l : List BcInst}, x ∈ sortByNode l ↔ x ∈ l
  | [] => by simp [sortByNode]
  | a :: l => by
    simp only [sortByNode, mem_insertByNode, mem_sortByNode (l := l), List.mem_cons]

/-- under `ids`, membership of an instance number in the list of instances to close is membership of the instance -/
theorem toClose_contains {st : St} (h : BcInv st) (p : BcInst → Bool) (i : BcInst) (hi : i ∈ st.bcs) :
    ((sortByNode (st.bcs.filter p)).map (·.b)).contains i.b = p i := by
  cases hp : p i
  · rw [Bool.eq_false_iff]
    intro hc
    rw [List.contains_iff_mem, List.mem_map] at hc
    obtain ⟨j, hj, hjb⟩ := hc
    obtain ⟨hjm, hjp⟩ := List.mem_filter.mp (mem_sortByNode.mp hj)
    obtain ⟨k, hk⟩ := List.mem_iff_getElem?.mp hjm
    obtain ⟨k', hk'⟩ := List.mem_iff_getElem?.mp hi
    have e1 := h.ids k j hk
    have e2 := h.ids k' i hk'
    have : k = k' := by omega
    subst this
    rw [hk] at hk'
    cases hk'
    rw [hp] at hjp; cases hjp
  · rw [List.contains_iff_mem, List.mem_map]
    exact ⟨i, mem_sortByNode.mpr (List.mem_filter.mpr ⟨hi, hp⟩), rfl⟩

/-- popping the instances selected by `T` (which on the members of the list means: in `clients` and its node in `C`) -/
theorem nodesIn_pop (T : Nat → Bool) (C : Int → Bool) : ∀ (l : List BcInst),
    (∀ i ∈ l, T i.b = (i.inClients && C i.node)) →
    nodesIn (l.map (fun i => if T i.b then { i with inClients := false } else i)) = (nodesIn l).filter (fun n => !C n)
  | [], _ => rfl
  | a :: l, h => by
    have ih := nodesIn_pop T C l (fun i hi => h i (List.mem_cons_of_mem _ hi))
    have ha := h a List.mem_cons_self
    simp only [nodesIn, List.map_cons, List.filter_cons] at ih ⊢
    cases hin : a.inClients <;> cases hc : C a.node <;> simp_all

/-- the address update of `_update_brokers`, named -/
def updAddr (byId : List (Int × Broker)) (cl : Int × Broker) : Int × Broker :=
  match get? cl.1 byId with | some b => (cl.1, b) | none => cl

theorem updAddr_fst (byId : List (Int × Broker)) (cl : Int × Broker) : (updAddr byId cl).1 = cl.1 := by
  unfold updAddr; split <;> rfl

theorem updateBrokersDict_clients (c : Cache) (byId : List (Int × Broker)) (rm : Bool) :
    (updateBrokersDict c byId rm).1.clients =
      (if rm then (c.clients.map (updAddr byId)).filter (fun cl => hasKey cl.1 byId) else c.clients.map (updAddr byId)) ∧
    (updateBrokersDict c byId rm).2 =
      (if rm then ((c.clients.map (updAddr byId)).filter (fun cl => !hasKey cl.1 byId)).map (·.1) else []) := by
  unfold updateBrokersDict updAddr
  cases rm <;> exact ⟨rfl, rfl⟩

theorem map_fst_update (clients : List (Int × Broker)) (byId : List (Int × Broker)) :
    (clients.map (updAddr byId)).map (·.1) = clients.map (·.1) := by
  rw [List.map_map]
  apply List.map_congr_left
  intro cl _
  exact updAddr_fst byId cl

theorem filter_fst {α} (l : List (Int × α)) (p : Int → Bool) :
    (l.filter (fun cl => p cl.1)).map (·.1) = (l.map (·.1)).filter p := by
  induction l with
  | nil => rfl
  | cons a l ih =>
    simp only [List.filter_cons, List.map_cons]
    split <;> simp [ih]

/-- the keys of `clients` after `_update_brokers`, and the node ids it pops -/
theorem updateBrokersDict_keys (c : Cache) (byId : List (Int × Broker)) (rm : Bool) :
    (updateBrokersDict c byId rm).1.clients.map (·.1) =
      (c.clients.map (·.1)).filter (fun n => !(updateBrokersDict c byId rm).2.contains n) := by
  obtain ⟨h1, h2⟩ := updateBrokersDict_clients c byId rm
  rw [h1, h2]
  cases rm
  · simp only [Bool.false_eq_true, if_false]
    rw [map_fst_update]
    simp only [List.contains_nil, Bool.not_false]
    exact (List.filter_eq_self.mpr (fun _ _ => rfl)).symm
  · simp only [if_true]
    have e1 := filter_fst (c.clients.map (updAddr byId)) (fun n => hasKey n byId)
    have e2 := filter_fst (c.clients.map (updAddr byId)) (fun n => !hasKey n byId)
    rw [map_fst_update] at e1 e2
    rw [e1, e2]
    apply List.filter_congr
    intro n hn
    cases hk : hasKey n byId
    · simp [List.mem_filter, hn, hk]
    · simp [List.mem_filter, hk]

/-- `applyUpdate` with the cache and the popped node ids that `_update_brokers` computed from the state's own cache -/
theorem applyUpdate_bcInv {st : St} (h : BcInv st) (byId : List (Int × Broker)) (rm : Bool) (bs : List Broker) :
    BcInv (applyUpdate st (updateBrokersDict st.cache byId rm).1 (updateBrokersDict st.cache byId rm).2 bs).1 := by
  have k1 := updateBrokersDict_keys st.cache byId rm
  generalize (updateBrokersDict st.cache byId rm).2 = closed at k1
  generalize (updateBrokersDict st.cache byId rm).1 = c' at k1
  have hT : ∀ i ∈ st.bcs, ((sortByNode (st.bcs.filter (fun i => i.inClients && closed.contains i.node))).map (·.b)).contains i.b
      = (i.inClients && closed.contains i.node) := fun i hi => toClose_contains h _ i hi
  have hn := nodesIn_pop (fun b => ((sortByNode (st.bcs.filter (fun i => i.inClients && closed.contains i.node))).map (·.b)).contains b)
    (fun n => closed.contains n) st.bcs hT
  constructor
  · intro k i hi
    simp only [applyUpdate, List.getElem?_map] at hi
    cases h0 : st.bcs[k]? with
    | none => rw [h0] at hi; cases hi
    | some i0 =>
      rw [h0] at hi
      simp only [Option.map_some, Option.some.injEq] at hi
      rw [← hi]
      split
      · exact h.ids k i0 h0
      · exact h.ids k i0 h0
  · show c'.clients.map (·.1) = nodesIn (st.bcs.map _)
    rw [k1, h.keys]
    exact hn.symm
  · show (nodesIn (st.bcs.map _)).Nodup
    rw [hn]
    exact h.nodup.filter _

end Afkak.ClientNet
