import AfkakProofs.Client.B_ComposeClose
import AfkakProofs.Client.B_ComposeBound
/-!
# The client component of a composed run IS a run of the client model

`run_proj`: for every run of the composed model (client model × one broker-client model per instance) there is a list
of client-level events (with the environment's answers) such that the client component of the composed state is the
state the CLIENT model reaches on that list from the client component of the start state; and when no composed step
showed the client layer's `badOp "fuel"` (`NoFuelRun`, B_ComposeBound.lean), no step of that client run exhausted the fuel (`NoFuel`).
So every theorem about runs of the client model - also the conditional ones (`NoFuel …`) - holds of the client
component of every composed run.
-/
namespace Afkak.ClientCompose
open Afkak Afkak.BrokerClient

abbrev crun (cfg : ClientNet.Cfg) (st : ClientNet.St) (l : List (ClientNet.Env × ClientNet.Ev)) : ClientNet.St :=
  l.foldl (fun s e => (ClientNet.step cfg s e.1 e.2).1) st

theorem noFuel_append (cfg : ClientNet.Cfg) : ∀ (a b : List (ClientNet.Env × ClientNet.Ev)) (st : ClientNet.St),
    ClientNet.NoFuel cfg st a → ClientNet.NoFuel cfg (crun cfg st a) b → ClientNet.NoFuel cfg st (a ++ b)
  | [], _, _, _, hb => hb
  | (env, e) :: rest, b, st, ha, hb => by
    obtain ⟨h1, h2⟩ := ha
    exact ⟨h1, noFuel_append cfg rest b _ h2 hb⟩

/-- the client state `st'` is reached from `st` by client steps whose fuel reports (if any) are among `out` -/
def Proj (cfg : Cfg) (st st' : ClientNet.St) (out : List Ob) : Prop :=
  ∃ l, st' = crun cfg.cl st l ∧ (Ob.cl (.badOp "fuel") ∉ out → ClientNet.NoFuel cfg.cl st l)

theorem Proj.refl (cfg : Cfg) (st : ClientNet.St) (out : List Ob) : Proj cfg st st out := ⟨[], rfl, fun _ => trivial⟩

theorem Proj.mono {cfg : Cfg} {st st' : ClientNet.St} {out out' : List Ob} (h : Proj cfg st st' out)
    (hs : ∀ o ∈ out, o ∈ out') : Proj cfg st st' out' := by
  obtain ⟨l, h1, h2⟩ := h
  exact ⟨l, h1, fun hn => h2 (fun hm => hn (hs _ hm))⟩

theorem Proj.trans {cfg : Cfg} {a b c : ClientNet.St} {o1 o2 : List Ob} (h1 : Proj cfg a b o1) (h2 : Proj cfg b c o2) :
    Proj cfg a c (o1 ++ o2) := by
  obtain ⟨l1, e1, f1⟩ := h1
  obtain ⟨l2, e2, f2⟩ := h2
  refine ⟨l1 ++ l2, by rw [e2, e1]; simp [crun, List.foldl_append], ?_⟩
  intro hn
  apply noFuel_append cfg.cl l1 l2 a (f1 (fun hm => hn (List.mem_append_left _ hm)))
  rw [← e1]
  exact f2 (fun hm => hn (List.mem_append_right _ hm))

theorem Proj.of_eq {cfg : Cfg} {a b b' : ClientNet.St} {o : List Ob} (h : Proj cfg a b o) (hb : b' = b) : Proj cfg a b' o := hb ▸ h

theorem Proj.of_start {cfg : Cfg} {a a' b : ClientNet.St} {o : List Ob} (h : Proj cfg a b o) (ha : a = a') : Proj cfg a' b o := ha ▸ h

theorem clientStep_proj (cfg : Cfg) (s : St) (env : ClientNet.Env) (e : ClientNet.Ev) :
    Proj cfg s.cl (clientStep cfg s env e).1.cl (clientStep cfg s env e).2 := by
  refine ⟨[(env, e)], by rw [clientStep_cl]; rfl, ?_⟩
  intro hn
  refine ⟨?_, trivial⟩
  intro hm
  apply hn
  simp only [clientStep]
  apply List.mem_append_left
  apply List.mem_append_left
  exact List.mem_map.mpr ⟨_, hm, rfl⟩

theorem conn_proj (cfg : Cfg) (st : ClientNet.St) (b : Nat) (v : Bool) (out : List Ob) :
    Proj cfg st (ClientNet.step cfg.cl st {} (.conn b v)).1 out := by
  refine ⟨[({}, .conn b v)], rfl, fun _ => ⟨?_, trivial⟩⟩
  simp [ClientNet.step]

theorem deliver_proj (cfg : Cfg) (p : Option ClientNet.Payload) (st0 : ClientNet.St) : ∀ (obs : List BrokerClient.Ob) (s : St)
    (envs : List ClientNet.Env) (out : List Ob), Proj cfg st0 s.cl out →
    Proj cfg st0 (deliver cfg p s obs envs out).1.cl (deliver cfg p s obs envs out).2
  | [], s, envs, out, h => by simpa [deliver] using h
  | o :: rest, s, envs, out, h => by
    unfold deliver
    split
    · dsimp only
      split
      · exact deliver_proj cfg p st0 rest _ _ _ (h.mono (fun o ho => List.mem_append_left _ ho))
      · exact deliver_proj cfg p st0 rest _ _ _ (h.trans (clientStep_proj cfg s _ _))
    · exact deliver_proj cfg p st0 rest _ _ _ h

theorem advanceBcs_sub (cfg : Cfg) (dt : Rat) : ∀ (bs : List Nat) (s : St) (out : List Ob),
    ∀ o ∈ out, o ∈ (advanceBcs cfg dt s bs out).2
  | [], s, out, o, ho => by simpa [advanceBcs] using ho
  | b :: rest, s, out, o, ho => by
    unfold advanceBcs
    exact advanceBcs_sub cfg dt rest _ _ o (List.mem_append_left _ ho)

theorem step_proj (cfg : Cfg) (s : St) (e : Ev) : Proj cfg s.cl (step cfg s e).1.cl (step cfg s e).2 := by
  cases e with
  | api env e =>
    simp only [step]
    split
    · exact Proj.refl _ _ _
    · exact clientStep_proj cfg s env e
  | setSyncRefuse n => exact Proj.refl _ _ _
  | connOk b envs =>
    simp only [step]
    split
    · exact Proj.refl _ _ _
    · (try dsimp only)
      rename_i x hx
      apply deliver_proj
      rw [bcStep_cl]
      split
      · exact Proj.refl _ _ _
      · exact conn_proj cfg s.cl b true _
  | connFail b =>
    simp only [step]
    rw [bcStep_cl]
    exact Proj.refl _ _ _
  | lost b env =>
    simp only [step]
    split
    · exact Proj.refl _ _ _
    · (try dsimp only)
      split
      · have := clientStep_proj cfg (bcStep cfg s b .lost).1 env (.down b)
        rw [bcStep_cl] at this
        exact this.mono (fun o ho => List.mem_append_right _ ho)
      · show Proj cfg s.cl (ClientNet.step cfg.cl (bcStep cfg s b .lost).1.cl {} (.conn b false)).1 _
        rw [bcStep_cl]
        exact conn_proj cfg s.cl b false _
  | reply b k p env =>
    simp only [step]
    split
    · exact Proj.refl _ _ _
    · split
      · exact Proj.refl _ _ _
      · (try dsimp only)
        apply deliver_proj
        rw [bcStep_cl]
        exact Proj.refl _ _ _
  | advance dt first after env =>
    simp only [step]
    split
    · exact Proj.refl _ _ _
    · split
      · exact Proj.refl _ _ _
      · (try dsimp only)
        rw [advanceBcs_cl]
        refine Proj.mono (Proj.of_start (clientStep_proj cfg _ env (.advance dt)) ?_) ?_
        · exact advanceBcs_cl cfg dt _ s []
        · exact fun o ho => List.mem_append_left _ (List.mem_append_right _ ho)

theorem run_proj (cfg : Cfg) : ∀ (evs : List Ev) (s : St), NoFuelRun cfg s evs →
    ∃ l, (run cfg s evs).cl = crun cfg.cl s.cl l ∧ ClientNet.NoFuel cfg.cl s.cl l
  | [], s, _ => ⟨[], rfl, trivial⟩
  | e :: es, s, h => by
    obtain ⟨hf, hrest⟩ := h
    obtain ⟨l1, e1, f1⟩ := step_proj cfg s e
    obtain ⟨l2, e2, f2⟩ := run_proj cfg es (step cfg s e).1 hrest
    refine ⟨l1 ++ l2, ?_, ?_⟩
    · show (run cfg (step cfg s e).1 es).cl = _
      rw [e2, e1]; simp [crun, List.foldl_append]
    · apply noFuel_append cfg.cl l1 l2 s.cl (f1 hf)
      rw [← e1]; exact f2

end Afkak.ClientCompose
