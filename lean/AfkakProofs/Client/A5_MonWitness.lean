import Afkak.ClientTrace
import Afkak.Monitor.C07
/-!
# `C07_model_traces_satisfy_monitor` is false as stated: the witness

`WellFormedRun` lets the environment report `connected()` for a broker client that does not exist yet (`Ev.conn b v`
with `b` beyond the broker-client table is a silent no-op of the model: no `badOp`).  The monitor records the report
under the id `b`; when the client later creates its first broker client (id 0) the monitor takes it for connected,
the model does not.  A broker-agnostic request that starts then is ordered by the model with both brokers
unconnected (shuffle order kept), and the monitor sees "an unconnected broker tried before a connected one".
The harness never produces such an event (it reports `connected()` of broker clients it has seen created); the
statement needs the hypothesis `connKnown` (AfkakProps/Open/C07.lean).
-/
namespace Afkak.ClientNet
open Afkak.ClientCache

namespace MonWitness
def cfg : Cfg := { timeout := 10, disconnectOnTimeout := false, bootHosts := [("boot", 9092)] }
/-- `connected()` reported for broker client 0 before it exists; bootstrap, learn brokers 1 and 2 (2 leads t/0);
    a send creates broker client 0 (node 2); a metadata load tries node 1 first (shuffle order), its request fails
    with a Kafka error, and node 2 is tried next -/
def evs : List (Env × Ev) :=
  [({}, .conn 0 true),
   ({ shuffles := [[], [0]] }, .load 0 []), ({}, .bootOk 0),
   ({}, .bootReply 0 (.metadata [⟨1, "h1", 9092⟩, ⟨2, "h2", 9092⟩] [⟨"t", 0, [⟨0, 0, 2⟩]⟩])),
   ({}, .send 1 [("t", 0)] none true true),
   ({ shuffles := [[0, 1]] }, .load 2 []),
   ({}, .fire 1 (.err (.brokerError 7)))]
end MonWitness

def TItem.isBadOp' : TItem → Bool
  | .ob (.badOp _) => true
  | _ => false

theorem noBadOp_of_all' {tr : List TItem} (h : tr.all (fun it => !it.isBadOp') = true) :
    ∀ it ∈ tr, ∀ w, it ≠ TItem.ob (.badOp w) := by
  intro it hit w heq
  have := List.all_eq_true.mp h it hit
  subst heq
  simp [TItem.isBadOp'] at this

end Afkak.ClientNet
