import Afkak.ClientNet
import AfkakProofs.Client.Net
import AfkakProofs.Client.B_BcInv
import AfkakProofs.Client.B_CloseAll
/-!
# What a client step does to its broker-client table shows in its observations (C20, for the composition)

`Trk st0 obs st`: going from `st0` to `st` while emitting `obs`, the instances appended are announced by `bcNew`
observations carrying exactly their positions, in order, and an instance is `closed` afterwards only if it was before
or a `bcClose` for its position was emitted.  Holds of every action (`exec_trk`), of action stacks (`runActs_trk`),
of the clock (`fireDue_trk`) and of every event (`step_trk`).
-/
namespace Afkak.ClientNet
open Afkak.ClientCache Afkak.Consts

def news (obs : List Ob) : List Nat := obs.filterMap (fun o => match o with | .bcNew b _ _ _ => some b | _ => none)
def closes (obs : List Ob) : List Nat := obs.filterMap (fun o => match o with | .bcClose b => some b | _ => none)

theorem news_append (a b : List Ob) : news (a ++ b) = news a ++ news b := by simp [news, List.filterMap_append]
theorem closes_append (a b : List Ob) : closes (a ++ b) = closes a ++ closes b := by simp [closes, List.filterMap_append]

structure Trk (st0 : St) (obs : List Ob) (st : St) : Prop where
  hle : st0.bcs.length ≤ st.bcs.length
  hnews : news obs = List.range' st0.bcs.length (st.bcs.length - st0.bcs.length)
  hclosed : ∀ (b : Nat) (i' : BcInst), st.bcs[b]? = some i' → i'.closed = true →
    (∃ i : BcInst, st0.bcs[b]? = some i ∧ i.closed = true) ∨ b ∈ closes obs

theorem Trk.refl (st : St) : Trk st [] st :=
  ⟨Nat.le_refl _, by simp [ClientNet.news], fun b i' h hc => Or.inl ⟨i', h, hc⟩⟩

theorem Trk.trans {st0 st1 st2 : St} {o1 o2 : List Ob} (h1 : Trk st0 o1 st1) (h2 : Trk st1 o2 st2) : Trk st0 (o1 ++ o2) st2 := by
  constructor
  · exact Nat.le_trans h1.hle h2.hle
  · rw [news_append, h1.hnews, h2.hnews]
    have e : st2.bcs.length - st0.bcs.length = (st1.bcs.length - st0.bcs.length) + (st2.bcs.length - st1.bcs.length) := by
      have := h1.hle; have := h2.hle; omega
    have e2 : st1.bcs.length = st0.bcs.length + 1 * (st1.bcs.length - st0.bcs.length) := by have := h1.hle; omega
    rw [e, ← List.range'_append (step := 1), ← e2]
  · intro b i' hb hc
    rcases h2.hclosed b i' hb hc with ⟨i, hi, hic⟩ | h
    · rcases h1.hclosed b i hi hic with h' | h'
      · exact Or.inl h'
      · right; rw [closes_append]; exact List.mem_append_left _ h'
    · right; rw [closes_append]; exact List.mem_append_right _ h

/-- nothing about the table shows: the table is as it was (flags other than `closed` may differ) -/
theorem Trk.of_same {st st1 : St} (obs : List Ob) (hn : ClientNet.news obs = []) (hl : st1.bcs.length = st.bcs.length)
    (hc : ∀ (b : Nat) (i' : BcInst), st1.bcs[b]? = some i' → i'.closed = true → ∃ i : BcInst, st.bcs[b]? = some i ∧ i.closed = true) :
    Trk st obs st1 :=
  ⟨by omega, by rw [hn, hl]; simp, fun b i' h hcl => Or.inl (hc b i' h hcl)⟩

theorem Trk.of_eq {st st1 : St} (obs : List Ob) (hn : ClientNet.news obs = []) (hb : st1.bcs = st.bcs) : Trk st obs st1 :=
  Trk.of_same obs hn (by rw [hb]) (fun b i' h hcl => ⟨i', hb ▸ h, hcl⟩)

theorem Trk.mapFlags {st st1 : St} (obs : List Ob) (hn : ClientNet.news obs = []) (f : BcInst → BcInst)
    (hf : ∀ i, (f i).closed = i.closed) (hb : st1.bcs = st.bcs.map f) : Trk st obs st1 := by
  apply Trk.of_same obs hn (by rw [hb]; simp)
  intro b i' h hcl
  rw [hb, List.getElem?_map] at h
  cases h0 : st.bcs[b]? with
  | none => rw [h0] at h; cases h
  | some i0 =>
    rw [h0] at h
    simp only [Option.map_some, Option.some.injEq] at h
    exact ⟨i0, rfl, by rw [← hf i0, h]; exact hcl⟩

end Afkak.ClientNet
