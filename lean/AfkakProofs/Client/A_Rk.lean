import AfkakProofs.Client.A_Wf
/-! Every broker the cached routing refers to - a partition's leader, a group's coordinator - is a known broker, in
    every reachable state: together with `CWf.listed` this is the monitor `Afkak.Monitor.C08.wf` that is evaluated on
    every dump of the real client (`_get_brokerclient` of a cached leader/coordinator cannot meet an unknown node id). -/
namespace Afkak.ClientNet
open Afkak.ClientCache

structure RK (c : Cache) : Prop where
  leaders : ∀ e ∈ c.t2b, ∀ b, e.2 = some b → hasKey b.nodeId c.brokers = true
  coords : ∀ e ∈ c.groups, hasKey e.2.nodeId c.brokers = true

theorem RK.sub {c c' : Cache} (h : RK c) (h1 : ∀ e ∈ c'.t2b, e ∈ c.t2b) (h2 : ∀ e ∈ c'.groups, e ∈ c.groups)
    (h3 : ∀ n, hasKey n c.brokers = true → hasKey n c'.brokers = true) : RK c' :=
  ⟨fun e he b hb => h3 _ (h.leaders e (h1 e he) b hb), fun e he => h3 _ (h.coords e (h2 e he))⟩

theorem resetTopic_rk {c : Cache} (h : RK c) (t : String) : RK (resetTopic c t) :=
  h.sub (fun e he => (List.mem_filter.mp he).1) (fun _ he => he) (fun _ hn => hn)

theorem resetGroup_rk {c : Cache} (h : RK c) (g : String) : RK (resetGroup c g) :=
  h.sub (fun _ he => he) (fun e he => (List.mem_filter.mp he).1) (fun _ hn => hn)

theorem resetAll_rk {c : Cache} (_h : RK c) : RK (resetAll c) :=
  ⟨fun e he => by simp [resetAll] at he, fun e he => by simp [resetAll] at he⟩

theorem resetTopics_rk : ∀ (ts : List String) {c : Cache}, RK c → RK (resetTopics c ts)
  | [], _, h => h
  | t :: ts, c, h => by
    simp only [resetTopics, List.foldl_cons]
    exact resetTopics_rk ts (resetTopic_rk h t)

theorem examineRest_rk (grp : Option String) (f : Raised) : ∀ (rs : List (String × Int)) {c : Cache}, RK c →
    RK (examineRest grp f c rs).1
  | [], _, h => h
  | (t, e) :: rs, c, h => by
    simp only [examineRest]
    repeat' split
    all_goals (first
      | exact h
      | exact examineRest_rk _ f rs h
      | exact examineRest_rk _ f rs (resetTopic_rk h _)
      | exact examineRest_rk _ f rs (resetGroup_rk h _))

theorem afterFirst_rk (grp : Option String) (f : Raised) {c : Cache} (h : RK c) (rs : List (String × Int)) :
    RK (afterFirst grp f c rs).1 := by
  unfold afterFirst
  split
  · exact examineRest_rk grp f rs h
  · exact h

theorem handleResponses_rk (foe : Bool) (grp : Option String) : ∀ (rs : List (String × Int)) {c : Cache}, RK c →
    RK (handleResponses c foe grp rs).1
  | [], _, h => h
  | (t, e) :: rs, c, h => by
    simp only [handleResponses]
    repeat' split
    all_goals (first
      | exact h
      | exact handleResponses_rk foe _ rs h
      | exact handleResponses_rk foe _ rs (resetTopic_rk h _)
      | exact handleResponses_rk foe _ rs (resetGroup_rk h _)
      | exact afterFirst_rk _ _ h _
      | exact afterFirst_rk _ _ (resetTopic_rk h _) _
      | exact afterFirst_rk _ _ (resetGroup_rk h _) _)

theorem updateBrokersDict_rk {c : Cache} (h : RK c) (byId : List (Int × Broker)) (rm : Bool) :
    RK (updateBrokersDict c byId rm).1 := by
  have hb : ∀ n, hasKey n c.brokers = true → hasKey n (updateBrokersDict c byId rm).1.brokers = true :=
    fun n hn => updateBrokersDict_mono c byId rm hn
  have ht : (updateBrokersDict c byId rm).1.t2b = c.t2b := by unfold updateBrokersDict; split <;> rfl
  have hg : (updateBrokersDict c byId rm).1.groups = c.groups := by unfold updateBrokersDict; split <;> rfl
  exact h.sub (fun e he => by rw [ht] at he; exact he) (fun e he => by rw [hg] at he; exact he) hb

theorem mergeTopic_rk {c : Cache} (hw : WfC c) (h : RK c) (tm : TopicMeta) : RK (mergeTopic c tm) := by
  obtain ⟨hb, _, hg, _, _, ht⟩ := mergeTopic_nf hw.1 tm
  refine ⟨?_, ?_⟩
  · intro e he b hbe
    rw [hb]
    rw [ht] at he
    rcases List.mem_append.mp he with h1 | h1
    · exact h.leaders e (List.mem_filter.mp h1).1 b hbe
    · obtain ⟨p, _, rfl⟩ := List.mem_map.mp h1
      simp only [leaderVal] at hbe
      split at hbe
      · cases hbe
      · have hmem : (p.2.leader, b) ∈ c.brokers := by
          have := hbe
          exact Afkak.ClientCache.get?_mem this
        have hk := hw.2 _ hmem
        simp only at hk
        rw [hk]
        exact hasKey_iff.mpr ⟨b, hmem⟩
  · intro e he
    rw [hb]; rw [hg] at he
    exact h.coords e he

theorem foldl_mergeTopic_rk : ∀ (tdict : List (String × TopicMeta)) {c : Cache}, WfC c → RK c →
    WfC (tdict.foldl (fun c e => mergeTopic c e.2) c) ∧ RK (tdict.foldl (fun c e => mergeTopic c e.2) c)
  | [], _, hw, h => ⟨hw, h⟩
  | e :: rest, c, hw, h => by
    simp only [List.foldl_cons]
    exact foldl_mergeTopic_rk rest ⟨mergeTopic_wf hw.1 e.2, mergeTopic_keyed hw.1 hw.2 e.2⟩ (mergeTopic_rk hw h e.2)

theorem mem_upsert {κ ν : Type} [BEq κ] [LawfulBEq κ] {k : κ} {v : ν} {l : List (κ × ν)} {e : κ × ν} (h : e ∈ upsert k v l) :
    e ∈ l ∨ e = (k, v) := by
  have := mem_foldl_upsert [(k, v)] l e (by simpa using h)
  rcases this with h1 | h1
  · exact Or.inl h1
  · exact Or.inr (by simpa using h1)

theorem setCoord_rk {c : Cache} (h : RK c) (g : String) (b : Broker) :
    RK (updateBrokers { c with groups := upsert g b c.groups } [b] false).1 := by
  unfold updateBrokers
  have hb : ∀ n, hasKey n c.brokers = true →
      hasKey n (updateBrokersDict { c with groups := upsert g b c.groups } (dictOfList ([b].map (fun b => (b.nodeId, b)))) false).1.brokers = true :=
    fun n hn => updateBrokersDict_mono _ _ _ hn
  have hnew : hasKey b.nodeId
      (updateBrokersDict { c with groups := upsert g b c.groups } (dictOfList ([b].map (fun b => (b.nodeId, b)))) false).1.brokers = true := by
    simp only [updateBrokersDict, dictOfList, List.map_cons, List.map_nil, List.foldl_cons, List.foldl_nil]
    have h0 : upsert b.nodeId b ([] : List (Int × Broker)) = [(b.nodeId, b)] := by simp [upsert, hasKey]
    simp only [Bool.false_eq_true, if_false, h0, List.foldl_cons, List.foldl_nil]
    rw [hasKey_upsert]; simp
  refine ⟨?_, ?_⟩
  · intro e he b' hb'
    have he' : e ∈ c.t2b := by simpa [updateBrokersDict] using he
    exact hb _ (h.leaders e he' b' hb')
  · intro e he
    have he' : e ∈ upsert g b c.groups := by simpa [updateBrokersDict] using he
    rcases mem_upsert he' with h1 | h1
    · exact hb _ (h.coords e h1)
    · rw [h1]; exact hnew

/-- well-formed, and every broker the routing refers to is known -/
def Inv3 (c : Cache) : Prop := WfC c ∧ RK c

theorem Inv3.of_eq {c c' : Cache} (h : Inv3 c) (h1 : c'.t2b = c.t2b) (h2 : c'.topicParts = c.topicParts)
    (h3 : c'.topicErrs = c.topicErrs) (h4 : c'.brokers = c.brokers) (h5 : c'.groups = c.groups) : Inv3 c' :=
  ⟨h.1.of_eq h1 h2 h3 h4 h5, h.2.sub (fun e he => by rw [h1] at he; exact he) (fun e he => by rw [h5] at he; exact he)
    (fun n hn => by rw [h4]; exact hn)⟩

theorem getBrokerClient_inv3 {st st' : St} {n : Int} {b : Nat} {obs : List Ob}
    (h : Inv3 st.cache) (hg : getBrokerClient st n = .ok (st', b, obs)) : Inv3 st'.cache := by
  unfold getBrokerClient at hg
  split at hg
  · cases hg
  · split at hg
    · cases hg; exact h
    · split at hg
      · cases hg
      · cases hg; exact h.of_eq rfl rfl rfl rfl rfl

theorem issueTo_inv3_ok {cfg : Cfg} {st : St} {n : Int} {o : ReqOwner} {e : Bool} {w : ReqWhat} {m : Option Rat} {rj : Bool}
    {i : IssueOk} (h : Inv3 st.cache) (hi : issueTo cfg st n o e w m rj = .ok i) : Inv3 i.st.cache := by
  obtain ⟨st1, b, obs1, hg, h1, _, _, _⟩ := issueTo_ok hi
  have := getBrokerClient_inv3 h hg
  rw [h1]; exact this

theorem issueTo_inv3_err {cfg : Cfg} {st : St} {n : Int} {o : ReqOwner} {e : Bool} {w : ReqWhat} {m : Option Rat} {rj : Bool}
    {er : IssueErr} (h : Inv3 st.cache) (he : issueTo cfg st n o e w m rj = .error er) : Inv3 er.st.cache := by
  rcases issueTo_err he with ⟨h1, _⟩ | ⟨b, hg⟩
  · rw [h1]; exact h
  · exact getBrokerClient_inv3 h hg

theorem exec_inv3 (cfg : Cfg) (st : St) (a : Act) (h : Inv3 st.cache) : Inv3 (exec cfg st a).1.cache := by
  cases a
  all_goals simp only [exec]
  all_goals (repeat' split)
  all_goals (try dsimp only)
  all_goals (first
    | exact h
    | exact h.of_eq rfl rfl rfl rfl rfl
    | (rename_i hs; rw [shuffle_cache hs]; exact h)
    | (rw [cloadJoin_cache]; exact h)
    | (rw [reqDone_cache]; exact h)
    | (rename_i he; exact issueTo_inv3_err h he)
    | (rename_i hi; exact issueTo_inv3_ok h hi)
    | exact ⟨updateBrokersDict_wfc h.1 _ _, updateBrokersDict_rk h.2 _ _⟩
    | exact ⟨setCoord_wfc (c := st.cache) h.1 _ _, setCoord_rk (c := st.cache) h.2 _ _⟩
    | exact foldl_mergeTopic_rk _ h.1 h.2
    | exact ⟨handleResponses_wfc _ _ _ h.1, handleResponses_rk _ _ _ h.2⟩
    | exact ⟨resetAll_wfc h.1, resetAll_rk h.2⟩
    | exact ⟨resetGroup_wfc h.1 _, resetGroup_rk h.2 _⟩
    | exact ⟨resetAll_wfc (c := st.cache) h.1, resetAll_rk (c := st.cache) h.2⟩
    | exact ⟨resetGroup_wfc (c := st.cache) h.1 _, resetGroup_rk (c := st.cache) h.2 _⟩)

theorem runActs_inv3 (cfg : Cfg) : ∀ (fuel : Nat) (st : St) (acts : List Act) (obs : List Ob),
    Inv3 st.cache → Inv3 (runActs cfg fuel st acts obs).1.cache
  | 0, _, _, _, h => h
  | _+1, _, [], _, h => h
  | fuel+1, st, a :: rest, obs, h => by
    simp only [runActs]
    exact runActs_inv3 cfg fuel _ _ _ (exec_inv3 cfg st a h)

theorem fireDue_inv3 (cfg : Cfg) : ∀ (n : Nat) (st : St) (obs : List Ob), Inv3 st.cache → Inv3 (fireDue cfg n st obs).1.cache
  | 0, _, _, h => h
  | n+1, st, obs, h => by
    simp only [fireDue]
    split
    · exact h
    · split
      · exact h
      · exact fireDue_inv3 cfg n _ _ (runActs_inv3 cfg _ _ _ _ h)

theorem step_inv3 (cfg : Cfg) (st : St) (env : Env) (e : Ev) (h : Inv3 st.cache) : Inv3 (step cfg st env e).1.cache := by
  cases e
  all_goals simp only [step]
  all_goals (repeat' split)
  all_goals (first
    | exact h
    | exact runActs_inv3 cfg _ _ _ _ h
    | exact runActs_inv3 cfg _ _ _ _ (by rw [cloadJoin_cache]; exact h)
    | exact runActs_inv3 cfg _ _ _ _ (by rw [cancelOp_cache]; exact h)
    | exact runActs_inv3 cfg _ _ _ _ (h.of_eq rfl rfl rfl rfl rfl)
    | exact ⟨resetTopics_wfc _ h.1, resetTopics_rk _ h.2⟩
    | exact fireDue_inv3 cfg _ _ _ h)

theorem Inv3.init : Inv3 {} :=
  ⟨⟨CWf.empty, fun e he => (by cases he)⟩, ⟨fun e he => (by cases he), fun e he => (by cases he)⟩⟩

theorem reachable_inv3 (cfg : Cfg) : ∀ (evs : List (Env × Ev)) (st : St), Inv3 st.cache →
    Inv3 (evs.foldl (fun s e => (step cfg s e.1 e.2).1) st).cache
  | [], _, h => h
  | e :: rest, st, h => by
    simp only [List.foldl_cons]
    exact reachable_inv3 cfg rest _ (step_inv3 cfg st e.1 e.2 h)

/-- the monitor `Afkak.Monitor.C08.wf` holds of a cache that satisfies `Inv3` -/
theorem wf_of_inv3 {c : Cache} (h : Inv3 c) : Afkak.Monitor.C08.wf c = true := by
  simp only [Afkak.Monitor.C08.wf, Bool.and_eq_true, List.all_eq_true]
  refine ⟨⟨?_, ?_⟩, ?_⟩
  · intro e he
    obtain ⟨ps, hps, hp⟩ := h.1.1.listed e he
    exact List.any_eq_true.mpr ⟨(e.1.1, ps), hps, by simp [hp]⟩
  · intro e he
    cases hb : e.2 with
    | none => rfl
    | some b => exact h.2.leaders e he b hb
  · intro e he
    exact h.2.coords e he

end Afkak.ClientNet
