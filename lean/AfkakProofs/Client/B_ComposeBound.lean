import AfkakProofs.Client.B_ComposeClose
import AfkakProofs.Client.MonC11
/-!
# C11 through the composition: whatever the broker clients do, no request outlives its bound

`step_genF`: an invariant of the client layer that every client step preserves UNLESS the step reports fuel
exhaustion is an invariant of the client component of the composition, as long as no composed step shows
`cl (badOp "fuel")`.  Instantiated with the C11 step invariant (`StepInv`, `AfkakProofs/Client/MonC11.lean`).
-/
namespace Afkak.ClientCompose
open Afkak Afkak.BrokerClient

theorem route_out_mono (cfg : Cfg) (cl : ClientNet.St) (x : Ob) : ∀ (obs : List ClientNet.Ob) (s : St) (out : List Ob) (sy : List Sync),
    x ∈ out → x ∈ (route cfg cl s obs out sy).2.1
  | [], s, out, sy, h => by simpa [route] using h
  | o :: rest, s, out, sy, h => by
    unfold route
    split
    · split
      · exact route_out_mono cfg cl x rest _ _ _ h
      · exact route_out_mono cfg cl x rest _ _ _ (List.mem_append_left _ h)
    · exact route_out_mono cfg cl x rest _ _ _ h
    · split
      · exact route_out_mono cfg cl x rest _ _ _ h
      · exact route_out_mono cfg cl x rest _ _ _ (List.mem_append_left _ h)

theorem clientStep_has (cfg : Cfg) (s : St) (env : ClientNet.Env) (e : ClientNet.Ev) (o : ClientNet.Ob)
    (h : o ∈ (ClientNet.step cfg.cl s.cl env e).2) : Ob.cl o ∈ (clientStep cfg s env e).2 := by
  simp only [clientStep]
  apply List.mem_append_left
  apply List.mem_append_left
  exact List.mem_map.mpr ⟨o, h, rfl⟩

theorem deliver_out_mono (cfg : Cfg) (p : Option ClientNet.Payload) (x : Ob) : ∀ (obs : List BrokerClient.Ob) (s : St)
    (envs : List ClientNet.Env) (out : List Ob), x ∈ out → x ∈ (deliver cfg p s obs envs out).2
  | [], s, envs, out, h => by simpa [deliver] using h
  | o :: rest, s, envs, out, h => by
    cases o
    case fire serial id res =>
      cases hr : resOf p res with
      | none =>
        simp only [deliver, hr]
        exact deliver_out_mono cfg p x rest _ _ _ (List.mem_append_left _ h)
      | some r =>
        simp only [deliver, hr]
        exact deliver_out_mono cfg p x rest _ _ _ (List.mem_append_left _ h)
    all_goals (simp only [deliver]; exact deliver_out_mono cfg p x rest _ _ _ h)

/-- an invariant of the client layer preserved by every step that does not report fuel exhaustion -/
def PresF (cfg : Cfg) (P : ClientNet.St → Prop) : Prop :=
  ∀ st env e, P st → ClientNet.Ob.badOp "fuel" ∉ (ClientNet.step cfg.cl st env e).2 → P (ClientNet.step cfg.cl st env e).1

def NoFuelOut (out : List Ob) : Prop := Ob.cl (.badOp "fuel") ∉ out

theorem clientStep_genF (cfg : Cfg) {P : ClientNet.St → Prop} (I : PresF cfg P) (s : St) (env : ClientNet.Env) (e : ClientNet.Ev)
    (h : P s.cl) (hf : NoFuelOut (clientStep cfg s env e).2) : P (clientStep cfg s env e).1.cl := by
  rw [clientStep_cl]
  exact I _ _ _ h (fun hm => hf (clientStep_has cfg s env e _ hm))

theorem deliver_genF (cfg : Cfg) {P : ClientNet.St → Prop} (I : PresF cfg P) (p : Option ClientNet.Payload) :
    ∀ (obs : List BrokerClient.Ob) (s : St) (envs : List ClientNet.Env) (out : List Ob),
    P s.cl → NoFuelOut (deliver cfg p s obs envs out).2 → P (deliver cfg p s obs envs out).1.cl
  | [], s, envs, out, h, _ => by simpa [deliver] using h
  | o :: rest, s, envs, out, h, hf => by
    cases o
    case fire serial id res =>
      cases hr : resOf p res with
      | none =>
        simp only [deliver, hr] at hf ⊢
        exact deliver_genF cfg I p rest _ _ _ h hf
      | some r =>
        simp only [deliver, hr] at hf ⊢
        refine deliver_genF cfg I p rest _ _ _ (clientStep_genF cfg I s _ _ h ?_) hf
        intro hm
        exact hf (deliver_out_mono cfg p _ rest _ _ _ (List.mem_append_right _ hm))
    all_goals (simp only [deliver] at hf ⊢; exact deliver_genF cfg I p rest _ _ _ h hf)

theorem advanceBcs_out_mono (cfg : Cfg) (dt : Rat) (x : Ob) : ∀ (bs : List Nat) (s : St) (out : List Ob),
    x ∈ out → x ∈ (advanceBcs cfg dt s bs out).2
  | [], s, out, h => by simpa [advanceBcs] using h
  | b :: rest, s, out, h => by
    unfold advanceBcs
    exact advanceBcs_out_mono cfg dt x rest _ _ (List.mem_append_left _ h)

theorem conn_obs (cfg : ClientNet.Cfg) (st : ClientNet.St) (env : ClientNet.Env) (b : Nat) (v : Bool) :
    (ClientNet.step cfg st env (.conn b v)).2 = [] := rfl

/-- **an invariant of the client layer that only fuel exhaustion can break is an invariant of the client component
    of the composition, as long as no composed step shows fuel exhaustion** -/
theorem step_genF (cfg : Cfg) {P : ClientNet.St → Prop} (I : PresF cfg P) (s : St) (e : Ev)
    (h : P s.cl) (hf : NoFuelOut (step cfg s e).2) : P (step cfg s e).1.cl := by
  have hconn : ∀ (st : ClientNet.St) b v, P st → P (ClientNet.step cfg.cl st {} (.conn b v)).1 :=
    fun st b v hp => I st {} (.conn b v) hp (by rw [conn_obs]; simp)
  cases e with
  | api env e =>
    simp only [step] at hf ⊢
    split
    · exact h
    · rename_i hi; simp only [hi] at hf; exact clientStep_genF cfg I s env e h hf
  | setSyncRefuse n => exact h
  | connOk b envs =>
    simp only [step] at hf ⊢
    split
    · exact h
    · rename_i x hx
      simp only [hx] at hf
      refine deliver_genF cfg I none _ _ _ _ ?_ hf
      rw [bcStep_cl]
      split
      · exact h
      · exact hconn _ _ _ h
  | connFail b =>
    simp only [step]
    rw [bcStep_cl]; exact h
  | lost b env =>
    simp only [step] at hf ⊢
    split
    · exact h
    · rename_i x hx
      simp only [hx] at hf
      split
      · rename_i hc
        simp only [hc, if_true] at hf
        refine clientStep_genF cfg I _ env (.down b) (by rw [bcStep_cl]; exact h) ?_
        intro hm
        exact hf (List.mem_append_right _ hm)
      · show P (ClientNet.step cfg.cl (bcStep cfg s b .lost).1.cl {} (.conn b false)).1
        rw [bcStep_cl]; exact hconn _ _ _ h
  | reply b k p env =>
    simp only [step] at hf ⊢
    split
    · exact h
    · rename_i x hx
      simp only [hx] at hf
      split
      · exact h
      · rename_i hc
        simp only [hc] at hf
        exact deliver_genF cfg I (some p) _ _ _ _ (by rw [bcStep_cl]; exact h) hf
  | advance dt first after env =>
    simp only [step] at hf ⊢
    split
    · exact h
    · rename_i hd
      simp only [hd] at hf
      split
      · exact h
      · rename_i hg
        simp only [hg] at hf
        rw [advanceBcs_cl]
        refine clientStep_genF cfg I _ env (.advance dt) (by rw [advanceBcs_cl]; exact h) ?_
        intro hm
        exact hf (List.mem_append_left _ (List.mem_append_right _ hm))

/-- no step of a composed run shows the client layer running out of fuel -/
def NoFuelRun (cfg : Cfg) : St → List Ev → Prop
  | _, [] => True
  | s, e :: es => NoFuelOut (step cfg s e).2 ∧ NoFuelRun cfg (step cfg s e).1 es

instance decNoFuelRun (cfg : Cfg) : ∀ (s : St) (evs : List Ev), Decidable (NoFuelRun cfg s evs)
  | _, [] => isTrue trivial
  | s, e :: es =>
    have : Decidable (NoFuelOut (step cfg s e).2) := by unfold NoFuelOut; exact inferInstance
    have := decNoFuelRun cfg (step cfg s e).1 es
    by unfold NoFuelRun; exact inferInstance

theorem run_genF (cfg : Cfg) {P : ClientNet.St → Prop} (I : PresF cfg P) :
    ∀ (evs : List Ev) (s : St), P s.cl → NoFuelRun cfg s evs → P (run cfg s evs).cl
  | [], _, h, _ => h
  | e :: es, s, h, hf => run_genF cfg I es _ (step_genF cfg I s e h hf.1) hf.2

/-- the C11 step invariant of the client layer, as a `PresF` -/
theorem stepInvF (cfg : Cfg) (h0 : 0 ≤ cfg.cl.timeout) (h1 : 0 ≤ cfg.cl.retryDelay) :
    PresF cfg (fun st => ∃ m, ClientNet.StepInv cfg.cl st m) := by
  intro st env e ⟨m, hI⟩ hf
  exact ⟨_, ClientNet.step_sound cfg.cl h0 h1 st env e m hI hf⟩

end Afkak.ClientCompose
