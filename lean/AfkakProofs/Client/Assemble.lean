import Afkak.ClientCache
/-! Lemmas about `assemble` (C07 order / accounting). -/
namespace Afkak.ClientCache

theorem accGet_some {acc : List Resp} {k : TP} {r : Resp} (h : accGet acc k = some r) :
    r.key = k ∧ r ∈ acc := by
  unfold accGet at h
  have hm := List.mem_of_getLast? h
  simp only [List.mem_filter, beq_iff_eq] at hm
  exact ⟨hm.2, hm.1⟩

theorem accGet_isSome (acc : List Resp) (k : TP) :
    (accGet acc k).isSome = acc.any (fun r => r.key == k) := by
  unfold accGet
  cases hf : acc.filter (fun r => r.key == k) with
  | nil =>
    simp only [List.getLast?_nil, Option.isSome_none]
    symm; rw [Bool.eq_false_iff]; intro hany
    obtain ⟨r, hr, hk⟩ := List.any_eq_true.mp hany
    have : r ∈ acc.filter (fun r => r.key == k) := List.mem_filter.mpr ⟨hr, hk⟩
    rw [hf] at this; cases this
  | cons a l =>
    have hne : (a :: l) ≠ [] := by simp
    rw [List.getLast?_eq_some_getLast hne]
    simp only [Option.isSome_some]
    symm
    have : a ∈ acc.filter (fun r => r.key == k) := by rw [hf]; simp
    obtain ⟨ha, hk⟩ := List.mem_filter.mp this
    exact List.any_eq_true.mpr ⟨a, ha, hk⟩

/-- the responses are ordered as the payloads were: their keys are the answered payload keys, in
    payload order -/
theorem responsesOf_keys (keys : List TP) (acc : List Resp) :
    (responsesOf keys acc).map (·.key) = keys.filter (fun k => acc.any (fun r => r.key == k)) := by
  induction keys with
  | nil => simp [responsesOf]
  | cons k ks ih =>
    simp only [responsesOf, List.filterMap_cons, List.filter_cons] at ih ⊢
    rw [← accGet_isSome]
    cases h : accGet acc k with
    | none => simpa using ih
    | some r =>
      have := (accGet_some h).1
      simp only [Option.isSome_some, if_true, List.map_cons, this]
      exact congrArg _ ih

/-- each response is the LAST answer received for its key -/
theorem responsesOf_mem (keys : List TP) (acc : List Resp) (r : Resp) (h : r ∈ responsesOf keys acc) :
    r.key ∈ keys ∧ accGet acc r.key = some r := by
  simp only [responsesOf, List.mem_filterMap] at h
  obtain ⟨k, hk, hr⟩ := h
  have := (accGet_some hr).1
  subst this
  exact ⟨hk, hr⟩

theorem failedOf_idxs {φ} (results : List (List Nat × BrokerResult φ)) :
    (failedOf results).map (·.1) =
      (results.filter (fun r => match r.2 with | .fail _ => true | .ok _ => false)).flatMap (·.1) := by
  induction results with
  | nil => simp [failedOf]
  | cons r rs ih =>
    obtain ⟨idxs, res⟩ := r
    cases res with
    | ok l => simpa [failedOf, List.filter_cons] using ih
    | fail f =>
      simp only [failedOf, List.flatMap_cons, List.map_append, List.map_map, List.filter_cons] at ih ⊢
      simp [Function.comp_def, ih]

end Afkak.ClientCache
