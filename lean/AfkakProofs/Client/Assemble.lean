import Afkak.ClientCache
/-! Lemmas about `assemble` (C07 order / accounting). -/
namespace Afkak.ClientCache

theorem accGet_some {acc : List Resp} {k : TP} {r : Resp} (h : accGet acc k = some r) :
    r.key = k ∧ r ∈ acc := by
  unfold accGet at h
  have hm := List.mem_of_getLast? h
  simp only [List.mem_filter, beq_iff_eq] at hm
  exact ⟨hm.2, hm.1⟩

theorem accGet_isSome (acc : List Resp) (k : TP) :
    (accGet acc k).isSome = acc.any (fun r => r.key == k) := by
  unfold accGet
  cases hf : acc.filter (fun r => r.key == k) with
  | nil =>
    simp only [List.getLast?_nil, Option.isSome_none]
    symm; rw [Bool.eq_false_iff]; intro hany
    obtain ⟨r, hr, hk⟩ := List.any_eq_true.mp hany
    have : r ∈ acc.filter (fun r => r.key == k) := List.mem_filter.mpr ⟨hr, hk⟩
    rw [hf] at this; cases this
  | cons a l =>
    have hne : (a :: l) ≠ [] := by simp
    rw [List.getLast?_eq_some_getLast hne]
    simp only [Option.isSome_some]
    symm
    have : a ∈ acc.filter (fun r => r.key == k) := by rw [hf]; simp
    obtain ⟨ha, hk⟩ := List.mem_filter.mp this
    exact List.any_eq_true.mpr ⟨a, ha, hk⟩

/-- the responses are ordered as the payloads were: their keys are the answered payload keys, in
    payload order -/
theorem responsesOf_keys (keys : List TP) (acc : List Resp) :
    (responsesOf keys acc).map (·.key) = keys.filter (fun k => acc.any (fun r => r.key == k)) := by
  induction keys with
  | nil => simp [responsesOf]
  | cons k ks ih =>
    simp only [responsesOf, List.filterMap_cons, List.filter_cons] at ih ⊢
    rw [← accGet_isSome]
    cases h : accGet acc k with
    | none => simpa using ih
    | some r =>
      have := (accGet_some h).1
      simp only [Option.isSome_some, if_true, List.map_cons, this]
      exact congrArg _ ih

/-- each response is the LAST answer received for its key -/
theorem responsesOf_mem (keys : List TP) (acc : List Resp) (r : Resp) (h : r ∈ responsesOf keys acc) :
    r.key ∈ keys ∧ accGet acc r.key = some r := by
  simp only [responsesOf, List.mem_filterMap] at h
  obtain ⟨k, hk, hr⟩ := h
  have := (accGet_some hr).1
  subst this
  exact ⟨hk, hr⟩

theorem failedOf_idxs {φ} (results : List (List Nat × BrokerResult φ)) :
    (failedOf results).map (·.1) =
      (results.filter (fun r => match r.2 with | .fail _ => true | .ok _ => false)).flatMap (·.1) := by
  induction results with
  | nil => simp [failedOf]
  | cons r rs ih =>
    obtain ⟨idxs, res⟩ := r
    cases res with
    | ok l => simpa [failedOf, List.filter_cons] using ih
    | fail f =>
      simp only [failedOf, List.flatMap_cons, List.map_append, List.map_map, List.filter_cons] at ih ⊢
      simp [Function.comp_def, ih]

end Afkak.ClientCache

namespace Afkak.ClientCache

/-- the hypothesis of the accounting law for one successful broker request: it answers exactly the
    partitions it was asked -/
def AnswersAsked (keys : List TP) (idxs : List Nat) (rs : List Resp) : Prop :=
  (∀ r ∈ rs, ∃ i ∈ idxs, keys[i]? = some r.key) ∧ (∀ i ∈ idxs, ∀ k, keys[i]? = some k → ∃ r ∈ rs, r.key = k)

theorem mem_accOf {φ} {results : List (List Nat × BrokerResult φ)} {r : Resp} :
    r ∈ accOf results ↔ ∃ idxs rs, (idxs, BrokerResult.ok rs) ∈ results ∧ r ∈ rs := by
  simp only [accOf, List.mem_flatMap]
  constructor
  · rintro ⟨⟨idxs, res⟩, hm, hr⟩
    cases res with
    | ok rs => exact ⟨idxs, rs, hm, hr⟩
    | fail f => cases hr
  · rintro ⟨idxs, rs, hm, hr⟩
    exact ⟨(idxs, .ok rs), hm, hr⟩

theorem mem_failedIdxs {φ} {results : List (List Nat × BrokerResult φ)} {i : Nat} :
    i ∈ (failedOf results).map (·.1) ↔ ∃ idxs f, (idxs, BrokerResult.fail f) ∈ results ∧ i ∈ idxs := by
  simp only [failedOf, List.mem_map, List.mem_flatMap]
  constructor
  · rintro ⟨⟨i', f'⟩, ⟨⟨idxs, res⟩, hm, hr⟩, rfl⟩
    cases res with
    | ok rs => cases hr
    | fail f =>
      simp only [List.mem_map] at hr
      obtain ⟨j, hj, hje⟩ := hr
      cases hje
      exact ⟨idxs, _, hm, hj⟩
  · rintro ⟨idxs, f, hm, hi⟩
    exact ⟨(i, f), ⟨(idxs, .fail f), hm, List.mem_map.mpr ⟨i, hi, rfl⟩⟩, rfl⟩

/-- an index cannot be in two different requests when the requests partition the payloads -/
theorem unique_request {φ} : ∀ {results : List (List Nat × BrokerResult φ)} {a b : List Nat × BrokerResult φ} {i : Nat},
    (results.flatMap (·.1)).Nodup → a ∈ results → b ∈ results → i ∈ a.1 → i ∈ b.1 → a.2 = b.2 ∨ a = b
  | [], _, _, _, _, ha, _, _, _ => by cases ha
  | x :: l, a, b, i, hnd, ha, hb, hia, hib => by
    simp only [List.flatMap_cons, List.nodup_append] at hnd
    obtain ⟨_, hl, hdisj⟩ := hnd
    rcases List.mem_cons.mp ha with rfl | ha' <;> rcases List.mem_cons.mp hb with rfl | hb'
    · right; rfl
    · exact absurd rfl (hdisj i hia i (List.mem_flatMap.mpr ⟨b, hb', hib⟩))
    · exact absurd rfl (hdisj i hib i (List.mem_flatMap.mpr ⟨a, ha', hia⟩))
    · exact unique_request hl ha' hb' hia hib

/-- C07 accounting: with distinct payload keys, requests that partition the payload list and brokers
    that answer exactly what they were asked, every payload is either answered (its key has a
    response) or listed among the failed payloads — never both, never neither. -/
theorem accounting {φ} (keys : List TP) (results : List (List Nat × BrokerResult φ))
    (hkeys : keys.Nodup)
    (hnd : (results.flatMap (·.1)).Nodup)
    (hcover : ∀ i, i < keys.length → i ∈ results.flatMap (·.1))
    (hans : ∀ idxs rs, (idxs, BrokerResult.ok rs) ∈ results → AnswersAsked keys idxs rs)
    (i : Nat) (hi : i < keys.length) :
    (i ∈ (failedOf results).map (·.1) ↔ ¬ (accOf results).any (fun r => r.key == keys[i]) = true) := by
  obtain ⟨req, hreq, hireq⟩ := List.mem_flatMap.mp (hcover i hi)
  obtain ⟨idxs, res⟩ := req
  constructor
  · intro hf hany
    obtain ⟨idxsF, f, hmF, hiF⟩ := mem_failedIdxs.mp hf
    obtain ⟨r, hr, hrk⟩ := List.any_eq_true.mp hany
    obtain ⟨idxsO, rs, hmO, hrO⟩ := mem_accOf.mp hr
    obtain ⟨i', hi', hk'⟩ := (hans idxsO rs hmO).1 r hrO
    have hrk' : r.key = keys[i] := by simpa using hrk
    have hlt : i' < keys.length := by
      rcases Nat.lt_or_ge i' keys.length with h | h
      · exact h
      · rw [List.getElem?_eq_none h] at hk'; cases hk'
    rw [List.getElem?_eq_getElem hlt, Option.some.injEq, hrk'] at hk'
    have hii : i' = i := by
      by_cases hne : i' = i
      · exact hne
      · exfalso
        rcases Nat.lt_or_gt_of_ne hne with hlt' | hlt'
        · exact (List.pairwise_iff_getElem.mp hkeys i' i hlt hi hlt') hk'
        · exact (List.pairwise_iff_getElem.mp hkeys i i' hi hlt hlt') hk'.symm
    subst hii
    rcases unique_request hnd hmF hmO hiF hi' with h | h
    · cases h
    · cases h
  · intro hnot
    cases res with
    | fail f => exact mem_failedIdxs.mpr ⟨idxs, f, hreq, hireq⟩
    | ok rs =>
      exfalso
      apply hnot
      obtain ⟨r, hr, hrk⟩ := (hans idxs rs hreq).2 i hireq keys[i] (List.getElem?_eq_getElem hi)
      exact List.any_eq_true.mpr ⟨r, mem_accOf.mpr ⟨idxs, rs, hreq, hr⟩, by simp [hrk]⟩

/-- the failed payloads are listed without duplicates when the requests partition the payloads -/
theorem failed_nodup {φ} (results : List (List Nat × BrokerResult φ)) (hnd : (results.flatMap (·.1)).Nodup) :
    ((failedOf results).map (·.1)).Nodup := by
  rw [failedOf_idxs]
  induction results with
  | nil => simp
  | cons x l ih =>
    simp only [List.flatMap_cons, List.nodup_append] at hnd
    obtain ⟨hx, hl, hdisj⟩ := hnd
    obtain ⟨idxs, res⟩ := x
    cases res with
    | ok rs => simpa [List.filter_cons] using ih hl
    | fail f =>
      simp only [List.filter_cons, if_true, List.flatMap_cons, List.nodup_append]
      refine ⟨hx, ih hl, ?_⟩
      intro a ha b hb
      apply hdisj a ha b
      obtain ⟨y, hy, hby⟩ := List.mem_flatMap.mp hb
      exact List.mem_flatMap.mpr ⟨y, (List.mem_filter.mp hy).1, hby⟩

end Afkak.ClientCache
