import Afkak.ClientNet
import AfkakProofs.Client.Net
import AfkakProofs.Client.B_BcInv
import AfkakProofs.Client.B_CloseAll
import AfkakProofs.Client.B_MonC20
import AfkakProofs.Client.B_BootClose
import AfkakProofs.Client.B5_ReqClosed
/-!
# `close()` clears the metadata and it STAYS cleared (C20)

`KInv st acts`: the client is closing, `self.clients` is empty, no action on the stack carries a successful reply
(`Act.safe`: the only things that write routing metadata are the merge of a successful metadata / coordinator
response), and the routing metadata is cleared unless `finishClose` (which runs `reset_all_metadata()`) is still on
the stack.  Preserved by every action (`exec_kinv`): while closing, `_get_brokerclient` refuses, so no request is
issued and no reply can be merged; what does touch the cache (`reset_consumer_group_metadata`,
`_handle_responses`' resets, `reset_all_metadata`) keeps it cleared.
-/
namespace Afkak.ClientNet
open Afkak.ClientCache Afkak.Consts

/-- routing metadata, partition metadata and `self.clients` are empty -/
structure ClearedT (c : Cache) : Prop where
  t2b : c.t2b = []
  topicParts : c.topicParts = []
  topicErrs : c.topicErrs = []
  groups : c.groups = []
  partMeta : c.partMeta = []

theorem ClearedT.of_eq {c c' : Cache} (h : ClearedT c) (h1 : c'.t2b = c.t2b) (h2 : c'.topicParts = c.topicParts)
    (h3 : c'.topicErrs = c.topicErrs) (h4 : c'.groups = c.groups) (h5 : c'.partMeta = c.partMeta) : ClearedT c' :=
  ⟨h1 ▸ h.t2b, h2 ▸ h.topicParts, h3 ▸ h.topicErrs, h4 ▸ h.groups, h5 ▸ h.partMeta⟩

theorem clearedT_resetAll (c : Cache) : ClearedT (resetAll c) :=
  ⟨rfl, rfl, rfl, rfl, by simp [resetAll, clientResetAllClearsPartMeta]⟩

theorem erase_nil {α β} [BEq α] (k : α) : erase k ([] : List (α × β)) = [] := by simp [erase]

theorem clearedT_resetGroup {c : Cache} (h : ClearedT c) (g : String) : ClearedT (resetGroup c g) :=
  ⟨h.t2b, h.topicParts, h.topicErrs, by simp [resetGroup, h.groups, erase_nil], h.partMeta⟩

theorem clearedT_resetTopic {c : Cache} (h : ClearedT c) (t : String) : ClearedT (resetTopic c t) :=
  ⟨by simp [resetTopic, h.t2b], by simp [resetTopic, h.topicParts, erase_nil], by simp [resetTopic, h.topicErrs, erase_nil],
   h.groups, h.partMeta⟩

theorem clearedT_resetTopics : ∀ (ts : List String) {c : Cache}, ClearedT c → ClearedT (resetTopics c ts)
  | [], _, h => h
  | t :: ts, _, h => by
    simp only [resetTopics, List.foldl_cons]
    exact clearedT_resetTopics ts (clearedT_resetTopic h t)

theorem clearedT_examineRest (g : Option String) (f : Raised) : ∀ (rs : List (String × Int)) {c : Cache},
    ClearedT c → ClearedT (examineRest g f c rs).1
  | [], _, h => h
  | (t, e) :: rs, c, h => by
    unfold examineRest
    repeat' split
    all_goals (try dsimp only)
    all_goals (first
      | exact h
      | exact clearedT_examineRest _ f rs h
      | exact clearedT_examineRest _ f rs (clearedT_resetTopic h _)
      | exact clearedT_examineRest _ f rs (clearedT_resetGroup h _))

theorem clearedT_afterFirst (g : Option String) (f : Raised) {c : Cache} (h : ClearedT c) (rs : List (String × Int)) :
    ClearedT (afterFirst g f c rs).1 := by
  unfold afterFirst
  split
  · exact clearedT_examineRest g f rs h
  · exact h

theorem clearedT_handleResponses (foe : Bool) (g : Option String) : ∀ (rs : List (String × Int)) {c : Cache},
    ClearedT c → ClearedT (handleResponses c foe g rs).1
  | [], _, h => h
  | (t, e) :: rs, c, h => by
    unfold handleResponses
    repeat' split
    all_goals (try dsimp only)
    all_goals (first
      | exact h
      | exact clearedT_handleResponses foe _ rs h
      | exact clearedT_handleResponses foe _ rs (clearedT_resetTopic h _)
      | exact clearedT_handleResponses foe _ rs (clearedT_resetGroup h _)
      | exact clearedT_afterFirst _ _ h _
      | exact clearedT_afterFirst _ _ (clearedT_resetTopic h _) _
      | exact clearedT_afterFirst _ _ (clearedT_resetGroup h _) _)

/-- actions that do not carry a successful reply (the only source of new metadata) -/
def Act.safe : Act → Bool
  | .fireReq _ (.ok _) _ => false
  | .deliver _ _ (.ok _) => false
  | .unawareDone _ (.ok _) => false
  | .bootResult _ (.ok _) => false
  | .mergeTopics _ _ => false
  | .ltpMerged _ _ => false
  | _ => true

structure KInv (st : St) (acts : List Act) : Prop where
  closing : st.closing = true
  clients : st.cache.clients = []
  safe : ∀ a ∈ acts, a.safe = true
  cleared : ClearedT st.cache ∨ ∃ o, Act.finishClose o ∈ acts

theorem KInv.frame {st st1 : St} {a : Act} {rest acts1 : List Act} (h : KInv st (a :: rest)) (hc : st1.closing = true)
    (hcl : st1.cache.clients = []) (hs : ∀ x ∈ acts1, x.safe = true)
    (hcache : (∀ o, a ≠ .finishClose o) → ClearedT st.cache → ClearedT st1.cache)
    (hfin : ∀ o, a = .finishClose o → ClearedT st1.cache) : KInv st1 (acts1 ++ rest) := by
  refine ⟨hc, hcl, ?_, ?_⟩
  · intro x hx
    rcases List.mem_append.mp hx with hx | hx
    · exact hs x hx
    · exact h.safe x (List.mem_cons_of_mem _ hx)
  · by_cases hf : ∃ o, a = .finishClose o
    · obtain ⟨o, ho⟩ := hf
      exact Or.inl (hfin o ho)
    · have hf' : ∀ o, a ≠ .finishClose o := fun o e => hf ⟨o, e⟩
      rcases h.cleared with hC | ⟨o, hm⟩
      · exact Or.inl (hcache hf' hC)
      · rcases List.mem_cons.mp hm with hm | hm
        · exact absurd hm.symm (hf' o)
        · exact Or.inr ⟨o, List.mem_append_right _ hm⟩

theorem KInv.same {st st1 : St} {a : Act} {rest acts1 : List Act} (h : KInv st (a :: rest)) (hc : st1.closing = st.closing)
    (hcache : st1.cache = st.cache) (hs : ∀ x ∈ acts1, x.safe = true) (hnf : ∀ o, a ≠ .finishClose o) : KInv st1 (acts1 ++ rest) :=
  h.frame (hc ▸ h.closing) (hcache ▸ h.clients) hs (fun _ hC => hcache ▸ hC) (fun o e => absurd e (hnf o))

theorem KInv.same' {st st1 : St} {a : Act} {rest acts1 : List Act} (h : KInv st (a :: rest)) (hc : st1.closing = true)
    (hcache : st1.cache = st.cache) (hs : ∀ x ∈ acts1, x.safe = true) (hnf : ∀ o, a ≠ .finishClose o) : KInv st1 (acts1 ++ rest) :=
  h.frame hc (hcache ▸ h.clients) hs (fun _ hC => hcache ▸ hC) (fun o e => absurd e (hnf o))

/-- the routing metadata changes, staying cleared -/
theorem KInv.touch {st st1 : St} {a : Act} {rest acts1 : List Act} (h : KInv st (a :: rest)) (hc : st1.closing = st.closing)
    (hcl : st1.cache.clients = st.cache.clients) (hcache : ClearedT st.cache → ClearedT st1.cache)
    (hs : ∀ x ∈ acts1, x.safe = true) (hnf : ∀ o, a ≠ .finishClose o) : KInv st1 (acts1 ++ rest) :=
  h.frame (hc ▸ h.closing) (hcl ▸ h.clients) hs (fun _ hC => hcache hC) (fun o e => absurd e (hnf o))

theorem reqDone_safe (st : St) (o : ReqOwner) (k : Nat) (kd : Kind) : ∀ a ∈ (reqDone st o k (.err kd)).2, a.safe = true := by
  unfold reqDone
  split
  · split
    · simp [Act.safe]
    · split <;> simp [Act.safe]
  · simp [Act.safe]
  · simp [Act.safe]

theorem cloadJoin_safe (st : St) (w : Waiter) (g : String) : ∀ a ∈ (cloadJoin st w g).2, a.safe = true := by
  unfold cloadJoin; split <;> simp [Act.safe]

theorem cancelUnaware_safe (x : Unaware) : ∀ a ∈ (cancelUnaware x).2, a.safe = true := by
  unfold cancelUnaware; split <;> simp [Act.safe]

theorem deliverLoad_safe (lo : LOwner) (r : Res) : ∀ a ∈ deliverLoad lo r, a.safe = true := by
  unfold deliverLoad; split <;> simp [Act.safe]

theorem safe_append {l1 l2 : List Act} (h1 : ∀ a ∈ l1, a.safe = true) (h2 : ∀ a ∈ l2, a.safe = true) :
    ∀ a ∈ l1 ++ l2, a.safe = true := by
  intro a ha
  rcases List.mem_append.mp ha with h | h
  · exact h1 a h
  · exact h2 a h

theorem safe_map {α} (l : List α) (f : α → Act) (hf : ∀ x, (f x).safe = true) : ∀ a ∈ l.map f, a.safe = true := by
  intro a ha
  simp only [List.mem_map] at ha
  obtain ⟨x, _, rfl⟩ := ha
  exact hf x

theorem map_waiterFire_safe (ws : List (Waiter × Bool)) (kd : Kind) :
    ∀ a ∈ ws.map (fun w => Act.waiterFire w.1 (.err kd)), a.safe = true := by
  intro a ha
  simp only [List.mem_map] at ha
  obtain ⟨w, _, rfl⟩ := ha
  rfl

theorem exec_kinv (cfg : Cfg) (st : St) (a : Act) (rest : List Act) (h : KInv st (a :: rest)) :
    KInv (exec cfg st a).1 ((exec cfg st a).2.2 ++ rest) := by
  have hcl := h.closing
  have hsafe := h.safe a List.mem_cons_self
  cases a
  case finishClose o =>
    simp only [exec]
    split
    · exact h.frame hcl h.clients (by simp) (fun hn => absurd rfl (hn o)) (fun _ _ => clearedT_resetAll _)
    · exact h.frame hcl h.clients (by simp) (fun hn => absurd rfl (hn o)) (fun _ _ => clearedT_resetAll _)
  case mergeTopics ts lo => simp [Act.safe] at hsafe
  case ltpMerged l ts => simp [Act.safe] at hsafe
  case fireReq k r nested =>
    cases r with
    | ok p => simp [Act.safe] at hsafe
    | err kd =>
      simp only [exec]
      repeat' split
      all_goals (try dsimp only)
      all_goals (first
        | (refine h.same rfl rfl ?_ ?_ <;> first | (intro o e; cases e; done) | (simp [Act.safe]; done))
        | (refine h.same ((reqDone_closing _ _ _ _).trans rfl) ((reqDone_bcs _ _ _ _).2.trans rfl) (reqDone_safe _ _ _ _) ?_; intro o e; cases e))
  case deliver owner k r =>
    cases r with
    | ok p => simp [Act.safe] at hsafe
    | err kd =>
      simp only [exec]
      exact h.same (reqDone_closing _ _ _ _) (reqDone_bcs _ _ _ _).2 (reqDone_safe _ _ _ _) (by intro o e; cases e)
  case timeoutFired k =>
    simp only [exec]
    repeat' split
    all_goals (try dsimp only)
    all_goals (first
      | (refine h.same rfl rfl ?_ ?_ <;> first | (intro o e; cases e; done) | (simp [Act.safe]; done))
      | (refine h.same ((reqDone_closing _ _ _ _).trans rfl) ((reqDone_bcs _ _ _ _).2.trans rfl) ?_ ?_
         · intro x hx
           rcases List.mem_append.mp hx with hx | hx
           · exact reqDone_safe _ _ _ _ x hx
           · first | (simp at hx; done) | (simp only [List.mem_singleton] at hx; subst hx; rfl)
         · intro o e; cases e))
  case unawareDone u r =>
    cases r with
    | ok p => simp [Act.safe] at hsafe
    | err kd =>
      simp only [exec]
      repeat' split
      all_goals (try dsimp only)
      all_goals (first
        | (refine h.same rfl rfl ?_ ?_ <;> first | (intro o e; cases e; done) | (simp [Act.safe]; done) | exact deliverLoad_safe _ _)
        | (refine h.touch rfl rfl (fun hC => clearedT_resetGroup hC _) ?_ ?_ <;> first | (intro o e; cases e; done) | exact map_waiterFire_safe _ _ | (simp [Act.safe]; done)))
  case bootResult j r =>
    cases r with
    | ok p => simp [Act.safe] at hsafe
    | err kd =>
      simp only [exec]
      repeat' split
      all_goals (try dsimp only)
      all_goals (refine h.same rfl rfl ?_ ?_ <;> first | (intro o e; cases e; done) | (simp [Act.safe]; done))
  case sendCheck s =>
    simp only [exec]
    repeat' split
    all_goals (try dsimp only)
    all_goals (first
      | (refine h.same rfl rfl ?_ ?_ <;> first | (intro o e; cases e; done) | (simp [Act.safe]; done))
      | (refine h.touch rfl rfl (fun _ => clearedT_resetAll _) ?_ ?_ <;> first | (intro o e; cases e; done) | (simp [Act.safe]; done))
      | (refine h.touch rfl ?_ ?_ ?_ ?_
         · exact b_handleResponses_clients _ _ _ _
         · intro hC; exact clearedT_handleResponses _ _ _ hC
         · simp [Act.safe]
         · intro o e; cases e))
  case srtcDone r res =>
    simp only [exec]
    repeat' split
    all_goals (try dsimp only)
    all_goals (first
      | (refine h.same rfl rfl ?_ ?_ <;> first | (intro o e; cases e; done) | (simp [Act.safe]; done))
      | (refine h.touch rfl rfl (fun hC => clearedT_resetGroup hC _) ?_ ?_ <;> first | (intro o e; cases e; done) | (simp [Act.safe]; done)))
  all_goals simp only [exec, hcl, issueTo_closing hcl]
  all_goals (repeat' split)
  all_goals (try dsimp only)
  all_goals (first
    | (refine h.same' ?_ rfl ?_ ?_ <;> first | rfl | exact hcl | (intro o e; cases e; done) | (simp [Act.safe]; done) | exact cancelUnaware_safe _ | (repeat' (first | apply safe_append | (apply safe_map; intro _; rfl) | (simp [Act.safe]; done))))
    | (rename_i hs; refine h.same' ((shuffle_closing hs).trans hcl) (shuffle_bcs hs).2 ?_ ?_ <;> first | (intro o e; cases e; done) | (simp [Act.safe]; done))
    | (refine h.same' ((cloadJoin_closing _ _ _).trans hcl) (cloadJoin_bcs _ _ _).2 (cloadJoin_safe _ _ _) ?_; intro o e; cases e))

/-! ## no bootstrap request in flight: preserved while closing -/

theorem runActs_closing_nbr_state (cfg : Cfg) : ∀ (fuel : Nat) (st : St) (acts : List Act) (obs : List Ob),
    st.closing = true → NoBootReq st → NoBootReq (runActs cfg fuel st acts obs).1
  | 0, st, acts, obs, _, hb => by simp only [runActs]; exact hb
  | fuel+1, st, [], obs, _, hb => by simp only [runActs]; exact hb
  | fuel+1, st, a :: rest, obs, h, hb => by
    simp only [runActs]
    exact runActs_closing_nbr_state cfg fuel _ _ _ (exec_closing cfg st a h).1 (exec_closing_nbr cfg st a h hb).1

theorem fireDue_closing_nbr_state (cfg : Cfg) : ∀ (n : Nat) (st : St) (obs : List Ob),
    st.closing = true → NoBootReq st → NoBootReq (fireDue cfg n st obs).1
  | 0, st, obs, _, hb => by simp only [fireDue]; exact hb
  | n+1, st, obs, h, hb => by
    simp only [fireDue]
    split
    · exact hb
    · split
      · exact hb
      · rename_i t rest _ _
        have hb' : NoBootReq ({ st with timers := rest } : St) := hb
        have h' : ({ st with timers := rest } : St).closing = true := h
        exact fireDue_closing_nbr_state cfg n _ _ (runActs_closing_state cfg fuel _ _ _ h') (runActs_closing_nbr_state cfg fuel _ _ _ h' hb')

theorem step_closing_nbr (cfg : Cfg) (st : St) (env : Env) (e : Ev) (h : st.closing = true) (hc : NoBootConn st) (hb : NoBootReq st) :
    NoBootReq (step cfg st env e).1 := by
  have hb' : NoBootReq ({ st with env := env } : St) := hb
  have h' : ({ st with env := env } : St).closing = true := h
  cases e
  case bootOk j =>
    simp only [step]
    split
    · exact hb
    · rename_i x hx
      exfalso
      have hm := List.mem_of_mem_head? hx
      simp only [List.mem_filter] at hm
      obtain ⟨hxm, hxs⟩ := hm
      cases hst : x.st with
      | bootConn j' r => exact hc x hxm j' r hst
      | _ => rw [hst] at hxs; simp at hxs
  case cancel o =>
    simp only [step]
    have hcc := cancelOp_closing { st with env := env } o
    apply runActs_closing_nbr_state cfg fuel _ _ _ (hcc.1.trans h)
    unfold cancelOp
    repeat' split
    all_goals (try dsimp only)
    all_goals (first
      | exact hb'
      | exact NoBootReq_of_unawares hb' rfl)
  case advance dt =>
    simp only [step]
    split
    · exact hb
    · exact fireDue_closing_nbr_state cfg _ _ _ h hb
  case close o =>
    simp only [step, h, if_true]
    split
    · exact runActs_closing_nbr_state cfg fuel _ _ _ rfl hb'
    · exact hb
  case conn b v => simp only [step]; exact hb
  case resetTopics ts => simp only [step]; exact hb
  case load o topics =>
    simp only [step]
    exact runActs_closing_nbr_state cfg fuel _ _ _ h (NoBootReq_append hb' _ rfl rfl)
  case cload o g =>
    simp only [step]
    have h2 : NoBootReq ({ st with env := env, liveOps := st.liveOps ++ [o] } : St) := hb
    exact runActs_closing_nbr_state cfg fuel _ _ _ ((cloadJoin_closing _ _ _).trans h) (cloadJoin_nbr h2 _ _)
  case srtc o g m =>
    simp only [step]
    split
    · exact runActs_closing_nbr_state cfg fuel _ _ _ h (NoBootReq_of_unawares hb' rfl)
    · have h2 : NoBootReq ({ st with env := env, liveOps := st.liveOps ++ [o], srtcs := st.srtcs ++ [{ r := st.srtcs.length, o := o, g := g, minTimeout := m, phase := .resolving }] } : St) := hb
      exact runActs_closing_nbr_state cfg fuel _ _ _ ((cloadJoin_closing _ _ _).trans h) (cloadJoin_nbr h2 _ _)
  case bootFail j =>
    simp only [step]
    split
    · exact hb
    · exact runActs_closing_nbr_state cfg fuel _ _ _ h hb'
  case send o keys group foe expect =>
    simp only [step]
    split
    · exact runActs_closing_nbr_state cfg fuel _ _ _ h (NoBootReq_of_unawares hb' rfl)
    · split <;> exact runActs_closing_nbr_state cfg fuel _ _ _ h (NoBootReq_of_unawares hb' rfl)
  case ltp o topics =>
    simp only [step]
    exact runActs_closing_nbr_state cfg fuel _ _ _ h (NoBootReq_of_unawares hb' rfl)
  all_goals (simp only [step]; exact runActs_closing_nbr_state cfg fuel _ _ _ h hb')

/-! ## `KInv` through action stacks, the clock and events -/

theorem runActs_kinv (cfg : Cfg) : ∀ (fuel : Nat) (st : St) (acts : List Act) (obs : List Ob),
    KInv st acts → Ob.badOp "fuel" ∉ (runActs cfg fuel st acts obs).2 → KInv (runActs cfg fuel st acts obs).1 []
  | 0, st, acts, obs, _, hf => by exfalso; apply hf; simp [runActs]
  | _+1, st, [], obs, h, _ => by simpa [runActs] using h
  | fuel+1, st, a :: rest, obs, h, hf => by
    simp only [runActs] at hf ⊢
    exact runActs_kinv cfg fuel _ _ _ (exec_kinv cfg st a rest h) hf

theorem KInv.cleared0 {st : St} (h : KInv st []) : ClearedT st.cache := by
  rcases h.cleared with hC | ⟨o, hm⟩
  · exact hC
  · cases hm

theorem KInv.begin {st st1 : St} (h : KInv st []) (hc : st1.closing = true) (hcache : st1.cache = st.cache) (acts : List Act)
    (hs : ∀ a ∈ acts, a.safe = true) : KInv st1 acts :=
  ⟨hc, hcache ▸ h.clients, hs, Or.inl (hcache ▸ h.cleared0)⟩

theorem fireDue_kinv (cfg : Cfg) : ∀ (n : Nat) (st : St) (obs : List Ob),
    KInv st [] → Ob.badOp "fuel" ∉ (fireDue cfg n st obs).2 → KInv (fireDue cfg n st obs).1 []
  | 0, st, obs, _, hf => by exfalso; apply hf; simp [fireDue]
  | n+1, st, obs, h, hf => by
    simp only [fireDue] at hf ⊢
    split
    · exact h
    · split
      · exact h
      · rename_i t rest hti hdue
        simp only [hti, hdue, if_false] at hf
        have h' : KInv ({ st with timers := rest } : St) [timerAct t.what] := by
          refine KInv.begin (st1 := { st with timers := rest }) h h.closing rfl _ ?_
          intro a ha
          simp only [List.mem_singleton] at ha
          subst ha
          cases t.what <;> rfl
        have hf2 : Ob.badOp "fuel" ∉ (runActs cfg fuel { st with timers := rest } [timerAct t.what] obs).2 := by
          intro hm
          obtain ⟨more, hmore⟩ := fireDue_prefix cfg n (runActs cfg fuel { st with timers := rest } [timerAct t.what] obs).1
            (runActs cfg fuel { st with timers := rest } [timerAct t.what] obs).2
          apply hf
          rw [hmore]
          exact List.mem_append_left _ hm
        exact fireDue_kinv cfg n _ _ (runActs_kinv cfg fuel _ _ _ h' hf2) hf

theorem cancelOp_safe (st : St) (o : Nat) : ∀ a ∈ (cancelOp st o).2.2, a.safe = true := by
  unfold cancelOp
  repeat' split
  all_goals (try dsimp only)
  all_goals (first
    | exact cancelUnaware_safe _
    | (simp [Act.safe]; done)
    | (intro a hm
       simp only [List.mem_flatMap] at hm
       obtain ⟨sl, _, hsl⟩ := hm
       split at hsl <;> simp at hsl
       subst hsl; rfl))

/-- a step of a closed client (no request pending, no bootstrap request in flight) keeps the metadata cleared -/
theorem step_kinv (cfg : Cfg) (st : St) (env : Env) (e : Ev) (h : KInv st []) (hnp : ∀ q ∈ st.reqs, q.pending = false)
    (hnb : NoBootReq st) (hf : Ob.badOp "fuel" ∉ (step cfg st env e).2) : KInv (step cfg st env e).1 [] := by
  have hcl := h.closing
  have h' : KInv ({ st with env := env } : St) [] := KInv.begin (st1 := { st with env := env }) h hcl rfl [] (by simp)
  cases e
  case fire k r =>
    simp only [step, fuel, runActs, exec]
    cases hq : reqGet { st with env := env } k with
    | none => simpa [runActs] using h'
    | some q =>
      have := hnp q (reqGet_mem hq).1
      simpa [this, runActs] using h'
  case bootReply j p =>
    simp only [step, fuel, runActs, exec]
    split
    · simpa [runActs] using h'
    · rename_i x hx
      exfalso
      have hm := List.mem_of_mem_head? hx
      simp only [List.mem_filter] at hm
      obtain ⟨hxm, hxs⟩ := hm
      cases hst : x.st with
      | bootReq j' r => exact hnb x hxm j' r hst
      | _ => rw [hst] at hxs; simp at hxs
  case cancel o =>
    simp only [step] at hf ⊢
    (refine runActs_kinv cfg fuel _ _ _ ?_ hf; (refine KInv.begin h ?_ ?_ _ ?_ <;> first | rfl | exact hcl | exact (cancelOp_closing _ _).1.trans hcl | exact (cancelOp_bcs _ _).2 | exact cancelOp_safe _ _ | exact (cloadJoin_closing _ _ _).trans hcl | exact (cloadJoin_bcs _ _ _).2 | exact cloadJoin_safe _ _ _ | (simp [Act.safe]; done)))
  case advance dt =>
    simp only [step] at hf ⊢
    split
    · exact h'
    · rename_i hd
      simp only [hd, if_false] at hf
      (refine fireDue_kinv cfg _ _ _ ?_ hf; (refine KInv.begin h ?_ ?_ _ ?_ <;> first | rfl | exact hcl | exact (cancelOp_closing _ _).1.trans hcl | exact (cancelOp_bcs _ _).2 | exact cancelOp_safe _ _ | exact (cloadJoin_closing _ _ _).trans hcl | exact (cloadJoin_bcs _ _ _).2 | exact cloadJoin_safe _ _ _ | (simp [Act.safe]; done)))
  case close o =>
    rw [step_close_closing cfg st env o hcl] at hf ⊢
    split
    · rename_i hidem
      simp only [hidem, if_true] at hf
      (refine runActs_kinv cfg fuel _ _ _ ?_ hf; (refine KInv.begin h ?_ ?_ _ ?_ <;> first | rfl | exact hcl | exact (cancelOp_closing _ _).1.trans hcl | exact (cancelOp_bcs _ _).2 | exact cancelOp_safe _ _ | exact (cloadJoin_closing _ _ _).trans hcl | exact (cloadJoin_bcs _ _ _).2 | exact cloadJoin_safe _ _ _ | (simp [Act.safe]; done)))
    · exact h'
  case conn b v => simp only [step]; (refine KInv.begin h ?_ ?_ _ ?_ <;> first | rfl | exact hcl | exact (cancelOp_closing _ _).1.trans hcl | exact (cancelOp_bcs _ _).2 | exact cancelOp_safe _ _ | exact (cloadJoin_closing _ _ _).trans hcl | exact (cloadJoin_bcs _ _ _).2 | exact cloadJoin_safe _ _ _ | (simp [Act.safe]; done))
  case resetTopics ts =>
    simp only [step]
    exact ⟨hcl, by rw [b_resetTopics_clients]; exact h.clients, by simp, Or.inl (clearedT_resetTopics ts h.cleared0)⟩
  case load o topics =>
    simp only [step] at hf ⊢
    (refine runActs_kinv cfg fuel _ _ _ ?_ hf; (refine KInv.begin h ?_ ?_ _ ?_ <;> first | rfl | exact hcl | exact (cancelOp_closing _ _).1.trans hcl | exact (cancelOp_bcs _ _).2 | exact cancelOp_safe _ _ | exact (cloadJoin_closing _ _ _).trans hcl | exact (cloadJoin_bcs _ _ _).2 | exact cloadJoin_safe _ _ _ | (simp [Act.safe]; done)))
  case cload o g =>
    simp only [step] at hf ⊢
    (refine runActs_kinv cfg fuel _ _ _ ?_ hf; (refine KInv.begin h ?_ ?_ _ ?_ <;> first | rfl | exact hcl | exact (cancelOp_closing _ _).1.trans hcl | exact (cancelOp_bcs _ _).2 | exact cancelOp_safe _ _ | exact (cloadJoin_closing _ _ _).trans hcl | exact (cloadJoin_bcs _ _ _).2 | exact cloadJoin_safe _ _ _ | (simp [Act.safe]; done)))
  case srtc o g m =>
    simp only [step] at hf ⊢
    split
    · rename_i hg; simp only [hg] at hf
      (refine runActs_kinv cfg fuel _ _ _ ?_ hf; (refine KInv.begin h ?_ ?_ _ ?_ <;> first | rfl | exact hcl | exact (cancelOp_closing _ _).1.trans hcl | exact (cancelOp_bcs _ _).2 | exact cancelOp_safe _ _ | exact (cloadJoin_closing _ _ _).trans hcl | exact (cloadJoin_bcs _ _ _).2 | exact cloadJoin_safe _ _ _ | (simp [Act.safe]; done)))
    · rename_i hg; simp only [hg] at hf
      (refine runActs_kinv cfg fuel _ _ _ ?_ hf; (refine KInv.begin h ?_ ?_ _ ?_ <;> first | rfl | exact hcl | exact (cancelOp_closing _ _).1.trans hcl | exact (cancelOp_bcs _ _).2 | exact cancelOp_safe _ _ | exact (cloadJoin_closing _ _ _).trans hcl | exact (cloadJoin_bcs _ _ _).2 | exact cloadJoin_safe _ _ _ | (simp [Act.safe]; done)))
  case bootOk j =>
    simp only [step]
    split
    · exact h'
    · (refine KInv.begin h ?_ ?_ _ ?_ <;> first | rfl | exact hcl | exact (cancelOp_closing _ _).1.trans hcl | exact (cancelOp_bcs _ _).2 | exact cancelOp_safe _ _ | exact (cloadJoin_closing _ _ _).trans hcl | exact (cloadJoin_bcs _ _ _).2 | exact cloadJoin_safe _ _ _ | (simp [Act.safe]; done))
  case bootFail j =>
    simp only [step] at hf ⊢
    split
    · exact h'
    · rename_i x hx; simp only [hx] at hf
      (refine runActs_kinv cfg fuel _ _ _ ?_ hf; (refine KInv.begin h ?_ ?_ _ ?_ <;> first | rfl | exact hcl | exact (cancelOp_closing _ _).1.trans hcl | exact (cancelOp_bcs _ _).2 | exact cancelOp_safe _ _ | exact (cloadJoin_closing _ _ _).trans hcl | exact (cloadJoin_bcs _ _ _).2 | exact cloadJoin_safe _ _ _ | (simp [Act.safe]; done)))
  case send o keys group foe expect =>
    simp only [step] at hf ⊢
    split
    · rename_i hk; simp only [hk, if_true] at hf
      (refine runActs_kinv cfg fuel _ _ _ ?_ hf; (refine KInv.begin h ?_ ?_ _ ?_ <;> first | rfl | exact hcl | exact (cancelOp_closing _ _).1.trans hcl | exact (cancelOp_bcs _ _).2 | exact cancelOp_safe _ _ | exact (cloadJoin_closing _ _ _).trans hcl | exact (cloadJoin_bcs _ _ _).2 | exact cloadJoin_safe _ _ _ | (simp [Act.safe]; done)))
    · rename_i hk
      simp only [hk] at hf
      split
      · rename_i hd; simp only [hd, if_true] at hf
        (refine runActs_kinv cfg fuel _ _ _ ?_ hf; (refine KInv.begin h ?_ ?_ _ ?_ <;> first | rfl | exact hcl | exact (cancelOp_closing _ _).1.trans hcl | exact (cancelOp_bcs _ _).2 | exact cancelOp_safe _ _ | exact (cloadJoin_closing _ _ _).trans hcl | exact (cloadJoin_bcs _ _ _).2 | exact cloadJoin_safe _ _ _ | (simp [Act.safe]; done)))
      · rename_i hd; simp only [hd] at hf
        (refine runActs_kinv cfg fuel _ _ _ ?_ hf; (refine KInv.begin h ?_ ?_ _ ?_ <;> first | rfl | exact hcl | exact (cancelOp_closing _ _).1.trans hcl | exact (cancelOp_bcs _ _).2 | exact cancelOp_safe _ _ | exact (cloadJoin_closing _ _ _).trans hcl | exact (cloadJoin_bcs _ _ _).2 | exact cloadJoin_safe _ _ _ | (simp [Act.safe]; done)))
  case ltp o topics =>
    simp only [step] at hf ⊢
    (refine runActs_kinv cfg fuel _ _ _ ?_ hf; (refine KInv.begin h ?_ ?_ _ ?_ <;> first | rfl | exact hcl | exact (cancelOp_closing _ _).1.trans hcl | exact (cancelOp_bcs _ _).2 | exact cancelOp_safe _ _ | exact (cloadJoin_closing _ _ _).trans hcl | exact (cloadJoin_bcs _ _ _).2 | exact cloadJoin_safe _ _ _ | (simp [Act.safe]; done)))
  all_goals (simp only [step] at hf ⊢; (refine runActs_kinv cfg fuel _ _ _ ?_ hf; (refine KInv.begin h ?_ ?_ _ ?_ <;> first | rfl | exact hcl | exact (cancelOp_closing _ _).1.trans hcl | exact (cancelOp_bcs _ _).2 | exact cancelOp_safe _ _ | exact (cloadJoin_closing _ _ _).trans hcl | exact (cloadJoin_bcs _ _ _).2 | exact cloadJoin_safe _ _ _ | (simp [Act.safe]; done))))

/-- `close()` on an open client: when the step ends the metadata is cleared and `self.clients` is empty -/
theorem close_kinv (cfg : Cfg) (st : St) (env : Env) (o : Nat) (hc : st.closing = false)
    (hf : Ob.badOp "fuel" ∉ (step cfg st env (.close o)).2) : KInv (step cfg st env (.close o)).1 [] := by
  rw [step_close_open cfg st env o hc] at hf ⊢
  refine runActs_kinv cfg fuel _ _ _ ⟨rfl, rfl, ?_, Or.inr ⟨o, by simp⟩⟩ hf
  repeat' (first | apply safe_append | (apply safe_map; intro _; rfl) | (split <;> simp [Act.safe]; done) | (simp [Act.safe]; done))

theorem noFuel_split (cfg : Cfg) : ∀ (a b : List (Env × Ev)) (st : St), NoFuel cfg st (a ++ b) →
    NoFuel cfg st a ∧ NoFuel cfg (a.foldl (fun s e => (step cfg s e.1 e.2).1) st) b
  | [], _, _, h => ⟨trivial, h⟩
  | (env, e) :: rest, b, st, h => by
    obtain ⟨h1, h2⟩ := h
    obtain ⟨h3, h4⟩ := noFuel_split cfg rest b _ h2
    exact ⟨⟨h1, h3⟩, h4⟩

/-- what holds of every reachable closed state -/
def ClosedOk (st : St) : Prop := st.closing = true → KInv st [] ∧ NoBootReq st ∧ NoBootConn st

theorem closedOk_run (cfg : Cfg) : ∀ (post pre : List (Env × Ev)), NoFuel cfg {} (pre ++ post) →
    ClosedOk (pre.foldl (fun s e => (step cfg s e.1 e.2).1) ({} : St)) →
    ClosedOk ((pre ++ post).foldl (fun s e => (step cfg s e.1 e.2).1) ({} : St))
  | [], pre, _, h => by simpa using h
  | (env, e) :: post, pre, hnf, h => by
    have hassoc : pre ++ (env, e) :: post = (pre ++ [(env, e)]) ++ post := by simp
    rw [hassoc] at hnf ⊢
    apply closedOk_run cfg post (pre ++ [(env, e)]) hnf
    obtain ⟨hnf1, _⟩ := noFuel_split cfg (pre ++ [(env, e)]) post {} hnf
    obtain ⟨hnfpre, hlast⟩ := noFuel_split cfg pre [(env, e)] {} hnf1
    have hf : Ob.badOp "fuel" ∉ (step cfg (pre.foldl (fun s e => (step cfg s e.1 e.2).1) ({} : St)) env e).2 := hlast.1
    rw [List.foldl_append]
    simp only [List.foldl_cons, List.foldl_nil]
    generalize hst : pre.foldl (fun s e => (step cfg s e.1 e.2).1) ({} : St) = st at h hf
    intro hc'
    cases hc : st.closing
    · -- the client was open: the event is `close()`
      cases e with
      | close o =>
        have hB : BootInv st := hst ▸ run_bootInv cfg pre {} BootInv.init
        have hnb := close_no_boot cfg st env o hB hc hf
        refine ⟨close_kinv cfg st env o hc hf, ?_, ?_⟩
        · intro x hx j r hh; have := hnb x hx; rw [hh] at this; cases this
        · intro x hx j r hh; have := hnb x hx; rw [hh] at this; cases this
      | _ => (rw [step_closing_eq cfg st env _ rfl, hc] at hc'; cases hc')
    · obtain ⟨hK, hnb, hnc⟩ := h hc
      have hnp : ∀ q ∈ st.reqs, q.pending = false := by
        have := closed_no_pending cfg pre hnfpre
        rw [hst] at this
        exact this hc
      exact ⟨step_kinv cfg st env e hK hnp hnb hf, step_closing_nbr cfg st env e hc hnc hnb, step_closing_nbc cfg st env e hc hnc⟩

/-- **`close()` clears the metadata and it stays cleared**: in every state reachable from the initial state without
    fuel exhaustion in which the client is closed, the routing metadata (topic → broker, topic partitions, topic errors,
    groups), the partition metadata and `self.clients` are empty -/
theorem closed_cleared (cfg : Cfg) (evs : List (Env × Ev)) (hnf : NoFuel cfg {} evs) :
    let st := evs.foldl (fun s e => (step cfg s e.1 e.2).1) ({} : St)
    st.closing = true → ClearedT st.cache ∧ st.cache.clients = [] := by
  intro st hc
  have := closedOk_run cfg evs [] (by simpa using hnf) (by intro h; cases h)
  simp only [List.nil_append] at this
  obtain ⟨hK, _, _⟩ := this hc
  exact ⟨hK.cleared0, hK.clients⟩

end Afkak.ClientNet
